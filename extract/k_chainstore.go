package main

// Regenerated facts for C14 (issuance chains stored outside the backend): the `tls:"minlen,maxlen"` bounds and
// the field order of the four extra-data layouts FixLogLeaf discriminates (types.go), and the order in which
// FixLogLeaf tries them (trillian/ctfe/services.go).

import (
	"fmt"
	"go/ast"
	"reflect"
	"strconv"
	"strings"
)

type tlsField struct {
	name, typ string
	min, max  string
}

func structFields(rel, name string) []tlsField {
	f := parseFile(rp(rel))
	var out []tlsField
	found := false
	ast.Inspect(f, func(n ast.Node) bool {
		ts, ok := n.(*ast.TypeSpec)
		if !ok || ts.Name.Name != name {
			return true
		}
		st, ok := ts.Type.(*ast.StructType)
		if !ok {
			panic(bail{fmt.Sprintf("%s: %s is not a struct", rel, name)})
		}
		found = true
		for _, fl := range st.Fields.List {
			tf := tlsField{typ: src(fl.Type), min: "0", max: "0"}
			if fl.Tag != nil {
				raw, _ := strconv.Unquote(fl.Tag.Value)
				tag := reflect.StructTag(raw).Get("tls")
				for _, part := range strings.Split(tag, ",") {
					kv := strings.SplitN(part, ":", 2)
					if len(kv) != 2 {
						if part != "" {
							panic(bail{fmt.Sprintf("%s: %s: unsupported tls tag part %q", rel, name, part)})
						}
						continue
					}
					if _, err := strconv.ParseUint(kv[1], 10, 64); err != nil {
						panic(bail{fmt.Sprintf("%s: %s: tls tag value %q is not a number", rel, name, part)})
					}
					switch kv[0] {
					case "minlen":
						tf.min = kv[1]
					case "maxlen":
						tf.max = kv[1]
					default:
						panic(bail{fmt.Sprintf("%s: %s: unsupported tls tag key %q", rel, name, kv[0])})
					}
				}
			}
			if len(fl.Names) != 1 {
				panic(bail{fmt.Sprintf("%s: %s: embedded or multi-name field", rel, name)})
			}
			tf.name = fl.Names[0].Name
			out = append(out, tf)
		}
		return false
	})
	if !found {
		panic(bail{fmt.Sprintf("%s: type %s not found", rel, name)})
	}
	return out
}

// layoutUnit emits `def <lean> : List (String × String × Nat × Nat)` = (field, Go type, minlen, maxlen) in field order.
func layoutUnit(rel, name, lean string) func() string {
	return func() string {
		var rows []string
		for _, f := range structFields(rel, name) {
			rows = append(rows, fmt.Sprintf("(%q, %q, %s, %s)", f.name, f.typ, f.min, f.max))
		}
		return fmt.Sprintf("/-- generated from %s: `type %s struct` (field, Go type, tls minlen, tls maxlen) -/\ndef %s : List (String × String × Nat × Nat) :=\n  [%s]\n", rel, name, lean, strings.Join(rows, ", "))
	}
}

// fixOrder: the order in which FixLogLeaf declares the variables it tries to unmarshal into.
func fixOrder(rel string) func() string {
	return func() string {
		fd := mustFunc(rel, "indirectIssuanceChainService.FixLogLeaf")
		var order []string
		for _, s := range fd.Body.List { // top level only: the nested declarations are chains, not layouts
			ds, ok := s.(*ast.DeclStmt)
			if !ok {
				continue
			}
			gd := ds.Decl.(*ast.GenDecl)
			for _, sp := range gd.Specs {
				vs, ok := sp.(*ast.ValueSpec)
				if ok && vs.Type != nil && strings.HasPrefix(src(vs.Type), "ct.") {
					order = append(order, strings.TrimPrefix(src(vs.Type), "ct."))
				}
			}
		}
		// each declaration must be followed by `if rest, err := tls.Unmarshal(leaf.ExtraData, &v); err == nil && len(rest) == 0`
		n := 0
		for _, s := range fd.Body.List {
			is, ok := s.(*ast.IfStmt)
			if ok && is.Init != nil && strings.Contains(src(is.Init), "tls.Unmarshal(leaf.ExtraData") && src(is.Cond) == "err == nil && len(rest) == 0" {
				n++
			}
		}
		if n != len(order) {
			panic(bail{fmt.Sprintf("%s: FixLogLeaf: %d layout declarations but %d complete-parse attempts", rel, len(order), n)})
		}
		return fmt.Sprintf("/-- generated from %s func FixLogLeaf: the layouts in the order they are tried (each with `err == nil && len(rest) == 0`) -/\ndef fixOrder : List String :=\n  %s\n", rel, leanStrList(order))
	}
}

func init() {
	t := "types.go"
	register(genFile{name: "ChainStore", imports: nil, units: []unit{
		{"ASN1Cert", layoutUnit(t, "ASN1Cert", "layoutASN1Cert")},
		{"PrecertChainEntryHash", layoutUnit(t, "PrecertChainEntryHash", "layoutPrecertChainEntryHash")},
		{"CertificateChainHash", layoutUnit(t, "CertificateChainHash", "layoutCertificateChainHash")},
		{"PrecertChainEntry", layoutUnit(t, "PrecertChainEntry", "layoutPrecertChainEntry")},
		{"CertificateChain", layoutUnit(t, "CertificateChain", "layoutCertificateChain")},
		{"fixOrder", fixOrder("trillian/ctfe/services.go")},
	}})
}
