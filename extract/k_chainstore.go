package main

// Regenerated facts for C14 (issuance chains stored outside the backend): the `tls:"minlen,maxlen"` bounds and
// the field order of the four extra-data layouts FixLogLeaf discriminates (types.go), and the order in which
// FixLogLeaf tries them (trillian/ctfe/services.go).

import (
	"fmt"
	"go/ast"
	"reflect"
	"strconv"
	"strings"
)

type tlsField struct {
	name, typ string
	min, max  string
}

func structFields(rel, name string) []tlsField {
	f := parseFile(rp(rel))
	var out []tlsField
	found := false
	ast.Inspect(f, func(n ast.Node) bool {
		ts, ok := n.(*ast.TypeSpec)
		if !ok || ts.Name.Name != name {
			return true
		}
		st, ok := ts.Type.(*ast.StructType)
		if !ok {
			panic(bail{fmt.Sprintf("%s: %s is not a struct", rel, name)})
		}
		found = true
		for _, fl := range st.Fields.List {
			tf := tlsField{typ: src(fl.Type), min: "0", max: "0"}
			if fl.Tag != nil {
				raw, _ := strconv.Unquote(fl.Tag.Value)
				tag := reflect.StructTag(raw).Get("tls")
				for _, part := range strings.Split(tag, ",") {
					kv := strings.SplitN(part, ":", 2)
					if len(kv) != 2 {
						if part != "" {
							panic(bail{fmt.Sprintf("%s: %s: unsupported tls tag part %q", rel, name, part)})
						}
						continue
					}
					if _, err := strconv.ParseUint(kv[1], 10, 64); err != nil {
						panic(bail{fmt.Sprintf("%s: %s: tls tag value %q is not a number", rel, name, part)})
					}
					switch kv[0] {
					case "minlen":
						tf.min = kv[1]
					case "maxlen":
						tf.max = kv[1]
					default:
						panic(bail{fmt.Sprintf("%s: %s: unsupported tls tag key %q", rel, name, kv[0])})
					}
				}
			}
			if len(fl.Names) != 1 {
				panic(bail{fmt.Sprintf("%s: %s: embedded or multi-name field", rel, name)})
			}
			tf.name = fl.Names[0].Name
			out = append(out, tf)
		}
		return false
	})
	if !found {
		panic(bail{fmt.Sprintf("%s: type %s not found", rel, name)})
	}
	return out
}

// layoutUnit emits `def <lean> : List (String × String × Nat × Nat)` = (field, Go type, minlen, maxlen) in field order.
func layoutUnit(rel, name, lean string) func() string {
	return func() string {
		var rows []string
		for _, f := range structFields(rel, name) {
			rows = append(rows, fmt.Sprintf("(%q, %q, %s, %s)", f.name, f.typ, f.min, f.max))
		}
		return fmt.Sprintf("/-- generated from %s: `type %s struct` (field, Go type, tls minlen, tls maxlen) -/\ndef %s : List (String × String × Nat × Nat) :=\n  [%s]\n", rel, name, lean, strings.Join(rows, ", "))
	}
}

// fixOrder: the order in which FixLogLeaf declares the variables it tries to unmarshal into.
func fixOrder(rel string) func() string {
	return func() string {
		fd := mustFunc(rel, "indirectIssuanceChainService.FixLogLeaf")
		var order []string
		n := 0
		// top level only (the nested declarations are chains, not layouts), in source order; a same-file helper that is handed
		// leaf.ExtraData (`if …, ok := decodeX(leaf.ExtraData); ok {`) contributes its own declarations / attempts at that point.
		// Each declaration must be followed by `if rest, err := tls.Unmarshal(<data>, &v); err == nil && len(rest) == 0`
		var scan func(list []ast.Stmt, data string, depth int)
		scan = func(list []ast.Stmt, data string, depth int) {
			for _, st := range list {
				switch x := st.(type) {
				case *ast.DeclStmt:
					for _, sp := range x.Decl.(*ast.GenDecl).Specs {
						vs, ok := sp.(*ast.ValueSpec)
						if ok && vs.Type != nil && strings.HasPrefix(src(vs.Type), "ct.") {
							order = append(order, strings.TrimPrefix(src(vs.Type), "ct."))
						}
					}
				case *ast.IfStmt:
					if x.Init == nil {
						continue
					}
					if strings.Contains(src(x.Init), "tls.Unmarshal("+data+",") && src(x.Cond) == "err == nil && len(rest) == 0" {
						n++
						continue
					}
					as, ok := x.Init.(*ast.AssignStmt)
					if !ok || len(as.Rhs) != 1 || depth > 0 {
						continue
					}
					c, ok := as.Rhs[0].(*ast.CallExpr)
					if !ok {
						continue
					}
					id, ok := c.Fun.(*ast.Ident)
					if !ok || len(c.Args) != 1 || src(c.Args[0]) != data {
						continue
					}
					h := findFunc(parseFile(rp(rel)), id.Name)
					if h == nil || h.Recv != nil || h.Type.Params.NumFields() != 1 || len(h.Type.Params.List[0].Names) != 1 {
						continue
					}
					scan(h.Body.List, h.Type.Params.List[0].Names[0].Name, depth+1)
				}
			}
		}
		scan(fd.Body.List, "leaf.ExtraData", 0)
		if n != len(order) {
			panic(bail{fmt.Sprintf("%s: FixLogLeaf: %d layout declarations but %d complete-parse attempts", rel, len(order), n)})
		}
		return fmt.Sprintf("/-- generated from %s func FixLogLeaf: the layouts in the order they are tried (each with `err == nil && len(rest) == 0`) -/\ndef fixOrder : List String :=\n  %s\n", rel, leanStrList(order))
	}
}

// hashCheckFlag: does getByHash compare the SHA-256 of the bytes it got (from the cache or from the storage) with the
// hash it looked up, before returning or caching them?
//
// Anchored on calls and data flow, not on statement text or local names: the chain variable is whatever receives the
// result of `….cache.Get(…)`, the hash is the function's last parameter. The body is walked path by path with one bit of
// state, "the current value of the chain variable has passed `checkIssuanceChainHash(hash, chain)`" (a call whose non-nil
// error makes the function return); an assignment to the chain variable clears the bit, branches are joined with AND
// (a branch that returns does not take part). Every `return chain, …` and every `go` statement (the detached cache fill)
// must be reached with the bit set. No check call at all: flag false (the tree as found). Some uses covered and others
// not: the unit fails.
func hashCheckFlag(rel string) func() string {
	return func() string {
		fd := mustFunc(rel, "indirectIssuanceChainService.getByHash")
		params := fd.Type.Params.List
		hashVar := params[len(params)-1].Names[len(params[len(params)-1].Names)-1].Name
		// the chain variables: whatever receives the result of ….cache.Get / ….storage.FindByKey (one variable or two)
		chainVars := map[string]bool{}
		ast.Inspect(fd.Body, func(n ast.Node) bool {
			if as, ok := n.(*ast.AssignStmt); ok && len(as.Rhs) == 1 {
				if cn := callName(as.Rhs[0]); strings.HasSuffix(cn, ".cache.Get") || strings.HasSuffix(cn, ".storage.FindByKey") {
					if id, ok := as.Lhs[0].(*ast.Ident); ok {
						chainVars[id.Name] = true
					}
				}
			}
			return true
		})
		if len(chainVars) == 0 {
			panic(bail{rel + ": getByHash no longer reads ….cache.Get / ….storage.FindByKey into a variable"})
		}
		checkedVar := func(e ast.Expr) string {
			c, ok := e.(*ast.CallExpr)
			if ok && src(c.Fun) == "checkIssuanceChainHash" && len(c.Args) == 2 && src(c.Args[0]) == hashVar && chainVars[src(c.Args[1])] {
				return src(c.Args[1])
			}
			return ""
		}
		returnsErr := func(b *ast.BlockStmt) bool {
			if len(b.List) == 0 {
				return false
			}
			r, ok := b.List[len(b.List)-1].(*ast.ReturnStmt)
			return ok && len(r.Results) == 2 && src(r.Results[1]) != "nil"
		}
		terminates := func(list []ast.Stmt) bool {
			if len(list) == 0 {
				return false
			}
			_, ok := list[len(list)-1].(*ast.ReturnStmt)
			return ok
		}
		covered, uncovered, checks := 0, 0, 0
		use := func(ok bool) {
			if ok {
				covered++
			} else {
				uncovered++
			}
		}
		type cset map[string]bool
		cp := func(c cset) cset {
			o := cset{}
			for k, v := range c {
				o[k] = v
			}
			return o
		}
		meet := func(a, b cset) cset {
			o := cset{}
			for k := range a {
				if b[k] {
					o[k] = true
				}
			}
			return o
		}
		var walk func(list []ast.Stmt, checked cset) cset
		walk = func(list []ast.Stmt, checked cset) cset {
			pending := "" // `err = checkIssuanceChainHash(hash, v)` seen, waiting for `if err != nil { return }`
			for _, st := range list {
				switch x := st.(type) {
				case *ast.AssignStmt:
					if len(x.Rhs) == 1 && checkedVar(x.Rhs[0]) != "" {
						pending = checkedVar(x.Rhs[0])
						continue
					}
					for _, l := range x.Lhs {
						if chainVars[src(l)] {
							delete(checked, src(l))
						}
					}
				case *ast.IfStmt:
					if as, ok := x.Init.(*ast.AssignStmt); ok && len(as.Rhs) == 1 && checkedVar(as.Rhs[0]) != "" && src(x.Cond) == "err != nil" && returnsErr(x.Body) && x.Else == nil {
						checked[checkedVar(as.Rhs[0])] = true
						checks++
						continue
					}
					if pending != "" && x.Init == nil && src(x.Cond) == "err != nil" && returnsErr(x.Body) && x.Else == nil {
						checked[pending] = true
						pending = ""
						checks++
						continue
					}
					var outs []cset
					thenState := walk(x.Body.List, cp(checked))
					if !terminates(x.Body.List) {
						outs = append(outs, thenState)
					}
					switch e := x.Else.(type) {
					case nil:
						outs = append(outs, cp(checked))
					case *ast.BlockStmt:
						es := walk(e.List, cp(checked))
						if !terminates(e.List) {
							outs = append(outs, es)
						}
					case *ast.IfStmt:
						outs = append(outs, walk([]ast.Stmt{e}, cp(checked)))
					}
					if len(outs) == 0 {
						checked = cset{}
					} else {
						checked = outs[0]
						for _, o := range outs[1:] {
							checked = meet(checked, o)
						}
					}
				case *ast.BlockStmt:
					checked = walk(x.List, checked)
				case *ast.ReturnStmt:
					if len(x.Results) > 0 && chainVars[src(x.Results[0])] {
						use(checked[src(x.Results[0])])
					}
				case *ast.GoStmt:
					// the detached cache fill: every chain variable it mentions must have passed the check
					ok, any := true, false
					ast.Inspect(x, func(n ast.Node) bool {
						if id, isId := n.(*ast.Ident); isId && chainVars[id.Name] {
							any = true
							if !checked[id.Name] {
								ok = false
							}
						}
						return true
					})
					use(ok && any)
				case *ast.SwitchStmt, *ast.ForStmt, *ast.RangeStmt, *ast.SelectStmt, *ast.TypeSwitchStmt, *ast.LabeledStmt, *ast.BranchStmt:
					failf(st, "getByHash left the analysed subset (%T)", st)
				}
				pending = ""
			}
			return checked
		}
		walk(fd.Body.List, cset{})
		flag := false
		switch {
		case checks == 0:
		case uncovered == 0 && covered > 0:
			h := findFunc(parseFile(rp(rel)), "checkIssuanceChainHash")
			if h == nil || h.Type.Params.NumFields() != 2 {
				panic(bail{rel + ": checkIssuanceChainHash(hash, chain) not found"})
			}
			var pn []string
			for _, f := range h.Type.Params.List {
				for _, n := range f.Names {
					pn = append(pn, n.Name)
				}
			}
			ok := false
			if len(h.Body.List) == 2 {
				is, isIf := h.Body.List[0].(*ast.IfStmt)
				if isIf && is.Init == nil && is.Else == nil && returnsErrOnly(is.Body) && src(h.Body.List[1]) == "return nil" {
					cond := strings.ReplaceAll(src(is.Cond), " ", "")
					a1 := "!bytes.Equal(issuanceChainHash(" + pn[1] + ")," + pn[0] + ")"
					a2 := "!bytes.Equal(" + pn[0] + ",issuanceChainHash(" + pn[1] + "))"
					ok = cond == a1 || cond == a2
				}
			}
			if !ok {
				panic(bail{rel + ": checkIssuanceChainHash is not the recognised comparison: " + src(h.Body)})
			}
			ih := findFunc(parseFile(rp(rel)), "issuanceChainHash")
			if ih == nil || !strings.Contains(src(ih.Body), "sha256.Sum256(") {
				panic(bail{rel + ": issuanceChainHash is no longer SHA-256"})
			}
			flag = true
		default:
			panic(bail{fmt.Sprintf("%s: getByHash checks the hash on %d of its %d ways of handing out / caching a chain", rel, covered, covered+uncovered)})
		}
		return fmt.Sprintf("/-- generated from %s func getByHash (path analysis): every `return <chain>, …` and the detached cache fill are reached only\nafter `checkIssuanceChainHash(<hash>, <chain>)` succeeded on the bytes handed out (helper: `!bytes.Equal(issuanceChainHash(chain), hash)` ⇒ error) -/\ndef getByHashVerifiesHash : Bool := %v\n", rel, flag)
	}
}

func returnsErrOnly(b *ast.BlockStmt) bool {
	if len(b.List) != 1 {
		return false
	}
	r, ok := b.List[0].(*ast.ReturnStmt)
	return ok && len(r.Results) == 1 && src(r.Results[0]) != "nil"
}

// buildCheckFlag: does the external-storage BuildLogLeaf refuse a chain whose extra data cannot be TLS-encoded, before it
// stores anything? Anchored on the calls, with local aliases resolved (`x := raw[0]`, `y := raw[1:]` hoisted out are the
// same thing): a top-level `if _, err := util.ExtraDataForChain(<leaf>, <rest>, isPrecert); err != nil { return nil, … }`
// before the statement that calls `s.add`, where <leaf> / <rest> resolve to element 0 / the tail of the result of
// extractRawCerts, and the later calls use the same two things: asn1.Marshal(<rest>) and BuildLogLeafWithChainHash(…, <leaf>, …).
func buildCheckFlag(rel string) func() string {
	return func() string {
		fd := mustFunc(rel, "indirectIssuanceChainService.BuildLogLeaf")
		alias := map[string]string{}
		rawVar := ""
		resolve := func(e ast.Expr) string {
			t := strings.ReplaceAll(src(e), " ", "")
			for i := 0; i < 4; i++ {
				if v, ok := alias[t]; ok {
					t = v
				}
			}
			return t
		}
		for _, st := range fd.Body.List {
			as, ok := st.(*ast.AssignStmt)
			if !ok || len(as.Lhs) != len(as.Rhs) {
				continue
			}
			for i := range as.Lhs {
				id, ok := as.Lhs[i].(*ast.Ident)
				if !ok {
					continue
				}
				if callName(as.Rhs[i]) == "extractRawCerts" {
					rawVar = id.Name
					continue
				}
				switch as.Rhs[i].(type) {
				case *ast.IndexExpr, *ast.SliceExpr, *ast.Ident:
					alias[id.Name] = resolve(as.Rhs[i])
				}
			}
		}
		if rawVar == "" {
			panic(bail{rel + ": indirect BuildLogLeaf no longer calls extractRawCerts"})
		}
		leaf, rest := rawVar+"[0]", rawVar+"[1:]"
		checkAt, addAt := -1, -1
		var helper *ast.FuncDecl
		var helperAlias map[string]string
		for i, st := range fd.Body.List {
			if is, ok := st.(*ast.IfStmt); ok && is.Init != nil {
				if as, ok := is.Init.(*ast.AssignStmt); ok && len(as.Rhs) == 1 && callName(as.Rhs[0]) == "util.ExtraDataForChain" {
					c := as.Rhs[0].(*ast.CallExpr)
					if len(c.Args) != 3 || resolve(c.Args[0]) != leaf || resolve(c.Args[1]) != rest || src(c.Args[2]) != "isPrecert" {
						failf(is, "encoding check on other arguments than (leaf, rest of the chain, isPrecert)")
					}
					if src(is.Cond) != "err != nil" || is.Else != nil || len(is.Body.List) != 1 || !strings.HasPrefix(src(is.Body.List[0]), "return nil, ") || src(is.Body.List[0]) == "return nil, nil" {
						failf(is, "unrecognised encoding check")
					}
					if checkAt < 0 {
						checkAt = i
					}
				}
			}
			if addAt < 0 && strings.Contains(src(st), "s.add(ctx, ") {
				addAt = i
			}
			// the storing step may sit in a helper method of the same service (one level): `… := s.helper(ctx, rest)`
			if addAt < 0 {
				ast.Inspect(st, func(n ast.Node) bool {
					c, ok := n.(*ast.CallExpr)
					if !ok || addAt >= 0 {
						return true
					}
					sel, ok := c.Fun.(*ast.SelectorExpr)
					if !ok || src(sel.X) != "s" || sel.Sel.Name == "add" {
						return true
					}
					h := findFunc(parseFile(rp(rel)), "indirectIssuanceChainService."+sel.Sel.Name)
					if h == nil || !strings.Contains(src(h.Body), "s.add(ctx, ") {
						return true
					}
					var pn []string
					for _, f := range h.Type.Params.List {
						for _, nm := range f.Names {
							pn = append(pn, nm.Name)
						}
					}
					if len(pn) != len(c.Args) {
						return true
					}
					addAt = i
					helper = h
					helperAlias = map[string]string{}
					for k, a := range c.Args {
						helperAlias[pn[k]] = resolve(a)
					}
					return true
				})
			}
		}
		if addAt < 0 {
			panic(bail{rel + ": indirect BuildLogLeaf no longer calls s.add"})
		}
		if checkAt > addAt {
			panic(bail{rel + ": the encoding check comes after the chain has been stored"})
		}
		// what is stored / built later is the same leaf and rest
		same := 0
		count := func(body *ast.BlockStmt, res func(ast.Expr) string) {
			ast.Inspect(body, func(n ast.Node) bool {
				c, ok := n.(*ast.CallExpr)
				if !ok {
					return true
				}
				switch src(c.Fun) {
				case "asn1.Marshal":
					if len(c.Args) == 1 && res(c.Args[0]) == rest {
						same++
					}
				case "util.BuildLogLeafWithChainHash":
					if len(c.Args) == 6 && res(c.Args[3]) == leaf {
						same++
					}
				}
				return true
			})
		}
		count(fd.Body, resolve)
		if helper != nil {
			count(helper.Body, func(e ast.Expr) string {
				t := strings.ReplaceAll(src(e), " ", "")
				if v, ok := helperAlias[t]; ok {
					return v
				}
				return t
			})
		}
		if same != 2 {
			panic(bail{rel + ": indirect BuildLogLeaf does not store asn1.Marshal(rest of the chain) / build the leaf from element 0"})
		}
		return fmt.Sprintf("/-- generated from %s func indirectIssuanceChainService.BuildLogLeaf (local aliases resolved): before `s.add`, the chain is\nrefused unless `util.ExtraDataForChain(leaf, rest, isPrecert)` — the in-backend extra data of the same leaf and rest that are stored — can be encoded -/\ndef indirectBuildChecksEncoding : Bool := %v\n", rel, checkAt >= 0)
	}
}

// fixErrorFacts: how the two readers treat a FixLogLeaf failure. rpcGetLeavesByRange: a `for _, leaf := range rsp.Leaves`
// whose body is exactly `if err := …FixLogLeaf(ctx, leaf); err != nil { return nil, <status>, … }` followed by
// `return rsp, http.StatusOK, nil`; rpcGetEntryAndProof: the same `if` on rsp.Leaf.
func fixErrorFacts(rel string) func() string {
	return func() string {
		status := func(fn string) (string, *ast.IfStmt) {
			fd := mustFunc(rel, fn)
			ss := findStmts(fd, func(s ast.Stmt) bool {
				is, ok := s.(*ast.IfStmt)
				return ok && is.Init != nil && strings.Contains(src(is.Init), ".FixLogLeaf(ctx, ")
			})
			if len(ss) != 1 {
				panic(bail{fmt.Sprintf("%s: expected one FixLogLeaf call in %s, found %d", rel, fn, len(ss))})
			}
			is := ss[0].(*ast.IfStmt)
			if src(is.Cond) != "err != nil" || len(is.Body.List) != 1 || is.Else != nil {
				failf(is, "FixLogLeaf failure is not answered by a single return")
			}
			r, ok := is.Body.List[0].(*ast.ReturnStmt)
			if !ok || len(r.Results) != 3 || src(r.Results[0]) != "nil" {
				failf(is, "FixLogLeaf failure is not answered by `return nil, <status>, err`")
			}
			v, ok := httpStatus[src(r.Results[1])]
			if !ok {
				failf(r, "unknown status %s", src(r.Results[1]))
			}
			return strconv.Itoa(v), is
		}
		rs, rif := status("rpcGetLeavesByRange")
		es, _ := status("rpcGetEntryAndProof")
		// the range loop
		fd := mustFunc(rel, "rpcGetLeavesByRange")
		every := false
		for i, st := range fd.Body.List {
			fs, ok := st.(*ast.RangeStmt)
			if !ok {
				continue
			}
			if src(fs.X) == "rsp.Leaves" && len(fs.Body.List) == 1 && fs.Body.List[0] == ast.Stmt(rif) && i+1 < len(fd.Body.List) &&
				src(fd.Body.List[i+1]) == "return rsp, http.StatusOK, nil" && i+2 == len(fd.Body.List) {
				every = true
			}
		}
		if !every {
			panic(bail{rel + ": rpcGetLeavesByRange is not `for … range rsp.Leaves { if err := FixLogLeaf…; err != nil { return nil, status, … } }; return rsp, http.StatusOK, nil`"})
		}
		return fmt.Sprintf("/-- generated from %s func rpcGetLeavesByRange: status returned when FixLogLeaf fails on any leaf of the reply\n(the loop visits every leaf of `rsp.Leaves`, its body is only this check, and the reply is returned whole afterwards) -/\ndef rangeFixErrorStatus : Nat := %s\n/-- generated from %s func rpcGetEntryAndProof: status returned when FixLogLeaf fails -/\ndef entryFixErrorStatus : Nat := %s\n", rel, rs, rel, es)
	}
}

func init() {
	t := "types.go"
	register(genFile{name: "ChainStore", imports: nil, units: []unit{
		{"ASN1Cert", layoutUnit(t, "ASN1Cert", "layoutASN1Cert")},
		{"PrecertChainEntryHash", layoutUnit(t, "PrecertChainEntryHash", "layoutPrecertChainEntryHash")},
		{"CertificateChainHash", layoutUnit(t, "CertificateChainHash", "layoutCertificateChainHash")},
		{"PrecertChainEntry", layoutUnit(t, "PrecertChainEntry", "layoutPrecertChainEntry")},
		{"CertificateChain", layoutUnit(t, "CertificateChain", "layoutCertificateChain")},
		{"fixOrder", fixOrder("trillian/ctfe/services.go")},
		{"getByHashVerifiesHash", hashCheckFlag("trillian/ctfe/services.go")},
		{"fixErrorFacts", fixErrorFacts("trillian/ctfe/handlers.go")},
		{"indirectBuildChecksEncoding", buildCheckFlag("trillian/ctfe/services.go")},
	}})
}

// ---- deepening round: whole bodies of the external-storage service -------------------------------------------------------

func init() {
	sv := "trillian/ctfe/services.go"
	register(genFile{name: "ChainStoreBodies", imports: []string{"CTV.Basic.I64", "CTV.Basic.ErrKind"}, units: []unit{
		// getByHash: (what is handed back: 0 nothing / 1 the chain, is-error, "the detached cache fill was started")
		{"getByHashBody", handlerKernel(sv, "indirectIssuanceChainService.getByHash", "getByHashBody",
			"(cacheFails cacheHit findFails hashBad : Bool)", "Nat × Bool × Bool", "let filled_ := false\n  ", "(0, false, filled_)",
			Spec{Kind: "u64", Lazy: true, Inline: false, Ret: "statusstate", StateVars: []string{"filled_"}, Ignore: []string{"klog."},
				Status:   map[string]int{"nil": 0, "*": 1},
				ErrCalls: map[string]string{"s.cache.Get": "cacheFails", "s.storage.FindByKey": "findFails", "checkIssuanceChainHash": "hashBad"},
				AppendEffect: map[string]string{"stmt:go": "filled_ := true"},
				Repl:         map[string]string{"chain != nil": "cacheHit", "chain == nil": "(!cacheHit)", "cached != nil": "cacheHit", "cached == nil": "(!cacheHit)"}})},
		// add: (what is handed back: 0 nothing / 1 the hash, is-error, "storage.Add succeeded", "cache fill started")
		{"addBody", handlerKernel(sv, "indirectIssuanceChainService.add", "addBody",
			"(cacheFails cacheHit addFails : Bool)", "Nat × Bool × Bool × Bool", "let stored_ := false\n  let filled_ := false\n  ", "(0, false, stored_, filled_)",
			Spec{Kind: "u64", Lazy: true, Canon: true, Ret: "statusstate", StateVars: []string{"stored_", "filled_"}, Ignore: []string{"klog."},
				Bind:     map[string]string{"issuanceChainHash": "hash"},
				Status:   map[string]int{"nil": 0, "*": 1},
				ErrCalls: map[string]string{"s.storage.Add": "addFails|stored_ := (!addFails)", "s.cache.Get": "cacheFails"},
				IgnoreLHS: []string{"cachedChain"},
				Repl:         map[string]string{"cachedChain != nil": "cacheHit", "err == nil": "(!cacheFails)"},
				AppendEffect: map[string]string{"stmt:go": "filled_ := true"}})},
		// FixLogLeaf: (returned nil, which layout was rewritten: 0 none / 1 PrecertChainEntryHash / 2 CertificateChainHash, "leaf.ExtraData was assigned")
		{"fixLogLeafBody", handlerKernel(sv, "indirectIssuanceChainService.FixLogLeaf", "fixLogLeafBody",
			"(leafNil isPCEH isCCH isPCE isCC hashNonEmpty lookupFails derBad derTrailing encFails : Bool)", "Bool × Nat × Bool", "let form_ := (0 : Nat)\n  let assigned_ := false\n  ", "(true, form_, assigned_)",
			Spec{Kind: "u64", Lazy: true, Inline: true, Ret: "errboolstate", StateVars: []string{"form_", "assigned_"}, Ignore: []string{"klog."},
				ErrCalls: map[string]string{"s.getByHash": "lookupFails", "asn1.Unmarshal": "derBad", "tls.Marshal(precertChain": "encFails|form_ := (1 : Nat)", "tls.Marshal(certChain": "encFails|form_ := (2 : Nat)",
					"tls.Marshal(ct.PrecertChainEntry{": "encFails|form_ := (1 : Nat)", "tls.Marshal(ct.CertificateChain{": "encFails|form_ := (2 : Nat)"},
				InitCond: map[string]string{
					"rest, err := tls.Unmarshal(leaf.ExtraData, &precertChainHash) ; err == nil && len(rest) == 0": "isPCEH",
					"rest, err := tls.Unmarshal(leaf.ExtraData, &certChainHash) ; err == nil && len(rest) == 0":    "isCCH",
					"rest, err := tls.Unmarshal(leaf.ExtraData, &precertChain) ; err == nil && len(rest) == 0":     "isPCE",
					"rest, err := tls.Unmarshal(leaf.ExtraData, &certChain) ; err == nil && len(rest) == 0":        "isCC",
					"rest, err := asn1.Unmarshal(chainBytes, &chain) ; err != nil":                                  "derBad",
					"rest, err := asn1.Unmarshal(chainBytes, &entries) ; err != nil":                                "derBad"},
				AppendEffect: map[string]string{"stmt:leaf.ExtraData=extraData": "assigned_ := true"},
				Repl: map[string]string{"leaf == nil": "leafNil", "len(rest) > 0": "derTrailing", "len(hash) == 0": "(!hashNonEmpty)", "len(hash) > 0": "hashNonEmpty",
					"len(precertChainHash.IssuanceChainHash) > 0": "hashNonEmpty", "len(certChainHash.IssuanceChainHash) > 0": "hashNonEmpty",
					"len(precertChainHash.IssuanceChainHash) == 0": "(!hashNonEmpty)", "len(certChainHash.IssuanceChainHash) == 0": "(!hashNonEmpty)"}})},
		// the external-storage BuildLogLeaf: (is-error, "the chain was handed to add")
		{"indirectBuildBody", handlerKernel(sv, "indirectIssuanceChainService.BuildLogLeaf", "indirectBuildBody",
			"(encodingFails derFails addFails leafFails : Bool)", "Nat × Bool × Bool", "let added_ := false\n  ", "(0, false, added_)",
			Spec{Kind: "u64", Lazy: true, Canon: true, Inline: true, Ret: "statusstate", StateVars: []string{"added_"}, Ignore: []string{"klog."},
				Status: map[string]int{"nil": 0, "*": 1},
				ErrCalls: map[string]string{"asn1.Marshal": "derFails", "s.add": "addFails|added_ := (!addFails)", "util.BuildLogLeafWithChainHash": "leafFails"},
				InitCondByCall: map[string]string{".ExtraDataForChain": "encodingFails"}})},
		{"directBuildBody", handlerKernel(sv, "directIssuanceChainService.BuildLogLeaf", "directBuildBody",
			"(leafFails : Bool)", "Nat × Bool", "", "(0, false)",
			Spec{Kind: "u64", Lazy: true, Ret: "statusstate", Ignore: []string{"klog."}, Status: map[string]int{"nil": 0, "leaf": 1},
				ErrCalls: map[string]string{"util.BuildLogLeaf": "leafFails"}})},
		{"directFixBody", handlerKernel(sv, "directIssuanceChainService.FixLogLeaf", "directFixBody", "", "Bool", "", "true",
			Spec{Kind: "u64", Lazy: true, Ret: "errbool"})},
		{"extraLayout", layoutChoiceFact("trillian/util/log_leaf.go")},
	}})
}

// layoutChoiceFact: which of the four extra-data structs util.buildLogLeaf encodes, as a function of "a chain hash was given"
// and isPrecert: buildLogLeaf branches on `chainHash == nil` / `!= nil` between ExtraDataForChain and ExtraDataForChainHash, each
// of which branches on isPrecert between two `ct.<Struct>{…}` literals.
func layoutChoiceFact(rel string) func() string {
	return func() string {
		pick := func(fn string) (string, string) { // (struct when isPrecert, struct otherwise)
			fd := mustFunc(rel, fn)
			var yes, no string
			for _, st := range findStmts(fd, func(s ast.Stmt) bool { is, ok := s.(*ast.IfStmt); return ok && is.Init == nil }) {
				is := st.(*ast.IfStmt)
				c := norm(src(is.Cond))
				if c != "isPrecert" && c != "!isPrecert" {
					continue
				}
				lit := func(list []ast.Stmt) string {
					out := ""
					for _, s := range list {
						ast.Inspect(s, func(n ast.Node) bool {
							if cl, ok := n.(*ast.CompositeLit); ok && strings.HasPrefix(src(cl.Type), "ct.") && out == "" {
								out = strings.TrimPrefix(src(cl.Type), "ct.")
							}
							return true
						})
					}
					return out
				}
				eb, ok := is.Else.(*ast.BlockStmt)
				if !ok {
					failf(is, "isPrecert branch without else")
				}
				yes, no = lit(is.Body.List), lit(eb.List)
				if c == "!isPrecert" {
					yes, no = no, yes
				}
			}
			if yes == "" || no == "" {
				panic(bail{rel + ": " + fn + " does not choose between two ct.<Struct> literals on isPrecert"})
			}
			return yes, no
		}
		cp, cn := pick("ExtraDataForChain")
		hp, hn := pick("ExtraDataForChainHash")
		fd := mustFunc(rel, "buildLogLeaf")
		okShape := false
		// the choice is made in buildLogLeaf itself or in a same-file helper that is handed chainHash (one level)
		type cand struct {
			fd *ast.FuncDecl
			hv string
		}
		cands := []cand{{fd, "chainHash"}}
		ast.Inspect(fd.Body, func(n ast.Node) bool {
			c, ok := n.(*ast.CallExpr)
			if !ok {
				return true
			}
			id, ok := c.Fun.(*ast.Ident)
			if !ok {
				return true
			}
			h := findFunc(parseFile(rp(rel)), id.Name)
			if h == nil || h.Recv != nil {
				return true
			}
			var pn []string
			for _, f := range h.Type.Params.List {
				for _, nm := range f.Names {
					pn = append(pn, nm.Name)
				}
			}
			for k, a := range c.Args {
				if src(a) == "chainHash" && k < len(pn) && len(pn) == len(c.Args) {
					cands = append(cands, cand{h, pn[k]})
				}
			}
			return true
		})
		for _, cd := range cands {
			var visit func(list []ast.Stmt)
			visit = func(list []ast.Stmt) {
				for i, st := range list {
					is, ok := st.(*ast.IfStmt)
					if !ok || is.Init != nil {
						continue
					}
					c := norm(src(is.Cond))
					if c != cd.hv+"==nil" && c != cd.hv+"!=nil" {
						visit(is.Body.List)
						continue
					}
					var a, b string
					if eb, ok := is.Else.(*ast.BlockStmt); ok {
						a, b = src(is.Body), src(eb)
					} else if is.Else == nil && len(is.Body.List) > 0 {
						if _, ret := is.Body.List[len(is.Body.List)-1].(*ast.ReturnStmt); !ret {
							continue
						}
						a = src(is.Body)
						for _, r := range list[i+1:] {
							b += src(r) + "\n"
						}
					} else {
						continue
					}
					if c == cd.hv+"!=nil" {
						a, b = b, a
					}
					if strings.Contains(a, "ExtraDataForChain(") && !strings.Contains(a, "ExtraDataForChainHash(") && strings.Contains(b, "ExtraDataForChainHash(") && !strings.Contains(b, "ExtraDataForChain(") {
						okShape = true
					}
				}
			}
			visit(cd.fd.Body.List)
		}
		if !okShape {
			panic(bail{rel + ": buildLogLeaf no longer chooses ExtraDataForChain for a nil chainHash and ExtraDataForChainHash otherwise"})
		}
		return fmt.Sprintf("/-- generated from %s: the struct util.buildLogLeaf encodes as extra data (ExtraDataForChain / ExtraDataForChainHash) -/\ndef extraLayout (hashGiven isPrecert : Bool) : String :=\n  if hashGiven then (if isPrecert then %q else %q) else (if isPrecert then %q else %q)\n", rel, hp, hn, cp, cn)
	}
}
