package main

// Regenerated facts for C14 (issuance chains stored outside the backend): the `tls:"minlen,maxlen"` bounds and
// the field order of the four extra-data layouts FixLogLeaf discriminates (types.go), and the order in which
// FixLogLeaf tries them (trillian/ctfe/services.go).

import (
	"fmt"
	"go/ast"
	"reflect"
	"strconv"
	"strings"
)

type tlsField struct {
	name, typ string
	min, max  string
}

func structFields(rel, name string) []tlsField {
	f := parseFile(rp(rel))
	var out []tlsField
	found := false
	ast.Inspect(f, func(n ast.Node) bool {
		ts, ok := n.(*ast.TypeSpec)
		if !ok || ts.Name.Name != name {
			return true
		}
		st, ok := ts.Type.(*ast.StructType)
		if !ok {
			panic(bail{fmt.Sprintf("%s: %s is not a struct", rel, name)})
		}
		found = true
		for _, fl := range st.Fields.List {
			tf := tlsField{typ: src(fl.Type), min: "0", max: "0"}
			if fl.Tag != nil {
				raw, _ := strconv.Unquote(fl.Tag.Value)
				tag := reflect.StructTag(raw).Get("tls")
				for _, part := range strings.Split(tag, ",") {
					kv := strings.SplitN(part, ":", 2)
					if len(kv) != 2 {
						if part != "" {
							panic(bail{fmt.Sprintf("%s: %s: unsupported tls tag part %q", rel, name, part)})
						}
						continue
					}
					if _, err := strconv.ParseUint(kv[1], 10, 64); err != nil {
						panic(bail{fmt.Sprintf("%s: %s: tls tag value %q is not a number", rel, name, part)})
					}
					switch kv[0] {
					case "minlen":
						tf.min = kv[1]
					case "maxlen":
						tf.max = kv[1]
					default:
						panic(bail{fmt.Sprintf("%s: %s: unsupported tls tag key %q", rel, name, kv[0])})
					}
				}
			}
			if len(fl.Names) != 1 {
				panic(bail{fmt.Sprintf("%s: %s: embedded or multi-name field", rel, name)})
			}
			tf.name = fl.Names[0].Name
			out = append(out, tf)
		}
		return false
	})
	if !found {
		panic(bail{fmt.Sprintf("%s: type %s not found", rel, name)})
	}
	return out
}

// layoutUnit emits `def <lean> : List (String × String × Nat × Nat)` = (field, Go type, minlen, maxlen) in field order.
func layoutUnit(rel, name, lean string) func() string {
	return func() string {
		var rows []string
		for _, f := range structFields(rel, name) {
			rows = append(rows, fmt.Sprintf("(%q, %q, %s, %s)", f.name, f.typ, f.min, f.max))
		}
		return fmt.Sprintf("/-- generated from %s: `type %s struct` (field, Go type, tls minlen, tls maxlen) -/\ndef %s : List (String × String × Nat × Nat) :=\n  [%s]\n", rel, name, lean, strings.Join(rows, ", "))
	}
}

// fixOrder: the order in which FixLogLeaf declares the variables it tries to unmarshal into.
func fixOrder(rel string) func() string {
	return func() string {
		fd := mustFunc(rel, "indirectIssuanceChainService.FixLogLeaf")
		var order []string
		for _, s := range fd.Body.List { // top level only: the nested declarations are chains, not layouts
			ds, ok := s.(*ast.DeclStmt)
			if !ok {
				continue
			}
			gd := ds.Decl.(*ast.GenDecl)
			for _, sp := range gd.Specs {
				vs, ok := sp.(*ast.ValueSpec)
				if ok && vs.Type != nil && strings.HasPrefix(src(vs.Type), "ct.") {
					order = append(order, strings.TrimPrefix(src(vs.Type), "ct."))
				}
			}
		}
		// each declaration must be followed by `if rest, err := tls.Unmarshal(leaf.ExtraData, &v); err == nil && len(rest) == 0`
		n := 0
		for _, s := range fd.Body.List {
			is, ok := s.(*ast.IfStmt)
			if ok && is.Init != nil && strings.Contains(src(is.Init), "tls.Unmarshal(leaf.ExtraData") && src(is.Cond) == "err == nil && len(rest) == 0" {
				n++
			}
		}
		if n != len(order) {
			panic(bail{fmt.Sprintf("%s: FixLogLeaf: %d layout declarations but %d complete-parse attempts", rel, len(order), n)})
		}
		return fmt.Sprintf("/-- generated from %s func FixLogLeaf: the layouts in the order they are tried (each with `err == nil && len(rest) == 0`) -/\ndef fixOrder : List String :=\n  %s\n", rel, leanStrList(order))
	}
}

// hashCheckFlag: does getByHash compare the SHA-256 of the bytes it got (from the cache and from the storage) with the
// hash it looked up, before returning or caching them? Recognised form (the fix proposed for the C14 finding):
//
//	if err := checkIssuanceChainHash(hash, chain); err != nil { return nil, err }
//
// as an earlier statement of the block of every `return chain, …` and of the `go` statement that fills the cache, with
// a helper whose body is the comparison `!bytes.Equal(issuanceChainHash(chain), hash)` -> error. No such statement at
// all: flag false (the tree as found). Some returns covered and others not: the unit fails.
func hashCheckFlag(rel string) func() string {
	return func() string {
		fd := mustFunc(rel, "indirectIssuanceChainService.getByHash")
		isCheck := func(st ast.Stmt) bool {
			is, ok := st.(*ast.IfStmt)
			if !ok || is.Init == nil || is.Else != nil {
				return false
			}
			return src(is.Init) == "err := checkIssuanceChainHash(hash, chain)" && src(is.Cond) == "err != nil" &&
				len(is.Body.List) == 1 && src(is.Body.List[0]) == "return nil, err"
		}
		covered, uncovered, checks := 0, 0, 0
		var walk func(list []ast.Stmt)
		walk = func(list []ast.Stmt) {
			seen := false
			for _, st := range list {
				if isCheck(st) {
					seen = true
					checks++
					continue
				}
				switch x := st.(type) {
				case *ast.ReturnStmt:
					if len(x.Results) > 0 && src(x.Results[0]) == "chain" {
						if seen {
							covered++
						} else {
							uncovered++
						}
					}
				case *ast.GoStmt:
					if seen {
						covered++
					} else {
						uncovered++
					}
				case *ast.IfStmt:
					// a nested block inherits nothing: the check must be in the same block as the return
					walk(x.Body.List)
					if e, ok := x.Else.(*ast.BlockStmt); ok {
						walk(e.List)
					}
				case *ast.BlockStmt:
					walk(x.List)
				}
			}
		}
		walk(fd.Body.List)
		flag := false
		switch {
		case checks == 0:
		case uncovered == 0 && covered > 0:
			h := findFunc(parseFile(rp(rel)), "checkIssuanceChainHash")
			if h == nil {
				panic(bail{rel + ": checkIssuanceChainHash not found"})
			}
			body := src(h.Body)
			if !strings.Contains(body, "if !bytes.Equal(issuanceChainHash(chain), hash) { return fmt.Errorf(") || !strings.HasSuffix(body, "return nil }") {
				panic(bail{rel + ": checkIssuanceChainHash is not the recognised comparison: " + body})
			}
			ih := findFunc(parseFile(rp(rel)), "issuanceChainHash")
			if ih == nil || !strings.Contains(src(ih.Body), "sha256.Sum256(chain)") {
				panic(bail{rel + ": issuanceChainHash is no longer sha256.Sum256(chain)"})
			}
			flag = true
		default:
			panic(bail{fmt.Sprintf("%s: getByHash checks the hash on %d of its %d ways of handing out / caching a chain", rel, covered, covered+uncovered)})
		}
		return fmt.Sprintf("/-- generated from %s func getByHash: every `return chain, …` and the detached cache fill come after\n`if err := checkIssuanceChainHash(hash, chain); err != nil { return nil, err }` (helper: `!bytes.Equal(issuanceChainHash(chain), hash)` ⇒ error) -/\ndef getByHashVerifiesHash : Bool := %v\n", rel, flag)
	}
}

// buildCheckFlag: does the external-storage BuildLogLeaf refuse a chain whose extra data cannot be TLS-encoded, before it
// stores anything? Recognised form (the fix proposed for the C14 "poisoned range" finding), as a top-level statement before
// the one that calls s.add:  if _, err := util.ExtraDataForChain(raw[0], raw[1:], isPrecert); err != nil { return nil, … }
func buildCheckFlag(rel string) func() string {
	return func() string {
		fd := mustFunc(rel, "indirectIssuanceChainService.BuildLogLeaf")
		checkAt, addAt := -1, -1
		for i, st := range fd.Body.List {
			if is, ok := st.(*ast.IfStmt); ok && is.Init != nil && src(is.Init) == "_, err := util.ExtraDataForChain(raw[0], raw[1:], isPrecert)" {
				if src(is.Cond) != "err != nil" || is.Else != nil || len(is.Body.List) != 1 || !strings.HasPrefix(src(is.Body.List[0]), "return nil, ") || src(is.Body.List[0]) == "return nil, nil" {
					failf(is, "unrecognised encoding check")
				}
				if checkAt < 0 {
					checkAt = i
				}
			}
			if addAt < 0 && strings.Contains(src(st), "s.add(ctx, ") {
				addAt = i
			}
		}
		if addAt < 0 {
			panic(bail{rel + ": indirect BuildLogLeaf no longer calls s.add"})
		}
		if checkAt > addAt {
			panic(bail{rel + ": the encoding check comes after the chain has been stored"})
		}
		return fmt.Sprintf("/-- generated from %s func indirectIssuanceChainService.BuildLogLeaf: before `s.add`, the chain is refused unless\n`util.ExtraDataForChain(raw[0], raw[1:], isPrecert)` (the in-backend extra data) can be encoded -/\ndef indirectBuildChecksEncoding : Bool := %v\n", rel, checkAt >= 0)
	}
}

// fixErrorFacts: how the two readers treat a FixLogLeaf failure. rpcGetLeavesByRange: a `for _, leaf := range rsp.Leaves`
// whose body is exactly `if err := …FixLogLeaf(ctx, leaf); err != nil { return nil, <status>, … }` followed by
// `return rsp, http.StatusOK, nil`; rpcGetEntryAndProof: the same `if` on rsp.Leaf.
func fixErrorFacts(rel string) func() string {
	return func() string {
		status := func(fn string) (string, *ast.IfStmt) {
			fd := mustFunc(rel, fn)
			ss := findStmts(fd, func(s ast.Stmt) bool {
				is, ok := s.(*ast.IfStmt)
				return ok && is.Init != nil && strings.Contains(src(is.Init), ".FixLogLeaf(ctx, ")
			})
			if len(ss) != 1 {
				panic(bail{fmt.Sprintf("%s: expected one FixLogLeaf call in %s, found %d", rel, fn, len(ss))})
			}
			is := ss[0].(*ast.IfStmt)
			if src(is.Cond) != "err != nil" || len(is.Body.List) != 1 || is.Else != nil {
				failf(is, "FixLogLeaf failure is not answered by a single return")
			}
			r, ok := is.Body.List[0].(*ast.ReturnStmt)
			if !ok || len(r.Results) != 3 || src(r.Results[0]) != "nil" {
				failf(is, "FixLogLeaf failure is not answered by `return nil, <status>, err`")
			}
			v, ok := httpStatus[src(r.Results[1])]
			if !ok {
				failf(r, "unknown status %s", src(r.Results[1]))
			}
			return strconv.Itoa(v), is
		}
		rs, rif := status("rpcGetLeavesByRange")
		es, _ := status("rpcGetEntryAndProof")
		// the range loop
		fd := mustFunc(rel, "rpcGetLeavesByRange")
		every := false
		for i, st := range fd.Body.List {
			fs, ok := st.(*ast.RangeStmt)
			if !ok {
				continue
			}
			if src(fs.X) == "rsp.Leaves" && len(fs.Body.List) == 1 && fs.Body.List[0] == ast.Stmt(rif) && i+1 < len(fd.Body.List) &&
				src(fd.Body.List[i+1]) == "return rsp, http.StatusOK, nil" && i+2 == len(fd.Body.List) {
				every = true
			}
		}
		if !every {
			panic(bail{rel + ": rpcGetLeavesByRange is not `for … range rsp.Leaves { if err := FixLogLeaf…; err != nil { return nil, status, … } }; return rsp, http.StatusOK, nil`"})
		}
		return fmt.Sprintf("/-- generated from %s func rpcGetLeavesByRange: status returned when FixLogLeaf fails on any leaf of the reply\n(the loop visits every leaf of `rsp.Leaves`, its body is only this check, and the reply is returned whole afterwards) -/\ndef rangeFixErrorStatus : Nat := %s\n/-- generated from %s func rpcGetEntryAndProof: status returned when FixLogLeaf fails -/\ndef entryFixErrorStatus : Nat := %s\n", rel, rs, rel, es)
	}
}

func init() {
	t := "types.go"
	register(genFile{name: "ChainStore", imports: nil, units: []unit{
		{"ASN1Cert", layoutUnit(t, "ASN1Cert", "layoutASN1Cert")},
		{"PrecertChainEntryHash", layoutUnit(t, "PrecertChainEntryHash", "layoutPrecertChainEntryHash")},
		{"CertificateChainHash", layoutUnit(t, "CertificateChainHash", "layoutCertificateChainHash")},
		{"PrecertChainEntry", layoutUnit(t, "PrecertChainEntry", "layoutPrecertChainEntry")},
		{"CertificateChain", layoutUnit(t, "CertificateChain", "layoutCertificateChain")},
		{"fixOrder", fixOrder("trillian/ctfe/services.go")},
		{"getByHashVerifiesHash", hashCheckFlag("trillian/ctfe/services.go")},
		{"fixErrorFacts", fixErrorFacts("trillian/ctfe/handlers.go")},
		{"indirectBuildChecksEncoding", buildCheckFlag("trillian/ctfe/services.go")},
	}})
}
