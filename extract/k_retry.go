package main

import (
	"fmt"
	"go/ast"
	"strings"
)

// C13: back-off kernel, jitter expression, retry classification switch, constants.
func init() {
	bo := "jsonclient/backoff.go"
	cl := "jsonclient/client.go"
	register(genFile{name: "Retry", imports: []string{"CTV.Basic.I64"}, units: []unit{
		{"maxMultiplier", constKernel(bo, "maxMultiplier", "maxMultiplier", intLit)},
		{"maxJitter", constKernel(cl, "maxJitter", "maxJitter", durLit)},
		{"backoff.set", funcKernel(bo, "backoff.set", "backoffSet",
			"(bNotBefore bMultiplier now_ : Int) (override : Option Int)", "Int × Int × Int",
			Spec{Kind: "i64", Ret: "state", StateVars: []string{"bNotBefore", "bMultiplier"}, Ignore: []string{"b.mu."},
				Vars: map[string]string{"b.notBefore": "bNotBefore", "b.multiplier": "bMultiplier"},
				Repl: map[string]string{"override != nil": "override.isSome", "*override": "(override.getD 0)", "maxMultiplier": "maxMultiplier"}})},
		{"waitForBackoff.dur", waitDur(cl)},
		{"PostAndParseWithRetry.switch", retrySwitch(cl)},
		{"PostAndParseWithRetry.retryAfterSeconds", retryAfterSeconds(cl)},
	}})
}

// waitDur translates `dur := <expr>; if dur < 0 { dur = 0 }` at the top of waitForBackoff.
func waitDur(rel string) func() string {
	return func() string {
		fd := mustFunc(rel, "JSONClient.waitForBackoff")
		if len(fd.Body.List) < 2 {
			panic(bail{rel + ": waitForBackoff too short"})
		}
		t := &tr{sp: Spec{Kind: "i64", Ret: "tuple",
			Repl: map[string]string{"c.backoff.until()": "bNotBefore", "rand.Intn(int(maxJitter.Seconds()*1000))": "jitterMs_", "rand.Intn(int(maxJitter.Seconds() * 1000))": "jitterMs_"}}}
		body := t.block(fd.Body.List[:2], "dur_", "  ")
		// the jitter bound: rand.Intn(n) draws from [0, n) with n = int(maxJitter.Seconds()*1000)
		if !strings.Contains(src(fd.Body.List[0]), "rand.Intn(int(maxJitter.Seconds()*1000))") {
			panic(bail{rel + ": jitter draw is no longer rand.Intn(int(maxJitter.Seconds()*1000)): " + src(fd.Body.List[0])})
		}
		return fmt.Sprintf("/-- generated from %s func waitForBackoff: `%s; %s`; jitterMs_ is the value of rand.Intn(maxJitter in ms) -/\ndef waitDur (bNotBefore now_ jitterMs_ : Int) : Int :=\n  %s\n",
			rel, src(fd.Body.List[0]), src(fd.Body.List[1]), body)
	}
}

// assignKernelIn: like assignKernel but the assignment is identified by its right-hand side containing `marker`.
func assignKernelIn(rel, fn, lhs, marker, leanName, params, resultTy string, sp Spec) func() string {
	return func() string {
		fd := mustFunc(rel, fn)
		t := &tr{sp: sp}
		ss := findStmts(fd, func(s ast.Stmt) bool {
			a, ok := s.(*ast.AssignStmt)
			return ok && len(a.Lhs) == 1 && len(a.Rhs) == 1 && src(a.Lhs[0]) == lhs && strings.Contains(src(a.Rhs[0]), marker)
		})
		if len(ss) != 1 {
			panic(bail{fmt.Sprintf("%s: expected one assignment `%s := …%s…` in %s, found %d", rel, lhs, marker, fn, len(ss))})
		}
		return fmt.Sprintf("/-- generated from %s func %s: `%s` -/\ndef %s %s : %s :=\n  %s\n", rel, fn, src(ss[0]), leanName, params, resultTy, t.expr(ss[0].(*ast.AssignStmt).Rhs[0]))
	}
}

// retrySwitch classifies every case of `switch httpRsp.StatusCode` in PostAndParseWithRetry:
// 0 = return success, 1 = retry without touching the back-off, 2 = retry after backoff.set, 3 = return error.
func retrySwitch(rel string) func() string {
	return func() string {
		fd := mustFunc(rel, "JSONClient.PostAndParseWithRetry")
		ss := findStmts(fd, func(s ast.Stmt) bool {
			sw, ok := s.(*ast.SwitchStmt)
			return ok && sw.Tag != nil && src(sw.Tag) == "httpRsp.StatusCode"
		})
		if len(ss) != 1 {
			panic(bail{rel + ": switch httpRsp.StatusCode not found exactly once in PostAndParseWithRetry"})
		}
		sw := ss[0].(*ast.SwitchStmt)
		classOf := func(cc *ast.CaseClause) int {
			cls := 1
			for _, st := range cc.Body {
				ast.Inspect(st, func(n ast.Node) bool {
					switch x := n.(type) {
					case *ast.ReturnStmt:
						if len(x.Results) > 0 && src(x.Results[len(x.Results)-1]) == "nil" {
							cls = 0
						} else {
							cls = 3
						}
					case *ast.CallExpr:
						if src(x.Fun) == "c.backoff.set" && cls == 1 {
							cls = 2
						}
					case *ast.BranchStmt:
						if x.Tok.String() == "fallthrough" && cls == 1 {
							cls = -1
						}
					}
					return true
				})
			}
			return cls
		}
		n := len(sw.Body.List)
		classes := make([]int, n)
		for i := n - 1; i >= 0; i-- {
			c := classOf(sw.Body.List[i].(*ast.CaseClause))
			if c == -1 {
				if i+1 >= n {
					panic(bail{rel + ": fallthrough in last case"})
				}
				c = classes[i+1]
			}
			classes[i] = c
		}
		var rows []string
		def := ""
		for i, cl := range sw.Body.List {
			cc := cl.(*ast.CaseClause)
			if cc.List == nil {
				def = fmt.Sprint(classes[i])
				continue
			}
			for _, k := range cc.List {
				v, ok := fromMap(httpStatus)(k)
				if !ok {
					panic(bail{rel + ": unknown status constant " + src(k)})
				}
				rows = append(rows, fmt.Sprintf("(%s, %d)", v, classes[i]))
			}
		}
		if def == "" {
			panic(bail{rel + ": retry switch has no default"})
		}
		// the error branch above the switch: context errors returned, everything else backs off with set(nil)
		return fmt.Sprintf("/-- generated from %s func PostAndParseWithRetry: per status, 0 = return success, 1 = retry at once, 2 = retry after backoff.set, 3 = return error -/\ndef retryClass : List (Nat × Nat) :=\n  [%s]\ndef retryClassDefault : Nat := %s\n",
			rel, strings.Join(rows, ", "), def)
	}
}

// retryAfterSeconds translates the body of `if seconds, err := strconv.Atoi(retryAfter); err == nil { … backoff = &b }`
// (everything before the final `backoff = &b`) into a function of `seconds`.
func retryAfterSeconds(rel string) func() string {
	return func() string {
		fd := mustFunc(rel, "JSONClient.PostAndParseWithRetry")
		ss := findStmts(fd, func(s ast.Stmt) bool {
			is, ok := s.(*ast.IfStmt)
			return ok && is.Init != nil && strings.Contains(src(is.Init), "strconv.Atoi(")
		})
		if len(ss) != 1 {
			panic(bail{rel + ": `if seconds, err := strconv.Atoi(...)` not found exactly once in PostAndParseWithRetry"})
		}
		is := ss[0].(*ast.IfStmt)
		if src(is.Init) != "seconds, err := strconv.Atoi(retryAfter)" || src(is.Cond) != "err == nil" {
			panic(bail{rel + ": Retry-After seconds parsing changed: " + src(is.Init) + "; " + src(is.Cond)})
		}
		body := is.Body.List
		if len(body) < 2 || src(body[len(body)-1]) != "backoff = &b" {
			panic(bail{rel + ": Retry-After seconds block no longer ends in `backoff = &b`"})
		}
		t := &tr{sp: Spec{Kind: "i64", Ret: "tuple", Repl: map[string]string{"math.MaxInt64": "(9223372036854775807 : Int)", "math.MinInt64": "(-9223372036854775808 : Int)"}}}
		return fmt.Sprintf("/-- generated from %s func PostAndParseWithRetry: the duration computed from `Retry-After: <seconds>` -/\ndef retryAfterSeconds (seconds_ : Int) : Int :=\n  %s\n",
			rel, t.block(body[:len(body)-1], "b_", "  "))
	}
}
