package main

import (
	"fmt"
	"go/ast"
	"go/token"
	"math/big"
	"strings"
)

// C13: back-off kernel, jitter expression, retry classification switch, constants.
func init() {
	bo := "jsonclient/backoff.go"
	cl := "jsonclient/client.go"
	register(genFile{name: "Retry", imports: []string{"CTV.Basic.I64", "CTV.Basic.ErrKind"}, units: []unit{
		{"maxMultiplier", constKernel(bo, "maxMultiplier", "maxMultiplier", intLit)},
		{"maxJitter", constKernel(cl, "maxJitter", "maxJitter", durLit)},
		{"backoff.set", funcKernel(bo, "backoff.set", "backoffSet",
			"(bNotBefore bMultiplier now_ : Int) (override : Option Int)", "Int × Int × Int",
			Spec{Kind: "i64", Canon: true, ParamNames: []string{"override"}, Ret: "state", StateVars: []string{"bNotBefore", "bMultiplier"}, Ignore: []string{"b.mu."},
				Vars: map[string]string{"b.notBefore": "bNotBefore", "b.multiplier": "bMultiplier"},
				Repl: map[string]string{"override != nil": "override.isSome", "override == nil": "override.isNone", "*override": "(override.getD 0)", "maxMultiplier": "maxMultiplier"}})},
		{"waitForBackoff.dur", waitDur(cl)},
		// one iteration of the retry loop, statement by statement, whatever its shape (if/else + switch, one tagless switch, helpers):
		// (how the iteration ends: .ok = returned success / .passthrough = returned the error it was given / .fresh = returned an
		// RspError; what backoff.set was called with, if it was; whether the iteration returned at all — false = go round again)
		{"PostAndParseWithRetry.step", foreverBodyKernel(cl, "JSONClient.PostAndParseWithRetry", "retryStep",
			"(postErr errCanceled errDeadline : Bool) (status : Int) (raPresent secsOk : Bool) (seconds_ : Int) (dateOk : Bool) (date_ now_ : Int) (waitFails : Bool)",
			"ErrKind × Option (Option Int) × Bool", "(ErrKind.ok, set_, false)",
			Spec{Kind: "i64", Canon: true, Lazy: true, Inline: true, AddrIsSome: true, Ret: "errkind", StateVars: []string{"set_", "true"}, Status: httpStatus,
				Prelude:  "let set_ : Option (Option Int) := none\n  ",
				Ignore:   []string{"c.logger.", "klog."},
				ErrCalls: map[string]string{"c.PostAndParse": "postErr"},
				Effects:  map[string]string{"c.backoff.set": "set_ := some ($0)"},
				InitCond: map[string]string{
					`retryAfter := httpRsp.Header.Get("Retry-After") ; retryAfter != ""`: "raPresent",
					"seconds, err := strconv.Atoi(retryAfter) ; err == nil":              "secsOk",
					"date, err := time.Parse(time.RFC1123, retryAfter) ; err == nil":     "dateOk",
					`seconds, err := strconv.Atoi(httpRsp.Header.Get("Retry-After")) ; err == nil`:          "secsOk",
					`date, err := time.Parse(time.RFC1123, httpRsp.Header.Get("Retry-After")) ; err == nil`: "dateOk",
					"err := c.waitForBackoff(ctx) ; err != nil":                          "waitFails",
					"err = c.waitForBackoff(ctx) ; err != nil":                           "waitFails"},
				// an error equal to a context error is in particular non-nil
				Repl: map[string]string{"err == context.Canceled": "(postErr && errCanceled)", "err == context.DeadlineExceeded": "(postErr && errDeadline)", "httpRsp.StatusCode": "status",
					"zero:*time.Duration": "(none : Option Int)", `httpRsp.Header.Get("Retry-After") == ""`: "(!raPresent)", `httpRsp.Header.Get("Retry-After") != ""`: "raPresent",
					`retryAfter == ""`: "(!raPresent)", `retryAfter != ""`: "raPresent", "math.MaxInt64": "(9223372036854775807 : Int)", "math.MinInt64": "(-9223372036854775808 : Int)"}})},
	}})
}

// waitDur translates waitForBackoff up to the point where the timer is armed: the statements before `time.NewTimer(x)` (or
// `time.After(x)`), and x as the result. The random draw `rand.Intn(n)` is the input jitterMs_; that n is maxJitter in
// milliseconds is checked by evaluating the argument (a constant expression over maxJitter) — see constMs.
func waitDur(rel string) func() string {
	return func() string {
		fd := mustFunc(rel, "JSONClient.waitForBackoff")
		file := parseFile(rp(rel))
		t := &tr{sp: Spec{Kind: "i64", Ret: "tuple", Lazy: true, Canon: true, ParamNames: []string{"ctx"},
			Repl: map[string]string{"c.backoff.until()": "bNotBefore"}, CallRepl: map[string]string{"rand.Intn": "jitterMs_"}}, file: file}
		t.prepare(fd)
		k, arg := -1, ast.Expr(nil)
		for i, st := range fd.Body.List {
			ast.Inspect(st, func(n ast.Node) bool {
				if c, ok := n.(*ast.CallExpr); ok && k < 0 {
					if f := norm(src(c.Fun)); (f == "time.NewTimer" || f == "time.After") && len(c.Args) == 1 {
						k, arg = i, c.Args[0]
					}
				}
				return true
			})
			if k >= 0 {
				break
			}
		}
		if k < 0 {
			panic(bail{rel + ": waitForBackoff arms no timer (time.NewTimer / time.After)"})
		}
		// the bound of the jitter draw
		var bound ast.Expr
		n := 0
		ast.Inspect(fd.Body, func(nd ast.Node) bool {
			if c, ok := nd.(*ast.CallExpr); ok && norm(src(c.Fun)) == "rand.Intn" && len(c.Args) == 1 {
				bound = c.Args[0]
				n++
			}
			return true
		})
		if n != 1 {
			panic(bail{fmt.Sprintf("%s: expected exactly one rand.Intn draw in waitForBackoff, found %d", rel, n)})
		}
		ms, ok := constMs(file, bound)
		if !ok {
			panic(bail{rel + ": cannot evaluate the bound of the jitter draw: " + src(bound)})
		}
		// translate the prefix; the timer's argument is the value
		pre := fd.Body.List[:k]
		if as, ok := fd.Body.List[k].(*ast.AssignStmt); !ok || len(as.Rhs) != 1 {
			_ = as
		}
		tailStmt := &ast.ReturnStmt{Results: []ast.Expr{arg}}
		body := t.block(append(append([]ast.Stmt{}, pre...), tailStmt), "(0 : Int)", "  ")
		return fmt.Sprintf("/-- generated from %s func waitForBackoff: the duration the timer is armed with; jitterMs_ is the value of the rand.Intn draw -/\ndef waitDur (bNotBefore now_ jitterMs_ : Int) : Int :=\n  %s\n\n"+
			"/-- generated from %s func waitForBackoff: the bound of the jitter draw `rand.Intn(%s)`, evaluated (milliseconds) -/\ndef jitterBoundMs : Int := %d\n",
			rel, body, rel, src(bound), ms)
	}
}

// constMs evaluates a constant integer expression built from integer literals, time units (as nanoseconds), package-level
// constants of the file, `* /`, int(…)/time.Duration(…) conversions and d.Seconds() — exactly, as a rational.
func constMs(file *ast.File, e ast.Expr) (int64, bool) {
	v, ok := constRat(file, e, 0)
	if !ok || !v.IsInt() {
		return 0, false
	}
	return v.Num().Int64(), true
}

func constRat(file *ast.File, e ast.Expr, depth int) (*big.Rat, bool) {
	if depth > 8 {
		return nil, false
	}
	switch x := e.(type) {
	case *ast.BasicLit:
		r, ok := new(big.Rat).SetString(x.Value)
		return r, ok
	case *ast.ParenExpr:
		return constRat(file, x.X, depth+1)
	case *ast.SelectorExpr:
		if u, ok := timeUnits[src(x)]; ok {
			r, ok := new(big.Rat).SetString(u)
			return r, ok
		}
	case *ast.Ident:
		for _, d := range file.Decls {
			if gd, ok := d.(*ast.GenDecl); ok && gd.Tok == token.CONST {
				for _, sp := range gd.Specs {
					vs := sp.(*ast.ValueSpec)
					for i, n := range vs.Names {
						if n.Name == x.Name && i < len(vs.Values) {
							return constRat(file, vs.Values[i], depth+1)
						}
					}
				}
			}
		}
	case *ast.BinaryExpr:
		a, ok1 := constRat(file, x.X, depth+1)
		b, ok2 := constRat(file, x.Y, depth+1)
		if ok1 && ok2 {
			switch x.Op {
			case token.MUL:
				return new(big.Rat).Mul(a, b), true
			case token.QUO:
				if b.Sign() != 0 {
					return new(big.Rat).Quo(a, b), true
				}
			case token.ADD:
				return new(big.Rat).Add(a, b), true
			case token.SUB:
				return new(big.Rat).Sub(a, b), true
			}
		}
	case *ast.CallExpr:
		f := norm(src(x.Fun))
		if (f == "int" || f == "int64" || f == "time.Duration") && len(x.Args) == 1 {
			v, ok := constRat(file, x.Args[0], depth+1)
			if ok && v.IsInt() {
				return v, true
			}
			return nil, false
		}
		if sel, ok := x.Fun.(*ast.SelectorExpr); ok && len(x.Args) == 0 {
			v, ok := constRat(file, sel.X, depth+1)
			if ok {
				switch sel.Sel.Name {
				case "Seconds":
					return new(big.Rat).Quo(v, big.NewRat(1000000000, 1)), true
				case "Milliseconds":
					q := new(big.Rat).Quo(v, big.NewRat(1000000, 1))
					return q, true
				}
			}
		}
	}
	return nil, false
}

// assignKernelIn: like assignKernel but the assignment is identified by its right-hand side containing `marker`.
func assignKernelIn(rel, fn, lhs, marker, leanName, params, resultTy string, sp Spec) func() string {
	return func() string {
		fd := mustFunc(rel, fn)
		t := &tr{sp: sp}
		ss := findStmts(fd, func(s ast.Stmt) bool {
			a, ok := s.(*ast.AssignStmt)
			return ok && len(a.Lhs) == 1 && len(a.Rhs) == 1 && src(a.Lhs[0]) == lhs && strings.Contains(src(a.Rhs[0]), marker)
		})
		if len(ss) != 1 {
			panic(bail{fmt.Sprintf("%s: expected one assignment `%s := …%s…` in %s, found %d", rel, lhs, marker, fn, len(ss))})
		}
		return fmt.Sprintf("/-- generated from %s func %s: `%s` -/\ndef %s %s : %s :=\n  %s\n", rel, fn, src(ss[0]), leanName, params, resultTy, t.expr(ss[0].(*ast.AssignStmt).Rhs[0]))
	}
}

// retrySwitch classifies every case of `switch httpRsp.StatusCode` in PostAndParseWithRetry:
// 0 = return success, 1 = retry without touching the back-off, 2 = retry after backoff.set, 3 = return error.
func retrySwitch(rel string) func() string {
	return func() string {
		fd := mustFunc(rel, "JSONClient.PostAndParseWithRetry")
		ss := findStmts(fd, func(s ast.Stmt) bool {
			sw, ok := s.(*ast.SwitchStmt)
			return ok && sw.Tag != nil && src(sw.Tag) == "httpRsp.StatusCode"
		})
		if len(ss) != 1 {
			panic(bail{rel + ": switch httpRsp.StatusCode not found exactly once in PostAndParseWithRetry"})
		}
		sw := ss[0].(*ast.SwitchStmt)
		classOf := func(cc *ast.CaseClause) int {
			cls := 1
			for _, st := range cc.Body {
				ast.Inspect(st, func(n ast.Node) bool {
					switch x := n.(type) {
					case *ast.ReturnStmt:
						if len(x.Results) > 0 && src(x.Results[len(x.Results)-1]) == "nil" {
							cls = 0
						} else {
							cls = 3
						}
					case *ast.CallExpr:
						if src(x.Fun) == "c.backoff.set" && cls == 1 {
							cls = 2
						}
					case *ast.BranchStmt:
						if x.Tok.String() == "fallthrough" && cls == 1 {
							cls = -1
						}
					}
					return true
				})
			}
			return cls
		}
		n := len(sw.Body.List)
		classes := make([]int, n)
		for i := n - 1; i >= 0; i-- {
			c := classOf(sw.Body.List[i].(*ast.CaseClause))
			if c == -1 {
				if i+1 >= n {
					panic(bail{rel + ": fallthrough in last case"})
				}
				c = classes[i+1]
			}
			classes[i] = c
		}
		var rows []string
		def := ""
		for i, cl := range sw.Body.List {
			cc := cl.(*ast.CaseClause)
			if cc.List == nil {
				def = fmt.Sprint(classes[i])
				continue
			}
			for _, k := range cc.List {
				v, ok := fromMap(httpStatus)(k)
				if !ok {
					panic(bail{rel + ": unknown status constant " + src(k)})
				}
				rows = append(rows, fmt.Sprintf("(%s, %d)", v, classes[i]))
			}
		}
		if def == "" {
			panic(bail{rel + ": retry switch has no default"})
		}
		// the error branch above the switch: context errors returned, everything else backs off with set(nil)
		return fmt.Sprintf("/-- generated from %s func PostAndParseWithRetry: per status, 0 = return success, 1 = retry at once, 2 = retry after backoff.set, 3 = return error -/\ndef retryClass : List (Nat × Nat) :=\n  [%s]\ndef retryClassDefault : Nat := %s\n",
			rel, strings.Join(rows, ", "), def)
	}
}

// retryAfterSeconds translates the body of `if seconds, err := strconv.Atoi(retryAfter); err == nil { … backoff = &b }`
// (everything before the final `backoff = &b`) into a function of `seconds`.
func retryAfterSeconds(rel string) func() string {
	return func() string {
		fd := mustFunc(rel, "JSONClient.PostAndParseWithRetry")
		ss := findStmts(fd, func(s ast.Stmt) bool {
			is, ok := s.(*ast.IfStmt)
			return ok && is.Init != nil && strings.Contains(src(is.Init), "strconv.Atoi(")
		})
		if len(ss) != 1 {
			panic(bail{rel + ": `if seconds, err := strconv.Atoi(...)` not found exactly once in PostAndParseWithRetry"})
		}
		is := ss[0].(*ast.IfStmt)
		if src(is.Init) != "seconds, err := strconv.Atoi(retryAfter)" || src(is.Cond) != "err == nil" {
			panic(bail{rel + ": Retry-After seconds parsing changed: " + src(is.Init) + "; " + src(is.Cond)})
		}
		body := is.Body.List
		if len(body) < 2 || src(body[len(body)-1]) != "backoff = &b" {
			panic(bail{rel + ": Retry-After seconds block no longer ends in `backoff = &b`"})
		}
		t := &tr{sp: Spec{Kind: "i64", Ret: "tuple", Repl: map[string]string{"math.MaxInt64": "(9223372036854775807 : Int)", "math.MinInt64": "(-9223372036854775808 : Int)"}}}
		return fmt.Sprintf("/-- generated from %s func PostAndParseWithRetry: the duration computed from `Retry-After: <seconds>` -/\ndef retryAfterSeconds (seconds_ : Int) : Int :=\n  %s\n",
			rel, t.block(body[:len(body)-1], "b_", "  "))
	}
}
