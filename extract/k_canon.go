package main

// A source-to-source canonicaliser for the C05 / C12 units (shape units and whole-body tie units alike): it brings a
// function body that went through a behaviour-preserving restructuring back to the shape the units read, so that the
// generated Lean text does not move.  Every step is an equivalence of Go statement lists:
//
//	inline   same-file helpers (functions, methods of the same receiver) called as `return h(…)`,
//	         `x…, err := h(…); if err != nil { R(err) }` or `if err := h(…); err != nil { R(err) }`: the helper's statements
//	         with parameters replaced by arguments; its error returns become R(E); its final `return e…, nil` binds x….
//	         A helper that the unit treats as an opaque call (named in `keep`) is left alone.
//	early    `if C { return S }; REST; return S`            ⇒ `if !C { REST }; return S`        (inside an inlined helper)
//	swap     `if E == nil { A…; return/continue }; B…`     ⇒ `if E != nil { B… }; A…`           (B… ends the block)
//	         `if C { A…(≥2 stmts, terminated) }; return X`  ⇒ `if !C { return X }; A…`
//	merge    `x, err := f(); if err == nil { err = g() }; if err != nil { R }`
//	                                                        ⇒ `x, err := f(); if err != nil { R }; if err := g(); err != nil { R }`
//	errname  `v, fooErr := f()` … uses of fooErr            ⇒ `v, err := f()` … when no other `err` is in the way
//	alias    `x := a.b.c` / `x := T(a.b)` / `x := 10` defined once ⇒ substituted into the statements after it
//	         `if p != nil { return A }; return B`           ⇒ `if p == nil { return B }; return A`   (p not an error)
//	nocont   a `continue` that ends a loop body is dropped
//
// Text-based (print, substitute, re-parse), like expandHelpers; anything it does not recognise is left as it is.

import (
	"fmt"
	"go/ast"
	"go/token"
	"os"
	"regexp"
	"strings"
)

type canonCtx struct {
	rel   string
	keep  map[string]bool
	recv  string // receiver name of the function whose body is canonicalised ("" for a plain function)
	root  string // its bare name (never inlined into itself)
	depth int
}

var srcCanonCache = map[string][]ast.Stmt{}

// canonBody: the canonical statement list of function/method `fn` (bare name or Recv.Name) of file rel.
func canonBody(rel, fn string, keep ...string) []ast.Stmt {
	key := rp(rel) + "|" + fn + "|" + strings.Join(keep, ",")
	if b, ok := srcCanonCache[key]; ok {
		return b
	}
	fd := mustFunc(rel, fn)
	ctx := canonCtx{rel: rel, keep: map[string]bool{}, root: fd.Name.Name}
	for _, k := range keep {
		ctx.keep[k] = true
	}
	if fd.Recv != nil && len(fd.Recv.List) > 0 && len(fd.Recv.List[0].Names) > 0 {
		ctx.recv = fd.Recv.List[0].Names[0].Name
	}
	out := canonFix(parseStmts(stmtsSrc(fd.Body.List)), ctx, true, false)
	srcCanonCache[key] = out
	return out
}

// canonText: canonBody as the space-free text the flatSrc-based regular expressions read.
func canonText(rel, fn string, keep ...string) string {
	var sb strings.Builder
	for _, s := range canonBody(rel, fn, keep...) {
		sb.WriteString(nospace(src(s)) + ";")
	}
	return sb.String()
}

func canonFix(list []ast.Stmt, ctx canonCtx, fnTail, inLoop bool) []ast.Stmt {
	prev := ""
	for i := 0; i < 6; i++ {
		list = canonOnce(list, ctx, fnTail, inLoop)
		list = parseStmts(stmtsSrc(list))
		now := stmtsSrc(list)
		if now == prev {
			break
		}
		prev = now
	}
	return list
}

func blockOf(list []ast.Stmt) *ast.BlockStmt { return &ast.BlockStmt{List: list} }

func blockEnds(list []ast.Stmt) bool {
	if len(list) == 0 {
		return false
	}
	switch s := list[len(list)-1].(type) {
	case *ast.ReturnStmt:
		return true
	case *ast.BranchStmt:
		return s.Tok == token.CONTINUE || s.Tok == token.BREAK
	case *ast.IfStmt:
		if s.Else == nil {
			return false
		}
		eb, ok := s.Else.(*ast.BlockStmt)
		if !ok {
			return blockEnds([]ast.Stmt{s.Else}) && blockEnds(s.Body.List)
		}
		return blockEnds(s.Body.List) && blockEnds(eb.List)
	}
	return false
}

func canonOnce(list []ast.Stmt, ctx canonCtx, fnTail, inLoop bool) []ast.Stmt {
	// nested blocks first
	var rec []ast.Stmt
	for _, s := range list {
		rec = append(rec, canonNested(s, ctx))
	}
	list = rec
	list = canonInline(list, ctx)
	list = canonAliases(list)
	list = canonErrName(list)
	list = canonMerge(list)
	list = canonSwap(list, inLoop)
	list = canonSwitchTail(list)
	if inLoop && len(list) > 0 {
		if b, ok := list[len(list)-1].(*ast.BranchStmt); ok && b.Tok == token.CONTINUE && b.Label == nil {
			list = list[:len(list)-1]
		}
	}
	return list
}

func canonNested(s ast.Stmt, ctx canonCtx) ast.Stmt {
	switch x := s.(type) {
	case *ast.IfStmt:
		c := *x
		c.Body = blockOf(canonOnce(x.Body.List, ctx, false, false))
		if x.Else != nil {
			switch e := x.Else.(type) {
			case *ast.BlockStmt:
				c.Else = blockOf(canonOnce(e.List, ctx, false, false))
			default:
				c.Else = canonNested(e, ctx)
			}
		}
		return &c
	case *ast.ForStmt:
		c := *x
		c.Body = blockOf(canonOnce(x.Body.List, ctx, false, true))
		return &c
	case *ast.RangeStmt:
		c := *x
		c.Body = blockOf(canonOnce(x.Body.List, ctx, false, true))
		return &c
	case *ast.SwitchStmt:
		c := *x
		nb := *x.Body
		nb.List = nil
		for _, cl := range x.Body.List {
			cc := *(cl.(*ast.CaseClause))
			cc.Body = canonOnce(cc.Body, ctx, false, false)
			nb.List = append(nb.List, &cc)
		}
		c.Body = &nb
		return &c
	case *ast.BlockStmt:
		return blockOf(canonOnce(x.List, ctx, false, false))
	}
	return s
}

// ---------------------------------------------------------------------------------------------- inline

func (ctx canonCtx) callee(call *ast.CallExpr) (*ast.FuncDecl, string) {
	if ctx.depth > 4 {
		return nil, ""
	}
	switch f := call.Fun.(type) {
	case *ast.Ident:
		if ctx.keep[f.Name] || f.Name == ctx.root {
			return nil, ""
		}
		if fd := plainFunc(ctx.rel, f.Name); fd != nil {
			return fd, ""
		}
	case *ast.SelectorExpr:
		x, ok := f.X.(*ast.Ident)
		if !ok || ctx.recv == "" || x.Name != ctx.recv || ctx.keep[f.Sel.Name] || f.Sel.Name == ctx.root {
			return nil, ""
		}
		if fd := anyFunc(ctx.rel, f.Sel.Name); fd != nil && fd.Recv != nil {
			return fd, x.Name
		}
	}
	return nil, ""
}

func argText(e ast.Expr) string {
	switch e.(type) {
	case *ast.Ident, *ast.SelectorExpr, *ast.BasicLit, *ast.CallExpr, *ast.IndexExpr, *ast.CompositeLit:
		return src(e)
	}
	return "(" + src(e) + ")"
}

var reAddrSel = regexp.MustCompile(`\(&(\w+)\)\.`)
var reDerefAddr = regexp.MustCompile(`\*\(&(\w+)\)`)

// instantiate: the callee's statements with parameters (and receiver) replaced by the call's arguments; nil when the
// callee uses bare returns of named results or the argument count does not fit.
func (ctx canonCtx) instantiate(fd *ast.FuncDecl, call *ast.CallExpr, recvArg string) []ast.Stmt {
	ps := sigParamNames(fd)
	if len(ps) != len(call.Args) || (call.Ellipsis != token.NoPos) {
		return nil
	}
	bare := false
	ast.Inspect(fd.Body, func(n ast.Node) bool {
		if _, ok := n.(*ast.FuncLit); ok {
			return false
		}
		if r, ok := n.(*ast.ReturnStmt); ok && len(r.Results) == 0 && fd.Type.Results != nil && len(fd.Type.Results.List) > 0 {
			bare = true
		}
		return true
	})
	if bare {
		return nil
	}
	text := stmtsSrc(fd.Body.List)
	// two-step substitution so that an argument mentioning another parameter's name is not substituted again
	for i, p := range ps {
		text = substIdent(text, p, "\x00P"+string(rune('A'+i))+"\x00")
	}
	if fd.Recv != nil && len(fd.Recv.List[0].Names) > 0 && recvArg != "" {
		text = substIdent(text, fd.Recv.List[0].Names[0].Name, recvArg)
	}
	for i := range ps {
		text = strings.ReplaceAll(text, "\x00P"+string(rune('A'+i))+"\x00", argText(call.Args[i]))
	}
	text = reAddrSel.ReplaceAllString(text, "$1.")
	text = reDerefAddr.ReplaceAllString(text, "$1")
	sub := ctx
	sub.depth++
	return canonFix(parseStmts(text), sub, true, false)
}

func resultCount(fd *ast.FuncDecl) int {
	if fd.Type.Results == nil {
		return 0
	}
	n := 0
	for _, f := range fd.Type.Results.List {
		if len(f.Names) == 0 {
			n++
		} else {
			n += len(f.Names)
		}
	}
	return n
}

func isNilIdent(e ast.Expr) bool {
	id, ok := e.(*ast.Ident)
	return ok && id.Name == "nil"
}

// errTestOn: `if <v> != nil { … }` without init and else
func errTestOn(s ast.Stmt, v string) *ast.IfStmt {
	is, ok := s.(*ast.IfStmt)
	if !ok || is.Init != nil || is.Else != nil || nospace(src(is.Cond)) != v+"!=nil" {
		return nil
	}
	return is
}

// rewriteReturns replaces, in the (already canonical) statements of an inlined helper, every return but a final success
// return: an error return `return z…, E` becomes onErr(E); ok=false when a non-final success return remains.
func rewriteReturns(body []ast.Stmt, onErr func(e string) string) (string, bool) {
	ok := true
	var walkList func(list []ast.Stmt) string
	var walk func(s ast.Stmt) string
	walk = func(s ast.Stmt) string {
		switch x := s.(type) {
		case *ast.ReturnStmt:
			if len(x.Results) == 0 {
				ok = false
				return srcRaw(s)
			}
			last := x.Results[len(x.Results)-1]
			if isNilIdent(last) {
				ok = false
				return srcRaw(s)
			}
			return onErr(src(last))
		case *ast.IfStmt:
			t := "if "
			if x.Init != nil {
				t += srcRaw(x.Init) + "; "
			}
			t += srcRaw(x.Cond) + " {\n" + walkList(x.Body.List) + "\n}"
			if x.Else != nil {
				if eb, isB := x.Else.(*ast.BlockStmt); isB {
					t += " else {\n" + walkList(eb.List) + "\n}"
				} else {
					t += " else " + walk(x.Else)
				}
			}
			return t
		case *ast.BlockStmt:
			return "{\n" + walkList(x.List) + "\n}"
		case *ast.ForStmt, *ast.RangeStmt, *ast.SwitchStmt, *ast.TypeSwitchStmt, *ast.SelectStmt:
			has := false
			ast.Inspect(s, func(n ast.Node) bool {
				if _, isF := n.(*ast.FuncLit); isF {
					return false
				}
				if _, isR := n.(*ast.ReturnStmt); isR {
					has = true
				}
				return true
			})
			if has {
				ok = false
			}
			return srcRaw(s)
		}
		return srcRaw(s)
	}
	walkList = func(list []ast.Stmt) string {
		var parts []string
		for _, s := range list {
			parts = append(parts, walk(s))
		}
		return strings.Join(parts, "\n")
	}
	return walkList(body), ok
}

// earlySuccess: `if C { return S }; REST…; return S` ⇒ `if !C { REST… }; return S`
func earlySuccess(body []ast.Stmt) []ast.Stmt {
	n := len(body)
	if n < 3 {
		return body
	}
	last, ok := body[n-1].(*ast.ReturnStmt)
	if !ok {
		return body
	}
	for i := 0; i < n-1; i++ {
		is, ok := body[i].(*ast.IfStmt)
		if !ok || is.Init != nil || is.Else != nil || len(is.Body.List) != 1 {
			continue
		}
		r, ok := is.Body.List[0].(*ast.ReturnStmt)
		if !ok || src(r) != src(last) {
			continue
		}
		text := stmtsSrc(body[:i]) + "\nif " + negate(is.Cond) + " {\n" + stmtsSrc(body[i+1:n-1]) + "\n}\n" + srcRaw(last)
		return parseStmts(text)
	}
	return body
}

func negate(c ast.Expr) string {
	switch x := c.(type) {
	case *ast.BinaryExpr:
		switch x.Op {
		case token.EQL:
			return src(x.X) + " != " + src(x.Y)
		case token.NEQ:
			return src(x.X) + " == " + src(x.Y)
		}
	case *ast.UnaryExpr:
		if x.Op == token.NOT {
			if p, ok := x.X.(*ast.ParenExpr); ok {
				return src(p.X)
			}
			return src(x.X)
		}
	case *ast.Ident, *ast.CallExpr, *ast.SelectorExpr:
		return "!" + src(c)
	}
	return "!(" + src(c) + ")"
}

func canonInline(list []ast.Stmt, ctx canonCtx) []ast.Stmt {
	var out []ast.Stmt
	for i := 0; i < len(list); i++ {
		s := list[i]
		// (a) return h(args)
		if r, ok := s.(*ast.ReturnStmt); ok && len(r.Results) == 1 {
			if call, ok := r.Results[0].(*ast.CallExpr); ok {
				if fd, recvArg := ctx.callee(call); fd != nil {
					if body := ctx.instantiate(fd, call, recvArg); body != nil && blockEnds(body) {
						out = append(out, body...)
						continue
					}
				}
			}
		}
		// (b) x…, err := h(args) ; if err != nil { R }
		if a, ok := s.(*ast.AssignStmt); ok && len(a.Rhs) == 1 && len(a.Lhs) >= 1 && i+1 < len(list) {
			if call, ok := a.Rhs[0].(*ast.CallExpr); ok {
				if fd, recvArg := ctx.callee(call); fd != nil && resultCount(fd) == len(a.Lhs) {
					errVar := src(a.Lhs[len(a.Lhs)-1])
					if handler := errTestOn(list[i+1], errVar); handler != nil && blockEnds(handler.Body.List) {
						if repl, rest, ok := ctx.inlineBind(fd, call, recvArg, a, handler, list[i+2:]); ok {
							out = append(out, repl...)
							out = append(out, canonInline(rest, ctx)...)
							return out
						}
					}
				}
			}
		}
		// (c) if err := h(args); err != nil { R }
		if is, ok := s.(*ast.IfStmt); ok && is.Init != nil && is.Else == nil {
			if a, ok := is.Init.(*ast.AssignStmt); ok && len(a.Lhs) == 1 && len(a.Rhs) == 1 && nospace(src(is.Cond)) == src(a.Lhs[0])+"!=nil" && blockEnds(is.Body.List) {
				if call, ok := a.Rhs[0].(*ast.CallExpr); ok {
					if fd, recvArg := ctx.callee(call); fd != nil && resultCount(fd) == 1 {
						h := &ast.IfStmt{Cond: is.Cond, Body: is.Body}
						if repl, rest, ok := ctx.inlineBind(fd, call, recvArg, a, h, list[i+1:]); ok {
							out = append(out, repl...)
							out = append(out, canonInline(rest, ctx)...)
							return out
						}
					}
				}
			}
		}
		// (d) h(args) as a statement, h without results and without return statements
		if es, ok := s.(*ast.ExprStmt); ok {
			if call, ok := es.X.(*ast.CallExpr); ok {
				if fd, recvArg := ctx.callee(call); fd != nil && resultCount(fd) == 0 {
					hasRet := false
					ast.Inspect(fd.Body, func(n ast.Node) bool {
						if _, isR := n.(*ast.ReturnStmt); isR {
							hasRet = true
						}
						return true
					})
					if body := ctx.instantiate(fd, call, recvArg); body != nil && !hasRet {
						out = append(out, body...)
						continue
					}
				}
			}
		}
		out = append(out, s)
	}
	return out
}

// inlineBind: the helper's statements in place of `lhs… := h(args); if err != nil { handler }`; `rest` is returned with the
// helper's result expressions substituted for the left-hand sides where they are not plain identifiers.
func (ctx canonCtx) inlineBind(fd *ast.FuncDecl, call *ast.CallExpr, recvArg string, a *ast.AssignStmt, handler *ast.IfStmt, rest []ast.Stmt) ([]ast.Stmt, []ast.Stmt, bool) {
	body := ctx.instantiate(fd, call, recvArg)
	if body == nil || len(body) == 0 {
		return nil, nil, false
	}
	body = earlySuccess(body)
	last, ok := body[len(body)-1].(*ast.ReturnStmt)
	if !ok || len(last.Results) != len(a.Lhs) || !isNilIdent(last.Results[len(last.Results)-1]) {
		return nil, nil, false
	}
	errVar := src(a.Lhs[len(a.Lhs)-1])
	handlerText := stmtsSrc(handler.Body.List)
	text, ok := rewriteReturns(body[:len(body)-1], func(e string) string {
		if e == errVar {
			return handlerText
		}
		return substIdent(handlerText, errVar, e)
	})
	if !ok {
		return nil, nil, false
	}
	restText := stmtsSrc(rest)
	var binds []string
	for i := 0; i < len(a.Lhs)-1; i++ {
		l := src(a.Lhs[i])
		if l == "_" {
			continue
		}
		switch r := last.Results[i].(type) {
		case *ast.Ident:
			if r.Name != l {
				text = substIdent(text, r.Name, l)
			}
		case *ast.SelectorExpr:
			restText = substIdent(restText, l, src(r))
		case *ast.UnaryExpr:
			if r.Op == token.AND {
				restText = substIdent(restText, l, "(&"+src(r.X)+")")
				restText = reAddrSel.ReplaceAllString(restText, "$1.")
				restText = reDerefAddr.ReplaceAllString(restText, "$1")
			} else {
				binds = append(binds, l+" := "+src(r))
			}
		default:
			binds = append(binds, l+" := "+src(r))
		}
	}
	text += "\n" + strings.Join(binds, "\n")
	var restStmts []ast.Stmt
	if strings.TrimSpace(restText) != "" {
		restStmts = parseStmts(restText)
	}
	return parseStmts(text), restStmts, true
}

// ---------------------------------------------------------------------------------------------- aliases

func aliasable(e ast.Expr) bool {
	switch x := e.(type) {
	case *ast.BasicLit:
		return true
	case *ast.SelectorExpr:
		_, ok := x.X.(*ast.Ident)
		if ok {
			return true
		}
		return aliasable(x.X)
	case *ast.CallExpr: // a conversion pkg.Type(selector)
		if len(x.Args) != 1 {
			return false
		}
		if f, ok := x.Fun.(*ast.SelectorExpr); ok {
			if p, ok := f.X.(*ast.Ident); ok && strings.ToLower(p.Name) == p.Name && strings.ToUpper(f.Sel.Name[:1]) == f.Sel.Name[:1] {
				if _, isSel := x.Args[0].(*ast.SelectorExpr); isSel {
					// only type conversions: the selected name must not look like a function (no verb-ish check possible): restrict to known conversions
					return f.Sel.Name == "DigitallySigned" || f.Sel.Name == "CTExtensions"
				}
			}
		}
	}
	return false
}

func canonAliases(list []ast.Stmt) []ast.Stmt {
	changed := false
	texts := make([]string, len(list))
	for i, s := range list {
		texts[i] = srcRaw(s)
	}
	var keepIdx []int
	for i, s := range list {
		a, ok := s.(*ast.AssignStmt)
		if ok && a.Tok == token.DEFINE && len(a.Lhs) == 1 && len(a.Rhs) == 1 && aliasable(a.Rhs[0]) {
			name := src(a.Lhs[0])
			// never reassigned afterwards
			reassigned := false
			re := regexp.MustCompile(`(^|[^\w.])` + regexp.QuoteMeta(name) + `(\s*,\s*\w+)*\s*(:=|=[^=]|\+\+|--|\+=)`)
			for j := i + 1; j < len(list); j++ {
				if re.MatchString(texts[j]) {
					reassigned = true
				}
			}
			if !reassigned && name != "_" {
				val := src(a.Rhs[0])
				for j := i + 1; j < len(list); j++ {
					texts[j] = substIdent(texts[j], name, val)
				}
				changed = true
				continue
			}
		}
		keepIdx = append(keepIdx, i)
	}
	if !changed {
		return list
	}
	var parts []string
	for _, i := range keepIdx {
		parts = append(parts, texts[i])
	}
	return parseStmts(strings.Join(parts, "\n"))
}

// ---------------------------------------------------------------------------------------------- errname

var reErrName = regexp.MustCompile(`^\w*Err$`)

func canonErrName(list []ast.Stmt) []ast.Stmt {
	for i, s := range list {
		a, ok := s.(*ast.AssignStmt)
		if !ok || a.Tok != token.DEFINE || len(a.Rhs) != 1 || len(a.Lhs) == 0 {
			continue
		}
		if _, isCall := a.Rhs[0].(*ast.CallExpr); !isCall {
			continue
		}
		name := src(a.Lhs[len(a.Lhs)-1])
		if !reErrName.MatchString(name) {
			continue
		}
		useRe := regexp.MustCompile(`(^|[^\w.])` + regexp.QuoteMeta(name) + `\b`)
		defErr := regexp.MustCompile(`(^|[^\w.])err\s*(:=|=[^=])`)
		lastUse := i
		for j := i + 1; j < len(list); j++ {
			if useRe.MatchString(srcRaw(list[j])) {
				lastUse = j
			}
		}
		safe := true
		for j := i + 1; j <= lastUse; j++ {
			t := srcRaw(list[j])
			if _, isA := list[j].(*ast.AssignStmt); isA && defErr.MatchString(t) {
				safe = false
			}
			if useRe.MatchString(t) && defErr.MatchString(t) {
				safe = false
			}
		}
		// a plain use of `err` (the outer one) between definition and last use would be captured
		if safe {
			for j := i + 1; j <= lastUse; j++ {
				t := srcRaw(list[j])
				if !useRe.MatchString(t) && regexp.MustCompile(`(^|[^\w.])err\b`).MatchString(t) && !defErr.MatchString(t) {
					safe = false
				}
			}
		}
		if !safe {
			continue
		}
		var parts []string
		for j, st := range list {
			t := srcRaw(st)
			if j >= i && j <= lastUse {
				t = substIdent(t, name, "err")
			}
			parts = append(parts, t)
		}
		return canonErrName(parseStmts(strings.Join(parts, "\n")))
	}
	return list
}

// ---------------------------------------------------------------------------------------------- merge

func canonMerge(list []ast.Stmt) []ast.Stmt {
	for i := 0; i+2 < len(list); i++ {
		a, ok := list[i].(*ast.AssignStmt)
		if !ok || len(a.Lhs) == 0 || src(a.Lhs[len(a.Lhs)-1]) != "err" {
			continue
		}
		g, ok := list[i+1].(*ast.IfStmt)
		if !ok || g.Init != nil || g.Else != nil || nospace(src(g.Cond)) != "err==nil" || len(g.Body.List) != 1 {
			continue
		}
		ga, ok := g.Body.List[0].(*ast.AssignStmt)
		if !ok || ga.Tok != token.ASSIGN || len(ga.Lhs) != 1 || src(ga.Lhs[0]) != "err" || len(ga.Rhs) != 1 {
			continue
		}
		h := errTestOn(list[i+2], "err")
		if h == nil || !blockEnds(h.Body.List) {
			continue
		}
		text := stmtsSrc(list[:i+1]) + "\n" + srcRaw(h) + "\nif err := " + srcRaw(ga.Rhs[0]) + "; err != nil {\n" + stmtsSrc(h.Body.List) + "\n}\n" + stmtsSrc(list[i+3:])
		return canonMerge(parseStmts(text))
	}
	return list
}

// ---------------------------------------------------------------------------------------------- swap

func isErrIdentEqNil(c ast.Expr) bool {
	b, ok := c.(*ast.BinaryExpr)
	if !ok || b.Op != token.EQL || !isNilIdent(b.Y) {
		return false
	}
	id, ok := b.X.(*ast.Ident)
	return ok && (id.Name == "err" || reErrName.MatchString(id.Name))
}

func isNonErrNeqNil(c ast.Expr) bool {
	b, ok := c.(*ast.BinaryExpr)
	if !ok || b.Op != token.NEQ || !isNilIdent(b.Y) {
		return false
	}
	if id, ok := b.X.(*ast.Ident); ok && (id.Name == "err" || reErrName.MatchString(id.Name)) {
		return false
	}
	return true
}

func canonSwap(list []ast.Stmt, inLoop bool) []ast.Stmt {
	for i, s := range list {
		is, ok := s.(*ast.IfStmt)
		if !ok || is.Init != nil || is.Else != nil || !blockEnds(is.Body.List) {
			continue
		}
		rest := list[i+1:]
		if len(rest) == 0 || !blockEnds(rest) {
			continue
		}
		_, restIsReturn := rest[len(rest)-1].(*ast.ReturnStmt)
		if !restIsReturn {
			continue
		}
		want := false
		if isErrIdentEqNil(is.Cond) {
			want = true
		} else if len(rest) == 1 && len(is.Body.List) >= 2 {
			want = true
		} else if len(rest) == 1 && len(is.Body.List) == 1 && isNonErrNeqNil(is.Cond) {
			// `if p != nil { return A }; return B` ⇒ `if p == nil { return B }; return A` (the absent case first)
			if _, isRet := is.Body.List[0].(*ast.ReturnStmt); isRet {
				want = true
			}
		}
		if !want {
			continue
		}
		body := is.Body.List
		if inLoop {
			if b, ok := body[len(body)-1].(*ast.BranchStmt); ok && b.Tok == token.CONTINUE && b.Label == nil {
				body = body[:len(body)-1]
			}
		}
		text := stmtsSrc(list[:i]) + "\nif " + negate(is.Cond) + " {\n" + stmtsSrc(rest) + "\n}\n" + stmtsSrc(body)
		return canonSwap(parseStmts(text), inLoop)
	}
	return list
}

// ---------------------------------------------------------------------------------------------- switchtail

// canonSwitchTail: a final `switch` all of whose clauses end the function, those that succeed with the same `return nil`
// ⇒ the clauses without that return, and `return nil` after the switch.
func canonSwitchTail(list []ast.Stmt) []ast.Stmt {
	if len(list) == 0 {
		return list
	}
	sw, ok := list[len(list)-1].(*ast.SwitchStmt)
	if !ok {
		return list
	}
	n := 0
	for _, c := range sw.Body.List {
		cc := c.(*ast.CaseClause)
		if !blockEnds(cc.Body) {
			return list
		}
		if r, ok := cc.Body[len(cc.Body)-1].(*ast.ReturnStmt); ok && src(r) == "return nil" {
			n++
		} else if !returnsNonNilError(blockOf(cc.Body)) {
			return list
		}
	}
	if n == 0 {
		return list
	}
	ns := *sw
	nb := *sw.Body
	nb.List = nil
	for _, c := range sw.Body.List {
		cc := *(c.(*ast.CaseClause))
		if r, ok := cc.Body[len(cc.Body)-1].(*ast.ReturnStmt); ok && src(r) == "return nil" {
			cc.Body = cc.Body[:len(cc.Body)-1]
		}
		nb.List = append(nb.List, &cc)
	}
	ns.Body = &nb
	out := append(append([]ast.Stmt{}, list[:len(list)-1]...), &ns)
	return append(out, parseStmts("return nil")...)
}

// canonFunc: a copy of the declaration whose body is the canonical one.
func canonFunc(rel, fn string, keep ...string) *ast.FuncDecl {
	fd := *mustFunc(rel, fn)
	fd.Body = blockOf(canonBody(rel, fn, keep...))
	if os.Getenv("CANON_DEBUG") != "" && strings.Contains(fn, os.Getenv("CANON_DEBUG")) {
		fmt.Fprintf(os.Stderr, "=== canon %s %s\n%s\n", rel, fn, stmtsSrc(fd.Body.List))
	}
	return &fd
}
