package main

import (
	"fmt"
	"go/ast"
)

// Whole-body regeneration of the log client's methods (C12 deepening) and of the SignatureVerifier wrappers (C05): every
// body is translated statement by statement into a Lean function of the facts the code tests.  Kept: the ORDER of the tests,
// what each return hands back (nothing / the parsed value), whether an error accompanies it, and what kind of error it is
// (the error of the failing call passed on unchanged, or an RspError / fmt.Errorf made on the spot).
// Tied to CTV.Model.Client / CTV.Model.SigVerify in Props/C12Tie.lean and Props/C05Tie.lean.

func init() {
	lc := "client/logclient.go"
	ge := "client/getentries.go"
	jc := "jsonclient/client.go"
	ty := "types.go"
	ign := []string{"klog.", "copy", "httpReq.Header.", "vals.Add"}
	val := map[string]int{"nil": 0, "sth": 1, "sct": 1, "&resp": 1, "resp.Consistency": 1, "roots": 1, "entries": 1, "&sth": 1, "&sct": 1, "httpRsp": 1}
	bothLazy := func(name, rel, fn, lean, params string, mk func() Spec) []unit {
		return []unit{
			{name, func() string {
				a := mk()
				a.Ret, a.Status = "statusstate", val
				return handlerKernel(rel, fn, lean, params, "Nat × Bool", "", "(0, false)", a)()
			}},
			{name + ".err", func() string {
				b := mk()
				b.Ret = "errkind"
				return handlerKernel(rel, fn, lean+"Err", params, "ErrKind", "", "ErrKind.ok", b)()
			}},
		}
	}
	both := func(name, rel, fn, lean, params string, sp Spec) []unit {
		return bothLazy(name, rel, fn, lean, params, func() Spec { return sp })
	}
	var us []unit
	us = append(us, both("LogClient.GetSTH", lc, "LogClient.GetSTH", "clientGetSTH", "(getFails toSTHFails verifyFails : Bool)",
		Spec{Kind: "u64", Lazy: true, Ignore: ign,
			ErrCalls:       map[string]string{"c.GetAndParse": "getFails", "resp.ToSignedTreeHead": "toSTHFails"},
			InitCondByCall: map[string]string{".VerifySTHSignature": "verifyFails"}})...)
	us = append(us, bothLazy("GetSTHResponse.ToSignedTreeHead", ty, "GetSTHResponse.ToSignedTreeHead", "toSignedTreeHead", "(rootLenBad unmarshalFails trailing : Bool)", func() Spec {
		return Spec{Kind: "u64", Lazy: true, Ignore: ign, IgnoreLHS: []string{"sth.TreeHeadSignature"},
			InitCondByCall: map[string]string{".Unmarshal": "unmarshalFails"}, ErrCalls: map[string]string{"tls.Unmarshal": "unmarshalFails"},
			Repl: restRepl(ty, "GetSTHResponse.ToSignedTreeHead", map[string]string{"len(r.SHA256RootHash) != sha256.Size": "rootLenBad"})}
	})...)
	acParams := "(postFails unmarshalFails trailing b64Fails hasVerifier keyIDFails idPresent idDiffers verifyFails : Bool)"
	acSpec := func() Spec {
		return Spec{Kind: "u64", Lazy: true, Ignore: ign, IgnoreLHS: []string{"req.Chain"}, RangeCond: map[string]string{"chain": "false"},
			ErrCalls:       map[string]string{"c.PostAndParseWithRetry": "postFails", "base64.StdEncoding.DecodeString": "b64Fails", "logIDForKey": "keyIDFails", "tls.Unmarshal": "unmarshalFails"},
			InitCondByCall: map[string]string{".Unmarshal": "unmarshalFails", ".VerifySCTSignature": "verifyFails"},
			AppendEffect:   map[string]string{"stmt:logID.KeyID=keyID": "idIsKeyHash_ := true"},
			Repl: restRepl(lc, "LogClient.addChainWithRetry", map[string]string{"c.Verifier != nil": "hasVerifier", "c.Verifier == nil": "(!hasVerifier)",
				"len(resp.ID) != 0": "idPresent", "len(resp.ID) > 0": "idPresent", "!bytes.Equal(resp.ID, keyID[:])": "idDiffers"})}
	}
	us = append(us, unit{"LogClient.addChainWithRetry", func() string {
		acA := acSpec()
		acA.Ret, acA.Status, acA.StateVars = "statusstate", val, []string{"idIsKeyHash_"}
		return handlerKernel(lc, "LogClient.addChainWithRetry", "clientAddChain", acParams, "Nat × Bool × Bool",
			"let idIsKeyHash_ := false\n  ", "(0, false, idIsKeyHash_)", acA)()
	}})
	us = append(us, unit{"LogClient.addChainWithRetry.err", func() string {
		acB := acSpec()
		acB.Ret = "errkind"
		return handlerKernel(lc, "LogClient.addChainWithRetry", "clientAddChainErr", acParams, "ErrKind", "let idIsKeyHash_ := false\n  ", "ErrKind.ok", acB)()
	}})
	// error-only methods: the Lean Bool "an error is returned"
	us = append(us, unit{"LogClient.VerifySTHSignature", handlerKernel(lc, "LogClient.VerifySTHSignature", "clientVerifySTH", "(noVerifier verifyFails : Bool)", "Bool", "", "false",
		Spec{Kind: "u64", Lazy: true, Ignore: ign, Repl: map[string]string{"c.Verifier == nil": "noVerifier", "c.Verifier != nil": "(!noVerifier)", "nil": "false", "c.Verifier.VerifySTHSignature(sth)": "verifyFails"}})})
	us = append(us, unit{"LogClient.VerifySCTSignature", handlerKernel(lc, "LogClient.VerifySCTSignature", "clientVerifySCT", "(noVerifier leafFails verifyFails : Bool)", "Bool", "", "false",
		Spec{Kind: "u64", Lazy: true, Ignore: ign, IgnoreLHS: []string{"leaf.TimestampedEntry.Extensions"},
			ErrCalls: map[string]string{"ct.MerkleTreeLeafFromRawChain": "leafFails"},
			Repl: map[string]string{"c.Verifier == nil": "noVerifier", "c.Verifier != nil": "(!noVerifier)", "nil": "false", "c.Verifier.VerifySCTSignature(sct, entry)": "verifyFails",
				`fmt.Errorf("failed to build MerkleTreeLeaf: %v", err)`: "true"}})})
	for _, m := range [][2]string{{"GetSTHConsistency", "clientGetSTHConsistency"}, {"GetProofByHash", "clientGetProofByHash"}, {"GetEntryAndProof", "clientGetEntryAndProof"}} {
		us = append(us, both("LogClient."+m[0], lc, "LogClient."+m[0], m[1], "(getFails : Bool)",
			Spec{Kind: "u64", Lazy: true, Ignore: ign, InitCondByCall: map[string]string{".GetAndParse": "getFails"}})...)
	}
	us = append(us, both("LogClient.getRawEntries", ge, "LogClient.getRawEntries", "clientGetRawEntries", "(endNegative endBeforeStart getFails : Bool)",
		Spec{Kind: "u64", Lazy: true, Ignore: ign, ErrCalls: map[string]string{"c.GetAndParse": "getFails"},
			Repl: map[string]string{"end < 0": "endNegative", "end < start": "endBeforeStart"}})...)
	// the two methods with a loop: what one element does (the prefix "GetAndParse failed → its error" is the same statement as in the
	// other GET methods; the composition prefix → loop → hand back is `Gen.clientVerifiesBeforeReturn`-style order, checked by k_client.go)
	us = append(us, unit{"LogClient.GetAcceptedRoots.elem", loopVerdictKernel(lc, "LogClient.GetAcceptedRoots", "resp.Certificates", "cert64", "clientRootsElemFails", "(b64Fails : Bool)", "Bool", "false",
		Spec{Kind: "u64", Lazy: true, Ret: "verdict", ReturnVal: "true", Ignore: ign, IgnoreLHS: []string{"roots"}, ErrCalls: map[string]string{"base64.StdEncoding.DecodeString": "b64Fails"}})})
	us = append(us, unit{"LogClient.GetEntries.elem", loopVerdictKernel(ge, "LogClient.GetEntries", "resp.Entries", "entry", "clientEntriesElemFails", "(fatal : Bool)", "Bool", "false",
		Spec{Kind: "u64", Lazy: true, Ret: "verdict", ReturnVal: "true", Ignore: ign, IgnoreLHS: []string{"entries[i]", "index"}, Repl: map[string]string{"x509.IsFatal(err)": "fatal"}})})
	us = append(us, both("JSONClient.GetAndParse", jc, "JSONClient.GetAndParse", "jsonGetAndParse",
		"(ctxNil reqFails doFails closeFails readFails statusNot200 decodeFails : Bool)",
		Spec{Kind: "u64", Lazy: true, Ignore: ign,
			ErrCalls: map[string]string{"http.NewRequest": "reqFails", "ctxhttp.Do": "doFails", "io.ReadAll": "readFails"},
			InitCond: map[string]string{"err := httpRsp.Body.Close() ; err != nil": "closeFails",
				"err := json.NewDecoder(bytes.NewReader(body)).Decode(rsp) ; err != nil": "decodeFails"},
			Repl: map[string]string{"ctx == nil": "ctxNil", "httpRsp.StatusCode != http.StatusOK": "statusNot200", "len(c.userAgent) != 0": "false", "len(c.authorization) != 0": "false"}})...)

	// ---- C05: the SignatureVerifier wrappers, ctutil, and the whole body of tls.VerifySignature
	sg := "signatures.go"
	cu := "ctutil/ctutil.go"
	tsig := "tls/signature.go"
	var su []unit
	su = append(su, unit{"SignatureVerifier.VerifySignature", handlerKernel(sg, "SignatureVerifier.VerifySignature", "svVerifySignature", "(verifyFails : Bool)", "Bool", "", "false",
		Spec{Kind: "u64", Lazy: true, Repl: map[string]string{"tls.VerifySignature(s.PubKey, data, sig)": "verifyFails"}})})
	su = append(su, unit{"SignatureVerifier.VerifySCTSignature", handlerKernel(sg, "SignatureVerifier.VerifySCTSignature", "svVerifySCT", "(serializeFails verifyFails : Bool)", "Bool", "", "false",
		Spec{Kind: "u64", Lazy: true, ErrCalls: map[string]string{"SerializeSCTSignatureInput": "serializeFails"}, Bind: map[string]string{"SerializeSCTSignatureInput": "sctData"},
			Repl: map[string]string{"err": "true", "s.VerifySignature(sctData, tls.DigitallySigned(sct.Signature))": "verifyFails"}})})
	su = append(su, unit{"SignatureVerifier.VerifySTHSignature", handlerKernel(sg, "SignatureVerifier.VerifySTHSignature", "svVerifySTH", "(serializeFails verifyFails : Bool)", "Bool", "", "false",
		Spec{Kind: "u64", Lazy: true, ErrCalls: map[string]string{"SerializeSTHSignatureInput": "serializeFails"}, Bind: map[string]string{"SerializeSTHSignatureInput": "sthData"},
			Repl: map[string]string{"err": "true", "s.VerifySignature(sthData, tls.DigitallySigned(sth.TreeHeadSignature))": "verifyFails"}})})
	su = append(su, unit{"ctutil.VerifySCT", handlerKernel(cu, "VerifySCT", "ctutilVerifySCT", "(newVerifierFails withVerifierFails : Bool)", "Bool", "", "false",
		Spec{Kind: "u64", Lazy: true, ErrCalls: map[string]string{"ct.NewSignatureVerifier": "newVerifierFails"},
			Repl: map[string]string{`fmt.Errorf("error creating signature verifier: %s", err)`: "true", "VerifySCTWithVerifier(s, chain, sct, embedded)": "withVerifierFails"}})})
	su = append(su, unit{"ctutil.VerifySCTWithVerifier", handlerKernel(cu, "VerifySCTWithVerifier", "ctutilVerifyWithVerifier", "(svNil leafFails verifyFails : Bool)", "Bool", "", "false",
		Spec{Kind: "u64", Lazy: true, ErrCalls: map[string]string{"createLeaf": "leafFails"},
			Repl: map[string]string{"sv == nil": "svNil", `errors.New("ct.SignatureVerifier is nil")`: "true", "err": "true", "sv.VerifySCTSignature(*sct, ct.LogEntry{Leaf: *leaf})": "verifyFails"}})})
	su = append(su, unit{"tls.VerifySignature", handlerKernelExpand(tsig, "VerifySignature", "tlsVerifySignature",
		"(hashFails : Bool) (alg : Int) (keyMismatch rsaBad unmarshalFails rNonPos sNonPos exactBad dsaOk ecdsaOk : Bool)", "ErrKind", "", "ErrKind.ok",
		Spec{Kind: "i64", Lazy: true, Ret: "errkind", Ignore: []string{"log."}, IgnoreLHS: []string{"rsaKey", "dsaKey", "ecdsaKey", "ok"},
			ErrCalls: map[string]string{"generateHash": "hashFails", "asn1.Unmarshal": "unmarshalFails"},
			InitCond: map[string]string{"err := rsa.VerifyPKCS1v15(rsaKey, hashType, hash, sig.Signature) ; err != nil": "rsaBad",
				"err := checkExactDER(sig.Signature, rest, dsaSig) ; err != nil": "exactBad", "err := checkExactDER(sig.Signature, rest, ecdsaSig) ; err != nil": "exactBad"},
			Vars: map[string]string{"sig.Algorithm.Signature": "alg"},
			Repl: map[string]string{"RSA": "(1 : Int)", "DSA": "(2 : Int)", "ECDSA": "(3 : Int)", "!ok": "keyMismatch",
				"dsaSig.R.Sign() <= 0": "rNonPos", "dsaSig.S.Sign() <= 0": "sNonPos", "ecdsaSig.R.Sign() <= 0": "rNonPos", "ecdsaSig.S.Sign() <= 0": "sNonPos",
				"dsa.Verify(dsaKey, hash, dsaSig.R, dsaSig.S)": "dsaOk", "ecdsa.Verify(ecdsaKey, hash, ecdsaSig.R, ecdsaSig.S)": "ecdsaOk",
				"len(rest) != 0": "false"}})})
	register(genFile{name: "SigTie", imports: []string{"CTV.Basic.I64", "CTV.Basic.ErrKind"}, units: su})
	register(genFile{name: "ClientTie", imports: []string{"CTV.Basic.I64", "CTV.Basic.ErrKind"}, units: us})
}

// handlerKernelExpand: handlerKernel after splicing same-file `(T, error)` helpers (expandHelpers) into the function's
// top-level statements and into the clauses of its top-level switch, so that a refactoring that moves a run of checks into
// a helper gives the same kernel.  The `if err != nil { return err }` that follows a spliced helper is dropped: every error
// return of the helper is already a return of the enclosing function.
func handlerKernelExpand(rel, fn, leanName, params, resultTy, prelude, tail string, sp Spec) func() string {
	return func() string {
		fd := mustFunc(rel, fn)
		t := &tr{sp: sp, file: parseFile(rp(rel))}
		t.prepare(fd)
		body := t.block(expandDeep(rel, fd.Body.List), tail, "  ")
		return fmt.Sprintf("/-- generated from %s func %s (whole body) -/\ndef %s %s : %s :=\n  %s%s\n", rel, fn, leanName, params, resultTy, prelude, body)
	}
}

func expandDeep(rel string, list []ast.Stmt) []ast.Stmt {
	var out []ast.Stmt
	for i := 0; i < len(list); i++ {
		s := list[i]
		if sw, ok := s.(*ast.SwitchStmt); ok {
			ns := *sw
			nb := *sw.Body
			nb.List = nil
			for _, c := range sw.Body.List {
				cc := *(c.(*ast.CaseClause))
				cc.Body = expandDeep(rel, cc.Body)
				nb.List = append(nb.List, &cc)
			}
			ns.Body = &nb
			out = append(out, &ns)
			continue
		}
		ex := expandHelpers(rel, []ast.Stmt{s})
		if len(ex) == 1 && ex[0] == s {
			out = append(out, s)
			continue
		}
		out = append(out, ex...)
		if i+1 < len(list) && nospace(src(list[i+1])) == "iferr!=nil{returnerr}" {
			i++
		}
	}
	return out
}

// restRepl adds, for the variable that receives the unconsumed octets of the function's tls.Unmarshal call (whatever it is
// called), the comparisons `len(v) > 0` / `len(v) != 0` as the fact `trailing`.
func restRepl(rel, fn string, m map[string]string) map[string]string {
	{
		out := map[string]string{}
		for k, v := range m {
			out[k] = v
		}
		fd := mustFunc(rel, fn)
		ast.Inspect(fd.Body, func(n ast.Node) bool {
			a, ok := n.(*ast.AssignStmt)
			if !ok || len(a.Lhs) != 2 || len(a.Rhs) != 1 {
				return true
			}
			if c, ok := a.Rhs[0].(*ast.CallExpr); ok && nospace(src(c.Fun)) == "tls.Unmarshal" {
				v := src(a.Lhs[0])
				out["len("+v+") > 0"] = "trailing"
				out["len("+v+") != 0"] = "trailing"
			}
			return true
		})
		return out
	}
}
