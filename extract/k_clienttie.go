package main

import (
	"fmt"
	"go/ast"
	"regexp"
	"strings"
)

// Whole-body regeneration of the log client's methods (C12 deepening) and of the SignatureVerifier wrappers (C05): every
// body is translated statement by statement into a Lean function of the facts the code tests.  Kept: the ORDER of the tests,
// what each return hands back (nothing / the parsed value), whether an error accompanies it, and what kind of error it is
// (the error of the failing call passed on unchanged, or an RspError / fmt.Errorf made on the spot).
// Tied to CTV.Model.Client / CTV.Model.SigVerify in Props/C12Tie.lean and Props/C05Tie.lean.

func init() {
	lc := "client/logclient.go"
	ge := "client/getentries.go"
	jc := "jsonclient/client.go"
	ty := "types.go"
	ign := []string{"klog.", "copy", "httpReq.Header.", "vals.Add"}
	val := map[string]int{"nil": 0, "sth": 1, "sct": 1, "&resp": 1, "resp.Consistency": 1, "roots": 1, "entries": 1, "&sth": 1, "&sct": 1, "httpRsp": 1}
	bothLazy := func(name, rel, fn, lean, params string, mk func() Spec) []unit {
		return []unit{
			{name, func() string {
				a := mk()
				a.Ret, a.Status = "statusstate", val
				return hkc(rel, fn, lean, params, "Nat × Bool", "", "(0, false)", a)()
			}},
			{name + ".err", func() string {
				b := mk()
				b.Ret = "errkind"
				return hkc(rel, fn, lean+"Err", params, "ErrKind", "", "ErrKind.ok", b)()
			}},
		}
	}
	both := func(name, rel, fn, lean, params string, sp Spec) []unit {
		return bothLazy(name, rel, fn, lean, params, func() Spec { return sp })
	}
	var us []unit
	us = append(us, both("LogClient.GetSTH", lc, "LogClient.GetSTH", "clientGetSTH", "(getFails toSTHFails verifyFails : Bool)",
		Spec{Kind: "u64", Lazy: true, Ignore: ign,
			ErrCalls:       map[string]string{"c.GetAndParse": "getFails", "resp.ToSignedTreeHead": "toSTHFails"},
			InitCondByCall: map[string]string{".VerifySTHSignature": "verifyFails"}})...)
	us = append(us, bothLazy("GetSTHResponse.ToSignedTreeHead", ty, "GetSTHResponse.ToSignedTreeHead", "toSignedTreeHead", "(rootLenBad unmarshalFails trailing : Bool)", func() Spec {
		return Spec{Kind: "u64", Lazy: true, Ignore: ign, IgnoreLHS: []string{"sth.TreeHeadSignature"},
			InitCondByCall: map[string]string{".Unmarshal": "unmarshalFails"}, ErrCalls: map[string]string{"tls.Unmarshal": "unmarshalFails"},
			Repl: restRepl(ty, "GetSTHResponse.ToSignedTreeHead", map[string]string{"len(r.SHA256RootHash) != sha256.Size": "rootLenBad"})}
	})...)
	acParams := "(postFails unmarshalFails trailing b64Fails hasVerifier keyIDFails idPresent idDiffers verifyFails : Bool)"
	acSpec := func() Spec {
		return Spec{Kind: "u64", Lazy: true, Ignore: ign, IgnoreLHS: []string{"req.Chain"}, RangeCond: map[string]string{"chain": "false"},
			ErrCalls:       map[string]string{"c.PostAndParseWithRetry": "postFails", "base64.StdEncoding.DecodeString": "b64Fails", "logIDForKey": "keyIDFails", "tls.Unmarshal": "unmarshalFails"},
			InitCondByCall: map[string]string{".Unmarshal": "unmarshalFails", ".VerifySCTSignature": "verifyFails"},
			AppendEffect:   map[string]string{"stmt:logID.KeyID=keyID": "idIsKeyHash_ := true"},
			Repl: restRepl(lc, "LogClient.addChainWithRetry", map[string]string{"c.Verifier != nil": "hasVerifier", "c.Verifier == nil": "(!hasVerifier)",
				"len(resp.ID) != 0": "idPresent", "len(resp.ID) > 0": "idPresent", "!bytes.Equal(resp.ID, keyID[:])": "idDiffers"})}
	}
	us = append(us, unit{"LogClient.addChainWithRetry", func() string {
		acA := acSpec()
		acA.Ret, acA.Status, acA.StateVars = "statusstate", val, []string{"idIsKeyHash_"}
		return hkc(lc, "LogClient.addChainWithRetry", "clientAddChain", acParams, "Nat × Bool × Bool",
			"let idIsKeyHash_ := false\n  ", "(0, false, idIsKeyHash_)", acA)()
	}})
	us = append(us, unit{"LogClient.addChainWithRetry.err", func() string {
		acB := acSpec()
		acB.Ret = "errkind"
		return hkc(lc, "LogClient.addChainWithRetry", "clientAddChainErr", acParams, "ErrKind", "let idIsKeyHash_ := false\n  ", "ErrKind.ok", acB)()
	}})
	// error-only methods: the Lean Bool "an error is returned"
	us = append(us, unit{"LogClient.VerifySTHSignature", hkc(lc, "LogClient.VerifySTHSignature", "clientVerifySTH", "(noVerifier verifyFails : Bool)", "Bool", "", "false",
		Spec{Kind: "u64", Lazy: true, Ignore: ign, Repl: map[string]string{"c.Verifier == nil": "noVerifier", "c.Verifier != nil": "(!noVerifier)", "nil": "false", "c.Verifier.VerifySTHSignature(sth)": "verifyFails"}})})
	us = append(us, unit{"LogClient.VerifySCTSignature", hkc(lc, "LogClient.VerifySCTSignature", "clientVerifySCT", "(noVerifier leafFails verifyFails : Bool)", "Bool", "", "false",
		Spec{Kind: "u64", Lazy: true, Ignore: ign, IgnoreLHS: []string{"leaf.TimestampedEntry.Extensions"},
			ErrCalls: map[string]string{"ct.MerkleTreeLeafFromRawChain": "leafFails"},
			Repl: map[string]string{"c.Verifier == nil": "noVerifier", "c.Verifier != nil": "(!noVerifier)", "nil": "false", "c.Verifier.VerifySCTSignature(sct, entry)": "verifyFails",
				`fmt.Errorf("failed to build MerkleTreeLeaf: %v", err)`: "true"}})})
	for _, m := range [][2]string{{"GetSTHConsistency", "clientGetSTHConsistency"}, {"GetProofByHash", "clientGetProofByHash"}, {"GetEntryAndProof", "clientGetEntryAndProof"}} {
		us = append(us, both("LogClient."+m[0], lc, "LogClient."+m[0], m[1], "(getFails : Bool)",
			Spec{Kind: "u64", Lazy: true, Ignore: ign, InitCondByCall: map[string]string{".GetAndParse": "getFails"}, ErrCalls: map[string]string{"c.GetAndParse": "getFails"}})...)
	}
	us = append(us, both("LogClient.getRawEntries", ge, "LogClient.getRawEntries", "clientGetRawEntries", "(endNegative endBeforeStart getFails : Bool)",
		Spec{Kind: "u64", Lazy: true, Ignore: ign, ErrCalls: map[string]string{"c.GetAndParse": "getFails"},
			Repl: map[string]string{"end < 0": "endNegative", "end < start": "endBeforeStart"}})...)
	// the two methods with a loop: what one element does (the prefix "GetAndParse failed → its error" is the same statement as in the
	// other GET methods; the composition prefix → loop → hand back is `Gen.clientVerifiesBeforeReturn`-style order, checked by k_client.go)
	us = append(us, unit{"LogClient.GetAcceptedRoots.elem", lvc(lc, "LogClient.GetAcceptedRoots", "resp.Certificates", "cert64", "clientRootsElemFails", "(b64Fails : Bool)", "Bool", "false",
		Spec{Kind: "u64", Lazy: true, Ret: "verdict", ReturnVal: "true", Ignore: ign, IgnoreLHS: []string{"roots"}, ErrCalls: map[string]string{"base64.StdEncoding.DecodeString": "b64Fails"}})})
	us = append(us, unit{"LogClient.GetEntries.elem", lvc(ge, "LogClient.GetEntries", "resp.Entries", "entry", "clientEntriesElemFails", "(fatal : Bool)", "Bool", "false",
		Spec{Kind: "u64", Lazy: true, Ret: "verdict", ReturnVal: "true", Ignore: ign, IgnoreLHS: []string{"entries[i]", "index"}, Repl: map[string]string{"x509.IsFatal(err)": "fatal"}})})
	us = append(us, both("JSONClient.GetAndParse", jc, "JSONClient.GetAndParse", "jsonGetAndParse",
		"(ctxNil reqFails doFails closeFails readFails statusNot200 decodeFails : Bool)",
		Spec{Kind: "u64", Lazy: true, Ignore: ign,
			ErrCalls:       map[string]string{"http.NewRequest": "reqFails", "ctxhttp.Do": "doFails", "io.ReadAll": "readFails"},
			InitCondByCall: map[string]string{".Close": "closeFails", ".Decode": "decodeFails"},
			Repl:           map[string]string{"ctx == nil": "ctxNil", "httpRsp.StatusCode != http.StatusOK": "statusNot200", "len(c.userAgent) != 0": "false", "len(c.authorization) != 0": "false"}})...)

	// ---- C05: the SignatureVerifier wrappers, ctutil, and the whole body of tls.VerifySignature
	sg := "signatures.go"
	cu := "ctutil/ctutil.go"
	tsig := "tls/signature.go"
	var su []unit
	su = append(su, unit{"SignatureVerifier.VerifySignature", hkc(sg, "SignatureVerifier.VerifySignature", "svVerifySignature", "(verifyFails : Bool)", "Bool", "", "false",
		Spec{Kind: "u64", Lazy: true, CallRepl: map[string]string{"tls.VerifySignature": "verifyFails"}})})
	su = append(su, unit{"SignatureVerifier.VerifySCTSignature", hkc(sg, "SignatureVerifier.VerifySCTSignature", "svVerifySCT", "(serializeFails verifyFails : Bool)", "Bool", "", "false",
		Spec{Kind: "u64", Lazy: true, ErrCalls: map[string]string{"SerializeSCTSignatureInput": "serializeFails"}, Bind: map[string]string{"SerializeSCTSignatureInput": "sctData"},
			Repl: map[string]string{"err": "true"}, CallRepl: map[string]string{"tls.VerifySignature": "verifyFails"}})})
	su = append(su, unit{"SignatureVerifier.VerifySTHSignature", hkc(sg, "SignatureVerifier.VerifySTHSignature", "svVerifySTH", "(serializeFails verifyFails : Bool)", "Bool", "", "false",
		Spec{Kind: "u64", Lazy: true, ErrCalls: map[string]string{"SerializeSTHSignatureInput": "serializeFails"}, Bind: map[string]string{"SerializeSTHSignatureInput": "sthData"},
			Repl: map[string]string{"err": "true"}, CallRepl: map[string]string{"tls.VerifySignature": "verifyFails"}})})
	su = append(su, unit{"ctutil.VerifySCT", hkc(cu, "VerifySCT", "ctutilVerifySCT", "(newVerifierFails withVerifierFails : Bool)", "Bool", "", "false",
		Spec{Kind: "u64", Lazy: true, ErrCalls: map[string]string{"ct.NewSignatureVerifier": "newVerifierFails"},
			Repl: map[string]string{`fmt.Errorf("error creating signature verifier: %s", err)`: "true"}, CallRepl: map[string]string{"VerifySCTWithVerifier": "withVerifierFails"}})})
	su = append(su, unit{"ctutil.VerifySCTWithVerifier", hkc(cu, "VerifySCTWithVerifier", "ctutilVerifyWithVerifier", "(svNil leafFails verifyFails : Bool)", "Bool", "", "false",
		Spec{Kind: "u64", Lazy: true, ErrCalls: map[string]string{"createLeaf": "leafFails"},
			Repl: map[string]string{"sv == nil": "svNil", `errors.New("ct.SignatureVerifier is nil")`: "true", "err": "true"}, CallRepl: map[string]string{"sv.VerifySCTSignature": "verifyFails"}})})
	su = append(su, unit{"tls.VerifySignature", func() string {
		repl, ignLHS := sigRoles(tsig, "VerifySignature", map[string]string{"RSA": "(1 : Int)", "DSA": "(2 : Int)", "ECDSA": "(3 : Int)"})
		return hkc(tsig, "VerifySignature", "tlsVerifySignature",
			"(hashFails : Bool) (alg : Int) (keyMismatch rsaBad unmarshalFails rNonPos sNonPos exactBad dsaOk ecdsaOk : Bool)", "ErrKind", "", "ErrKind.ok",
			Spec{Kind: "i64", Lazy: true, Ret: "errkind", Ignore: []string{"log."}, IgnoreLHS: ignLHS,
				ErrCalls:       map[string]string{"generateHash": "hashFails", "asn1.Unmarshal": "unmarshalFails"},
				InitCondByCall: map[string]string{".VerifyPKCS1v15": "rsaBad", "checkExactDER": "exactBad"},
				CallRepl:       map[string]string{"dsa.Verify": "dsaOk", "ecdsa.Verify": "ecdsaOk"},
				Vars:           map[string]string{"sig.Algorithm.Signature": "alg"},
				Repl:           repl})()
	}})
	wvf := "internal/witness/verifier/verifier.go"
	wvX := "sth.WitnessSigs"
	su = append(su, unit{"WitnessVerifier.VerifySignature", hkc(wvf, "WitnessVerifier.VerifySignature", "witnessVerifySignature", "(noSigs marshalFails someValid : Bool)", "Bool", "", "false",
		Spec{Kind: "u64", Lazy: true, ErrCalls: map[string]string{"tls.Marshal": "marshalFails"},
			RangeCond: map[string]string{wvX: "someValid", "cond:" + wvX: "err := wv.SigVerifier.VerifySignature(sigData, tls.DigitallySigned(sig)) ; err == nil"},
			Repl: map[string]string{"len(sth.WitnessSigs) == 0": "noSigs", "nil": "false", `errors.New("no witness signature present in the STH")`: "true",
				`errors.New("failed to verify any signature for this witness")`: "true", `fmt.Errorf("failed to marshal internal STH: %v", err)`: "true"}})})
	register(genFile{name: "SigTie", imports: []string{"CTV.Basic.I64", "CTV.Basic.ErrKind"}, units: su})
	register(genFile{name: "ClientTie", imports: []string{"CTV.Basic.I64", "CTV.Basic.ErrKind"}, units: us})
}

// restRepl adds, for the variable that receives the unconsumed octets of the function's tls.Unmarshal call (whatever it is
// called), the comparisons `len(v) > 0` / `len(v) != 0` as the fact `trailing`.
func restRepl(rel, fn string, m map[string]string) map[string]string {
	{
		out := map[string]string{}
		for k, v := range m {
			out[k] = v
		}
		fd := canonFunc(rel, fn, tieKeep...)
		ast.Inspect(fd.Body, func(n ast.Node) bool {
			a, ok := n.(*ast.AssignStmt)
			if !ok || len(a.Lhs) != 2 || len(a.Rhs) != 1 {
				return true
			}
			if c, ok := a.Rhs[0].(*ast.CallExpr); ok && nospace(src(c.Fun)) == "tls.Unmarshal" {
				v := src(a.Lhs[0])
				out["len("+v+") > 0"] = "trailing"
				out["len("+v+") != 0"] = "trailing"
			}
			return true
		})
		return out
	}
}

// tieKeep: same-file callees the tie units treat as one fact each (everything else that is called in the same file is inlined
// by the canonicaliser of k_canon.go before the statements are translated).
var tieKeep = []string{"logIDForKey", "checkLogID", "VerifySTHSignature", "VerifySCTSignature", "getRawEntries", "generateHash", "checkExactDER",
	"VerifySCTWithVerifier", "createLeaf", "GetAndParse", "PostAndParse", "PostAndParseWithRetry", "addChainWithRetry"}

// hkc: handlerKernel on the canonical body.
func hkc(rel, fn, leanName, params, resultTy, prelude, tail string, sp Spec) func() string {
	return func() string {
		fd := canonFunc(rel, fn, tieKeep...)
		t := &tr{sp: sp, file: parseFile(rp(rel))}
		t.prepare(fd)
		body := dropDeadLets(t.block(fd.Body.List, tail, "  "))
		return fmt.Sprintf("/-- generated from %s func %s (whole body) -/\ndef %s %s : %s :=\n  %s%s\n", rel, fn, leanName, params, resultTy, prelude, body)
	}
}

var reZeroLet = regexp.MustCompile(`^(\s*)let (\w+_) := \(0 : Int\)$`)

// dropDeadLets removes `let x_ := (0 : Int)` lines (what a `var x T` or an opaque result becomes) whose name is not read again.
func dropDeadLets(body string) string {
	lines := strings.Split(body, "\n")
	var out []string
	trimNext := false
	for _, l := range lines {
		if m := reZeroLet.FindStringSubmatch(l); m != nil {
			if len(regexp.MustCompile(`\b`+m[2]+`\b`).FindAllString(body, -1)) == len(regexp.MustCompile(`(?m)^\s*let `+m[2]+` := \(0 : Int\)$`).FindAllString(body, -1)) {
				if len(out) == 0 {
					trimNext = true
				}
				continue
			}
		}
		if trimNext && len(out) == 0 {
			l = strings.TrimPrefix(l, "  ")
		}
		out = append(out, l)
	}
	return strings.Join(out, "\n")
}

// lvc: loopVerdictKernel (range loops only) on the canonical body.
func lvc(rel, fn, marker, canonVal, leanName, params, resultTy, fall string, sp Spec) func() string {
	return func() string {
		fd := canonFunc(rel, fn, tieKeep...)
		t := &tr{sp: sp, file: parseFile(rp(rel))}
		t.prepare(fd)
		var loops []*ast.RangeStmt
		ast.Inspect(fd.Body, func(n ast.Node) bool {
			if r, ok := n.(*ast.RangeStmt); ok && strings.Contains(norm(src(r.X)), norm(marker)) {
				loops = append(loops, r)
			}
			return true
		})
		if len(loops) != 1 {
			panic(bail{fmt.Sprintf("%s: expected exactly one range loop over %q in %s, found %d", rel, marker, fn, len(loops))})
		}
		r := loops[0]
		return fmt.Sprintf("/-- generated from %s func %s: body of the loop over `%s`, as a verdict per element -/\ndef %s %s : %s :=\n  %s\n",
			rel, fn, src(r.X), leanName, params, resultTy, sp.Prelude+t.block(r.Body.List, fall, "  "))
	}
}

// sigRoles: the Repl / IgnoreLHS entries of tls.VerifySignature that depend on what the locals are called: the variables that
// receive a type assertion (and its comma-ok), the `dsaSig` variables filled by asn1.Unmarshal, the rest it returns.
func sigRoles(rel, fn string, repl map[string]string) (map[string]string, []string) {
	out := map[string]string{}
	for k, v := range repl {
		out[k] = v
	}
	var ign []string
	fd := canonFunc(rel, fn, tieKeep...)
	ast.Inspect(fd.Body, func(n ast.Node) bool {
		switch x := n.(type) {
		case *ast.AssignStmt:
			if len(x.Rhs) == 1 && len(x.Lhs) == 2 {
				if _, ok := x.Rhs[0].(*ast.TypeAssertExpr); ok {
					ign = append(ign, src(x.Lhs[0]), src(x.Lhs[1]))
					out["!"+src(x.Lhs[1])] = "keyMismatch"
				}
				if c, ok := x.Rhs[0].(*ast.CallExpr); ok && nospace(src(c.Fun)) == "asn1.Unmarshal" {
					out["len("+src(x.Lhs[0])+") != 0"] = "false"
				}
			}
		case *ast.DeclStmt:
			if gd, ok := x.Decl.(*ast.GenDecl); ok {
				for _, sp := range gd.Specs {
					if vs, ok := sp.(*ast.ValueSpec); ok && vs.Type != nil && src(vs.Type) == "dsaSig" {
						for _, nm := range vs.Names {
							out[nm.Name+".R.Sign() <= 0"] = "rNonPos"
							out[nm.Name+".S.Sign() <= 0"] = "sNonPos"
						}
					}
				}
			}
		}
		return true
	})
	return out, ign
}
