package main

// Regenerated type descriptors of the ASN.1 structures the x509 package decodes with asn1.Unmarshal
// (struct fields, their Go types and their `asn1:"…"` tags) -> lean/CTV/Gen/X509Types.lean, as terms of
// CTV.Der.ATy. The envelope model of C11 (and every other property that parses certificates) is built on
// these, so changing a tag or a field in the Go source changes the Lean term the theorems are about.

import (
	"fmt"
	"go/ast"
	"go/token"
	"reflect"
	"strconv"
	"strings"
)

// fpLiteral mirrors asn1/common.go parseFieldParameters; the C11 driver re-parses every tag string with the
// Lean model of parseFieldParameters and compares (x509TagStrings below), so a slip here is reported.
func fpLiteral(tag string) string {
	if tag == "" {
		return "{}"
	}
	f := map[string]string{}
	hasTag := false
	for _, part := range strings.Split(tag, ",") {
		switch {
		case part == "optional":
			f["optional"] = "true"
		case part == "explicit":
			f["explicit"] = "true"
			if !hasTag {
				f["tag"] = "some 0"
				hasTag = true
			}
		case part == "generalized":
			f["timeType"] = "24"
		case part == "utc":
			f["timeType"] = "23"
		case part == "ia5":
			f["stringType"] = "22"
		case part == "printable":
			f["stringType"] = "19"
		case part == "numeric":
			f["stringType"] = "18"
		case part == "utf8":
			f["stringType"] = "12"
		case strings.HasPrefix(part, "default:"):
			if i, err := strconv.ParseInt(part[8:], 10, 64); err == nil {
				f["dflt"] = fmt.Sprintf("some (%d)", i)
			}
		case strings.HasPrefix(part, "tag:"):
			if i, err := strconv.Atoi(part[4:]); err == nil && i >= 0 {
				f["tag"] = fmt.Sprintf("some %d", i)
				hasTag = true
			}
		case part == "set":
			f["set"] = "true"
		case part == "application":
			f["application"] = "true"
			if !hasTag {
				f["tag"] = "some 0"
				hasTag = true
			}
		case part == "private":
			f["priv"] = "true"
			if !hasTag {
				f["tag"] = "some 0"
				hasTag = true
			}
		case part == "omitempty":
			f["omitEmpty"] = "true"
		case part == "lax":
			f["lax"] = "true"
		}
	}
	var parts []string
	for _, k := range []string{"optional", "explicit", "application", "priv", "dflt", "tag", "stringType", "timeType", "set", "omitEmpty", "lax"} {
		if v, ok := f[k]; ok {
			parts = append(parts, k+" := "+v)
		}
	}
	if len(parts) == 0 {
		return "{}"
	}
	return "{ " + strings.Join(parts, ", ") + " }"
}

var x509Tags []string // every tag string seen, for the driver's self-check

func findTypeSpec(rel, name string) *ast.TypeSpec {
	f := parseFile(rp(rel))
	for _, d := range f.Decls {
		if gd, ok := d.(*ast.GenDecl); ok && gd.Tok == token.TYPE {
			for _, s := range gd.Specs {
				ts := s.(*ast.TypeSpec)
				if ts.Name.Name == name {
					return ts
				}
			}
		}
	}
	panic(bail{fmt.Sprintf("%s: type %s not found", rel, name)})
}

// goTypeToATy translates a field / element type. Named types of the x509 and pkix packages become
// references to the generated definition `ty_<Name>`.
func goTypeToATy(e ast.Expr) string {
	switch x := e.(type) {
	case *ast.Ident:
		switch x.Name {
		case "int", "int64":
			return ".int64"
		case "int32":
			return ".int32"
		case "bool":
			return ".bool"
		case "string":
			return ".str"
		}
		return "ty_" + x.Name
	case *ast.SelectorExpr:
		switch src(x) {
		case "asn1.RawValue":
			return ".rawValue"
		case "asn1.BitString":
			return ".bitString"
		case "asn1.ObjectIdentifier":
			return ".oid"
		case "asn1.Enumerated":
			return ".enum"
		case "asn1.Flag":
			return ".flag"
		case "time.Time":
			return ".time"
		}
		if id, ok := x.X.(*ast.Ident); ok && id.Name == "pkix" {
			return "ty_" + x.Sel.Name
		}
	case *ast.StarExpr:
		if src(x) == "*big.Int" {
			return ".bigInt"
		}
	case *ast.ArrayType:
		if x.Len == nil {
			if src(x.Elt) == "byte" {
				return ".octets"
			}
			return "(.seqOf false " + goTypeToATy(x.Elt) + ")"
		}
	case *ast.InterfaceType:
		if x.Methods == nil || len(x.Methods.List) == 0 {
			return ".any"
		}
	}
	failf(e, "unsupported ASN.1 target type %s", src(e))
	return ""
}

// asn1Type emits `def ty_<name> : CTV.Der.ATy` for a struct or named slice type.
func asn1Type(rel, name string) unit {
	return unit{"ty_" + name, func() string {
		ts := findTypeSpec(rel, name)
		var body string
		switch t := ts.Type.(type) {
		case *ast.StructType:
			raw := false
			var fields []string
			idx := 0
			for _, f := range t.Fields.List {
				tag := ""
				if f.Tag != nil {
					s, _ := strconv.Unquote(f.Tag.Value)
					tag = reflect.StructTag(s).Get("asn1")
				}
				n := len(f.Names)
				if n == 0 {
					n = 1
				}
				for k := 0; k < n; k++ {
					if idx == 0 && src(f.Type) == "asn1.RawContent" {
						raw = true
						idx++
						continue
					}
					if src(f.Type) == "asn1.RawContent" {
						failf(f, "RawContent in a field other than the first")
					}
					if tag != "" {
						x509Tags = append(x509Tags, tag)
					}
					fields = append(fields, fmt.Sprintf("(.cons %s %s", fpLiteral(tag), goTypeToATy(f.Type)))
					idx++
				}
			}
			body = fmt.Sprintf(".struct %v (%s .nil%s)", raw, strings.Join(fields, " "), strings.Repeat(")", len(fields)))
			if len(fields) == 0 {
				body = fmt.Sprintf(".struct %v .nil", raw)
			}
		case *ast.ArrayType:
			if src(t.Elt) == "byte" {
				body = ".octets"
			} else {
				body = fmt.Sprintf(".seqOf %v %s", strings.HasSuffix(name, "SET"), goTypeToATy(t.Elt))
			}
		default:
			panic(bail{fmt.Sprintf("%s: type %s is neither a struct nor a slice", rel, name)})
		}
		return fmt.Sprintf("/-- generated from %s type %s -/\ndef ty_%s : CTV.Der.ATy :=\n  %s\n", rel, name, name, body)
	}}
}

func init() {
	x, p := "x509/x509.go", "x509/pkix/pkix.go"
	units := []unit{
		asn1Type(p, "AlgorithmIdentifier"),
		asn1Type(p, "AttributeTypeAndValue"),
		asn1Type(p, "RelativeDistinguishedNameSET"),
		asn1Type(p, "RDNSequence"),
		asn1Type(p, "Extension"),
		asn1Type(p, "RevokedCertificate"),
		asn1Type(p, "TBSCertificateList"),
		asn1Type(p, "CertificateList"),
		asn1Type(x, "validity"),
		asn1Type(x, "publicKeyInfo"),
		asn1Type(x, "tbsCertificate"),
		asn1Type(x, "certificate"),
		asn1Type(x, "pkixPublicKey"),
		asn1Type(x, "basicConstraints"),
		asn1Type(x, "authKeyId"),
		asn1Type(x, "tbsCertificateRequest"),
		asn1Type(x, "certificateRequest"),
		asn1Type("x509/pkcs1.go", "pkcs1AdditionalRSAPrime"),
		asn1Type("x509/pkcs1.go", "pkcs1PrivateKey"),
		asn1Type("x509/pkcs1.go", "pkcs1PublicKey"),
		asn1Type("x509/pkcs8.go", "pkcs8"),
		asn1Type("x509/sec1.go", "ecPrivateKey"),
	}
	units = append(units, unit{"x509TagStrings", func() string {
		seen := map[string]bool{}
		var rows []string
		for _, t := range x509Tags {
			if !seen[t] {
				seen[t] = true
				rows = append(rows, fmt.Sprintf("(%s, (%s : CTV.Der.FP))", strconv.Quote(t), fpLiteral(t)))
			}
		}
		return "/-- every tag string above with the field parameters the extractor derived from it (re-checked against the Lean\nmodel of parseFieldParameters by `ctvmodel C11`) -/\ndef x509TagStrings : List (String × CTV.Der.FP) :=\n  [" + strings.Join(rows, ",\n   ") + "]\n"
	}})
	// ParseCertificates: does the loop overwrite its input with Unmarshal's result before the lax retry (F7)?
	units = append(units, unit{"parseCertificatesRetryKeepsInput", func() string {
		fd := mustFunc(x, "ParseCertificates")
		bad := len(findStmts(fd, func(s ast.Stmt) bool {
			a, ok := s.(*ast.AssignStmt)
			return ok && len(a.Lhs) == 2 && src(a.Lhs[0]) == "asn1Data" && len(a.Rhs) == 1 && strings.HasPrefix(src(a.Rhs[0]), "asn1.Unmarshal(asn1Data")
		}))
		ptr := len(findStmts(fd, func(s ast.Stmt) bool {
			a, ok := s.(*ast.AssignStmt)
			return ok && len(a.Rhs) == 1 && strings.HasPrefix(src(a.Rhs[0]), "asn1.UnmarshalWithParams(") && strings.Contains(src(a.Rhs[0]), "&cert")
		}))
		return fmt.Sprintf("/-- generated from %s func ParseCertificates: the lax retry sees the same remaining input as the strict attempt and\nthe same target (false on the snapshot: the strict attempt assigns its nil remainder to asn1Data and the retry passes &cert — F7) -/\ndef parseCertificatesRetryKeepsInput : Bool := %v\n", x, bad == 0 && ptr == 0)
	}})
	register(genFile{name: "X509Types", imports: []string{"CTV.Der.Asn1"}, units: units})
}
