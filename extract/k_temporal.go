package main

// C18: the three places that draw temporal shard boundaries.
func init() {
	optRepl := func(m map[string]string) map[string]string { return m }
	cc := "trillian/ctfe/cert_checker.go"
	ml := "client/multilog.go"
	lf := "loglist3/logfilter.go"
	register(genFile{name: "Temporal", imports: []string{"CTV.Basic.I64"}, units: []unit{
		// ValidateChain: the leaf is rejected when either condition holds.
		// (anchored on the canonical view of extract/canon.go: survives renames, hoisting and helper extraction)
		{"ValidateChain.rejectStart", semCond(cc, "ValidateChain", []string{"$CertValidationOpts.notAfterStart", "Before"}, "validateChainRejectStart", "(start : Option Int) (t : Int)",
			Spec{Repl: optRepl(map[string]string{"$CertValidationOpts.notAfterStart != nil": "start.isSome", "*$CertValidationOpts.notAfterStart": "(start.getD 0)", "$elem0.NotAfter": "t"})})},
		{"ValidateChain.rejectLimit", semCond(cc, "ValidateChain", []string{"$CertValidationOpts.notAfterLimit", "Before"}, "validateChainRejectLimit", "(limit : Option Int) (t : Int)",
			Spec{Repl: map[string]string{"$CertValidationOpts.notAfterLimit != nil": "limit.isSome", "*$CertValidationOpts.notAfterLimit": "(limit.getD 0)", "$elem0.NotAfter": "t"}})},
		// IndexByDate: a shard is skipped when either condition holds; the first shard not skipped is returned.
		{"IndexByDate.skipLower", condKernel(ml, "TemporalLogClient.IndexByDate", []string{"interval.lower"}, "indexByDateSkipLower", "(lower : Option Int) (when : Int)",
			Spec{Repl: map[string]string{"interval.lower != nil": "lower.isSome", "*interval.lower": "(lower.getD 0)", "when": "when"}})},
		{"IndexByDate.skipUpper", condKernel(ml, "TemporalLogClient.IndexByDate", []string{"interval.upper"}, "indexByDateSkipUpper", "(upper : Option Int) (when : Int)",
			Spec{Repl: map[string]string{"interval.upper != nil": "upper.isSome", "*interval.upper": "(upper.getD 0)", "when": "when"}})},
		{"IndexByDate.loopShape", indexByDateShape(ml)},
		// shardInterval: refused when inverted (or empty).
		{"shardInterval.inverted", condKernel(ml, "shardInterval", []string{"interval.lower", "interval.upper", "Before"}, "shardIntervalInverted", "(lower upper : Option Int)",
			Spec{Repl: map[string]string{"interval.lower != nil": "lower.isSome", "interval.upper != nil": "upper.isSome",
				"(*interval.lower)": "(lower.getD 0)", "*interval.upper": "(upper.getD 0)"}})},
		// NewTemporalLogClient: one step of the contiguity loop; `none` = construction refused, `some u` = new overall upper bound.
		{"NewTemporalLogClient.step", loopBodyKernel(ml, "NewTemporalLogClient", "i < len(cfg.Shard)", "temporalStep",
			"(overallUpper lower upper : Option Int)", "Option (Option Int)", "some overallUpper",
			Spec{Ret: "errlast", InputCalls: []string{"shardInterval"}, IgnoreLHS: []string{"intervals"},
				Vars: map[string]string{"overall.upper": "overallUpper"},
				Repl: map[string]string{"overall.upper == nil": "overallUpper.isNone", "interval.lower == nil": "lower.isNone",
					"interval.lower": "(lower.getD 0)", "*overall.upper": "(overallUpper.getD 0)", "interval.upper": "upper"}})},
		// LogList.TemporallyCompatible: a log with an interval is kept when the condition holds.
		{"TemporallyCompatible.cond", condKernel(lf, "LogList.TemporallyCompatible", []string{"EndExclusive", "StartInclusive"}, "temporallyCompatibleCond", "(start limit t : Int)",
			Spec{Repl: map[string]string{"cert.NotAfter": "t", "l.TemporalInterval.EndExclusive": "limit", "l.TemporalInterval.StartInclusive": "start"}})},
		{"TemporallyCompatible.nilInterval", nilIntervalShape(lf)},
		// the log server's window as configured: ValidateLogConfig stores the two timestamps verbatim and refuses limit < start;
		// setUpLogInfo hands them to the validation options unchanged.
		{"ValidateLogConfig.windowRefused", condKernel("trillian/ctfe/config.go", "ValidateLogConfig", []string{"NotAfterLimit", "NotAfterStart", "Before"}, "validateLogConfigWindowRefused", "(start limit : Option Int)",
			Spec{Repl: map[string]string{"start != nil": "start.isSome", "limit != nil": "limit.isSome",
				"(*vCfg.NotAfterLimit)": "(limit.getD 0)", "*vCfg.NotAfterStart": "(start.getD 0)"}})},
		{"ValidateLogConfig.windowVerbatim", windowVerbatimShape()},
	}})
}
