package main

// C18: the three places that draw temporal shard boundaries.
// orElse runs a unit and, when it bails out, a second way of regenerating the same definition.
func orElse(first func() string, second func() string) func() string {
	return func() (out string) {
		defer func() {
			if r := recover(); r != nil {
				if _, isBail := r.(bail); !isBail {
					panic(r)
				}
				out = second()
			}
		}()
		return first()
	}
}

func init() {
	cc := "trillian/ctfe/cert_checker.go"
	ml := "client/multilog.go"
	lf := "loglist3/logfilter.go"
	register(genFile{name: "Temporal", imports: []string{"CTV.Basic.I64"}, units: []unit{
		// ValidateChain: the leaf is rejected when either condition holds. Canonical form: the parameters by position, the hoisted
		// reads (`naStart := validationOpts.notAfterStart`, `cert := chain[0]`, a hoisted `cert.NotAfter`) substituted back.
		{"ValidateChain.rejectStart", condKernel(cc, "ValidateChain", []string{"validationOpts.notAfterStart", "Before"}, "validateChainRejectStart", "(start : Option Int) (t : Int)",
			Spec{Canon: true, ParamNames: []string{"rawChain", "validationOpts"}, Repl: map[string]string{"validationOpts.notAfterStart != nil": "start.isSome",
				"*validationOpts.notAfterStart": "(start.getD 0)", "…[0].NotAfter": "t"}})},
		{"ValidateChain.rejectLimit", condKernel(cc, "ValidateChain", []string{"validationOpts.notAfterLimit", "Before"}, "validateChainRejectLimit", "(limit : Option Int) (t : Int)",
			Spec{Canon: true, ParamNames: []string{"rawChain", "validationOpts"}, Repl: map[string]string{"validationOpts.notAfterLimit != nil": "limit.isSome",
				"*validationOpts.notAfterLimit": "(limit.getD 0)", "…[0].NotAfter": "t"}})},
		// IndexByDate: the verdict of the loop body for one shard (`return` = taken, `continue` = skipped), whatever the body's shape
		// (two `if … { continue }`, one combined test, a helper method); the first shard taken is returned.
		{"IndexByDate.takes", loopVerdictKernel(ml, "TemporalLogClient.IndexByDate", "tlc.intervals", "interval", "indexByDateTakes", "(lower upper : Option Int) (when : Int)", "Bool", "false",
			Spec{Canon: true, Inline: true, Ret: "verdict", ReturnVal: "true", ContinueVal: "false", ParamNames: []string{"when"},
				Repl: map[string]string{"interval.lower != nil": "lower.isSome", "*interval.lower": "(lower.getD 0)", "interval.upper != nil": "upper.isSome",
					"*interval.upper": "(upper.getD 0)", "when": "when", "interval.lower == nil": "(!lower.isSome)", "interval.upper == nil": "(!upper.isSome)"}})},
		{"IndexByDate.loopShape", indexByDateShape(ml)},
		// shardInterval: refused when inverted (or empty).
		{"shardInterval.inverted", condKernel(ml, "shardInterval", []string{".lower != nil", ".upper != nil", "Before"}, "shardIntervalInverted", "(lower upper : Option Int)",
			Spec{Repl: map[string]string{"….lower != nil": "lower.isSome", "….upper != nil": "upper.isSome",
				"(*….lower)": "(lower.getD 0)", "*….upper": "(upper.getD 0)", "….lower": "(lower.getD 0)"}})},
		// NewTemporalLogClient: one step of the contiguity loop; `none` = construction refused, `some u` = new overall upper bound.
		{"NewTemporalLogClient.step", loopBodyKernel(ml, "NewTemporalLogClient", "i < len(cfg.Shard)", "temporalStep",
			"(overallUpper lower upper : Option Int)", "Option (Option Int)", "some overallUpper",
			Spec{Ret: "errlast", InputCalls: []string{"shardInterval"}, IgnoreLHS: []string{"intervals"},
				Vars: map[string]string{"overall.upper": "overallUpper"},
				Repl: map[string]string{"overall.upper == nil": "overallUpper.isNone", "interval.lower == nil": "lower.isNone",
					"interval.lower": "(lower.getD 0)", "*overall.upper": "(overallUpper.getD 0)", "interval.upper": "upper"}})},
		// LogList.TemporallyCompatible: the verdict of the inner loop body for one log (kept = appended), whatever the body's shape.
		{"TemporallyCompatible.keeps", loopVerdictKernel(lf, "LogList.TemporallyCompatible", ".Logs", "l", "temporallyCompatibleKeeps", "(ivNone : Bool) (start limit t : Int)", "Bool", "kept_",
			Spec{Canon: true, Inline: true, Ret: "verdict", ReturnVal: "kept_", ContinueVal: "kept_", ParamNames: []string{"cert"}, AppendEffect: map[string]string{"l": "kept_ := true"}, Prelude: "let kept_ := false\n  ",
				Repl: map[string]string{"l.TemporalInterval == nil": "ivNone", "l.TemporalInterval != nil": "(!ivNone)", "cert.NotAfter": "t",
					"l.TemporalInterval.EndExclusive": "limit", "l.TemporalInterval.StartInclusive": "start"}})},
		{"TemporallyCompatible.shape", temporallyCompatibleShape(lf)},
		{"Compatible.shape", compatibleShape(lf)},
		// the log server's window as configured: ValidateLogConfig stores the two timestamps verbatim and refuses limit < start;
		// setUpLogInfo hands them to the validation options unchanged.
		{"ValidateLogConfig.windowRefused", orElse(condKernel("trillian/ctfe/config.go", "ValidateLogConfig", []string{"NotAfterLimit", "NotAfterStart", "Before"}, "validateLogConfigWindowRefused", "(start limit : Option Int)",
			// the stored pointers are non-nil exactly when the proto fields are (windowVerbatim checks where they are set)
			Spec{Canon: true, Repl: map[string]string{"start != nil": "start.isSome", "limit != nil": "limit.isSome",
				"cfg.NotAfterStart != nil": "start.isSome", "cfg.NotAfterLimit != nil": "limit.isSome",
				"vCfg.NotAfterStart != nil": "start.isSome", "vCfg.NotAfterLimit != nil": "limit.isSome",
				"(*vCfg.NotAfterLimit)": "(limit.getD 0)", "*vCfg.NotAfterStart": "(start.getD 0)", "vCfg.NotAfterLimit": "(limit.getD 0)"}}), func() string {
			return windowRefusedByRole("trillian/ctfe/config.go", "validateLogConfigWindowRefused")
		})},
		{"ValidateLogConfig.windowVerbatim", windowVerbatimShape()},
	}})
}
