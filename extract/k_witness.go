package main

import (
	"fmt"
	"go/ast"
	"go/token"
	"sort"
)

// C19: in Witness.Update, is the cosignature produced before or after the row is written and committed?
// (setSTH commits.) Emitted as a Bool fact; the model's `update` follows it, so the theorem
// `refused_unchanged` is about the order the code has *now*.
func witnessOrderFact(rel string) func() string {
	return func() string {
		fd := mustFunc(rel, "Witness.Update")
		type ev struct {
			pos  token.Pos
			sign bool
		}
		var evs []ev
		ast.Inspect(fd.Body, func(n ast.Node) bool {
			if c, ok := n.(*ast.CallExpr); ok {
				switch src(c.Fun) {
				case "w.setSTH":
					evs = append(evs, ev{c.Pos(), false})
				case "w.signSTH":
					evs = append(evs, ev{c.Pos(), true})
				}
			}
			return true
		})
		sort.Slice(evs, func(i, j int) bool { return evs[i].pos < evs[j].pos })
		// expected shape: two store/sign pairs (trust-on-first-use branch, accepted-update branch)
		if len(evs) != 4 || evs[0].sign == evs[1].sign || evs[2].sign == evs[3].sign || evs[0].sign != evs[2].sign {
			panic(bail{fmt.Sprintf("%s: Witness.Update no longer has two setSTH/signSTH pairs in a common order (%d calls)", rel, len(evs))})
		}
		return fmt.Sprintf("/-- generated from %s func Witness.Update: in both accepting branches `w.signSTH` is called %s `w.setSTH` (which commits) -/\ndef witnessSignsBeforeCommit : Bool := %v\n",
			rel, map[bool]string{true: "before", false: "after"}[evs[0].sign], evs[0].sign)
	}
}

func init() {
	w := "internal/witness/cmd/witness/internal/witness/witness.go"
	register(genFile{name: "Witness", imports: nil, units: []unit{
		{"witnessSignsBeforeCommit", witnessOrderFact(w)},
	}})
}
