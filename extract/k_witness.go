package main

import (
	"fmt"
	"go/ast"
	"go/token"
	"sort"
)

// C19: in Witness.Update, is the cosignature produced before or after the row is written and committed?
// (setSTH commits.) Emitted as a Bool fact; the model's `update` follows it, so the theorem
// `refused_unchanged` is about the order the code has *now*.
func witnessOrderFact(rel string) func() string {
	return func() string {
		fd := mustFunc(rel, "Witness.Update")
		type ev struct {
			pos  token.Pos
			sign bool
		}
		var evs []ev
		file := parseFile(rp(rel))
		seq := token.Pos(0)
		var walk func(body *ast.BlockStmt, depth int)
		walk = func(body *ast.BlockStmt, depth int) {
			// calls in source order; a call to another method or function of this file is followed (Update split into helpers)
			var calls []*ast.CallExpr
			ast.Inspect(body, func(n ast.Node) bool {
				if c, ok := n.(*ast.CallExpr); ok {
					calls = append(calls, c)
				}
				return true
			})
			sort.Slice(calls, func(i, j int) bool { return calls[i].Pos() < calls[j].Pos() })
			for _, c := range calls {
				name := ""
				switch f := c.Fun.(type) {
				case *ast.SelectorExpr:
					name = f.Sel.Name
				case *ast.Ident:
					name = f.Name
				}
				switch name {
				case "setSTH":
					seq++
					evs = append(evs, ev{seq, false})
				case "signSTH":
					seq++
					evs = append(evs, ev{seq, true})
				default:
					if depth < 3 && name != "" && name != "Update" {
						for _, d := range file.Decls {
							if g, ok := d.(*ast.FuncDecl); ok && g.Name.Name == name && g.Body != nil {
								walk(g.Body, depth+1)
							}
						}
					}
				}
			}
		}
		walk(fd.Body, 0)
		// expected shape: two store/sign pairs (trust-on-first-use branch, accepted-update branch)
		if len(evs) != 4 || evs[0].sign == evs[1].sign || evs[2].sign == evs[3].sign || evs[0].sign != evs[2].sign {
			panic(bail{fmt.Sprintf("%s: Witness.Update no longer has two setSTH/signSTH pairs in a common order (%d calls)", rel, len(evs))})
		}
		return fmt.Sprintf("/-- generated from %s func Witness.Update: in both accepting branches `w.signSTH` is called %s `w.setSTH` (which commits) -/\ndef witnessSignsBeforeCommit : Bool := %v\n",
			rel, map[bool]string{true: "before", false: "after"}[evs[0].sign], evs[0].sign)
	}
}

func init() {
	w := "internal/witness/cmd/witness/internal/witness/witness.go"
	ign := []string{"klog.", "func()", "tx.Rollback"}
	// what a call hands back: 0 = nil, 1 = the raw STH held before the call, 2 = the freshly cosigned STH
	val := map[string]int{"nil": 0, "prevRaw": 1, "signed": 2, "&sth": 2}
	register(genFile{name: "Witness", imports: []string{"CTV.Basic.I64", "CTV.Basic.ErrKind"}, units: []unit{
		{"witnessSignsBeforeCommit", witnessOrderFact(w)},
		// whole bodies: the order of the tests, what each branch hands back (nothing / the held STH / the cosigned STH),
		// whether an error accompanies it, and whether the row was written (setSTH succeeded) on the way
		{"Witness.Update", handlerKernel(w, "Witness.Update", "witnessUpdate",
			"(known nextParseFails txFails latestFails latestNotFound signFails setFails prevParseFails : Bool) (nextSize prevSize : Int) (rootsEqual proofBad : Bool)",
			"Nat × Bool × Bool", "let stored_ := false\n  ", "(0, false, stored_)",
			Spec{Kind: "u64", Lazy: true, Inline: true, Ret: "statusstate", StateVars: []string{"stored_"}, Ignore: ign, Status: val,
				IgnoreLHS: []string{"_", "ok"}, BindCommaOk: "ok",
				Vars:      map[string]string{"next.TreeSize": "nextSize", "prev.TreeSize": "prevSize"},
				ErrCalls: map[string]string{"w.parse(nextRaw": "nextParseFails", "w.parse(prevRaw": "prevParseFails", "w.db.BeginTx": "txFails",
					"w.getLatestSTH": "latestFails", "w.signSTH(next)": "signFails", "w.setSTH(tx,logID,nextRaw)": "setFails|stored_ := (!setFails)"},
				InitCond: map[string]string{
					"err := proof.VerifyConsistency(rfc6962.DefaultHasher, prev.TreeSize, next.TreeSize, pf, prev.SHA256RootHash[:], next.SHA256RootHash[:]) ; err != nil": "proofBad"},
				InitCondByCall: map[string]string{".VerifyConsistency": "proofBad"},
				Repl: map[string]string{"!ok": "(!known)", "status.Code(err) == codes.NotFound": "latestNotFound", "status.Code(err) != codes.NotFound": "(!latestNotFound)",
					"bytes.Equal(next.SHA256RootHash[:], prev.SHA256RootHash[:])": "rootsEqual",
					"next.SHA256RootHash == prev.SHA256RootHash": "rootsEqual", "next.SHA256RootHash != prev.SHA256RootHash": "(!rootsEqual)"}})},
		{"Witness.GetSTH", handlerKernel(w, "Witness.GetSTH", "witnessGetSTH", "(latestFails parseFails signFails : Bool)", "Nat × Bool", "", "(0, false)",
			Spec{Kind: "u64", Lazy: true, Inline: true, Ret: "statusstate", Ignore: ign, Status: val,
				ErrCalls: map[string]string{"w.getLatestSTH": "latestFails", "w.parse(sthRaw": "parseFails", "w.signSTH(sth)": "signFails"}})},
		{"Witness.parse", handlerKernel(w, "Witness.parse", "witnessParse", "(known jsonBad idBad idEmpty idSame sigBad : Bool)", "Nat × Bool × Bool", "let filled_ := false\n  ", "(0, false, filled_)",
			Spec{Kind: "u64", Lazy: true, Inline: true, Ret: "statusstate", StateVars: []string{"filled_"}, Ignore: ign, Status: val,
				IgnoreLHS: []string{"sv", "ok", "sth", "idHash", "empty"},
				InitCond: map[string]string{"err := json.Unmarshal(sthRaw, &sth) ; err != nil": "jsonBad", "err := idHash.FromBase64String(logID) ; err != nil": "idBad",
					"err := sv.VerifySTHSignature(sth) ; err != nil": "sigBad"},
				InitCondByCall: map[string]string{".Unmarshal": "jsonBad", ".FromBase64String": "idBad", ".VerifySTHSignature": "sigBad"},
				BindRecv:       map[string]string{".FromBase64String": "idHash"}, BindArg: map[string]string{"json.Unmarshal#1": "sth"},
				BindDecl:       map[string]string{"ct.SHA256Hash": "empty"}, BindCommaOk: "ok",
				AppendEffect:   map[string]string{"stmt:sth.LogID=idHash": "filled_ := true"},
				Repl: map[string]string{"!ok": "(!known)", "bytes.Equal(sth.LogID[:], empty[:])": "idEmpty", "bytes.Equal(sth.LogID[:], idHash[:])": "idSame",
					"sth.LogID == empty": "idEmpty", "sth.LogID != empty": "(!idEmpty)", "sth.LogID == idHash": "idSame", "sth.LogID != idHash": "(!idSame)"}})},
	}})
}
