package main

import (
	"fmt"
	"go/ast"
)

// indexByDateShape checks that IndexByDate is `for i, interval := range tlc.intervals { if c1 {continue}; if c2 {continue}; return i, nil }; return -1, err`
// and emits the loop as a Lean function over the two regenerated skip conditions.
func indexByDateShape(rel string) func() string {
	return func() string {
		fd := mustFunc(rel, "TemporalLogClient.IndexByDate")
		if len(fd.Body.List) != 2 {
			panic(bail{rel + ": IndexByDate body is not `for …; return`"})
		}
		rs, ok := fd.Body.List[0].(*ast.RangeStmt)
		if !ok || src(rs.X) != "tlc.intervals" || len(rs.Body.List) != 3 {
			panic(bail{rel + ": IndexByDate loop shape changed: " + src(fd.Body.List[0])})
		}
		for k := 0; k < 2; k++ {
			is, ok := rs.Body.List[k].(*ast.IfStmt)
			if !ok || is.Else != nil || len(is.Body.List) != 1 || src(is.Body.List[0]) != "continue" {
				panic(bail{rel + ": IndexByDate loop statement is not `if … { continue }`: " + src(rs.Body.List[k])})
			}
		}
		ret, ok := rs.Body.List[2].(*ast.ReturnStmt)
		if !ok || len(ret.Results) != 2 || src(ret.Results[0]) != src(rs.Key) || src(ret.Results[1]) != "nil" {
			panic(bail{rel + ": IndexByDate loop does not end in `return i, nil`: " + src(rs.Body.List[2])})
		}
		last, ok := fd.Body.List[1].(*ast.ReturnStmt)
		if !ok || len(last.Results) != 2 || src(last.Results[1]) == "nil" {
			panic(bail{rel + ": IndexByDate does not end in an error return"})
		}
		return fmt.Sprintf("/-- generated from %s func IndexByDate: first interval not skipped by either condition, by index; `none` = error -/\n"+
			"def indexByDate (intervals : List (Option Int × Option Int)) (when : Int) : Option Nat :=\n"+
			"  let idx := intervals.findIdx (fun iv => !(indexByDateSkipLower iv.1 when) && !(indexByDateSkipUpper iv.2 when))\n"+
			"  if idx < intervals.length then some idx else none\n", rel)
	}
}

// nilIntervalShape checks that a log without TemporalInterval is kept unconditionally.
func nilIntervalShape(rel string) func() string {
	return func() string {
		fd := mustFunc(rel, "LogList.TemporallyCompatible")
		ss := findStmts(fd, func(s ast.Stmt) bool {
			is, ok := s.(*ast.IfStmt)
			return ok && src(is.Cond) == "l.TemporalInterval == nil"
		})
		if len(ss) != 1 {
			panic(bail{rel + ": `if l.TemporalInterval == nil` not found exactly once"})
		}
		b := ss[0].(*ast.IfStmt).Body.List
		if len(b) != 2 || src(b[0]) != "compatibleOp.Logs = append(compatibleOp.Logs, l)" || src(b[1]) != "continue" {
			panic(bail{rel + ": nil-interval branch no longer keeps the log: " + src(ss[0])})
		}
		return fmt.Sprintf("/-- generated from %s: a log without TemporalInterval is kept -/\ndef temporallyCompatible (iv : Option (Int × Int)) (t : Int) : Bool :=\n  match iv with\n  | none => true\n  | some (s, l) => temporallyCompatibleCond s l t\n", rel)
	}
}

// windowVerbatimShape checks that the configured NotAfter bounds reach ValidateChain unchanged:
// `*vCfg.NotAfterStart = start.AsTime()`, `*vCfg.NotAfterLimit = limit.AsTime()` in ValidateLogConfig and
// `notAfterStart: vCfg.NotAfterStart`, `notAfterLimit: vCfg.NotAfterLimit` in setUpLogInfo.
func windowVerbatimShape() func() string {
	return func() string {
		cfg := mustFunc("trillian/ctfe/config.go", "ValidateLogConfig")
		want := map[string]string{"*vCfg.NotAfterStart": "start.AsTime()", "*vCfg.NotAfterLimit": "limit.AsTime()"}
		seen := map[string]int{}
		for _, st := range findStmts(cfg, func(s ast.Stmt) bool { _, ok := s.(*ast.AssignStmt); return ok }) {
			a := st.(*ast.AssignStmt)
			if len(a.Lhs) == 1 && len(a.Rhs) == 1 {
				if w, ok := want[src(a.Lhs[0])]; ok {
					if src(a.Rhs[0]) != w {
						panic(bail{"trillian/ctfe/config.go: the configured bound is no longer stored verbatim: " + src(a)})
					}
					seen[src(a.Lhs[0])]++
				}
			}
		}
		if seen["*vCfg.NotAfterStart"] != 1 || seen["*vCfg.NotAfterLimit"] != 1 {
			panic(bail{"trillian/ctfe/config.go: assignments of the NotAfter bounds not found exactly once each"})
		}
		inst := mustFunc("trillian/ctfe/instance.go", "setUpLogInfo")
		n := 0
		ast.Inspect(inst.Body, func(nd ast.Node) bool {
			if kv, ok := nd.(*ast.KeyValueExpr); ok {
				k, v := src(kv.Key), src(kv.Value)
				if (k == "notAfterStart" && v == "vCfg.NotAfterStart") || (k == "notAfterLimit" && v == "vCfg.NotAfterLimit") {
					n++
				} else if k == "notAfterStart" || k == "notAfterLimit" {
					panic(bail{"trillian/ctfe/instance.go: validation options no longer take the configured bound unchanged: " + src(kv)})
				}
			}
			return true
		})
		if n != 2 {
			panic(bail{"trillian/ctfe/instance.go: notAfterStart/notAfterLimit wiring not found in setUpLogInfo"})
		}
		return "/-- generated: ValidateLogConfig stores `start.AsTime()` / `limit.AsTime()` verbatim and setUpLogInfo passes them on unchanged -/\ndef configuredWindowVerbatim : Bool := true\n"
	}
}
