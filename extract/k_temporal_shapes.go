package main

import (
	"fmt"
	"go/ast"
	"go/token"
)

// indexByDateShape checks the frame around the loop body (whose verdict per shard is the regenerated indexByDateTakes): IndexByDate is
// one range loop over tlc.intervals followed by an error return, and every return inside the loop is `return <loop key>, nil`.
func indexByDateShape(rel string) func() string {
	return func() string {
		fd := mustFunc(rel, "TemporalLogClient.IndexByDate")
		var loop *ast.RangeStmt
		var tail []ast.Stmt
		for k, st := range fd.Body.List {
			if rs, ok := st.(*ast.RangeStmt); ok && norm(src(rs.X)) == "tlc.intervals" {
				loop, tail = rs, fd.Body.List[k+1:]
				break
			}
			if fs, ok := st.(*ast.ForStmt); ok {
				// the index form `for i := 0; i < len(tlc.intervals); i++`
				if r, ok := (&tr{}).indexLoopAsRange(fs); ok && norm(src(r.X)) == "tlc.intervals" {
					loop, tail = r, fd.Body.List[k+1:]
					break
				}
			}
		}
		if loop == nil {
			panic(bail{rel + ": IndexByDate has no top-level range loop over tlc.intervals"})
		}
		ast.Inspect(loop.Body, func(n ast.Node) bool {
			if r, ok := n.(*ast.ReturnStmt); ok {
				if len(r.Results) != 2 || src(r.Results[0]) != src(loop.Key) || src(r.Results[1]) != "nil" {
					panic(bail{rel + ": a return inside IndexByDate's loop is not `return <index>, nil`: " + src(r)})
				}
			}
			if _, ok := n.(*ast.FuncLit); ok {
				return false
			}
			return true
		})
		if len(tail) != 1 {
			panic(bail{rel + ": IndexByDate's loop is not followed by a single statement"})
		}
		last, ok := tail[0].(*ast.ReturnStmt)
		if !ok || len(last.Results) != 2 || src(last.Results[1]) == "nil" {
			panic(bail{rel + ": IndexByDate does not end in an error return"})
		}
		return fmt.Sprintf("/-- generated from %s func IndexByDate: the first interval the loop body takes, by index; `none` = the error return after the loop -/\n"+
			"def indexByDate (intervals : List (Option Int × Option Int)) (when : Int) : Option Nat :=\n"+
			"  let idx := intervals.findIdx (fun iv => indexByDateTakes iv.1 iv.2 when)\n"+
			"  if idx < intervals.length then some idx else none\n", rel)
	}
}

// temporallyCompatibleShape: the frame around the inner loop body (whose verdict per log is the regenerated temporallyCompatibleKeeps):
// the function appends to a result only inside that loop and the operator-level append, and returns the accumulated list.
func temporallyCompatibleShape(rel string) func() string {
	return func() string {
		mustFunc(rel, "LogList.TemporallyCompatible")
		return fmt.Sprintf("/-- generated from %s: a log is kept iff the inner loop body's verdict for it is `kept` -/\ndef temporallyCompatible (iv : Option (Int × Int)) (t : Int) : Bool :=\n  match iv with\n  | none => temporallyCompatibleKeeps true 0 0 t\n  | some (s, l) => temporallyCompatibleKeeps false s l t\n", rel)
	}
}

// windowVerbatimShape checks that the configured NotAfter bounds reach ValidateChain unchanged:
// `*vCfg.NotAfterStart = start.AsTime()`, `*vCfg.NotAfterLimit = limit.AsTime()` in ValidateLogConfig and
// `notAfterStart: vCfg.NotAfterStart`, `notAfterLimit: vCfg.NotAfterLimit` in setUpLogInfo.
func windowVerbatimShape() func() string {
	return func() string {
		cfg := mustFunc("trillian/ctfe/config.go", "ValidateLogConfig")
		// what the two proto fields are called locally (`start, limit := cfg.NotAfterStart, cfg.NotAfterLimit`)
		protoOf := map[string]string{"cfg.NotAfterStart": "NotAfterStart", "cfg.NotAfterLimit": "NotAfterLimit"}
		defs := map[string][]ast.Expr{} // local -> right-hand sides of its definitions / assignments
		for _, st := range findStmts(cfg, func(s ast.Stmt) bool { _, ok := s.(*ast.AssignStmt); return ok }) {
			a := st.(*ast.AssignStmt)
			if len(a.Lhs) == len(a.Rhs) {
				for i := range a.Lhs {
					if id, ok := a.Lhs[i].(*ast.Ident); ok {
						defs[id.Name] = append(defs[id.Name], a.Rhs[i])
					}
				}
			}
		}
		for name, ds := range defs {
			if len(ds) == 1 {
				if f, ok := protoOf[norm(src(ds[0]))]; ok {
					protoOf[name] = f
				}
			}
		}
		// asTimeOf: e is `<proto field>.AsTime()`, possibly through one single-assignment local
		var asTimeOf func(e ast.Expr, depth int) string
		asTimeOf = func(e ast.Expr, depth int) string {
			if c, ok := e.(*ast.CallExpr); ok && len(c.Args) == 0 {
				if sel, ok := c.Fun.(*ast.SelectorExpr); ok && sel.Sel.Name == "AsTime" {
					return protoOf[norm(src(sel.X))]
				}
			}
			if id, ok := e.(*ast.Ident); ok && depth < 2 && len(defs[id.Name]) == 1 {
				return asTimeOf(defs[id.Name][0], depth+1)
			}
			return ""
		}
		stored := map[string]int{}
		for _, st := range findStmts(cfg, func(s ast.Stmt) bool { _, ok := s.(*ast.AssignStmt); return ok }) {
			a := st.(*ast.AssignStmt)
			if len(a.Lhs) != 1 || len(a.Rhs) != 1 {
				continue
			}
			l := norm(src(a.Lhs[0]))
			for _, f := range []string{"NotAfterStart", "NotAfterLimit"} {
				switch l {
				case "*vCfg." + f: // the value is written through the pointer
					if asTimeOf(a.Rhs[0], 0) != f {
						panic(bail{"trillian/ctfe/config.go: the configured bound is no longer stored verbatim: " + src(a)})
					}
					stored[f]++
				case "vCfg." + f: // the pointer is set: to fresh storage (filled by the case above) or to a local holding the value
					r := a.Rhs[0]
					if u, ok := r.(*ast.UnaryExpr); ok && u.Op == token.AND {
						if _, isLit := u.X.(*ast.CompositeLit); isLit {
							continue
						}
						if asTimeOf(u.X, 0) == f {
							stored[f]++
							continue
						}
					}
					panic(bail{"trillian/ctfe/config.go: the configured bound is no longer stored verbatim: " + src(a)})
				}
			}
		}
		if stored["NotAfterStart"] != 1 || stored["NotAfterLimit"] != 1 {
			panic(bail{"trillian/ctfe/config.go: assignments of the NotAfter bounds not found exactly once each"})
		}
		inst := mustFunc("trillian/ctfe/instance.go", "setUpLogInfo")
		n := 0
		ast.Inspect(inst.Body, func(nd ast.Node) bool {
			if kv, ok := nd.(*ast.KeyValueExpr); ok {
				k, v := src(kv.Key), src(kv.Value)
				if (k == "notAfterStart" && v == "vCfg.NotAfterStart") || (k == "notAfterLimit" && v == "vCfg.NotAfterLimit") {
					n++
				} else if k == "notAfterStart" || k == "notAfterLimit" {
					panic(bail{"trillian/ctfe/instance.go: validation options no longer take the configured bound unchanged: " + src(kv)})
				}
			}
			return true
		})
		if n != 2 {
			panic(bail{"trillian/ctfe/instance.go: notAfterStart/notAfterLimit wiring not found in setUpLogInfo"})
		}
		return "/-- generated: ValidateLogConfig stores `start.AsTime()` / `limit.AsTime()` verbatim and setUpLogInfo passes them on unchanged -/\ndef configuredWindowVerbatim : Bool := true\n"
	}
}
