package main

import (
	"strings"
	"fmt"
	"go/ast"
	"go/token"
)

// indexByDateShape checks the frame around the loop body (whose verdict per shard is the regenerated indexByDateTakes): IndexByDate is
// one range loop over tlc.intervals followed by an error return, and every return inside the loop is `return <loop key>, nil`.
func indexByDateShape(rel string) func() string {
	return func() string {
		fd := mustFunc(rel, "TemporalLogClient.IndexByDate")
		var loop *ast.RangeStmt
		var tail []ast.Stmt
		for k, st := range fd.Body.List {
			if rs, ok := st.(*ast.RangeStmt); ok && norm(src(rs.X)) == "tlc.intervals" {
				loop, tail = rs, fd.Body.List[k+1:]
				break
			}
			if fs, ok := st.(*ast.ForStmt); ok {
				// the index form `for i := 0; i < len(tlc.intervals); i++`
				if r, ok := (&tr{}).indexLoopAsRange(fs); ok && norm(src(r.X)) == "tlc.intervals" {
					loop, tail = r, fd.Body.List[k+1:]
					break
				}
			}
		}
		if loop == nil {
			panic(bail{rel + ": IndexByDate has no top-level range loop over tlc.intervals"})
		}
		ast.Inspect(loop.Body, func(n ast.Node) bool {
			if r, ok := n.(*ast.ReturnStmt); ok {
				if len(r.Results) != 2 || src(r.Results[0]) != src(loop.Key) || src(r.Results[1]) != "nil" {
					panic(bail{rel + ": a return inside IndexByDate's loop is not `return <index>, nil`: " + src(r)})
				}
			}
			if _, ok := n.(*ast.FuncLit); ok {
				return false
			}
			return true
		})
		if len(tail) != 1 {
			panic(bail{rel + ": IndexByDate's loop is not followed by a single statement"})
		}
		last, ok := tail[0].(*ast.ReturnStmt)
		if !ok || len(last.Results) != 2 || src(last.Results[1]) == "nil" {
			panic(bail{rel + ": IndexByDate does not end in an error return"})
		}
		return fmt.Sprintf("/-- generated from %s func IndexByDate: the first interval the loop body takes, by index; `none` = the error return after the loop -/\n"+
			"def indexByDate (intervals : List (Option Int × Option Int)) (when : Int) : Option Nat :=\n"+
			"  let idx := intervals.findIdx (fun iv => indexByDateTakes iv.1 iv.2 when)\n"+
			"  if idx < intervals.length then some idx else none\n", rel)
	}
}

// temporallyCompatibleShape: the frame around the inner loop body (whose verdict per log is the regenerated temporallyCompatibleKeeps):
// the function appends to a result only inside that loop and the operator-level append, and returns the accumulated list.
func temporallyCompatibleShape(rel string) func() string {
	return func() string {
		mustFunc(rel, "LogList.TemporallyCompatible")
		return fmt.Sprintf("/-- generated from %s: a log is kept iff the inner loop body's verdict for it is `kept` -/\ndef temporallyCompatible (iv : Option (Int × Int)) (t : Int) : Bool :=\n  match iv with\n  | none => temporallyCompatibleKeeps true 0 0 t\n  | some (s, l) => temporallyCompatibleKeeps false s l t\n", rel)
	}
}

// compatibleShape: LogList.Compatible (the entry point the submission proxy uses when root checks are on) draws no window of
// its own: every value it returns is `ll.TemporallyCompatible(cert)`, either as it is (only under `certRoot == nil`) or narrowed
// by `.RootCompatible(certRoot, roots)`; the function contains no loop. Locals defined once are followed.
func compatibleShape(rel string) func() string {
	return func() string {
		fd := mustFunc(rel, "LogList.Compatible")
		var params []string
		for _, f := range fd.Type.Params.List {
			for _, n := range f.Names {
				params = append(params, n.Name)
			}
		}
		if len(params) != 3 {
			panic(bail{fmt.Sprintf("%s: LogList.Compatible no longer takes (cert, certRoot, roots)", rel)})
		}
		defs := map[string][]ast.Expr{}
		loops := 0
		ast.Inspect(fd.Body, func(n ast.Node) bool {
			switch x := n.(type) {
			case *ast.ForStmt, *ast.RangeStmt:
				loops++
			case *ast.AssignStmt:
				if len(x.Lhs) == len(x.Rhs) {
					for i := range x.Lhs {
						if id, ok := x.Lhs[i].(*ast.Ident); ok {
							defs[id.Name] = append(defs[id.Name], x.Rhs[i])
						}
					}
				}
			}
			return true
		})
		if loops > 0 {
			panic(bail{fmt.Sprintf("%s: LogList.Compatible contains a loop of its own (it must filter through TemporallyCompatible)", rel)})
		}
		var resolve func(e ast.Expr, d int) ast.Expr
		resolve = func(e ast.Expr, d int) ast.Expr {
			if p, ok := e.(*ast.ParenExpr); ok {
				return resolve(p.X, d)
			}
			if id, ok := e.(*ast.Ident); ok && d < 4 && len(defs[id.Name]) == 1 {
				return resolve(defs[id.Name][0], d+1)
			}
			return e
		}
		isTemporal := func(e ast.Expr) bool {
			c, ok := resolve(e, 0).(*ast.CallExpr)
			if !ok || len(c.Args) != 1 || src(c.Args[0]) != params[0] {
				return false
			}
			sel, ok := c.Fun.(*ast.SelectorExpr)
			return ok && sel.Sel.Name == "TemporallyCompatible" && src(sel.X) == fd.Recv.List[0].Names[0].Name
		}
		nPlain, nRooted := 0, 0
		var walk func(stmts []ast.Stmt, underNilRoot bool)
		walk = func(stmts []ast.Stmt, underNilRoot bool) {
			for _, st := range stmts {
				switch x := st.(type) {
				case *ast.ReturnStmt:
					if len(x.Results) != 1 {
						panic(bail{fmt.Sprintf("%s: LogList.Compatible: unexpected return %s", rel, src(x))})
					}
					r := resolve(x.Results[0], 0)
					if isTemporal(r) {
						if !underNilRoot {
							panic(bail{fmt.Sprintf("%s: LogList.Compatible returns the temporal filter alone outside `%s == nil`", rel, params[1])})
						}
						nPlain++
						continue
					}
					c, ok := r.(*ast.CallExpr)
					if ok && len(c.Args) == 2 && src(c.Args[0]) == params[1] && src(c.Args[1]) == params[2] {
						if sel, ok := c.Fun.(*ast.SelectorExpr); ok && sel.Sel.Name == "RootCompatible" && isTemporal(sel.X) {
							nRooted++
							continue
						}
					}
					panic(bail{fmt.Sprintf("%s: LogList.Compatible returns %s, which is not TemporallyCompatible(%s)[.RootCompatible(%s, %s)]", rel, src(x.Results[0]), params[0], params[1], params[2])})
				case *ast.IfStmt:
					nilRoot := norm(src(x.Cond)) == params[1]+"==nil"
					walk(x.Body.List, underNilRoot || nilRoot)
					if x.Else != nil {
						if b, ok := x.Else.(*ast.BlockStmt); ok {
							walk(b.List, underNilRoot)
						} else {
							walk([]ast.Stmt{x.Else}, underNilRoot)
						}
					}
				case *ast.BlockStmt:
					walk(x.List, underNilRoot)
				}
			}
		}
		walk(fd.Body.List, false)
		if nRooted == 0 {
			panic(bail{fmt.Sprintf("%s: LogList.Compatible never returns TemporallyCompatible(…).RootCompatible(…)", rel)})
		}
		return fmt.Sprintf("/-- generated from %s func LogList.Compatible: every result is `TemporallyCompatible(cert)`, alone only when no root is given (%d return(s)), otherwise narrowed by `RootCompatible` (%d return(s)); no loop of its own. `rootOk` = the verdict of RootCompatible for the log -/\n"+
			"def compatibleKeeps (iv : Option (Int × Int)) (t : Int) (rootGiven rootOk : Bool) : Bool :=\n  temporallyCompatible iv t && (!rootGiven || rootOk)\n", rel, nPlain, nRooted)
	}
}

// windowOrigins: where the values stored in the validated configuration's field f (directly, through the pointer, or handed back by
// a same-file helper whose results are assigned to it) can come from: "AsTime:<proto field>" (that field of the function's config
// parameter, converted by AsTime and nothing else), "nil", "fresh" (new storage, to be filled through the pointer), or
// "other:<source>". Locals (block-scoped), `&x` / `*p`, if-init definitions and helper results are followed.
type woCtx struct {
	fd   *ast.FuncDecl
	bind map[string]ast.Expr // parameter -> argument (in the caller's terms), for helpers
	up   *woCtx
}

// woAnalysis bundles the value-origin functions over one file.
type woAnalysis struct {
	file         *ast.File
	defsOf       func(fn *ast.FuncDecl, name string, at token.Pos) ([]ast.Expr, bool)
	isParam      func(fn *ast.FuncDecl, name string) bool
	protoField   func(c *woCtx, e ast.Expr, depth int) string
	origins      func(c *woCtx, e ast.Expr, depth int, into map[string]bool)
	helperResult func(c *woCtx, call *ast.CallExpr, i int, into map[string]bool) bool
	helperCtx    func(c *woCtx, call *ast.CallExpr) *woCtx
}

func newWoAnalysis(file *ast.File) *woAnalysis {
	an := &woAnalysis{file: file}
	// defsOf: the right-hand sides assigned to the variable called name that is visible at position at (Go block scoping: the
	// innermost declaration whose scope contains the use, plus every plain assignment to it inside that scope)
	defsOf := func(fn *ast.FuncDecl, name string, at token.Pos) (rhs []ast.Expr, zero bool) {
		type def struct {
			e          ast.Expr
			zero       bool
			declares   bool
			pos        token.Pos
			sFrom, sTo token.Pos // scope of the declaration (for declares), else unused
		}
		var all []def
		var stack []ast.Node
		scopeOf := func() (token.Pos, token.Pos) {
			for i := len(stack) - 1; i >= 0; i-- {
				switch n := stack[i].(type) {
				case *ast.BlockStmt, *ast.IfStmt, *ast.ForStmt, *ast.RangeStmt, *ast.SwitchStmt, *ast.TypeSwitchStmt, *ast.CaseClause, *ast.FuncLit:
					return n.Pos(), n.End()
				}
			}
			return fn.Body.Pos(), fn.Body.End()
		}
		ast.Inspect(fn.Body, func(n ast.Node) bool {
			if n == nil {
				stack = stack[:len(stack)-1]
				return true
			}
			switch x := n.(type) {
			case *ast.AssignStmt:
				if len(x.Lhs) == len(x.Rhs) {
					for i := range x.Lhs {
						if id, ok := x.Lhs[i].(*ast.Ident); ok && id.Name == name {
							a, b := scopeOf()
							all = append(all, def{e: x.Rhs[i], declares: x.Tok == token.DEFINE, pos: x.Pos(), sFrom: a, sTo: b})
						}
					}
				}
			case *ast.ValueSpec:
				for i, nm := range x.Names {
					if nm.Name == name {
						a, b := scopeOf()
						d := def{declares: true, pos: x.Pos(), sFrom: a, sTo: b}
						if i < len(x.Values) {
							d.e = x.Values[i]
						} else {
							d.zero = true
						}
						all = append(all, d)
					}
				}
			}
			stack = append(stack, n)
			return true
		})
		// the innermost declaring scope that contains the use
		var from, to token.Pos
		found := false
		for _, d := range all {
			if d.declares && d.sFrom <= at && at <= d.sTo && (!found || d.sFrom >= from) {
				from, to, found = d.sFrom, d.sTo, true
			}
		}
		for _, d := range all {
			if found && (d.pos < from || d.pos > to) {
				continue
			}
			if found && d.declares && (d.sFrom != from || d.sTo != to) {
				continue // a shadowing declaration in a nested scope
			}
			if d.zero {
				zero = true
			} else {
				rhs = append(rhs, d.e)
			}
		}
		return
	}
	isParam := func(fn *ast.FuncDecl, name string) bool {
		for _, fl := range fn.Type.Params.List {
			for _, nm := range fl.Names {
				if nm.Name == name {
					return true
				}
			}
		}
		return false
	}
	// protoField: e denotes <config parameter of the OUTERMOST function>.NotAfterStart / .NotAfterLimit
	var protoField func(c *woCtx, e ast.Expr, depth int) string
	protoField = func(c *woCtx, e ast.Expr, depth int) string {
		if depth > 6 {
			return ""
		}
		switch x := e.(type) {
		case *ast.ParenExpr:
			return protoField(c, x.X, depth)
		case *ast.SelectorExpr:
			if x.Sel.Name == "NotAfterStart" || x.Sel.Name == "NotAfterLimit" {
				if id, ok := x.X.(*ast.Ident); ok {
					// the receiver must be the configuration parameter, possibly handed down to a helper
					cc, name := c, id.Name
					for cc != nil {
						if a, bound := cc.bind[name]; bound {
							aid, ok := a.(*ast.Ident)
							if !ok {
								return ""
							}
							name, cc = aid.Name, cc.up
							continue
						}
						break
					}
					if cc != nil && cc.up == nil && isParam(cc.fd, name) {
						return x.Sel.Name
					}
				}
			}
		case *ast.Ident:
			rhs, _ := defsOf(c.fd, x.Name, x.Pos())
			if len(rhs) == 1 {
				return protoField(c, rhs[0], depth+1)
			}
		}
		return ""
	}
	var origins func(c *woCtx, e ast.Expr, depth int, into map[string]bool)
	origins = func(c *woCtx, e ast.Expr, depth int, into map[string]bool) {
		if depth > 8 {
			into["other:too deep"] = true
			return
		}
		switch x := e.(type) {
		case *ast.ParenExpr:
			origins(c, x.X, depth, into)
			return
		case *ast.Ident:
			if x.Name == "nil" {
				into["nil"] = true
				return
			}
			rhs, zero := defsOf(c.fd, x.Name, x.Pos())
			if zero {
				into["nil"] = true
			}
			if len(rhs) == 0 && !zero {
				into["other:"+x.Name] = true
			}
			for _, r := range rhs {
				origins(c, r, depth+1, into)
			}
			return
		case *ast.UnaryExpr:
			if x.Op == token.AND {
				if cl, ok := x.X.(*ast.CompositeLit); ok && len(cl.Elts) == 0 {
					into["fresh"] = true
					return
				}
				origins(c, x.X, depth+1, into)
				return
			}
		case *ast.StarExpr:
			origins(c, x.X, depth+1, into)
			return
		case *ast.CallExpr:
			if sel, ok := x.Fun.(*ast.SelectorExpr); ok && sel.Sel.Name == "AsTime" && len(x.Args) == 0 {
				if pf := protoField(c, sel.X, 0); pf != "" {
					into["AsTime:"+pf] = true
					return
				}
			}
			if id, ok := x.Fun.(*ast.Ident); ok && id.Name == "new" {
				into["fresh"] = true
				return
			}
		}
		into["other:"+norm(src(e))] = true
	}
	// helperResult: origins of the i-th result of a same-file helper called as call
	resolve := func(call *ast.CallExpr) *ast.FuncDecl {
		var h *ast.FuncDecl
		switch fn := call.Fun.(type) {
		case *ast.Ident:
			h = findFunc(file, fn.Name)
		case *ast.SelectorExpr:
			for _, d := range file.Decls {
				if g, ok := d.(*ast.FuncDecl); ok && g.Recv != nil && g.Name.Name == fn.Sel.Name {
					h = g
				}
			}
		}
		if h == nil || h.Body == nil {
			return nil
		}
		return h
	}
	helperCtx := func(c *woCtx, call *ast.CallExpr) *woCtx {
		h := resolve(call)
		if h == nil {
			return nil
		}
		hc := &woCtx{fd: h, bind: map[string]ast.Expr{}, up: c}
		k := 0
		for _, fl := range h.Type.Params.List {
			for _, nm := range fl.Names {
				if k < len(call.Args) {
					hc.bind[nm.Name] = call.Args[k]
				}
				k++
			}
		}
		return hc
	}
	helperResult := func(c *woCtx, call *ast.CallExpr, i int, into map[string]bool) bool {
		hc := helperCtx(c, call)
		if hc == nil {
			return false
		}
		ast.Inspect(hc.fd.Body, func(n ast.Node) bool {
			if _, isLit := n.(*ast.FuncLit); isLit {
				return false
			}
			if r, ok := n.(*ast.ReturnStmt); ok && i < len(r.Results) {
				origins(hc, r.Results[i], 0, into)
			}
			return true
		})
		return true
	}
	an.defsOf, an.isParam, an.protoField, an.origins, an.helperResult, an.helperCtx = defsOf, isParam, protoField, origins, helperResult, helperCtx
	return an
}

// windowOrigins: see woAnalysis; the stores into field f of the validated configuration built by fd.
func windowOrigins(file *ast.File, fd *ast.FuncDecl, f string) map[string]bool {
	an := newWoAnalysis(file)
	origins, helperResult, isParam := an.origins, an.helperResult, an.isParam
	out := map[string]bool{}
	top := &woCtx{fd: fd, bind: map[string]ast.Expr{}}
	isField := func(e ast.Expr) (deref, ok bool) {
		if st, isStar := e.(*ast.StarExpr); isStar {
			e, deref = st.X, true
		}
		sel, isSel := e.(*ast.SelectorExpr)
		if !isSel || sel.Sel.Name != f {
			return false, false
		}
		// the validated configuration is the function's first RESULT type's value: any local other than the config parameter
		if id, isId := sel.X.(*ast.Ident); isId && !isParam(fd, id.Name) {
			return deref, true
		}
		return false, false
	}
	ast.Inspect(fd.Body, func(n ast.Node) bool {
		switch x := n.(type) {
		case *ast.AssignStmt:
			for i, l := range x.Lhs {
				if _, ok := isField(l); !ok {
					continue
				}
				switch {
				case len(x.Rhs) == len(x.Lhs):
					origins(top, x.Rhs[i], 0, out)
				case len(x.Rhs) == 1:
					if call, ok := x.Rhs[0].(*ast.CallExpr); !ok || !helperResult(top, call, i, out) {
						out["other:"+norm(src(x))] = true
					}
				}
			}
		case *ast.KeyValueExpr: // `&ValidatedLogConfig{NotAfterStart: v, …}`
			if id, ok := x.Key.(*ast.Ident); ok && id.Name == f {
				origins(top, x.Value, 0, out)
			}
		}
		return true
	})
	return out
}

// windowRefusedByRole: the "limit before start" test of configuration validation found by what its operands ARE rather than what they
// are called: the one `if` in ValidateLogConfig (or a same-file helper it calls) whose condition contains a Before/After comparison
// and whose body returns. Operands are classified by origin (the validated bound or the proto field of start / limit) and the condition
// is re-emitted over `start limit : Option Int`.
func windowRefusedByRole(rel, leanName string) string {
	file := parseFile(rp(rel))
	top := mustFunc(rel, "ValidateLogConfig")
	an := newWoAnalysis(file)
	type cand struct {
		c  *woCtx
		is *ast.IfStmt
	}
	var cands []cand
	scan := func(c *woCtx) {
		ast.Inspect(c.fd.Body, func(n ast.Node) bool {
			if is, ok := n.(*ast.IfStmt); ok && hasReturn(is.Body.List) {
				t := norm(src(is.Cond))
				if strings.Contains(t, ".Before(") || strings.Contains(t, ".After(") {
					cands = append(cands, cand{c, is})
				}
			}
			return true
		})
	}
	root := &woCtx{fd: top, bind: map[string]ast.Expr{}}
	scan(root)
	ast.Inspect(top.Body, func(n ast.Node) bool {
		if call, ok := n.(*ast.CallExpr); ok {
			if hc := an.helperCtx(root, call); hc != nil && hc.fd != top {
				scan(hc)
			}
		}
		return true
	})
	role := func(c *woCtx, e ast.Expr) string {
		for {
			switch x := e.(type) {
			case *ast.ParenExpr:
				e = x.X
				continue
			case *ast.StarExpr:
				e = x.X
				continue
			}
			break
		}
		if pf := an.protoField(c, e, 0); pf != "" {
			return map[string]string{"NotAfterStart": "start", "NotAfterLimit": "limit"}[pf]
		}
		o := map[string]bool{}
		if sel, ok := e.(*ast.SelectorExpr); ok && (sel.Sel.Name == "NotAfterStart" || sel.Sel.Name == "NotAfterLimit") {
			// a field of the validated configuration under construction: what was stored there
			o = windowOrigins(file, top, sel.Sel.Name)
		} else {
			an.origins(c, e, 0, o)
		}
		r := ""
		for k := range o {
			switch k {
			case "AsTime:NotAfterStart":
				if r != "" && r != "start" {
					return ""
				}
				r = "start"
			case "AsTime:NotAfterLimit":
				if r != "" && r != "limit" {
					return ""
				}
				r = "limit"
			case "nil", "fresh":
			default:
				return ""
			}
		}
		return r
	}
	var tr func(c *woCtx, e ast.Expr) string
	tr = func(c *woCtx, e ast.Expr) string {
		switch x := e.(type) {
		case *ast.ParenExpr:
			return tr(c, x.X)
		case *ast.UnaryExpr:
			if x.Op == token.NOT {
				return "(!" + tr(c, x.X) + ")"
			}
		case *ast.BinaryExpr:
			switch x.Op {
			case token.LAND:
				return "(" + tr(c, x.X) + " && " + tr(c, x.Y) + ")"
			case token.LOR:
				return "(" + tr(c, x.X) + " || " + tr(c, x.Y) + ")"
			case token.NEQ, token.EQL:
				if id, ok := x.Y.(*ast.Ident); ok && id.Name == "nil" {
					if r := role(c, x.X); r != "" {
						if x.Op == token.NEQ {
							return r + ".isSome"
						}
						return r + ".isNone"
					}
				}
			}
		case *ast.CallExpr:
			if sel, ok := x.Fun.(*ast.SelectorExpr); ok && len(x.Args) == 1 && (sel.Sel.Name == "Before" || sel.Sel.Name == "After") {
				a, b := role(c, sel.X), role(c, x.Args[0])
				if a != "" && b != "" {
					op := "<"
					if sel.Sel.Name == "After" {
						op = ">"
					}
					return "(decide ((" + a + ".getD 0) " + op + " (" + b + ".getD 0)))"
				}
			}
		}
		panic(bail{rel + ": window test: cannot read " + src(e) + " as a statement about the configured bounds"})
	}
	if len(cands) != 1 {
		panic(bail{fmt.Sprintf("%s: expected exactly one Before/After test with a return in ValidateLogConfig or its helpers, found %d", rel, len(cands))})
	}
	cond := tr(cands[0].c, cands[0].is.Cond)
	return fmt.Sprintf("/-- generated from %s func ValidateLogConfig: `if %s` -/\ndef %s (start limit : Option Int) : Bool :=\n  %s\n", rel, src(cands[0].is.Cond), leanName, cond)
}

// windowVerbatimShape checks that the configured NotAfter bounds reach ValidateChain unchanged:
// `*vCfg.NotAfterStart = start.AsTime()`, `*vCfg.NotAfterLimit = limit.AsTime()` in ValidateLogConfig and
// `notAfterStart: vCfg.NotAfterStart`, `notAfterLimit: vCfg.NotAfterLimit` in setUpLogInfo.
func windowVerbatimShape() func() string {
	return func() string {
		cfgRel := "trillian/ctfe/config.go"
		cfg := mustFunc(cfgRel, "ValidateLogConfig")
		file := parseFile(rp(cfgRel))
		for _, f := range []string{"NotAfterStart", "NotAfterLimit"} {
			o := windowOrigins(file, cfg, f)
			for k := range o {
				if k != "AsTime:"+f && k != "nil" && k != "fresh" {
					panic(bail{cfgRel + ": the configured bound " + f + " is no longer stored verbatim: it can come from " + k})
				}
			}
			if !o["AsTime:"+f] {
				panic(bail{cfgRel + ": no store of <config>." + f + ".AsTime() into the validated configuration found"})
			}
		}
		inst := mustFunc("trillian/ctfe/instance.go", "setUpLogInfo")
		n := 0
		ast.Inspect(inst.Body, func(nd ast.Node) bool {
			if kv, ok := nd.(*ast.KeyValueExpr); ok {
				k, v := src(kv.Key), src(kv.Value)
				if (k == "notAfterStart" && v == "vCfg.NotAfterStart") || (k == "notAfterLimit" && v == "vCfg.NotAfterLimit") {
					n++
				} else if k == "notAfterStart" || k == "notAfterLimit" {
					panic(bail{"trillian/ctfe/instance.go: validation options no longer take the configured bound unchanged: " + src(kv)})
				}
			}
			return true
		})
		if n != 2 {
			panic(bail{"trillian/ctfe/instance.go: notAfterStart/notAfterLimit wiring not found in setUpLogInfo"})
		}
		return "/-- generated: ValidateLogConfig stores `start.AsTime()` / `limit.AsTime()` verbatim and setUpLogInfo passes them on unchanged -/\ndef configuredWindowVerbatim : Bool := true\n"
	}
}
