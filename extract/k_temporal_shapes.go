package main

import (
	"fmt"
	"go/ast"
)

// indexByDateShape checks that IndexByDate is `for i, interval := range tlc.intervals { if c1 {continue}; if c2 {continue}; return i, nil }; return -1, err`
// and emits the loop as a Lean function over the two regenerated skip conditions.
func indexByDateShape(rel string) func() string {
	return func() string {
		fd := mustFunc(rel, "TemporalLogClient.IndexByDate")
		if len(fd.Body.List) != 2 {
			panic(bail{rel + ": IndexByDate body is not `for …; return`"})
		}
		rs, ok := fd.Body.List[0].(*ast.RangeStmt)
		if !ok || src(rs.X) != "tlc.intervals" || len(rs.Body.List) != 3 {
			panic(bail{rel + ": IndexByDate loop shape changed: " + src(fd.Body.List[0])})
		}
		for k := 0; k < 2; k++ {
			is, ok := rs.Body.List[k].(*ast.IfStmt)
			if !ok || is.Else != nil || len(is.Body.List) != 1 || src(is.Body.List[0]) != "continue" {
				panic(bail{rel + ": IndexByDate loop statement is not `if … { continue }`: " + src(rs.Body.List[k])})
			}
		}
		ret, ok := rs.Body.List[2].(*ast.ReturnStmt)
		if !ok || len(ret.Results) != 2 || src(ret.Results[0]) != src(rs.Key) || src(ret.Results[1]) != "nil" {
			panic(bail{rel + ": IndexByDate loop does not end in `return i, nil`: " + src(rs.Body.List[2])})
		}
		last, ok := fd.Body.List[1].(*ast.ReturnStmt)
		if !ok || len(last.Results) != 2 || src(last.Results[1]) == "nil" {
			panic(bail{rel + ": IndexByDate does not end in an error return"})
		}
		return fmt.Sprintf("/-- generated from %s func IndexByDate: first interval not skipped by either condition, by index; `none` = error -/\n"+
			"def indexByDate (intervals : List (Option Int × Option Int)) (when : Int) : Option Nat :=\n"+
			"  let idx := intervals.findIdx (fun iv => !(indexByDateSkipLower iv.1 when) && !(indexByDateSkipUpper iv.2 when))\n"+
			"  if idx < intervals.length then some idx else none\n", rel)
	}
}

// nilIntervalShape checks that a log without TemporalInterval is kept unconditionally.
func nilIntervalShape(rel string) func() string {
	return func() string {
		fd := mustFunc(rel, "LogList.TemporallyCompatible")
		ss := findStmts(fd, func(s ast.Stmt) bool {
			is, ok := s.(*ast.IfStmt)
			return ok && src(is.Cond) == "l.TemporalInterval == nil"
		})
		if len(ss) != 1 {
			panic(bail{rel + ": `if l.TemporalInterval == nil` not found exactly once"})
		}
		b := ss[0].(*ast.IfStmt).Body.List
		if len(b) != 2 || src(b[0]) != "compatibleOp.Logs = append(compatibleOp.Logs, l)" || src(b[1]) != "continue" {
			panic(bail{rel + ": nil-interval branch no longer keeps the log: " + src(ss[0])})
		}
		return fmt.Sprintf("/-- generated from %s: a log without TemporalInterval is kept -/\ndef temporallyCompatible (iv : Option (Int × Int)) (t : Int) : Bool :=\n  match iv with\n  | none => true\n  | some (s, l) => temporallyCompatibleCond s l t\n", rel)
	}
}
