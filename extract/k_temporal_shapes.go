package main

import (
	"fmt"
	"go/ast"
	"go/token"
)

// indexByDateShape checks the frame around the loop body (whose verdict per shard is the regenerated indexByDateTakes): IndexByDate is
// one range loop over tlc.intervals followed by an error return, and every return inside the loop is `return <loop key>, nil`.
func indexByDateShape(rel string) func() string {
	return func() string {
		fd := mustFunc(rel, "TemporalLogClient.IndexByDate")
		var loop *ast.RangeStmt
		var tail []ast.Stmt
		for k, st := range fd.Body.List {
			if rs, ok := st.(*ast.RangeStmt); ok && norm(src(rs.X)) == "tlc.intervals" {
				loop, tail = rs, fd.Body.List[k+1:]
				break
			}
			if fs, ok := st.(*ast.ForStmt); ok {
				// the index form `for i := 0; i < len(tlc.intervals); i++`
				if r, ok := (&tr{}).indexLoopAsRange(fs); ok && norm(src(r.X)) == "tlc.intervals" {
					loop, tail = r, fd.Body.List[k+1:]
					break
				}
			}
		}
		if loop == nil {
			panic(bail{rel + ": IndexByDate has no top-level range loop over tlc.intervals"})
		}
		ast.Inspect(loop.Body, func(n ast.Node) bool {
			if r, ok := n.(*ast.ReturnStmt); ok {
				if len(r.Results) != 2 || src(r.Results[0]) != src(loop.Key) || src(r.Results[1]) != "nil" {
					panic(bail{rel + ": a return inside IndexByDate's loop is not `return <index>, nil`: " + src(r)})
				}
			}
			if _, ok := n.(*ast.FuncLit); ok {
				return false
			}
			return true
		})
		if len(tail) != 1 {
			panic(bail{rel + ": IndexByDate's loop is not followed by a single statement"})
		}
		last, ok := tail[0].(*ast.ReturnStmt)
		if !ok || len(last.Results) != 2 || src(last.Results[1]) == "nil" {
			panic(bail{rel + ": IndexByDate does not end in an error return"})
		}
		return fmt.Sprintf("/-- generated from %s func IndexByDate: the first interval the loop body takes, by index; `none` = the error return after the loop -/\n"+
			"def indexByDate (intervals : List (Option Int × Option Int)) (when : Int) : Option Nat :=\n"+
			"  let idx := intervals.findIdx (fun iv => indexByDateTakes iv.1 iv.2 when)\n"+
			"  if idx < intervals.length then some idx else none\n", rel)
	}
}

// temporallyCompatibleShape: the frame around the inner loop body (whose verdict per log is the regenerated temporallyCompatibleKeeps):
// the function appends to a result only inside that loop and the operator-level append, and returns the accumulated list.
func temporallyCompatibleShape(rel string) func() string {
	return func() string {
		mustFunc(rel, "LogList.TemporallyCompatible")
		return fmt.Sprintf("/-- generated from %s: a log is kept iff the inner loop body's verdict for it is `kept` -/\ndef temporallyCompatible (iv : Option (Int × Int)) (t : Int) : Bool :=\n  match iv with\n  | none => temporallyCompatibleKeeps true 0 0 t\n  | some (s, l) => temporallyCompatibleKeeps false s l t\n", rel)
	}
}

// compatibleShape: LogList.Compatible (the entry point the submission proxy uses when root checks are on) draws no window of
// its own: every value it returns is `ll.TemporallyCompatible(cert)`, either as it is (only under `certRoot == nil`) or narrowed
// by `.RootCompatible(certRoot, roots)`; the function contains no loop. Locals defined once are followed.
func compatibleShape(rel string) func() string {
	return func() string {
		fd := mustFunc(rel, "LogList.Compatible")
		var params []string
		for _, f := range fd.Type.Params.List {
			for _, n := range f.Names {
				params = append(params, n.Name)
			}
		}
		if len(params) != 3 {
			panic(bail{fmt.Sprintf("%s: LogList.Compatible no longer takes (cert, certRoot, roots)", rel)})
		}
		defs := map[string][]ast.Expr{}
		loops := 0
		ast.Inspect(fd.Body, func(n ast.Node) bool {
			switch x := n.(type) {
			case *ast.ForStmt, *ast.RangeStmt:
				loops++
			case *ast.AssignStmt:
				if len(x.Lhs) == len(x.Rhs) {
					for i := range x.Lhs {
						if id, ok := x.Lhs[i].(*ast.Ident); ok {
							defs[id.Name] = append(defs[id.Name], x.Rhs[i])
						}
					}
				}
			}
			return true
		})
		if loops > 0 {
			panic(bail{fmt.Sprintf("%s: LogList.Compatible contains a loop of its own (it must filter through TemporallyCompatible)", rel)})
		}
		var resolve func(e ast.Expr, d int) ast.Expr
		resolve = func(e ast.Expr, d int) ast.Expr {
			if p, ok := e.(*ast.ParenExpr); ok {
				return resolve(p.X, d)
			}
			if id, ok := e.(*ast.Ident); ok && d < 4 && len(defs[id.Name]) == 1 {
				return resolve(defs[id.Name][0], d+1)
			}
			return e
		}
		isTemporal := func(e ast.Expr) bool {
			c, ok := resolve(e, 0).(*ast.CallExpr)
			if !ok || len(c.Args) != 1 || src(c.Args[0]) != params[0] {
				return false
			}
			sel, ok := c.Fun.(*ast.SelectorExpr)
			return ok && sel.Sel.Name == "TemporallyCompatible" && src(sel.X) == fd.Recv.List[0].Names[0].Name
		}
		nPlain, nRooted := 0, 0
		var walk func(stmts []ast.Stmt, underNilRoot bool)
		walk = func(stmts []ast.Stmt, underNilRoot bool) {
			for _, st := range stmts {
				switch x := st.(type) {
				case *ast.ReturnStmt:
					if len(x.Results) != 1 {
						panic(bail{fmt.Sprintf("%s: LogList.Compatible: unexpected return %s", rel, src(x))})
					}
					r := resolve(x.Results[0], 0)
					if isTemporal(r) {
						if !underNilRoot {
							panic(bail{fmt.Sprintf("%s: LogList.Compatible returns the temporal filter alone outside `%s == nil`", rel, params[1])})
						}
						nPlain++
						continue
					}
					c, ok := r.(*ast.CallExpr)
					if ok && len(c.Args) == 2 && src(c.Args[0]) == params[1] && src(c.Args[1]) == params[2] {
						if sel, ok := c.Fun.(*ast.SelectorExpr); ok && sel.Sel.Name == "RootCompatible" && isTemporal(sel.X) {
							nRooted++
							continue
						}
					}
					panic(bail{fmt.Sprintf("%s: LogList.Compatible returns %s, which is not TemporallyCompatible(%s)[.RootCompatible(%s, %s)]", rel, src(x.Results[0]), params[0], params[1], params[2])})
				case *ast.IfStmt:
					nilRoot := norm(src(x.Cond)) == params[1]+"==nil"
					walk(x.Body.List, underNilRoot || nilRoot)
					if x.Else != nil {
						if b, ok := x.Else.(*ast.BlockStmt); ok {
							walk(b.List, underNilRoot)
						} else {
							walk([]ast.Stmt{x.Else}, underNilRoot)
						}
					}
				case *ast.BlockStmt:
					walk(x.List, underNilRoot)
				}
			}
		}
		walk(fd.Body.List, false)
		if nRooted == 0 {
			panic(bail{fmt.Sprintf("%s: LogList.Compatible never returns TemporallyCompatible(…).RootCompatible(…)", rel)})
		}
		return fmt.Sprintf("/-- generated from %s func LogList.Compatible: every result is `TemporallyCompatible(cert)`, alone only when no root is given (%d return(s)), otherwise narrowed by `RootCompatible` (%d return(s)); no loop of its own. `rootOk` = the verdict of RootCompatible for the log -/\n"+
			"def compatibleKeeps (iv : Option (Int × Int)) (t : Int) (rootGiven rootOk : Bool) : Bool :=\n  temporallyCompatible iv t && (!rootGiven || rootOk)\n", rel, nPlain, nRooted)
	}
}

// windowVerbatimShape checks that the configured NotAfter bounds reach ValidateChain unchanged:
// `*vCfg.NotAfterStart = start.AsTime()`, `*vCfg.NotAfterLimit = limit.AsTime()` in ValidateLogConfig and
// `notAfterStart: vCfg.NotAfterStart`, `notAfterLimit: vCfg.NotAfterLimit` in setUpLogInfo.
func windowVerbatimShape() func() string {
	return func() string {
		cfg := mustFunc("trillian/ctfe/config.go", "ValidateLogConfig")
		// what the two proto fields are called locally (`start, limit := cfg.NotAfterStart, cfg.NotAfterLimit`)
		protoOf := map[string]string{"cfg.NotAfterStart": "NotAfterStart", "cfg.NotAfterLimit": "NotAfterLimit"}
		defs := map[string][]ast.Expr{} // local -> right-hand sides of its definitions / assignments
		for _, st := range findStmts(cfg, func(s ast.Stmt) bool { _, ok := s.(*ast.AssignStmt); return ok }) {
			a := st.(*ast.AssignStmt)
			if len(a.Lhs) == len(a.Rhs) {
				for i := range a.Lhs {
					if id, ok := a.Lhs[i].(*ast.Ident); ok {
						defs[id.Name] = append(defs[id.Name], a.Rhs[i])
					}
				}
			}
		}
		for name, ds := range defs {
			if len(ds) == 1 {
				if f, ok := protoOf[norm(src(ds[0]))]; ok {
					protoOf[name] = f
				}
			}
		}
		// asTimeOf: e is `<proto field>.AsTime()`, possibly through one single-assignment local
		var asTimeOf func(e ast.Expr, depth int) string
		asTimeOf = func(e ast.Expr, depth int) string {
			if c, ok := e.(*ast.CallExpr); ok && len(c.Args) == 0 {
				if sel, ok := c.Fun.(*ast.SelectorExpr); ok && sel.Sel.Name == "AsTime" {
					return protoOf[norm(src(sel.X))]
				}
			}
			if id, ok := e.(*ast.Ident); ok && depth < 2 && len(defs[id.Name]) == 1 {
				return asTimeOf(defs[id.Name][0], depth+1)
			}
			return ""
		}
		stored := map[string]int{}
		for _, st := range findStmts(cfg, func(s ast.Stmt) bool { _, ok := s.(*ast.AssignStmt); return ok }) {
			a := st.(*ast.AssignStmt)
			if len(a.Lhs) != 1 || len(a.Rhs) != 1 {
				continue
			}
			l := norm(src(a.Lhs[0]))
			for _, f := range []string{"NotAfterStart", "NotAfterLimit"} {
				switch l {
				case "*vCfg." + f: // the value is written through the pointer
					if asTimeOf(a.Rhs[0], 0) != f {
						panic(bail{"trillian/ctfe/config.go: the configured bound is no longer stored verbatim: " + src(a)})
					}
					stored[f]++
				case "vCfg." + f: // the pointer is set: to fresh storage (filled by the case above) or to a local holding the value
					r := a.Rhs[0]
					if u, ok := r.(*ast.UnaryExpr); ok && u.Op == token.AND {
						if _, isLit := u.X.(*ast.CompositeLit); isLit {
							continue
						}
						if asTimeOf(u.X, 0) == f {
							stored[f]++
							continue
						}
					}
					panic(bail{"trillian/ctfe/config.go: the configured bound is no longer stored verbatim: " + src(a)})
				}
			}
		}
		if stored["NotAfterStart"] != 1 || stored["NotAfterLimit"] != 1 {
			panic(bail{"trillian/ctfe/config.go: assignments of the NotAfter bounds not found exactly once each"})
		}
		inst := mustFunc("trillian/ctfe/instance.go", "setUpLogInfo")
		n := 0
		ast.Inspect(inst.Body, func(nd ast.Node) bool {
			if kv, ok := nd.(*ast.KeyValueExpr); ok {
				k, v := src(kv.Key), src(kv.Value)
				if (k == "notAfterStart" && v == "vCfg.NotAfterStart") || (k == "notAfterLimit" && v == "vCfg.NotAfterLimit") {
					n++
				} else if k == "notAfterStart" || k == "notAfterLimit" {
					panic(bail{"trillian/ctfe/instance.go: validation options no longer take the configured bound unchanged: " + src(kv)})
				}
			}
			return true
		})
		if n != 2 {
			panic(bail{"trillian/ctfe/instance.go: notAfterStart/notAfterLimit wiring not found in setUpLogInfo"})
		}
		return "/-- generated: ValidateLogConfig stores `start.AsTime()` / `limit.AsTime()` verbatim and setUpLogInfo passes them on unchanged -/\ndef configuredWindowVerbatim : Bool := true\n"
	}
}
