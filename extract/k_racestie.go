package main

// C17 deepening: whole bodies of safeSubmissionState.request / groupComplete and the base-group block of setResult,
// regenerated statement by statement as functions of the facts they test; plus two history facts (RefreshRoots replaces
// the per-log root sets wholesale; restartDistributor always builds a new Distributor). Lean: Gen/RacesTie.lean,
// tied to CTV.Model.Races in Props/C17Tie.lean.

import (
	"fmt"
	"go/ast"
	"go/token"
	"strings"
)

// awaitedFlagLoop recognises, whatever the local names,
//
//	flag := false ; for g := range <set> { if sub.groupNeeds[g] > 0 { flag = true; break } }
//
// and returns the flag's name ("" if st is not such a loop).
func awaitedFlagLoop(st ast.Stmt) string {
	rs, ok := st.(*ast.RangeStmt)
	if !ok || rs.Key == nil || len(rs.Body.List) != 1 {
		return ""
	}
	is, ok := rs.Body.List[0].(*ast.IfStmt)
	if !ok || is.Else != nil || is.Init != nil || len(is.Body.List) != 2 {
		return ""
	}
	if strings.ReplaceAll(src(is.Cond), " ", "") != "sub.groupNeeds["+src(rs.Key)+"]>0" {
		return ""
	}
	as, ok := is.Body.List[0].(*ast.AssignStmt)
	br, ok2 := is.Body.List[1].(*ast.BranchStmt)
	if !ok || !ok2 || br.Tok != token.BREAK || len(as.Lhs) != 1 || src(as.Rhs[0]) != "true" {
		return ""
	}
	return src(as.Lhs[0])
}

// awaitedReturnLoop recognises `for g := range <set> { if sub.groupNeeds[g] > 0 { …; return … } }` and returns the `if` with its
// condition replaced by the fact `awaited__` (nil if st is not such a loop).
func awaitedReturnLoop(st ast.Stmt) *ast.IfStmt {
	rs, ok := st.(*ast.RangeStmt)
	if !ok || rs.Key == nil || len(rs.Body.List) != 1 {
		return nil
	}
	is, ok := rs.Body.List[0].(*ast.IfStmt)
	if !ok || is.Else != nil || is.Init != nil || len(is.Body.List) == 0 {
		return nil
	}
	if strings.ReplaceAll(src(is.Cond), " ", "") != "sub.groupNeeds["+src(rs.Key)+"]>0" {
		return nil
	}
	if _, ok := is.Body.List[len(is.Body.List)-1].(*ast.ReturnStmt); !ok {
		return nil
	}
	// the body must not mention the loop variable (the decision is the same whichever group is found)
	for _, b := range is.Body.List {
		if strings.Contains(" "+src(b)+" ", " "+src(rs.Key)+" ") || strings.Contains(src(b), "["+src(rs.Key)+"]") {
			return nil
		}
	}
	n := *is
	n.Cond = ast.NewIdent("awaited__")
	return &n
}

// filteredBody translates fn's statements after removing (a) `flag := false` + awaited-flag loops (flag becomes the input
// `awaited`), (b) statements for which drop says true.
func filteredBody(rel, fn, leanName, params, resultTy, prelude, tail string, sp Spec, pick func(*ast.FuncDecl) []ast.Stmt) func() string {
	return func() string {
		fd := mustFunc(rel, fn)
		stmts := fd.Body.List
		if pick != nil {
			stmts = pick(fd)
		}
		var flags []string
		for _, st := range stmts {
			if f := awaitedFlagLoop(st); f != "" {
				flags = append(flags, f)
			}
		}
		var keep []ast.Stmt
		for _, st := range stmts {
			if awaitedFlagLoop(st) != "" {
				continue
			}
			if is := awaitedReturnLoop(st); is != nil {
				keep = append(keep, is)
				continue
			}
			if as, ok := st.(*ast.AssignStmt); ok && len(as.Lhs) == 1 && len(as.Rhs) == 1 && src(as.Rhs[0]) == "false" {
				isFlag := false
				for _, f := range flags {
					if f == src(as.Lhs[0]) {
						isFlag = true
					}
				}
				if isFlag {
					continue
				}
			}
			keep = append(keep, st)
		}
		if sp.Repl == nil {
			sp.Repl = map[string]string{}
		}
		sp.Repl["awaited__"] = "awaited"
		for _, f := range flags {
			sp.Repl[f] = "awaited"
			sp.Repl["!"+f] = "(!awaited)"
		}
		t := &tr{sp: sp}
		body := t.block(keep, tail, "  ")
		return fmt.Sprintf("/-- generated from %s func %s (statement by statement; the `is any group of the log still waiting` loop is the input `awaited`) -/\ndef %s %s : %s :=\n  %s%s\n",
			rel, fn, leanName, params, resultTy, prelude, body)
	}
}

// the base-group block of setResult, wherever it lives: an `if <groups of the log>[ctpolicy.BaseName] { … }` statement, or a
// method of safeSubmissionState that starts with `if !<groups of the log>[ctpolicy.BaseName] { return }`. The sum over the other
// groups' positive needs — an inline loop or a helper method consisting of that loop — is the input `other`.
func isOtherSumLoop(st ast.Stmt) (acc string, ok bool) {
	x, isR := st.(*ast.RangeStmt)
	if !isR || src(x.X) != "sub.groupNeeds" || x.Key == nil || x.Value == nil || len(x.Body.List) != 1 {
		return "", false
	}
	is, isI := x.Body.List[0].(*ast.IfStmt)
	if !isI || len(is.Body.List) != 1 || is.Else != nil {
		return "", false
	}
	c := strings.ReplaceAll(src(is.Cond), " ", "")
	want := src(x.Key) + "!=ctpolicy.BaseName&&" + src(x.Value) + ">0"
	as, isA := is.Body.List[0].(*ast.AssignStmt)
	if !isA || c != want || as.Tok != token.ADD_ASSIGN || src(as.Rhs[0]) != src(x.Value) {
		return "", false
	}
	return src(as.Lhs[0]), true
}

func setResultBaseBlock(rel string) func() string {
	return func() string {
		f := parseFile(rp(rel))
		var body []ast.Stmt
		sumHelpers := map[string]string{}
		for _, d := range f.Decls {
			fd, ok := d.(*ast.FuncDecl)
			if !ok || fd.Body == nil || !strings.HasPrefix(funcQualName(fd), "safeSubmissionState.") {
				continue
			}
			// helper: acc := 0; <sum loop>; return acc
			if l := fd.Body.List; len(l) == 3 {
				if acc, ok := isOtherSumLoop(l[1]); ok {
					if r, isRet := l[2].(*ast.ReturnStmt); isRet && len(r.Results) == 1 && src(r.Results[0]) == acc {
						sumHelpers["sub."+fd.Name.Name] = "other"
					}
				}
			}
			for k, st := range fd.Body.List {
				is, ok := st.(*ast.IfStmt)
				if !ok || is.Init != nil {
					continue
				}
				c := src(is.Cond)
				switch {
				case strings.HasSuffix(c, "[ctpolicy.BaseName]") && !strings.HasPrefix(c, "!"):
					body = is.Body.List
				case k == 0 && strings.HasPrefix(c, "!") && strings.HasSuffix(c, "[ctpolicy.BaseName]") && len(is.Body.List) == 1 && src(is.Body.List[0]) == "return":
					body = fd.Body.List[1:]
				}
			}
		}
		if body == nil {
			panic(bail{rel + ": no code guarded by base-group membership (`…[ctpolicy.BaseName]`) in safeSubmissionState"})
		}
		acc := ""
		var strip func(b []ast.Stmt) []ast.Stmt
		strip = func(b []ast.Stmt) []ast.Stmt {
			var out []ast.Stmt
			for _, st := range b {
				switch x := st.(type) {
				case *ast.RangeStmt:
					a, ok := isOtherSumLoop(x)
					if !ok {
						panic(bail{rel + ": unexpected loop in the base-group block: " + src(x)})
					}
					acc = a
					continue
				case *ast.IfStmt:
					nb := *x
					nbb := *x.Body
					nbb.List = strip(x.Body.List)
					nb.Body = &nbb
					if eb, ok := x.Else.(*ast.BlockStmt); ok {
						ne := *eb
						ne.List = strip(eb.List)
						nb.Else = &ne
					} else if ei, ok := x.Else.(*ast.IfStmt); ok {
						nb.Else = strip([]ast.Stmt{ei})[0]
					}
					out = append(out, &nb)
					continue
				case *ast.SwitchStmt:
					ns := *x
					nbody := *x.Body
					nbody.List = nil
					for _, c := range x.Body.List {
						cc := *(c.(*ast.CaseClause))
						cc.Body = strip(cc.Body)
						nbody.List = append(nbody.List, &cc)
					}
					ns.Body = &nbody
					out = append(out, &ns)
					continue
				}
				out = append(out, st)
			}
			if acc != "" {
				var o2 []ast.Stmt
				for _, st := range out {
					if as, ok := st.(*ast.AssignStmt); ok && len(as.Lhs) == 1 && src(as.Lhs[0]) == acc && src(as.Rhs[0]) == "0" {
						continue
					}
					o2 = append(o2, st)
				}
				out = o2
			}
			return out
		}
		body = strip(body)
		if acc == "" && len(sumHelpers) == 0 {
			panic(bail{rel + ": the sum over the other groups' needs was not found (neither inline nor as a helper)"})
		}
		repl := map[string]string{"sub.results[logURL].sct != nil": "hasSct", "sub.results[logURL].sct == nil": "(!hasSct)",
			"&submissionResult{sct: sct, err: err}": "true"}
		if acc != "" {
			repl[acc] = "other"
		}
		sp := Spec{Kind: "i64", Ret: "state", StateVars: []string{"stored_", "needsBase_"}, CallRepl: sumHelpers,
			Vars: map[string]string{"sub.results[logURL]": "stored_", "sub.groupNeeds[ctpolicy.BaseName]": "needsBase_"}, Repl: repl}
		t := &tr{sp: sp}
		code := t.block(body, "(stored_, needsBase_)", "  ")
		return fmt.Sprintf("/-- generated from %s (safeSubmissionState.setResult): the code guarded by base-group membership, statement by statement\n"+
			"    (`other` = the sum of the other groups' positive needs; result: is the SCT stored by this block, the base group's need afterwards) -/\n"+
			"def setResultBase (hasSct : Bool) (needsBase_ other : Int) : Bool × Int :=\n  let stored_ := false\n  %s\n", rel, code)
	}
}

// reachable: fn and the same-file functions it calls, transitively
func reachableFuncs(rel, fn string) []*ast.FuncDecl {
	f := parseFile(rp(rel))
	by := map[string]*ast.FuncDecl{}
	for _, d := range f.Decls {
		if fd, ok := d.(*ast.FuncDecl); ok && fd.Body != nil {
			by[fd.Name.Name] = fd
		}
	}
	start := fn
	if i := strings.Index(fn, "."); i >= 0 {
		start = fn[i+1:]
	}
	seen := map[string]bool{}
	var out []*ast.FuncDecl
	var visit func(name string)
	visit = func(name string) {
		fd := by[name]
		if fd == nil || seen[name] {
			return
		}
		seen[name] = true
		out = append(out, fd)
		ast.Inspect(fd.Body, func(n ast.Node) bool {
			if c, ok := n.(*ast.CallExpr); ok {
				switch x := c.Fun.(type) {
				case *ast.Ident:
					visit(x.Name)
				case *ast.SelectorExpr:
					visit(x.Sel.Name)
				}
			}
			return true
		})
	}
	visit(start)
	return out
}

// RefreshRoots (with whatever helpers it is split into): d.logRoots is assigned, and the per-log entries known before are never
// looked up (`d.logRoots[…]` does not occur); d.rootPool is assigned a fresh pool.
func refreshReplacesRoots(rel string) func() string {
	return func() string {
		fds := reachableFuncs(rel, "Distributor.RefreshRoots")
		if len(fds) == 0 {
			panic(bail{rel + ": RefreshRoots not found"})
		}
		assigned, lookedUp, freshPool := false, false, false
		for _, fd := range fds {
			ast.Inspect(fd.Body, func(n ast.Node) bool {
				switch x := n.(type) {
				case *ast.AssignStmt:
					for k, l := range x.Lhs {
						if src(l) == "d.logRoots" {
							assigned = true
						}
						if src(l) == "d.rootPool" && k < len(x.Rhs) && strings.HasSuffix(callName(x.Rhs[k]), "NewPEMCertPool") {
							freshPool = true
						}
					}
				case *ast.IndexExpr:
					if src(x.X) == "d.logRoots" {
						lookedUp = true
					}
				}
				return true
			})
		}
		return fmt.Sprintf("/-- generated from %s func Distributor.RefreshRoots and the %d same-file functions it reaches: d.logRoots is assigned (%v), the entries\n    known before are never looked up (no `d.logRoots[…]`: %v), d.rootPool starts from a fresh pool (%v) -/\ndef refreshReplacesRoots : Bool := %v\n",
			rel, len(fds)-1, assigned, !lookedUp, freshPool, assigned && !lookedUp && freshPool)
	}
}

func restartAlwaysRebuilds(rel string) func() string {
	return func() string {
		fd := mustFunc(rel, "Proxy.restartDistributor")
		var call token.Pos
		ast.Inspect(fd.Body, func(n ast.Node) bool {
			if c, ok := n.(*ast.CallExpr); ok && src(c.Fun) == "p.distributorBuilder" && call == 0 {
				call = c.Pos()
			}
			return true
		})
		early := false
		ast.Inspect(fd.Body, func(n ast.Node) bool {
			if r, ok := n.(*ast.ReturnStmt); ok && (call == 0 || r.Pos() < call) {
				early = true
			}
			return true
		})
		// the builder's result variable is what is assigned to p.dist (plain or tuple assignment)
		built, stores := "", false
		ast.Inspect(fd.Body, func(n ast.Node) bool {
			if a, ok := n.(*ast.AssignStmt); ok {
				if len(a.Rhs) == 1 && callName(a.Rhs[0]) == "p.distributorBuilder" && len(a.Lhs) >= 1 {
					built = src(a.Lhs[0])
				}
				for k, l := range a.Lhs {
					if src(l) == "p.dist" && len(a.Lhs) == len(a.Rhs) && built != "" && src(a.Rhs[k]) == built {
						stores = true
					}
				}
			}
			return true
		})
		return fmt.Sprintf("/-- generated from %s func Proxy.restartDistributor: the distributor builder is called on the new log list before any return,\n    and its result becomes p.dist -/\ndef restartAlwaysRebuilds : Bool := %v\n", rel, call != 0 && !early && stores)
	}
}

// groupComplete: `needs, ok := sub.groupNeeds[name]` (comma-ok read: inputs ok_, needs_) or a direct read `sub.groupNeeds[name]`
// (input needs_), whatever the parameter and the locals are called.
func groupCompleteUnit(rel string) func() string {
	return func() string {
		fd := mustFunc(rel, "safeSubmissionState.groupComplete")
		if fd.Type.Params == nil || len(fd.Type.Params.List) != 1 || len(fd.Type.Params.List[0].Names) != 1 {
			panic(bail{rel + ": groupComplete does not take one parameter"})
		}
		read := "sub.groupNeeds[" + fd.Type.Params.List[0].Names[0].Name + "]"
		repl := map[string]string{read: "needs_"}
		var keep []ast.Stmt
		for _, st := range fd.Body.List {
			if a, ok := st.(*ast.AssignStmt); ok && len(a.Lhs) == 2 && len(a.Rhs) == 1 && src(a.Rhs[0]) == read {
				repl[src(a.Lhs[0])] = "needs_"
				repl[src(a.Lhs[1])] = "ok_"
				repl["!"+src(a.Lhs[1])] = "(!ok_)"
				continue
			}
			if is, ok := st.(*ast.IfStmt); ok && is.Init != nil {
				if a, ok := is.Init.(*ast.AssignStmt); ok && len(a.Lhs) == 2 && len(a.Rhs) == 1 && src(a.Rhs[0]) == read {
					repl[src(a.Lhs[0])] = "needs_"
					repl[src(a.Lhs[1])] = "ok_"
					repl["!"+src(a.Lhs[1])] = "(!ok_)"
					n := *is
					n.Init = nil
					keep = append(keep, &n)
					continue
				}
			}
			keep = append(keep, st)
		}
		t := &tr{sp: Spec{Kind: "i64", Ignore: []string{"sub.mu."}, Repl: repl}}
		return fmt.Sprintf("/-- generated from %s func safeSubmissionState.groupComplete (ok_: the group is a key of groupNeeds; needs_: the value read, 0 for a missing key) -/\ndef groupCompleteBody (ok_ : Bool) (needs_ : Int) : Bool :=\n  %s\n",
			rel, t.block(keep, "true", "  "))
	}
}

// The distributor hands d.rootPool / the per-log pools to readers that hold only its READ lock, so every method of
// x509util.PEMCertPool other than the ones that add certificates must leave the pool's fields alone.
func pemCertPoolGettersPure(rel string) func() string {
	return func() string {
		f := parseFile(rp(rel))
		var impure []string
		n := 0
		for _, d := range f.Decls {
			fd, ok := d.(*ast.FuncDecl)
			if !ok || fd.Body == nil || fd.Recv == nil || !strings.HasPrefix(funcQualName(fd), "PEMCertPool.") {
				continue
			}
			name := fd.Name.Name
			if name == "AddCert" || strings.HasPrefix(name, "Append") {
				continue
			}
			n++
			recv := ""
			if len(fd.Recv.List[0].Names) == 1 {
				recv = fd.Recv.List[0].Names[0].Name
			}
			writes := false
			ast.Inspect(fd.Body, func(x ast.Node) bool {
				switch y := x.(type) {
				case *ast.AssignStmt:
					for _, l := range y.Lhs {
						if strings.HasPrefix(src(l), recv+".") {
							writes = true
						}
					}
				case *ast.IncDecStmt:
					if strings.HasPrefix(src(y.X), recv+".") {
						writes = true
					}
				case *ast.CallExpr:
					c := src(y.Fun)
					if c == recv+".AddCert" || strings.HasPrefix(c, recv+".Append") || (strings.HasPrefix(c, recv+".") && strings.HasSuffix(c, ".AddCert")) {
						writes = true
					}
				}
				return true
			})
			if writes {
				impure = append(impure, name)
			}
		}
		if n == 0 {
			panic(bail{rel + ": no read-only methods of PEMCertPool found"})
		}
		return fmt.Sprintf("/-- generated from %s: the %d methods of PEMCertPool other than AddCert / Append… assign no field of the pool and add no certificate\n    (methods that do: %v) -/\ndef pemCertPoolGettersPure : Bool := %v\n", rel, n, impure, len(impure) == 0)
	}
}

func init() {
	r := "submission/races.go"
	register(genFile{name: "RacesTie", imports: []string{"CTV.Basic.I64"}, units: []unit{
		{"RacesTie.request", filteredBody(r, "safeSubmissionState.request", "requestBody", "(requested awaited : Bool)", "Bool × Bool × Bool",
			"let placeholder_ := false\n  let cancelStored_ := false\n  ", "(false, placeholder_, cancelStored_)",
			Spec{Kind: "i64", Ret: "state", StateVars: []string{"placeholder_", "cancelStored_"}, Ignore: []string{"sub.mu."}, Inline: false,
				CallRepl: map[string]string{"sub.isAwaitedLocked": "awaited"},
				Vars:     map[string]string{"sub.results[logURL]": "placeholder_", "sub.cancels[logURL]": "cancelStored_"},
				Repl: map[string]string{"sub.results[logURL] != nil": "requested", "sub.results[logURL] == nil": "(!requested)",
					"&submissionResult{}": "true", "cancel": "true"}}, nil)},
		{"RacesTie.groupComplete", groupCompleteUnit(r)},
		{"RacesTie.setResultBase", setResultBaseBlock(r)},
		{"RacesTie.refreshReplacesRoots", refreshReplacesRoots("submission/distributor.go")},
		{"RacesTie.restartAlwaysRebuilds", restartAlwaysRebuilds("submission/proxy.go")},
		{"RacesTie.pemCertPoolGettersPure", pemCertPoolGettersPure("x509util/pem_cert_pool.go")},
	}})
}
