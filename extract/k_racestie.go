package main

// C17 deepening: whole bodies of safeSubmissionState.request / groupComplete and the base-group block of setResult,
// regenerated statement by statement as functions of the facts they test; plus two history facts (RefreshRoots replaces
// the per-log root sets wholesale; restartDistributor always builds a new Distributor). Lean: Gen/RacesTie.lean,
// tied to CTV.Model.Races in Props/C17Tie.lean.

import (
	"fmt"
	"go/ast"
	"go/token"
	"strings"
)

// awaitedFlagLoop recognises, whatever the local names,
//
//	flag := false ; for g := range <set> { if sub.groupNeeds[g] > 0 { flag = true; break } }
//
// and returns the flag's name ("" if st is not such a loop).
func awaitedFlagLoop(st ast.Stmt) string {
	rs, ok := st.(*ast.RangeStmt)
	if !ok || rs.Key == nil || len(rs.Body.List) != 1 {
		return ""
	}
	is, ok := rs.Body.List[0].(*ast.IfStmt)
	if !ok || is.Else != nil || is.Init != nil || len(is.Body.List) != 2 {
		return ""
	}
	if strings.ReplaceAll(src(is.Cond), " ", "") != "sub.groupNeeds["+src(rs.Key)+"]>0" {
		return ""
	}
	as, ok := is.Body.List[0].(*ast.AssignStmt)
	br, ok2 := is.Body.List[1].(*ast.BranchStmt)
	if !ok || !ok2 || br.Tok != token.BREAK || len(as.Lhs) != 1 || src(as.Rhs[0]) != "true" {
		return ""
	}
	return src(as.Lhs[0])
}

// filteredBody translates fn's statements after removing (a) `flag := false` + awaited-flag loops (flag becomes the input
// `awaited`), (b) statements for which drop says true.
func filteredBody(rel, fn, leanName, params, resultTy, prelude, tail string, sp Spec, pick func(*ast.FuncDecl) []ast.Stmt) func() string {
	return func() string {
		fd := mustFunc(rel, fn)
		stmts := fd.Body.List
		if pick != nil {
			stmts = pick(fd)
		}
		var flags []string
		for _, st := range stmts {
			if f := awaitedFlagLoop(st); f != "" {
				flags = append(flags, f)
			}
		}
		var keep []ast.Stmt
		for _, st := range stmts {
			if awaitedFlagLoop(st) != "" {
				continue
			}
			if as, ok := st.(*ast.AssignStmt); ok && len(as.Lhs) == 1 && len(as.Rhs) == 1 && src(as.Rhs[0]) == "false" {
				isFlag := false
				for _, f := range flags {
					if f == src(as.Lhs[0]) {
						isFlag = true
					}
				}
				if isFlag {
					continue
				}
			}
			keep = append(keep, st)
		}
		if sp.Repl == nil {
			sp.Repl = map[string]string{}
		}
		for _, f := range flags {
			sp.Repl[f] = "awaited"
			sp.Repl["!"+f] = "(!awaited)"
		}
		t := &tr{sp: sp}
		body := t.block(keep, tail, "  ")
		return fmt.Sprintf("/-- generated from %s func %s (statement by statement; the `is any group of the log still waiting` loop is the input `awaited`) -/\ndef %s %s : %s :=\n  %s%s\n",
			rel, fn, leanName, params, resultTy, prelude, body)
	}
}

// the base-group block of setResult: the statement `if sub.logToGroups[logURL][ctpolicy.BaseName] { … }` (base membership
// possibly through a hoisted alias), with the summation loop over the other groups' needs replaced by the input `other`.
func setResultBaseBlock(rel string) func() string {
	return func() string {
		fd := mustFunc(rel, "safeSubmissionState.setResult")
		var blk *ast.IfStmt
		for _, st := range fd.Body.List {
			if is, ok := st.(*ast.IfStmt); ok && strings.HasSuffix(src(is.Cond), "[ctpolicy.BaseName]") {
				blk = is
			}
		}
		if blk == nil {
			panic(bail{rel + ": setResult has no `if <groups of the log>[ctpolicy.BaseName]` block"})
		}
		// inside: find and drop the summation loop `for g, cnt := range sub.groupNeeds { if g != BaseName && cnt > 0 { acc += cnt } }`
		acc := ""
		var strip func(b []ast.Stmt) []ast.Stmt
		strip = func(b []ast.Stmt) []ast.Stmt {
			var out []ast.Stmt
			for _, st := range b {
				switch x := st.(type) {
				case *ast.RangeStmt:
					if src(x.X) == "sub.groupNeeds" && len(x.Body.List) == 1 {
						if is, ok := x.Body.List[0].(*ast.IfStmt); ok && len(is.Body.List) == 1 {
							c := strings.ReplaceAll(src(is.Cond), " ", "")
							want := src(x.Key) + "!=ctpolicy.BaseName&&" + src(x.Value) + ">0"
							if as, ok := is.Body.List[0].(*ast.AssignStmt); ok && c == want && as.Tok == token.ADD_ASSIGN && src(as.Rhs[0]) == src(x.Value) {
								acc = src(as.Lhs[0])
								continue
							}
						}
					}
					panic(bail{rel + ": unexpected loop in setResult's base-group block: " + src(x)})
				case *ast.AssignStmt:
					if len(x.Lhs) == 1 && acc == "" && src(x.Rhs[0]) == "0" {
						// candidate accumulator initialisation; dropped if the loop that follows uses it
						out = append(out, st)
						continue
					}
				case *ast.IfStmt:
					nb := *x
					nbb := *x.Body
					nbb.List = strip(x.Body.List)
					nb.Body = &nbb
					if eb, ok := x.Else.(*ast.BlockStmt); ok {
						ne := *eb
						ne.List = strip(eb.List)
						nb.Else = &ne
					} else if ei, ok := x.Else.(*ast.IfStmt); ok {
						r := strip([]ast.Stmt{ei})
						nb.Else = r[0]
					}
					out = append(out, &nb)
					continue
				case *ast.SwitchStmt:
					ns := *x
					nbody := *x.Body
					nbody.List = nil
					for _, c := range x.Body.List {
						cc := *(c.(*ast.CaseClause))
						cc.Body = strip(cc.Body)
						nbody.List = append(nbody.List, &cc)
					}
					ns.Body = &nbody
					out = append(out, &ns)
					continue
				}
				out = append(out, st)
			}
			// drop `acc := 0`
			if acc != "" {
				var o2 []ast.Stmt
				for _, st := range out {
					if as, ok := st.(*ast.AssignStmt); ok && len(as.Lhs) == 1 && src(as.Lhs[0]) == acc && src(as.Rhs[0]) == "0" {
						continue
					}
					o2 = append(o2, st)
				}
				out = o2
			}
			return out
		}
		body := strip(blk.Body.List)
		if acc == "" {
			panic(bail{rel + ": the sum over the other groups' needs was not found in setResult's base-group block"})
		}
		sp := Spec{Kind: "i64", Ret: "state", StateVars: []string{"stored_", "needsBase_"},
			Vars: map[string]string{"sub.results[logURL]": "stored_", "sub.groupNeeds[ctpolicy.BaseName]": "needsBase_"},
			Repl: map[string]string{"sub.results[logURL].sct != nil": "hasSct", "sub.results[logURL].sct == nil": "(!hasSct)", acc: "other",
				"&submissionResult{sct: sct, err: err}": "true"}}
		t := &tr{sp: sp}
		tail := "(stored_, needsBase_)"
		code := t.block(body, tail, "  ")
		return fmt.Sprintf("/-- generated from %s func safeSubmissionState.setResult: the block guarded by base-group membership, statement by statement\n"+
			"    (`other` = the sum of the other groups' positive needs; result: is the SCT stored by this block, the base group's need afterwards) -/\n"+
			"def setResultBase (hasSct : Bool) (needsBase_ other : Int) : Bool × Int :=\n  let stored_ := false\n  %s\n", rel, code)
	}
}

func refreshReplacesRoots(rel string) func() string {
	return func() string {
		fd := mustFunc(rel, "Distributor.RefreshRoots")
		// every write into the map that becomes d.logRoots takes this round's answer
		target := ""
		ast.Inspect(fd.Body, func(n ast.Node) bool {
			if a, ok := n.(*ast.AssignStmt); ok && len(a.Lhs) == 1 && src(a.Lhs[0]) == "d.logRoots" {
				target = src(a.Rhs[0])
			}
			return true
		})
		if target == "" {
			panic(bail{rel + ": RefreshRoots does not assign d.logRoots"})
		}
		ok := true
		writes := 0
		ast.Inspect(fd.Body, func(n ast.Node) bool {
			if a, isA := n.(*ast.AssignStmt); isA && len(a.Lhs) == 1 {
				if ix, isIx := a.Lhs[0].(*ast.IndexExpr); isIx && src(ix.X) == target {
					writes++
					if !strings.HasSuffix(src(a.Rhs[0]), ".Roots") {
						ok = false
					}
				}
			}
			return true
		})
		return fmt.Sprintf("/-- generated from %s func Distributor.RefreshRoots: d.logRoots is replaced by the map `%s`, every entry of which (%d write) is this\n    round's answer of the log (`….Roots`), never what was known before -/\ndef refreshReplacesRoots : Bool := %v\n", rel, target, writes, ok && writes > 0)
	}
}

func restartAlwaysRebuilds(rel string) func() string {
	return func() string {
		fd := mustFunc(rel, "Proxy.restartDistributor")
		var call token.Pos
		ast.Inspect(fd.Body, func(n ast.Node) bool {
			if c, ok := n.(*ast.CallExpr); ok && src(c.Fun) == "p.distributorBuilder" && call == 0 {
				call = c.Pos()
			}
			return true
		})
		early := false
		ast.Inspect(fd.Body, func(n ast.Node) bool {
			if r, ok := n.(*ast.ReturnStmt); ok && (call == 0 || r.Pos() < call) {
				early = true
			}
			return true
		})
		stores := strings.Contains(src(fd.Body), "p.dist = ")
		return fmt.Sprintf("/-- generated from %s func Proxy.restartDistributor: the distributor builder is called on the new log list before any return,\n    and its result becomes p.dist -/\ndef restartAlwaysRebuilds : Bool := %v\n", rel, call != 0 && !early && stores)
	}
}

func init() {
	r := "submission/races.go"
	register(genFile{name: "RacesTie", imports: []string{"CTV.Basic.I64"}, units: []unit{
		{"RacesTie.request", filteredBody(r, "safeSubmissionState.request", "requestBody", "(requested awaited : Bool)", "Bool × Bool × Bool",
			"let placeholder_ := false\n  let cancelStored_ := false\n  ", "(false, placeholder_, cancelStored_)",
			Spec{Kind: "i64", Ret: "state", StateVars: []string{"placeholder_", "cancelStored_"}, Ignore: []string{"sub.mu."}, Inline: false,
				CallRepl: map[string]string{"sub.isAwaitedLocked": "awaited"},
				Vars:     map[string]string{"sub.results[logURL]": "placeholder_", "sub.cancels[logURL]": "cancelStored_"},
				Repl: map[string]string{"sub.results[logURL] != nil": "requested", "sub.results[logURL] == nil": "(!requested)",
					"&submissionResult{}": "true", "cancel": "true"}}, nil)},
		{"RacesTie.groupComplete", funcKernel(r, "safeSubmissionState.groupComplete", "groupCompleteBody", "(ok_ : Bool) (needs_ : Int)", "Bool",
			Spec{Kind: "i64", Lazy: true, Ignore: []string{"sub.mu."}, IgnoreLHS: []string{"needs", "ok"}})},
		{"RacesTie.setResultBase", setResultBaseBlock(r)},
		{"RacesTie.refreshReplacesRoots", refreshReplacesRoots("submission/distributor.go")},
		{"RacesTie.restartAlwaysRebuilds", restartAlwaysRebuilds("submission/proxy.go")},
	}})
}
