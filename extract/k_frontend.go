package main

import (
	"fmt"
	"go/ast"
	"strings"
)

// kvKernel translates the value of the unique `Key: value` element of a composite literal inside fn.
func kvKernel(rel, fn, key, leanName, params, resultTy string, sp Spec) func() string {
	return func() string {
		fd := mustFunc(rel, fn)
		t := &tr{sp: sp}
		var found []*ast.KeyValueExpr
		ast.Inspect(fd.Body, func(n ast.Node) bool {
			if kv, ok := n.(*ast.KeyValueExpr); ok {
				if id, ok := kv.Key.(*ast.Ident); ok && id.Name == key {
					found = append(found, kv)
				}
			}
			return true
		})
		if len(found) != 1 {
			panic(bail{fmt.Sprintf("%s: expected exactly one `%s:` element in %s, found %d", rel, key, fn, len(found))})
		}
		e := t.expr(found[0].Value)
		return fmt.Sprintf("/-- generated from %s func %s: `%s` -/\ndef %s %s : %s :=\n  %s\n", rel, fn, src(found[0]), leanName, params, resultTy, e)
	}
}

// tupleKernel translates the values of several `Key: value` elements of composite literals inside fn into one tuple,
// in the order of `keys`: which local goes into which field of a request / response. A swap in the source swaps the tuple.
func tupleKernel(rel, fn string, keys []string, leanName, params, resultTy string, sp Spec) func() string {
	return func() string {
		fd := mustFunc(rel, fn)
		t := &tr{sp: sp}
		var vals, srcs []string
		for _, key := range keys {
			var found []*ast.KeyValueExpr
			ast.Inspect(fd.Body, func(n ast.Node) bool {
				if kv, ok := n.(*ast.KeyValueExpr); ok {
					if id, ok := kv.Key.(*ast.Ident); ok && id.Name == key {
						found = append(found, kv)
					}
				}
				return true
			})
			if len(found) != 1 {
				panic(bail{fmt.Sprintf("%s: expected exactly one `%s:` element in %s, found %d", rel, key, fn, len(found))})
			}
			vals = append(vals, t.expr(found[0].Value))
			srcs = append(srcs, src(found[0]))
		}
		return fmt.Sprintf("/-- generated from %s func %s: `%s` -/\ndef %s %s : %s :=\n  (%s)\n", rel, fn, strings.Join(srcs, ", "), leanName, params, resultTy, strings.Join(vals, ", "))
	}
}

// relayKernel: the unique assignment in fn whose right-hand side is exactly `rhs` (what is relayed into the response).
func relayKernel(rel, fn, lhs, rhs, leanName, params, resultTy string, sp Spec) func() string {
	return func() string {
		fd := mustFunc(rel, fn)
		t := &tr{sp: sp}
		ss := findStmts(fd, func(s ast.Stmt) bool {
			a, ok := s.(*ast.AssignStmt)
			return ok && len(a.Lhs) == 1 && len(a.Rhs) == 1 && src(a.Lhs[0]) == lhs && src(a.Rhs[0]) == rhs
		})
		if len(ss) != 1 {
			panic(bail{fmt.Sprintf("%s: expected exactly one `%s = %s` in %s, found %d", rel, lhs, rhs, fn, len(ss))})
		}
		return fmt.Sprintf("/-- generated from %s func %s: `%s` -/\ndef %s %s : %s :=\n  %s\n", rel, fn, src(ss[0]), leanName, params, resultTy, t.expr(ss[0].(*ast.AssignStmt).Rhs[0]))
	}
}

// C06: how LogSTHGetter.GetSTH turns the backend's log root into the served tree head.
func init() {
	s := "trillian/ctfe/sth.go"
	h := "trillian/ctfe/handlers.go"
	repl := map[string]string{"currentRoot.TimestampNanos": "tsNanos_", "currentRoot.TreeSize": "treeSize_"}
	register(genFile{name: "FrontEnd", imports: []string{"CTV.Basic.I64"}, units: []unit{
		{"sthTimestamp", kvKernel(s, "LogSTHGetter.GetSTH", "Timestamp", "sthTimestamp", "(tsNanos_ : Int)", "Int",
			Spec{Kind: "u64", Repl: repl})},
		{"sthTreeSize", kvKernel(s, "LogSTHGetter.GetSTH", "TreeSize", "sthTreeSize", "(treeSize_ : Int)", "Int",
			Spec{Kind: "u64", Repl: repl})},
		{"sigCacheMiss", condKernel("trillian/ctfe/serialize.go", "SignatureCache.GetSignature", []string{"bytes.Equal"}, "sigCacheMiss", "(sameInput : Bool)",
			Spec{Repl: map[string]string{"bytes.Equal(input, sc.input)": "sameInput"}})},
		// --- what the three proof-serving handlers forward to the backend and relay back (handlers.go)
		{"consNeedsBackend", condKernel(h, "getSTHConsistency", []string{"first != 0"}, "consNeedsBackend", "(first_ : Int)", Spec{Kind: "i64"})},
		{"reqGetConsistencyProof", tupleKernel(h, "getSTHConsistency", []string{"FirstTreeSize", "SecondTreeSize"}, "reqGetConsistencyProof",
			"(first_ second_ : Int)", "Int × Int", Spec{Kind: "i64"})},
		{"consRootTooSmall", condKernel(h, "getSTHConsistency", []string{"currentRoot.TreeSize"}, "consRootTooSmall", "(rootSize_ second_ : Int)",
			Spec{Kind: "u64", Repl: map[string]string{"currentRoot.TreeSize": "rootSize_"}})},
		{"relayConsistency", relayKernel(h, "getSTHConsistency", "jsonRsp.Consistency", "rsp.Proof.Hashes", "relayConsistency", "{α : Type} (proofHashes_ : α)", "α",
			Spec{Repl: map[string]string{"rsp.Proof.Hashes": "proofHashes_"}})},
		{"proofByHashBadSize", condKernel(h, "getProofByHash", []string{"treeSize < 1"}, "proofByHashBadSize", "(parseErr : Bool) (treeSize_ : Int)",
			Spec{Kind: "i64", Repl: map[string]string{"err != nil": "parseErr"}})},
		{"reqGetInclusionProofByHash", tupleKernel(h, "getProofByHash", []string{"LeafHash", "TreeSize"}, "reqGetInclusionProofByHash",
			"{α : Type} (leafHash_ : α) (treeSize_ : Int)", "α × Int", Spec{Kind: "i64"})},
		{"proofByHashRootTooSmall", condKernel(h, "getProofByHash", []string{"currentRoot.TreeSize"}, "proofByHashRootTooSmall", "(rootSize_ treeSize_ : Int)",
			Spec{Kind: "u64", Repl: map[string]string{"currentRoot.TreeSize": "rootSize_"}})},
		{"relayProofByHash", tupleKernel(h, "getProofByHash", []string{"LeafIndex", "AuditPath"}, "relayProofByHash",
			"{α β : Type} (firstProofLeafIndex_ : α) (firstProofHashes_ : β)", "α × β",
			Spec{Repl: map[string]string{"rsp.Proof[0].LeafIndex": "firstProofLeafIndex_", "rsp.Proof[0].Hashes": "firstProofHashes_"}})},
		{"reqGetEntryAndProof", tupleKernel(h, "getEntryAndProof", []string{"LeafIndex", "TreeSize"}, "reqGetEntryAndProof",
			"(leafIndex_ treeSize_ : Int)", "Int × Int", Spec{Kind: "i64"})},
		{"entryAndProofRootTooSmall", condKernel(h, "getEntryAndProof", []string{"currentRoot.TreeSize"}, "entryAndProofRootTooSmall", "(rootSize_ treeSize_ : Int)",
			Spec{Kind: "u64", Repl: map[string]string{"currentRoot.TreeSize": "rootSize_"}})},
		{"relayEntryAndProof", tupleKernel(h, "getEntryAndProof", []string{"LeafInput", "ExtraData", "AuditPath"}, "relayEntryAndProof",
			"{α β : Type} (leafValue_ extraData_ : α) (proofHashes_ : β)", "α × α × β",
			Spec{Repl: map[string]string{"rsp.Leaf.LeafValue": "leafValue_", "rsp.Leaf.ExtraData": "extraData_", "rsp.Proof.Hashes": "proofHashes_"}})},
	}})
}
