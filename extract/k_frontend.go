package main

import (
	"fmt"
	"go/ast"
)

// kvKernel translates the value of the unique `Key: value` element of a composite literal inside fn.
func kvKernel(rel, fn, key, leanName, params, resultTy string, sp Spec) func() string {
	return func() string {
		fd := mustFunc(rel, fn)
		t := &tr{sp: sp}
		var found []*ast.KeyValueExpr
		ast.Inspect(fd.Body, func(n ast.Node) bool {
			if kv, ok := n.(*ast.KeyValueExpr); ok {
				if id, ok := kv.Key.(*ast.Ident); ok && id.Name == key {
					found = append(found, kv)
				}
			}
			return true
		})
		if len(found) != 1 {
			panic(bail{fmt.Sprintf("%s: expected exactly one `%s:` element in %s, found %d", rel, key, fn, len(found))})
		}
		e := t.expr(found[0].Value)
		return fmt.Sprintf("/-- generated from %s func %s: `%s` -/\ndef %s %s : %s :=\n  %s\n", rel, fn, src(found[0]), leanName, params, resultTy, e)
	}
}

// C06: how LogSTHGetter.GetSTH turns the backend's log root into the served tree head.
func init() {
	s := "trillian/ctfe/sth.go"
	repl := map[string]string{"currentRoot.TimestampNanos": "tsNanos_", "currentRoot.TreeSize": "treeSize_"}
	register(genFile{name: "FrontEnd", imports: []string{"CTV.Basic.I64"}, units: []unit{
		{"sthTimestamp", kvKernel(s, "LogSTHGetter.GetSTH", "Timestamp", "sthTimestamp", "(tsNanos_ : Int)", "Int",
			Spec{Kind: "u64", Repl: repl})},
		{"sthTreeSize", kvKernel(s, "LogSTHGetter.GetSTH", "TreeSize", "sthTreeSize", "(treeSize_ : Int)", "Int",
			Spec{Kind: "u64", Repl: repl})},
	}})
}
