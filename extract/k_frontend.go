package main

import (
	"fmt"
	"go/ast"
	"strings"
)

// kvKernel translates the value of the unique `Key: value` element of a composite literal inside fn.
func kvKernel(rel, fn, key, leanName, params, resultTy string, sp Spec) func() string {
	return func() string {
		fd := mustFunc(rel, fn)
		t := &tr{sp: sp}
		var found []*ast.KeyValueExpr
		ast.Inspect(fd.Body, func(n ast.Node) bool {
			if kv, ok := n.(*ast.KeyValueExpr); ok {
				if id, ok := kv.Key.(*ast.Ident); ok && id.Name == key {
					found = append(found, kv)
				}
			}
			return true
		})
		if len(found) != 1 {
			panic(bail{fmt.Sprintf("%s: expected exactly one `%s:` element in %s, found %d", rel, key, fn, len(found))})
		}
		e := t.expr(found[0].Value)
		return fmt.Sprintf("/-- generated from %s func %s: `%s` -/\ndef %s %s : %s :=\n  %s\n", rel, fn, src(found[0]), leanName, params, resultTy, e)
	}
}

// tupleKernel translates the values of several `Key: value` elements of composite literals inside fn into one tuple,
// in the order of `keys`: which local goes into which field of a request / response. A swap in the source swaps the tuple.
func tupleKernel(rel, fn string, keys []string, leanName, params, resultTy string, sp Spec) func() string {
	return func() string {
		fd := mustFunc(rel, fn)
		t := &tr{sp: sp}
		var vals, srcs []string
		for _, key := range keys {
			var found []*ast.KeyValueExpr
			ast.Inspect(fd.Body, func(n ast.Node) bool {
				if kv, ok := n.(*ast.KeyValueExpr); ok {
					if id, ok := kv.Key.(*ast.Ident); ok && id.Name == key {
						found = append(found, kv)
					}
				}
				return true
			})
			if len(found) != 1 {
				panic(bail{fmt.Sprintf("%s: expected exactly one `%s:` element in %s, found %d", rel, key, fn, len(found))})
			}
			vals = append(vals, t.expr(found[0].Value))
			srcs = append(srcs, src(found[0]))
		}
		return fmt.Sprintf("/-- generated from %s func %s: `%s` -/\ndef %s %s : %s :=\n  (%s)\n", rel, fn, strings.Join(srcs, ", "), leanName, params, resultTy, strings.Join(vals, ", "))
	}
}

// relayKernel: the unique assignment in fn whose right-hand side is exactly `rhs` (what is relayed into the response).
func relayKernel(rel, fn, lhs, rhs, leanName, params, resultTy string, sp Spec) func() string {
	return func() string {
		fd := mustFunc(rel, fn)
		t := &tr{sp: sp}
		ss := findStmts(fd, func(s ast.Stmt) bool {
			a, ok := s.(*ast.AssignStmt)
			return ok && len(a.Lhs) == 1 && len(a.Rhs) == 1 && src(a.Lhs[0]) == lhs && src(a.Rhs[0]) == rhs
		})
		if len(ss) != 1 {
			panic(bail{fmt.Sprintf("%s: expected exactly one `%s = %s` in %s, found %d", rel, lhs, rhs, fn, len(ss))})
		}
		return fmt.Sprintf("/-- generated from %s func %s: `%s` -/\ndef %s %s : %s :=\n  %s\n", rel, fn, src(ss[0]), leanName, params, resultTy, t.expr(ss[0].(*ast.AssignStmt).Rhs[0]))
	}
}

// C06: how LogSTHGetter.GetSTH turns the backend's log root into the served tree head.
func init() {
	s := "trillian/ctfe/sth.go"
	h := "trillian/ctfe/handlers.go"
	sels := map[string]string{"TimestampNanos": "tsNanos", "TreeSize": "treeSize"}
	first, second := "parseGetSTHConsistencyRange#0", "parseGetSTHConsistencyRange#1"
	idx, size := "parseGetEntryAndProofParams#0", "parseGetEntryAndProofParams#1"
	register(genFile{name: "FrontEnd", imports: []string{"CTV.Basic.I64"}, units: []unit{
		{"sthTimestamp", resolvedFieldKernel(s, "LogSTHGetter.GetSTH", "ct.SignedTreeHead", "Timestamp", sels, "sthTimestamp", "(tsNanos_ : Int)", "Int", Spec{Kind: "u64"})},
		{"sthTreeSize", resolvedFieldKernel(s, "LogSTHGetter.GetSTH", "ct.SignedTreeHead", "TreeSize", sels, "sthTreeSize", "(treeSize_ : Int)", "Int", Spec{Kind: "u64"})},
		{"sigCacheMiss", condKernel("trillian/ctfe/serialize.go", "SignatureCache.GetSignature", []string{"bytes.Equal"}, "sigCacheMiss", "(sameInput : Bool)",
			Spec{Repl: map[string]string{"bytes.Equal(input, sc.input)": "sameInput"}})},
		// --- what the three proof-serving handlers forward to the backend and relay back (handlers.go), by origin of the values
		{"consNeedsBackend", needsBackend(h, "getSTHConsistency", first, "GetConsistencyProof", "consNeedsBackend", "first_")},
		{"reqGetConsistencyProof", flowTuple(h, "getSTHConsistency", "trillian.GetConsistencyProofRequest", []string{"FirstTreeSize", "SecondTreeSize"},
			map[string]string{first: "first_", second: "second_"}, "reqGetConsistencyProof", "(first_ second_ : Int)", "Int × Int")},
		{"consRootTooSmall", rootGuard(h, "getSTHConsistency", second, "consRootTooSmall", "second_")},
		{"relayConsistency", flowAssign(h, "getSTHConsistency", "Consistency", map[string]string{"GetConsistencyProof#0.Proof.Hashes": "proofHashes_"},
			"relayConsistency", "{α : Type} (proofHashes_ : α)", "α")},
		{"proofByHashBadSize", badSizeGuard(h, "getProofByHash", "ParseInt#0", "proofByHashBadSize")},
		{"reqGetInclusionProofByHash", flowTuple(h, "getProofByHash", "trillian.GetInclusionProofByHashRequest", []string{"LeafHash", "TreeSize"},
			map[string]string{"DecodeString#0": "leafHash_", "ParseInt#0": "treeSize_"}, "reqGetInclusionProofByHash", "{α : Type} (leafHash_ : α) (treeSize_ : Int)", "α × Int")},
		{"proofByHashRootTooSmall", rootGuard(h, "getProofByHash", "ParseInt#0", "proofByHashRootTooSmall", "treeSize_")},
		{"relayProofByHash", flowTuple(h, "getProofByHash", "ct.GetProofByHashResponse", []string{"LeafIndex", "AuditPath"},
			map[string]string{"GetInclusionProofByHash#0.Proof[0].LeafIndex": "firstProofLeafIndex_", "GetInclusionProofByHash#0.Proof[0].Hashes": "firstProofHashes_"},
			"relayProofByHash", "{α β : Type} (firstProofLeafIndex_ : α) (firstProofHashes_ : β)", "α × β")},
		{"reqGetEntryAndProof", flowTuple(h, "getEntryAndProof", "trillian.GetEntryAndProofRequest", []string{"LeafIndex", "TreeSize"},
			map[string]string{idx: "leafIndex_", size: "treeSize_"}, "reqGetEntryAndProof", "(leafIndex_ treeSize_ : Int)", "Int × Int")},
		{"entryAndProofRootTooSmall", rootGuard(h, "getEntryAndProof", size, "entryAndProofRootTooSmall", "treeSize_")},
		{"relayEntryAndProof", flowTuple(h, "getEntryAndProof", "ct.GetEntryAndProofResponse", []string{"LeafInput", "ExtraData", "AuditPath"},
			map[string]string{"GetEntryAndProof#0.Leaf.LeafValue": "leafValue_", "GetEntryAndProof#0.Leaf.ExtraData": "extraData_", "GetEntryAndProof#0.Proof.Hashes": "proofHashes_"},
			"relayEntryAndProof", "{α β : Type} (leafValue_ extraData_ : α) (proofHashes_ : β)", "α × α × β")},
	}})
}
