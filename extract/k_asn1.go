package main

// Regenerated facts about the asn1 fork (asn1/asn1.go, asn1/marshal.go) -> lean/CTV/Gen/Asn1Facts.lean.
// The hand-written DER model (lean/CTV/Der) is parameterised by these, and the C10 theorems are proved
// for every value of the dialect switches, so porting an upstream check into the fork changes the
// regenerated constant and not the proofs.

import (
	"fmt"
	"go/ast"
	"go/token"
	"sort"
	"strconv"
	"strings"
)

// byteExpr translates a boolean expression over one byte variable (comparisons with char/int
// literals, && || ! and bool(flag) conversions of the named flag parameters) into a Lean Bool term over `b : Nat`.
func byteExpr(e ast.Expr, byteVar string, flags map[string]string) string {
	switch x := e.(type) {
	case *ast.ParenExpr:
		return "(" + byteExpr(x.X, byteVar, flags) + ")"
	case *ast.Ident:
		if x.Name == byteVar {
			return "b"
		}
		if f, ok := flags[x.Name]; ok {
			return f
		}
	case *ast.BasicLit:
		switch x.Kind {
		case token.INT:
			v, err := strconv.ParseInt(x.Value, 0, 64)
			if err == nil {
				return strconv.FormatInt(v, 10)
			}
		case token.CHAR:
			s, err := strconv.Unquote(x.Value)
			if err == nil && len([]rune(s)) == 1 {
				return strconv.Itoa(int([]rune(s)[0]))
			}
		}
	case *ast.CallExpr:
		if id, ok := x.Fun.(*ast.Ident); ok && id.Name == "bool" && len(x.Args) == 1 {
			return byteExpr(x.Args[0], byteVar, flags)
		}
	case *ast.UnaryExpr:
		if x.Op == token.NOT {
			return "(!" + byteExpr(x.X, byteVar, flags) + ")"
		}
	case *ast.BinaryExpr:
		a, b := byteExpr(x.X, byteVar, flags), byteExpr(x.Y, byteVar, flags)
		switch x.Op {
		case token.LAND:
			return "(" + a + " && " + b + ")"
		case token.LOR:
			return "(" + a + " || " + b + ")"
		case token.LEQ:
			return "(decide (" + a + " ≤ " + b + "))"
		case token.LSS:
			return "(decide (" + a + " < " + b + "))"
		case token.GEQ:
			return "(decide (" + a + " ≥ " + b + "))"
		case token.GTR:
			return "(decide (" + a + " > " + b + "))"
		case token.EQL:
			return "(decide (" + a + " = " + b + "))"
		case token.NEQ:
			return "(decide (" + a + " ≠ " + b + "))"
		}
	}
	failf(e, "unsupported byte predicate %s (%T)", src(e), e)
	return ""
}

// retPredicate: a function whose body is a single `return <bool expr over a byte>`.
func retPredicate(rel, fn, byteVar, leanName, params string, flags map[string]string) func() string {
	return func() string {
		fd := mustFunc(rel, fn)
		if len(fd.Body.List) != 1 {
			panic(bail{fmt.Sprintf("%s: %s is no longer a single return statement", rel, fn)})
		}
		r, ok := fd.Body.List[0].(*ast.ReturnStmt)
		if !ok || len(r.Results) != 1 {
			panic(bail{fmt.Sprintf("%s: %s is no longer a single return statement", rel, fn)})
		}
		return fmt.Sprintf("/-- generated from %s func %s -/\ndef %s %s : Bool :=\n  %s\n", rel, fn, leanName, params, byteExpr(r.Results[0], byteVar, flags))
	}
}

// loopReject: `for _, b := range bytes { if <cond> { return false } } return true` -> the condition.
func loopReject(rel, fn, leanName string) func() string {
	return func() string {
		fd := mustFunc(rel, fn)
		ifs := findStmts(fd, func(s ast.Stmt) bool { _, ok := s.(*ast.IfStmt); return ok })
		if len(ifs) != 1 {
			panic(bail{fmt.Sprintf("%s: expected one `if` in %s, found %d", rel, fn, len(ifs))})
		}
		i := ifs[0].(*ast.IfStmt)
		if len(i.Body.List) != 1 || src(i.Body.List[0]) != "return false" || i.Else != nil {
			panic(bail{fmt.Sprintf("%s: the `if` in %s is not `if c { return false }`", rel, fn)})
		}
		return fmt.Sprintf("/-- generated from %s func %s: `if %s { return false }` -/\ndef %s (b : Nat) : Bool :=\n  %s\n", rel, fn, src(i.Cond), leanName, byteExpr(i.Cond, "b", nil))
	}
}

// switchRejectList: the case list of the one `switch b` in fn whose non-fallthrough body is `return false`.
func switchRejectList(rel, fn, leanName string) func() string {
	return func() string {
		fd := mustFunc(rel, fn)
		sws := findStmts(fd, func(s ast.Stmt) bool { _, ok := s.(*ast.SwitchStmt); return ok })
		if len(sws) != 1 {
			panic(bail{fmt.Sprintf("%s: expected one switch in %s, found %d", rel, fn, len(sws))})
		}
		var vals []int
		for _, c := range sws[0].(*ast.SwitchStmt).Body.List {
			cc := c.(*ast.CaseClause)
			if cc.List == nil {
				panic(bail{fmt.Sprintf("%s: switch in %s gained a default clause", rel, fn)})
			}
			if len(cc.Body) != 1 || (src(cc.Body[0]) != "return false" && src(cc.Body[0]) != "fallthrough") {
				panic(bail{fmt.Sprintf("%s: case body in %s is neither `return false` nor `fallthrough`: %s", rel, fn, src(cc))})
			}
			for _, k := range cc.List {
				b, ok := k.(*ast.BasicLit)
				if !ok || b.Kind != token.INT {
					panic(bail{fmt.Sprintf("%s: non-literal case %s in %s", rel, src(k), fn)})
				}
				v, _ := strconv.ParseInt(b.Value, 0, 64)
				vals = append(vals, int(v))
			}
		}
		sort.Ints(vals)
		var ss []string
		for _, v := range vals {
			ss = append(ss, strconv.Itoa(v))
		}
		return fmt.Sprintf("/-- generated from %s func %s: the rejected code points -/\ndef %s : List Nat :=\n  [%s]\n", rel, fn, leanName, strings.Join(ss, ", "))
	}
}

// hasIfMentioning: does fn contain an `if` whose condition mentions every marker?
func hasIfMentioning(rel, fn string, markers []string, leanName, doc string) func() string {
	return func() string {
		fd := mustFunc(rel, fn)
		n := len(findStmts(fd, func(s ast.Stmt) bool {
			i, ok := s.(*ast.IfStmt)
			if !ok {
				return false
			}
			c := src(i.Cond)
			for _, m := range markers {
				if !strings.Contains(c, m) {
					return false
				}
			}
			return true
		}))
		return fmt.Sprintf("/-- generated from %s func %s: %s -/\ndef %s : Bool := %v\n", rel, fn, doc, leanName, n > 0)
	}
}

// hasType: does the file declare the named type?
func hasType(rel, name, leanName, doc string) func() string {
	return func() string {
		f := parseFile(rp(rel))
		found := false
		for _, d := range f.Decls {
			if gd, ok := d.(*ast.GenDecl); ok && gd.Tok == token.TYPE {
				for _, s := range gd.Specs {
					if s.(*ast.TypeSpec).Name.Name == name {
						found = true
					}
				}
			}
		}
		return fmt.Sprintf("/-- generated from %s: %s -/\ndef %s : Bool := %v\n", rel, doc, leanName, found)
	}
}

func init() {
	a, m := "asn1/asn1.go", "asn1/marshal.go"
	register(genFile{name: "Asn1Facts", units: []unit{
		{"base128RejectsLeading80", hasIfMentioning(a, "parseBase128Int", []string{"shifted == 0", "0x80"}, "base128RejectsLeading80",
			"is there a check `shifted == 0 && b == 0x80` (upstream's minimality test for base-128 integers)?")},
		{"setOfSorted", hasType(m, "setEncoder", "setOfSorted", "does marshal.go have upstream's setEncoder (SET OF sorted on Marshal)?")},
		{"genTimeFraction", func() string {
			fd := mustFunc(a, "parseGeneralizedTime")
			has := strings.Contains(src(fd.Body), `.999999999Z0700`)
			return fmt.Sprintf("/-- generated from %s func parseGeneralizedTime: does the layout carry upstream's optional fractional seconds? -/\ndef genTimeFraction : Bool := %v\n", a, has)
		}},
		{"anyDecodesBoolean", func() string {
			fd := mustFunc(a, "parseField")
			n := len(findStmts(fd, func(s ast.Stmt) bool {
				cc, ok := s.(*ast.CaseClause)
				if !ok {
					return false
				}
				for _, e := range cc.List {
					if src(e) == "TagBoolean" {
						return true
					}
				}
				return false
			}))
			return fmt.Sprintf("/-- generated from %s func parseField: does the interface{} branch have `case TagBoolean`? -/\ndef anyDecodesBoolean : Bool := %v\n", a, n > 0)
		}},
		{"isPrintable", retPredicate(a, "isPrintable", "b", "isPrintable", "(b : Nat) (asterisk ampersand : Bool)", map[string]string{"asterisk": "asterisk", "ampersand": "ampersand"})},
		{"isNumeric", retPredicate(a, "isNumeric", "b", "isNumeric", "(b : Nat)", nil)},
		{"iso8859Reject", loopReject(a, "couldBeISO8859_1", "iso8859Reject")},
		{"t61Reject", switchRejectList(a, "couldBeT61", "t61Reject")},
	}})
}
