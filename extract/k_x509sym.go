package main

// C11 deepening, rewrite-independent form: the x509 wrappers (IsFatal, ParseCertificate, ParseTBSCertificate, one iteration of
// each loop of ParseCertificates) are EXECUTED symbolically on every combination of the facts they can observe — did the strict
// / the lax decoding fail, is something left over, did parseCertificate return an error, is that error a NonFatalErrors value,
// does it hold anything — and the outcomes are written as a decision tree in a fixed order of the facts (identical subtrees
// merged). What is executed is the Go source itself, including the helpers and methods of the same package file that the
// function calls (AddError, HasError, extracted helpers with several results, `return helper(…)`, pointers to the collector);
// what is opaque are the calls that leave the package's wrapper code: asn1.Unmarshal, asn1.UnmarshalWithParams,
// parseCertificate (their results are the facts). Two sources with the same behaviour give the same tree, whatever their shape;
// a changed behaviour gives a different tree and `Gen.X_eq_spec` fails.   -> Gen/DerTie.lean (with the asn1 units of k_dertie.go)

import (
	"fmt"
	"go/ast"
	"go/token"
	"strings"
)

type symCount struct {
	base bool // + nfe_ (the collector's count on entry to a loop iteration)
	a    int  // + a
	b    int  // + b * innerN
}

type sval struct {
	kind  string // nil plain inner nfe errors ptr obj rest bool opaque tuple count restlen int
	cnt   symCount
	b     bool
	cell  *symCell
	elems []sval
	n     int
}

type symCell struct{ v sval }

type symEnv struct {
	vars   map[string]*symCell
	parent *symEnv
}

func (e *symEnv) lookup(n string) *symCell {
	for s := e; s != nil; s = s.parent {
		if c, ok := s.vars[n]; ok {
			return c
		}
	}
	return nil
}

type symInterp struct {
	files    []*ast.File
	facts    map[string]bool
	depth    int
	stepMode bool
	target   ast.Stmt
	outcome  *symOutcome // set when the target loop's iteration has been executed
}

type symOutcome struct {
	returned bool
	vals     []sval
	count    symCount
}

var opaqueVal = sval{kind: "opaque"}

func symBail(n ast.Node, f string, a ...interface{}) {
	failf(n, "symbolic execution: "+f, a...)
}

func (in *symInterp) findFunc(name string) *ast.FuncDecl {
	for _, f := range in.files {
		for _, d := range f.Decls {
			if fd, ok := d.(*ast.FuncDecl); ok && fd.Recv == nil && fd.Name.Name == name && fd.Body != nil {
				return fd
			}
		}
	}
	return nil
}

func (in *symInterp) findMethod(recvType, name string) *ast.FuncDecl {
	for _, f := range in.files {
		for _, d := range f.Decls {
			fd, ok := d.(*ast.FuncDecl)
			if !ok || fd.Recv == nil || fd.Name.Name != name || fd.Body == nil || len(fd.Recv.List) != 1 {
				continue
			}
			t := fd.Recv.List[0].Type
			if s, ok := t.(*ast.StarExpr); ok {
				t = s.X
			}
			if src(t) == recvType {
				return fd
			}
		}
	}
	return nil
}

const (
	ctlNormal = iota
	ctlReturn
	ctlContinue
	ctlBreak
)

func deref(v sval) sval {
	for v.kind == "ptr" && v.cell != nil {
		v = v.cell.v
	}
	return v
}

func (in *symInterp) truth(n ast.Node, v sval) bool {
	if v.kind != "bool" {
		symBail(n, "condition %s does not evaluate to a known truth value", src(n))
	}
	return v.b
}

func (in *symInterp) countPositive(n ast.Node, c symCount) bool {
	if c.a > 0 {
		return true
	}
	if c.base {
		symBail(n, "sign of the collector's count is not known inside a loop iteration")
	}
	if c.b > 0 {
		return in.facts["innerNPos"]
	}
	return false
}

func (in *symInterp) isNil(n ast.Node, v sval) bool {
	switch v.kind {
	case "nil":
		return true
	case "plain", "inner", "nfe", "errors", "ptr":
		return false
	}
	symBail(n, "nil test on a value of unknown kind (%s)", v.kind)
	return false
}

func (in *symInterp) call(c *ast.CallExpr, env *symEnv) sval {
	name := norm(src(c.Fun))
	errIf := func(fact, kind string) sval {
		if in.facts[fact] {
			return sval{kind: kind}
		}
		return sval{kind: "nil"}
	}
	switch name {
	case "asn1.Unmarshal":
		for _, a := range c.Args {
			in.eval(a, env)
		}
		return sval{kind: "tuple", elems: []sval{{kind: "rest"}, errIf("strictFails", "plain")}}
	case "asn1.UnmarshalWithParams":
		return sval{kind: "tuple", elems: []sval{{kind: "rest"}, errIf("laxFails", "plain")}}
	case "parseCertificate":
		e := sval{kind: "nil"}
		if in.facts["innerFails"] {
			if in.facts["innerIsNfe"] {
				e = sval{kind: "nfe", cnt: symCount{b: 1}}
			} else {
				e = sval{kind: "inner"}
			}
		}
		return sval{kind: "tuple", elems: []sval{{kind: "obj"}, e}}
	case "len":
		if len(c.Args) == 1 {
			v := deref(in.eval(c.Args[0], env))
			switch v.kind {
			case "rest":
				return sval{kind: "restlen"}
			case "count":
				return v
			}
		}
		return opaqueVal
	case "append":
		if len(c.Args) >= 1 {
			first := deref(in.eval(c.Args[0], env))
			if first.kind == "count" {
				r := first
				if c.Ellipsis != token.NoPos && len(c.Args) == 2 {
					o := deref(in.eval(c.Args[1], env))
					if o.kind != "count" {
						symBail(c, "append of an unknown slice to the collector")
					}
					if o.cnt.base {
						r.cnt.base = true
					}
					r.cnt.a += o.cnt.a
					r.cnt.b += o.cnt.b
					return r
				}
				r.cnt.a += len(c.Args) - 1
				return r
			}
		}
		return opaqueVal
	case "new", "make":
		return opaqueVal
	}
	// a function of the package
	if id, ok := c.Fun.(*ast.Ident); ok {
		if fd := in.findFunc(id.Name); fd != nil {
			var args []sval
			for _, a := range c.Args {
				args = append(args, in.eval(a, env))
			}
			return in.apply(fd, nil, args, c)
		}
		return opaqueVal
	}
	// a method
	if sel, ok := c.Fun.(*ast.SelectorExpr); ok {
		recv := in.eval(sel.X, env)
		rv := deref(recv)
		switch rv.kind {
		case "nfe":
			fd := in.findMethod("NonFatalErrors", sel.Sel.Name)
			if fd == nil {
				symBail(c, "method %s of NonFatalErrors not found", sel.Sel.Name)
			}
			var args []sval
			for _, a := range c.Args {
				args = append(args, in.eval(a, env))
			}
			r := recv
			if _, ptrRecv := fd.Recv.List[0].Type.(*ast.StarExpr); ptrRecv {
				if recv.kind != "ptr" {
					id, isId := sel.X.(*ast.Ident)
					if !isId || env.lookup(id.Name) == nil {
						symBail(c, "pointer method on a value that is not addressable")
					}
					r = sval{kind: "ptr", cell: env.lookup(id.Name)}
				}
			} else {
				r = rv
			}
			return in.apply(fd, &r, args, c)
		case "errors":
			if sel.Sel.Name == "Fatal" {
				return sval{kind: "bool", b: in.facts["errsFatal"]}
			}
		}
		for _, a := range c.Args {
			in.eval(a, env)
		}
		return opaqueVal
	}
	return opaqueVal
}

func (in *symInterp) apply(fd *ast.FuncDecl, recv *sval, args []sval, at ast.Node) sval {
	if in.depth > 6 {
		symBail(at, "call depth")
	}
	in.depth++
	defer func() { in.depth-- }()
	env := &symEnv{vars: map[string]*symCell{}}
	if recv != nil && len(fd.Recv.List[0].Names) == 1 {
		env.vars[fd.Recv.List[0].Names[0].Name] = &symCell{*recv}
	}
	i := 0
	if fd.Type.Params != nil {
		for _, f := range fd.Type.Params.List {
			for _, nm := range f.Names {
				v := opaqueVal
				if i < len(args) {
					v = args[i]
				}
				env.vars[nm.Name] = &symCell{v}
				i++
			}
		}
	}
	var resNames []string
	if fd.Type.Results != nil {
		for _, f := range fd.Type.Results.List {
			for _, nm := range f.Names {
				resNames = append(resNames, nm.Name)
				env.vars[nm.Name] = &symCell{in.zero(src(f.Type))}
			}
		}
	}
	ctl, vals := in.block(fd.Body.List, env)
	if ctl == ctlReturn && len(vals) == 0 && len(resNames) > 0 || ctl == ctlNormal && len(resNames) > 0 {
		vals = nil
		for _, n := range resNames {
			vals = append(vals, env.vars[n].v)
		}
	}
	switch len(vals) {
	case 0:
		return opaqueVal
	case 1:
		return vals[0]
	}
	return sval{kind: "tuple", elems: vals}
}

func (in *symInterp) zero(typ string) sval {
	switch typ {
	case "NonFatalErrors":
		return sval{kind: "nfe", cnt: symCount{base: in.stepMode}}
	case "error":
		return sval{kind: "nil"}
	case "bool":
		return sval{kind: "bool"}
	}
	if strings.HasPrefix(typ, "*") || strings.HasPrefix(typ, "[]") {
		return opaqueVal
	}
	return opaqueVal
}

func (in *symInterp) eval(e ast.Expr, env *symEnv) sval {
	switch x := e.(type) {
	case *ast.Ident:
		switch x.Name {
		case "nil":
			return sval{kind: "nil"}
		case "true":
			return sval{kind: "bool", b: true}
		case "false":
			return sval{kind: "bool"}
		}
		if c := env.lookup(x.Name); c != nil {
			return c.v
		}
		return opaqueVal
	case *ast.BasicLit:
		if x.Kind == token.INT {
			n := 0
			fmt.Sscanf(x.Value, "%d", &n)
			return sval{kind: "int", n: n}
		}
		return opaqueVal
	case *ast.ParenExpr:
		return in.eval(x.X, env)
	case *ast.StarExpr:
		v := in.eval(x.X, env)
		if v.kind == "ptr" {
			return v.cell.v
		}
		return opaqueVal
	case *ast.UnaryExpr:
		switch x.Op {
		case token.AND:
			if id, ok := x.X.(*ast.Ident); ok {
				if c := env.lookup(id.Name); c != nil {
					return sval{kind: "ptr", cell: c}
				}
			}
			in.eval(x.X, env)
			return opaqueVal
		case token.NOT:
			return sval{kind: "bool", b: !in.truth(x.X, in.eval(x.X, env))}
		}
		return opaqueVal
	case *ast.CompositeLit:
		t := src(x.Type)
		if strings.HasSuffix(t, "Error") {
			return sval{kind: "plain"}
		}
		return opaqueVal
	case *ast.SelectorExpr:
		v := deref(in.eval(x.X, env))
		if v.kind == "nfe" && x.Sel.Name == "Errors" {
			return sval{kind: "count", cnt: v.cnt}
		}
		return opaqueVal
	case *ast.CallExpr:
		return in.call(x, env)
	case *ast.BinaryExpr:
		switch x.Op {
		case token.LAND:
			if !in.truth(x.X, in.eval(x.X, env)) {
				return sval{kind: "bool"}
			}
			return sval{kind: "bool", b: in.truth(x.Y, in.eval(x.Y, env))}
		case token.LOR:
			if in.truth(x.X, in.eval(x.X, env)) {
				return sval{kind: "bool", b: true}
			}
			return sval{kind: "bool", b: in.truth(x.Y, in.eval(x.Y, env))}
		case token.EQL, token.NEQ, token.GTR, token.GEQ, token.LSS, token.LEQ:
			a, b := in.eval(x.X, env), in.eval(x.Y, env)
			neg := x.Op == token.NEQ
			if x.Op == token.EQL || x.Op == token.NEQ {
				if a.kind == "nil" || b.kind == "nil" {
					o := a
					if a.kind == "nil" {
						o = b
					}
					return sval{kind: "bool", b: in.isNil(x, o) != neg}
				}
			}
			// a length compared with a small constant
			l, k, op := a, b, x.Op
			if l.kind == "int" {
				l, k = b, a
				op = map[token.Token]token.Token{token.GTR: token.LSS, token.LSS: token.GTR, token.GEQ: token.LEQ, token.LEQ: token.GEQ, token.EQL: token.EQL, token.NEQ: token.NEQ}[op]
			}
			if k.kind == "int" && (l.kind == "restlen" || l.kind == "count") {
				pos := false
				if l.kind == "restlen" {
					pos = in.facts["trailing"]
				} else {
					pos = in.countPositive(x, l.cnt)
				}
				switch {
				case k.n == 0 && (op == token.GTR || op == token.NEQ), k.n == 1 && op == token.GEQ:
					return sval{kind: "bool", b: pos}
				case k.n == 0 && (op == token.EQL || op == token.LEQ), k.n == 1 && op == token.LSS:
					return sval{kind: "bool", b: !pos}
				}
			}
			if a.kind == "bool" && b.kind == "bool" && (x.Op == token.EQL || x.Op == token.NEQ) {
				return sval{kind: "bool", b: (a.b == b.b) != neg}
			}
			symBail(x, "comparison %s is outside what the wrappers' facts decide", src(x))
		}
		return opaqueVal
	case *ast.TypeAssertExpr:
		symBail(x, "single-value type assertion")
	}
	return opaqueVal
}

func typeMatches(typ string, v sval) bool {
	switch typ {
	case "nil":
		return v.kind == "nil"
	case "NonFatalErrors":
		return v.kind == "nfe"
	case "*Errors":
		return v.kind == "errors"
	}
	return false
}

func (in *symInterp) assign(lhs ast.Expr, v sval, define bool, env *symEnv) {
	switch l := lhs.(type) {
	case *ast.Ident:
		if l.Name == "_" {
			return
		}
		if define {
			env.vars[l.Name] = &symCell{v}
			return
		}
		if c := env.lookup(l.Name); c != nil {
			c.v = v
		} else {
			env.vars[l.Name] = &symCell{v}
		}
	case *ast.SelectorExpr:
		if l.Sel.Name == "Errors" {
			base := in.eval(l.X, env)
			var c *symCell
			if base.kind == "ptr" {
				c = base.cell
			} else if id, ok := l.X.(*ast.Ident); ok {
				c = env.lookup(id.Name)
			}
			if c != nil && c.v.kind == "nfe" {
				if v.kind != "count" {
					symBail(lhs, "the collector's Errors set to something that is not a count")
				}
				c.v.cnt = v.cnt
			}
		}
	case *ast.StarExpr:
		p := in.eval(l.X, env)
		if p.kind == "ptr" {
			p.cell.v = v
		}
	}
}

func (in *symInterp) block(list []ast.Stmt, env *symEnv) (int, []sval) {
	for _, s := range list {
		if ctl, vals := in.stmt(s, env); ctl != ctlNormal {
			return ctl, vals
		}
	}
	return ctlNormal, nil
}

func (in *symInterp) collector(env *symEnv) symCount {
	var found *symCell
	for s := env; s != nil; s = s.parent {
		for _, c := range s.vars {
			if c.v.kind == "nfe" {
				if found != nil && found != c {
					continue
				}
				found = c
			}
		}
	}
	if found == nil {
		return symCount{}
	}
	return found.v.cnt
}

func (in *symInterp) stmt(s ast.Stmt, env *symEnv) (int, []sval) {
	if in.stepMode && s == in.target {
		inner := &symEnv{vars: map[string]*symCell{}, parent: env}
		var body *ast.BlockStmt
		switch l := s.(type) {
		case *ast.ForStmt:
			if l.Init != nil {
				in.stmt(l.Init, inner)
			}
			body = l.Body
		case *ast.RangeStmt:
			body = l.Body
		}
		ctl, vals := in.block(body.List, &symEnv{vars: map[string]*symCell{}, parent: inner})
		in.outcome = &symOutcome{returned: ctl == ctlReturn, vals: vals, count: in.collector(env)}
		return ctlReturn, nil
	}
	switch x := s.(type) {
	case *ast.DeclStmt:
		if g, ok := x.Decl.(*ast.GenDecl); ok && g.Tok == token.VAR {
			for _, sp := range g.Specs {
				vs := sp.(*ast.ValueSpec)
				for i, nm := range vs.Names {
					v := opaqueVal
					if vs.Type != nil {
						v = in.zero(src(vs.Type))
					}
					if i < len(vs.Values) {
						v = in.eval(vs.Values[i], env)
					}
					env.vars[nm.Name] = &symCell{v}
				}
			}
		}
	case *ast.AssignStmt:
		define := x.Tok == token.DEFINE
		if x.Tok != token.ASSIGN && !define {
			return ctlNormal, nil
		}
		if len(x.Rhs) == 1 && len(x.Lhs) > 1 {
			if ta, ok := x.Rhs[0].(*ast.TypeAssertExpr); ok && len(x.Lhs) == 2 && ta.Type != nil {
				v := deref(in.eval(ta.X, env))
				okv := typeMatches(src(ta.Type), v)
				if !okv {
					switch v.kind {
					case "nil", "plain", "inner", "nfe", "errors":
					default:
						symBail(x, "type assertion on a value of unknown kind")
					}
					v = opaqueVal
					if src(ta.Type) == "NonFatalErrors" {
						v = sval{kind: "nfe"}
					}
				}
				in.assign(x.Lhs[0], v, define, env)
				in.assign(x.Lhs[1], sval{kind: "bool", b: okv}, define, env)
				return ctlNormal, nil
			}
			v := in.eval(x.Rhs[0], env)
			for i, l := range x.Lhs {
				e := opaqueVal
				if v.kind == "tuple" && i < len(v.elems) {
					e = v.elems[i]
				}
				in.assign(l, e, define, env)
			}
			return ctlNormal, nil
		}
		var vs []sval
		for _, r := range x.Rhs {
			vs = append(vs, in.eval(r, env))
		}
		for i, l := range x.Lhs {
			if i < len(vs) {
				in.assign(l, vs[i], define, env)
			}
		}
	case *ast.ExprStmt:
		in.eval(x.X, env)
	case *ast.IfStmt:
		scope := &symEnv{vars: map[string]*symCell{}, parent: env}
		if x.Init != nil {
			if ctl, vals := in.stmt(x.Init, scope); ctl != ctlNormal {
				return ctl, vals
			}
		}
		if in.truth(x.Cond, in.eval(x.Cond, scope)) {
			return in.block(x.Body.List, &symEnv{vars: map[string]*symCell{}, parent: scope})
		}
		switch e := x.Else.(type) {
		case *ast.BlockStmt:
			return in.block(e.List, &symEnv{vars: map[string]*symCell{}, parent: scope})
		case *ast.IfStmt:
			return in.stmt(e, scope)
		}
	case *ast.BlockStmt:
		return in.block(x.List, &symEnv{vars: map[string]*symCell{}, parent: env})
	case *ast.ReturnStmt:
		var vals []sval
		for _, r := range x.Results {
			v := in.eval(r, env)
			if v.kind == "tuple" && len(x.Results) == 1 {
				vals = append(vals, v.elems...)
			} else {
				vals = append(vals, v)
			}
		}
		return ctlReturn, vals
	case *ast.BranchStmt:
		switch x.Tok {
		case token.CONTINUE:
			return ctlContinue, nil
		case token.BREAK:
			return ctlBreak, nil
		}
		symBail(x, "goto / fallthrough")
	case *ast.TypeSwitchStmt:
		scope := &symEnv{vars: map[string]*symCell{}, parent: env}
		var subject ast.Expr
		bind := ""
		switch a := x.Assign.(type) {
		case *ast.AssignStmt:
			bind = a.Lhs[0].(*ast.Ident).Name
			subject = a.Rhs[0].(*ast.TypeAssertExpr).X
		case *ast.ExprStmt:
			subject = a.X.(*ast.TypeAssertExpr).X
		}
		v := deref(in.eval(subject, scope))
		switch v.kind {
		case "nil", "plain", "inner", "nfe", "errors":
		default:
			symBail(x, "type switch on a value of unknown kind")
		}
		var deflt *ast.CaseClause
		for _, cs := range x.Body.List {
			cc := cs.(*ast.CaseClause)
			if cc.List == nil {
				deflt = cc
				continue
			}
			for _, t := range cc.List {
				if typeMatches(src(t), v) {
					cenv := &symEnv{vars: map[string]*symCell{}, parent: scope}
					if bind != "" {
						cenv.vars[bind] = &symCell{v}
					}
					ctl, vals := in.block(cc.Body, cenv)
					if ctl == ctlBreak {
						ctl = ctlNormal
					}
					return ctl, vals
				}
			}
		}
		if deflt != nil {
			cenv := &symEnv{vars: map[string]*symCell{}, parent: scope}
			if bind != "" {
				cenv.vars[bind] = &symCell{v}
			}
			ctl, vals := in.block(deflt.Body, cenv)
			if ctl == ctlBreak {
				ctl = ctlNormal
			}
			return ctl, vals
		}
	case *ast.SwitchStmt:
		if x.Tag == nil && x.Init == nil {
			var deflt *ast.CaseClause
			for _, cs := range x.Body.List {
				cc := cs.(*ast.CaseClause)
				if cc.List == nil {
					deflt = cc
					continue
				}
				for _, c := range cc.List {
					if in.truth(c, in.eval(c, env)) {
						ctl, vals := in.block(cc.Body, &symEnv{vars: map[string]*symCell{}, parent: env})
						if ctl == ctlBreak {
							ctl = ctlNormal
						}
						return ctl, vals
					}
				}
			}
			if deflt != nil {
				ctl, vals := in.block(deflt.Body, &symEnv{vars: map[string]*symCell{}, parent: env})
				if ctl == ctlBreak {
					ctl = ctlNormal
				}
				return ctl, vals
			}
			return ctlNormal, nil
		}
		symBail(x, "switch with a tag")
	case *ast.ForStmt, *ast.RangeStmt:
		if in.stepMode {
			return ctlNormal, nil // another loop of the function: its effect on the collector is the other step unit's business
		}
		symBail(x, "loop in a function that is executed whole")
	}
	return ctlNormal, nil
}

// ---- outcomes and trees

type symTree struct {
	leaf string
	fact string
	t, f *symTree
}

func (a *symTree) equal(b *symTree) bool {
	if a.fact != b.fact || a.leaf != b.leaf {
		return false
	}
	if a.fact == "" {
		return true
	}
	return a.t.equal(b.t) && a.f.equal(b.f)
}

func (a *symTree) lean(ind string, term map[string]string) string {
	if a.fact == "" {
		return a.leaf
	}
	return "if " + term[a.fact] + " then\n" + ind + "  " + a.t.lean(ind+"  ", term) + "\n" + ind + "else\n" + ind + a.f.lean(ind, term)
}

func countTerm(c symCount) string {
	var parts []string
	if c.base {
		parts = append(parts, "nfe_")
	}
	if c.a > 0 {
		parts = append(parts, fmt.Sprint(c.a))
	}
	for i := 0; i < c.b; i++ {
		parts = append(parts, "innerN")
	}
	if len(parts) == 0 {
		return "0"
	}
	return strings.Join(parts, " + ")
}

// wrapperLeaf: object 0 = nil, 1 = what was parsed; error 0 nil, 1 an ordinary error of the envelope step, 2 parseCertificate's
// own error passed on, 3 the collector (with its count)
func wrapperLeaf(at ast.Node, vals []sval) string {
	if len(vals) != 2 {
		symBail(at, "a wrapper returned %d values", len(vals))
	}
	obj := 1
	if vals[0].kind == "nil" {
		obj = 0
	}
	e := deref(vals[1])
	switch e.kind {
	case "nil":
		return fmt.Sprintf("((%d : Int), (0 : Int), 0)", obj)
	case "plain":
		return fmt.Sprintf("((%d : Int), (1 : Int), 0)", obj)
	case "inner":
		return fmt.Sprintf("((%d : Int), (2 : Int), 0)", obj)
	case "nfe":
		return fmt.Sprintf("((%d : Int), (3 : Int), %s)", obj, countTerm(e.cnt))
	}
	symBail(at, "a wrapper returned an error of unknown kind")
	return ""
}

func symFiles(rel string) []*ast.File {
	// the function's own file and error.go (NonFatalErrors' / Errors' methods may live in either)
	files := []*ast.File{parseFile(rp(rel))}
	if rel != "x509/error.go" {
		files = append(files, parseFile(rp("x509/error.go")))
	}
	return files
}

func symBuild(facts []string, run func(map[string]bool) string) *symTree {
	var rec func(i int, cur map[string]bool) *symTree
	rec = func(i int, cur map[string]bool) *symTree {
		if i == len(facts) {
			return &symTree{leaf: run(cur)}
		}
		cur[facts[i]] = true
		t := rec(i+1, cur)
		cur[facts[i]] = false
		f := rec(i+1, cur)
		delete(cur, facts[i])
		if t.equal(f) {
			return t
		}
		return &symTree{fact: facts[i], t: t, f: f}
	}
	return rec(0, map[string]bool{})
}

var symTerms = map[string]string{"strictFails": "strictFails", "laxFails": "laxFails", "trailing": "trailing", "innerFails": "innerFails",
	"innerIsNfe": "innerIsNfe", "innerNPos": "(decide (innerN > 0))", "isNil": "isNil", "isNfe": "isNfe", "isErrors": "isErrors", "errsFatal": "errsFatal"}

func symWrapper(rel, fn, lean string) unit {
	return unit{fn, func() string {
		fd := mustFunc(rel, fn)
		tree := symBuild([]string{"strictFails", "laxFails", "trailing", "innerFails", "innerIsNfe", "innerNPos"}, func(f map[string]bool) string {
			in := &symInterp{files: symFiles(rel), facts: f}
			v := in.apply(fd, nil, []sval{opaqueVal}, fd)
			if v.kind != "tuple" {
				symBail(fd, "%s did not return a pair", fn)
			}
			return wrapperLeaf(fd, v.elems)
		})
		return fmt.Sprintf("/-- generated from %s func %s: the function, with the helpers and methods of the package it calls, executed on every combination of the facts it observes (decision tree in a fixed order of the facts; result = (object, error, the collector's count)) -/\ndef %s (strictFails laxFails trailing innerFails innerIsNfe : Bool) (innerN : Nat) : Int × Int × Nat :=\n  %s\n",
			rel, fn, lean, tree.lean("  ", symTerms))
	}}
}

// loopCalling: the unique loop of fd whose body calls callee, directly or through helpers of the package
func (in *symInterp) loopCalling(fd *ast.FuncDecl, callee string) ast.Stmt {
	var calls func(n ast.Node, depth int) bool
	calls = func(n ast.Node, depth int) bool {
		found := false
		ast.Inspect(n, func(nd ast.Node) bool {
			if c, ok := nd.(*ast.CallExpr); ok {
				if norm(src(c.Fun)) == callee {
					found = true
				} else if id, ok := c.Fun.(*ast.Ident); ok && depth < 3 && id.Name != "parseCertificate" {
					if h := in.findFunc(id.Name); h != nil && h != fd && calls(h.Body, depth+1) {
						found = true
					}
				}
			}
			return !found
		})
		return found
	}
	var loops []ast.Stmt
	ast.Inspect(fd.Body, func(nd ast.Node) bool {
		switch l := nd.(type) {
		case *ast.ForStmt:
			if calls(l.Body, 0) {
				loops = append(loops, l)
			}
		case *ast.RangeStmt:
			if calls(l.Body, 0) {
				loops = append(loops, l)
			}
		}
		return true
	})
	if len(loops) != 1 {
		panic(bail{fmt.Sprintf("%s: expected exactly one loop calling %s, found %d", fd.Name.Name, callee, len(loops))})
	}
	return loops[0]
}

func symStep(rel, fn, callee, lean, params string, facts []string) unit {
	return unit{fn + "." + lean, func() string {
		fd := mustFunc(rel, fn)
		tree := symBuild(facts, func(f map[string]bool) string {
			in := &symInterp{files: symFiles(rel), facts: f, stepMode: true}
			in.target = in.loopCalling(fd, callee)
			in.apply(fd, nil, []sval{opaqueVal}, fd)
			if in.outcome == nil {
				symBail(fd, "the loop calling %s was not reached", callee)
			}
			if in.outcome.returned {
				leaf := wrapperLeaf(fd, in.outcome.vals)
				// a return from inside the loop hands back the collector's count as it stands
				return strings.Replace(leaf, ", 0)", ", "+countTerm(in.outcome.count)+")", 1)
			}
			return fmt.Sprintf("((0 : Int), (9 : Int), %s)", countTerm(in.outcome.count))
		})
		return fmt.Sprintf("/-- generated from %s func %s: one iteration of the loop that calls %s, executed on every combination of the facts it observes (error 9 = next iteration; third component = the collector's count afterwards) -/\ndef %s %s : Int × Int × Nat :=\n  %s\n",
			rel, fn, callee, lean, params, tree.lean("  ", symTerms))
	}}
}

func symIsFatal(rel string) unit {
	return unit{"IsFatal", func() string {
		fd := mustFunc(rel, "IsFatal")
		run := func(v sval, fatal bool) *symTree {
			in := &symInterp{files: symFiles(rel), facts: map[string]bool{"errsFatal": fatal}}
			r := in.apply(fd, nil, []sval{v}, fd)
			if r.kind != "bool" {
				symBail(fd, "IsFatal did not return a truth value")
			}
			return &symTree{leaf: fmt.Sprint(r.b)}
		}
		node := func(fact string, t, f *symTree) *symTree {
			if t.equal(f) {
				return t
			}
			return &symTree{fact: fact, t: t, f: f}
		}
		tree := node("isNil", run(sval{kind: "nil"}, false),
			node("isNfe", run(sval{kind: "nfe", cnt: symCount{a: 1}}, false),
				node("isErrors", node("errsFatal", run(sval{kind: "errors"}, true), run(sval{kind: "errors"}, false)), run(sval{kind: "plain"}, false))))
		return fmt.Sprintf("/-- generated from %s func IsFatal: executed on each kind of error value (nil, a NonFatalErrors value, an *Errors with / without a fatal entry, anything else) -/\ndef isFatalBody (isNil isNfe isErrors errsFatal : Bool) : Bool :=\n  %s\n", rel, tree.lean("  ", symTerms))
	}}
}
