package main

// Shape-tolerant units for C16 / C20: they anchor on what a statement does (which call it makes, which struct field it
// fills, which channel it sends on) rather than on where it stands or how its locals are called, follow unique local
// definitions, rename parameters positionally, and look into same-file helpers when a function was split.

import (
	"fmt"
	"go/ast"
	"go/token"
	"strings"
)

// ---- canonicalisation of expressions

// uniqueDefs: locals of scope with exactly one defining `:=` (or `var x = e`) whose right-hand side is a pure read.
func uniqueDefs(scope ast.Node) map[string]ast.Expr {
	count := map[string]int{}
	def := map[string]ast.Expr{}
	ast.Inspect(scope, func(n ast.Node) bool {
		switch x := n.(type) {
		case *ast.AssignStmt:
			for i, l := range x.Lhs {
				id, ok := l.(*ast.Ident)
				if !ok {
					continue
				}
				count[id.Name]++
				if x.Tok == token.DEFINE && len(x.Lhs) == len(x.Rhs) {
					def[id.Name] = x.Rhs[i]
				}
			}
		case *ast.IncDecStmt:
			if id, ok := x.X.(*ast.Ident); ok {
				count[id.Name] += 2
			}
		case *ast.RangeStmt:
			for _, e := range []ast.Expr{x.Key, x.Value} {
				if id, ok := e.(*ast.Ident); ok {
					count[id.Name] += 2
				}
			}
		}
		return true
	})
	out := map[string]ast.Expr{}
	for n, e := range def {
		if count[n] == 1 && pureReadScan(e) {
			out[n] = e
		}
	}
	return out
}

func pureReadScan(e ast.Expr) bool {
	switch x := e.(type) {
	case *ast.Ident, *ast.BasicLit:
		return true
	case *ast.SelectorExpr:
		return pureReadScan(x.X)
	case *ast.ParenExpr:
		return pureReadScan(x.X)
	case *ast.SliceExpr:
		return pureReadScan(x.X) && x.Low == nil && x.High == nil
	case *ast.BinaryExpr:
		return pureReadScan(x.X) && pureReadScan(x.Y)
	case *ast.UnaryExpr:
		return x.Op != token.ARROW && pureReadScan(x.X)
	case *ast.CallExpr:
		switch src(x.Fun) {
		case "int64", "uint64", "int", "len":
			return len(x.Args) == 1 && pureReadScan(x.Args[0])
		}
	}
	return false
}

// rewrite returns a copy of e in which identifiers are replaced according to sub (applied repeatedly, at most depth times).
func rewrite(e ast.Expr, sub func(string) ast.Expr, depth int) ast.Expr {
	switch x := e.(type) {
	case *ast.Ident:
		if depth > 0 {
			if r := sub(x.Name); r != nil {
				return rewrite(r, sub, depth-1)
			}
		}
		return x
	case *ast.SelectorExpr:
		return &ast.SelectorExpr{X: rewrite(x.X, sub, depth), Sel: x.Sel}
	case *ast.ParenExpr:
		return &ast.ParenExpr{X: rewrite(x.X, sub, depth)}
	case *ast.SliceExpr:
		return &ast.SliceExpr{X: rewrite(x.X, sub, depth), Low: x.Low, High: x.High, Max: x.Max, Slice3: x.Slice3}
	case *ast.BinaryExpr:
		return &ast.BinaryExpr{X: rewrite(x.X, sub, depth), Op: x.Op, Y: rewrite(x.Y, sub, depth)}
	case *ast.UnaryExpr:
		return &ast.UnaryExpr{Op: x.Op, X: rewrite(x.X, sub, depth)}
	case *ast.CallExpr:
		c := &ast.CallExpr{Fun: x.Fun}
		for _, a := range x.Args {
			c.Args = append(c.Args, rewrite(a, sub, depth))
		}
		return c
	case *ast.CompositeLit:
		c := &ast.CompositeLit{Type: x.Type}
		for _, a := range x.Elts {
			c.Elts = append(c.Elts, rewrite(a, sub, depth))
		}
		return c
	case *ast.KeyValueExpr:
		return &ast.KeyValueExpr{Key: x.Key, Value: rewrite(x.Value, sub, depth)}
	}
	return e
}

// canon: follow unique local definitions of scope, then rename identifiers by `names` (parameters / range keys → canonical names).
func canon(scope ast.Node, names map[string]string, e ast.Expr) ast.Expr {
	defs := uniqueDefs(scope)
	e = rewrite(e, func(n string) ast.Expr {
		if _, isParam := names[n]; isParam {
			return nil
		}
		if d, ok := defs[n]; ok {
			return d
		}
		return nil
	}, 4)
	return rewrite(e, func(n string) ast.Expr {
		if c, ok := names[n]; ok && c != n {
			return ast.NewIdent(c)
		}
		return nil
	}, 1)
}

// path from root to the first node satisfying pred (outermost first), or nil.
func pathTo(root ast.Node, pred func(ast.Node) bool) []ast.Node {
	var stack, found []ast.Node
	ast.Inspect(root, func(n ast.Node) bool {
		if found != nil {
			return false
		}
		if n == nil {
			stack = stack[:len(stack)-1]
			return true
		}
		stack = append(stack, n)
		if pred(n) {
			found = append([]ast.Node{}, stack...)
			return false
		}
		return true
	})
	return found
}

func paramNames(ft *ast.FuncType) []string {
	var out []string
	for _, f := range ft.Params.List {
		for _, n := range f.Names {
			out = append(out, n.Name)
		}
	}
	return out
}

// funcsOfFile: every FuncDecl of the file of rel.
func funcsOfFile(rel string) []*ast.FuncDecl {
	var out []*ast.FuncDecl
	for _, d := range parseFile(rp(rel)).Decls {
		if fd, ok := d.(*ast.FuncDecl); ok && fd.Body != nil {
			out = append(out, fd)
		}
	}
	return out
}

// reachable: fn and the same-file functions / methods it calls (transitively).
func reachable(rel, fn string) []*ast.FuncDecl {
	all := funcsOfFile(rel)
	byName := map[string]*ast.FuncDecl{}
	for _, fd := range all {
		byName[fd.Name.Name] = fd
	}
	start := mustFunc(rel, fn)
	seen := map[*ast.FuncDecl]bool{start: true}
	out := []*ast.FuncDecl{start}
	for i := 0; i < len(out); i++ {
		ast.Inspect(out[i].Body, func(n ast.Node) bool {
			c, ok := n.(*ast.CallExpr)
			if !ok {
				return true
			}
			name := ""
			switch f := c.Fun.(type) {
			case *ast.Ident:
				name = f.Name
			case *ast.SelectorExpr:
				name = f.Sel.Name
			}
			if fd := byName[name]; fd != nil && !seen[fd] {
				seen[fd] = true
				out = append(out, fd)
			}
			return true
		})
	}
	return out
}

// ---- units

// callArgsAnywhere: the unique call whose function source ends in calleeSuffix, searched in fn and the same-file helpers it
// calls; the arguments [from, from+count) are canonicalised (locals followed; the base identifier of `.start`/`.end`-style field
// reads is renamed to `base`; the enclosing range key to `i`; parameter number bparam of the enclosing function (literal) to `b`).
func callArgsAnywhere(rel, fn, calleeSuffix string, from, count int, base string, bparam int, leanName, params, resultTy string, sp Spec) func() string {
	return func() string {
		type hit struct {
			fd   *ast.FuncDecl
			call *ast.CallExpr
		}
		var hits []hit
		for _, fd := range reachable(rel, fn) {
			fd := fd
			ast.Inspect(fd.Body, func(n ast.Node) bool {
				if c, ok := n.(*ast.CallExpr); ok && strings.HasSuffix(src(c.Fun), calleeSuffix) {
					hits = append(hits, hit{fd, c})
				}
				return true
			})
		}
		if len(hits) != 1 {
			panic(bail{fmt.Sprintf("%s: expected exactly one call of …%s reachable from %s, found %d", rel, calleeSuffix, fn, len(hits))})
		}
		h := hits[0]
		names := canonNames(h.fd, h.call, base, bparam)
		t := &tr{sp: sp}
		var parts []string
		for _, a := range h.call.Args[from : from+count] {
			parts = append(parts, t.expr(canon(h.fd.Body, names, a)))
		}
		res := strings.Join(parts, ", ")
		if len(parts) > 1 {
			res = "(" + res + ")"
		}
		return fmt.Sprintf("/-- generated from %s func %s (reached from %s): `%s` -/\ndef %s %s : %s :=\n  %s\n", rel, h.fd.Name.Name, fn, src(h.call), leanName, params, resultTy, res)
	}
}

// canonNames: renaming for the expression at node inside fd: innermost enclosing range key → "i"; parameter bparam of the innermost
// enclosing function literal (or of fd) → "b"; when base != "", every identifier X occurring as `X.start` / `X.end` → base.
func canonNames(fd *ast.FuncDecl, node ast.Node, base string, bparam int) map[string]string {
	names := map[string]string{}
	path := pathTo(fd, func(n ast.Node) bool { return n == node })
	var ft *ast.FuncType = fd.Type
	for _, n := range path {
		switch x := n.(type) {
		case *ast.RangeStmt:
			if id, ok := x.Key.(*ast.Ident); ok && id.Name != "_" {
				names[id.Name] = "i"
			}
		case *ast.FuncLit:
			ft = x.Type
		}
	}
	if bparam >= 0 {
		if ps := paramNames(ft); bparam < len(ps) {
			names[ps[bparam]] = "b"
		}
	}
	if base != "" {
		ast.Inspect(node, func(n ast.Node) bool {
			if se, ok := n.(*ast.SelectorExpr); ok && (se.Sel.Name == "start" || se.Sel.Name == "end") {
				if id, ok := se.X.(*ast.Ident); ok {
					names[id.Name] = base
				}
			}
			return true
		})
	}
	return names
}

// fieldAnywhere: the value of `field` in the unique composite literal of type typ inside fn (or its same-file helpers), canonicalised as above.
func fieldAnywhere(rel, fn, typ, field string, base string, bparam int, leanName, params, resultTy string, sp Spec) func() string {
	return func() string {
		type hit struct {
			fd *ast.FuncDecl
			kv *ast.KeyValueExpr
		}
		var hits []hit
		for _, fd := range reachable(rel, fn) {
			fd := fd
			ast.Inspect(fd.Body, func(n ast.Node) bool {
				if c, ok := n.(*ast.CompositeLit); ok && c.Type != nil && src(c.Type) == typ {
					for _, el := range c.Elts {
						if kv, ok := el.(*ast.KeyValueExpr); ok && src(kv.Key) == field {
							hits = append(hits, hit{fd, kv})
						}
					}
				}
				return true
			})
		}
		if len(hits) != 1 {
			panic(bail{fmt.Sprintf("%s: expected exactly one %s{%s: …} reachable from %s, found %d", rel, typ, field, fn, len(hits))})
		}
		h := hits[0]
		names := canonNames(h.fd, h.kv, base, bparam)
		// locals are followed inside the innermost function literal when there is one (its own scope), else in the function
		var scope ast.Node = h.fd.Body
		for _, n := range pathTo(h.fd, func(n ast.Node) bool { return n == h.kv }) {
			if fl, ok := n.(*ast.FuncLit); ok {
				scope = fl.Body
			}
		}
		t := &tr{sp: sp}
		return fmt.Sprintf("/-- generated from %s func %s: `%s{… %s: %s …}` -/\ndef %s %s : %s :=\n  %s\n", rel, h.fd.Name.Name, typ, field, src(h.kv.Value), leanName, params, resultTy, t.expr(canon(scope, names, h.kv.Value)))
	}
}

// guardKernel: the unique condition — of an `if`, or of a clause of a tagless `switch` (several expressions of one clause are a
// disjunction; a later clause carries the negation of the earlier ones) — that contains every marker, in fn.
func guardKernel(rel, fn string, markers []string, leanName, params string, sp Spec) func() string {
	return func() string {
		fd := mustFunc(rel, fn)
		var conds, own []ast.Expr // the full guard, and the part written at that place (markers are matched against it)
		ast.Inspect(fd.Body, func(n ast.Node) bool {
			switch x := n.(type) {
			case *ast.IfStmt:
				conds = append(conds, x.Cond)
				own = append(own, x.Cond)
			case *ast.SwitchStmt:
				if x.Tag != nil {
					return true
				}
				var earlier []ast.Expr
				for _, c := range x.Body.List {
					cc := c.(*ast.CaseClause)
					if cc.List == nil {
						continue
					}
					var disj ast.Expr
					for _, e := range cc.List {
						if disj == nil {
							disj = e
						} else {
							disj = &ast.BinaryExpr{X: disj, Op: token.LOR, Y: e}
						}
					}
					full := disj
					for _, p := range earlier {
						full = &ast.BinaryExpr{X: &ast.UnaryExpr{Op: token.NOT, X: &ast.ParenExpr{X: p}}, Op: token.LAND, Y: &ast.ParenExpr{X: full}}
					}
					conds = append(conds, full)
					own = append(own, disj)
					earlier = append(earlier, disj)
				}
			}
			return true
		})
		var hit []ast.Expr
		for i, c := range conds {
			s := src(own[i])
			ok := true
			for _, m := range markers {
				if !strings.Contains(s, m) {
					ok = false
				}
			}
			if ok {
				hit = append(hit, c)
			}
		}
		if len(hit) != 1 {
			panic(bail{fmt.Sprintf("%s: expected exactly one guard mentioning %v in %s, found %d", rel, markers, fn, len(hit))})
		}
		t := &tr{sp: sp}
		return fmt.Sprintf("/-- generated from %s func %s: guard `%s` -/\ndef %s %s : Bool :=\n  %s\n", rel, fn, src(hit[0]), leanName, params, t.expr(hit[0]))
	}
}

// loopAction classifies what one iteration of the unique loop of fn that sends on channel `ch` does, as a decision tree over the
// loop's own tests: 0 = the goroutine exits, 1 = it polls (calls pollCall) and goes back to the loop test, 2 = it emits (sends on ch),
// 3 = it goes round without doing either. Also reports whether a path exists on which a poll is followed by an emit in the same iteration.
func loopAction(rel, fn, ch, pollCall, leanName, params string, sp Spec) func() string {
	return func() string {
		fd := mergedFunc(rel, fn)
		hasCall := func(n ast.Node) bool {
			found := false
			ast.Inspect(n, func(m ast.Node) bool {
				if c, ok := m.(*ast.CallExpr); ok && strings.HasSuffix(src(c.Fun), pollCall) {
					found = true
				}
				return true
			})
			return found
		}
		hasSend := func(n ast.Node) bool {
			found := false
			ast.Inspect(n, func(m ast.Node) bool {
				if _, ok := m.(*ast.SendStmt); ok {
					found = true
				}
				return true
			})
			return found
		}
		var loops []*ast.ForStmt
		ast.Inspect(fd.Body, func(n ast.Node) bool {
			if f, ok := n.(*ast.ForStmt); ok && hasCall(f.Body) && hasSend(f.Body) {
				loops = append(loops, f)
			}
			return true
		})
		if len(loops) != 1 {
			panic(bail{fmt.Sprintf("%s: expected one loop that polls (%s) and sends on a channel in %s (helpers included), found %d", rel, pollCall, fn, len(loops))})
		}
		t := &tr{sp: sp}
		pollThenEmit := false
		isPoll := func(n ast.Node) bool {
			found := false
			ast.Inspect(n, func(m ast.Node) bool {
				if c, ok := m.(*ast.CallExpr); ok && strings.HasSuffix(src(c.Fun), pollCall) {
					found = true
				}
				return true
			})
			return found
		}
		isEmit := hasSend
		// afterPoll: does the continuation of this iteration reach an emit?
		var reachesEmit func(list []ast.Stmt) bool
		reachesEmit = func(list []ast.Stmt) bool {
			for _, s := range list {
				switch x := s.(type) {
				case *ast.ReturnStmt:
					return false
				case *ast.BranchStmt:
					return false
				case *ast.IfStmt:
					if reachesEmit(x.Body.List) || reachesEmit(elseList(x.Else)) {
						return true
					}
				default:
					if isEmit(s) {
						return true
					}
				}
			}
			return false
		}
		var walk func(list []ast.Stmt, ind string) string
		walk = func(list []ast.Stmt, ind string) string {
			for i, s := range list {
				rest := list[i+1:]
				switch x := s.(type) {
				case *ast.ReturnStmt:
					return "0"
				case *ast.BranchStmt:
					if x.Tok == token.CONTINUE {
						return "3"
					}
					return "0" // break leaves the loop
				case *ast.IfStmt:
					if x.Init != nil && isPoll(x.Init) {
						// `if err := poll(); err != nil { return }` — the poll happens on this path
						if reachesEmit(rest) {
							pollThenEmit = true
						}
						return "1"
					}
					if isPoll(x.Cond) {
						if reachesEmit(rest) {
							pollThenEmit = true
						}
						return "1"
					}
					thenPart := walk(append(append([]ast.Stmt{}, x.Body.List...), rest...), ind+"  ")
					elsePart := walk(append(append([]ast.Stmt{}, elseList(x.Else)...), rest...), ind+"  ")
					if thenPart == elsePart {
						return thenPart
					}
					return "(if " + t.expr(x.Cond) + " then " + thenPart + " else " + elsePart + ")"
				default:
					if isPoll(s) {
						if reachesEmit(rest) {
							pollThenEmit = true
						}
						return "1"
					}
					if isEmit(s) {
						return "2"
					}
				}
			}
			return "3"
		}
		body := walk(loops[0].Body.List, "  ")
		if loops[0].Cond != nil {
			body = "(if " + t.expr(loops[0].Cond) + " then " + body + " else 0)"
		}
		return fmt.Sprintf("/-- generated from %s func %s: what one iteration of the loop that sends on `%s` does, by the loop's own tests: 0 exit, 1 poll (`%s`) and re-test, 2 emit, 3 re-test only -/\ndef %s %s : Nat :=\n  %s\n/-- is there a path on which a poll is followed by an emit within the same iteration? -/\ndef %sPollThenEmits : Bool := %v\n",
			rel, fn, ch, pollCall, leanName, params, body, leanName, pollThenEmit)
	}
}

// stmtsAfterKernel: in the function of the file that contains the assignment `<v> := <…rhsSuffix>` (fn itself or a same-file helper it
// calls), the statements after it up to the first statement whose source starts with one of `stops` (or `return <v>`), translated in
// order; `<v>.Field` is addressed as `fo.Field` in the Spec whatever the local is called.
func stmtsAfterKernel(rel, fn, rhsSuffix string, stops []string, leanName, params, resultTy, result string, sp Spec) func() string {
	return func() string {
		for _, fd := range reachable(rel, fn) {
			for i, st := range fd.Body.List {
				a, ok := st.(*ast.AssignStmt)
				if !ok || len(a.Lhs) != 1 || len(a.Rhs) != 1 || !strings.HasSuffix(src(a.Rhs[0]), rhsSuffix) {
					continue
				}
				v := src(a.Lhs[0])
				hi := -1
				for j := i + 1; j < len(fd.Body.List); j++ {
					c := src(fd.Body.List[j])
					stop := c == "return "+v
					for _, s := range stops {
						if strings.HasPrefix(c, s) {
							stop = true
						}
					}
					if stop {
						hi = j
						break
					}
				}
				if hi < 0 || hi == i+1 {
					panic(bail{fmt.Sprintf("%s: cannot delimit the statements after `%s` in %s", rel, src(st), fd.Name.Name)})
				}
				sp2 := sp
				sp2.Vars = map[string]string{}
				for k, val := range sp.Vars {
					sp2.Vars[strings.Replace(k, "fo.", v+".", 1)] = val
				}
				t := &tr{sp: sp2}
				body := t.block(fd.Body.List[i+1:hi], result, "  ")
				return fmt.Sprintf("/-- generated from %s func %s (reached from %s): the statements after `%s`, in order -/\ndef %s %s : %s :=\n  %s\n", rel, fd.Name.Name, fn, src(st), leanName, params, resultTy, body)
			}
		}
		panic(bail{fmt.Sprintf("%s: no assignment from …%s reachable from %s", rel, rhsSuffix, fn)})
	}
}

// ---- whole-body decision chains (deepening round)

// chainSpec tells decisionChain how to read a body: Conds maps a normalised condition source (or a prefix of an if-init + condition,
// "init ; cond") to the Lean Bool that stands for it; ErrCalls maps a call-name suffix to the Lean Bool "this call failed" (for
// `x, err := call(…)` followed by `if err != nil`, and for `if err := call(…); err != nil`); Rets maps a normalised prefix of a return
// statement's results to the Lean value handed back; Skip lists prefixes of statements without influence on the decision.
type chainSpec struct {
	Conds    map[string]string
	ErrCalls map[string]string
	Rets     map[string]string
	Skip     []string
	From, To string // only the statements after the one starting with From / before the one starting with To (either may be "")
	Fall     string // value when the body (or the slice) is left without a return
	ErrLast  bool   // returns not listed in Rets: 0 when the last result is `nil`, the error value (or 1) otherwise
}

func hasPrefixAny(s string, ps []string) bool {
	for _, p := range ps {
		if strings.HasPrefix(s, p) {
			return true
		}
	}
	return false
}

func lookupPrefix(m map[string]string, s string) (string, bool) {
	best, val := -1, ""
	for k, v := range m {
		if strings.HasPrefix(norm(s), norm(k)) && len(k) > best {
			best, val = len(k), v
		}
	}
	return val, best >= 0
}

func lookupSuffixCall(m map[string]string, e ast.Expr) (string, bool) {
	c, ok := e.(*ast.CallExpr)
	if !ok {
		return "", false
	}
	name := src(c.Fun)
	for k, v := range m {
		if strings.HasSuffix(name, k) {
			return v, true
		}
	}
	return "", false
}

// decisionChain translates the (sliced) body of fn into nested if-then-else over the declared inputs. Every `if` must either be
// declared in Conds / ErrCalls or have no return inside (then it is an effect and skipped); tagless switches are chains of ifs.
func decisionChain(rel, fn, leanName, params, resultTy string, cs chainSpec) func() string {
	return func() string {
		fd := mustFunc(rel, fn)
		if cs.From != "" {
			// the slice may have moved into a same-file helper
			for _, g := range reachable(rel, fn) {
				for _, st := range g.Body.List {
					if strings.HasPrefix(src(st), cs.From) {
						fd = g
					}
				}
			}
		}
		helperHasTo := func(e ast.Expr) bool {
			c, ok := e.(*ast.CallExpr)
			if !ok || cs.To == "" {
				return false
			}
			name := src(c.Fun)
			if i := strings.LastIndex(name, "."); i >= 0 {
				name = name[i+1:]
			}
			for _, g := range funcsOfFile(rel) {
				if g.Name.Name == name {
					for _, st := range g.Body.List {
						if strings.HasPrefix(src(st), cs.To) {
							return true
						}
					}
				}
			}
			return false
		}
		list := fd.Body.List
		if cs.From != "" || cs.To != "" {
			lo, hi := 0, len(list)
			for i, st := range list {
				c := src(st)
				if cs.From != "" && strings.HasPrefix(c, cs.From) {
					lo = i + 1
				}
				if cs.To != "" && strings.HasPrefix(c, cs.To) && i >= lo {
					hi = i
					break
				}
			}
			list = list[lo:hi]
		}
		pendingErr := ""
		var lookupCond func(e ast.Expr) (string, bool)
		lookupCond = func(e ast.Expr) (string, bool) {
			if v, ok := lookupPrefix(cs.Conds, src(e)); ok {
				return v, true
			}
			switch y := e.(type) {
			case *ast.ParenExpr:
				return lookupCond(y.X)
			case *ast.UnaryExpr:
				if y.Op == token.NOT {
					if v, ok := lookupCond(y.X); ok {
						return "(!" + v + ")", true
					}
				}
			case *ast.BinaryExpr:
				flip := map[token.Token]token.Token{token.NEQ: token.EQL, token.EQL: token.NEQ, token.GTR: token.LEQ, token.LEQ: token.GTR, token.LSS: token.GEQ, token.GEQ: token.LSS}
				if op, ok := flip[y.Op]; ok {
					if v, ok := lookupPrefix(cs.Conds, src(&ast.BinaryExpr{X: y.X, Op: op, Y: y.Y})); ok {
						return "(!" + v + ")", true
					}
				}
			}
			return "", false
		}
		condOf := func(x *ast.IfStmt) (string, bool) {
			key := src(x.Cond)
			if x.Init == nil {
				if v, ok := lookupCond(x.Cond); ok {
					return v, true
				}
			}
			if x.Init != nil {
				key = src(x.Init) + " ; " + key
				if a, ok := x.Init.(*ast.AssignStmt); ok && len(a.Rhs) == 1 {
					if v, ok := lookupSuffixCall(cs.ErrCalls, a.Rhs[0]); ok && norm(src(x.Cond)) == "err!=nil" {
						return v, true
					}
				}
			}
			if v, ok := lookupPrefix(cs.Conds, key); ok {
				return v, true
			}
			if x.Init == nil && pendingErr != "" {
				switch norm(src(x.Cond)) {
				case "err!=nil":
					return pendingErr, true
				case "err==nil":
					return "(!" + pendingErr + ")", true
				}
			}
			return "", false
		}
		retOf := func(r *ast.ReturnStmt) string {
			var parts []string
			for _, e := range r.Results {
				parts = append(parts, src(e))
			}
			key := strings.Join(parts, ", ")
			if v, ok := lookupPrefix(cs.Rets, key); ok {
				return v
			}
			if len(r.Results) == 1 && helperHasTo(r.Results[0]) && cs.Fall != "" {
				return cs.Fall // the rest of the function lives in this helper
			}
			if n := len(r.Results); n >= 1 {
				last := r.Results[n-1]
				if v, ok := lookupSuffixCall(cs.ErrCalls, last); ok {
					return "(if " + v + " then 1 else 0)" // `return f(…)`: f's own verdict
				}
				if src(last) == "err" && pendingErr != "" {
					return "(if " + pendingErr + " then 1 else 0)"
				}
				if cs.ErrLast {
					if src(last) == "nil" {
						return "0"
					}
					return "1"
				}
			}
			panic(bail{fmt.Sprintf("%s: %s: undeclared return `%s`", rel, fn, key)})
		}
		var walk func(list []ast.Stmt) string
		walk = func(list []ast.Stmt) string {
			for i, s := range list {
				rest := list[i+1:]
				switch x := s.(type) {
				case *ast.ReturnStmt:
					return retOf(x)
				case *ast.IfStmt:
					// `if v := <pure read>; cond` — read cond (and the returns inside) with v replaced by what it stands for
					if a, ok := x.Init.(*ast.AssignStmt); ok && a.Tok == token.DEFINE && len(a.Lhs) == len(a.Rhs) {
						pure := true
						al := map[string]ast.Expr{}
						for i, l := range a.Lhs {
							id, ok := l.(*ast.Ident)
							if !ok || !pureRead(a.Rhs[i]) {
								pure = false
								break
							}
							al[id.Name] = a.Rhs[i]
						}
						if pure {
							sub := func(n string) ast.Expr { return al[n] }
							nx := &ast.IfStmt{Cond: rewrite(x.Cond, sub, 1), Else: x.Else, Body: &ast.BlockStmt{}}
							for _, b := range x.Body.List {
								if r, ok := b.(*ast.ReturnStmt); ok {
									nr := &ast.ReturnStmt{}
									for _, e := range r.Results {
										nr.Results = append(nr.Results, rewrite(e, sub, 1))
									}
									b = nr
								}
								nx.Body.List = append(nx.Body.List, b)
							}
							x = nx
						}
					}
					c, ok := condOf(x)
					if !ok {
						// `if err == nil { err = f(…) }`: the error now also covers f's verdict
						if pendingErr != "" && norm(src(x.Cond)) == "err==nil" && len(x.Body.List) == 1 && x.Else == nil {
							if a, ok := x.Body.List[0].(*ast.AssignStmt); ok && len(a.Lhs) == 1 && src(a.Lhs[0]) == "err" && len(a.Rhs) == 1 {
								if v, ok := lookupSuffixCall(cs.ErrCalls, a.Rhs[0]); ok {
									pendingErr = "(" + pendingErr + " || " + v + ")"
									continue
								}
							}
						}
						if hasReturn([]ast.Stmt{x}) {
							panic(bail{fmt.Sprintf("%s: %s: undeclared test `%s` guards a return", rel, fn, src(x.Cond))})
						}
						continue // an effect only
					}
					keepErr := pendingErr
					pendingErr = keepErr
					thenP := walk(append(append([]ast.Stmt{}, x.Body.List...), rest...))
					pendingErr = keepErr
					elseP := walk(append(append([]ast.Stmt{}, elseList(x.Else)...), rest...))
					if thenP == elseP {
						return thenP
					}
					return "(if " + c + " then " + thenP + " else " + elseP + ")"
				case *ast.SwitchStmt:
					if x.Tag != nil || x.Init != nil {
						if hasReturn([]ast.Stmt{x}) {
							panic(bail{fmt.Sprintf("%s: %s: switch with a tag guards a return", rel, fn)})
						}
						continue
					}
					// a tagless switch is a chain of ifs
					var chain ast.Stmt
					var last *ast.IfStmt
					var deflt []ast.Stmt
					for _, cl := range x.Body.List {
						cc := cl.(*ast.CaseClause)
						if cc.List == nil {
							deflt = cc.Body
							continue
						}
						var disj ast.Expr
						for _, e := range cc.List {
							if disj == nil {
								disj = e
							} else {
								disj = &ast.BinaryExpr{X: disj, Op: token.LOR, Y: e}
							}
						}
						is := &ast.IfStmt{Cond: disj, Body: &ast.BlockStmt{List: cc.Body}}
						if last == nil {
							chain = is
						} else {
							last.Else = is
						}
						last = is
					}
					if last != nil && deflt != nil {
						last.Else = &ast.BlockStmt{List: deflt}
					}
					if chain == nil {
						continue
					}
					return walk(append([]ast.Stmt{chain}, rest...))
				case *ast.AssignStmt:
					if len(x.Rhs) == 1 {
						if v, ok := lookupSuffixCall(cs.ErrCalls, x.Rhs[0]); ok {
							pendingErr = v
						}
					}
				case *ast.BlockStmt:
					return walk(append(append([]ast.Stmt{}, x.List...), rest...))
				default:
					_ = x
				}
			}
			if cs.Fall == "" {
				panic(bail{fmt.Sprintf("%s: %s: a path leaves the body without a return", rel, fn)})
			}
			return cs.Fall
		}
		body := walk(list)
		return fmt.Sprintf("/-- generated from %s func %s: the whole decision sequence of the body (tests in the code's order, what each return hands back) -/\ndef %s %s : %s :=\n  %s\n", rel, fn, leanName, params, resultTy, body)
	}
}

// stmtOrder lists, in order, the top-level statements of fn (after From) whose source starts with one of the given prefixes — as those prefixes.
func stmtOrder(rel, fn, from string, prefixes []string, leanName string) func() string {
	return func() string {
		fd := mustFunc(rel, fn)
		for _, g := range reachable(rel, fn) {
			for _, st := range g.Body.List {
				if from != "" && strings.HasPrefix(src(st), from) {
					fd = g
				}
			}
		}
		var rows []string
		on := from == ""
		for _, st := range fd.Body.List {
			c := src(st)
			if !on {
				on = strings.HasPrefix(c, from)
				if !on {
					continue
				}
			}
			for _, p := range prefixes {
				if strings.Contains(norm(c), norm(p)) {
					rows = append(rows, p)
					break
				}
			}
		}
		return fmt.Sprintf("/-- generated from %s func %s: the order of the top-level statements containing these texts -/\ndef %s : List String :=\n  %s\n", rel, fd.Name.Name, leanName, scanStrList(rows))
	}
}

// workerDecision: what one round of the worker's inner loop (the `for` whose condition compares `.start` and `.end`) does, as a
// decision tree over "the context is done" and "the request failed": 0 = the worker returns, 1 = it goes round again with the same
// range, 2 = it hands the batch to the callback and advances. The request may be made in the loop or in a same-file helper.
func workerDecision(rel, fn, deliverCall, leanName string) func() string {
	return func() string {
		fd := mergedFunc(rel, fn)
		requesters := reachesCall(rel, ".GetRawEntries")
		var loop *ast.ForStmt
		ast.Inspect(fd.Body, func(n ast.Node) bool {
			if f, ok := n.(*ast.ForStmt); ok && f.Cond != nil && strings.Contains(src(f.Cond), ".start") && strings.Contains(src(f.Cond), ".end") {
				loop = f
			}
			return true
		})
		if loop == nil {
			panic(bail{fmt.Sprintf("%s: no loop over a range's start/end in %s", rel, fn)})
		}
		contains := func(n ast.Node, sub string) bool {
			found := false
			ast.Inspect(n, func(m ast.Node) bool {
				if c, ok := m.(*ast.CallExpr); ok {
					name := src(c.Fun)
					if strings.Contains(name, sub) {
						found = true
					}
					// a same-file helper through which the get-entries request is made counts as the request
					if sub == "GetRawEntries" {
						if i := strings.LastIndex(name, "."); requesters[name[i+1:]] {
							found = true
						}
					}
				}
				return true
			})
			return found
		}
		errPending := false
		var walk func(list []ast.Stmt, delivered bool) string
		walk = func(list []ast.Stmt, delivered bool) string {
			for i, s := range list {
				rest := list[i+1:]
				switch x := s.(type) {
				case *ast.ReturnStmt:
					return "0"
				case *ast.BranchStmt:
					if x.Tok == token.CONTINUE {
						if delivered {
							return "2"
						}
						return "1"
					}
					return "0"
				case *ast.IfStmt:
					cond := ""
					c := norm(src(x.Cond))
					isReq := x.Init != nil && (contains(x.Init, "Retry") || contains(x.Init, "GetRawEntries") || contains(x.Init, "getRawEntries"))
					switch {
					case strings.Contains(c, "ctx.Err()!=nil"):
						cond = "ctxDone"
					case c == "err!=nil" && (errPending || isReq):
						cond = "reqFails"
					case c == "err==nil" && (errPending || isReq):
						cond = "(!reqFails)"
					}
					if cond == "" {
						if hasReturn([]ast.Stmt{x}) || contains(x, deliverCall) {
							panic(bail{fmt.Sprintf("%s: %s: undeclared test `%s` in the worker loop", rel, fn, src(x.Cond))})
						}
						continue // logging only
					}
					thenP := walk(append(append([]ast.Stmt{}, x.Body.List...), rest...), delivered)
					elseP := walk(append(append([]ast.Stmt{}, elseList(x.Else)...), rest...), delivered)
					if thenP == elseP {
						return thenP
					}
					return "(if " + cond + " then " + thenP + " else " + elseP + ")"
				default:
					if a, ok := s.(*ast.AssignStmt); ok && len(a.Rhs) == 1 && (contains(a.Rhs[0], "Retry") || contains(a.Rhs[0], "GetRawEntries") || contains(a.Rhs[0], "getRawEntries")) {
						errPending = true
					}
					if es, ok := s.(*ast.ExprStmt); ok && contains(es, deliverCall) {
						delivered = true
					}
				}
			}
			if delivered {
				return "2"
			}
			return "1"
		}
		return fmt.Sprintf("/-- generated from %s func %s: one round of the worker loop `for %s`: 0 return, 1 ask again for the same range, 2 deliver and advance -/\ndef %s (ctxDone reqFails : Bool) : Nat :=\n  %s\n", rel, fn, src(loop.Cond), leanName, walk(loop.Body.List, false))
	}
}

// ---- round 3: units that look at a function together with the same-file helpers it was split into

// mergedFunc: a synthetic declaration whose body is fn's statements followed by one block per same-file helper reachable from fn.
// Marker / anchor searches (ast.Inspect, findStmts) over it see the code wherever a refactoring moved it.
func mergedFunc(rel, fn string) *ast.FuncDecl {
	fs := reachable(rel, fn)
	body := &ast.BlockStmt{List: append([]ast.Stmt{}, fs[0].Body.List...)}
	for _, h := range fs[1:] {
		body.List = append(body.List, &ast.BlockStmt{List: h.Body.List})
	}
	return &ast.FuncDecl{Name: fs[0].Name, Type: fs[0].Type, Recv: fs[0].Recv, Body: body}
}

// reachesCall: names of the same-file functions from which a call whose name ends in suffix is reachable.
func reachesCall(rel, suffix string) map[string]bool {
	out := map[string]bool{}
	for _, fd := range funcsOfFile(rel) {
		for _, g := range reachable(rel, recvName(fd)) {
			hit := false
			ast.Inspect(g.Body, func(n ast.Node) bool {
				if c, ok := n.(*ast.CallExpr); ok && strings.HasSuffix(src(c.Fun), suffix) {
					hit = true
				}
				return true
			})
			if hit {
				out[fd.Name.Name] = true
			}
		}
	}
	return out
}

func recvName(fd *ast.FuncDecl) string {
	if fd.Recv != nil && len(fd.Recv.List) == 1 {
		t := fd.Recv.List[0].Type
		if s, ok := t.(*ast.StarExpr); ok {
			t = s.X
		}
		if id, ok := t.(*ast.Ident); ok {
			return id.Name + "." + fd.Name.Name
		}
	}
	return fd.Name.Name
}

// baseRename: every identifier X occurring in n as `X.start` / `X.end` is renamed to base.
func baseRename(n ast.Node, base string) map[string]string {
	names := map[string]string{}
	ast.Inspect(n, func(m ast.Node) bool {
		if se, ok := m.(*ast.SelectorExpr); ok && (se.Sel.Name == "start" || se.Sel.Name == "end") {
			if id, ok := se.X.(*ast.Ident); ok {
				names[id.Name] = base
			}
		}
		return true
	})
	return names
}

func renameOnly(e ast.Expr, names map[string]string) ast.Expr {
	return rewrite(e, func(n string) ast.Expr {
		if c, ok := names[n]; ok && c != n {
			return ast.NewIdent(c)
		}
		return nil
	}, 1)
}

// assignAnywhere: the unique assignment to lhs in fn or its helpers; with follow, unique local definitions on the right-hand side are followed first.
func assignAnywhere(rel, fn, lhs string, follow bool, leanName, params, resultTy string, sp Spec) func() string {
	return func() string {
		fd := mergedFunc(rel, fn)
		ss := findStmts(fd, func(s ast.Stmt) bool {
			a, ok := s.(*ast.AssignStmt)
			return ok && len(a.Lhs) == 1 && len(a.Rhs) == 1 && src(a.Lhs[0]) == lhs
		})
		if len(ss) != 1 {
			panic(bail{fmt.Sprintf("%s: expected exactly one assignment to %s in %s (helpers included), found %d", rel, lhs, fn, len(ss))})
		}
		rhs := ss[0].(*ast.AssignStmt).Rhs[0]
		if follow {
			rhs = canon(fd.Body, map[string]string{}, rhs)
		}
		t := &tr{sp: sp}
		return fmt.Sprintf("/-- generated from %s func %s: `%s` -/\ndef %s %s : %s :=\n  %s\n", rel, fn, src(ss[0]), leanName, params, resultTy, t.expr(rhs))
	}
}

// rangeLiteral: the unique composite literal of type typ in fn (helpers included) with two elements, positional or keyed by `start` / `end`.
func rangeLiteral(rel, fn, typ, leanName, params, resultTy string, sp Spec) func() string {
	return func() string {
		fd := mergedFunc(rel, fn)
		var lits []*ast.CompositeLit
		ast.Inspect(fd.Body, func(n ast.Node) bool {
			if c, ok := n.(*ast.CompositeLit); ok && c.Type != nil && src(c.Type) == typ {
				lits = append(lits, c)
			}
			return true
		})
		if len(lits) != 1 || len(lits[0].Elts) != 2 {
			panic(bail{fmt.Sprintf("%s: expected exactly one two-element %s literal in %s (helpers included), found %d", rel, typ, fn, len(lits))})
		}
		var first, second ast.Expr = lits[0].Elts[0], lits[0].Elts[1]
		if kv, ok := first.(*ast.KeyValueExpr); ok {
			vals := map[string]ast.Expr{}
			for _, el := range lits[0].Elts {
				kv2, ok := el.(*ast.KeyValueExpr)
				if !ok {
					panic(bail{fmt.Sprintf("%s: mixed literal %s", rel, src(lits[0]))})
				}
				vals[src(kv2.Key)] = kv2.Value
			}
			_ = kv
			first, second = vals["start"], vals["end"]
			if first == nil || second == nil {
				panic(bail{fmt.Sprintf("%s: %s lacks start/end keys", rel, src(lits[0]))})
			}
		}
		t := &tr{sp: sp}
		return fmt.Sprintf("/-- generated from %s func %s: `%s` -/\ndef %s %s : %s :=\n  (%s, %s)\n", rel, fn, src(lits[0]), leanName, params, resultTy, t.expr(first), t.expr(second))
	}
}

// startAdvance: the unique `X.start += e` in fn (helpers included); X is addressed as `r`, any `len(…)` in e as `n`.
func startAdvance(rel, fn, leanName, params, resultTy string, sp Spec) func() string {
	return func() string {
		fd := mergedFunc(rel, fn)
		ss := findStmts(fd, func(s ast.Stmt) bool {
			a, ok := s.(*ast.AssignStmt)
			if !ok || a.Tok != token.ADD_ASSIGN || len(a.Lhs) != 1 {
				return false
			}
			se, ok := a.Lhs[0].(*ast.SelectorExpr)
			return ok && se.Sel.Name == "start"
		})
		if len(ss) != 1 {
			panic(bail{fmt.Sprintf("%s: expected exactly one `….start += …` in %s (helpers included), found %d", rel, fn, len(ss))})
		}
		a := ss[0].(*ast.AssignStmt)
		var lenless func(e ast.Expr) ast.Expr
		lenless = func(e ast.Expr) ast.Expr {
			switch x := e.(type) {
			case *ast.CallExpr:
				if src(x.Fun) == "len" {
					return ast.NewIdent("verifLenN")
				}
				c := &ast.CallExpr{Fun: x.Fun}
				for _, ar := range x.Args {
					c.Args = append(c.Args, lenless(ar))
				}
				return c
			case *ast.BinaryExpr:
				return &ast.BinaryExpr{X: lenless(x.X), Op: x.Op, Y: lenless(x.Y)}
			case *ast.ParenExpr:
				return &ast.ParenExpr{X: lenless(x.X)}
			}
			return e
		}
		sum := &ast.BinaryExpr{X: a.Lhs[0], Op: token.ADD, Y: lenless(a.Rhs[0])}
		e := renameOnly(sum, baseRename(sum, "r"))
		sp2 := sp
		sp2.Repl = map[string]string{"r.start": "rstart", "verifLenN": "n"}
		t := &tr{sp: sp2}
		return fmt.Sprintf("/-- generated from %s func %s: `%s` -/\ndef %s %s : %s :=\n  %s\n", rel, fn, src(a), leanName, params, resultTy, t.expr(e))
	}
}

// rangeLoopCond: the condition of the unique `for` in fn (helpers included) that compares `X.start` with `X.end`; X addressed as `r`.
func rangeLoopCond(rel, fn, leanName, params string, sp Spec) func() string {
	return func() string {
		fd := mergedFunc(rel, fn)
		var loops []*ast.ForStmt
		ast.Inspect(fd.Body, func(n ast.Node) bool {
			if f, ok := n.(*ast.ForStmt); ok && f.Cond != nil && strings.Contains(src(f.Cond), ".start") && strings.Contains(src(f.Cond), ".end") {
				loops = append(loops, f)
			}
			return true
		})
		if len(loops) != 1 {
			panic(bail{fmt.Sprintf("%s: expected one loop over a range's start/end in %s (helpers included), found %d", rel, fn, len(loops))})
		}
		e := renameOnly(loops[0].Cond, baseRename(loops[0].Cond, "r"))
		t := &tr{sp: sp}
		return fmt.Sprintf("/-- generated from %s func %s: `for %s` -/\ndef %s %s : Bool :=\n  %s\n", rel, fn, src(loops[0].Cond), leanName, params, t.expr(e))
	}
}

// guardOfAssign: the condition of the unique `if` in fn whose body assigns to lhs, with the if's own init and unique local definitions followed.
func guardOfAssign(rel, fn, lhs, leanName, params string, sp Spec) func() string {
	return func() string {
		fd := mustFunc(rel, fn)
		var hits []*ast.IfStmt
		ast.Inspect(fd.Body, func(n ast.Node) bool {
			is, ok := n.(*ast.IfStmt)
			if !ok {
				return true
			}
			for _, st := range is.Body.List {
				if a, ok := st.(*ast.AssignStmt); ok && len(a.Lhs) == 1 && src(a.Lhs[0]) == lhs {
					hits = append(hits, is)
				}
			}
			return true
		})
		if len(hits) != 1 {
			panic(bail{fmt.Sprintf("%s: expected exactly one `if` assigning %s in %s, found %d", rel, lhs, fn, len(hits))})
		}
		is := hits[0]
		cond := is.Cond
		if a, ok := is.Init.(*ast.AssignStmt); ok && a.Tok == token.DEFINE && len(a.Lhs) == len(a.Rhs) {
			al := map[string]ast.Expr{}
			for i, l := range a.Lhs {
				if id, ok := l.(*ast.Ident); ok {
					al[id.Name] = a.Rhs[i]
				}
			}
			cond = rewrite(cond, func(n string) ast.Expr { return al[n] }, 1)
		}
		cond = canon(fd.Body, map[string]string{}, cond)
		t := &tr{sp: sp}
		return fmt.Sprintf("/-- generated from %s func %s: the guard of `%s = …`, locals followed: `%s` -/\ndef %s %s : Bool :=\n  %s\n", rel, fn, lhs, src(cond), leanName, params, t.expr(cond))
	}
}

// rejectGuards: in the function literal of fn that contains a call ending in pollSuffix, the disjunction of the guards of the top-level
// `if c { return <non-nil> }` statements other than the error test that follows the poll; locals (of the literal and of fn) followed.
func rejectGuards(rel, fn, pollSuffix, leanName, params string, sp Spec) func() string {
	return func() string {
		fd := mustFunc(rel, fn)
		var lit *ast.FuncLit
		ast.Inspect(fd.Body, func(n ast.Node) bool {
			if fl, ok := n.(*ast.FuncLit); ok && lit == nil {
				hit := false
				ast.Inspect(fl.Body, func(m ast.Node) bool {
					if c, ok := m.(*ast.CallExpr); ok && strings.HasSuffix(src(c.Fun), pollSuffix) {
						hit = true
					}
					return true
				})
				if hit {
					lit = fl
				}
			}
			return true
		})
		if lit == nil {
			panic(bail{fmt.Sprintf("%s: no function literal calling …%s in %s", rel, pollSuffix, fn)})
		}
		var disj ast.Expr
		var collect func(list []ast.Stmt)
		collect = func(list []ast.Stmt) {
			for _, st := range list {
				switch x := st.(type) {
				case *ast.IfStmt:
					if norm(src(x.Cond)) == "err!=nil" {
						continue
					}
					rets := false
					for _, b := range x.Body.List {
						if r, ok := b.(*ast.ReturnStmt); ok && len(r.Results) == 1 && src(r.Results[0]) != "nil" {
							rets = true
						}
					}
					if rets {
						if disj == nil {
							disj = x.Cond
						} else {
							disj = &ast.BinaryExpr{X: disj, Op: token.LOR, Y: &ast.ParenExpr{X: x.Cond}}
						}
					}
				case *ast.SwitchStmt:
					if x.Tag == nil {
						for _, c := range x.Body.List {
							cc := c.(*ast.CaseClause)
							rets := false
							for _, b := range cc.Body {
								if r, ok := b.(*ast.ReturnStmt); ok && len(r.Results) == 1 && src(r.Results[0]) != "nil" {
									rets = true
								}
							}
							if rets {
								for _, e := range cc.List {
									if disj == nil {
										disj = e
									} else {
										disj = &ast.BinaryExpr{X: disj, Op: token.LOR, Y: &ast.ParenExpr{X: e}}
									}
								}
							}
						}
					}
				}
			}
		}
		collect(lit.Body.List)
		if disj == nil {
			panic(bail{fmt.Sprintf("%s: no rejecting test found in the retry closure of %s", rel, fn)})
		}
		// follow the closure's locals first, then the function's
		e := canon(lit.Body, map[string]string{}, disj)
		e = canon(&ast.BlockStmt{List: nonLit(fd.Body.List)}, map[string]string{}, e)
		t := &tr{sp: sp}
		return fmt.Sprintf("/-- generated from %s func %s: the retry closure answers \"wait for a bigger STH\" iff `%s` -/\ndef %s %s : Bool :=\n  %s\n", rel, fn, src(e), leanName, params, t.expr(e))
	}
}

// nonLit: the statements of a body without the one that contains a function literal (so that its locals do not count as the function's).
func nonLit(list []ast.Stmt) []ast.Stmt {
	var out []ast.Stmt
	for _, st := range list {
		has := false
		ast.Inspect(st, func(n ast.Node) bool {
			if _, ok := n.(*ast.FuncLit); ok {
				has = true
			}
			return true
		})
		if !has {
			out = append(out, st)
		}
	}
	return out
}

// callArgSourcesFollowed: the argument sources of the unique call of callee in fn, unique local definitions followed.
func callArgSourcesFollowed(rel, fn, callee, leanName string) func() string {
	return func() string {
		fd := mustFunc(rel, fn)
		var calls []*ast.CallExpr
		ast.Inspect(fd.Body, func(n ast.Node) bool {
			if c, ok := n.(*ast.CallExpr); ok && src(c.Fun) == callee {
				calls = append(calls, c)
			}
			return true
		})
		if len(calls) != 1 {
			panic(bail{fmt.Sprintf("%s: expected exactly one call of %s in %s, found %d", rel, callee, fn, len(calls))})
		}
		var xs []string
		for _, a := range calls[0].Args {
			xs = append(xs, src(canon(fd.Body, map[string]string{}, a)))
		}
		return fmt.Sprintf("/-- generated from %s func %s: arguments of `%s` (locals followed) -/\ndef %s : List String :=\n  %s\n", rel, fn, callee, leanName, scanStrList(xs))
	}
}
