package main

// Shape-tolerant units for C16 / C20: they anchor on what a statement does (which call it makes, which struct field it
// fills, which channel it sends on) rather than on where it stands or how its locals are called, follow unique local
// definitions, rename parameters positionally, and look into same-file helpers when a function was split.

import (
	"fmt"
	"go/ast"
	"go/token"
	"strings"
)

// ---- canonicalisation of expressions

// uniqueDefs: locals of scope with exactly one defining `:=` (or `var x = e`) whose right-hand side is a pure read.
func uniqueDefs(scope ast.Node) map[string]ast.Expr {
	count := map[string]int{}
	def := map[string]ast.Expr{}
	ast.Inspect(scope, func(n ast.Node) bool {
		switch x := n.(type) {
		case *ast.AssignStmt:
			for i, l := range x.Lhs {
				id, ok := l.(*ast.Ident)
				if !ok {
					continue
				}
				count[id.Name]++
				if x.Tok == token.DEFINE && len(x.Lhs) == len(x.Rhs) {
					def[id.Name] = x.Rhs[i]
				}
			}
		case *ast.IncDecStmt:
			if id, ok := x.X.(*ast.Ident); ok {
				count[id.Name] += 2
			}
		case *ast.RangeStmt:
			for _, e := range []ast.Expr{x.Key, x.Value} {
				if id, ok := e.(*ast.Ident); ok {
					count[id.Name] += 2
				}
			}
		}
		return true
	})
	out := map[string]ast.Expr{}
	for n, e := range def {
		if count[n] == 1 && pureReadScan(e) {
			out[n] = e
		}
	}
	return out
}

func pureReadScan(e ast.Expr) bool {
	switch x := e.(type) {
	case *ast.Ident, *ast.BasicLit:
		return true
	case *ast.SelectorExpr:
		return pureReadScan(x.X)
	case *ast.ParenExpr:
		return pureReadScan(x.X)
	case *ast.BinaryExpr:
		return pureReadScan(x.X) && pureReadScan(x.Y)
	case *ast.UnaryExpr:
		return x.Op != token.ARROW && pureReadScan(x.X)
	case *ast.CallExpr:
		switch src(x.Fun) {
		case "int64", "uint64", "int", "len":
			return len(x.Args) == 1 && pureReadScan(x.Args[0])
		}
	}
	return false
}

// rewrite returns a copy of e in which identifiers are replaced according to sub (applied repeatedly, at most depth times).
func rewrite(e ast.Expr, sub func(string) ast.Expr, depth int) ast.Expr {
	switch x := e.(type) {
	case *ast.Ident:
		if depth > 0 {
			if r := sub(x.Name); r != nil {
				return rewrite(r, sub, depth-1)
			}
		}
		return x
	case *ast.SelectorExpr:
		return &ast.SelectorExpr{X: rewrite(x.X, sub, depth), Sel: x.Sel}
	case *ast.ParenExpr:
		return &ast.ParenExpr{X: rewrite(x.X, sub, depth)}
	case *ast.BinaryExpr:
		return &ast.BinaryExpr{X: rewrite(x.X, sub, depth), Op: x.Op, Y: rewrite(x.Y, sub, depth)}
	case *ast.UnaryExpr:
		return &ast.UnaryExpr{Op: x.Op, X: rewrite(x.X, sub, depth)}
	case *ast.CallExpr:
		c := &ast.CallExpr{Fun: x.Fun}
		for _, a := range x.Args {
			c.Args = append(c.Args, rewrite(a, sub, depth))
		}
		return c
	case *ast.CompositeLit:
		c := &ast.CompositeLit{Type: x.Type}
		for _, a := range x.Elts {
			c.Elts = append(c.Elts, rewrite(a, sub, depth))
		}
		return c
	case *ast.KeyValueExpr:
		return &ast.KeyValueExpr{Key: x.Key, Value: rewrite(x.Value, sub, depth)}
	}
	return e
}

// canon: follow unique local definitions of scope, then rename identifiers by `names` (parameters / range keys → canonical names).
func canon(scope ast.Node, names map[string]string, e ast.Expr) ast.Expr {
	defs := uniqueDefs(scope)
	e = rewrite(e, func(n string) ast.Expr {
		if _, isParam := names[n]; isParam {
			return nil
		}
		if d, ok := defs[n]; ok {
			return d
		}
		return nil
	}, 4)
	return rewrite(e, func(n string) ast.Expr {
		if c, ok := names[n]; ok && c != n {
			return ast.NewIdent(c)
		}
		return nil
	}, 1)
}

// path from root to the first node satisfying pred (outermost first), or nil.
func pathTo(root ast.Node, pred func(ast.Node) bool) []ast.Node {
	var stack, found []ast.Node
	ast.Inspect(root, func(n ast.Node) bool {
		if found != nil {
			return false
		}
		if n == nil {
			stack = stack[:len(stack)-1]
			return true
		}
		stack = append(stack, n)
		if pred(n) {
			found = append([]ast.Node{}, stack...)
			return false
		}
		return true
	})
	return found
}

func paramNames(ft *ast.FuncType) []string {
	var out []string
	for _, f := range ft.Params.List {
		for _, n := range f.Names {
			out = append(out, n.Name)
		}
	}
	return out
}

// funcsOfFile: every FuncDecl of the file of rel.
func funcsOfFile(rel string) []*ast.FuncDecl {
	var out []*ast.FuncDecl
	for _, d := range parseFile(rp(rel)).Decls {
		if fd, ok := d.(*ast.FuncDecl); ok && fd.Body != nil {
			out = append(out, fd)
		}
	}
	return out
}

// reachable: fn and the same-file functions / methods it calls (transitively).
func reachable(rel, fn string) []*ast.FuncDecl {
	all := funcsOfFile(rel)
	byName := map[string]*ast.FuncDecl{}
	for _, fd := range all {
		byName[fd.Name.Name] = fd
	}
	start := mustFunc(rel, fn)
	seen := map[*ast.FuncDecl]bool{start: true}
	out := []*ast.FuncDecl{start}
	for i := 0; i < len(out); i++ {
		ast.Inspect(out[i].Body, func(n ast.Node) bool {
			c, ok := n.(*ast.CallExpr)
			if !ok {
				return true
			}
			name := ""
			switch f := c.Fun.(type) {
			case *ast.Ident:
				name = f.Name
			case *ast.SelectorExpr:
				name = f.Sel.Name
			}
			if fd := byName[name]; fd != nil && !seen[fd] {
				seen[fd] = true
				out = append(out, fd)
			}
			return true
		})
	}
	return out
}

// ---- units

// callArgsAnywhere: the unique call whose function source ends in calleeSuffix, searched in fn and the same-file helpers it
// calls; the arguments [from, from+count) are canonicalised (locals followed; the base identifier of `.start`/`.end`-style field
// reads is renamed to `base`; the enclosing range key to `i`; parameter number bparam of the enclosing function (literal) to `b`).
func callArgsAnywhere(rel, fn, calleeSuffix string, from, count int, base string, bparam int, leanName, params, resultTy string, sp Spec) func() string {
	return func() string {
		type hit struct {
			fd   *ast.FuncDecl
			call *ast.CallExpr
		}
		var hits []hit
		for _, fd := range reachable(rel, fn) {
			fd := fd
			ast.Inspect(fd.Body, func(n ast.Node) bool {
				if c, ok := n.(*ast.CallExpr); ok && strings.HasSuffix(src(c.Fun), calleeSuffix) {
					hits = append(hits, hit{fd, c})
				}
				return true
			})
		}
		if len(hits) != 1 {
			panic(bail{fmt.Sprintf("%s: expected exactly one call of …%s reachable from %s, found %d", rel, calleeSuffix, fn, len(hits))})
		}
		h := hits[0]
		names := canonNames(h.fd, h.call, base, bparam)
		t := &tr{sp: sp}
		var parts []string
		for _, a := range h.call.Args[from : from+count] {
			parts = append(parts, t.expr(canon(h.fd.Body, names, a)))
		}
		res := strings.Join(parts, ", ")
		if len(parts) > 1 {
			res = "(" + res + ")"
		}
		return fmt.Sprintf("/-- generated from %s func %s (reached from %s): `%s` -/\ndef %s %s : %s :=\n  %s\n", rel, h.fd.Name.Name, fn, src(h.call), leanName, params, resultTy, res)
	}
}

// canonNames: renaming for the expression at node inside fd: innermost enclosing range key → "i"; parameter bparam of the innermost
// enclosing function literal (or of fd) → "b"; when base != "", every identifier X occurring as `X.start` / `X.end` → base.
func canonNames(fd *ast.FuncDecl, node ast.Node, base string, bparam int) map[string]string {
	names := map[string]string{}
	path := pathTo(fd, func(n ast.Node) bool { return n == node })
	var ft *ast.FuncType = fd.Type
	for _, n := range path {
		switch x := n.(type) {
		case *ast.RangeStmt:
			if id, ok := x.Key.(*ast.Ident); ok && id.Name != "_" {
				names[id.Name] = "i"
			}
		case *ast.FuncLit:
			ft = x.Type
		}
	}
	if bparam >= 0 {
		if ps := paramNames(ft); bparam < len(ps) {
			names[ps[bparam]] = "b"
		}
	}
	if base != "" {
		ast.Inspect(node, func(n ast.Node) bool {
			if se, ok := n.(*ast.SelectorExpr); ok && (se.Sel.Name == "start" || se.Sel.Name == "end") {
				if id, ok := se.X.(*ast.Ident); ok {
					names[id.Name] = base
				}
			}
			return true
		})
	}
	return names
}

// fieldAnywhere: the value of `field` in the unique composite literal of type typ inside fn (or its same-file helpers), canonicalised as above.
func fieldAnywhere(rel, fn, typ, field string, base string, bparam int, leanName, params, resultTy string, sp Spec) func() string {
	return func() string {
		type hit struct {
			fd *ast.FuncDecl
			kv *ast.KeyValueExpr
		}
		var hits []hit
		for _, fd := range reachable(rel, fn) {
			fd := fd
			ast.Inspect(fd.Body, func(n ast.Node) bool {
				if c, ok := n.(*ast.CompositeLit); ok && c.Type != nil && src(c.Type) == typ {
					for _, el := range c.Elts {
						if kv, ok := el.(*ast.KeyValueExpr); ok && src(kv.Key) == field {
							hits = append(hits, hit{fd, kv})
						}
					}
				}
				return true
			})
		}
		if len(hits) != 1 {
			panic(bail{fmt.Sprintf("%s: expected exactly one %s{%s: …} reachable from %s, found %d", rel, typ, field, fn, len(hits))})
		}
		h := hits[0]
		names := canonNames(h.fd, h.kv, base, bparam)
		// locals are followed inside the innermost function literal when there is one (its own scope), else in the function
		var scope ast.Node = h.fd.Body
		for _, n := range pathTo(h.fd, func(n ast.Node) bool { return n == h.kv }) {
			if fl, ok := n.(*ast.FuncLit); ok {
				scope = fl.Body
			}
		}
		t := &tr{sp: sp}
		return fmt.Sprintf("/-- generated from %s func %s: `%s{… %s: %s …}` -/\ndef %s %s : %s :=\n  %s\n", rel, h.fd.Name.Name, typ, field, src(h.kv.Value), leanName, params, resultTy, t.expr(canon(scope, names, h.kv.Value)))
	}
}

// guardKernel: the unique condition — of an `if`, or of a clause of a tagless `switch` (several expressions of one clause are a
// disjunction; a later clause carries the negation of the earlier ones) — that contains every marker, in fn.
func guardKernel(rel, fn string, markers []string, leanName, params string, sp Spec) func() string {
	return func() string {
		fd := mustFunc(rel, fn)
		var conds, own []ast.Expr // the full guard, and the part written at that place (markers are matched against it)
		ast.Inspect(fd.Body, func(n ast.Node) bool {
			switch x := n.(type) {
			case *ast.IfStmt:
				conds = append(conds, x.Cond)
				own = append(own, x.Cond)
			case *ast.SwitchStmt:
				if x.Tag != nil {
					return true
				}
				var earlier []ast.Expr
				for _, c := range x.Body.List {
					cc := c.(*ast.CaseClause)
					if cc.List == nil {
						continue
					}
					var disj ast.Expr
					for _, e := range cc.List {
						if disj == nil {
							disj = e
						} else {
							disj = &ast.BinaryExpr{X: disj, Op: token.LOR, Y: e}
						}
					}
					full := disj
					for _, p := range earlier {
						full = &ast.BinaryExpr{X: &ast.UnaryExpr{Op: token.NOT, X: &ast.ParenExpr{X: p}}, Op: token.LAND, Y: &ast.ParenExpr{X: full}}
					}
					conds = append(conds, full)
					own = append(own, disj)
					earlier = append(earlier, disj)
				}
			}
			return true
		})
		var hit []ast.Expr
		for i, c := range conds {
			s := src(own[i])
			ok := true
			for _, m := range markers {
				if !strings.Contains(s, m) {
					ok = false
				}
			}
			if ok {
				hit = append(hit, c)
			}
		}
		if len(hit) != 1 {
			panic(bail{fmt.Sprintf("%s: expected exactly one guard mentioning %v in %s, found %d", rel, markers, fn, len(hit))})
		}
		t := &tr{sp: sp}
		return fmt.Sprintf("/-- generated from %s func %s: guard `%s` -/\ndef %s %s : Bool :=\n  %s\n", rel, fn, src(hit[0]), leanName, params, t.expr(hit[0]))
	}
}

// loopAction classifies what one iteration of the unique loop of fn that sends on channel `ch` does, as a decision tree over the
// loop's own tests: 0 = the goroutine exits, 1 = it polls (calls pollCall) and goes back to the loop test, 2 = it emits (sends on ch),
// 3 = it goes round without doing either. Also reports whether a path exists on which a poll is followed by an emit in the same iteration.
func loopAction(rel, fn, ch, pollCall, leanName, params string, sp Spec) func() string {
	return func() string {
		fd := mustFunc(rel, fn)
		var loops []*ast.ForStmt
		ast.Inspect(fd.Body, func(n ast.Node) bool {
			if f, ok := n.(*ast.ForStmt); ok {
				sends := false
				ast.Inspect(f.Body, func(m ast.Node) bool {
					if s, ok := m.(*ast.SendStmt); ok && src(s.Chan) == ch {
						sends = true
					}
					return true
				})
				if sends {
					loops = append(loops, f)
				}
			}
			return true
		})
		if len(loops) != 1 {
			panic(bail{fmt.Sprintf("%s: expected one loop sending on %s in %s, found %d", rel, ch, fn, len(loops))})
		}
		t := &tr{sp: sp}
		pollThenEmit := false
		isPoll := func(n ast.Node) bool {
			found := false
			ast.Inspect(n, func(m ast.Node) bool {
				if c, ok := m.(*ast.CallExpr); ok && strings.HasSuffix(src(c.Fun), pollCall) {
					found = true
				}
				return true
			})
			return found
		}
		isEmit := func(n ast.Node) bool {
			found := false
			ast.Inspect(n, func(m ast.Node) bool {
				if s, ok := m.(*ast.SendStmt); ok && src(s.Chan) == ch {
					found = true
				}
				return true
			})
			return found
		}
		// afterPoll: does the continuation of this iteration reach an emit?
		var reachesEmit func(list []ast.Stmt) bool
		reachesEmit = func(list []ast.Stmt) bool {
			for _, s := range list {
				switch x := s.(type) {
				case *ast.ReturnStmt:
					return false
				case *ast.BranchStmt:
					return false
				case *ast.IfStmt:
					if reachesEmit(x.Body.List) || reachesEmit(elseList(x.Else)) {
						return true
					}
				default:
					if isEmit(s) {
						return true
					}
				}
			}
			return false
		}
		var walk func(list []ast.Stmt, ind string) string
		walk = func(list []ast.Stmt, ind string) string {
			for i, s := range list {
				rest := list[i+1:]
				switch x := s.(type) {
				case *ast.ReturnStmt:
					return "0"
				case *ast.BranchStmt:
					if x.Tok == token.CONTINUE {
						return "3"
					}
					return "0" // break leaves the loop
				case *ast.IfStmt:
					if x.Init != nil && isPoll(x.Init) {
						// `if err := poll(); err != nil { return }` — the poll happens on this path
						if reachesEmit(rest) {
							pollThenEmit = true
						}
						return "1"
					}
					if isPoll(x.Cond) {
						if reachesEmit(rest) {
							pollThenEmit = true
						}
						return "1"
					}
					thenPart := walk(append(append([]ast.Stmt{}, x.Body.List...), rest...), ind+"  ")
					elsePart := walk(append(append([]ast.Stmt{}, elseList(x.Else)...), rest...), ind+"  ")
					if thenPart == elsePart {
						return thenPart
					}
					return "(if " + t.expr(x.Cond) + " then " + thenPart + " else " + elsePart + ")"
				default:
					if isPoll(s) {
						if reachesEmit(rest) {
							pollThenEmit = true
						}
						return "1"
					}
					if isEmit(s) {
						return "2"
					}
				}
			}
			return "3"
		}
		body := walk(loops[0].Body.List, "  ")
		if loops[0].Cond != nil {
			body = "(if " + t.expr(loops[0].Cond) + " then " + body + " else 0)"
		}
		return fmt.Sprintf("/-- generated from %s func %s: what one iteration of the loop that sends on `%s` does, by the loop's own tests: 0 exit, 1 poll (`%s`) and re-test, 2 emit, 3 re-test only -/\ndef %s %s : Nat :=\n  %s\n/-- is there a path on which a poll is followed by an emit within the same iteration? -/\ndef %sPollThenEmits : Bool := %v\n",
			rel, fn, ch, pollCall, leanName, params, body, leanName, pollThenEmit)
	}
}

// stmtsAfterKernel: in the function of the file that contains the assignment `<v> := <…rhsSuffix>` (fn itself or a same-file helper it
// calls), the statements after it up to the first statement whose source starts with one of `stops` (or `return <v>`), translated in
// order; `<v>.Field` is addressed as `fo.Field` in the Spec whatever the local is called.
func stmtsAfterKernel(rel, fn, rhsSuffix string, stops []string, leanName, params, resultTy, result string, sp Spec) func() string {
	return func() string {
		for _, fd := range reachable(rel, fn) {
			for i, st := range fd.Body.List {
				a, ok := st.(*ast.AssignStmt)
				if !ok || len(a.Lhs) != 1 || len(a.Rhs) != 1 || !strings.HasSuffix(src(a.Rhs[0]), rhsSuffix) {
					continue
				}
				v := src(a.Lhs[0])
				hi := -1
				for j := i + 1; j < len(fd.Body.List); j++ {
					c := src(fd.Body.List[j])
					stop := c == "return "+v
					for _, s := range stops {
						if strings.HasPrefix(c, s) {
							stop = true
						}
					}
					if stop {
						hi = j
						break
					}
				}
				if hi < 0 || hi == i+1 {
					panic(bail{fmt.Sprintf("%s: cannot delimit the statements after `%s` in %s", rel, src(st), fd.Name.Name)})
				}
				sp2 := sp
				sp2.Vars = map[string]string{}
				for k, val := range sp.Vars {
					sp2.Vars[strings.Replace(k, "fo.", v+".", 1)] = val
				}
				t := &tr{sp: sp2}
				body := t.block(fd.Body.List[i+1:hi], result, "  ")
				return fmt.Sprintf("/-- generated from %s func %s (reached from %s): the statements after `%s`, in order -/\ndef %s %s : %s :=\n  %s\n", rel, fd.Name.Name, fn, src(st), leanName, params, resultTy, body)
			}
		}
		panic(bail{fmt.Sprintf("%s: no assignment from …%s reachable from %s", rel, rhsSuffix, fn)})
	}
}
