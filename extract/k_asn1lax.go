package main

// Where does the asn1 fork read its `lax` flag, and is it handed down unchanged?  -> Gen/Asn1Lax.lean
// (the heart of "lax adds only the three documented relaxations": a fourth site, or a call that passes a literal,
// changes these regenerated lists and breaks the `decide` theorems in CTV/Props/C10.lean)

import (
	"fmt"
	"go/ast"
	"sort"
	"strconv"
	"strings"
)

func mentionsLax(e ast.Expr) bool {
	found := false
	ast.Inspect(e, func(n ast.Node) bool {
		switch x := n.(type) {
		case *ast.Ident:
			if x.Name == "lax" {
				found = true
			}
		case *ast.SelectorExpr:
			if x.Sel.Name == "lax" {
				found = true
			}
		}
		return !found
	})
	return found
}

func init() {
	a := "asn1/asn1.go"
	// makeBigInt by sign case: what is computed for n < 0, n = 0, n > 0, wherever the dispatch puts it — an if / else-if / else chain
	// or a switch (tagless over conditions, or tagged on the sign), with an alias `sign := n.Sign()` followed through.
	signCases := func() map[string][]ast.Stmt {
		fd := mustFunc("asn1/marshal.go", "makeBigInt")
		alias := map[string]bool{}
		norm := func(e ast.Expr) string {
			t := src(e)
			for a := range alias {
				t = strings.ReplaceAll(t, a, "n.Sign()")
			}
			return strings.ReplaceAll(t, " ", "")
		}
		noteAlias := func(st ast.Stmt) {
			if a, ok := st.(*ast.AssignStmt); ok && len(a.Lhs) == 1 && len(a.Rhs) == 1 && src(a.Rhs[0]) == "n.Sign()" {
				alias[src(a.Lhs[0])] = true
			}
		}
		classify := func(c string) string {
			switch c {
			case "n.Sign()<0", "0>n.Sign()", "n.Sign()==-1", "n.Sign()<=-1":
				return "neg"
			case "n.Sign()==0", "0==n.Sign()":
				return "zero"
			case "n.Sign()>0", "0<n.Sign()", "n.Sign()==1", "n.Sign()>=1":
				return "pos"
			}
			return ""
		}
		out := map[string][]ast.Stmt{}
		rest := func() string {
			for _, k := range []string{"neg", "zero", "pos"} {
				if _, ok := out[k]; !ok {
					return k
				}
			}
			return ""
		}
		var walkIf func(i *ast.IfStmt) bool
		walkIf = func(i *ast.IfStmt) bool {
			if i.Init != nil {
				noteAlias(i.Init)
			}
			k := classify(norm(i.Cond))
			if k == "" {
				return false
			}
			out[k] = i.Body.List
			switch e := i.Else.(type) {
			case *ast.IfStmt:
				return walkIf(e)
			case *ast.BlockStmt:
				if len(out) == 2 {
					out[rest()] = e.List
				}
			}
			return true
		}
		for idx, st := range fd.Body.List {
			noteAlias(st)
			switch x := st.(type) {
			case *ast.IfStmt:
				if walkIf(x) && len(out) > 0 {
					// `if neg {…return}` followed by further ifs / plain code: keep scanning
					if len(out) == 2 {
						// what follows the chain is the remaining case when every listed branch returns
						if idx+1 < len(fd.Body.List) {
							out[rest()] = fd.Body.List[idx+1:]
						}
					}
				}
			case *ast.SwitchStmt:
				if x.Init != nil {
					noteAlias(x.Init)
				}
				tagged := x.Tag != nil && norm(x.Tag) == "n.Sign()"
				if x.Tag != nil && !tagged {
					continue
				}
				var def []ast.Stmt
				hasDef := false
				for _, c := range x.Body.List {
					cc := c.(*ast.CaseClause)
					if cc.List == nil {
						def, hasDef = cc.Body, true
						continue
					}
					for _, e := range cc.List {
						k := ""
						if tagged {
							switch strings.ReplaceAll(src(e), " ", "") {
							case "-1":
								k = "neg"
							case "0":
								k = "zero"
							case "1":
								k = "pos"
							}
						} else {
							k = classify(norm(e))
						}
						if k != "" {
							out[k] = cc.Body
						}
					}
				}
				if hasDef && len(out) == 2 {
					out[rest()] = def
				}
			}
			if len(out) == 3 {
				break
			}
		}
		if len(out) != 3 {
			panic(bail{fmt.Sprintf("asn1/marshal.go: makeBigInt: could not find what is computed for each sign of n (found %d of the cases n < 0, n = 0, n > 0)", len(out))})
		}
		return out
	}
	bigBranch := func(lean, doc, key string) unit {
		return unit{lean, func() string {
			var rows []string
			for _, st := range signCases()[key] {
				rows = append(rows, strconv.Quote(src(st)))
			}
			return fmt.Sprintf("/-- generated from asn1/marshal.go func makeBigInt: %s, statement by statement (found through the if-chain or the switch that dispatches on the sign) -/\ndef %s : List String :=\n  [%s]\n", doc, lean, strings.Join(rows, ",\n   "))
		}}
	}
	register(genFile{name: "Asn1Lax", units: []unit{
		bigBranch("makeBigIntNegative", "what is computed for n < 0", "neg"),
		bigBranch("makeBigIntZero", "what is computed for n = 0", "zero"),
		bigBranch("makeBigIntPositive", "what is computed for n > 0", "pos"),
		{"laxSites", func() string {
			f := parseFile(rp(a))
			var sites []string
			for _, d := range f.Decls {
				fd, ok := d.(*ast.FuncDecl)
				if !ok || fd.Body == nil {
					continue
				}
				hit := false
				ast.Inspect(fd.Body, func(n ast.Node) bool {
					switch x := n.(type) {
					case *ast.IfStmt:
						if mentionsLax(x.Cond) {
							hit = true
						}
					case *ast.SwitchStmt:
						if x.Tag != nil && mentionsLax(x.Tag) {
							hit = true
						}
					case *ast.CaseClause:
						for _, e := range x.List {
							if mentionsLax(e) {
								hit = true
							}
						}
					}
					return true
				})
				if hit {
					sites = append(sites, strconv.Quote(fd.Name.Name))
				}
			}
			sort.Strings(sites)
			return fmt.Sprintf("/-- generated from %s: the functions in which `lax` / `params.lax` occurs in a branch condition -/\ndef laxSites : List String :=\n  [%s]\n", a, strings.Join(sites, ", "))
		}},
		{"laxHandedDown", func() string {
			f := parseFile(rp(a))
			// position of the `lax` parameter of every function that has one
			pos := map[string]int{}
			for _, d := range f.Decls {
				fd, ok := d.(*ast.FuncDecl)
				if !ok {
					continue
				}
				i := 0
				for _, fl := range fd.Type.Params.List {
					for _, n := range fl.Names {
						if n.Name == "lax" {
							pos[fd.Name.Name] = i
						}
						i++
					}
				}
			}
			var bad []string
			ncalls := 0
			ast.Inspect(f, func(n ast.Node) bool {
				c, ok := n.(*ast.CallExpr)
				if !ok {
					return true
				}
				id, ok := c.Fun.(*ast.Ident)
				if !ok {
					return true
				}
				p, ok := pos[id.Name]
				if !ok || p >= len(c.Args) {
					return true
				}
				ncalls++
				if s := src(c.Args[p]); s != "lax" && s != "params.lax" {
					bad = append(bad, strconv.Quote(id.Name+"("+s+")"))
				}
				return true
			})
			// the two places where the flag enters nested parameters
			text := ""
			for _, d := range f.Decls {
				if fd, ok := d.(*ast.FuncDecl); ok && fd.Body != nil {
					text += src(fd.Body)
				}
			}
			inherit := strings.Contains(text, "innerParams.lax = params.lax") && strings.Contains(text, "fieldParameters{lax: lax}")
			sort.Strings(bad)
			return fmt.Sprintf("/-- generated from %s: calls of a function with a `lax` parameter that do NOT pass `lax` / `params.lax` (of %d such calls) -/\ndef laxNotHandedDown : List String :=\n  [%s]\n\n/-- generated from %s: struct fields get `innerParams.lax = params.lax` and slice elements `fieldParameters{lax: lax}` -/\ndef laxInherited : Bool := %v\n",
				a, ncalls, strings.Join(bad, ", "), a, inherit)
		}},
	}})
}
