package main

// Where does the asn1 fork read its `lax` flag, and is it handed down unchanged?  -> Gen/Asn1Lax.lean
// (the heart of "lax adds only the three documented relaxations": a fourth site, or a call that passes a literal,
// changes these regenerated lists and breaks the `decide` theorems in CTV/Props/C10.lean)

import (
	"fmt"
	"go/ast"
	"sort"
	"strconv"
	"strings"
)

func mentionsLax(e ast.Expr) bool {
	found := false
	ast.Inspect(e, func(n ast.Node) bool {
		switch x := n.(type) {
		case *ast.Ident:
			if x.Name == "lax" {
				found = true
			}
		case *ast.SelectorExpr:
			if x.Sel.Name == "lax" {
				found = true
			}
		}
		return !found
	})
	return found
}

func init() {
	a := "asn1/asn1.go"
	bigBranch := func(lean, doc string, pick func(*ast.IfStmt) []ast.Stmt) unit {
		return unit{lean, func() string {
			fd := mustFunc("asn1/marshal.go", "makeBigInt")
			var top *ast.IfStmt
			for _, st := range fd.Body.List {
				if i, ok := st.(*ast.IfStmt); ok && src(i.Cond) == "n.Sign() < 0" {
					top = i
				}
			}
			if top == nil {
				panic(bail{"asn1/marshal.go: makeBigInt no longer branches on `n.Sign() < 0`"})
			}
			var rows []string
			for _, st := range pick(top) {
				rows = append(rows, strconv.Quote(src(st)))
			}
			return fmt.Sprintf("/-- generated from asn1/marshal.go func makeBigInt: %s, statement by statement -/\ndef %s : List String :=\n  [%s]\n", doc, lean, strings.Join(rows, ",\n   "))
		}}
	}
	register(genFile{name: "Asn1Lax", units: []unit{
		bigBranch("makeBigIntNegative", "the branch for n < 0", func(i *ast.IfStmt) []ast.Stmt { return i.Body.List }),
		bigBranch("makeBigIntZeroPositive", "the branches for n = 0 and n > 0", func(i *ast.IfStmt) []ast.Stmt {
			if e, ok := i.Else.(*ast.IfStmt); ok {
				out := append([]ast.Stmt{}, e.Body.List...)
				if b, ok := e.Else.(*ast.BlockStmt); ok {
					out = append(out, b.List...)
				}
				return out
			}
			return nil
		}),
		{"laxSites", func() string {
			f := parseFile(rp(a))
			var sites []string
			for _, d := range f.Decls {
				fd, ok := d.(*ast.FuncDecl)
				if !ok || fd.Body == nil {
					continue
				}
				hit := false
				ast.Inspect(fd.Body, func(n ast.Node) bool {
					switch x := n.(type) {
					case *ast.IfStmt:
						if mentionsLax(x.Cond) {
							hit = true
						}
					case *ast.SwitchStmt:
						if x.Tag != nil && mentionsLax(x.Tag) {
							hit = true
						}
					case *ast.CaseClause:
						for _, e := range x.List {
							if mentionsLax(e) {
								hit = true
							}
						}
					}
					return true
				})
				if hit {
					sites = append(sites, strconv.Quote(fd.Name.Name))
				}
			}
			sort.Strings(sites)
			return fmt.Sprintf("/-- generated from %s: the functions in which `lax` / `params.lax` occurs in a branch condition -/\ndef laxSites : List String :=\n  [%s]\n", a, strings.Join(sites, ", "))
		}},
		{"laxHandedDown", func() string {
			f := parseFile(rp(a))
			// position of the `lax` parameter of every function that has one
			pos := map[string]int{}
			for _, d := range f.Decls {
				fd, ok := d.(*ast.FuncDecl)
				if !ok {
					continue
				}
				i := 0
				for _, fl := range fd.Type.Params.List {
					for _, n := range fl.Names {
						if n.Name == "lax" {
							pos[fd.Name.Name] = i
						}
						i++
					}
				}
			}
			var bad []string
			ncalls := 0
			ast.Inspect(f, func(n ast.Node) bool {
				c, ok := n.(*ast.CallExpr)
				if !ok {
					return true
				}
				id, ok := c.Fun.(*ast.Ident)
				if !ok {
					return true
				}
				p, ok := pos[id.Name]
				if !ok || p >= len(c.Args) {
					return true
				}
				ncalls++
				if s := src(c.Args[p]); s != "lax" && s != "params.lax" {
					bad = append(bad, strconv.Quote(id.Name+"("+s+")"))
				}
				return true
			})
			// the two places where the flag enters nested parameters
			text := ""
			for _, d := range f.Decls {
				if fd, ok := d.(*ast.FuncDecl); ok && fd.Body != nil {
					text += src(fd.Body)
				}
			}
			inherit := strings.Contains(text, "innerParams.lax = params.lax") && strings.Contains(text, "fieldParameters{lax: lax}")
			sort.Strings(bad)
			return fmt.Sprintf("/-- generated from %s: calls of a function with a `lax` parameter that do NOT pass `lax` / `params.lax` (of %d such calls) -/\ndef laxNotHandedDown : List String :=\n  [%s]\n\n/-- generated from %s: struct fields get `innerParams.lax = params.lax` and slice elements `fieldParameters{lax: lax}` -/\ndef laxInherited : Bool := %v\n",
				a, ncalls, strings.Join(bad, ", "), a, inherit)
		}},
	}})
}
