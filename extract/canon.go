package main

// Canonical view of a function: the statements of the function and of the same-file helper functions it calls, in
// execution order, with local names replaced by what they stand for.  Units anchored on this view survive renames of
// parameters and locals, hoisting of repeated reads into locals, if-init bindings and splitting a function into helpers.
//
// Canonical vocabulary:
//   - a parameter is `$<its type>` with package qualifiers and `*`/`[]` kept (`$CertValidationOpts`, `$[][]byte`);
//     the parameter of a helper stands for the (canonical) argument it is called with;
//   - a local assigned exactly once from a pure read (selectors, indexing, `*`, other names) is replaced by that read;
//     `x[0]` in such a position is written `$elem0` (the first element, whatever the slice is called);
//   - a local first defined from a call is `$<callee>` (`$ParseCertificate`, `$QueueLeaf`; further results `$callee#i`);
//     the results of a same-file helper stand for what its final `return` hands back;
//   - any other local is `$var(<canonical first right-hand side>)`; range variables are `$range(<canonical X>)#i`.

import (
	"fmt"
	"go/ast"
	"go/token"
	"regexp"
	"strconv"
	"strings"
)

type canonIf struct {
	cond    ast.Expr // canonical condition; negated when it is the else branch that returns the error
	orig    *ast.IfStmt
	errSide int // +1: body ends in an error return; -1: else does; 0: neither
	order   int
}

type canonAssign struct {
	lhs   []string // canonical names given to the left-hand sides ("" when not a plain local)
	rhs   []ast.Expr
	order int
	pc    []ast.Expr
}

type canonView struct {
	rel     string
	file    *ast.File
	ifs     []canonIf
	assigns []canonAssign
	lits    []*ast.CompositeLit // canonical composite literals
	stmts   []struct {
		src   string
		order int
	} // canonical source of every simple statement / condition / range expression, in order
	innerReturns []canonReturn           // returns inside inlined helpers (not exits of the function itself)
	stmtPc       [][]ast.Expr            // for each entry of stmts: the canonical conjuncts under which it is reached
	closures     map[string]*ast.FuncLit // local closures (`f := func(…) {…}`), inlined at their calls like same-file helpers
	n            int
	depth        int
	pc           []ast.Expr // canonical conjuncts under which the current statement is reached
	loopAt       []int      // len(pc) at the entry of each enclosing loop body
	returns      []canonReturn
	allReturns   []canonReturn // including those of inlined helpers
}

// canonReturn: a return statement, its canonical results and the condition under which it is reached — from the
// start of the function, and from the start of one iteration of the innermost enclosing loop.
type canonReturn struct {
	results []string
	pc      []ast.Expr
	loopPc  []ast.Expr
	inLoop  bool
	depth   int // 0: the function itself; >0: a helper it calls
}

type cenv struct {
	m     map[string]ast.Expr
	multi map[string]bool // assigned more than once / address taken: never an alias
}

func typeName(e ast.Expr) string { return "$" + strings.ReplaceAll(src(e), " ", "") }

// countAssigns marks locals that are assigned more than once (or incremented, or have their address taken).
func countAssigns(body *ast.BlockStmt) map[string]bool {
	cnt := map[string]int{}
	multi := map[string]bool{}
	ast.Inspect(body, func(n ast.Node) bool {
		switch x := n.(type) {
		case *ast.AssignStmt:
			// every `:=` makes a new variable (scopes are not tracked: same-named variables of different scopes all count as
			// single-assignment unless one of them is written again with `=`)
			for _, l := range x.Lhs {
				if id, ok := l.(*ast.Ident); ok && x.Tok != token.DEFINE {
					cnt[id.Name] += 2
				}
			}
		case *ast.IncDecStmt:
			if id, ok := x.X.(*ast.Ident); ok {
				cnt[id.Name] += 2
			}
		case *ast.UnaryExpr:
			if x.Op == token.AND {
				if id, ok := x.X.(*ast.Ident); ok {
					cnt[id.Name] += 2
				}
			}
		case *ast.RangeStmt:
			for _, l := range []ast.Expr{x.Key, x.Value} {
				if id, ok := l.(*ast.Ident); ok {
					cnt[id.Name] += 2
				}
			}
		}
		return true
	})
	for k, v := range cnt {
		if v > 1 {
			multi[k] = true
		}
	}
	return multi
}

func pureRead(e ast.Expr) bool {
	switch x := e.(type) {
	case *ast.Ident:
		return true
	case *ast.SelectorExpr:
		return pureRead(x.X)
	case *ast.StarExpr:
		return pureRead(x.X)
	case *ast.ParenExpr:
		return pureRead(x.X)
	case *ast.IndexExpr:
		_, lit := x.Index.(*ast.BasicLit)
		return lit && pureRead(x.X)
	}
	return false
}

// canon substitutes canonical names (fresh nodes).
func (v *canonView) canon(env *cenv, e ast.Expr) ast.Expr {
	switch x := e.(type) {
	case nil:
		return nil
	case *ast.Ident:
		if a, ok := env.m[x.Name]; ok {
			return a
		}
		return x
	case *ast.SelectorExpr:
		return &ast.SelectorExpr{X: v.canon(env, x.X), Sel: x.Sel}
	case *ast.ParenExpr:
		return &ast.ParenExpr{X: v.canon(env, x.X)}
	case *ast.StarExpr:
		return &ast.StarExpr{X: v.canon(env, x.X)}
	case *ast.UnaryExpr:
		return &ast.UnaryExpr{Op: x.Op, X: v.canon(env, x.X)}
	case *ast.BinaryExpr:
		return &ast.BinaryExpr{X: v.canon(env, x.X), Op: x.Op, Y: v.canon(env, x.Y)}
	case *ast.IndexExpr:
		if src(x.Index) == "0" { // the first element, whatever the slice is called or wherever it is read
			return ast.NewIdent("$elem0")
		}
		return &ast.IndexExpr{X: v.canon(env, x.X), Index: v.canon(env, x.Index)}
	case *ast.SliceExpr:
		return &ast.SliceExpr{X: v.canon(env, x.X), Low: v.canon(env, x.Low), High: v.canon(env, x.High), Max: v.canon(env, x.Max), Slice3: x.Slice3}
	case *ast.CallExpr:
		args := make([]ast.Expr, len(x.Args))
		for i, a := range x.Args {
			args[i] = v.canon(env, a)
		}
		fun := x.Fun
		if sel, ok := fun.(*ast.SelectorExpr); ok {
			fun = &ast.SelectorExpr{X: v.canon(env, sel.X), Sel: sel.Sel}
		}
		return &ast.CallExpr{Fun: fun, Args: args, Ellipsis: x.Ellipsis}
	case *ast.KeyValueExpr:
		return &ast.KeyValueExpr{Key: x.Key, Value: v.canon(env, x.Value)}
	case *ast.CompositeLit:
		elts := make([]ast.Expr, len(x.Elts))
		for i, el := range x.Elts {
			elts[i] = v.canon(env, el)
		}
		return &ast.CompositeLit{Type: x.Type, Elts: elts}
	}
	return e
}

func calleeName(c *ast.CallExpr) string {
	switch f := c.Fun.(type) {
	case *ast.Ident:
		return f.Name
	case *ast.SelectorExpr:
		return f.Sel.Name
	}
	return "call"
}

func (v *canonView) helper(name string) *ast.FuncDecl {
	for _, d := range v.file.Decls {
		if fd, ok := d.(*ast.FuncDecl); ok && fd.Recv == nil && fd.Name.Name == name && fd.Body != nil {
			return fd
		}
	}
	return nil
}

func (v *canonView) note(n ast.Node) {
	v.n++
	v.stmts = append(v.stmts, struct {
		src   string
		order int
	}{norm(src(n)), v.n})
	v.stmtPc = append(v.stmtPc, append([]ast.Expr{}, v.pc...))
}

// inlineCalls walks e for calls of same-file helpers, processes their bodies (in order) and returns, for the outermost
// expression being such a call, the canonical results of the helper.
func (v *canonView) inlineCalls(env *cenv, e ast.Expr) []ast.Expr {
	var top []ast.Expr
	ast.Inspect(e, func(n ast.Node) bool {
		c, ok := n.(*ast.CallExpr)
		if !ok {
			return true
		}
		id, ok := c.Fun.(*ast.Ident)
		if !ok {
			return true
		}
		fd := v.helper(id.Name)
		if fd == nil {
			if fl, ok := v.closures[id.Name]; ok && fl.Body != nil {
				fd = &ast.FuncDecl{Name: id, Type: fl.Type, Body: fl.Body}
			}
		}
		if fd == nil || v.depth > 4 {
			return true
		}
		for _, a := range c.Args {
			v.inlineCalls(env, a)
		}
		henv := &cenv{m: map[string]ast.Expr{}, multi: countAssigns(fd.Body)}
		if _, isClosure := v.closures[id.Name]; isClosure && v.helper(id.Name) == nil {
			for k, val := range env.m { // a closure sees the variables of the function around it
				henv.m[k] = val
			}
		}
		i := 0
		for _, f := range fd.Type.Params.List {
			for _, nm := range f.Names {
				if i < len(c.Args) {
					henv.m[nm.Name] = v.canon(env, c.Args[i])
				}
				i++
			}
		}
		v.depth++
		v.block(henv, fd.Body.List)
		v.depth--
		var res []ast.Expr
		if len(fd.Body.List) > 0 {
			if r, ok := fd.Body.List[len(fd.Body.List)-1].(*ast.ReturnStmt); ok {
				for _, x := range r.Results {
					res = append(res, v.canon(henv, x))
				}
			}
		}
		if n == ast.Node(e) {
			top = res
		}
		return false
	})
	return top
}

func endsInErrorReturn(b []ast.Stmt) bool {
	if len(b) == 0 {
		return false
	}
	r, ok := b[len(b)-1].(*ast.ReturnStmt)
	if !ok || len(r.Results) == 0 {
		return false
	}
	last := src(r.Results[len(r.Results)-1])
	return last != "nil" && last != "true" && last != "false"
}

func (v *canonView) assign(env *cenv, x *ast.AssignStmt) {
	var helperRes []ast.Expr
	for _, r := range x.Rhs {
		if res := v.inlineCalls(env, r); res != nil && len(x.Rhs) == 1 {
			helperRes = res
		}
	}
	rec := canonAssign{order: v.n + 1, pc: append([]ast.Expr{}, v.pc...)}
	for _, r := range x.Rhs {
		rec.rhs = append(rec.rhs, v.canon(env, r))
	}
	for i, l := range x.Lhs {
		id, ok := l.(*ast.Ident)
		if !ok {
			rec.lhs = append(rec.lhs, "")
			continue
		}
		if id.Name == "_" || id.Name == "err" {
			rec.lhs = append(rec.lhs, id.Name)
			continue
		}
		if _, known := env.m[id.Name]; known && x.Tok != token.DEFINE {
			rec.lhs = append(rec.lhs, src(env.m[id.Name]))
			continue
		}
		var c ast.Expr
		switch {
		case helperRes != nil && i < len(helperRes) && src(helperRes[i]) != "nil":
			c = helperRes[i]
		case len(x.Rhs) == len(x.Lhs) && !env.multi[id.Name] && pureRead(x.Rhs[i]):
			c = v.canon(env, x.Rhs[i])
			if ix, ok := x.Rhs[i].(*ast.IndexExpr); ok && src(ix.Index) == "0" {
				c = ast.NewIdent("$elem0")
			}
		case len(x.Rhs) == 1 && isCall(x.Rhs[0]):
			nm := "$" + calleeName(x.Rhs[0].(*ast.CallExpr))
			if i > 0 {
				nm += fmt.Sprintf("#%d", i)
			}
			c = ast.NewIdent(nm)
		case len(x.Rhs) == len(x.Lhs) && isCall(x.Rhs[i]):
			c = ast.NewIdent("$" + calleeName(x.Rhs[i].(*ast.CallExpr)))
		case len(x.Rhs) == len(x.Lhs) && litType(x.Rhs[i]) != "":
			c = ast.NewIdent("$lit(" + litType(x.Rhs[i]) + ")")
		case len(x.Rhs) == len(x.Lhs):
			c = ast.NewIdent("$var(" + norm(src(v.canon(env, x.Rhs[i]))) + ")")
		default:
			c = ast.NewIdent("$var(" + id.Name + ")")
		}
		env.m[id.Name] = c
		rec.lhs = append(rec.lhs, src(c))
	}
	v.assigns = append(v.assigns, rec)
	v.note(&ast.AssignStmt{Lhs: x.Lhs, Tok: x.Tok, Rhs: rec.rhs})
}

// litType: the type of a composite literal (or of the address of one), "" otherwise.
func litType(e ast.Expr) string {
	if u, ok := e.(*ast.UnaryExpr); ok && u.Op == token.AND {
		e = u.X
	}
	if cl, ok := e.(*ast.CompositeLit); ok && cl.Type != nil {
		return norm(src(cl.Type))
	}
	return ""
}

func isCall(e ast.Expr) bool { _, ok := e.(*ast.CallExpr); return ok }

func (v *canonView) collectLits(e ast.Node) {
	ast.Inspect(e, func(n ast.Node) bool {
		if cl, ok := n.(*ast.CompositeLit); ok && cl.Type != nil {
			v.lits = append(v.lits, cl)
		}
		return true
	})
}

func (v *canonView) stmt(env *cenv, s ast.Stmt) {
	switch x := s.(type) {
	case *ast.AssignStmt:
		if len(x.Lhs) == 1 && len(x.Rhs) == 1 {
			if fl, ok := x.Rhs[0].(*ast.FuncLit); ok {
				if id, ok := x.Lhs[0].(*ast.Ident); ok {
					if v.closures == nil {
						v.closures = map[string]*ast.FuncLit{}
					}
					v.closures[id.Name] = fl // its body is looked at where it is called
					return
				}
			}
		}
		v.assign(env, x)
		for _, r := range v.assigns[len(v.assigns)-1].rhs {
			v.collectLits(r)
		}
	case *ast.DeclStmt:
		if gd, ok := x.Decl.(*ast.GenDecl); ok {
			for _, sp := range gd.Specs {
				if vs, ok := sp.(*ast.ValueSpec); ok {
					for _, n := range vs.Names {
						env.m[n.Name] = ast.NewIdent("$decl(" + norm(src(vs.Type)) + ")")
					}
				}
			}
		}
	case *ast.ExprStmt:
		v.inlineCalls(env, x.X)
		c := v.canon(env, x.X)
		v.collectLits(c)
		v.note(c)
	case *ast.ReturnStmt:
		rec := canonReturn{pc: append([]ast.Expr{}, v.pc...), inLoop: len(v.loopAt) > 0}
		if rec.inLoop {
			rec.loopPc = append([]ast.Expr{}, v.pc[v.loopAt[len(v.loopAt)-1]:]...)
		}
		for _, r := range x.Results {
			v.inlineCalls(env, r)
			c := v.canon(env, r)
			v.collectLits(c)
			rec.results = append(rec.results, norm(src(c)))
		}
		rec.depth = v.depth
		v.allReturns = append(v.allReturns, rec)
		if v.depth == 0 {
			v.returns = append(v.returns, rec)
		} else {
			v.innerReturns = append(v.innerReturns, rec) // a return of an inlined helper / closure: what it hands back, and when
		}
	case *ast.IfStmt:
		if x.Init != nil {
			v.stmt(env, x.Init)
		}
		v.inlineCalls(env, x.Cond)
		c := v.canon(env, x.Cond)
		rec := canonIf{cond: c, orig: x, order: v.n + 1}
		els := elseList(x.Else)
		switch {
		case endsInErrorReturn(x.Body.List):
			rec.errSide = 1
		case endsInErrorReturn(els):
			rec.errSide = -1
			rec.cond = &ast.UnaryExpr{Op: token.NOT, X: &ast.ParenExpr{X: c}}
		}
		v.ifs = append(v.ifs, rec)
		v.note(c)
		v.pc = append(v.pc, c)
		v.block(env, x.Body.List)
		v.pc = v.pc[:len(v.pc)-1]
		v.pc = append(v.pc, not(c))
		v.block(env, els)
		v.pc = v.pc[:len(v.pc)-1]
		switch tb, te := terminates(x.Body.List), terminates(els); {
		case tb && !te:
			v.pc = append(v.pc, not(c))
		case te && !tb:
			v.pc = append(v.pc, c)
		}
	case *ast.ForStmt:
		if x.Init != nil {
			v.stmt(env, x.Init)
		}
		if x.Cond != nil {
			v.note(v.canon(env, x.Cond))
		}
		v.loopAt = append(v.loopAt, len(v.pc))
		v.block(env, x.Body.List)
		v.loopAt = v.loopAt[:len(v.loopAt)-1]
	case *ast.RangeStmt:
		v.inlineCalls(env, x.X)
		cx := v.canon(env, x.X)
		for i, l := range []ast.Expr{x.Key, x.Value} {
			if id, ok := l.(*ast.Ident); ok && id.Name != "_" {
				env.m[id.Name] = ast.NewIdent(fmt.Sprintf("$range(%s)#%d", norm(src(cx)), i))
			}
		}
		v.note(cx)
		v.loopAt = append(v.loopAt, len(v.pc))
		v.block(env, x.Body.List)
		v.loopAt = v.loopAt[:len(v.loopAt)-1]
	case *ast.SwitchStmt:
		if x.Init != nil {
			v.stmt(env, x.Init)
		}
		var tag ast.Expr
		if x.Tag != nil {
			tag = v.canon(env, x.Tag)
			v.note(tag)
		}
		var prior, fallOut []ast.Expr // conditions of the earlier cases; negations to add after the switch
		var def *ast.CaseClause
		for _, c := range x.Body.List {
			cc := c.(*ast.CaseClause)
			if cc.List == nil {
				def = cc
				continue
			}
			var alts []ast.Expr
			for _, e := range cc.List {
				ce := v.canon(env, e)
				v.note(ce)
				if tag != nil {
					ce = &ast.BinaryExpr{X: tag, Op: token.EQL, Y: ce}
				}
				alts = append(alts, ce)
			}
			cond := orAll(alts)
			keep := len(v.pc)
			for _, p := range prior {
				v.pc = append(v.pc, not(p))
			}
			v.pc = append(v.pc, cond)
			v.block(env, cc.Body)
			v.pc = v.pc[:keep:keep]
			prior = append(prior, cond)
			if terminates(cc.Body) {
				fallOut = append(fallOut, not(cond))
			}
		}
		if def != nil {
			keep := len(v.pc)
			for _, p := range prior {
				v.pc = append(v.pc, not(p))
			}
			v.block(env, def.Body)
			v.pc = v.pc[:keep:keep]
			if terminates(def.Body) {
				fallOut = append(fallOut, orAll(prior))
			}
		}
		v.pc = append(v.pc, fallOut...)
	case *ast.BlockStmt:
		v.block(env, x.List)
	}
}

func (v *canonView) block(env *cenv, b []ast.Stmt) {
	keep := len(v.pc)
	for _, s := range b {
		v.stmt(env, s)
	}
	v.pc = v.pc[:keep:keep]
}

func not(e ast.Expr) ast.Expr { return &ast.UnaryExpr{Op: token.NOT, X: &ast.ParenExpr{X: e}} }

func orAll(es []ast.Expr) ast.Expr {
	var r ast.Expr
	for _, e := range es {
		if r == nil {
			r = e
		} else {
			r = &ast.BinaryExpr{X: r, Op: token.LOR, Y: e}
		}
	}
	if r == nil {
		return ast.NewIdent("false")
	}
	return &ast.ParenExpr{X: r}
}

// terminates: control never falls out of the end of b (return, continue, break, goto, panic).
func terminates(b []ast.Stmt) bool {
	if len(b) == 0 {
		return false
	}
	switch x := b[len(b)-1].(type) {
	case *ast.ReturnStmt, *ast.BranchStmt:
		return true
	case *ast.ExprStmt:
		return callName(x.X) == "panic"
	case *ast.IfStmt:
		return x.Else != nil && terminates(x.Body.List) && terminates(elseList(x.Else))
	case *ast.BlockStmt:
		return terminates(x.List)
	}
	return false
}

var canonCache = map[string]*canonView{}

// canonOf builds (once) the canonical view of fn in rel.
func canonOf(rel, fn string) *canonView {
	if v, ok := canonCache[rel+"#"+fn]; ok {
		return v
	}
	fd := mustFunc(rel, fn)
	v := &canonView{rel: rel, file: parseFile(rp(rel))}
	env := &cenv{m: map[string]ast.Expr{}, multi: countAssigns(fd.Body)}
	if fd.Recv != nil {
		for _, f := range fd.Recv.List {
			for _, n := range f.Names {
				env.m[n.Name] = ast.NewIdent("$recv")
			}
		}
	}
	tcount, tseen := map[string]int{}, map[string]int{}
	for _, f := range fd.Type.Params.List {
		tcount[typeName(f.Type)] += len(f.Names)
	}
	for _, f := range fd.Type.Params.List {
		for _, n := range f.Names {
			tn := typeName(f.Type)
			if tcount[tn] > 1 { // several parameters of one type: numbered in declaration order
				k := tseen[tn]
				tseen[tn]++
				tn = fmt.Sprintf("%s#%d", tn, k)
			}
			env.m[n.Name] = ast.NewIdent(tn)
		}
	}
	v.block(env, fd.Body.List)
	canonCache[rel+"#"+fn] = v
	return v
}

func containsAll(s string, markers []string) bool {
	for _, m := range markers {
		if !strings.Contains(s, norm(m)) {
			return false
		}
	}
	return true
}

// semCond: the condition of the unique `if` (in fn or a helper it calls) whose canonical source contains every marker,
// oriented so that it is the condition under which the error return is taken.
func semCond(rel, fn string, markers []string, leanName, params string, sp Spec) func() string {
	return func() string {
		v := canonOf(rel, fn)
		var hits []canonIf
		for _, i := range v.ifs {
			if containsAll(norm(src(i.cond)), markers) {
				hits = append(hits, i)
			}
		}
		if len(hits) != 1 {
			panic(bail{fmt.Sprintf("%s: expected exactly one `if` whose canonical condition mentions %v in %s (and its helpers), found %d", rel, markers, fn, len(hits))})
		}
		t := &tr{sp: sp}
		return fmt.Sprintf("/-- generated from %s func %s: `if %s` (canonical: `%s`) -/\ndef %s %s : Bool :=\n  %s\n",
			rel, fn, src(hits[0].orig.Cond), src(hits[0].cond), leanName, params, t.expr(hits[0].cond))
	}
}

// semAssign: the right-hand side of the unique assignment whose canonical right-hand side contains every marker.
func semAssign(rel, fn string, markers []string, leanName, params, resultTy string, sp Spec) func() string {
	return func() string {
		v := canonOf(rel, fn)
		var hits []ast.Expr
		for _, a := range v.assigns {
			for _, r := range a.rhs {
				if containsAll(norm(src(r)), markers) {
					hits = append(hits, r)
				}
			}
		}
		if len(hits) != 1 {
			panic(bail{fmt.Sprintf("%s: expected exactly one assignment whose canonical right-hand side mentions %v in %s, found %d", rel, markers, fn, len(hits))})
		}
		t := &tr{sp: sp}
		return fmt.Sprintf("/-- generated from %s func %s: canonical `%s` -/\ndef %s %s : %s :=\n  %s\n", rel, fn, src(hits[0]), leanName, params, resultTy, t.expr(hits[0]))
	}
}

// semOrder: the names of the markers in the order of their first occurrence in the canonical statement sequence.
func semOrder(rel, fn, leanName string, markers [][2]string) func() string {
	return func() string {
		v := canonOf(rel, fn)
		type hit struct {
			order int
			name  string
		}
		var hits []hit
		for _, m := range markers {
			best := -1
			for _, s := range v.stmts {
				if strings.Contains(s.src, norm(m[1])) {
					best = s.order
					break
				}
			}
			if best < 0 {
				panic(bail{fmt.Sprintf("%s: %s (with its helpers) no longer contains a check mentioning %q (canonical vocabulary)", rel, fn, m[1])})
			}
			hits = append(hits, hit{best, m[0]})
		}
		for i := 1; i < len(hits); i++ {
			for j := i; j > 0 && hits[j].order < hits[j-1].order; j-- {
				hits[j], hits[j-1] = hits[j-1], hits[j]
			}
		}
		var names []string
		for _, h := range hits {
			names = append(names, fmt.Sprintf("%q", h.name))
		}
		return fmt.Sprintf("/-- generated from %s func %s (and the same-file helpers it calls): the checks in execution order -/\ndef %s : List String :=\n  [%s]\n", rel, fn, leanName, strings.Join(names, ", "))
	}
}

// semLiteralFlags: like literalFlags, over the canonical view (the literal may sit in a helper).
func semLiteralFlags(rel, fn, typ, leanName string) func() string {
	return func() string {
		v := canonOf(rel, fn)
		var lits []*ast.CompositeLit
		for _, cl := range v.lits {
			if src(cl.Type) == typ {
				lits = append(lits, cl)
			}
		}
		if len(lits) != 1 {
			panic(bail{fmt.Sprintf("%s: expected exactly one %s literal in %s (and its helpers), found %d", rel, typ, fn, len(lits))})
		}
		var flags, others []string
		for _, e := range lits[0].Elts {
			kv, ok := e.(*ast.KeyValueExpr)
			if !ok {
				panic(bail{fmt.Sprintf("%s: positional field in %s literal", rel, typ)})
			}
			switch val := src(kv.Value); val {
			case "true", "false":
				flags = append(flags, fmt.Sprintf("(%q, %s)", src(kv.Key), val))
			default:
				others = append(others, fmt.Sprintf("(%q, %q)", src(kv.Key), norm(val)))
			}
		}
		sortStrings(flags)
		sortStrings(others)
		return fmt.Sprintf("/-- generated from %s func %s: boolean fields of the %s literal (sorted by name) -/\ndef %sFlags : List (String × Bool) :=\n  [%s]\n/-- the remaining fields of the literal and their canonical source expressions -/\ndef %sFields : List (String × String) :=\n  [%s]\n",
			rel, fn, typ, leanName, strings.Join(flags, ", "), leanName, strings.Join(others, ", "))
	}
}

func sortStrings(s []string) {
	for i := 1; i < len(s); i++ {
		for j := i; j > 0 && s[j] < s[j-1]; j-- {
			s[j], s[j-1] = s[j-1], s[j]
		}
	}
}

// semReach: the condition under which the unique return statement selected by `pick` is reached — from the start of
// the function (scope "func") or of one iteration of the innermost loop around it (scope "loop") — as the conjunction of
// the canonical branch conditions on the way (conditions of earlier branches that leave are negated).  With `only`, just
// the conjuncts mentioning one of those markers are kept (the others are earlier, unrelated checks).
func semReach(rel, fn, scope string, pick func(r canonReturn) bool, only []string, leanName, params string, sp Spec) func() string {
	return func() string {
		v := canonOf(rel, fn)
		var hits []canonReturn
		for _, r := range v.returns {
			if pick(r) {
				hits = append(hits, r)
			}
		}
		if len(hits) == 0 { // the return may have moved into a same-file helper: its path condition continues the caller's
			for _, r := range v.innerReturns {
				if pick(r) {
					hits = append(hits, r)
				}
			}
		}
		if len(hits) != 1 {
			panic(bail{fmt.Sprintf("%s: expected exactly one matching return in %s, found %d", rel, fn, len(hits))})
		}
		pc := hits[0].pc
		if scope == "loop" {
			pc = hits[0].loopPc
		}
		t := &tr{sp: sp}
		var parts, shown []string
		for _, c := range pc {
			cs := norm(src(c))
			if len(only) > 0 {
				keep := false
				for _, m := range only {
					if strings.Contains(cs, norm(m)) {
						keep = true
					}
				}
				if !keep {
					continue
				}
			}
			tt := t.expr(c)
			shown = append(shown, src(c))
			if tt != "true" {
				parts = append(parts, tt)
			}
		}
		body := "true"
		if len(parts) > 0 {
			body = "(" + strings.Join(parts, " && ") + ")"
		}
		return fmt.Sprintf("/-- generated from %s func %s: the condition under which `return %s` is reached (canonical branch conditions: %s) -/\ndef %s %s : Bool :=\n  %s\n",
			rel, fn, strings.Join(hits[0].results, ", "), strings.Join(shown, "  &&  "), leanName, params, body)
	}
}

// semStmtFact: the first capture group of `pattern` (a regular expression over the space-free canonical source of the
// statements of fn and its helpers); it must match exactly one statement.
func semStmtFact(rel, fn, pattern, leanName string) func() string {
	return func() string {
		v := canonOf(rel, fn)
		re := regexp.MustCompile(pattern)
		var got []string
		for _, s := range v.stmts {
			if m := re.FindStringSubmatch(s.src); m != nil {
				got = append(got, m[1])
			}
		}
		if len(got) != 1 {
			panic(bail{fmt.Sprintf("%s: `%s` matches %d canonical statements of %s, expected one", rel, pattern, len(got), fn)})
		}
		return fmt.Sprintf("/-- generated from %s func %s: canonical `%s` -/\ndef %s : String := %q\n", rel, fn, pattern, leanName, got[0])
	}
}

// semConstChoice: a two-valued choice made by a Bool.  `whenTrue` and `whenFalse` are source constants that each occur exactly
// once as an assigned or returned value in fn (and its helpers); the result is `if <condition under which whenTrue is the
// value> then A else B`, the condition being the reach condition of that occurrence restricted to the conjuncts that mention
// `cond` (canonical name of the deciding Bool).
func semConstChoice(rel, fn, cond, whenTrue, whenFalse, leanName, leanTrue, leanFalse string) func() string {
	return func() string {
		v := canonOf(rel, fn)
		find := func(c string) [][]ast.Expr {
			var pcs [][]ast.Expr
			for _, a := range v.assigns {
				for _, r := range a.rhs {
					if norm(src(r)) == norm(c) {
						pcs = append(pcs, a.pc)
					}
				}
			}
			for _, r := range v.allReturns {
				for _, x := range r.results {
					if x == norm(c) {
						pcs = append(pcs, r.pc)
					}
				}
			}
			return pcs
		}
		pt, pf := find(whenTrue), find(whenFalse)
		if len(pt) != 1 || len(pf) != 1 {
			panic(bail{fmt.Sprintf("%s: %s / %s occur %d / %d times as a value in %s, expected once each", rel, whenTrue, whenFalse, len(pt), len(pf), fn)})
		}
		t := &tr{sp: Spec{Kind: "i64", Repl: map[string]string{cond: "c"}}}
		var parts []string
		for _, c := range pt[0] {
			if strings.Contains(norm(src(c)), norm(cond)) {
				parts = append(parts, t.expr(c))
			}
		}
		if len(parts) == 0 {
			panic(bail{fmt.Sprintf("%s: %s is not chosen under a condition on %s in %s", rel, whenTrue, cond, fn)})
		}
		return fmt.Sprintf("/-- generated from %s func %s: `%s` when %s, `%s` otherwise -/\ndef %s (c : Bool) : Int :=\n  if %s then %s else %s\n",
			rel, fn, whenTrue, cond, whenFalse, leanName, strings.Join(parts, " && "), leanTrue, leanFalse)
	}
}

// semKeyValues: every `Key: value` of the composite literals of fn and its helpers, values in canonical form.
func semKeyValues(rel, fn, leanName string) func() string {
	return func() string {
		v := canonOf(rel, fn)
		var rows []string
		seen := map[*ast.CompositeLit]bool{}
		for _, cl := range v.lits {
			if seen[cl] {
				continue
			}
			seen[cl] = true
			for _, e := range cl.Elts {
				if kv, ok := e.(*ast.KeyValueExpr); ok {
					if _, isLit := kv.Value.(*ast.CompositeLit); !isLit {
						rows = append(rows, fmt.Sprintf("(%q, %q)", src(kv.Key), norm(src(kv.Value))))
					}
				}
			}
		}
		return fmt.Sprintf("/-- generated from %s func %s (and its helpers): the fields of its composite literals, values in canonical form -/\ndef %s : List (String × String) :=\n  [%s]\n",
			rel, fn, leanName, strings.Join(rows, ", "))
	}
}

// semAssignReach: the condition (restricted to the conjuncts mentioning `only`) under which the unique assignment whose
// canonical, space-free source contains every marker is executed.
func semAssignReach(rel, fn string, markers, only []string, leanName, params string, sp Spec) func() string {
	return func() string {
		v := canonOf(rel, fn)
		var hits []canonAssign
		for _, a := range v.assigns {
			var parts []string
			for _, r := range a.rhs {
				parts = append(parts, norm(src(r)))
			}
			if containsAll("="+strings.Join(parts, ","), markers) {
				hits = append(hits, a)
			}
		}
		for _, r := range v.allReturns { // `x = f(…)` may have become `return f(…)` of a helper
			if containsAll("="+strings.Join(r.results, ","), markers) {
				hits = append(hits, canonAssign{pc: r.pc})
			}
		}
		if len(hits) != 1 {
			panic(bail{fmt.Sprintf("%s: expected exactly one assignment matching %v in %s, found %d", rel, markers, fn, len(hits))})
		}
		t := &tr{sp: sp}
		var parts []string
		for _, c := range hits[0].pc {
			cs := norm(src(c))
			for _, m := range only {
				if strings.Contains(cs, norm(m)) {
					parts = append(parts, t.expr(c))
					break
				}
			}
		}
		body := "true"
		if len(parts) > 0 {
			body = "(" + strings.Join(parts, " && ") + ")"
		}
		return fmt.Sprintf("/-- generated from %s func %s: the condition under which the assignment matching %v is executed -/\ndef %s %s : Bool :=\n  %s\n", rel, fn, markers, leanName, params, body)
	}
}

// semAssignFact: `pattern` (a regular expression) is matched against the canonical form `lhs,…=rhs,…` of every assignment of
// fn and its helpers; exactly `total` assignments must match, and the first capture group of the nth (in execution order) is
// emitted — as a Nat (asNat) or as a string.  Canonical names do not depend on what the locals are called.
func semAssignFact(rel, fn, pattern string, nth, total int, asNat bool, leanName string) func() string {
	return func() string {
		v := canonOf(rel, fn)
		re := regexp.MustCompile(pattern)
		var caps []string
		for _, a := range v.assigns {
			var rhs []string
			for _, r := range a.rhs {
				rhs = append(rhs, norm(src(r)))
			}
			if m := re.FindStringSubmatch(strings.Join(a.lhs, ",") + "=" + strings.Join(rhs, ",")); m != nil {
				caps = append(caps, m[1])
			}
		}
		if len(caps) != total {
			panic(bail{fmt.Sprintf("%s: `%s` matches %d canonical assignments of %s (with its helpers), expected %d", rel, pattern, len(caps), fn, total)})
		}
		doc := fmt.Sprintf("/-- generated from %s func %s (and its helpers): match %d of %d of `%s` over the canonical assignments -/\n", rel, fn, nth+1, total, pattern)
		if asNat {
			n, err := strconv.Atoi(caps[nth])
			if err != nil {
				panic(bail{fmt.Sprintf("%s: capture %q of `%s` is not a number", rel, caps[nth], pattern)})
			}
			return doc + fmt.Sprintf("def %s : Nat := %d\n", leanName, n)
		}
		return doc + fmt.Sprintf("def %s : String := %s\n", leanName, strconv.Quote(caps[nth]))
	}
}
