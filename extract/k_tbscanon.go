package main

// C03: a canonical, path-wise description of removeExtension / BuildPrecertTBS and of the two leaf builders' calls into x509,
// invariant under renaming of locals and parameters, hoisting of pure reads into locals or named constants, extraction of
// same-file helper functions (parse / marshal / "first extension with this OID" / "has this key usage") and restructuring of the
// control flow (if/else ↔ early return ↔ tagless switch, `else if` split, `if !m { continue }`).
//
// The function is executed symbolically: every feasible path is a set of (simplified) conditions, the sequence of effects on the
// `tbsCertificate` value executed on it, and how it ends (error / the returned expression). Locals are replaced by what they stand
// for on that path (flow-sensitive environment); search loops and search helpers are summarised as `FIRST(collection;key;what;default)`.
// The unit emits the sorted list of paths. An additional write to the TBS, a dropped one, one moved under another condition or after
// the marshal, another argument to a call — all change the list; the shape of the code does not.

import (
	"fmt"
	"go/ast"
	"go/token"
	"sort"
	"strings"
)

type lit struct {
	l, op, r string // comparison; op "" = boolean atom l, op "!" = negated atom
}

func (x lit) String() string {
	switch x.op {
	case "":
		return x.l
	case "!":
		return "!" + x.l
	}
	return x.l + " " + x.op + " " + x.r
}

var negOp = map[string]string{"==": "!=", "!=": "==", "<": ">=", ">=": "<", ">": "<=", "<=": ">", "": "!", "!": ""}

func (x lit) neg() lit { return lit{x.l, negOp[x.op], x.r} }

// truth of a literal between constants: 1 true, -1 false, 0 unknown
func (x lit) constant() int {
	isNonNil := func(s string) bool { return s == "NONNIL" }
	switch {
	case x.op == "!=" && x.l == "nil" && x.r == "nil":
		return -1
	case x.op == "==" && x.l == "nil" && x.r == "nil":
		return 1
	case x.op == "!=" && isNonNil(x.l) && x.r == "nil":
		return 1
	case x.op == "==" && isNonNil(x.l) && x.r == "nil":
		return -1
	case x.op == "" && x.l == "true", x.op == "!" && x.l == "false":
		return 1
	case x.op == "" && x.l == "false", x.op == "!" && x.l == "true":
		return -1
	}
	return 0
}

type clause []lit // disjunction

type pstate struct {
	conds   []clause
	effects []string
	env     map[string]string
	done    string // "" running, "error", "return <expr>", "continue", "break"
}

func (s *pstate) fork() *pstate {
	n := &pstate{conds: append([]clause{}, s.conds...), effects: append([]string{}, s.effects...), env: map[string]string{}, done: s.done}
	for k, v := range s.env {
		n.env[k] = v
	}
	return n
}

type canonizer struct {
	file    *ast.File
	keep    map[string]bool // same-file functions that are NOT inlined (they have their own unit)
	tbsType string
	depth   int
}

// ---- expressions

func (c *canonizer) expr(e ast.Expr, env map[string]string) string {
	switch x := e.(type) {
	case *ast.Ident:
		if v, ok := env[x.Name]; ok {
			return v
		}
		return x.Name
	case *ast.BasicLit:
		return x.Value
	case *ast.ParenExpr:
		return c.expr(x.X, env)
	case *ast.SelectorExpr:
		return c.expr(x.X, env) + "." + x.Sel.Name
	case *ast.IndexExpr:
		return c.expr(x.X, env) + "[" + c.expr(x.Index, env) + "]"
	case *ast.SliceExpr:
		lo, hi := "", ""
		if x.Low != nil {
			lo = c.expr(x.Low, env)
		}
		if x.High != nil {
			hi = c.expr(x.High, env)
		}
		return c.expr(x.X, env) + "[" + lo + ":" + hi + "]"
	case *ast.StarExpr:
		return "*" + c.expr(x.X, env)
	case *ast.UnaryExpr:
		if x.Op == token.SUB {
			return "-" + c.expr(x.X, env)
		}
		return x.Op.String() + c.expr(x.X, env)
	case *ast.BinaryExpr:
		return c.expr(x.X, env) + x.Op.String() + c.expr(x.Y, env)
	case *ast.CallExpr:
		if id, ok := x.Fun.(*ast.Ident); ok {
			if fd := findFunc(c.file, id.Name); fd != nil && !c.keep[id.Name] {
				if s, ok := c.searchHelper(fd, x.Args, env); ok {
					return s
				}
			}
		}
		var as []string
		for _, a := range x.Args {
			as = append(as, c.expr(a, env))
		}
		ell := ""
		if x.Ellipsis.IsValid() {
			ell = "..."
		}
		return c.expr(x.Fun, env) + "(" + strings.Join(as, ",") + ell + ")"
	case *ast.CompositeLit:
		var fs []string
		for _, el := range x.Elts {
			if kv, ok := el.(*ast.KeyValueExpr); ok {
				fs = append(fs, src(kv.Key)+":"+c.expr(kv.Value, env))
			} else {
				fs = append(fs, c.expr(el, env))
			}
		}
		sort.Strings(fs)
		return src(x.Type) + "{" + strings.Join(fs, ",") + "}"
	}
	return src(e)
}

// match test of a search: `<elem>.Id.Equal(K)` or `<elem> == K`; returns the key
func (c *canonizer) matchKey(cond ast.Expr, elem string, env map[string]string) (string, bool) {
	switch x := cond.(type) {
	case *ast.CallExpr:
		if sel, ok := x.Fun.(*ast.SelectorExpr); ok && sel.Sel.Name == "Equal" && len(x.Args) == 1 {
			if in, ok := sel.X.(*ast.SelectorExpr); ok && in.Sel.Name == "Id" {
				if id, ok := in.X.(*ast.Ident); ok && id.Name == elem {
					return "Id.Equal:" + c.expr(x.Args[0], env), true
				}
			}
		}
	case *ast.BinaryExpr:
		if id, ok := x.X.(*ast.Ident); ok && x.Op == token.EQL && id.Name == elem {
			return "==:" + c.expr(x.Y, env), true
		}
	}
	return "", false
}

func identName(e ast.Expr) string {
	if id, ok := e.(*ast.Ident); ok {
		return id.Name
	}
	return ""
}

// what a search yields, relative to the loop variables
func (c *canonizer) yield(e ast.Expr, key, elem string) (string, bool) {
	switch x := e.(type) {
	case *ast.Ident:
		if x.Name == key && key != "_" {
			return "index", true
		}
		if x.Name == "true" {
			return "true", true
		}
	case *ast.SelectorExpr:
		if identName(x.X) == elem {
			return "elem." + x.Sel.Name, true
		}
	}
	return "", false
}

// searchLoop: `for k, e := range C { if MATCH { <action>; break|return } }` with a single action.
// Returns collection, key, and the action statement.
func (c *canonizer) searchLoop(r *ast.RangeStmt, env map[string]string) (coll, mkey, k, e string, action ast.Stmt, ok bool) {
	if len(r.Body.List) != 1 {
		return
	}
	is, isIf := r.Body.List[0].(*ast.IfStmt)
	if !isIf || is.Else != nil || is.Init != nil {
		return
	}
	k, e = identName(r.Key), identName(r.Value)
	mk, okm := c.matchKey(is.Cond, e, env)
	if !okm {
		return
	}
	b := is.Body.List
	switch {
	case len(b) == 1:
		if _, isRet := b[0].(*ast.ReturnStmt); isRet {
			return c.expr(r.X, env), mk, k, e, b[0], true
		}
	case len(b) == 2:
		if br, isBr := b[1].(*ast.BranchStmt); isBr && br.Tok == token.BREAK {
			return c.expr(r.X, env), mk, k, e, b[0], true
		}
	}
	return
}

// searchHelper: a function whose body is `for … { if MATCH { return V } }; return D`, called with args.
func (c *canonizer) searchHelper(fd *ast.FuncDecl, args []ast.Expr, env map[string]string) (string, bool) {
	if fd.Body == nil || len(fd.Body.List) != 2 {
		return "", false
	}
	r, ok1 := fd.Body.List[0].(*ast.RangeStmt)
	last, ok2 := fd.Body.List[1].(*ast.ReturnStmt)
	if !ok1 || !ok2 || len(last.Results) != 1 {
		return "", false
	}
	henv := map[string]string{}
	i := 0
	for _, f := range fd.Type.Params.List {
		for _, n := range f.Names {
			if i < len(args) {
				henv[n.Name] = c.expr(args[i], env)
			}
			i++
		}
	}
	coll, mk, k, e, act, ok := c.searchLoop(r, henv)
	if !ok {
		return "", false
	}
	ret, isRet := act.(*ast.ReturnStmt)
	if !isRet || len(ret.Results) != 1 {
		return "", false
	}
	y, ok := c.yield(ret.Results[0], k, e)
	if !ok {
		return "", false
	}
	return fmt.Sprintf("FIRST(%s;%s;%s;%s)", coll, mk, y, c.expr(last.Results[0], henv)), true
}

// ---- conditions

func (c *canonizer) lits(e ast.Expr, neg bool, env map[string]string) []clause {
	switch x := e.(type) {
	case *ast.ParenExpr:
		return c.lits(x.X, neg, env)
	case *ast.UnaryExpr:
		if x.Op == token.NOT {
			return c.lits(x.X, !neg, env)
		}
	case *ast.BinaryExpr:
		switch x.Op {
		case token.LAND, token.LOR:
			conj := (x.Op == token.LAND) != neg // after pushing the negation in: a conjunction?
			a, b := c.lits(x.X, neg, env), c.lits(x.Y, neg, env)
			if conj {
				return append(a, b...)
			}
			if len(a) == 1 && len(b) == 1 {
				return []clause{append(append(clause{}, a[0]...), b[0]...)}
			}
			l := lit{l: "(" + c.expr(e, env) + ")"}
			if neg {
				l = l.neg()
			}
			return []clause{{l}}
		case token.EQL, token.NEQ, token.LSS, token.GTR, token.LEQ, token.GEQ:
			l := lit{c.expr(x.X, env), x.Op.String(), c.expr(x.Y, env)}
			// equivalent spellings of the two tests on an index that is -1 when nothing was found, and of "is empty"
			if l.r == "-1" && (strings.HasPrefix(l.l, "ACC(-1)") || strings.HasSuffix(l.l, ";index;-1)")) {
				switch l.op {
				case "!=", ">":
					l = lit{l.l, ">=", "0"}
				case "==", "<=":
					l = lit{l.l, "<", "0"}
				}
			}
			if l.r == "0" && strings.HasPrefix(l.l, "len(") {
				switch l.op {
				case "!=":
					l.op = ">"
				case "==":
					l.op = "<="
				}
			}
			if neg {
				l = l.neg()
			}
			return []clause{{l}}
		}
	}
	l := lit{l: c.expr(e, env)}
	if neg {
		l = l.neg()
	}
	return []clause{{l}}
}

// simplify: unit propagation; returns nil, false when contradictory
func simplify(cs []clause) ([]clause, bool) {
	for {
		units := map[string]bool{}
		for _, cl := range cs {
			if len(cl) == 1 {
				units[cl[0].String()] = true
			}
		}
		changed := false
		var out []clause
		seen := map[string]bool{}
		for _, cl := range cs {
			var n clause
			sat := false
			for _, l := range cl {
				switch l.constant() {
				case 1:
					sat = true
				case -1:
					changed = true
					continue
				}
				if len(cl) > 1 && units[l.String()] {
					sat = true
				}
				if units[l.neg().String()] {
					changed = true
					continue
				}
				n = append(n, l)
			}
			if sat {
				if len(cl) > 1 {
					changed = true
				}
				continue
			}
			if len(n) == 0 {
				return nil, false
			}
			var ss []string
			for _, l := range n {
				ss = append(ss, l.String())
			}
			sort.Strings(ss)
			key := strings.Join(ss, " | ")
			if !seen[key] {
				seen[key] = true
				out = append(out, n)
			}
		}
		cs = out
		if !changed {
			return cs, true
		}
	}
}

func condString(cs []clause) string {
	var ss []string
	for _, cl := range cs {
		var ls []string
		for _, l := range cl {
			ls = append(ls, l.String())
		}
		sort.Strings(ls)
		ss = append(ss, strings.Join(ls, " | "))
	}
	sort.Strings(ss)
	return strings.Join(ss, " & ")
}

// ---- statements

func (c *canonizer) isTbs(e ast.Expr, env map[string]string) bool {
	for {
		switch x := e.(type) {
		case *ast.Ident:
			return env[x.Name] == "tbs"
		case *ast.SelectorExpr:
			e = x.X
		case *ast.IndexExpr:
			e = x.X
		case *ast.SliceExpr:
			e = x.X
		case *ast.ParenExpr:
			e = x.X
		default:
			return false
		}
	}
}

func (c *canonizer) block(stmts []ast.Stmt, in []*pstate) []*pstate {
	cur := in
	for _, st := range stmts {
		var next []*pstate
		for _, s := range cur {
			if s.done != "" {
				next = append(next, s)
				continue
			}
			next = append(next, c.stmt(st, s)...)
		}
		cur = next
	}
	return cur
}

func (c *canonizer) withCond(s *pstate, cls []clause) *pstate {
	n := s.fork()
	n.conds = append(n.conds, cls...)
	sc, ok := simplify(n.conds)
	if !ok {
		return nil
	}
	n.conds = sc
	return n
}

// inline a same-file helper: returns the states after the call with `bind(state, results)` applied to each returning path
func (c *canonizer) inline(fd *ast.FuncDecl, args []ast.Expr, s *pstate, bind func(s *pstate, results []string)) []*pstate {
	if c.depth > 3 {
		s.effects = append(s.effects, "?deep "+fd.Name.Name)
		return []*pstate{s}
	}
	h := s.fork()
	h.env = map[string]string{}
	i := 0
	for _, f := range fd.Type.Params.List {
		for _, n := range f.Names {
			if i < len(args) {
				h.env[n.Name] = c.expr(args[i], s.env)
			}
			i++
		}
	}
	c.depth++
	outs := c.block(fd.Body.List, []*pstate{h})
	c.depth--
	var res []*pstate
	for _, o := range outs {
		n := o.fork()
		n.env = map[string]string{}
		for k, v := range s.env {
			n.env[k] = v
		}
		switch {
		case o.done == "error":
			n.done = ""
			nres := 2
			if fd.Type.Results != nil {
				nres = 0
				for _, f := range fd.Type.Results.List {
					if len(f.Names) == 0 {
						nres++
					} else {
						nres += len(f.Names)
					}
				}
			}
			er := make([]string, nres)
			if nres > 0 {
				er[nres-1] = "NONNIL"
			}
			bind(n, er)
		case strings.HasPrefix(o.done, "return "):
			n.done = ""
			bind(n, append(strings.Split(strings.TrimPrefix(o.done, "return "), "\x00"), "nil"))
		default:
			n.done = ""
			bind(n, nil)
		}
		res = append(res, n)
	}
	return res
}

func (c *canonizer) helperOf(e ast.Expr) (*ast.FuncDecl, *ast.CallExpr) {
	call, ok := e.(*ast.CallExpr)
	if !ok {
		return nil, nil
	}
	id, ok := call.Fun.(*ast.Ident)
	if !ok || c.keep[id.Name] {
		return nil, nil
	}
	fd := findFunc(c.file, id.Name)
	if fd == nil || fd.Body == nil || fd.Recv != nil {
		return nil, nil
	}
	if _, isSearch := c.searchHelper(fd, call.Args, map[string]string{}); isSearch {
		return nil, nil
	}
	return fd, call
}

func (c *canonizer) assign(lhs []ast.Expr, rhs []ast.Expr, s *pstate) []*pstate {
	// helper call with several results
	if len(rhs) == 1 {
		if fd, call := c.helperOf(rhs[0]); fd != nil {
			return c.inline(fd, call.Args, s, func(n *pstate, results []string) {
				for i, l := range lhs {
					if id := identName(l); id != "" && id != "_" && i < len(results) {
						n.env[id] = results[i]
						if fd.Type.Results != nil && i < len(fd.Type.Results.List) && src(fd.Type.Results.List[i].Type) == c.tbsType {
							n.env[id] = "tbs"
						}
					}
				}
			})
		}
		if call, ok := rhs[0].(*ast.CallExpr); ok && len(lhs) == 2 {
			callee := src(call.Fun)
			val := c.expr(rhs[0], s.env)
			for _, a := range call.Args {
				if u, ok := a.(*ast.UnaryExpr); ok && u.Op == token.AND && c.isTbs(u.X, s.env) {
					// asn1.Unmarshal(x, &tbs)
					val = callee + "(" + c.expr(call.Args[0], s.env) + ")"
					s.effects = append(s.effects, "tbs <- "+val)
				}
			}
			for _, a := range call.Args {
				if c.isTbs(a, s.env) && identName(a) != "" {
					s.effects = append(s.effects, "use "+callee+"(tbs)")
					val = callee + "(tbs)"
				}
			}
			if id := identName(lhs[0]); id != "" && id != "_" {
				s.env[id] = val
				if val != callee+"(tbs)" && strings.Contains(val, "(") && !strings.HasPrefix(val, "FIRST(") {
					s.env[id] = "RES0 " + val
				}
			}
			if id := identName(lhs[1]); id != "" && id != "_" {
				s.env[id] = "ERR " + val
			}
			return []*pstate{s}
		}
	}
	for i, l := range lhs {
		if i >= len(rhs) {
			break
		}
		if c.isTbs(l, s.env) && identName(l) == "" {
			s.effects = append(s.effects, c.expr(l, s.env)+" = "+c.expr(rhs[i], s.env))
			continue
		}
		if id := identName(l); id != "" {
			if id == "_" {
				continue
			}
			v := c.expr(rhs[i], s.env)
			if cur, ok := s.env[id]; ok && strings.HasPrefix(cur, "ACC(") {
				s.effects = append(s.effects, cur+" = "+v) // an accumulator written inside a loop
				continue
			}
			s.env[id] = v
			continue
		}
		s.effects = append(s.effects, "? "+c.expr(l, s.env)+" = "+c.expr(rhs[i], s.env))
	}
	return []*pstate{s}
}

func (c *canonizer) stmt(st ast.Stmt, s *pstate) []*pstate {
	switch n := st.(type) {
	case *ast.EmptyStmt:
		return []*pstate{s}
	case *ast.DeclStmt:
		gd := n.Decl.(*ast.GenDecl)
		for _, sp := range gd.Specs {
			vs, ok := sp.(*ast.ValueSpec)
			if !ok {
				continue
			}
			for i, nm := range vs.Names {
				switch {
				case i < len(vs.Values):
					s.env[nm.Name] = c.expr(vs.Values[i], s.env)
				case vs.Type != nil && src(vs.Type) == c.tbsType:
					s.env[nm.Name] = "tbs"
				case vs.Type != nil && (strings.HasPrefix(src(vs.Type), "[]") || strings.HasPrefix(src(vs.Type), "*") || src(vs.Type) == "error"):
					s.env[nm.Name] = "nil"
				case vs.Type != nil && src(vs.Type) == "bool":
					s.env[nm.Name] = "false"
				}
			}
		}
		return []*pstate{s}
	case *ast.AssignStmt:
		return c.assign(n.Lhs, n.Rhs, s)
	case *ast.ExprStmt:
		s.effects = append(s.effects, "? "+c.expr(n.X, s.env))
		return []*pstate{s}
	case *ast.BranchStmt:
		if n.Tok == token.CONTINUE {
			s.done = "continue"
		} else if n.Tok == token.BREAK {
			s.done = "break"
		} else {
			s.effects = append(s.effects, "? "+src(n))
		}
		return []*pstate{s}
	case *ast.ReturnStmt:
		if len(n.Results) == 1 {
			if fd, call := c.helperOf(n.Results[0]); fd != nil {
				return c.inline(fd, call.Args, s, func(o *pstate, results []string) {
					if len(results) >= 2 && results[len(results)-1] == "nil" {
						o.done = "return " + results[0]
					} else {
						o.done = "error"
					}
				})
			}
		}
		if len(n.Results) >= 1 {
			last := c.expr(n.Results[len(n.Results)-1], s.env)
			if len(n.Results) >= 2 && last != "nil" {
				s.done = "error"
				return []*pstate{s}
			}
			var rs []string
			end := len(n.Results)
			if len(n.Results) >= 2 {
				end--
			}
			for _, r := range n.Results[:end] {
				rs = append(rs, c.expr(r, s.env))
			}
			s.done = "return " + strings.Join(rs, "\x00")
			return []*pstate{s}
		}
		s.done = "return "
		return []*pstate{s}
	case *ast.BlockStmt:
		return c.block(n.List, []*pstate{s})
	case *ast.IfStmt:
		base := s
		// `if v := FIRST(C;K;index;-1); v >= 0 { w = C[v].F }` is the search for `elem.F`
		if n.Init != nil && n.Else == nil && len(n.Body.List) == 1 {
			if as, ok := n.Init.(*ast.AssignStmt); ok && len(as.Lhs) == 1 && len(as.Rhs) == 1 {
				v := identName(as.Lhs[0])
				first := c.expr(as.Rhs[0], s.env)
				if be, ok := n.Cond.(*ast.BinaryExpr); ok && strings.HasPrefix(first, "FIRST(") && strings.HasSuffix(first, ";index;-1)") &&
					identName(be.X) == v && be.Op == token.GEQ && src(be.Y) == "0" {
					if w, ok := n.Body.List[0].(*ast.AssignStmt); ok && len(w.Lhs) == 1 && len(w.Rhs) == 1 && identName(w.Lhs[0]) != "" {
						if sel, ok := w.Rhs[0].(*ast.SelectorExpr); ok {
							if ix, ok := sel.X.(*ast.IndexExpr); ok && identName(ix.Index) == v {
								coll := c.expr(ix.X, s.env)
								if strings.HasPrefix(first, "FIRST("+coll+";") {
									wn := identName(w.Lhs[0])
									s.env[wn] = strings.TrimSuffix(first, ";index;-1)") + ";elem." + sel.Sel.Name + ";" + s.env[wn] + ")"
									return []*pstate{s}
								}
							}
						}
					}
				}
			}
		}
		if n.Init != nil {
			ss := c.stmt(n.Init, base)
			var out []*pstate
			for _, b := range ss {
				out = append(out, c.ifBranches(n, b)...)
			}
			return out
		}
		return c.ifBranches(n, base)
	case *ast.SwitchStmt:
		var out []*pstate
		rest := s
		if n.Init != nil {
			c.stmt(n.Init, rest)
		}
		hasDefault := false
		for _, cl := range n.Body.List {
			cc := cl.(*ast.CaseClause)
			if cc.List == nil {
				hasDefault = true
				if rest != nil {
					out = append(out, c.block(cc.Body, []*pstate{rest.fork()})...)
				}
				continue
			}
			if rest == nil {
				continue
			}
			// the case's own condition: any of its expressions
			var pos []clause
			var negs []clause
			if len(cc.List) == 1 {
				var e ast.Expr = cc.List[0]
				if n.Tag != nil {
					e = &ast.BinaryExpr{X: n.Tag, Op: token.EQL, Y: cc.List[0]}
				}
				pos = c.lits(e, false, rest.env)
				negs = c.lits(e, true, rest.env)
			} else {
				pos = []clause{{lit{l: "case " + src(cc)}}}
				negs = []clause{{lit{l: "case " + src(cc)}.neg()}}
			}
			if t := c.withCond(rest, pos); t != nil {
				out = append(out, c.block(cc.Body, []*pstate{t})...)
			}
			rest = c.withCond(rest, negs)
		}
		if !hasDefault && rest != nil {
			out = append(out, rest)
		}
		for _, o := range out {
			if o.done == "break" {
				o.done = ""
			}
		}
		return out
	case *ast.RangeStmt:
		// a search that assigns: `v = <yield>; break`
		if coll, mk, k, e, act, ok := c.searchLoop(n, s.env); ok {
			if as, isAs := act.(*ast.AssignStmt); isAs && len(as.Lhs) == 1 && len(as.Rhs) == 1 && identName(as.Lhs[0]) != "" {
				if y, ok := c.yield(as.Rhs[0], k, e); ok {
					v := identName(as.Lhs[0])
					s.env[v] = fmt.Sprintf("FIRST(%s;%s;%s;%s)", coll, mk, y, s.env[v])
					return []*pstate{s}
				}
			}
		}
		// any other loop: its body is described once, as the paths of one iteration; variables assigned in it are accumulators
		body := s.fork()
		body.effects = nil
		acc := map[string]bool{}
		ast.Inspect(n.Body, func(nd ast.Node) bool {
			if as, ok := nd.(*ast.AssignStmt); ok && as.Tok == token.ASSIGN {
				for _, l := range as.Lhs {
					if id := identName(l); id != "" {
						if _, known := s.env[id]; known {
							acc[id] = true
						}
					}
				}
			}
			return true
		})
		for v := range acc {
			s.env[v] = "ACC(" + s.env[v] + ")"
			body.env[v] = s.env[v]
		}
		if k := identName(n.Key); k != "" && k != "_" {
			body.env[k] = "INDEX"
		}
		if e := identName(n.Value); e != "" && e != "_" {
			body.env[e] = "ELEM"
		}
		var its []string
		var outs []*pstate
		for _, o := range c.block(n.Body.List, []*pstate{body}) {
			entry := condString(o.conds[len(s.conds):]) + " :: " + strings.Join(o.effects, " ; ")
			switch {
			case o.done == "error" || strings.HasPrefix(o.done, "return"):
				e2 := s.fork()
				e2.conds = o.conds
				e2.effects = append(e2.effects, "in loop over "+c.expr(n.X, s.env))
				e2.done = o.done
				outs = append(outs, e2)
				entry += " -> " + strings.ReplaceAll(o.done, "\x00", ",")
			case o.done == "break":
				entry += " -> break"
			default:
				entry += " -> next"
			}
			its = append(its, entry)
		}
		sort.Strings(its)
		s.effects = append(s.effects, "loop over "+c.expr(n.X, s.env)+" {"+strings.Join(its, " || ")+"}")
		// paths that leave the function from inside the loop keep only the conditions that do not mention the iteration
		for _, o := range outs {
			var keep []clause
			for _, cl := range o.conds {
				txt := condString([]clause{cl})
				if !strings.Contains(txt, "ELEM") && !strings.Contains(txt, "INDEX") && !strings.Contains(txt, "ACC(") {
					keep = append(keep, cl)
				}
			}
			o.conds = keep
		}
		return append(outs, s)
	}
	s.effects = append(s.effects, "? "+src(st))
	return []*pstate{s}
}

func (c *canonizer) ifBranches(n *ast.IfStmt, s *pstate) []*pstate {
	var out []*pstate
	if t := c.withCond(s, c.lits(n.Cond, false, s.env)); t != nil {
		out = append(out, c.block(n.Body.List, []*pstate{t})...)
	}
	if f := c.withCond(s, c.lits(n.Cond, true, s.env)); f != nil {
		switch e := n.Else.(type) {
		case nil:
			out = append(out, f)
		case *ast.BlockStmt:
			out = append(out, c.block(e.List, []*pstate{f})...)
		case *ast.IfStmt:
			out = append(out, c.stmt(e, f)...)
		}
	}
	return out
}

// canonPaths: the unit.
func canonPaths(rel, fn string, params []string, keep []string, leanName string) func() string {
	return func() string {
		f := parseFile(rp(rel))
		fd := mustFunc(rel, fn)
		c := &canonizer{file: f, keep: map[string]bool{fn: true}, tbsType: "tbsCertificate"}
		for _, k := range keep {
			c.keep[k] = true
		}
		s := &pstate{env: map[string]string{}}
		i := 0
		for _, fl := range fd.Type.Params.List {
			for _, n := range fl.Names {
				if i < len(params) {
					s.env[n.Name] = params[i]
				}
				i++
			}
		}
		outs := c.block(fd.Body.List, []*pstate{s})
		// error paths: the set of conditions; success paths: conditions, effects, result
		errs := map[string]bool{}
		var rows []string
		for _, o := range outs {
			cs := condString(o.conds)
			if o.done == "error" {
				where := ""
				if len(o.effects) > 0 && strings.HasPrefix(o.effects[len(o.effects)-1], "in loop over ") {
					where = " (" + o.effects[len(o.effects)-1] + ")"
				}
				errs["ERROR when "+cs+where] = true
				continue
			}
			rows = append(rows, "WHEN "+cs+" DO "+strings.Join(o.effects, " ; ")+" THEN "+strings.ReplaceAll(o.done, "\x00", ","))
		}
		for e := range errs {
			rows = append(rows, e)
		}
		// paths that differ only in one complementary condition and do the same are one path
		rows = mergeComplementary(rows)
		sort.Strings(rows)
		var q []string
		for _, r := range rows {
			q = append(q, leanStr(r))
		}
		return fmt.Sprintf("/-- generated from %s func %s: every path (conditions, effects on the TBSCertificate, result), helpers inlined, locals resolved -/\ndef %s : List String :=\n  [%s]\n",
			rel, fn, leanName, strings.Join(q, ",\n   "))
	}
}

func mergeComplementary(rows []string) []string {
	for changed := true; changed; {
		changed = false
	outer:
		for i := 0; i < len(rows); i++ {
			for j := i + 1; j < len(rows); j++ {
				a, b := rows[i], rows[j]
				ai, bi := strings.Index(a, " DO "), strings.Index(b, " DO ")
				if ai < 0 || bi < 0 || a[ai:] != b[bi:] {
					continue
				}
				ca, cb := strings.Split(strings.TrimPrefix(a[:ai], "WHEN "), " & "), strings.Split(strings.TrimPrefix(b[:bi], "WHEN "), " & ")
				if len(ca) != len(cb) {
					continue
				}
				diff := -1
				ma := map[string]bool{}
				for _, x := range ca {
					ma[x] = true
				}
				nd := 0
				var common []string
				for k, x := range cb {
					if !ma[x] {
						nd++
						diff = k
					} else {
						common = append(common, x)
					}
				}
				if nd != 1 {
					continue
				}
				// the one condition of a not in b must be the negation of cb[diff]
				var other string
				mb := map[string]bool{}
				for _, x := range cb {
					mb[x] = true
				}
				for _, x := range ca {
					if !mb[x] {
						other = x
					}
				}
				if !isNegation(other, cb[diff]) {
					continue
				}
				sort.Strings(common)
				rows[i] = "WHEN " + strings.Join(common, " & ") + a[ai:]
				rows = append(rows[:j], rows[j+1:]...)
				changed = true
				break outer
			}
		}
	}
	return rows
}

func isNegation(a, b string) bool {
	if strings.Contains(a, " | ") || strings.Contains(b, " | ") {
		return false
	}
	if a == "!"+b || b == "!"+a {
		return true
	}
	for op, nop := range negOp {
		if op == "" || op == "!" {
			continue
		}
		if strings.Contains(a, " "+op+" ") && strings.Replace(a, " "+op+" ", " "+nop+" ", 1) == b {
			return true
		}
	}
	return false
}

// callArgsCanon: the calls of fn whose callee starts with prefix, arguments resolved through single-definition locals
// (`cert := chain[0]` ⇒ `chain[0].RawTBSCertificate`), whatever the locals are called.
func callArgsCanon(rel, fn, prefix, leanName string) func() string {
	return func() string {
		f := parseFile(rp(rel))
		fd := mustFunc(rel, fn)
		c := &canonizer{file: f, keep: map[string]bool{}, tbsType: "tbsCertificate"}
		defs := map[string][]ast.Expr{}
		ast.Inspect(fd.Body, func(n ast.Node) bool {
			if vs, ok := n.(*ast.ValueSpec); ok {
				for _, nm := range vs.Names {
					defs[nm.Name] = append(defs[nm.Name], nil) // `var x T` counts as a definition: x is then not a single-definition alias
				}
			}
			if as, ok := n.(*ast.AssignStmt); ok && len(as.Lhs) == len(as.Rhs) {
				for i, l := range as.Lhs {
					if id := identName(l); id != "" {
						defs[id] = append(defs[id], as.Rhs[i])
					}
				}
			}
			return true
		})
		env := map[string]string{}
		for k, v := range defs {
			if len(v) == 1 && v[0] != nil {
				if _, isCall := v[0].(*ast.CallExpr); !isCall {
					env[k] = c.expr(v[0], map[string]string{})
				}
			}
		}
		var rows []string
		ast.Inspect(fd.Body, func(n ast.Node) bool {
			if call, ok := n.(*ast.CallExpr); ok && strings.HasPrefix(src(call.Fun), prefix) {
				rows = append(rows, leanStr(c.expr(call, env)))
			}
			return true
		})
		return fmt.Sprintf("/-- generated from %s: calls to `%s…` in `func %s`, arguments resolved through single-definition locals -/\ndef %s : List String := [%s]\n", rel, prefix, fn, leanName, strings.Join(rows, ", "))
	}
}

// searchSummary: a function that is a search helper (`for … { if MATCH { return V } }; return D`), as FIRST(collection;key;what;default)
// over its parameters named by position.
func searchSummary(rel, fn string, params []string, leanName string) func() string {
	return func() string {
		f := parseFile(rp(rel))
		fd := mustFunc(rel, fn)
		c := &canonizer{file: f, keep: map[string]bool{}}
		var args []ast.Expr
		for _, p := range params {
			args = append(args, ast.NewIdent(p))
		}
		s, ok := c.searchHelper(fd, args, map[string]string{})
		if !ok {
			panic(bail{fmt.Sprintf("%s: %s is no longer a plain search loop", rel, fn)})
		}
		return fmt.Sprintf("/-- generated from %s func %s: what it searches for -/\ndef %s : String := %s\n", rel, fn, leanName, leanStr(s))
	}
}

// uniqLoop finds, in fn, the loop over the extensions of the tbsCertificate value that records an index in an accumulator, whatever
// the locals are called, and hands it to the statement translator with the canonical names `extAt`, `i`, `idEqual`.
func uniqLoop(rel, fn string) (loop *ast.RangeStmt, after []ast.Stmt, sp Spec) {
	fd := mustFunc(rel, fn)
	f := parseFile(rp(rel))
	c := &canonizer{file: f, keep: map[string]bool{fn: true}, tbsType: "tbsCertificate"}
	env := map[string]string{}
	consts := map[string]string{}
	var oidParam string
	i := 0
	for _, fl := range fd.Type.Params.List {
		for _, n := range fl.Names {
			if i == 1 {
				oidParam = n.Name
			}
			i++
		}
	}
	for k, st := range fd.Body.List {
		switch n := st.(type) {
		case *ast.DeclStmt:
			gd := n.Decl.(*ast.GenDecl)
			for _, spc := range gd.Specs {
				if vs, ok := spc.(*ast.ValueSpec); ok {
					for j, nm := range vs.Names {
						if vs.Type != nil && src(vs.Type) == "tbsCertificate" {
							env[nm.Name] = "tbs"
						}
						if gd.Tok == token.CONST && j < len(vs.Values) {
							consts[nm.Name] = src(vs.Values[j])
						}
					}
				}
			}
		case *ast.AssignStmt:
			if len(n.Lhs) == len(n.Rhs) {
				for j, l := range n.Lhs {
					if id := identName(l); id != "" {
						if _, isCall := n.Rhs[j].(*ast.CallExpr); !isCall {
							env[id] = c.expr(n.Rhs[j], env)
						}
					}
				}
			} else if len(n.Rhs) == 1 {
				if call, ok := n.Rhs[0].(*ast.CallExpr); ok {
					if h := findFunc(f, src(call.Fun)); h != nil && h.Type.Results != nil && len(h.Type.Results.List) > 0 && src(h.Type.Results.List[0].Type) == "tbsCertificate" {
						env[identName(n.Lhs[0])] = "tbs"
					}
				}
			}
		case *ast.RangeStmt:
			if c.expr(n.X, env) != "tbs.Extensions" {
				continue
			}
			key, val := identName(n.Key), identName(n.Value)
			acc := ""
			ast.Inspect(n.Body, func(nd ast.Node) bool {
				if as, ok := nd.(*ast.AssignStmt); ok && len(as.Lhs) == 1 && len(as.Rhs) == 1 && identName(as.Rhs[0]) == key {
					acc = identName(as.Lhs[0])
				}
				return true
			})
			if acc == "" {
				continue
			}
			sp = Spec{Ret: "errlast", ContinueVal: "some extAt", Vars: map[string]string{acc: "extAt", key: "i"},
				Repl: map[string]string{val + ".Id.Equal(" + oidParam + ")": "idEqual"}}
			for cn, cv := range consts {
				if cv == "-1" {
					sp.Repl[cn] = "(I64.neg (1 : Int))"
				}
			}
			return n, fd.Body.List[k+1:], sp
		}
	}
	panic(bail{fmt.Sprintf("%s: no index-recording loop over the extensions of the tbsCertificate in %s", rel, fn)})
}

func uniqLoopStep(rel, fn, leanName string) func() string {
	return func() string {
		loop, _, sp := uniqLoop(rel, fn)
		t := &tr{sp: sp}
		return fmt.Sprintf("/-- generated from %s func %s: body of the loop that looks for the extension (locals named by role) -/\ndef %s (extAt i : Int) (idEqual : Bool) : Option Int :=\n  %s\n",
			rel, fn, leanName, t.block(loop.Body.List, "some extAt", "  "))
	}
}

func uniqLoopAbsent(rel, fn, leanName string) func() string {
	return func() string {
		_, after, sp := uniqLoop(rel, fn)
		t := &tr{sp: sp}
		var acc string
		for k, v := range sp.Vars {
			if v == "extAt" {
				acc = k
			}
		}
		for _, st := range after {
			if is, ok := st.(*ast.IfStmt); ok && is.Init == nil && hasReturn(is.Body.List) {
				mentions := false
				ast.Inspect(is.Cond, func(nd ast.Node) bool {
					if id, ok := nd.(*ast.Ident); ok && id.Name == acc {
						mentions = true
					}
					return true
				})
				if mentions {
					return fmt.Sprintf("/-- generated from %s func %s: the test on the recorded index after the loop (returns an error) -/\ndef %s (extAt : Int) : Bool :=\n  %s\n", rel, fn, leanName, t.expr(is.Cond))
				}
			}
		}
		panic(bail{fmt.Sprintf("%s: no test on the recorded index after the loop in %s", rel, fn)})
	}
}
