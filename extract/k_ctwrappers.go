package main

// Whole bodies of the serialization.go wrappers and of the non-reflective entry points of tls/tls.go, regenerated statement by
// statement (handlerKernel): the ORDER of the tests, what each branch hands back and whether an error accompanies it. The
// inputs are the facts the code tests; lean/CTV/Props/C04Tie.lean and C09Tie.lean tie the hand models to them.

func init() {
	ser := "serialization.go"
	consts := map[string]string{"V1": "Gen.v1", "X509LogEntryType": "Gen.x509LogEntryType", "PrecertLogEntryType": "Gen.precertLogEntryType"}
	with := func(m map[string]string) map[string]string {
		o := map[string]string{}
		for k, v := range consts {
			o[k] = v
		}
		for k, v := range m {
			o[k] = v
		}
		return o
	}
	// what a call hands back: 0 = nothing, 1 = the marshalled / built value ("f(…)": the call whatever its arguments are)
	val := map[string]int{"nil": 0, "tls.Marshal(…)": 1, "&leaf": 1, "leaf": 1, "[sha256.Size]byte{}": 0, "true": 1, "false": 0}
	register(genFile{name: "CtWrappers", imports: []string{"CTV.Basic.I64", "CTV.Basic.ErrKind", "CTV.Gen.CtTypes"}, units: []unit{
		{"SerializeSCTSignatureInput", handlerKernel(ser, "SerializeSCTSignatureInput", "serializeSCTSignatureInput",
			"(version_ etype_ : Int) (marshalFails : Bool)", "Nat × Bool", "", "(0, false)",
			Spec{Kind: "u64", Lazy: true, Inline: true, Canon: true, Ret: "statusstate", Status: val, DropThrough: true, ErrFlow: true, NegRepl: true,
				IgnoreLHS: []string{"input"},
				ErrCalls:  map[string]string{"tls.Marshal": "marshalFails"},
				Repl:      with(map[string]string{"sct.SCTVersion": "version_", "entry.Leaf.TimestampedEntry.EntryType": "etype_"})})},
		{"SerializeSTHSignatureInput", handlerKernel(ser, "SerializeSTHSignatureInput", "serializeSTHSignatureInput",
			"(version_ : Int) (rootLenBad marshalFails : Bool)", "Nat × Bool", "", "(0, false)",
			Spec{Kind: "u64", Lazy: true, Inline: true, Canon: true, Ret: "statusstate", Status: val, DropThrough: true, ErrFlow: true, NegRepl: true,
				IgnoreLHS: []string{"input"},
				PureCalls: []string{"crypto.SHA256.Size"},
				ErrCalls:  map[string]string{"tls.Marshal": "marshalFails"},
				InitCond:  map[string]string{"got, want := len(sth.SHA256RootHash), crypto.SHA256.Size() ; got != want": "rootLenBad"},
				Repl:      with(map[string]string{"sth.Version": "version_", "len(sth.SHA256RootHash) != crypto.SHA256.Size()": "rootLenBad"})})},
		// hashed_: has sha256.Sum256 run (the array handed back is the hash then, the zero value before)
		{"LeafHashForLeaf", handlerKernel(ser, "LeafHashForLeaf", "leafHashForLeaf", "(marshalFails : Bool)", "Nat × Bool", "let hashed_ := false\n  ", "(0, false)",
			Spec{Kind: "u64", Lazy: true, Inline: true, Canon: true, Ret: "statusstate", Status: val, DropThrough: true, ErrFlow: true,
				IgnoreLHS: []string{"data", "leafHash"}, Ignore: []string{"copy"},
				Effects:   map[string]string{"sha256.Sum256": "hashed_ := true"},
				ErrCalls:  map[string]string{"tls.Marshal": "marshalFails"},
				Repl:      map[string]string{"leafHash": "hashed_.toNat"}})},
		{"IsPreIssuer", handlerKernel(ser, "IsPreIssuer", "isPreIssuer", "(hasCtEku : Bool)", "Bool", "", "false",
			Spec{Kind: "u64", Lazy: true, Ret: "tuple", RangeCond: map[string]string{"issuer.ExtKeyUsage": "hasCtEku", "elem:issuer.ExtKeyUsage": "eku", "cond:issuer.ExtKeyUsage": "eku == x509.ExtKeyUsageCertificateTransparency"}})},
		// certificates are followed as chain indices (nil = -1): issuerIdx_ = the certificate whose key is hashed into issuer_key_hash (read off
		// the argument of sha256.Sum256), preIdx_ = the certificate handed to BuildPrecertTBS as pre-issuer (read off the call)
		{"MerkleTreeLeafFromChain", handlerKernel(ser, "MerkleTreeLeafFromChain", "merkleTreeLeafFromChain",
			"(chainLen_ etype_ : Int) (issuerIsPreIssuer buildFails : Bool)", "Nat × Bool × Int × Int", "let issuerIdx_ := (-1 : Int)\n  let preIdx_ := (-1 : Int)\n  ", "(0, false, issuerIdx_, preIdx_)",
			Spec{Kind: "i64", Lazy: true, Inline: true, Ret: "statusstate", Status: val, StateVars: []string{"issuerIdx_", "preIdx_"}, DropThrough: true, ErrFlow: true, NegRepl: true,
				IgnoreLHS: []string{"leaf"},
				ErrCalls:  map[string]string{"x509.BuildPrecertTBS": "buildFails|preIdx_ := $1"},
				UseEffect: map[string]string{"sha256.Sum256": "issuerIdx_ := $0.base"},
				CallRepl:  map[string]string{"IsPreIssuer": "issuerIsPreIssuer"},
				Vars:      map[string]string{"len(chain)": "chainLen_", "etype": "etype_"},
				Repl: with(map[string]string{"chain[0]": "(0 : Int)", "chain[1]": "(1 : Int)", "chain[2]": "(2 : Int)", "nil": "(-1 : Int)",
					"zero:*x509.Certificate": "(-1 : Int)"})})},
	}})
}
