package main

// Whole bodies of the serialization.go wrappers and of the non-reflective entry points of tls/tls.go, regenerated statement by
// statement (handlerKernel): the ORDER of the tests, what each branch hands back and whether an error accompanies it. The
// inputs are the facts the code tests; lean/CTV/Props/C04Tie.lean and C09Tie.lean tie the hand models to them.

func init() {
	ser := "serialization.go"
	consts := map[string]string{"V1": "Gen.v1", "X509LogEntryType": "Gen.x509LogEntryType", "PrecertLogEntryType": "Gen.precertLogEntryType"}
	with := func(m map[string]string) map[string]string {
		o := map[string]string{}
		for k, v := range consts {
			o[k] = v
		}
		for k, v := range m {
			o[k] = v
		}
		return o
	}
	// what a call hands back: 0 = nothing, 1 = the marshalled / built value
	val := map[string]int{"nil": 0, "tls.Marshal(input)": 1, "&leaf": 1, "leafHash": 1, "[sha256.Size]byte{}": 0, "true": 1, "false": 0}
	register(genFile{name: "CtWrappers", imports: []string{"CTV.Basic.I64", "CTV.Basic.ErrKind", "CTV.Gen.CtTypes"}, units: []unit{
		{"SerializeSCTSignatureInput", handlerKernel(ser, "SerializeSCTSignatureInput", "serializeSCTSignatureInput",
			"(version_ etype_ : Int) (marshalFails : Bool)", "Nat × Bool", "", "(0, false)",
			Spec{Kind: "u64", Lazy: true, Inline: true, Canon: true, Ret: "statusstate", Status: val,
				IgnoreLHS: []string{"input", "input.X509Entry", "input.PrecertEntry"},
				ErrCalls:  map[string]string{"tls.Marshal": "marshalFails"},
				Repl:      with(map[string]string{"sct.SCTVersion": "version_", "entry.Leaf.TimestampedEntry.EntryType": "etype_"})})},
		{"SerializeSTHSignatureInput", handlerKernel(ser, "SerializeSTHSignatureInput", "serializeSTHSignatureInput",
			"(version_ : Int) (rootLenBad marshalFails : Bool)", "Nat × Bool", "", "(0, false)",
			Spec{Kind: "u64", Lazy: true, Inline: true, Canon: true, Ret: "statusstate", Status: val,
				IgnoreLHS: []string{"input"},
				ErrCalls:  map[string]string{"tls.Marshal": "marshalFails"},
				InitCond:  map[string]string{"got, want := len(sth.SHA256RootHash), crypto.SHA256.Size() ; got != want": "rootLenBad"},
				Repl:      with(map[string]string{"sth.Version": "version_", "len(sth.SHA256RootHash) != crypto.SHA256.Size()": "rootLenBad"})})},
		{"LeafHashForLeaf", handlerKernel(ser, "LeafHashForLeaf", "leafHashForLeaf", "(marshalFails : Bool)", "Nat × Bool", "", "(0, false)",
			Spec{Kind: "u64", Lazy: true, Inline: true, Canon: true, Ret: "statusstate", Status: val,
				IgnoreLHS: []string{"data", "leafHash"},
				ErrCalls:  map[string]string{"tls.Marshal": "marshalFails"}})},
		{"IsPreIssuer", handlerKernel(ser, "IsPreIssuer", "isPreIssuer", "(hasCtEku : Bool)", "Bool", "", "false",
			Spec{Kind: "u64", Lazy: true, Ret: "tuple", RangeCond: map[string]string{"issuer.ExtKeyUsage": "hasCtEku", "elem:issuer.ExtKeyUsage": "eku", "cond:issuer.ExtKeyUsage": "eku == x509.ExtKeyUsageCertificateTransparency"}})},
		// which certificate of the chain gives issuer_key_hash (issuerIdx_), whether BuildPrecertTBS gets a pre-issuer (pre_)
		{"MerkleTreeLeafFromChain", handlerKernel(ser, "MerkleTreeLeafFromChain", "merkleTreeLeafFromChain",
			"(chainLen_ etype_ : Int) (issuerIsPreIssuer buildFails : Bool)", "Nat × Bool × Int × Bool", "let issuerIdx_ := (0 : Int)\n  let pre_ := false\n  ", "(0, false, issuerIdx_, pre_)",
			Spec{Kind: "i64", Lazy: true, Inline: true, Ret: "statusstate", Status: val, StateVars: []string{"issuerIdx_", "pre_"},
				IgnoreLHS:    []string{"leaf", "leaf.TimestampedEntry.X509Entry", "leaf.TimestampedEntry.EntryType", "leaf.TimestampedEntry.PrecertEntry", "cert", "preIssuer"},
				ErrCalls:     map[string]string{"x509.BuildPrecertTBS": "buildFails"},
				CallRepl:     map[string]string{"IsPreIssuer": "issuerIsPreIssuer"},
				AppendEffect: map[string]string{"stmt:issuer:=chain[1]": "issuerIdx_ := 1", "stmt:issuer=chain[2]": "issuerIdx_ := 2", "stmt:preIssuer=issuer": "pre_ := true"},
				Vars:         map[string]string{"len(chain)": "chainLen_", "etype": "etype_"},
				Repl:         with(nil)})},
	}})
}
