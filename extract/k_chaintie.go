package main

import "strings"

// Whole-body units for the C01 / C02 ties (Props/C01Tie.lean, Props/C02Tie.lean): the check sequences of verifyAddChain,
// buildV1SCT, marshalAndWriteAddChainResponse and util.buildLogLeaf, translated statement by statement into functions of
// the facts they test.  Codes of what is handed back: 0 = nothing (nil / zero value), 1 = the value built.
func init() {
	h := "trillian/ctfe/handlers.go"
	ign := []string{"klog.", "w.Header()", "w.WriteHeader"}
	register(genFile{name: "ChainTie", imports: []string{"CTV.Basic.I64", "CTV.Basic.ErrKind"}, units: []unit{
		// verifyAddChain: ValidateChain, then IsPrecertificate of the first certificate of the validated path, then the endpoint test
		{"verifyAddChainBody", handlerKernel(h, "verifyAddChain", "verifyAddChainBody", "(chainFails precertFails isPrecert expectingPrecert : Bool)", "Nat × Bool", "", "(0, false)",
			Spec{Kind: "i64", Lazy: true, Inline: true, Ret: "statusstate", Ignore: ign, Status: map[string]int{"nil": 0, "validPath": 1},
				ErrCalls: map[string]string{"ValidateChain": "chainFails", "IsPrecertificate": "precertFails"},
				Bind:     map[string]string{"ValidateChain": "validPath", "IsPrecertificate": "isPrecert"},
				Repl:     map[string]string{"isPrecert": "isPrecert", "expectingPrecert": "expectingPrecert"}})},
		// buildV1SCT: serialise the signature input of the leaf it is given, sign its SHA-256, compute the log id
		{"buildV1SCTBody", handlerKernel("trillian/ctfe/serialize.go", "buildV1SCT", "buildV1SCTBody", "(inputFails signFails logIDFails : Bool)", "Nat × Bool", "", "(0, false)",
			Spec{Kind: "i64", Lazy: true, Inline: true, Ret: "statusstate", Ignore: ign, Status: map[string]int{"nil": 0, "*": 1},
				ErrCalls: map[string]string{"ct.SerializeSCTSignatureInput": "inputFails", "signer.Sign": "signFails", "GetCTLogID": "logIDFails"}})},
		// marshalAndWriteAddChainResponse
		{"writeAddChainResponseBody", handlerKernel(h, "marshalAndWriteAddChainResponse", "writeAddChainResponseBody", "(logIDFails sigMarshalFails jsonFails writeFails : Bool)", "Bool", "", "false",
			Spec{Kind: "i64", Lazy: true, Inline: true, Ret: "errbool", Ignore: ign,
				ErrCalls: map[string]string{"GetCTLogID": "logIDFails", "tls.Marshal": "sigMarshalFails", "json.Marshal": "jsonFails", "w.Write": "writeFails"}})},
		// ValidateChain: the test on Verify's result that precedes chainsEquivalent
		{"noChainsFails", semReach("trillian/ctfe/cert_checker.go", "ValidateChain", "func",
			func(r canonReturn) bool {
				return len(r.results) == 2 && r.results[0] == "nil" && strings.Contains(strings.ReplaceAll(r.results[1], " ", ""), "nopathtoroot")
			}, []string{"len($Verify)"},
			"noChainsFails", "(nChains : Int)", Spec{Kind: "i64", Repl: map[string]string{"len($Verify)": "nChains"}})},
		// util.buildLogLeaf / BuildLogLeaf: the RFC 6962 chain layout is used exactly when no chain hash is given, and BuildLogLeaf gives none
		{"extraUsesChainLayout", semAssignReach("trillian/util/log_leaf.go", "buildLogLeaf", []string{"=ExtraDataForChain("}, []string{"$[]byte"},
			"extraUsesChainLayout", "(chainHashNil : Bool)", Spec{Kind: "i64", Repl: map[string]string{"$[]byte == nil": "chainHashNil", "$[]byte != nil": "(!chainHashNil)"}})},
		{"buildLogLeafChainHashArg", exprFact("trillian/util/log_leaf.go", "BuildLogLeaf", `buildLogLeaf\((?:[^,]+, ){5}([^,]+), [^,]+\)`, "buildLogLeafChainHashArg")},
	}})
}
