package main

// The list of regenerated units. Every entry names the anchor it reads; if the
// anchor moves out of the translatable subset the unit fails loudly.

var ctfeIgnore = []string{"klog.", "alignedGetEntries.", "li.RequestLog."}

var registry []genFile

// register adds one generated Lean module; each k_*.go file registers its own from init().
func register(g genFile) { registry = append(registry, g) }

func allFiles() []genFile { return registry }

func init() {
	h := "trillian/ctfe/handlers.go"
	register(genFile{name: "Handlers", imports: []string{"CTV.Basic.I64", "CTV.Basic.ErrKind"}, units: []unit{
		{"MaxGetEntriesAllowed", constKernel(h, "MaxGetEntriesAllowed", "maxGetEntriesAllowed", intLit)},
		{"parseGetEntriesRange", funcKernel(h, "parseGetEntriesRange", "parseGetEntriesRange",
			"(start_ end_ maxRange_ : Int) (align : Bool)", "Option (Int × Int)",
			Spec{Kind: "i64", Lazy: true, Inline: true, Ret: "errlast", InputCalls: []string{"strconv.ParseInt"}, Ignore: ctfeIgnore,
				Repl: map[string]string{"*alignGetEntries": "align"}})},
		{"getEntriesCount", fieldValueKernel(h, "getEntries", "trillian.GetLeavesByRangeRequest", "Count", "getEntriesCount", "(start_ end_ : Int)", "Int",
			Spec{Kind: "i64"})},
		{"parseGetEntryAndProofParams", funcKernel(h, "parseGetEntryAndProofParams", "parseGetEntryAndProofParams",
			"(leafIndex_ treeSize_ : Int)", "Option (Int × Int)",
			Spec{Kind: "i64", Ret: "errlast", InputCalls: []string{"strconv.ParseInt"}, Ignore: ctfeIgnore})},
		{"parseGetSTHConsistencyRange", funcKernel(h, "parseGetSTHConsistencyRange", "parseGetSTHConsistencyRange",
			"(firstMissing secondMissing : Bool) (first_ second_ : Int)", "Option (Int × Int)",
			Spec{Kind: "i64", Ret: "errlast", InputCalls: []string{"strconv.ParseInt", "r.FormValue"}, Ignore: ctfeIgnore,
				Repl: map[string]string{`firstVal == ""`: "firstMissing", `secondVal == ""`: "secondMissing"}})},
		{"toHTTPStatus", switchTable(h, "logInfo.toHTTPStatus", "rpcStatus.Code()", "codeToStatus", fromMap(grpcCodes), fromMap(httpStatus))},
	}})
}
