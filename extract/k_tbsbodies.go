package main

// C03 (deepening): the two leaf builders of serialization.go as Lean functions of the facts they test, regenerated on every run.
//
// The functions are executed path by path with the symbolic executor of k_tbscanon.go (helpers — also ones with several results — inlined,
// locals resolved flow-sensitively, struct construction by composite literal or by field assignment alike), and every path is reduced to
// what the property is about: under which conditions it is taken (chain length `n`, entry type, `IsPreIssuer(chain[1])`, failure of the TBS
// transformation) and what it hands back — nothing + error, or a leaf with: the kind of entry filled in (1 X509, 2 precert), the chain index
// of the certificate whose SubjectPublicKeyInfo is hashed, the chain index passed to `x509.BuildPrecertTBS` as pre-issuer (0 = nil), and the
// requirement that the entry's TBS is the result of `BuildPrecertTBS(chain[0].RawTBSCertificate, …)` / `RemoveSCTList(chain[0].RawTBSCertificate)`.
// The kernel is emitted as a flat if-chain over the (sorted) success paths, so it does not depend on how the code is cut into helpers,
// how its tests are nested or what its locals are called. Tie theorems: lean/CTV/Props/C03Tie.lean.
import (
	"fmt"
	"regexp"
	"sort"
	"strings"
)

var (
	reLen    = regexp.MustCompile(`^len\(chain\) (==|!=|<|<=|>|>=) (\d+)$`)
	reEtype  = regexp.MustCompile(`^etype (==|!=) (X509LogEntryType|PrecertLogEntryType)$`)
	reKey    = regexp.MustCompile(`sha256\.Sum256\(chain\[(\d+)\]\.RawSubjectPublicKeyInfo\)`)
	reBuild  = regexp.MustCompile(`x509\.BuildPrecertTBS\(chain\[0\]\.RawTBSCertificate,(nil|chain\[(\d+)\])\)`)
	reRemove = regexp.MustCompile(`x509\.RemoveSCTList\(chain\[0\]\.RawTBSCertificate\)`)
)

var leanOp = map[string]string{"==": "=", "!=": "≠", "<": "<", "<=": "≤", ">": ">", ">=": "≥"}

// leanLit: one canonical literal as a Lean Bool over the kernel's inputs
func leanLit(l lit, errInput map[string]string) (string, bool) {
	s := l.String()
	if m := reLen.FindStringSubmatch(s); m != nil {
		return fmt.Sprintf("decide (n %s (%s : Int))", leanOp[m[1]], m[2]), true
	}
	if m := reEtype.FindStringSubmatch(s); m != nil {
		v := map[string]string{"X509LogEntryType": "0", "PrecertLogEntryType": "1"}[m[2]]
		return fmt.Sprintf("decide (etype %s (%s : Int))", leanOp[m[1]], v), true
	}
	atom := strings.TrimPrefix(s, "!")
	if strings.HasPrefix(atom, "FIRST(chain[1].ExtKeyUsage;==:x509.ExtKeyUsageCertificateTransparency;true;false)") && (atom == s || "!"+atom == s) {
		if atom == s {
			return "isPre", true
		}
		return "(!isPre)", true
	}
	for callee, in := range errInput {
		if strings.HasPrefix(l.l, "ERR "+callee+"(") && l.r == "nil" {
			if l.op == "!=" {
				return in, true
			}
			if l.op == "==" {
				return "(!" + in + ")", true
			}
		}
	}
	return "", false
}

func leanCond(cs []clause, errInput map[string]string) (string, bool) {
	if len(cs) == 0 {
		return "true", true
	}
	var conj []string
	for _, cl := range cs {
		var dis []string
		for _, l := range cl {
			t, ok := leanLit(l, errInput)
			if !ok {
				return l.String(), false
			}
			dis = append(dis, t)
		}
		sort.Strings(dis)
		conj = append(conj, "("+strings.Join(dis, " || ")+")")
	}
	sort.Strings(conj)
	return strings.Join(conj, " && "), true
}

// leafKernel: fn path by path, each successful path reduced by `outcome` to the tuple it stands for.
func leafKernel(rel, fn string, params []string, leanName, sig, resultTy, errTuple string, errInput map[string]string,
	outcome func(pathText string) (string, error)) func() string {
	return func() string {
		f := parseFile(rp(rel))
		fd := mustFunc(rel, fn)
		c := &canonizer{file: f, keep: map[string]bool{fn: true}, tbsType: "tbsCertificate"}
		s := &pstate{env: map[string]string{}}
		i := 0
		for _, fl := range fd.Type.Params.List {
			for _, n := range fl.Names {
				if i < len(params) {
					s.env[n.Name] = params[i]
				}
				i++
			}
		}
		type row struct{ cond, tuple string }
		var rows []row
		for _, o := range c.block(fd.Body.List, []*pstate{s}) {
			if o.done == "error" {
				// error paths are the complement of the success paths; their conditions must still be expressible
				if t, ok := leanCond(o.conds, errInput); !ok {
					panic(bail{fmt.Sprintf("%s: %s tests something the kernel has no input for: %s", rel, fn, t)})
				}
				continue
			}
			if !strings.HasPrefix(o.done, "return ") {
				panic(bail{fmt.Sprintf("%s: a path of %s does not end in a return", rel, fn)})
			}
			cond, ok := leanCond(o.conds, errInput)
			if !ok {
				panic(bail{fmt.Sprintf("%s: %s tests something the kernel has no input for: %s", rel, fn, cond)})
			}
			text := strings.Join(o.effects, " ; ") + " ; " + strings.ReplaceAll(o.done, "\x00", ",")
			tuple, err := outcome(text)
			if err != nil {
				panic(bail{fmt.Sprintf("%s: %s: %v (path: %s)", rel, fn, err, cond)})
			}
			rows = append(rows, row{cond, tuple})
		}
		sort.Slice(rows, func(a, b int) bool { return rows[a].cond < rows[b].cond })
		var sb strings.Builder
		for _, r := range rows {
			fmt.Fprintf(&sb, "if %s then\n    %s\n  else ", r.cond, r.tuple)
		}
		return fmt.Sprintf("/-- generated from %s func %s: its successful paths (helpers inlined, locals resolved), every other case is an error -/\ndef %s %s : %s :=\n  %s\n    %s\n",
			rel, fn, leanName, sig, resultTy, sb.String(), errTuple)
	}
}

func init() {
	se := "serialization.go"
	register(genFile{name: "TbsBodies", imports: []string{"CTV.Basic.I64", "CTV.Basic.ErrKind"}, units: []unit{
		// (1 = a leaf is handed back, is-error, kind: 1 X509 / 2 precert, index of the hashed key, index of the pre-issuer passed on (0 = nil))
		{"MerkleTreeLeafFromChain", leafKernel(se, "MerkleTreeLeafFromChain", []string{"chain", "etype", "timestamp"}, "mtlFromChain",
			"(n etype : Int) (isPre buildFails : Bool)", "Nat × Bool × Nat × Int × Int", "((0 : Nat), true, (0 : Nat), (0 : Int), (0 : Int))",
			map[string]string{"x509.BuildPrecertTBS": "buildFails"},
			func(t string) (string, error) {
				x509e, pre := strings.Contains(t, "X509Entry"), strings.Contains(t, "PrecertEntry")
				switch {
				case x509e && !pre:
					if !strings.Contains(t, "ASN1Cert{Data:chain[0].Raw}") || reKey.MatchString(t) || strings.Contains(t, "x509.") {
						return "", fmt.Errorf("the X509 entry is not just chain[0].Raw")
					}
					return "((1 : Nat), false, (1 : Nat), (0 : Int), (0 : Int))", nil
				case pre && !x509e:
					k := reKey.FindAllStringSubmatch(t, -1)
					b := reBuild.FindAllStringSubmatch(t, -1)
					if len(k) != 1 || len(b) < 1 {
						return "", fmt.Errorf("precert entry without exactly one hashed chain key and a BuildPrecertTBS(chain[0].RawTBSCertificate, …) call")
					}
					for _, m := range b {
						if m[0] != b[0][0] {
							return "", fmt.Errorf("two different BuildPrecertTBS calls on one path")
						}
					}
					if !strings.Contains(t, "TBSCertificate:RES0 "+b[0][0]) || !strings.Contains(t, "PrecertLogEntryType") {
						return "", fmt.Errorf("the precert entry's TBS is not the result of BuildPrecertTBS, or its type is not PrecertLogEntryType")
					}
					p := "0"
					if b[0][1] != "nil" {
						p = b[0][2]
					}
					return fmt.Sprintf("((1 : Nat), false, (2 : Nat), (%s : Int), (%s : Int))", k[0][1], p), nil
				}
				return "", fmt.Errorf("cannot tell which entry the leaf carries")
			})},
		// (1 = a leaf, is-error, index of the hashed key)
		{"MerkleTreeLeafForEmbeddedSCT", leafKernel(se, "MerkleTreeLeafForEmbeddedSCT", []string{"chain", "timestamp"}, "mtlForEmbedded",
			"(n : Int) (removeFails : Bool)", "Nat × Bool × Int", "((0 : Nat), true, (0 : Int))",
			map[string]string{"x509.RemoveSCTList": "removeFails"},
			func(t string) (string, error) {
				k := reKey.FindAllStringSubmatch(t, -1)
				r := reRemove.FindString(t)
				if len(k) != 1 || r == "" || !strings.Contains(t, "TBSCertificate:RES0 "+r) || !strings.Contains(t, "PrecertEntry") ||
					!strings.Contains(t, "PrecertLogEntryType") || strings.Contains(t, "X509Entry") {
					return "", fmt.Errorf("not a precert entry over RemoveSCTList(chain[0].RawTBSCertificate) with one hashed chain key")
				}
				return fmt.Sprintf("((1 : Nat), false, (%s : Int))", k[0][1]), nil
			})},
	}})
}
