package main

// C03 (deepening): whole bodies of the two leaf builders and of ctutil.createLeaf, statement by statement, as functions of the facts they
// test. Returned: (what is handed back: 0 nothing / 1 a leaf, is-error, state). Tie theorems: lean/CTV/Props/C03Tie.lean.
import (
	"go/ast"
)

// issuerLocal: the local whose RawSubjectPublicKeyInfo is hashed (whatever it is called)
func issuerLocal(rel, fn string) string {
	fd := mustFunc(rel, fn)
	name := ""
	ast.Inspect(fd.Body, func(n ast.Node) bool {
		if s, ok := n.(*ast.SelectorExpr); ok && s.Sel.Name == "RawSubjectPublicKeyInfo" {
			if id, ok := s.X.(*ast.Ident); ok {
				name = id.Name
			}
		}
		return true
	})
	if name == "" {
		panic(bail{rel + ": " + fn + " no longer hashes <local>.RawSubjectPublicKeyInfo"})
	}
	return name
}

func init() {
	se := "serialization.go"
	val := map[string]int{"nil": 0, "&leaf": 1, "leaf": 1, "&MerkleTreeLeaf{…}": 1}
	register(genFile{name: "TbsBodies", imports: []string{"CTV.Basic.I64", "CTV.Basic.ErrKind"}, units: []unit{
		// kind_: 0 none, 1 X509 entry, 2 precert entry; key_: index of the chain certificate whose key is hashed; pre_: index of the chain certificate passed to BuildPrecertTBS as pre-issuer (0 = nil)
		{"MerkleTreeLeafFromChain", func() string {
			iss := issuerLocal(se, "MerkleTreeLeafFromChain")
			return handlerKernel(se, "MerkleTreeLeafFromChain", "mtlFromChain", "(n etype : Int) (isPre buildFails : Bool)", "Nat × Bool × Nat × Int × Int",
				"let kind_ := (0 : Nat)\n  let key_ := (0 : Int)\n  let pre_ := (0 : Int)\n  ", "(0, false, kind_, key_, pre_)",
				Spec{Kind: "i64", Lazy: true, Canon: true, ParamNames: []string{"chain", "etype", "timestamp"}, Ret: "statusstate", StateVars: []string{"kind_", "key_", "pre_"}, Status: val,
					Vars:     map[string]string{iss: "key_", "preIssuer": "pre_", "etype": "etype"},
					CallRepl: map[string]string{"IsPreIssuer": "isPre"},
					ErrCalls: map[string]string{"x509.BuildPrecertTBS": "buildFails"},
					AppendEffect: map[string]string{"stmt:leaf.TimestampedEntry.X509Entry=&ASN1Cert{Data:chain[0].Raw}": "kind_ := 1", "stmt:leaf.TimestampedEntry.EntryType=PrecertLogEntryType": "kind_ := 2"},
					IgnoreLHS:    []string{"leaf", "leaf.TimestampedEntry.PrecertEntry", "cert"},
					Repl: map[string]string{"len(chain)": "n", "X509LogEntryType": "(0 : Int)", "PrecertLogEntryType": "(1 : Int)",
						"chain[1]": "(1 : Int)", "chain[2]": "(2 : Int)"}})()
		}},
		{"MerkleTreeLeafForEmbeddedSCT", func() string {
			iss := issuerLocal(se, "MerkleTreeLeafForEmbeddedSCT")
			st := map[string]int{"nil": 0}
			ast.Inspect(mustFunc(se, "MerkleTreeLeafForEmbeddedSCT").Body, func(n ast.Node) bool { // whatever the successful return builds counts as "a leaf"
				if r, ok := n.(*ast.ReturnStmt); ok && len(r.Results) == 2 && src(r.Results[1]) == "nil" {
					st[src(r.Results[0])] = 1
				}
				return true
			})
			return handlerKernel(se, "MerkleTreeLeafForEmbeddedSCT", "mtlForEmbedded", "(n : Int) (removeFails : Bool)", "Nat × Bool × Int",
				"let key_ := (0 : Int)\n  ", "(0, false, key_)",
				Spec{Kind: "i64", Lazy: true, Canon: true, ParamNames: []string{"chain", "timestamp"}, Ret: "statusstate", StateVars: []string{"key_"},
					Status:   st,
					Vars:     map[string]string{iss: "key_"},
					ErrCalls: map[string]string{"x509.RemoveSCTList": "removeFails"},
					Repl:     map[string]string{"len(chain)": "n", "chain[1]": "(1 : Int)"}})()
		}},
	}})
}
