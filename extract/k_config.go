package main

// Regenerated units for C15 (configuration validation / instance set-up):
// comparisons and constants of ValidateLogConfig, BuildLogBackendMap, validateConfigs,
// setUpLogInfo, the Handlers() table with its deletion condition, the STH-getter
// selection of newLogInfo, the argument MirrorSTHGetter passes to its storage and
// the extended-key-usage name table.

import (
	"fmt"
	"go/ast"
	"go/token"
	"strconv"
	"strings"
)

// stringConsts reads `Name = "literal"` constants of a file.
func stringConsts(rel string) map[string]string {
	out := map[string]string{}
	f := parseFile(rp(rel))
	for _, d := range f.Decls {
		gd, ok := d.(*ast.GenDecl)
		if !ok || gd.Tok != token.CONST {
			continue
		}
		for _, s := range gd.Specs {
			vs := s.(*ast.ValueSpec)
			for i, n := range vs.Names {
				if i < len(vs.Values) {
					if b, ok := vs.Values[i].(*ast.BasicLit); ok && b.Kind == token.STRING {
						if v, err := strconv.Unquote(b.Value); err == nil {
							out[n.Name] = v
						}
					}
				}
			}
		}
	}
	return out
}

func leanStrList(l []string) string {
	var q []string
	for _, s := range l {
		q = append(q, strconv.Quote(s))
	}
	return "[" + strings.Join(q, ", ") + "]"
}

// handlerTable: the keys of the PathHandlers literal in logInfo.Handlers (`prefix + ct.XPath`), resolved
// through the string constants of types.go, and the keys removed by the `delete(ph, prefix+ct.XPath)`
// statements inside the `if` that follows.
func handlerTable(rel, typesRel string) func() string {
	return func() string {
		fd := mustFunc(rel, "logInfo.Handlers")
		consts := stringConsts(typesRel)
		resolve := func(e ast.Expr) string {
			b, ok := e.(*ast.BinaryExpr)
			if !ok || b.Op != token.ADD || src(b.X) != "prefix" {
				failf(e, "handler key is not `prefix + ct.<Path>`: %s", src(e))
			}
			sel, ok := b.Y.(*ast.SelectorExpr)
			if !ok || src(sel.X) != "ct" {
				failf(e, "handler key is not `prefix + ct.<Path>`: %s", src(e))
			}
			v, ok := consts[sel.Sel.Name]
			if !ok {
				failf(e, "constant ct.%s not found in %s", sel.Sel.Name, typesRel)
			}
			return v
		}
		var all, dropped []string
		nLit := 0
		ast.Inspect(fd.Body, func(n ast.Node) bool {
			switch x := n.(type) {
			case *ast.CompositeLit:
				if src(x.Type) == "PathHandlers" {
					nLit++
					for _, el := range x.Elts {
						kv, ok := el.(*ast.KeyValueExpr)
						if !ok {
							failf(el, "PathHandlers element without key")
						}
						all = append(all, resolve(kv.Key))
					}
				}
			case *ast.CallExpr:
				if src(x.Fun) == "delete" && len(x.Args) == 2 && src(x.Args[0]) == "ph" {
					dropped = append(dropped, resolve(x.Args[1]))
				}
			}
			return true
		})
		if nLit != 1 {
			panic(bail{fmt.Sprintf("%s: expected one PathHandlers literal in Handlers, found %d", rel, nLit)})
		}
		// every delete must sit inside the single `if` (the deletion condition kernel); anything else leaves the subset
		ifs := findStmts(fd, func(s ast.Stmt) bool {
			i, ok := s.(*ast.IfStmt)
			if !ok {
				return false
			}
			has := false
			ast.Inspect(i.Body, func(n ast.Node) bool {
				if c, ok := n.(*ast.CallExpr); ok && src(c.Fun) == "delete" {
					has = true
				}
				return true
			})
			return has
		})
		if len(dropped) > 0 && len(ifs) != 1 {
			panic(bail{fmt.Sprintf("%s: delete(ph, …) statements are not inside exactly one if (found %d)", rel, len(ifs))})
		}
		if len(ifs) == 1 {
			cnt := 0
			ast.Inspect(ifs[0].(*ast.IfStmt).Body, func(n ast.Node) bool {
				if c, ok := n.(*ast.CallExpr); ok && src(c.Fun) == "delete" {
					cnt++
				}
				return true
			})
			if cnt != len(dropped) || ifs[0].(*ast.IfStmt).Else != nil {
				panic(bail{fmt.Sprintf("%s: delete(ph, …) outside the deletion `if`, or the `if` has an else branch", rel)})
			}
		}
		return fmt.Sprintf("/-- generated from %s func logInfo.Handlers: keys of the PathHandlers literal (constants from %s) -/\ndef handlerPaths : List String :=\n  %s\n/-- generated from %s func logInfo.Handlers: keys removed by `delete(ph, …)` under the deletion condition -/\ndef handlerDropped : List String :=\n  %s\n",
			rel, typesRel, leanStrList(all), rel, leanStrList(dropped))
	}
}

// errSwitchKernel: a tagless `switch { case c1: return …, err … }` all of whose cases return a non-nil error;
// the result is the disjunction of the case conditions (= "this switch rejects").
func errSwitchKernel(rel, fn string, markers []string, leanName, params string, sp Spec) func() string {
	return func() string {
		fd := mustFunc(rel, fn)
		t := &tr{sp: sp}
		ss := findStmts(fd, func(s ast.Stmt) bool {
			sw, ok := s.(*ast.SwitchStmt)
			if !ok || sw.Tag != nil || sw.Init != nil {
				return false
			}
			c := src(sw.Body)
			for _, m := range markers {
				if !strings.Contains(c, m) {
					return false
				}
			}
			return true
		})
		if len(ss) != 1 {
			panic(bail{fmt.Sprintf("%s: expected one tagless switch mentioning %v in %s, found %d", rel, markers, fn, len(ss))})
		}
		var conds, srcs []string
		for _, c := range ss[0].(*ast.SwitchStmt).Body.List {
			cc := c.(*ast.CaseClause)
			if cc.List == nil {
				failf(cc, "default case in error switch")
			}
			if len(cc.Body) != 1 {
				failf(cc, "case body is not a single return")
			}
			r, ok := cc.Body[0].(*ast.ReturnStmt)
			if !ok || len(r.Results) == 0 || src(r.Results[len(r.Results)-1]) == "nil" {
				failf(cc, "case does not return an error: %s", src(cc))
			}
			for _, e := range cc.List {
				conds = append(conds, t.expr(e))
				srcs = append(srcs, src(e))
			}
		}
		return fmt.Sprintf("/-- generated from %s func %s: tagless switch, every case returns an error: `%s` -/\ndef %s %s : Bool :=\n  %s\n",
			rel, fn, strings.Join(srcs, "` | `"), leanName, params, "("+strings.Join(conds, " || ")+")")
	}
}

// getterSelect: the tagless switch of newLogInfo that assigns li.sthGetter; emitted as an if-chain over the
// case conditions returning 0 = FrozenSTHGetter, 1 = MirrorSTHGetter, 2 = LogSTHGetter.
func getterSelect(rel string, sp Spec) func() string {
	kinds := map[string]int{"FrozenSTHGetter": 0, "MirrorSTHGetter": 1, "LogSTHGetter": 2}
	return func() string {
		fd := mustFunc(rel, "newLogInfo")
		t := &tr{sp: sp}
		ss := findStmts(fd, func(s ast.Stmt) bool {
			sw, ok := s.(*ast.SwitchStmt)
			return ok && sw.Tag == nil && strings.Contains(src(sw.Body), "li.sthGetter")
		})
		if len(ss) != 1 {
			panic(bail{fmt.Sprintf("%s: expected one tagless switch assigning li.sthGetter in newLogInfo, found %d", rel, len(ss))})
		}
		// no other assignment to li.sthGetter anywhere in the function
		total := 0
		ast.Inspect(fd.Body, func(n ast.Node) bool {
			if a, ok := n.(*ast.AssignStmt); ok && len(a.Lhs) == 1 && src(a.Lhs[0]) == "li.sthGetter" {
				total++
			}
			return true
		})
		body := ""
		def := ""
		inSwitch := 0
		for _, c := range ss[0].(*ast.SwitchStmt).Body.List {
			cc := c.(*ast.CaseClause)
			kind := -1
			for _, st := range cc.Body {
				ast.Inspect(st, func(n ast.Node) bool {
					a, ok := n.(*ast.AssignStmt)
					if !ok || len(a.Lhs) != 1 || src(a.Lhs[0]) != "li.sthGetter" {
						return true
					}
					inSwitch++
					u, ok := a.Rhs[0].(*ast.UnaryExpr)
					if !ok || u.Op != token.AND {
						failf(a, "li.sthGetter is not assigned &T{…}")
					}
					cl, ok := u.X.(*ast.CompositeLit)
					if !ok {
						failf(a, "li.sthGetter is not assigned &T{…}")
					}
					k, ok := kinds[src(cl.Type)]
					if !ok {
						failf(a, "unknown STH getter type %s", src(cl.Type))
					}
					if kind != -1 {
						failf(a, "two assignments to li.sthGetter in one case")
					}
					kind = k
					return true
				})
			}
			if kind == -1 {
				failf(cc, "case does not assign li.sthGetter")
			}
			if cc.List == nil {
				def = strconv.Itoa(kind)
				continue
			}
			if len(cc.List) != 1 {
				failf(cc, "case with several conditions")
			}
			body += "if " + t.expr(cc.List[0]) + " then " + strconv.Itoa(kind) + " else\n  "
		}
		if def == "" {
			panic(bail{rel + ": getter switch has no default"})
		}
		if total != inSwitch {
			panic(bail{rel + ": li.sthGetter is assigned outside the selection switch"})
		}
		return fmt.Sprintf("/-- generated from %s func newLogInfo: which STH getter is installed (0 frozen, 1 mirror, 2 log) -/\ndef sthGetterSelect (frozenSet isMirror : Bool) : Nat :=\n  %s%s\n", rel, body, def)
	}
}

// callArgKernel translates argument number idx of the unique call to callee inside fn.
func callArgKernel(rel, fn, callee string, idx int, leanName, params, resultTy string, sp Spec) func() string {
	return func() string {
		fd := mustFunc(rel, fn)
		t := &tr{sp: sp}
		var calls []*ast.CallExpr
		ast.Inspect(fd.Body, func(n ast.Node) bool {
			if c, ok := n.(*ast.CallExpr); ok && src(c.Fun) == callee {
				calls = append(calls, c)
			}
			return true
		})
		if len(calls) != 1 || len(calls[0].Args) <= idx {
			panic(bail{fmt.Sprintf("%s: expected one call to %s in %s with more than %d arguments, found %d", rel, callee, fn, idx, len(calls))})
		}
		return fmt.Sprintf("/-- generated from %s func %s: argument %d of `%s` -/\ndef %s %s : %s :=\n  %s\n", rel, fn, idx, src(calls[0]), leanName, params, resultTy, t.expr(calls[0].Args[idx]))
	}
}

// mapTable: a package-level `var name = map[string]T{ "k": pkg.V, … }` as a list of (key, value source).
func mapTable(rel, name, leanName string) func() string {
	return func() string {
		f := parseFile(rp(rel))
		for _, d := range f.Decls {
			gd, ok := d.(*ast.GenDecl)
			if !ok || gd.Tok != token.VAR {
				continue
			}
			for _, s := range gd.Specs {
				vs := s.(*ast.ValueSpec)
				for i, n := range vs.Names {
					if n.Name != name || i >= len(vs.Values) {
						continue
					}
					cl, ok := vs.Values[i].(*ast.CompositeLit)
					if !ok {
						panic(bail{fmt.Sprintf("%s: %s is not a composite literal", rel, name)})
					}
					var rows []string
					for _, el := range cl.Elts {
						kv, ok := el.(*ast.KeyValueExpr)
						if !ok {
							failf(el, "map element without key")
						}
						kl, ok := kv.Key.(*ast.BasicLit)
						if !ok || kl.Kind != token.STRING {
							failf(el, "map key is not a string literal")
						}
						rows = append(rows, "("+kl.Value+", "+strconv.Quote(src(kv.Value))+")")
					}
					return fmt.Sprintf("/-- generated from %s: `var %s` (key, Go value expression) -/\ndef %s : List (String × String) :=\n  [%s]\n", rel, name, leanName, strings.Join(rows, ",\n   "))
				}
			}
		}
		panic(bail{fmt.Sprintf("%s: variable %s not found", rel, name)})
	}
}

// containsBranch reports whether a statement list contains break / continue / goto (outside nested function literals).
func containsBranch(list []ast.Stmt) bool {
	found := false
	for _, st := range list {
		ast.Inspect(st, func(n ast.Node) bool {
			switch n.(type) {
			case *ast.FuncLit:
				return false
			case *ast.BranchStmt:
				found = true
			}
			return !found
		})
	}
	return found
}

// connGuardFacts: the guards of ValidateLogConfig around `strings.Split(conn, "://")` that fixed F9:
//   - cfgConnPartsBad: the `if len(conn) …` condition that rejects,
//   - connIndexGuarded: every `conn[i]` occurs in a statement after that `if` in the same block, with a literal index
//     smaller than the length the guard lets through,
//   - connSchemes: the `switch conn[0]` cases as (scheme bytes, parser) with parser "mysql" (mysql.ParseDSN(conn[1])) or
//     "pg" (pgconn.ParseConfig(whole string)); the default case returns an error.
func connGuardFacts(rel string) func() string {
	return func() string {
		fd := mustFunc(rel, "ValidateLogConfig")
		// the block that declares conn
		var block []ast.Stmt
		ast.Inspect(fd.Body, func(n ast.Node) bool {
			var list []ast.Stmt
			switch x := n.(type) {
			case *ast.BlockStmt:
				list = x.List
			case *ast.CaseClause:
				list = x.Body
			}
			for _, st := range list {
				if a, ok := st.(*ast.AssignStmt); ok && len(a.Lhs) == 1 && src(a.Lhs[0]) == "conn" && strings.HasPrefix(src(a.Rhs[0]), "strings.Split(cfg.CtfeStorageConnectionString, \"://\")") {
					block = list
				}
			}
			return true
		})
		if block == nil {
			panic(bail{rel + ": `conn := strings.Split(cfg.CtfeStorageConnectionString, \"://\")` not found in ValidateLogConfig"})
		}
		guardAt, declAt := -1, -1
		var guard *ast.IfStmt
		for i, st := range block {
			if a, ok := st.(*ast.AssignStmt); ok && len(a.Lhs) == 1 && src(a.Lhs[0]) == "conn" {
				declAt = i
			}
			if is, ok := st.(*ast.IfStmt); ok && is.Init == nil && strings.Contains(src(is.Cond), "len(conn)") && guardAt < 0 {
				if !hasReturn(is.Body.List) || is.Else != nil {
					failf(is, "the len(conn) guard does not return")
				}
				guardAt, guard = i, is
			}
		}
		if guard == nil || guardAt != declAt+1 {
			panic(bail{rel + ": no `if len(conn) … { return … }` directly after the split"})
		}
		t := &tr{sp: Spec{Kind: "i64", Repl: map[string]string{"len(conn)": "nParts"}}}
		cond := t.expr(guard.Cond)
		// indices
		guarded := true
		nIdx := 0
		for i, st := range block {
			ast.Inspect(st, func(n ast.Node) bool {
				ix, ok := n.(*ast.IndexExpr)
				if !ok || src(ix.X) != "conn" {
					return true
				}
				nIdx++
				lit, ok := ix.Index.(*ast.BasicLit)
				if i <= guardAt || !ok || (lit.Value != "0" && lit.Value != "1") {
					guarded = false
				}
				return true
			})
		}
		// conn must not escape the block
		uses := 0
		ast.Inspect(fd.Body, func(n ast.Node) bool {
			if ix, ok := n.(*ast.IndexExpr); ok && src(ix.X) == "conn" {
				uses++
			}
			return true
		})
		if uses != nIdx {
			guarded = false
		}
		// the scheme switch
		var rows []string
		nsw := 0
		for _, st := range block {
			sw, ok := st.(*ast.SwitchStmt)
			if !ok || sw.Tag == nil || src(sw.Tag) != "conn[0]" {
				continue
			}
			nsw++
			hasDefault := false
			for _, c := range sw.Body.List {
				cc := c.(*ast.CaseClause)
				if cc.List == nil {
					hasDefault = true
					if len(cc.Body) != 1 || !hasReturn(cc.Body) {
						failf(cc, "default scheme case does not return an error")
					}
					continue
				}
				body := src(&ast.BlockStmt{List: cc.Body})
				parser := ""
				switch {
				case strings.Contains(body, "mysql.ParseDSN(conn[1])"):
					parser = "mysql"
				case strings.Contains(body, "pgconn.ParseConfig(cfg.CtfeStorageConnectionString)"):
					parser = "pg"
				default:
					failf(cc, "unrecognised scheme case body")
				}
				if !strings.Contains(body, "err != nil { return nil, ") {
					failf(cc, "scheme case does not return the parser's error")
				}
				for _, e := range cc.List {
					lit, ok := e.(*ast.BasicLit)
					if !ok {
						failf(e, "scheme is not a string literal")
					}
					v, _ := strconv.Unquote(lit.Value)
					var bs []string
					for _, b := range []byte(v) {
						bs = append(bs, strconv.Itoa(int(b)))
					}
					rows = append(rows, fmt.Sprintf("([%s], %q)", strings.Join(bs, ", "), parser))
				}
			}
			if !hasDefault {
				failf(sw, "scheme switch without default")
			}
		}
		if nsw != 1 {
			panic(bail{fmt.Sprintf("%s: expected one `switch conn[0]`, found %d", rel, nsw)})
		}
		return fmt.Sprintf("/-- generated from %s func ValidateLogConfig: `if %s { return … }` directly after `conn := strings.Split(…, \"://\")` -/\ndef cfgConnPartsBad (nParts : Int) : Bool :=\n  %s\n/-- generated: every `conn[i]` (%d of them) comes after that guard in the same block, with index 0 or 1 -/\ndef connIndexGuarded : Bool := %v\n/-- generated: `switch conn[0]` — (scheme bytes, parser: \"mysql\" = mysql.ParseDSN(conn[1]), \"pg\" = pgconn.ParseConfig(whole string)); default: error -/\ndef connSchemes : List (List UInt8 × String) :=\n  [%s]\n",
			rel, src(guard.Cond), cond, nIdx, guarded, strings.Join(rows, ", "))
	}
}

// nilSafeFacts: ValidateLogMultiConfig / BuildLogBackendMap reach the optional sub-messages only through the nil-safe
// getters (the fix of F9b/c): no selector `.Backends`, `.LogConfigs`, `.Backend`, `.Config` on a message value.
func nilSafeFacts(rel string) func() string {
	return func() string {
		bad := []string{}
		for _, fn := range []string{"ValidateLogMultiConfig", "BuildLogBackendMap"} {
			fd := mustFunc(rel, fn)
			ast.Inspect(fd.Body, func(n ast.Node) bool {
				sel, ok := n.(*ast.SelectorExpr)
				if !ok {
					return true
				}
				switch sel.Sel.Name {
				case "Backends", "LogConfigs", "Backend", "Config":
					bad = append(bad, fn+": "+src(sel))
				}
				return true
			})
		}
		return fmt.Sprintf("/-- generated from %s: ValidateLogMultiConfig and BuildLogBackendMap read `Backends`, `LogConfigs`, `Backend`, `Config` only\nthrough the nil-safe `Get…()` accessors (direct field selections found: %v) -/\ndef multiConfigNilSafe : Bool := %v\n", rel, bad, len(bad) == 0)
	}
}

// ekuLoopFact: the loop over cfg.ExtKeyUsages looks at every name: no break / continue / goto in it, and the branch for a
// name missing from stringToKeyUsage returns an error.
func ekuLoopFact(rel string) func() string {
	return func() string {
		fd := mustFunc(rel, "ValidateLogConfig")
		ss := findStmts(fd, func(s ast.Stmt) bool {
			rs, ok := s.(*ast.RangeStmt)
			return ok && src(rs.X) == "cfg.ExtKeyUsages"
		})
		if len(ss) != 1 {
			panic(bail{fmt.Sprintf("%s: expected one loop over cfg.ExtKeyUsages, found %d", rel, len(ss))})
		}
		rs := ss[0].(*ast.RangeStmt)
		every := !containsBranch(rs.Body.List)
		rejects := false
		for _, st := range rs.Body.List {
			is, ok := st.(*ast.IfStmt)
			if !ok || is.Init == nil || !strings.Contains(src(is.Init), "stringToKeyUsage["+src(rs.Value)+"]") || src(is.Cond) != "ok" {
				continue
			}
			if eb, ok := is.Else.(*ast.BlockStmt); ok && len(eb.List) == 1 && hasReturn(eb.List) {
				if r, ok := eb.List[0].(*ast.ReturnStmt); ok && len(r.Results) == 2 && src(r.Results[0]) == "nil" && src(r.Results[1]) != "nil" {
					rejects = true
				}
			}
			if hasReturn(is.Body.List) {
				every = false // a return in the known-name branch would end the loop early
			}
		}
		return fmt.Sprintf("/-- generated from %s func ValidateLogConfig, loop over cfg.ExtKeyUsages: no break / continue / early return for a known\nname (every name is looked at) -/\ndef ekuLoopChecksEveryName : Bool := %v\n/-- generated: a name missing from stringToKeyUsage returns an error -/\ndef ekuLoopRejectsUnknown : Bool := %v\n", rel, every, rejects)
	}
}

func init() {
	c := "trillian/ctfe/config.go"
	h := "trillian/ctfe/handlers.go"
	in := "trillian/ctfe/instance.go"
	pb := "trillian/ctfe/configpb/config.pb.go"
	register(genFile{name: "Config", imports: []string{"CTV.Basic.I64"}, units: []unit{
		{"storageBackendTrillian", constKernel(pb, "LogConfig_ISSUANCE_CHAIN_STORAGE_BACKEND_TRILLIAN_GRPC", "storageBackendTrillian", intLit)},
		{"storageBackendCtfe", constKernel(pb, "LogConfig_ISSUANCE_CHAIN_STORAGE_BACKEND_CTFE", "storageBackendCtfe", intLit)},
		{"cfgEmptyLogId", condKernel(c, "ValidateLogConfig", []string{"cfg.LogId"}, "cfgEmptyLogId", "(logId_ : Int)",
			Spec{Kind: "i64", Repl: map[string]string{"cfg.LogId": "logId_"}})},
		{"cfgRejectsAll", condKernel(c, "ValidateLogConfig", []string{"cfg.RejectExpired", "cfg.RejectUnexpired"}, "cfgRejectsAll", "(rejectExpired rejectUnexpired : Bool)",
			Spec{Kind: "i64", Repl: map[string]string{"cfg.RejectExpired": "rejectExpired", "cfg.RejectUnexpired": "rejectUnexpired"}})},
		{"cfgLimitBeforeStart", condKernel(c, "ValidateLogConfig", []string{"start != nil", "limit != nil"}, "cfgLimitBeforeStart", "(startSet limitSet : Bool) (start_ limit_ : Int)",
			Spec{Kind: "i64", Repl: map[string]string{"start != nil": "startSet", "limit != nil": "limitSet",
				"(*vCfg.NotAfterLimit)": "limit_", "*vCfg.NotAfterLimit": "limit_", "(*vCfg.NotAfterStart)": "start_", "*vCfg.NotAfterStart": "start_"}})},
		{"cfgMergeDelayBad", errSwitchKernel(c, "ValidateLogConfig", []string{"MaxMergeDelaySec", "ExpectedMergeDelaySec"}, "cfgMergeDelayBad", "(max_ exp_ : Int)",
			Spec{Kind: "i64", Repl: map[string]string{"cfg.MaxMergeDelaySec": "max_", "cfg.ExpectedMergeDelaySec": "exp_"}})},
		{"cfgConnMissing", condKernel(c, "ValidateLogConfig", []string{"len(cfg.CtfeStorageConnectionString)"}, "cfgConnMissing", "(connLen : Int)",
			Spec{Kind: "i64", Repl: map[string]string{"len(cfg.CtfeStorageConnectionString)": "connLen"}})},
		{"backendNameEmpty", condKernel(c, "BuildLogBackendMap", []string{"len(be.Name)"}, "backendNameEmpty", "(nameLen : Int)",
			Spec{Kind: "i64", Repl: map[string]string{"len(be.Name)": "nameLen"}})},
		{"backendSpecEmpty", condKernel(c, "BuildLogBackendMap", []string{"len(be.BackendSpec)"}, "backendSpecEmpty", "(specLen : Int)",
			Spec{Kind: "i64", Repl: map[string]string{"len(be.BackendSpec)": "specLen"}})},
		{"prefixEmpty", condKernel(c, "validateConfigs", []string{"len(logCfg.Prefix)"}, "prefixEmpty", "(prefixLen : Int)",
			Spec{Kind: "i64", Repl: map[string]string{"len(logCfg.Prefix)": "prefixLen"}})},
		{"setupNeedsRoots", condKernel(in, "setUpLogInfo", []string{"len(cfg.RootsPemFile)"}, "setupNeedsRoots", "(isMirror : Bool) (nRoots : Int)",
			Spec{Kind: "i64", Repl: map[string]string{"cfg.IsMirror": "isMirror", "len(cfg.RootsPemFile)": "nRoots"}})},
		{"handlersDropAdd", condKernel(h, "logInfo.Handlers", []string{"IsReadonly", "IsMirror"}, "handlersDropAdd", "(isReadonly isMirror : Bool)",
			Spec{Kind: "i64", Repl: map[string]string{"li.instanceOpts.Validated.Config.IsReadonly": "isReadonly", "li.instanceOpts.Validated.Config.IsMirror": "isMirror"}})},
		{"handlerTable", handlerTable(h, "types.go")},
		{"sthGetterSelect", getterSelect(h, Spec{Kind: "i64", Repl: map[string]string{"vCfg.FrozenSTH != nil": "frozenSet", "cfg.IsMirror": "isMirror"}})},
		{"mirrorMaxTreeSize", callArgKernel("trillian/ctfe/sth.go", "MirrorSTHGetter.GetSTH", "sg.st.GetMirrorSTH", 1, "mirrorMaxTreeSize", "(treeSize_ : Int)", "Int",
			Spec{Kind: "i64", Repl: map[string]string{"currentRoot.TreeSize": "treeSize_"}})},
		{"ekuTable", mapTable(c, "stringToKeyUsage", "ekuTable")},
		{"connGuardFacts", connGuardFacts(c)},
		{"nilSafeFacts", nilSafeFacts(c)},
		{"ekuLoopFact", ekuLoopFact(c)},
	}})
}
