package main

// Regenerated units for C15 (configuration validation / instance set-up):
// comparisons and constants of ValidateLogConfig, BuildLogBackendMap, validateConfigs,
// setUpLogInfo, the Handlers() table with its deletion condition, the STH-getter
// selection of newLogInfo, the argument MirrorSTHGetter passes to its storage and
// the extended-key-usage name table.

import (
	"fmt"
	"go/ast"
	"go/token"
	"strconv"
	"strings"
)

// stringConsts reads `Name = "literal"` constants of a file.
func stringConsts(rel string) map[string]string {
	out := map[string]string{}
	f := parseFile(rp(rel))
	for _, d := range f.Decls {
		gd, ok := d.(*ast.GenDecl)
		if !ok || gd.Tok != token.CONST {
			continue
		}
		for _, s := range gd.Specs {
			vs := s.(*ast.ValueSpec)
			for i, n := range vs.Names {
				if i < len(vs.Values) {
					if b, ok := vs.Values[i].(*ast.BasicLit); ok && b.Kind == token.STRING {
						if v, err := strconv.Unquote(b.Value); err == nil {
							out[n.Name] = v
						}
					}
				}
			}
		}
	}
	return out
}

func leanStrList(l []string) string {
	var q []string
	for _, s := range l {
		q = append(q, strconv.Quote(s))
	}
	return "[" + strings.Join(q, ", ") + "]"
}

// handlerTable: the keys of the PathHandlers literal in logInfo.Handlers (`prefix + ct.XPath`), resolved
// through the string constants of types.go, and the keys removed by the `delete(ph, prefix+ct.XPath)`
// statements inside the `if` that follows.
func handlerTable(rel, typesRel string) func() string {
	return func() string {
		fd := mustFunc(rel, "logInfo.Handlers")
		consts := stringConsts(typesRel)
		resolve := func(e ast.Expr) string {
			b, ok := e.(*ast.BinaryExpr)
			if !ok || b.Op != token.ADD || src(b.X) != "prefix" {
				failf(e, "handler key is not `prefix + ct.<Path>`: %s", src(e))
			}
			sel, ok := b.Y.(*ast.SelectorExpr)
			if !ok || src(sel.X) != "ct" {
				failf(e, "handler key is not `prefix + ct.<Path>`: %s", src(e))
			}
			v, ok := consts[sel.Sel.Name]
			if !ok {
				failf(e, "constant ct.%s not found in %s", sel.Sel.Name, typesRel)
			}
			return v
		}
		var all, dropped []string
		nLit := 0
		ast.Inspect(fd.Body, func(n ast.Node) bool {
			switch x := n.(type) {
			case *ast.CompositeLit:
				if src(x.Type) == "PathHandlers" {
					nLit++
					for _, el := range x.Elts {
						kv, ok := el.(*ast.KeyValueExpr)
						if !ok {
							failf(el, "PathHandlers element without key")
						}
						all = append(all, resolve(kv.Key))
					}
				}
			case *ast.CallExpr:
				if src(x.Fun) == "delete" && len(x.Args) == 2 && src(x.Args[0]) == "ph" {
					dropped = append(dropped, resolve(x.Args[1]))
				}
			}
			return true
		})
		if nLit != 1 {
			panic(bail{fmt.Sprintf("%s: expected one PathHandlers literal in Handlers, found %d", rel, nLit)})
		}
		// every delete must sit inside the single `if` (the deletion condition kernel); anything else leaves the subset
		ifs := findStmts(fd, func(s ast.Stmt) bool {
			i, ok := s.(*ast.IfStmt)
			if !ok {
				return false
			}
			has := false
			ast.Inspect(i.Body, func(n ast.Node) bool {
				if c, ok := n.(*ast.CallExpr); ok && src(c.Fun) == "delete" {
					has = true
				}
				return true
			})
			return has
		})
		if len(dropped) > 0 && len(ifs) != 1 {
			panic(bail{fmt.Sprintf("%s: delete(ph, …) statements are not inside exactly one if (found %d)", rel, len(ifs))})
		}
		if len(ifs) == 1 {
			cnt := 0
			ast.Inspect(ifs[0].(*ast.IfStmt).Body, func(n ast.Node) bool {
				if c, ok := n.(*ast.CallExpr); ok && src(c.Fun) == "delete" {
					cnt++
				}
				return true
			})
			if cnt != len(dropped) || ifs[0].(*ast.IfStmt).Else != nil {
				panic(bail{fmt.Sprintf("%s: delete(ph, …) outside the deletion `if`, or the `if` has an else branch", rel)})
			}
		}
		return fmt.Sprintf("/-- generated from %s func logInfo.Handlers: keys of the PathHandlers literal (constants from %s) -/\ndef handlerPaths : List String :=\n  %s\n/-- generated from %s func logInfo.Handlers: keys removed by `delete(ph, …)` under the deletion condition -/\ndef handlerDropped : List String :=\n  %s\n",
			rel, typesRel, leanStrList(all), rel, leanStrList(dropped))
	}
}

// errSwitchKernel: a tagless `switch { case c1: return …, err … }` all of whose cases return a non-nil error;
// the result is the disjunction of the case conditions (= "this switch rejects").
func errSwitchKernel(rel, fn string, markers []string, leanName, params string, sp Spec) func() string {
	return func() string {
		fd := mustFunc(rel, fn)
		t := &tr{sp: sp}
		ss := findStmts(fd, func(s ast.Stmt) bool {
			sw, ok := s.(*ast.SwitchStmt)
			if !ok || sw.Tag != nil || sw.Init != nil {
				return false
			}
			c := src(sw.Body)
			for _, m := range markers {
				if !strings.Contains(c, m) {
					return false
				}
			}
			return true
		})
		if len(ss) != 1 {
			panic(bail{fmt.Sprintf("%s: expected one tagless switch mentioning %v in %s, found %d", rel, markers, fn, len(ss))})
		}
		var conds, srcs []string
		for _, c := range ss[0].(*ast.SwitchStmt).Body.List {
			cc := c.(*ast.CaseClause)
			if cc.List == nil {
				failf(cc, "default case in error switch")
			}
			if len(cc.Body) != 1 {
				failf(cc, "case body is not a single return")
			}
			r, ok := cc.Body[0].(*ast.ReturnStmt)
			if !ok || len(r.Results) == 0 || src(r.Results[len(r.Results)-1]) == "nil" {
				failf(cc, "case does not return an error: %s", src(cc))
			}
			for _, e := range cc.List {
				conds = append(conds, t.expr(e))
				srcs = append(srcs, src(e))
			}
		}
		return fmt.Sprintf("/-- generated from %s func %s: tagless switch, every case returns an error: `%s` -/\ndef %s %s : Bool :=\n  %s\n",
			rel, fn, strings.Join(srcs, "` | `"), leanName, params, "("+strings.Join(conds, " || ")+")")
	}
}

// getterSelect: the tagless switch of newLogInfo that assigns li.sthGetter; emitted as an if-chain over the
// case conditions returning 0 = FrozenSTHGetter, 1 = MirrorSTHGetter, 2 = LogSTHGetter.
func getterSelect(rel string, sp Spec) func() string {
	kinds := map[string]int{"FrozenSTHGetter": 0, "MirrorSTHGetter": 1, "LogSTHGetter": 2}
	// litKind: e is &T{…} with T one of the three getters
	litKind := func(e ast.Expr) (int, bool) {
		u, ok := e.(*ast.UnaryExpr)
		if !ok || u.Op != token.AND {
			return 0, false
		}
		cl, ok := u.X.(*ast.CompositeLit)
		if !ok {
			return 0, false
		}
		k, ok := kinds[src(cl.Type)]
		return k, ok
	}
	// cond: a selection condition as a Lean Bool over frozenSet / isMirror. Recognised by role, not by the local names:
	// `<…>.FrozenSTH != nil` / `== nil` (also through `v := <…>.FrozenSTH; v != nil`), `<…>.IsMirror`, `!<…>.IsMirror`.
	cond := func(init ast.Stmt, e ast.Expr) string {
		bound := map[string]string{}
		if as, ok := init.(*ast.AssignStmt); ok && as.Tok == token.DEFINE && len(as.Lhs) == 1 && len(as.Rhs) == 1 {
			bound[src(as.Lhs[0])] = norm(src(as.Rhs[0]))
		} else if init != nil {
			failf(init, "unrecognised init statement in the STH getter selection")
		}
		role := func(x ast.Expr) string {
			t := norm(src(x))
			if v, ok := bound[t]; ok {
				t = v
			}
			switch {
			case strings.HasSuffix(t, ".FrozenSTH"):
				return "frozen"
			case strings.HasSuffix(t, ".IsMirror"):
				return "mirror"
			}
			return ""
		}
		var f func(x ast.Expr) string
		f = func(x ast.Expr) string {
			switch y := x.(type) {
			case *ast.ParenExpr:
				return f(y.X)
			case *ast.UnaryExpr:
				if y.Op == token.NOT {
					return "(!" + f(y.X) + ")"
				}
			case *ast.BinaryExpr:
				if (y.Op == token.NEQ || y.Op == token.EQL) && src(y.Y) == "nil" && role(y.X) == "frozen" {
					if y.Op == token.NEQ {
						return "frozenSet"
					}
					return "(!frozenSet)"
				}
			case *ast.SelectorExpr, *ast.Ident:
				if role(y) == "mirror" {
					return "isMirror"
				}
			}
			failf(x, "unrecognised STH getter selection condition %s", src(x))
			return ""
		}
		return f(e)
	}
	return func() string {
		fd := mustFunc(rel, "newLogInfo")
		var assigns []*ast.AssignStmt
		ast.Inspect(fd.Body, func(n ast.Node) bool {
			if a, ok := n.(*ast.AssignStmt); ok && len(a.Lhs) == 1 && src(a.Lhs[0]) == "li.sthGetter" {
				assigns = append(assigns, a)
			}
			return true
		})
		header := "/-- generated from %s func newLogInfo: which STH getter is installed (0 frozen, 1 mirror, 2 log) -/\ndef sthGetterSelect (frozenSet isMirror : Bool) : Nat :=\n  %s\n"
		// shape B: `li.sthGetter = li.newX()` / `newX(…)`, the selection being a chain of early returns in that same-file function
		if len(assigns) == 1 && len(assigns[0].Rhs) == 1 {
			if c, ok := assigns[0].Rhs[0].(*ast.CallExpr); ok {
				var h *ast.FuncDecl
				switch fn := c.Fun.(type) {
				case *ast.Ident:
					h = findFunc(parseFile(rp(rel)), fn.Name)
				case *ast.SelectorExpr:
					if src(fn.X) == "li" {
						h = findFunc(parseFile(rp(rel)), "logInfo."+fn.Sel.Name)
					}
				}
				if h == nil {
					failf(c, "li.sthGetter is assigned the result of a call that is not a function of this file")
				}
				body := ""
				done := false
				for _, st := range h.Body.List {
					if done {
						failf(st, "statement after the final return of the STH getter selection")
					}
					switch x := st.(type) {
					case *ast.ReturnStmt:
						k, ok := 0, false
						if len(x.Results) == 1 {
							k, ok = litKind(x.Results[0])
						}
						if !ok {
							failf(x, "the STH getter selection does not return &T{…}")
						}
						body += strconv.Itoa(k)
						done = true
					case *ast.IfStmt:
						if !hasReturn(x.Body.List) && !hasReturn(elseList(x.Else)) {
							continue // prepares a value (`if st == nil { st = … }`), selects nothing
						}
						if x.Else != nil || len(x.Body.List) != 1 {
							failf(x, "unrecognised branch in the STH getter selection")
						}
						r, ok := x.Body.List[0].(*ast.ReturnStmt)
						k, ok2 := 0, false
						if ok && len(r.Results) == 1 {
							k, ok2 = litKind(r.Results[0])
						}
						if !ok2 {
							failf(x, "the STH getter selection does not return &T{…}")
						}
						body += "if " + cond(x.Init, x.Cond) + " then " + strconv.Itoa(k) + " else\n  "
					case *ast.AssignStmt, *ast.DeclStmt:
						// local preparation
					default:
						failf(st, "unrecognised statement in the STH getter selection (%T)", st)
					}
				}
				if !done {
					panic(bail{rel + ": the STH getter selection has no final return"})
				}
				return fmt.Sprintf(header, rel, body)
			}
		}
		// shape A: a tagless switch in newLogInfo whose every clause assigns li.sthGetter = &T{…}
		ss := findStmts(fd, func(s ast.Stmt) bool {
			sw, ok := s.(*ast.SwitchStmt)
			return ok && sw.Tag == nil && strings.Contains(src(sw.Body), "li.sthGetter")
		})
		if len(ss) != 1 {
			panic(bail{fmt.Sprintf("%s: expected one tagless switch assigning li.sthGetter in newLogInfo (or one call of a selecting function), found %d", rel, len(ss))})
		}
		total := len(assigns)
		body := ""
		def := ""
		inSwitch := 0
		for _, c := range ss[0].(*ast.SwitchStmt).Body.List {
			cc := c.(*ast.CaseClause)
			kind := -1
			for _, st := range cc.Body {
				ast.Inspect(st, func(n ast.Node) bool {
					a, ok := n.(*ast.AssignStmt)
					if !ok || len(a.Lhs) != 1 || src(a.Lhs[0]) != "li.sthGetter" {
						return true
					}
					inSwitch++
					k, ok := litKind(a.Rhs[0])
					if !ok {
						failf(a, "li.sthGetter is not assigned &T{…} of a known STH getter type")
					}
					if kind != -1 {
						failf(a, "two assignments to li.sthGetter in one case")
					}
					kind = k
					return true
				})
			}
			if kind == -1 {
				failf(cc, "case does not assign li.sthGetter")
			}
			if cc.List == nil {
				def = strconv.Itoa(kind)
				continue
			}
			if len(cc.List) != 1 {
				failf(cc, "case with several conditions")
			}
			body += "if " + cond(nil, cc.List[0]) + " then " + strconv.Itoa(kind) + " else\n  "
		}
		if def == "" {
			panic(bail{rel + ": getter switch has no default"})
		}
		if total != inSwitch {
			panic(bail{rel + ": li.sthGetter is assigned outside the selection switch"})
		}
		return fmt.Sprintf(header, rel, body+def)
	}
}

// callArgKernel translates argument number idx of the unique call to callee inside fn.
func callArgKernel(rel, fn, callee string, idx int, leanName, params, resultTy string, sp Spec) func() string {
	return func() string {
		fd := mustFunc(rel, fn)
		t := &tr{sp: sp}
		var calls []*ast.CallExpr
		ast.Inspect(fd.Body, func(n ast.Node) bool {
			if c, ok := n.(*ast.CallExpr); ok && src(c.Fun) == callee {
				calls = append(calls, c)
			}
			return true
		})
		if len(calls) != 1 || len(calls[0].Args) <= idx {
			panic(bail{fmt.Sprintf("%s: expected one call to %s in %s with more than %d arguments, found %d", rel, callee, fn, idx, len(calls))})
		}
		// a hoisted argument (`max := int64(root.TreeSize); f(ctx, max)`) is the expression it was defined by
		arg := calls[0].Args[idx]
		if id, ok := arg.(*ast.Ident); ok {
			defs := findStmts(fd, func(s ast.Stmt) bool {
				a, ok := s.(*ast.AssignStmt)
				if !ok || len(a.Lhs) != len(a.Rhs) {
					return false
				}
				for _, l := range a.Lhs {
					if src(l) == id.Name {
						return true
					}
				}
				return false
			})
			if len(defs) == 1 {
				a := defs[0].(*ast.AssignStmt)
				for i, l := range a.Lhs {
					if src(l) == id.Name {
						arg = a.Rhs[i]
					}
				}
			}
		}
		return fmt.Sprintf("/-- generated from %s func %s: argument %d of `%s` -/\ndef %s %s : %s :=\n  %s\n", rel, fn, idx, src(calls[0]), leanName, params, resultTy, t.expr(arg))
	}
}

// mapTable: a package-level `var name = map[string]T{ "k": pkg.V, … }` as a list of (key, value source).
func mapTable(rel, name, leanName string) func() string {
	return func() string {
		f := parseFile(rp(rel))
		for _, d := range f.Decls {
			gd, ok := d.(*ast.GenDecl)
			if !ok || gd.Tok != token.VAR {
				continue
			}
			for _, s := range gd.Specs {
				vs := s.(*ast.ValueSpec)
				for i, n := range vs.Names {
					if n.Name != name || i >= len(vs.Values) {
						continue
					}
					cl, ok := vs.Values[i].(*ast.CompositeLit)
					if !ok {
						panic(bail{fmt.Sprintf("%s: %s is not a composite literal", rel, name)})
					}
					var rows []string
					for _, el := range cl.Elts {
						kv, ok := el.(*ast.KeyValueExpr)
						if !ok {
							failf(el, "map element without key")
						}
						kl, ok := kv.Key.(*ast.BasicLit)
						if !ok || kl.Kind != token.STRING {
							failf(el, "map key is not a string literal")
						}
						rows = append(rows, "("+kl.Value+", "+strconv.Quote(src(kv.Value))+")")
					}
					return fmt.Sprintf("/-- generated from %s: `var %s` (key, Go value expression) -/\ndef %s : List (String × String) :=\n  [%s]\n", rel, name, leanName, strings.Join(rows, ",\n   "))
				}
			}
		}
		panic(bail{fmt.Sprintf("%s: variable %s not found", rel, name)})
	}
}

// containsBranch reports whether a statement list contains break / continue / goto (outside nested function literals).
func containsBranch(list []ast.Stmt) bool {
	found := false
	for _, st := range list {
		ast.Inspect(st, func(n ast.Node) bool {
			switch n.(type) {
			case *ast.FuncLit:
				return false
			case *ast.BranchStmt:
				found = true
			}
			return !found
		})
	}
	return found
}

// connGuardFacts: the guards of ValidateLogConfig around `strings.Split(conn, "://")` that fixed F9:
//   - cfgConnPartsBad: the `if len(conn) …` condition that rejects,
//   - connIndexGuarded: every `conn[i]` occurs in a statement after that `if` in the same block, with a literal index
//     smaller than the length the guard lets through,
//   - connSchemes: the `switch conn[0]` cases as (scheme bytes, parser) with parser "mysql" (mysql.ParseDSN(conn[1])) or
//     "pg" (pgconn.ParseConfig(whole string)); the default case returns an error.
func connGuardFacts(rel string) func() string {
	return func() string {
		ic := intConsts(rel)
		sc := stringConsts(rel)
		lit := func(e ast.Expr) string { // a literal or a named constant
			if b, ok := e.(*ast.BasicLit); ok {
				return b.Value
			}
			if id, ok := e.(*ast.Ident); ok {
				if v, ok := ic[id.Name]; ok {
					return v
				}
				if v, ok := sc[id.Name]; ok {
					return strconv.Quote(v)
				}
			}
			return ""
		}
		// the block (in ValidateLogConfig or a helper it calls) that splits a string on "://"
		var block []ast.Stmt
		var fnBody *ast.BlockStmt
		splitVar, whole := "", ""
		for _, fd := range funcsReachable(rel, "ValidateLogConfig") {
			ast.Inspect(fd.Body, func(n ast.Node) bool {
				var list []ast.Stmt
				switch x := n.(type) {
				case *ast.BlockStmt:
					list = x.List
				case *ast.CaseClause:
					list = x.Body
				}
				for _, st := range list {
					a, ok := st.(*ast.AssignStmt)
					if !ok || len(a.Lhs) != 1 || len(a.Rhs) != 1 || callName(a.Rhs[0]) != "strings.Split" {
						continue
					}
					c := a.Rhs[0].(*ast.CallExpr)
					if len(c.Args) == 2 && lit(c.Args[1]) == `"://"` {
						if block != nil {
							failf(st, "a second split on \"://\"")
						}
						block, fnBody, splitVar, whole = list, fd.Body, src(a.Lhs[0]), norm(src(c.Args[0]))
					}
				}
				return true
			})
		}
		if block == nil {
			panic(bail{rel + ": no `x := strings.Split(<connection string>, \"://\")` in ValidateLogConfig or a helper it calls"})
		}
		guardAt, declAt := -1, -1
		var guard *ast.IfStmt
		for i, st := range block {
			if a, ok := st.(*ast.AssignStmt); ok && len(a.Lhs) == 1 && src(a.Lhs[0]) == splitVar && callName(a.Rhs[0]) == "strings.Split" {
				declAt = i
			}
			if is, ok := st.(*ast.IfStmt); ok && is.Init == nil && strings.Contains(norm(src(is.Cond)), "len("+splitVar+")") && guardAt < 0 {
				if !endsInErrReturn(is.Body.List) || is.Else != nil {
					failf(is, "the length guard does not return an error")
				}
				guardAt, guard = i, is
			}
		}
		if guard == nil || guardAt != declAt+1 {
			panic(bail{rel + ": no `if len(" + splitVar + ") … { return … }` directly after the split"})
		}
		t := &tr{sp: Spec{Kind: "i64", Repl: withConsts(rel, map[string]string{"len(" + splitVar + ")": "nParts"})}}
		cond := t.expr(guard.Cond)
		guarded := true
		nIdx := 0
		for i, st := range block {
			ast.Inspect(st, func(n ast.Node) bool {
				ix, ok := n.(*ast.IndexExpr)
				if !ok || src(ix.X) != splitVar {
					return true
				}
				nIdx++
				if v := lit(ix.Index); i <= guardAt || (v != "0" && v != "1") {
					guarded = false
				}
				return true
			})
		}
		uses := 0
		ast.Inspect(fnBody, func(n ast.Node) bool {
			if ix, ok := n.(*ast.IndexExpr); ok && src(ix.X) == splitVar {
				uses++
			}
			return true
		})
		if uses != nIdx {
			guarded = false
		}
		var rows []string
		nsw := 0
		for _, st := range block {
			sw, ok := st.(*ast.SwitchStmt)
			if !ok || sw.Tag == nil || norm(src(sw.Tag)) != splitVar+"[0]" {
				continue
			}
			nsw++
			hasDefault := false
			for _, c := range sw.Body.List {
				cc := c.(*ast.CaseClause)
				if cc.List == nil {
					hasDefault = true
					if !endsInErrReturn(cc.Body) {
						failf(cc, "default scheme case does not return an error")
					}
					continue
				}
				parser := ""
				nerr := 0
				for _, b := range cc.Body {
					ast.Inspect(b, func(n ast.Node) bool {
						switch y := n.(type) {
						case *ast.CallExpr:
							switch src(y.Fun) {
							case "mysql.ParseDSN":
								if len(y.Args) == 1 && norm(src(y.Args[0])) == splitVar+"[1]" {
									parser = "mysql"
								}
							case "pgconn.ParseConfig":
								if len(y.Args) == 1 && norm(src(y.Args[0])) == whole {
									parser = "pg"
								}
							}
						case *ast.IfStmt:
							if norm(src(y.Cond)) == "err!=nil" && endsInErrReturn(y.Body.List) {
								nerr++
							}
						}
						return true
					})
				}
				if parser == "" || nerr == 0 {
					failf(cc, "unrecognised scheme case (parser call on the expected argument + error return)")
				}
				for _, e := range cc.List {
					v, err := strconv.Unquote(lit(e))
					if err != nil {
						failf(e, "scheme is not a string constant")
					}
					var bs []string
					for _, b := range []byte(v) {
						bs = append(bs, strconv.Itoa(int(b)))
					}
					rows = append(rows, fmt.Sprintf("([%s], %q)", strings.Join(bs, ", "), parser))
				}
			}
			if !hasDefault {
				failf(sw, "scheme switch without default")
			}
		}
		if nsw != 1 {
			panic(bail{fmt.Sprintf("%s: expected one switch on element 0 of the split, found %d", rel, nsw)})
		}
		return fmt.Sprintf("/-- generated from %s (ValidateLogConfig or a helper it calls): `if %s { return … }` directly after the split of the connection string on \"://\" -/\ndef cfgConnPartsBad (nParts : Int) : Bool :=\n  %s\n/-- generated: every index into the split (%d of them) comes after that guard in the same block, with index 0 or 1 -/\ndef connIndexGuarded : Bool := %v\n/-- generated: the switch on element 0 — (scheme bytes, parser: \"mysql\" = mysql.ParseDSN(element 1), \"pg\" = pgconn.ParseConfig(whole string)); default: error -/\ndef connSchemes : List (List UInt8 × String) :=\n  [%s]\n",
			rel, src(guard.Cond), cond, nIdx, guarded, strings.Join(rows, ", "))
	}
}

// nilSafeFacts: ValidateLogMultiConfig / BuildLogBackendMap reach the optional sub-messages only through the nil-safe
// getters (the fix of F9b/c): no selector `.Backends`, `.LogConfigs`, `.Backend`, `.Config` on a message value.
func nilSafeFacts(rel string) func() string {
	return func() string {
		bad := []string{}
		for _, fn := range []string{"ValidateLogMultiConfig", "BuildLogBackendMap"} {
			fd := mustFunc(rel, fn)
			ast.Inspect(fd.Body, func(n ast.Node) bool {
				sel, ok := n.(*ast.SelectorExpr)
				if !ok {
					return true
				}
				switch sel.Sel.Name {
				case "Backends", "LogConfigs", "Backend", "Config":
					bad = append(bad, fn+": "+src(sel))
				}
				return true
			})
		}
		return fmt.Sprintf("/-- generated from %s: ValidateLogMultiConfig and BuildLogBackendMap read `Backends`, `LogConfigs`, `Backend`, `Config` only\nthrough the nil-safe `Get…()` accessors (direct field selections found: %v) -/\ndef multiConfigNilSafe : Bool := %v\n", rel, bad, len(bad) == 0)
	}
}

// ekuLoopFact: the loop over cfg.ExtKeyUsages looks at every name: no break / continue / goto in it, and the branch for a
// name missing from stringToKeyUsage returns an error.
func ekuLoopFact(rel string) func() string {
	return func() string {
		fd := mustFunc(rel, "ValidateLogConfig")
		ss := findStmts(fd, func(s ast.Stmt) bool {
			rs, ok := s.(*ast.RangeStmt)
			return ok && strings.HasSuffix(src(rs.X), ".ExtKeyUsages")
		})
		if len(ss) != 1 {
			panic(bail{fmt.Sprintf("%s: expected one loop over ….ExtKeyUsages, found %d", rel, len(ss))})
		}
		rs := ss[0].(*ast.RangeStmt)
		every := !containsBranch(rs.Body.List)
		// any return inside the loop must be a rejection (an early `return …, nil` would skip the remaining names)
		ast.Inspect(rs.Body, func(n ast.Node) bool {
			if _, ok := n.(*ast.FuncLit); ok {
				return false
			}
			if r, ok := n.(*ast.ReturnStmt); ok && (len(r.Results) == 0 || src(r.Results[len(r.Results)-1]) == "nil") {
				every = false
			}
			return true
		})
		// the name is looked up in stringToKeyUsage and a miss is rejected: `if v, ok := m[name]; ok {…} else { return …, err }`
		// or `v, ok := m[name]; if !ok { return …, err }`
		rejects := false
		okVar := ""
		lookup := "stringToKeyUsage[" + src(rs.Value) + "]"
		for _, st := range rs.Body.List {
			switch x := st.(type) {
			case *ast.AssignStmt:
				if len(x.Lhs) == 2 && len(x.Rhs) == 1 && norm(src(x.Rhs[0])) == lookup {
					okVar = src(x.Lhs[1])
				}
			case *ast.IfStmt:
				if as, ok := x.Init.(*ast.AssignStmt); ok && len(as.Lhs) == 2 && len(as.Rhs) == 1 && norm(src(as.Rhs[0])) == lookup {
					ov := src(as.Lhs[1])
					if eb, ok := x.Else.(*ast.BlockStmt); ok && src(x.Cond) == ov && endsInErrReturn(eb.List) {
						rejects = true
					}
					if src(x.Cond) == "!"+ov && endsInErrReturn(x.Body.List) {
						rejects = true
					}
				}
				if okVar != "" && x.Init == nil && src(x.Cond) == "!"+okVar && endsInErrReturn(x.Body.List) {
					rejects = true
				}
				if okVar != "" && x.Init == nil && src(x.Cond) == okVar {
					if eb, ok := x.Else.(*ast.BlockStmt); ok && endsInErrReturn(eb.List) {
						rejects = true
					}
				}
			}
		}
		return fmt.Sprintf("/-- generated from %s func ValidateLogConfig, loop over the configured EKU names: no break / continue / early successful\nreturn (every name is looked at) -/\ndef ekuLoopChecksEveryName : Bool := %v\n/-- generated: a name missing from stringToKeyUsage returns an error -/\ndef ekuLoopRejectsUnknown : Bool := %v\n", rel, every, rejects)
	}
}

// ---- units that survive harmless rewrites (robustness round) -----------------------------------------------------------

// intConsts: package-level integer constants of a file (name -> literal).
func intConsts(rel string) map[string]string {
	out := map[string]string{}
	for _, d := range parseFile(rp(rel)).Decls {
		gd, ok := d.(*ast.GenDecl)
		if !ok || gd.Tok != token.CONST {
			continue
		}
		for _, sp := range gd.Specs {
			vs := sp.(*ast.ValueSpec)
			for i, n := range vs.Names {
				if i < len(vs.Values) {
					if b, ok := vs.Values[i].(*ast.BasicLit); ok && b.Kind == token.INT {
						out[n.Name] = b.Value
					}
				}
			}
		}
	}
	return out
}

// withConsts returns Repl extended by the integer / string constants of the file (a named constant reads as its literal).
func withConsts(rel string, repl map[string]string) map[string]string {
	out := map[string]string{}
	for k, v := range repl {
		out[k] = v
	}
	for k, v := range intConsts(rel) {
		if _, ok := out[k]; !ok {
			out[k] = "(" + v + " : Int)"
		}
	}
	return out
}

// funcsReachable: fn and the same-file helpers it calls (one level), fn first.
func funcsReachable(rel, fn string) []*ast.FuncDecl {
	f := parseFile(rp(rel))
	fd := mustFunc(rel, fn)
	out := []*ast.FuncDecl{fd}
	seen := map[string]bool{fd.Name.Name: true}
	ast.Inspect(fd.Body, func(n ast.Node) bool {
		if c, ok := n.(*ast.CallExpr); ok {
			if id, ok := c.Fun.(*ast.Ident); ok && !seen[id.Name] {
				if h := findFunc(f, id.Name); h != nil && h.Body != nil {
					seen[id.Name] = true
					out = append(out, h)
				}
			}
		}
		return true
	})
	return out
}

// endsInErrReturn: the block's last statement returns with a non-nil last result.
func endsInErrReturn(list []ast.Stmt) bool {
	if len(list) == 0 {
		return false
	}
	r, ok := list[len(list)-1].(*ast.ReturnStmt)
	return ok && len(r.Results) > 0 && src(r.Results[len(r.Results)-1]) != "nil"
}

// rejectCondsKernel: the disjunction of every rejecting condition of fn that mentions one of the markers — whether the code
// writes them as cases of a tagless switch or as a sequence of `if c { return …, err }` (any order of writing gives the same
// Boolean). At least `atLeast` conditions must be found.
func rejectCondsKernel(rel, fn string, markers []string, atLeast int, leanName, params string, sp Spec) func() string {
	return func() string {
		fd := mustFunc(rel, fn)
		sp.Canon = true
		t := &tr{sp: sp, file: parseFile(rp(rel))}
		t.prepare(fd)
		mentions := func(e ast.Expr) bool {
			c := norm(src(t.subst(e)))
			for _, m := range markers {
				if strings.Contains(c, norm(m)) {
					return true
				}
			}
			return false
		}
		var conds, srcs []string
		ast.Inspect(fd.Body, func(n ast.Node) bool {
			switch x := n.(type) {
			case *ast.FuncLit:
				return false
			case *ast.SwitchStmt:
				if x.Tag != nil || x.Init != nil {
					return true
				}
				for _, c := range x.Body.List {
					cc := c.(*ast.CaseClause)
					for _, e := range cc.List {
						if mentions(e) {
							if !endsInErrReturn(cc.Body) {
								failf(cc, "a case on %v does not return an error", markers)
							}
							t.aliasesOnPathTo(x)
							conds = append(conds, t.expr(e))
							srcs = append(srcs, src(e))
						}
					}
				}
			case *ast.IfStmt:
				if x.Init == nil && mentions(x.Cond) {
					if !endsInErrReturn(x.Body.List) || x.Else != nil {
						failf(x, "an `if` on %v is not a plain rejection", markers)
					}
					t.aliasesOnPathTo(x)
					conds = append(conds, t.expr(x.Cond))
					srcs = append(srcs, src(x.Cond))
				}
			}
			return true
		})
		if len(conds) < atLeast {
			panic(bail{fmt.Sprintf("%s: expected at least %d rejecting conditions on %v in %s, found %d", rel, atLeast, markers, fn, len(conds))})
		}
		return fmt.Sprintf("/-- generated from %s func %s: every rejecting condition on %v (switch cases or `if`s), as a disjunction: `%s` -/\ndef %s %s : Bool :=\n  %s\n",
			rel, fn, markers, strings.Join(srcs, "` | `"), leanName, params, "("+strings.Join(conds, " || ")+")")
	}
}

// windowCondKernel: the rejecting `if` of ValidateLogConfig that compares the two NotAfter bounds: a conjunction of
// `<…NotAfterStart> != nil`, `<…NotAfterLimit> != nil` (the proto fields or the parsed pointers: one is set iff the other is)
// and `<…NotAfterLimit>.Before(<…NotAfterStart>)`, in any order and whatever the locals are called.
func windowCondKernel(rel, fn, leanName string) func() string {
	return func() string {
		fd := mustFunc(rel, fn)
		var hit *ast.IfStmt
		n := 0
		// the comparison sits in fn or in a same-file helper it calls (one level): an `if` whose condition calls Before/After and
		// whose function mentions the NotAfter fields
		for _, g := range funcsReachable(rel, fn) {
			if !strings.Contains(src(g.Body), "NotAfter") {
				continue
			}
			for _, st := range findStmts(g, func(s ast.Stmt) bool {
				i, ok := s.(*ast.IfStmt)
				return ok && (strings.Contains(src(i.Cond), ".Before(") || strings.Contains(src(i.Cond), ".After(")) && (strings.Contains(src(i.Cond), "NotAfter") || g != fd)
			}) {
				hit = st.(*ast.IfStmt)
				fd = g
				n++
			}
		}
		if n != 1 {
			panic(bail{fmt.Sprintf("%s: expected one `if` comparing the NotAfter bounds with Before in %s, found %d", rel, fn, n)})
		}
		t := &tr{sp: Spec{Kind: "i64", Canon: true}, file: parseFile(rp(rel))}
		t.prepare(fd)
		if !endsInErrReturn(hit.Body.List) || hit.Else != nil || hit.Init != nil {
			failf(hit, "the NotAfter comparison is not a plain rejection")
		}
		t.aliasesOnPathTo(hit)
		// origins: for a local that is only ever assigned (`v = &t`, `t := ts.AsTime()`, `if ts := cfg.NotAfterX; …`), the access
		// paths its value comes from, each resolved in the scope of the assignment
		origins := func(name string) []string {
			var out []string
			var resolve func(e ast.Expr, env map[string]ast.Expr, depth int) string
			resolve = func(e ast.Expr, env map[string]ast.Expr, depth int) string {
				for depth < 8 {
					depth++
					switch x := e.(type) {
					case *ast.ParenExpr:
						e = x.X
						continue
					case *ast.StarExpr:
						e = x.X
						continue
					case *ast.UnaryExpr:
						if x.Op == token.AND {
							e = x.X
							continue
						}
					case *ast.CallExpr:
						if sel, ok := x.Fun.(*ast.SelectorExpr); ok && sel.Sel.Name == "AsTime" && len(x.Args) == 0 {
							e = sel.X
							continue
						}
					case *ast.Ident:
						if d, ok := env[x.Name]; ok {
							e = d
							continue
						}
					}
					break
				}
				return norm(src(e))
			}
			var walk func(list []ast.Stmt, env map[string]ast.Expr)
			walk = func(list []ast.Stmt, env map[string]ast.Expr) {
				env2 := map[string]ast.Expr{}
				for k, v := range env {
					env2[k] = v
				}
				env = env2
				def := func(st ast.Stmt) {
					as, ok := st.(*ast.AssignStmt)
					if !ok || len(as.Lhs) != len(as.Rhs) {
						return
					}
					for k := range as.Lhs {
						id, ok := as.Lhs[k].(*ast.Ident)
						if !ok {
							continue
						}
						if id.Name == name && as.Tok == token.ASSIGN {
							out = append(out, resolve(as.Rhs[k], env, 0))
						} else if as.Tok == token.DEFINE {
							env[id.Name] = as.Rhs[k]
						}
					}
				}
				for _, st := range list {
					switch x := st.(type) {
					case *ast.AssignStmt:
						def(x)
					case *ast.IfStmt:
						env3 := map[string]ast.Expr{}
						for k, v := range env {
							env3[k] = v
						}
						saved := env
						env = env3
						if x.Init != nil {
							def(x.Init)
						}
						walk(x.Body.List, env)
						walk(elseList(x.Else), env)
						env = saved
					case *ast.BlockStmt:
						walk(x.List, env)
					}
				}
			}
			walk(fd.Body.List, map[string]ast.Expr{})
			return out
		}
		which := func(e ast.Expr) string {
			c := norm(src(t.subst(e)))
			c = strings.TrimSuffix(strings.TrimPrefix(strings.TrimPrefix(c, "(*"), "*"), ")")
			cs := []string{c}
			if !strings.Contains(c, ".") {
				if os := origins(c); len(os) > 0 {
					cs = os
				}
			}
			r := ""
			for i, c := range cs {
				w := ""
				switch {
				case strings.HasSuffix(c, "NotAfterStart"):
					w = "start"
				case strings.HasSuffix(c, "NotAfterLimit"):
					w = "limit"
				}
				if i > 0 && w != r {
					return ""
				}
				r = w
			}
			return r
		}
		var conj func(e ast.Expr) string
		conj = func(e ast.Expr) string {
			switch x := e.(type) {
			case *ast.ParenExpr:
				return conj(x.X)
			case *ast.BinaryExpr:
				if x.Op == token.LAND {
					return "(" + conj(x.X) + " && " + conj(x.Y) + ")"
				}
				if x.Op == token.NEQ && src(x.Y) == "nil" {
					switch which(x.X) {
					case "start":
						return "startSet"
					case "limit":
						return "limitSet"
					}
				}
			case *ast.CallExpr:
				if sel, ok := x.Fun.(*ast.SelectorExpr); ok && len(x.Args) == 1 {
					a, b := which(sel.X), which(x.Args[0])
					vn := map[string]string{"start": "start_", "limit": "limit_"}
					if a != "" && b != "" {
						switch sel.Sel.Name {
						case "Before":
							return "(decide (" + vn[a] + " < " + vn[b] + "))"
						case "After":
							return "(decide (" + vn[a] + " > " + vn[b] + "))"
						}
					}
				}
			}
			failf(e, "unsupported operand of the NotAfter comparison: %s", src(e))
			return ""
		}
		return fmt.Sprintf("/-- generated from %s func %s: `if %s` (operands named by the field they end in) -/\ndef %s (startSet limitSet : Bool) (start_ limit_ : Int) : Bool :=\n  %s\n",
			rel, fn, src(hit.Cond), leanName, conj(hit.Cond))
	}
}

// handlerSetKernel: the set of handler paths `Handlers` builds, as a function of the two configuration bits: the keys of the
// PathHandlers literal, plus keys assigned (`ph[prefix+ct.X] = …`) and minus keys deleted (`delete(ph, prefix+ct.X)`) under a
// top-level `if` on those bits — either way of writing "no submission endpoints for read-only logs and mirrors".
func handlerSetKernel(rel, typesRel string, sp Spec) func() string {
	return func() string {
		fd := mustFunc(rel, "logInfo.Handlers")
		consts := stringConsts(typesRel)
		sp.Canon = true
		t := &tr{sp: sp, file: parseFile(rp(rel))}
		t.prepare(fd)
		resolve := func(e ast.Expr) string {
			b, ok := e.(*ast.BinaryExpr)
			if !ok || b.Op != token.ADD {
				failf(e, "handler key is not `<prefix> + ct.<Path>`: %s", src(e))
			}
			sel, ok := b.Y.(*ast.SelectorExpr)
			if !ok || src(sel.X) != "ct" {
				failf(e, "handler key is not `<prefix> + ct.<Path>`: %s", src(e))
			}
			v, ok := consts[sel.Sel.Name]
			if !ok {
				failf(e, "constant ct.%s not found in %s", sel.Sel.Name, typesRel)
			}
			return v
		}
		var base []string
		mapVar := ""
		var terms []string // Lean: how the base list is modified, in source order
		for _, st := range fd.Body.List {
			switch x := st.(type) {
			case *ast.AssignStmt:
				if len(x.Rhs) == 1 {
					if cl, ok := x.Rhs[0].(*ast.CompositeLit); ok && src(cl.Type) == "PathHandlers" {
						if mapVar != "" {
							failf(x, "two PathHandlers literals")
						}
						mapVar = src(x.Lhs[0])
						for _, el := range cl.Elts {
							kv, ok := el.(*ast.KeyValueExpr)
							if !ok {
								failf(el, "PathHandlers element without key")
							}
							base = append(base, resolve(kv.Key))
						}
					}
				}
			case *ast.IfStmt:
				if mapVar == "" {
					continue
				}
				var add, del []string
				other := false
				for _, b := range x.Body.List {
					switch y := b.(type) {
					case *ast.ExprStmt:
						if c, ok := y.X.(*ast.CallExpr); ok && src(c.Fun) == "delete" && len(c.Args) == 2 && src(c.Args[0]) == mapVar {
							del = append(del, resolve(c.Args[1]))
							continue
						}
						other = true
					case *ast.AssignStmt:
						if ix, ok := y.Lhs[0].(*ast.IndexExpr); ok && len(y.Lhs) == 1 && src(ix.X) == mapVar {
							add = append(add, resolve(ix.Index))
							continue
						}
						other = true
					default:
						other = true
					}
				}
				if len(add)+len(del) == 0 {
					continue
				}
				if other || x.Else != nil {
					failf(x, "the conditional part of Handlers does more than adding / deleting handlers")
				}
				t.aliasesOnPathTo(x)
				t.aliasIfInit(x)
				c := t.expr(x.Cond)
				if len(add) > 0 {
					terms = append(terms, fmt.Sprintf("fun l => if %s then l ++ %s else l", c, leanStrList(add)))
				}
				if len(del) > 0 {
					terms = append(terms, fmt.Sprintf("fun l => if %s then l.filter (fun p => !(%s).contains p) else l", c, leanStrList(del)))
				}
			}
		}
		// no other mutation of the map anywhere
		n := 0
		ast.Inspect(fd.Body, func(nd ast.Node) bool {
			switch y := nd.(type) {
			case *ast.CallExpr:
				if src(y.Fun) == "delete" {
					n++
				}
			case *ast.AssignStmt:
				if ix, ok := y.Lhs[0].(*ast.IndexExpr); ok && src(ix.X) == mapVar {
					n++
				}
			}
			return true
		})
		if mapVar == "" {
			panic(bail{rel + ": no PathHandlers literal in Handlers"})
		}
		body := leanStrList(base)
		cnt := 0
		for _, tm := range terms {
			body = "(" + tm + ") (" + body + ")"
			cnt += strings.Count(tm, "\"/ct/")
		}
		if n != cnt {
			panic(bail{fmt.Sprintf("%s: Handlers changes the handler map outside a top-level `if` (%d changes, %d understood)", rel, n, cnt)})
		}
		return fmt.Sprintf("/-- generated from %s func logInfo.Handlers: the paths served, from the PathHandlers literal and the conditional additions /\ndeletions that follow it (path constants from %s) -/\ndef handlerPathsFor (isReadonly isMirror : Bool) : List String :=\n  %s\n", rel, typesRel, body)
	}
}

func init() {
	c := "trillian/ctfe/config.go"
	h := "trillian/ctfe/handlers.go"
	in := "trillian/ctfe/instance.go"
	pb := "trillian/ctfe/configpb/config.pb.go"
	register(genFile{name: "Config", imports: []string{"CTV.Basic.I64"}, units: []unit{
		{"storageBackendTrillian", constKernel(pb, "LogConfig_ISSUANCE_CHAIN_STORAGE_BACKEND_TRILLIAN_GRPC", "storageBackendTrillian", intLit)},
		{"storageBackendCtfe", constKernel(pb, "LogConfig_ISSUANCE_CHAIN_STORAGE_BACKEND_CTFE", "storageBackendCtfe", intLit)},
		{"cfgEmptyLogId", condKernel(c, "ValidateLogConfig", []string{"cfg.LogId"}, "cfgEmptyLogId", "(logId_ : Int)",
			Spec{Kind: "i64", Canon: true, ParamNames: []string{"cfg"}, Repl: map[string]string{"cfg.LogId": "logId_"}})},
		{"cfgRejectsAll", condKernel(c, "ValidateLogConfig", []string{"cfg.RejectExpired", "cfg.RejectUnexpired"}, "cfgRejectsAll", "(rejectExpired rejectUnexpired : Bool)",
			Spec{Kind: "i64", Canon: true, ParamNames: []string{"cfg"}, Repl: map[string]string{"cfg.RejectExpired": "rejectExpired", "cfg.RejectUnexpired": "rejectUnexpired"}})},
		{"cfgLimitBeforeStart", windowCondKernel(c, "ValidateLogConfig", "cfgLimitBeforeStart")},
		{"cfgMergeDelayBad", rejectCondsKernel(c, "ValidateLogConfig", []string{".MaxMergeDelaySec", ".ExpectedMergeDelaySec"}, 3, "cfgMergeDelayBad", "(max_ exp_ : Int)",
			Spec{Kind: "i64", ParamNames: []string{"cfg"}, Repl: map[string]string{"cfg.MaxMergeDelaySec": "max_", "cfg.ExpectedMergeDelaySec": "exp_"}})},
		{"cfgConnMissing", condKernel(c, "ValidateLogConfig", []string{"len(cfg.CtfeStorageConnectionString)"}, "cfgConnMissing", "(connLen : Int)",
			Spec{Kind: "i64", Canon: true, ParamNames: []string{"cfg"}, Repl: map[string]string{"len(cfg.CtfeStorageConnectionString)": "connLen"}})},
		{"backendNameEmpty", condKernel(c, "BuildLogBackendMap", []string{"len(", ".Name)"}, "backendNameEmpty", "(nameLen : Int)",
			Spec{Kind: "i64", Canon: true, Repl: map[string]string{"len(….Name)": "nameLen"}})},
		{"backendSpecEmpty", condKernel(c, "BuildLogBackendMap", []string{"len(", ".BackendSpec)"}, "backendSpecEmpty", "(specLen : Int)",
			Spec{Kind: "i64", Canon: true, Repl: map[string]string{"len(….BackendSpec)": "specLen"}})},
		{"prefixEmpty", condKernel(c, "validateConfigs", []string{"len(", ".Prefix)"}, "prefixEmpty", "(prefixLen : Int)",
			Spec{Kind: "i64", Canon: true, Repl: map[string]string{"len(….Prefix)": "prefixLen"}})},
		{"setupNeedsRoots", condKernel(in, "setUpLogInfo", []string{"len(", ".RootsPemFile)"}, "setupNeedsRoots", "(isMirror : Bool) (nRoots : Int)",
			Spec{Kind: "i64", Canon: true, ParamNames: []string{"ctx", "opts"}, Repl: map[string]string{"opts.Validated.Config.IsMirror": "isMirror", "cfg.IsMirror": "isMirror", "len(….RootsPemFile)": "nRoots"}})},
		{"handlerPathsFor", handlerSetKernel(h, "types.go",
			Spec{Kind: "i64", Repl: map[string]string{"li.instanceOpts.Validated.Config.IsReadonly": "isReadonly", "li.instanceOpts.Validated.Config.IsMirror": "isMirror"}})},
		{"sthGetterSelect", getterSelect(h, Spec{Kind: "i64", Repl: map[string]string{"vCfg.FrozenSTH != nil": "frozenSet", "cfg.IsMirror": "isMirror"}})},
		{"mirrorMaxTreeSize", callArgKernel("trillian/ctfe/sth.go", "MirrorSTHGetter.GetSTH", "sg.st.GetMirrorSTH", 1, "mirrorMaxTreeSize", "(treeSize_ : Int)", "Int",
			Spec{Kind: "i64", Repl: map[string]string{"currentRoot.TreeSize": "treeSize_"}})},
		{"ekuTable", mapTable(c, "stringToKeyUsage", "ekuTable")},
		{"connGuardFacts", connGuardFacts(c)},
		{"nilSafeFacts", nilSafeFacts(c)},
		{"ekuLoopFact", ekuLoopFact(c)},
	}})
}

// segmentsKernel: the body of fn, one Lean Bool per top-level statement that can return, in source order: "this statement lets
// the call go on" (false = it returns an error). Each statement is translated whole (nested tests in their order) but on its
// own, so that the term stays linear in the size of the function; the function accepts iff every entry is true.
func segmentsKernel(rel, fn, leanName, params string, sp Spec) func() string {
	return func() string {
		fd := mustFunc(rel, fn)
		var segs []string
		for i, st := range fd.Body.List {
			if !hasReturn([]ast.Stmt{st}) {
				continue
			}
			if _, ok := st.(*ast.ReturnStmt); ok {
				continue // the final successful return
			}
			t := &tr{sp: sp, file: parseFile(rp(rel))}
			t.prepare(fd)
			t.aliasesOnPathTo(st)
			seg := []ast.Stmt{st}
			// `…, err := helper(…)` directly followed by `if err != nil { return … }` is one statement that can return
			if is, ok := st.(*ast.IfStmt); ok && is.Init == nil && norm(src(is.Cond)) == "err!=nil" && i > 0 {
				if as, ok := fd.Body.List[i-1].(*ast.AssignStmt); ok && len(as.Rhs) == 1 && src(as.Lhs[len(as.Lhs)-1]) == "err" {
					if _, isCall := as.Rhs[0].(*ast.CallExpr); isCall {
						seg = []ast.Stmt{as, st}
					}
				}
			}
			segs = append(segs, "(" + strings.ReplaceAll(t.block(seg, "true", "    "), "\n", "\n  ") + ")")
		}
		return fmt.Sprintf("/-- generated from %s func %s: its top-level statements that can return, in source order, each as \"does not reject\" -/\ndef %s %s : List Bool :=\n  [%s]\n",
			rel, fn, leanName, params, strings.Join(segs, ",\n   "))
	}
}

// ---- deepening round: whole bodies -------------------------------------------------------------------------------------------

func init() {
	c := "trillian/ctfe/config.go"
	register(genFile{name: "ConfigBodies", imports: []string{"CTV.Basic.I64", "CTV.Basic.ErrKind"}, units: []unit{
		{"validateLogConfigChecks", func() string { return segmentsKernel(c, "ValidateLogConfig", "validateLogConfigChecks",
			"(logId_ : Int) (pubSet pubBad isMirror frozenSet privSet privBad rejectExpired rejectUnexpired ekuBad startSet startBad limitSet limitBad : Bool) (start_ limit_ max_ exp_ : Int) (verifierFails shapeFails sigFails : Bool) (storage_ connLen nParts : Int) (scheme_ : String) (dsnBad pgBad : Bool)",
			Spec{Kind: "i64", Lazy: true, Canon: true, Inline: true, ParamNames: []string{"cfg"}, Ret: "errlastbool", Ignore: []string{"klog."},
				IgnoreLHS: []string{"vCfg.PrivKey", "vCfg.KeyUsages", "vCfg.NotAfterStart", "*vCfg.NotAfterStart", "vCfg.NotAfterLimit", "*vCfg.NotAfterLimit",
					"vCfg.FrozenSTH", "vCfg.CTFEStorageConnectionString", "vCfg.ExtraDataIssuanceChainStorageBackend", "vCfg.PubKey",
					// the bounds kept in locals of a helper before they reach vCfg (`start = &t`): like the vCfg fields above, what is
					// stored is not followed here (C18's windowVerbatim does that); `*start` / `limit` below name the two times compared
					"start", "limit"},
				InitCond: map[string]string{
					"pubKey := cfg.PublicKey ; pubKey != nil":                                   "pubSet",
					"vCfg.PubKey, err = x509.ParsePKIXPublicKey(pubKey.Der) ; err != nil":       "pubBad",
					"err := start.CheckValid() ; err != nil":                                    "startBad",
					"err := limit.CheckValid() ; err != nil":                                    "limitBad",
					"err := cfg.NotAfterStart.CheckValid() ; err != nil":                        "startBad",
					"err := cfg.NotAfterLimit.CheckValid() ; err != nil":                        "limitBad",
					"sth := cfg.FrozenSth ; cfg.FrozenSth != nil":                               "frozenSet",
					"pubKey := cfg.PublicKey ; cfg.PublicKey != nil":                            "pubSet",
					"vCfg.PubKey, err = x509.ParsePKIXPublicKey(cfg.PublicKey.Der) ; err != nil": "pubBad",
					"sth := cfg.FrozenSth ; sth != nil":                                         "frozenSet",
					"err := verifier.VerifySTHSignature(*vCfg.FrozenSTH) ; err != nil":          "sigFails",
					"_, err := mysql.ParseDSN(conn[1]) ; err != nil":                            "dsnBad",
					"_, err := pgconn.ParseConfig(cfg.CtfeStorageConnectionString) ; err != nil": "pgBad"},
				RangeAnyReturn: map[string]string{"cfg.ExtKeyUsages": "ekuBad"},
				InitCondByCall: map[string]string{".ToSignedTreeHead": "shapeFails", ".VerifySTHSignature": "sigFails", ".ParseDSN": "dsnBad", ".ParseConfig": "pgBad", ".ParsePKIXPublicKey": "pubBad"},
				ErrCalls: map[string]string{"cfg.PrivateKey.UnmarshalNew": "privBad", "ct.NewSignatureVerifier": "verifierFails", "(&ct.GetSTHResponse{": "shapeFails"},
				Repl: withConsts(c, map[string]string{"cfg.LogId": "logId_", "cfg.IsMirror": "isMirror", "cfg.FrozenSth != nil": "frozenSet", "cfg.PrivateKey == nil": "(!privSet)", "cfg.PrivateKey != nil": "privSet", "cfg.PublicKey != nil": "pubSet", "pubKey != nil": "pubSet",
					"cfg.NotAfterStart != nil": "startSet", "cfg.NotAfterLimit != nil": "limitSet", "start != nil": "startSet", "limit != nil": "limitSet",
					"vCfg.NotAfterStart != nil": "startSet", "vCfg.NotAfterLimit != nil": "limitSet", "vCfg.NotAfterLimit": "limit_", "vCfg.NotAfterStart": "start_",
					"(*vCfg.NotAfterLimit)": "limit_", "*vCfg.NotAfterLimit": "limit_", "(*vCfg.NotAfterStart)": "start_", "*vCfg.NotAfterStart": "start_",
					"*start": "start_", "*limit": "limit_", "limit": "limit_", "start": "start_",
					"len(cfg.ExtKeyUsages) > 0": "true", "cfg.ExtraDataIssuanceChainStorageBackend": "storage_", "conn[0]": "scheme_",
					"configpb.LogConfig_ISSUANCE_CHAIN_STORAGE_BACKEND_CTFE": "(1 : Int)", "configpb.LogConfig_ISSUANCE_CHAIN_STORAGE_BACKEND_TRILLIAN_GRPC": "(0 : Int)", "len(cfg.CtfeStorageConnectionString)": "connLen", "len(conn)": "nParts",
					"cfg.RejectExpired": "rejectExpired", "cfg.RejectUnexpired": "rejectUnexpired",
					"cfg.MaxMergeDelaySec": "max_", "cfg.ExpectedMergeDelaySec": "exp_"})})() }},
		// storage.NewIssuanceChainStorage: (0 no storage / 1 a storage, is-error) by backend value and connection-string prefix
		{"newChainStorageBody", handlerKernel("trillian/ctfe/storage/storage.go", "NewIssuanceChainStorage", "newChainStorageBody",
			"(backend_ : Int) (mysqlPrefix pgPrefix : Bool)", "Nat × Bool", "", "(0, false)",
			Spec{Kind: "i64", Lazy: true, Ret: "statusstate",
				Status: map[string]int{"nil": 0, "mysql.NewIssuanceChainStorage(ctx, dbConn)": 1, "postgresql.NewIssuanceChainStorage(ctx, dbConn)": 1},
				Repl: map[string]string{"backend": "backend_", "strings.HasPrefix(dbConn, \"mysql\")": "mysqlPrefix", "strings.HasPrefix(dbConn, \"postgres\")": "pgPrefix",
					"configpb.LogConfig_ISSUANCE_CHAIN_STORAGE_BACKEND_CTFE": "(1 : Int)", "configpb.LogConfig_ISSUANCE_CHAIN_STORAGE_BACKEND_TRILLIAN_GRPC": "(0 : Int)"}})},
		// setUpLogInfo: (which chain service the instance gets: 0 none (error) / 1 in-backend / 2 external storage, is-error)
		{"setUpLogInfoBody", handlerKernel("trillian/ctfe/instance.go", "setUpLogInfo", "setUpLogInfoBody",
			"(isMirror : Bool) (nRoots : Int) (rootsFail signerFails pubSet pubEcdsa pubEd25519 pubRsa pubConsistent oidsFail storageFails storageNil cacheFails : Bool)",
			"Nat × Bool", "", "(0, false)",
			Spec{Kind: "i64", Lazy: true, Canon: true, Inline: true, ParamNames: []string{"ctx", "opts"}, Ret: "statusstate", Ignore: []string{"klog."},
				Status: map[string]int{"nil": 0, "newLogInfo(opts, validationOpts, signer, new(util.SystemTimeSource), &directIssuanceChainService{})": 1, "logInfo": 2,
					// the same under the canonical (alias-substituted) name of the service argument: which service is handed to newLogInfo
					"newLogInfo(opts,validationOpts,signer,new(util.SystemTimeSource),&directIssuanceChainService{})": 1,
					"newLogInfo(opts,validationOpts,signer,new(util.SystemTimeSource),newIndirectIssuanceChainService(issuanceChainStorage,issuanceChainCache))": 2},
				RangeAnyReturn: map[string]string{"opts.Validated.Config.RootsPemFile": "rootsFail", "cfg.RootsPemFile": "rootsFail"},
				ErrCalls: map[string]string{"keys.NewSigner": "signerFails", "parseOIDs": "oidsFail", "storage.NewIssuanceChainStorage": "storageFails", "cache.NewIssuanceChainCache": "cacheFails"},
				TypeSwitch: map[string]map[string]string{"opts.Validated.PubKey": {"*ecdsa.PublicKey": "pubEcdsa", "ed25519.PublicKey": "pubEd25519", "*rsa.PublicKey": "pubRsa"},
					"vCfg.PubKey": {"*ecdsa.PublicKey": "pubEcdsa", "ed25519.PublicKey": "pubEd25519", "*rsa.PublicKey": "pubRsa"}},
				IgnoreLHS: []string{"validationOpts.rejectExtIds"},
				Repl: map[string]string{"opts.Validated.Config.IsMirror": "isMirror", "cfg.IsMirror": "isMirror", "len(cfg.RootsPemFile)": "nRoots", "len(opts.Validated.Config.RootsPemFile)": "nRoots",
					"opts.Validated.PubKey != nil": "pubSet", "vCfg.PubKey != nil": "pubSet", "pub.Equal(signer.Public())": "pubConsistent",
					"issuanceChainStorage == nil": "storageNil"}})},
	}})
}
