package main

// Regenerated check sequences of the CTFE handlers (trillian/ctfe/handlers.go, sth.go): every handler body is
// translated whole, statement by statement, into a Lean function of the facts the handler tests (is the reply's
// root decodable, how many leaves came back, did the signer fail, …). What is kept: the ORDER of the tests, the
// status returned by each, whether an error accompanies it, and the position of the backend call and of the SCT
// issuance relative to the tests. What is abstracted (inputs): the values of the tested facts themselves.

import (
	"fmt"
	"go/ast"
)

// handlerKernel translates the whole body of fn after `prelude` (Lean let-bindings initialising state variables).
func handlerKernel(rel, fn, leanName, params, resultTy, prelude, tail string, sp Spec) func() string {
	return func() string {
		fd := mustFunc(rel, fn)
		t := &tr{sp: sp, file: parseFile(rp(rel))}
		t.prepare(fd)
		body := t.block(fd.Body.List, tail, "  ")
		_ = ast.Inspect
		return fmt.Sprintf("/-- generated from %s func %s (whole body) -/\ndef %s %s : %s :=\n  %s%s\n", rel, fn, leanName, params, resultTy, prelude, body)
	}
}

func init() {
	h := "trillian/ctfe/handlers.go"
	sthgo := "trillian/ctfe/sth.go"
	ign := []string{"klog.", "li.RequestLog.", "w.Header()", "recordStartPercent", "lastSCTTimestamp.", "lastSTHTimestamp.", "lastSTHTreeSize.",
		"a.Info.RequestLog.", "reqsCounter.", "rspsCounter.", "rspLatency.", "func()", "cancel"}
	rootInit := "err := currentRoot.UnmarshalBinary(rsp.GetSignedLogRoot().GetLogRoot()) ; err != nil"
	st := httpStatus
	pre := "let rpc_ := false\n  "
	common := func(extra map[string]string) map[string]string {
		m := map[string]string{"li.toHTTPStatus(err)": "mapped", "currentRoot.TreeSize": "rootSize", "httpStatus": "rpcStatus"}
		for k, v := range extra {
			m[k] = v
		}
		return m
	}
	register(genFile{name: "HandlerChecks", imports: []string{"CTV.Basic.I64", "CTV.Basic.ErrKind"}, units: []unit{
		{"ServeHTTP", handlerKernel(h, "AppHandler.ServeHTTP", "serveHTTP",
			"(methodBad isGet formBad handlerErr : Bool) (statusCode_ : Int)", "Int × Bool",
			"let sent_ := (0 : Int)\n  let called_ := false\n  ", "(sent_, called_)",
			Spec{Kind: "i64", Lazy: true, Inline: true, Ret: "stateonly", StateVars: []string{"sent_", "called_"}, Ignore: ign, Status: st,
				IgnoreLHS:  []string{"statusCode", "label0", "label1", "startTime", "logCtx", "err"},
				InputCalls: []string{"context.WithDeadline"},
				ErrCalls:   map[string]string{"a.Handler": "handlerErr|called_ := true"},
				Effects:    map[string]string{"a.Info.SendHTTPError": "sent_ := $1"},
				InitCond:   map[string]string{"err := r.ParseForm() ; err != nil": "formBad"},
				Repl:       map[string]string{"r.Method != a.Method": "methodBad", "r.Method == http.MethodGet": "isGet"}})},
		{"addChainInternal", handlerKernel(h, "addChainInternal", "addChainInternal",
			"(bodyBad chainBad leafBuildBad buildFails rpcFails : Bool) (mapped : Nat) (rspNil qlNil leafNil leafUndecodable trailing signFails sctMarshalFails writeFails : Bool)",
			"Nat × Bool × Bool × Bool", pre+"let sct_ := false\n  ", "(0, false, rpc_, sct_)",
			Spec{Kind: "i64", Lazy: true, Inline: true, InitCondByCall: map[string]string{".UnmarshalBinary": "rootBad"}, Ret: "statusstate", StateVars: []string{"rpc_", "sct_"}, Ignore: ign, Status: st,
				IgnoreLHS: []string{"method", "etype", "timeMillis", "req", "loggedLeaf"},
				ErrCalls: map[string]string{"ParseBodyAsJSONChain": "bodyBad", "verifyAddChain": "chainBad", "ct.MerkleTreeLeafFromChain": "leafBuildBad",
					"li.buildLeaf": "buildFails", "li.rpcClient.QueueLeaf": "rpcFails|rpc_ := true", "buildV1SCT": "signFails",
					"tls.Marshal": "sctMarshalFails", "marshalAndWriteAddChainResponse": "writeFails", "tls.Unmarshal": "leafUndecodable"},
				Bind: map[string]string{"li.rpcClient.QueueLeaf": "rsp", "tls.Unmarshal": "rest"},
				Effects:  map[string]string{"li.RequestLog.IssueSCT": "sct_ := true"},
				InitCond: map[string]string{"rest, err := tls.Unmarshal(rsp.QueuedLeaf.Leaf.LeafValue, &loggedLeaf) ; err != nil": "leafUndecodable"},
				Repl: common(map[string]string{"rsp == nil": "rspNil", "rsp.QueuedLeaf == nil": "qlNil", "rsp.QueuedLeaf.Leaf == nil": "leafNil",
					"len(rest) > 0": "trailing"})})},
		{"getSTH", handlerKernel(h, "getSTH", "getSTHHandler", "(sthFails : Bool) (mapped : Nat) (writeFails : Bool)", "Nat × Bool", "", "(0, false)",
			Spec{Kind: "i64", Lazy: true, Inline: true, InitCondByCall: map[string]string{".UnmarshalBinary": "rootBad"}, Ret: "statusstate", Ignore: ign, Status: st, IgnoreLHS: []string{"qctx", "rqu"},
				ErrCalls: map[string]string{"li.getSTH": "sthFails"},
				InitCond: map[string]string{"err := writeSTH(sth, w) ; err != nil": "writeFails"},
				Repl:     common(nil)})},
		{"getSTHConsistency", handlerKernel(h, "getSTHConsistency", "getSTHConsistency",
			"(parseFails : Bool) (first_ second_ : Int) (rpcFails : Bool) (mapped : Nat) (rootBad : Bool) (rootSize : Int) (proofNil pathOk marshalFails writeFails : Bool)",
			"Nat × Bool × Bool", pre, "(0, false, rpc_)",
			Spec{Kind: "i64", Lazy: true, Inline: true, InitCondByCall: map[string]string{".UnmarshalBinary": "rootBad"}, Ret: "statusstate", StateVars: []string{"rpc_"}, Ignore: ign, Status: st,
				IgnoreLHS: []string{"jsonRsp", "jsonRsp.Consistency", "req", "currentRoot"},
				ErrCalls: map[string]string{"parseGetSTHConsistencyRange": "parseFails", "li.rpcClient.GetConsistencyProof": "rpcFails|rpc_ := true",
					"json.Marshal": "marshalFails", "w.Write": "writeFails"},
				Bind: map[string]string{"li.rpcClient.GetConsistencyProof": "rsp"},
				InitCond: map[string]string{rootInit: "rootBad"},
				Repl:     common(map[string]string{"rsp.Proof == nil": "proofNil", "checkAuditPath(rsp.Proof.Hashes)": "pathOk"})})},
		{"getProofByHash", handlerKernel(h, "getProofByHash", "getProofByHash",
			"(hashLen : Int) (hashBad treeSizeBad : Bool) (treeSize_ : Int) (rpcFails : Bool) (mapped : Nat) (rootBad : Bool) (rootSize nProofs : Int) (pathOk marshalFails writeFails : Bool)",
			"Nat × Bool × Bool", pre, "(0, false, rpc_)",
			Spec{Kind: "i64", Lazy: true, Inline: true, InitCondByCall: map[string]string{".UnmarshalBinary": "rootBad"}, Ret: "statusstate", StateVars: []string{"rpc_"}, Ignore: ign, Status: st,
				IgnoreLHS:  []string{"proofRsp", "proofRsp.AuditPath", "req", "currentRoot"},
				InputCalls: []string{"r.FormValue"},
				ErrCalls: map[string]string{"base64.StdEncoding.DecodeString": "hashBad", "strconv.ParseInt": "treeSizeBad",
					"li.rpcClient.GetInclusionProofByHash": "rpcFails|rpc_ := true", "json.Marshal": "marshalFails", "w.Write": "writeFails"},
				Bind: map[string]string{"li.rpcClient.GetInclusionProofByHash": "rsp"},
				InitCond: map[string]string{rootInit: "rootBad"},
				Repl: common(map[string]string{"len(hash)": "hashLen", "err != nil": "treeSizeBad", "len(rsp.Proof)": "nProofs",
					"checkAuditPath(rsp.Proof[0].Hashes)": "pathOk"})})},
		{"getEntries", handlerKernel(h, "getEntries", "getEntries",
			"(parseFails : Bool) (start_ end_ : Int) (rpcErr : Bool) (rpcStatus : Nat) (rootBad : Bool) (rootSize nLeaves : Int) (misindexed leafDecodeFails marshalFails writeFails : Bool)",
			"Nat × Bool × Bool", pre, "(0, false, rpc_)",
			Spec{Kind: "i64", Lazy: true, Inline: true, InitCondByCall: map[string]string{".UnmarshalBinary": "rootBad"}, Ret: "statusstate", StateVars: []string{"rpc_"}, Ignore: ign, Status: st,
				IgnoreLHS: []string{"req", "currentRoot"},
				ErrCalls: map[string]string{"parseGetEntriesRange": "parseFails", "rpcGetLeavesByRange": "rpcErr|rpc_ := true",
					"marshalGetEntriesResponse": "leafDecodeFails", "json.Marshal": "marshalFails", "w.Write": "writeFails"},
				Bind: map[string]string{"rpcGetLeavesByRange": "rsp"},
				InitCond:  map[string]string{rootInit: "rootBad"},
				RangeCond: map[string]string{"rsp.Leaves": "misindexed", "elem:rsp.Leaves": "leaf", "cond:rsp.Leaves": "leaf.LeafIndex != start+int64(i)"},
				Repl:      common(map[string]string{"len(rsp.Leaves)": "nLeaves"})})},
		{"rpcGetLeavesByRange", handlerKernel(h, "rpcGetLeavesByRange", "rpcGetLeavesByRange", "(rpcFails : Bool) (mapped : Nat) (fixFails : Bool)", "Option Nat", "", "none",
			Spec{Kind: "i64", Lazy: true, Inline: true, Ret: "statuserr", StatusIdx: 1, Ignore: ign, Status: st,
				ErrCalls:  map[string]string{"li.rpcClient.GetLeavesByRange": "rpcFails"},
				RangeCond: map[string]string{"rsp.Leaves": "fixFails", "elem:rsp.Leaves": "leaf", "cond:rsp.Leaves": "err := li.issuanceChainService.FixLogLeaf(ctx, leaf) ; err != nil"},
				Repl:      common(nil)})},
		{"getEntryAndProof", handlerKernel(h, "getEntryAndProof", "getEntryAndProof",
			"(parseFails : Bool) (leafIndex_ treeSize_ : Int) (rpcErr : Bool) (rpcStatus : Nat) (rootBad : Bool) (rootSize : Int) (leafNil : Bool) (leafValLen : Int) (proofNil : Bool) (nHashes : Int) (marshalFails writeFails : Bool)",
			"Nat × Bool × Bool", pre, "(0, false, rpc_)",
			Spec{Kind: "i64", Lazy: true, Inline: true, InitCondByCall: map[string]string{".UnmarshalBinary": "rootBad"}, Ret: "statusstate", StateVars: []string{"rpc_"}, Ignore: ign, Status: st,
				IgnoreLHS: []string{"jsonRsp", "req", "currentRoot"},
				ErrCalls: map[string]string{"parseGetEntryAndProofParams": "parseFails", "rpcGetEntryAndProof": "rpcErr|rpc_ := true", "li.rpcGetEntryAndProof": "rpcErr|rpc_ := true",
					"json.Marshal": "marshalFails", "w.Write": "writeFails"},
				Bind: map[string]string{"rpcGetEntryAndProof": "rsp", "li.rpcGetEntryAndProof": "rsp"},
				InitCond: map[string]string{rootInit: "rootBad"},
				Repl: common(map[string]string{"rsp.Leaf == nil": "leafNil", "len(rsp.Leaf.LeafValue)": "leafValLen", "rsp.Proof == nil": "proofNil",
					"len(rsp.Proof.Hashes)": "nHashes"})})},
		{"rpcGetEntryAndProof", handlerKernel(h, "rpcGetEntryAndProof", "rpcGetEntryAndProof", "(rpcFails : Bool) (mapped : Nat) (fixFails : Bool)", "Option Nat", "", "none",
			Spec{Kind: "i64", Lazy: true, Inline: true, Ret: "statuserr", StatusIdx: 1, Ignore: ign, Status: st,
				ErrCalls: map[string]string{"li.rpcClient.GetEntryAndProof": "rpcFails"},
				InitCond: map[string]string{"err := li.issuanceChainService.FixLogLeaf(ctx, rsp.Leaf) ; err != nil": "fixFails"},
				Repl:     common(nil)})},
		{"logInfo.getSTH", handlerKernel(h, "logInfo.getSTH", "logInfoGetSTH", "(getterFails : Bool)", "ErrKind", "", "ErrKind.ok",
			Spec{Kind: "i64", Lazy: true, Inline: true, Ret: "errkind", Ignore: ign, IgnoreLHS: []string{"logID"}, ErrCalls: map[string]string{"li.sthGetter.GetSTH": "getterFails"}})},
		{"LogSTHGetter.GetSTH", handlerKernel(sthgo, "LogSTHGetter.GetSTH", "logSTHGetterGetSTH", "(rootFails signFails : Bool) (sigLen : Int)", "ErrKind", "", "ErrKind.ok",
			Spec{Kind: "i64", Lazy: true, Inline: true, Ret: "errkind", Ignore: append([]string{"copy"}, ign...), IgnoreLHS: []string{"sth"},
				ErrCalls: map[string]string{"getSignedLogRoot": "rootFails", "signV1TreeHead": "signFails"},
				Repl:     map[string]string{"err != nil": "signFails", "len(sth.TreeHeadSignature.Signature)": "sigLen"}})},
		{"ParseBodyAsJSONChain", handlerKernel(h, "ParseBodyAsJSONChain", "parseBodyAsJSONChain", "(readFails jsonBad : Bool) (chainLen : Int)", "ErrKind", "", "ErrKind.ok",
			Spec{Kind: "i64", Lazy: true, Inline: true, Ret: "errkind", Ignore: ign, IgnoreLHS: []string{"req"},
				ErrCalls: map[string]string{"io.ReadAll": "readFails"},
				InitCond: map[string]string{"err := json.Unmarshal(body, &req) ; err != nil": "jsonBad"},
				Repl:     map[string]string{"len(req.Chain)": "chainLen"}})},
		{"verifyAddChain", handlerKernel(h, "verifyAddChain", "verifyAddChain", "(validateFails precertTestFails isPrecert_ expectingPrecert_ : Bool)", "ErrKind", "", "ErrKind.ok",
			Spec{Kind: "i64", Lazy: true, Inline: true, Ret: "errkind", Ignore: ign,
				ErrCalls: map[string]string{"ValidateChain": "validateFails", "IsPrecertificate": "precertTestFails"}})},
		{"checkAuditPath", handlerKernel(h, "checkAuditPath", "checkAuditPath", "(someWrongSize : Bool)", "Bool", "", "true",
			Spec{Kind: "i64", Ignore: ign, RangeCond: map[string]string{"path": "someWrongSize", "cond:path": "len(node) != sha256.Size"}})},
		{"marshalGetEntriesResponse", handlerKernel(h, "marshalGetEntriesResponse", "marshalGetEntriesResponse", "", "ErrKind", "", "ErrKind.ok",
			Spec{Kind: "i64", Lazy: true, Inline: true, Ret: "errkind", Ignore: ign, IgnoreLHS: []string{"jsonRsp", "jsonRsp.Entries", "extraData", "treeLeaf"}})},
		{"MirrorSTHGetter.GetSTH", handlerKernel(sthgo, "MirrorSTHGetter.GetSTH", "mirrorSTHGetterGetSTH", "(rootFails storeFails : Bool)", "ErrKind", "", "ErrKind.ok",
			Spec{Kind: "i64", Lazy: true, Inline: true, Ret: "errkind", Ignore: ign,
				ErrCalls: map[string]string{"getSignedLogRoot": "rootFails", "sg.st.GetMirrorSTH": "storeFails"}})},
		{"getSignedLogRoot", handlerKernel(sthgo, "getSignedLogRoot", "getSignedLogRoot", "(quotaSet quotaBadType rpcFails slrNil rootBad : Bool) (hashLen : Int)", "ErrKind × Bool",
			"let rpc_ := false\n  ", "(ErrKind.ok, rpc_)",
			Spec{Kind: "i64", Lazy: true, Inline: true, Ret: "errkind", StateVars: []string{"rpc_"}, Ignore: ign, IgnoreLHS: []string{"req", "req.ChargeTo", "quotaUser", "ok", "slr", "currentRoot"},
				ErrCalls: map[string]string{"client.GetLatestSignedLogRoot": "rpcFails|rpc_ := true"},
				TypeSwitch: map[string]map[string]string{"ctx.Value(remoteQuotaCtxKey)": {"nil": "(!quotaSet)", "string": "(quotaSet && !quotaBadType)"}},
				InitCond: map[string]string{"q := ctx.Value(remoteQuotaCtxKey) ; q != nil": "quotaSet", "err := currentRoot.UnmarshalBinary(slr.GetLogRoot()) ; err != nil": "rootBad"},
				Repl:     map[string]string{"!ok": "quotaBadType", "slr == nil": "slrNil", "len(currentRoot.RootHash)": "hashLen", "sha256.Size": "(32 : Int)"}})},
	}})
}
