package main

// Regenerated units for C05 (signature verification): the hash switch of
// tls.generateHash, the signature-algorithm switch of tls.VerifySignature, the
// key policy of ct.NewSignatureVerifier and the algorithm choice of
// loglist3.NewFromSignedJSON.  Every case body is matched against the shape the
// Lean model interprets; a statement outside that shape aborts the unit.

import (
	"fmt"
	"go/ast"
	"go/token"
	"regexp"
	"strconv"
	"strings"
)

// crypto.Hash identifiers (standard library crypto.Hash iota values).
var cryptoHashID = map[string]int{"crypto.MD5": 2, "crypto.SHA1": 3, "crypto.SHA224": 4, "crypto.SHA256": 5, "crypto.SHA384": 6, "crypto.SHA512": 7}

// key kinds by asserted type
var keyKindOf = map[string]string{"*rsa.PublicKey": "rsa", "*dsa.PublicKey": "dsa", "*ecdsa.PublicKey": "ecdsa", "ed25519.PublicKey": "ed25519"}

// typedConsts reads `Name Type = <int literal>` constants of one type from a file.
func typedConsts(rel, typ string) map[string]int {
	out := map[string]int{}
	f := parseFile(rp(rel))
	for _, d := range f.Decls {
		gd, ok := d.(*ast.GenDecl)
		if !ok || gd.Tok != token.CONST {
			continue
		}
		for _, s := range gd.Specs {
			vs := s.(*ast.ValueSpec)
			if vs.Type == nil || src(vs.Type) != typ {
				continue
			}
			for i, n := range vs.Names {
				if i < len(vs.Values) {
					if b, ok := vs.Values[i].(*ast.BasicLit); ok && b.Kind == token.INT {
						v, err := strconv.ParseInt(b.Value, 0, 64)
						if err == nil {
							out[n.Name] = int(v)
							continue
						}
					}
				}
				panic(bail{fmt.Sprintf("%s: constant %s of type %s has no integer literal", rel, n.Name, typ)})
			}
		}
	}
	if len(out) == 0 {
		panic(bail{fmt.Sprintf("%s: no constants of type %s", rel, typ)})
	}
	return out
}

func returnsNonNilError(b *ast.BlockStmt) bool {
	if b == nil || len(b.List) == 0 {
		return false
	}
	r, ok := b.List[len(b.List)-1].(*ast.ReturnStmt)
	if !ok || len(r.Results) == 0 {
		return false
	}
	last := r.Results[len(r.Results)-1]
	if id, ok := last.(*ast.Ident); ok && id.Name == "nil" {
		return false
	}
	return true
}

func onlyLogging(b *ast.BlockStmt) bool {
	for _, s := range b.List {
		e, ok := s.(*ast.ExprStmt)
		if !ok || !strings.HasPrefix(callName(e.X), "log.") {
			return false
		}
	}
	return true
}

func findSwitch(fd *ast.FuncDecl, tag string) *ast.SwitchStmt {
	ss := findStmts(fd, func(s ast.Stmt) bool {
		sw, ok := s.(*ast.SwitchStmt)
		return ok && sw.Tag != nil && src(sw.Tag) == tag
	})
	if len(ss) != 1 {
		panic(bail{fmt.Sprintf("expected exactly one `switch %s` in %s, found %d", tag, fd.Name.Name, len(ss))})
	}
	return ss[0].(*ast.SwitchStmt)
}

// hashTable: generateHash's switch, as (wire code, crypto.Hash id) rows.
func hashTable() string {
	rel := "tls/signature.go"
	fd := mustFunc(rel, "generateHash")
	codes := typedConsts("tls/types.go", "HashAlgorithm")
	sw := findSwitch(fd, "algo")
	var rows []string
	def := false
	for _, c := range sw.Body.List {
		cc := c.(*ast.CaseClause)
		if cc.List == nil {
			if !returnsNonNilError(&ast.BlockStmt{List: cc.Body}) {
				panic(bail{rel + ": default of generateHash does not return an error"})
			}
			def = true
			continue
		}
		if len(cc.Body) != 1 {
			panic(bail{rel + ": generateHash case is not a single assignment: " + src(cc)})
		}
		a, ok := cc.Body[0].(*ast.AssignStmt)
		if !ok || len(a.Lhs) != 1 || src(a.Lhs[0]) != "hashType" || a.Tok != token.ASSIGN {
			panic(bail{rel + ": generateHash case is not `hashType = …`: " + src(cc)})
		}
		id, ok := cryptoHashID[src(a.Rhs[0])]
		if !ok {
			panic(bail{rel + ": unknown crypto hash " + src(a.Rhs[0])})
		}
		for _, k := range cc.List {
			code, ok := codes[src(k)]
			if !ok {
				panic(bail{rel + ": unknown HashAlgorithm constant " + src(k)})
			}
			rows = append(rows, fmt.Sprintf("(%d, %d)", code, id))
		}
	}
	if !def {
		panic(bail{rel + ": generateHash switch has no default"})
	}
	// the digest must be hashType over exactly `data`
	body := src(fd.Body)
	for _, need := range []string{"hasher := hashType.New()", "hasher.Write(data)", "return hasher.Sum([]byte{}), hashType, nil"} {
		if !strings.Contains(body, need) {
			panic(bail{rel + ": generateHash no longer contains `" + need + "`"})
		}
	}
	return fmt.Sprintf("/-- generated from %s func generateHash: `switch algo` (wire code of tls/types.go, crypto.Hash id) -/\ndef sigHashTable : List (Nat × Nat) :=\n  [%s]\n", rel, strings.Join(rows, ", "))
}

// sigAlgTable: VerifySignature's switch.
func sigAlgTable() string {
	rel := "tls/signature.go"
	fd := canonFunc(rel, "VerifySignature", "generateHash", "checkExactDER")
	codes := typedConsts("tls/types.go", "SignatureAlgorithm")
	// prologue: digest from the declared hash, error returned
	if len(fd.Body.List) != 4 {
		panic(bail{fmt.Sprintf("%s: VerifySignature has %d top-level statements, expected 4 (hash; if err; switch; return nil)", rel, len(fd.Body.List))})
	}
	ps := sigParamNames(fd)
	if len(ps) != 3 {
		panic(bail{rel + ": VerifySignature no longer has three parameters (key, data, signature)"})
	}
	pub, data, sigP := ps[0], ps[1], ps[2]
	pm := regexp.MustCompile(`^(\w+), (\w+), err := generateHash\(` + regexp.QuoteMeta(sigP) + `\.Algorithm\.Hash, ` + regexp.QuoteMeta(data) + `\)$`).FindStringSubmatch(src(fd.Body.List[0]))
	if pm == nil {
		panic(bail{rel + ": VerifySignature prologue changed: " + src(fd.Body.List[0])})
	}
	hashV, hashTypeV := pm[1], pm[2]
	if is, ok := fd.Body.List[1].(*ast.IfStmt); !ok || src(is.Cond) != "err != nil" || !returnsNonNilError(is.Body) {
		panic(bail{rel + ": VerifySignature does not return generateHash's error"})
	}
	if src(fd.Body.List[3]) != "return nil" {
		panic(bail{rel + ": VerifySignature does not end in `return nil`"})
	}
	sw, ok := fd.Body.List[2].(*ast.SwitchStmt)
	if !ok || src(sw.Tag) != sigP+".Algorithm.Signature" {
		panic(bail{rel + ": third statement of VerifySignature is not `switch sig.Algorithm.Signature`"})
	}
	var rows, defs, disp, exDisp []string
	def := false
	for _, c := range sw.Body.List {
		cc := c.(*ast.CaseClause)
		if cc.List == nil {
			if !returnsNonNilError(&ast.BlockStmt{List: cc.Body}) {
				panic(bail{rel + ": default of VerifySignature's switch does not return an error"})
			}
			def = true
			continue
		}
		if len(cc.List) != 1 {
			panic(bail{rel + ": multi-constant case in VerifySignature: " + src(cc)})
		}
		name := src(cc.List[0])
		code, ok := codes[name]
		if !ok {
			panic(bail{rel + ": unknown SignatureAlgorithm constant " + name})
		}
		kind, der, trailingIgnored, exact, prim, rejectLean := sigCase(rel, name, cc.Body, pub, sigP, hashV, hashTypeV)
		rows = append(rows, fmt.Sprintf("(%d, %q, %v, %v, %q)", code, kind, der, trailingIgnored, prim))
		if der {
			disp = append(disp, fmt.Sprintf("  | %d => sigReject%s r s\n", code, name))
			exDisp = append(exDisp, fmt.Sprintf("  | %d => %v\n", code, exact))
			defs = append(defs, fmt.Sprintf("/-- generated from %s func VerifySignature, case %s: the condition under which the parsed (r, s) is refused -/\ndef sigReject%s (r s : Int) : Bool :=\n  %s\n", rel, name, name, rejectLean))
		}
	}
	if !def {
		panic(bail{rel + ": VerifySignature switch has no default"})
	}
	return fmt.Sprintf("/-- generated from %s func VerifySignature: `switch sig.Algorithm.Signature`\n(wire code, key type asserted, signature is an ASN.1 (r,s) pair, bytes after the pair only logged, primitive called) -/\ndef sigAlgTable : List (Nat × String × Bool × Bool × String) :=\n  [%s]\n\n%s\n/-- the refusal condition of the case taken for wire code `code` -/\ndef sigReject (code : Nat) (r s : Int) : Bool :=\n  match code with\n%s  | _ => false\n", rel, strings.Join(rows, ", "), strings.Join(defs, "\n"), strings.Join(disp, "")) +
		fmt.Sprintf("\n/-- does the case for wire code `code` insist that the octets before `rest` are exactly the DER encoding of (r, s)\n(`if err := checkExactDER(sig.Signature, rest, x); err != nil { return … }`)? -/\ndef sigExactDER (code : Nat) : Bool :=\n  match code with\n%s  | _ => false\n", strings.Join(exDisp, ""))
}

// sigCase reads one case body of VerifySignature's switch.  Locals may have any name, the (r, s) route may sit in a
// same-file helper (`v, err := helper(…, sig.Signature)`), checks between the unmarshalling and the primitive may come in
// any order; what is recognised is listed in the patterns below, anything else aborts.
func sigCase(rel, name string, body []ast.Stmt, pub, sig, hash, hashType string) (kind string, der, trailingIgnored, exact bool, prim, rejectLean string) {
	failT := func(t, why string) {
		panic(bail{fmt.Sprintf("%s: VerifySignature case %s: %s: %s", rel, name, why, t)})
	}
	q := regexp.QuoteMeta
	stmts := expandHelpers(rel, body)
	rejectLean = "false"
	trailingIgnored = true
	keyVar, pairVar, restVar := "", "", ""
	stage := 0 // 0 before the assertion, 1 after it, 2 after the unmarshalling, 3 after the primitive
	reAssert := regexp.MustCompile(`^(\w+), ok := ` + q(pub) + `\.\((.+)\)$`)
	reVar := regexp.MustCompile(`^var (\w+) dsaSig$`)
	reUnm := regexp.MustCompile(`^(\w+), err := asn1\.Unmarshal\(` + q(sig) + `\.Signature, &(\w+)\)$`)
	for _, st := range stmts {
		t := src(st)
		is, isIf := st.(*ast.IfStmt)
		switch {
		case stage == 0 && reAssert.MatchString(t):
			m := reAssert.FindStringSubmatch(t)
			k, ok := keyKindOf[m[2]]
			if !ok {
				failT(t, "unknown key type")
			}
			keyVar, kind, stage = m[1], k, 1
		case stage == 1 && keyVar != "" && isIf && is.Init == nil && src(is.Cond) == "!ok" && returnsNonNilError(is.Body):
		case stage == 1 && reVar.MatchString(t):
			pairVar = reVar.FindStringSubmatch(t)[1]
		case stage == 1 && reUnm.MatchString(t):
			m := reUnm.FindStringSubmatch(t)
			if pairVar == "" || m[2] != pairVar {
				failT(t, "asn1.Unmarshal does not fill a dsaSig variable")
			}
			restVar, der, stage = m[1], true, 2
		case isIf && is.Init == nil && src(is.Cond) == "err != nil" && returnsNonNilError(is.Body) && is.Else == nil:
			// the error of the preceding call is returned
		case stage == 2 && isIf && is.Init == nil && src(is.Cond) == "len("+restVar+") != 0":
			if onlyLogging(is.Body) && is.Else == nil {
				trailingIgnored = true
			} else if returnsNonNilError(is.Body) {
				trailingIgnored = false
			} else {
				failT(t, "unrecognised handling of trailing bytes")
			}
		case stage == 2 && isIf && is.Init == nil && strings.Contains(src(is.Cond), ".Sign()") && !strings.Contains(src(is.Cond), "("+keyVar+","):
			if !returnsNonNilError(is.Body) || is.Else != nil {
				failT(t, "sign check does not return an error")
			}
			tr := &tr{sp: Spec{Kind: "i64", Repl: map[string]string{pairVar + ".R.Sign()": "(Int.sign r)", pairVar + ".S.Sign()": "(Int.sign s)"}}}
			rejectLean = tr.expr(is.Cond)
		case stage == 2 && isIf && is.Init != nil && strings.Contains(src(is.Init), "checkExactDER("):
			if src(is.Init) != "err := checkExactDER("+sig+".Signature, "+restVar+", "+pairVar+")" || src(is.Cond) != "err != nil" || !returnsNonNilError(is.Body) || is.Else != nil {
				failT(t, "unrecognised exactness check")
			}
			fb := src(mustFunc(rel, "checkExactDER").Body)
			for _, need := range []string{"asn1.Marshal(", "bytes.Equal("} {
				if !strings.Contains(fb, need) {
					panic(bail{rel + ": checkExactDER no longer contains `" + need + "`"})
				}
			}
			exact = true
		case stage == 2 && isIf && is.Init == nil && is.Else == nil && returnsNonNilError(is.Body):
			m := regexp.MustCompile(`^!(\S+)\(` + q(keyVar) + `, ` + q(hash) + `, ` + q(pairVar) + `\.R, ` + q(pairVar) + `\.S\)$`).FindStringSubmatch(src(is.Cond))
			if m == nil {
				failT(t, "expected `if !P.Verify(key, hash, r, s) { return error }`")
			}
			prim, stage = m[1], 3
		case stage == 1 && isIf && is.Init != nil && src(is.Cond) == "err != nil" && returnsNonNilError(is.Body):
			m := regexp.MustCompile(`^err := (\S+)\(` + q(keyVar) + `, ` + q(hashType) + `, ` + q(hash) + `, ` + q(sig) + `\.Signature\)$`).FindStringSubmatch(src(is.Init))
			if m == nil {
				failT(t, "primitive is not called on (key, hashType, hash, sig.Signature)")
			}
			prim, stage = m[1], 3
		default:
			failT(t, "unrecognised statement")
		}
	}
	if stage != 3 || kind == "" {
		panic(bail{fmt.Sprintf("%s: VerifySignature case %s does not end in a primitive call", rel, name)})
	}
	if !der {
		trailingIgnored = false
	}
	return
}

// dsaSigShape checks that the ASN.1 target is struct{ R, S *big.Int } without tags.
func dsaSigShape() string {
	rel := "tls/signature.go"
	f := parseFile(rp(rel))
	for _, d := range f.Decls {
		gd, ok := d.(*ast.GenDecl)
		if !ok || gd.Tok != token.TYPE {
			continue
		}
		for _, s := range gd.Specs {
			ts := s.(*ast.TypeSpec)
			if ts.Name.Name != "dsaSig" {
				continue
			}
			if got := src(ts.Type); got != "struct { R, S *big.Int }" {
				panic(bail{rel + ": dsaSig is no longer struct{ R, S *big.Int }: " + got})
			}
			return "/-- generated from " + rel + ": `type dsaSig struct { R, S *big.Int }` (two untagged INTEGER fields) -/\ndef sigPairFields : List String := [\"R\", \"S\"]\n"
		}
	}
	panic(bail{rel + ": type dsaSig not found"})
}

// newVerifierPolicy: ct.NewSignatureVerifier's type switch, one kernel per key type.
func newVerifierPolicy() string {
	rel := "signatures.go"
	fd := mustFunc(rel, "NewSignatureVerifier")
	if len(fd.Body.List) != 2 {
		panic(bail{fmt.Sprintf("%s: NewSignatureVerifier has %d top-level statements, expected 2", rel, len(fd.Body.List))})
	}
	ts, ok := fd.Body.List[0].(*ast.TypeSwitchStmt)
	pn := sigParamNames(fd)
	var tm []string
	if ok {
		tm = regexp.MustCompile(`^(\w+) := (\w+)\.\(type\)$`).FindStringSubmatch(src(ts.Assign))
	}
	if !ok || tm == nil || len(pn) != 1 || tm[2] != pn[0] {
		panic(bail{rel + ": NewSignatureVerifier does not start with a type switch on its parameter"})
	}
	kv, pv := tm[1], tm[2] // the typed key inside a case, the parameter
	tail := fd.Body.List[1:]
	sp := Spec{Kind: "i64", Ret: "errlast", Ignore: []string{"log."}, Repl: map[string]string{
		kv + ".N.BitLen()":                                     "bits",
		"(" + kv + ".N.BitLen())":                              "bits",
		"(*(" + kv + ".Params())) != (*elliptic.P256().Params())": "(!isP256)",
		"(*(" + kv + ".Params())) != *elliptic.P256().Params()":   "(!isP256)",
		"*(" + kv + ".Params()) != *elliptic.P256().Params()":     "(!isP256)",
		"!AllowVerificationWithNonCompliantKeys":                 "(!allow)",
		"AllowVerificationWithNonCompliantKeys":                  "allow",
		"&SignatureVerifier{PubKey: " + pv + "}":                 "()",
	}}
	// named integer constants of the file stand for their values
	for _, d := range parseFile(rp(rel)).Decls {
		if gd, ok := d.(*ast.GenDecl); ok && gd.Tok == token.CONST {
			for _, sp0 := range gd.Specs {
				vs := sp0.(*ast.ValueSpec)
				for i, n := range vs.Names {
					if i < len(vs.Values) {
						if v, ok := intLit(vs.Values[i]); ok {
							sp.Repl[n.Name] = "(" + v + " : Int)"
						}
					}
				}
			}
		}
	}
	// locals that only name a read of the key (`bits := key.N.BitLen()`, `params := *(key.Params())`, `p256 := *elliptic.P256().Params()`)
	pureRead := func(e ast.Expr) bool {
		t := src(e)
		return !strings.HasPrefix(t, "fmt.") && !strings.HasPrefix(t, "errors.") && (strings.Contains(t, kv+".") || strings.Contains(t, "elliptic."))
	}
	// statements that only build the error value or copy the curve parameters are not part of the decision
	var strip func(b []ast.Stmt) []ast.Stmt
	strip = func(b []ast.Stmt) []ast.Stmt {
		var out []ast.Stmt
		for _, s := range b {
			switch x := s.(type) {
			case *ast.AssignStmt:
				if len(x.Rhs) == 1 {
					r := src(x.Rhs[0])
					if strings.HasPrefix(r, "fmt.Errorf(") || strings.HasPrefix(r, "errors.New(") {
						continue
					}
				}
			case *ast.IfStmt:
				c := *x
				nb := *x.Body
				nb.List = strip(x.Body.List)
				c.Body = &nb
				if eb, ok := x.Else.(*ast.BlockStmt); ok {
					ne := *eb
					ne.List = strip(eb.List)
					c.Else = &ne
				}
				out = append(out, &c)
				continue
			}
			out = append(out, s)
		}
		return out
	}
	var sb strings.Builder
	var kinds, nvDisp []string
	def := false
	for _, c := range ts.Body.List {
		cc := c.(*ast.CaseClause)
		if cc.List == nil {
			if !returnsNonNilError(&ast.BlockStmt{List: cc.Body}) {
				panic(bail{rel + ": default of NewSignatureVerifier does not return an error"})
			}
			def = true
			continue
		}
		if len(cc.List) != 1 {
			panic(bail{rel + ": multi-type case in NewSignatureVerifier"})
		}
		kind, ok := keyKindOf[src(cc.List[0])]
		if !ok {
			panic(bail{rel + ": unknown key type " + src(cc.List[0])})
		}
		kinds = append(kinds, strconv.Quote(kind))
		nvDisp = append(nvDisp, fmt.Sprintf("  if kind = %q then newVerifier_%s bits isP256 allow else\n", kind, kind))
		t := &tr{sp: sp}
		body := t.block(append(strip(inlineAliases(cc.Body, pureRead)), tail...), "none", "  ")
		params := "(bits : Int) (isP256 allow : Bool)"
		fmt.Fprintf(&sb, "/-- generated from %s func NewSignatureVerifier, case %s (`some ()` = a verifier is returned) -/\ndef newVerifier_%s %s : Option Unit :=\n  %s\n\n", rel, src(cc.List[0]), kind, params, body)
	}
	if !def {
		panic(bail{rel + ": NewSignatureVerifier's type switch has no default"})
	}
	fmt.Fprintf(&sb, "/-- NewSignatureVerifier as a function of the dynamic key type; the default branch returns an error -/\ndef newVerifier (kind : String) (bits : Int) (isP256 allow : Bool) : Option Unit :=\n%s  none\n\n", strings.Join(nvDisp, ""))
	fmt.Fprintf(&sb, "/-- key types with a case in NewSignatureVerifier's type switch; every other type takes the default branch, which returns an error -/\ndef newVerifierKinds : List String := [%s]\n", strings.Join(kinds, ", "))
	return sb.String()
}

// signedJSON: loglist3.NewFromSignedJSON — algorithm choice by key type, SHA-256, verify before parse.
func signedJSON() string {
	rel := "loglist3/loglist3.go"
	fd := mustFunc(rel, "NewFromSignedJSON")
	sig := typedConsts("tls/types.go", "SignatureAlgorithm")
	hash := typedConsts("tls/types.go", "HashAlgorithm")
	var ts *ast.TypeSwitchStmt
	for _, s := range fd.Body.List {
		if x, ok := s.(*ast.TypeSwitchStmt); ok {
			ts = x
		}
	}
	if ts == nil || src(ts.Assign) != "pkType := pubKey.(type)" {
		panic(bail{rel + ": NewFromSignedJSON has no `switch pkType := pubKey.(type)`"})
	}
	var rows []string
	def := false
	for _, c := range ts.Body.List {
		cc := c.(*ast.CaseClause)
		if cc.List == nil {
			if !returnsNonNilError(&ast.BlockStmt{List: cc.Body}) {
				panic(bail{rel + ": default of NewFromSignedJSON's type switch does not return an error"})
			}
			def = true
			continue
		}
		if len(cc.Body) != 1 || len(cc.List) != 1 {
			panic(bail{rel + ": NewFromSignedJSON case is not a single assignment: " + src(cc)})
		}
		a, ok := cc.Body[0].(*ast.AssignStmt)
		if !ok || src(a.Lhs[0]) != "sigAlgo" || !strings.HasPrefix(src(a.Rhs[0]), "tls.") {
			panic(bail{rel + ": NewFromSignedJSON case is not `sigAlgo = tls.X`: " + src(cc)})
		}
		code, ok := sig[strings.TrimPrefix(src(a.Rhs[0]), "tls.")]
		kind, ok2 := keyKindOf[src(cc.List[0])]
		if !ok || !ok2 {
			panic(bail{rel + ": unknown constant or key type in " + src(cc)})
		}
		rows = append(rows, fmt.Sprintf("(%q, %d)", kind, code))
	}
	if !def {
		panic(bail{rel + ": NewFromSignedJSON's type switch has no default"})
	}
	// the DigitallySigned literal and the order verify -> parse
	n := len(fd.Body.List)
	if n != 5 {
		panic(bail{fmt.Sprintf("%s: NewFromSignedJSON has %d top-level statements, expected 5", rel, n)})
	}
	kv := func(cl ast.Expr, key string) ast.Expr {
		c, ok := cl.(*ast.CompositeLit)
		if !ok {
			return nil
		}
		for _, e := range c.Elts {
			if k, ok := e.(*ast.KeyValueExpr); ok && src(k.Key) == key {
				return k.Value
			}
		}
		return nil
	}
	la, ok := fd.Body.List[2].(*ast.AssignStmt)
	if !ok || len(la.Lhs) != 1 || src(la.Lhs[0]) != "tlsSig" || len(la.Rhs) != 1 {
		panic(bail{rel + ": third statement of NewFromSignedJSON is not `tlsSig := tls.DigitallySigned{…}`"})
	}
	alg := kv(la.Rhs[0], "Algorithm")
	hv, sv, rv := kv(alg, "Hash"), kv(alg, "Signature"), kv(la.Rhs[0], "Signature")
	if hv == nil || sv == nil || rv == nil || src(sv) != "sigAlgo" || src(rv) != "rawSig" || !strings.HasPrefix(src(hv), "tls.") {
		panic(bail{rel + ": NewFromSignedJSON's DigitallySigned literal changed: " + src(la)})
	}
	hname := strings.TrimPrefix(src(hv), "tls.")
	hcode, ok := hash[hname]
	if !ok {
		panic(bail{rel + ": unknown hash constant tls." + hname})
	}
	is, ok := fd.Body.List[3].(*ast.IfStmt)
	if !ok || is.Init == nil || src(is.Init) != "err := tls.VerifySignature(pubKey, llData, tlsSig)" || src(is.Cond) != "err != nil" || !returnsNonNilError(is.Body) {
		panic(bail{rel + ": NewFromSignedJSON no longer returns the error of tls.VerifySignature(pubKey, llData, tlsSig) before parsing"})
	}
	if src(fd.Body.List[4]) != "return NewFromJSON(llData)" {
		panic(bail{rel + ": NewFromSignedJSON does not end in `return NewFromJSON(llData)`"})
	}
	return fmt.Sprintf("/-- generated from %s func NewFromSignedJSON: signature algorithm by key type; any other type is an error -/\ndef signedJSONAlg : List (String × Nat) :=\n  [%s]\n/-- the hash algorithm NewFromSignedJSON declares (tls.%s) -/\ndef signedJSONHash : Nat := %d\n/-- NewFromSignedJSON: `if err := tls.VerifySignature(pubKey, llData, tlsSig); err != nil { return nil, … }` directly precedes `return NewFromJSON(llData)` -/\ndef signedJSONVerifiesBeforeParse : Bool := true\n",
		rel, strings.Join(rows, ", "), hname, hcode)
}

// verifyWrappers: SignatureVerifier.VerifySCTSignature / VerifySTHSignature serialise the signed input, return the
// serialisation error, and otherwise return VerifySignature over exactly those bytes and the object's signature;
// SignatureVerifier.VerifySignature forwards to tls.VerifySignature with the verifier's key.
func verifyWrappers() string {
	rel := "signatures.go"
	check := func(fn string, want []string) {
		fd := canonFunc(rel, "SignatureVerifier."+fn)
		if len(fd.Body.List) != len(want) {
			panic(bail{fmt.Sprintf("%s: %s has %d statements, expected %d", rel, fn, len(fd.Body.List), len(want))})
		}
		data := ""
		for i, w := range want {
			got := src(fd.Body.List[i])
			m := regexp.MustCompile("^" + strings.ReplaceAll(regexp.QuoteMeta(w), "DATA", `(\w+)`) + "$").FindStringSubmatch(got)
			if m == nil || (len(m) > 1 && data != "" && m[1] != data) {
				panic(bail{fmt.Sprintf("%s: %s statement %d is `%s`, expected `%s`", rel, fn, i+1, got, w)})
			}
			if len(m) > 1 {
				data = m[1]
			}
		}
	}
	check("VerifySignature", []string{"return tls.VerifySignature(s.PubKey, data, sig)"})
	check("VerifySCTSignature", []string{"DATA, err := SerializeSCTSignatureInput(sct, entry)", "if err != nil { return err }",
		"return tls.VerifySignature(s.PubKey, DATA, tls.DigitallySigned(sct.Signature))"})
	check("VerifySTHSignature", []string{"DATA, err := SerializeSTHSignatureInput(sth)", "if err != nil { return err }",
		"return tls.VerifySignature(s.PubKey, DATA, tls.DigitallySigned(sth.TreeHeadSignature))"})
	return "/-- generated from " + rel + ": VerifySCTSignature is `SerializeSCTSignatureInput(sct, entry)`, its error returned, then\n`VerifySignature(sctData, sct.Signature)` with the verifier's key -/\ndef sctVerifySerializesThenVerifies : Bool := true\n" +
		"/-- generated from " + rel + ": VerifySTHSignature is `SerializeSTHSignatureInput(sth)`, its error returned, then\n`VerifySignature(sthData, sth.TreeHeadSignature)` with the verifier's key -/\ndef sthVerifySerializesThenVerifies : Bool := true\n"
}

// ctutilShape: ctutil.VerifySCT builds the verifier with NewSignatureVerifier (its error returned) and verifies the SCT
// against the leaf createLeaf builds from the chain; LogInfo.VerifySCTSignature verifies with the verifier built by newLogInfo.
func ctutilShape() string {
	rel := "ctutil/ctutil.go"
	fd := canonFunc(rel, "VerifySCT", "VerifySCTWithVerifier", "createLeaf")
	if len(fd.Body.List) != 3 {
		panic(bail{rel + ": VerifySCT no longer is NewSignatureVerifier → VerifySCTWithVerifier"})
	}
	vm := regexp.MustCompile(`^(\w+), err := ct\.NewSignatureVerifier\(pubKey\)$`).FindStringSubmatch(src(fd.Body.List[0]))
	if vm == nil || src(fd.Body.List[2]) != "return VerifySCTWithVerifier("+vm[1]+", chain, sct, embedded)" {
		panic(bail{rel + ": VerifySCT no longer is NewSignatureVerifier → VerifySCTWithVerifier"})
	}
	if is, ok := fd.Body.List[1].(*ast.IfStmt); !ok || src(is.Cond) != "err != nil" || !returnsNonNilError(is.Body) {
		panic(bail{rel + ": VerifySCT does not return NewSignatureVerifier's error"})
	}
	fd = canonFunc(rel, "VerifySCTWithVerifier", "createLeaf")
	n := len(fd.Body.List)
	if n < 3 || src(fd.Body.List[n-1]) != "return sv.VerifySCTSignature(*sct, ct.LogEntry{Leaf: *leaf})" || !strings.Contains(src(fd.Body.List[n-3]), "leaf, err := createLeaf(chain, sct, embedded)") {
		panic(bail{rel + ": VerifySCTWithVerifier no longer ends in createLeaf → VerifySCTSignature(*sct, LogEntry{Leaf: *leaf})"})
	}
	if is, ok := fd.Body.List[n-2].(*ast.IfStmt); !ok || src(is.Cond) != "err != nil" || !returnsNonNilError(is.Body) {
		panic(bail{rel + ": VerifySCTWithVerifier does not return createLeaf's error"})
	}
	rel2 := "ctutil/loginfo.go"
	nl := src(mustFunc(rel2, "newLogInfo").Body)
	if !strings.Contains(nl, "verifier, err := ct.NewSignatureVerifier(logKey)") || !strings.Contains(nl, "Verifier: verifier") {
		panic(bail{rel2 + ": newLogInfo no longer builds LogInfo.Verifier with ct.NewSignatureVerifier"})
	}
	lv := src(mustFunc(rel2, "LogInfo.VerifySCTSignature").Body)
	if !strings.Contains(lv, "leaf.TimestampedEntry.Timestamp = sct.Timestamp") || !strings.Contains(lv, "err := li.Verifier.VerifySCTSignature(sct, ct.LogEntry{Leaf: leaf}); err != nil") {
		panic(bail{rel2 + ": LogInfo.VerifySCTSignature no longer sets the leaf timestamp and calls Verifier.VerifySCTSignature"})
	}
	return "/-- generated from " + rel + " / " + rel2 + ": ctutil.VerifySCT = NewSignatureVerifier (error returned) then\nVerifySCTSignature(*sct, LogEntry{Leaf: createLeaf(chain, sct, embedded)}); LogInfo verifies with a verifier built the same way -/\ndef ctutilPolicyThenVerify : Bool := true\n"
}

func init() {
	register(genFile{name: "Sig", imports: nil, units: []unit{
		{"sigHashTable", hashTable},
		{"sigAlgTable", sigAlgTable},
		{"dsaSig", dsaSigShape},
		{"newVerifierPolicy", newVerifierPolicy},
		{"signedJSON", signedJSON},
		{"verifyWrappers", verifyWrappers},
		{"ctutilShape", ctutilShape},
	}})
}
