package main

// Regenerated units for C02 (chain admission): every comparison / boolean guard of
// ValidateChain, IsPrecertificate, verifyAddChain, chainsEquivalent (trillian/ctfe),
// CheckSignatureFrom (x509/x509.go), isValid and buildChains (x509/verify.go) that is a
// small kernel, the signature-check budget, the VerifyOptions flags ValidateChain passes,
// and the order in which ValidateChain applies its checks.
//
// Instants are Int nanoseconds, optional bounds are `Option Int`, names / key ids are Nat.

import (
	"fmt"
	"go/ast"
	"go/token"
	"sort"
	"strconv"
	"strings"
)

// iotaConst evaluates a constant declared as `X T = 1 << iota` followed by implicit repetitions.
func iotaConst(rel, name, leanName string) func() string {
	return func() string {
		f := parseFile(rp(rel))
		for _, d := range f.Decls {
			gd, ok := d.(*ast.GenDecl)
			if !ok || gd.Tok != token.CONST {
				continue
			}
			var first ast.Expr
			for i, s := range gd.Specs {
				vs := s.(*ast.ValueSpec)
				if i == 0 && len(vs.Values) == 1 {
					first = vs.Values[0]
				} else if len(vs.Values) != 0 {
					first = nil // explicit value in the middle: not the simple iota shape
				}
				for _, n := range vs.Names {
					if n.Name != name {
						continue
					}
					if first == nil || src(first) != "1 << iota" || len(vs.Names) != 1 {
						panic(bail{fmt.Sprintf("%s: %s is not declared in a `1 << iota` block", rel, name)})
					}
					return fmt.Sprintf("/-- generated from %s: `%s` is entry %d of a `1 << iota` block -/\ndef %s : Int := %d\n", rel, name, i, leanName, int64(1)<<uint(i))
				}
			}
		}
		panic(bail{fmt.Sprintf("%s: constant %s not found", rel, name)})
	}
}

// literalFlags lists the boolean fields of the unique composite literal of type `typ` in fn,
// and the names of its other fields.
func literalFlags(rel, fn, typ, leanName string) func() string {
	return func() string {
		fd := mustFunc(rel, fn)
		var lits []*ast.CompositeLit
		ast.Inspect(fd.Body, func(n ast.Node) bool {
			if cl, ok := n.(*ast.CompositeLit); ok && cl.Type != nil && src(cl.Type) == typ {
				lits = append(lits, cl)
			}
			return true
		})
		if len(lits) != 1 {
			panic(bail{fmt.Sprintf("%s: expected exactly one %s literal in %s, found %d", rel, typ, fn, len(lits))})
		}
		var flags, others []string
		for _, e := range lits[0].Elts {
			kv, ok := e.(*ast.KeyValueExpr)
			if !ok {
				panic(bail{fmt.Sprintf("%s: positional field in %s literal", rel, typ)})
			}
			switch v := src(kv.Value); v {
			case "true", "false":
				flags = append(flags, fmt.Sprintf("(%q, %s)", src(kv.Key), v))
			default:
				others = append(others, fmt.Sprintf("(%q, %q)", src(kv.Key), v))
			}
		}
		sort.Strings(flags)
		sort.Strings(others)
		return fmt.Sprintf("/-- generated from %s func %s: boolean fields of the %s literal (sorted by name) -/\ndef %sFlags : List (String × Bool) :=\n  [%s]\n/-- the remaining fields of the literal and their source expressions -/\ndef %sFields : List (String × String) :=\n  [%s]\n",
			rel, fn, typ, leanName, strings.Join(flags, ", "), leanName, strings.Join(others, ", "))
	}
}

// checkOrder emits the names of the given source markers in the order of their first
// occurrence (as the condition of an `if`, or inside a call / assignment statement) in fn.
// A missing marker is an extraction failure.
func checkOrder(rel, fn, leanName string, markers [][2]string) func() string {
	return func() string {
		fd := mustFunc(rel, fn)
		type hit struct {
			pos  token.Pos
			name string
		}
		var hits []hit
		for _, m := range markers {
			name, marker := m[0], m[1]
			var best token.Pos = token.NoPos
			ast.Inspect(fd.Body, func(n ast.Node) bool {
				var s string
				switch x := n.(type) {
				case *ast.IfStmt:
					s = src(x.Cond)
				case *ast.AssignStmt:
					s = src(x)
				case *ast.RangeStmt:
					s = src(x.X)
				default:
					return true
				}
				if strings.Contains(s, marker) && (best == token.NoPos || n.Pos() < best) {
					best = n.Pos()
				}
				return true
			})
			if best == token.NoPos {
				panic(bail{fmt.Sprintf("%s: %s no longer contains a check mentioning %q", rel, fn, marker)})
			}
			hits = append(hits, hit{best, name})
		}
		sort.SliceStable(hits, func(i, j int) bool { return hits[i].pos < hits[j].pos })
		var names []string
		for _, h := range hits {
			names = append(names, strconv.Quote(h.name))
		}
		return fmt.Sprintf("/-- generated from %s func %s: the checks in source order -/\ndef %s : List String :=\n  [%s]\n", rel, fn, leanName, strings.Join(names, ", "))
	}
}

// statusAfterCall: the HTTP status constant returned by the `if err != nil { return http.StatusX, … }` that follows
// the assignment calling `callee` in fn.
func statusAfterCall(rel, fn, callee, leanName string) func() string {
	return func() string {
		fd := mustFunc(rel, fn)
		var found string
		n := 0
		ast.Inspect(fd.Body, func(nd ast.Node) bool {
			b, ok := nd.(*ast.BlockStmt)
			if !ok {
				return true
			}
			for i, st := range b.List {
				a, ok := st.(*ast.AssignStmt)
				if !ok || len(a.Rhs) != 1 || !strings.HasPrefix(callName(a.Rhs[0]), callee) || i+1 >= len(b.List) {
					continue
				}
				is, ok := b.List[i+1].(*ast.IfStmt)
				if !ok || src(is.Cond) != "err != nil" || len(is.Body.List) == 0 {
					continue
				}
				r, ok := is.Body.List[len(is.Body.List)-1].(*ast.ReturnStmt)
				if !ok || len(r.Results) < 1 {
					continue
				}
				n++
				found = src(r.Results[0])
			}
			return true
		})
		if n != 1 {
			panic(bail{fmt.Sprintf("%s: expected one `%s(...)` followed by `if err != nil { return status, … }` in %s, found %d", rel, callee, fn, n)})
		}
		v, ok := httpStatus[found]
		if !ok {
			panic(bail{fmt.Sprintf("%s: unknown status constant %s", rel, found)})
		}
		return fmt.Sprintf("/-- generated from %s func %s: status returned when `%s` fails (`%s`) -/\ndef %s : Nat := %d\n", rel, fn, callee, found, leanName, v)
	}
}

// loopShape describes the range loop of IsPrecertificate: does the branch for a well-formed poison extension return
// at once (`return true, nil` inside the loop) or only record it (`found = true`) and go on to the remaining
// extensions; and what the function returns after the loop.
func loopShape(rel, fn, leanName string) func() string {
	return func() string {
		fd := mustFunc(rel, fn)
		var loops []*ast.RangeStmt
		ast.Inspect(fd.Body, func(n ast.Node) bool {
			if r, ok := n.(*ast.RangeStmt); ok {
				loops = append(loops, r)
			}
			return true
		})
		if len(loops) != 1 {
			panic(bail{fmt.Sprintf("%s: expected one range loop in %s, found %d", rel, fn, len(loops))})
		}
		stops, marks := false, ""
		ast.Inspect(loops[0].Body, func(n ast.Node) bool {
			switch x := n.(type) {
			case *ast.ReturnStmt:
				if len(x.Results) > 0 && src(x.Results[0]) == "true" {
					stops = true
				}
			case *ast.AssignStmt:
				if len(x.Lhs) == 1 && len(x.Rhs) == 1 && src(x.Rhs[0]) == "true" {
					marks = src(x.Lhs[0])
				}
			}
			return true
		})
		last, ok := fd.Body.List[len(fd.Body.List)-1].(*ast.ReturnStmt)
		if !ok || len(last.Results) < 1 {
			panic(bail{fmt.Sprintf("%s: %s does not end in a return", rel, fn)})
		}
		return fmt.Sprintf("/-- generated from %s func %s: the loop returns `true` at the first well-formed poison extension -/\ndef %sStopsAtFirst : Bool := %v\n/-- the variable the loop sets to `true` for a well-formed poison extension (\"\" = none) -/\ndef %sMarks : String := %s\n/-- what is returned after the loop -/\ndef %sFinalReturn : String := %s\n",
			rel, fn, leanName, stops, leanName, strconv.Quote(marks), leanName, strconv.Quote(src(last.Results[0])))
	}
}

func init() {
	cc := "trillian/ctfe/cert_checker.go"
	hh := "trillian/ctfe/handlers.go"
	xx := "x509/x509.go"
	vv := "x509/verify.go"
	// canonical vocabulary (extract/canon.go): `$CertValidationOpts` = the options parameter, `$elem0` = the first
	// certificate of the parsed chain, `$var($CertValidationOpts.currentTime)` = the local that starts as currentTime,
	// `$After` = the local holding the result of the `.After(…)` call
	const O = "$CertValidationOpts"
	leaf := map[string]string{
		"$elem0.NotAfter":            "t",
		O + ".notAfterStart != nil": "start.isSome",
		O + ".notAfterLimit != nil": "limit.isSome",
		"*" + O + ".notAfterStart":  "(start.getD 0)",
		"*" + O + ".notAfterLimit":  "(limit.getD 0)",
		O + ".acceptOnlyCA":         "acceptOnlyCA",
		O + ".rejectExpired":        "rejectExpired",
		O + ".rejectUnexpired":      "rejectUnexpired",
		"$elem0.IsCA":               "isCA",
		"$var(" + O + ".currentTime)": "now",
		"$After":                     "expired",
	}
	csf := map[string]string{
		"parent.Version":               "parentVersion",
		"parent.BasicConstraintsValid": "parentBCValid",
		"parent.IsCA":                  "parentIsCA",
		"bytes.Equal(c.RawSubjectPublicKeyInfo, entrustBrokenSPKI)": "childEntrustSPKI",
		"parent.KeyUsage":  "parentKeyUsage",
		"KeyUsageCertSign": "keyUsageCertSign",
		"parent.PublicKeyAlgorithm == UnknownPublicKeyAlgorithm": "(!parentPKAlgKnown)",
	}
	isv := map[string]string{
		"certType == intermediateCertificate":          "isIntermediate",
		"c.BasicConstraintsValid":                      "bcValid",
		"c.IsCA":                                       "isCA",
		"opts.DisableNameChecks":                       "disableNameChecks",
		"len(currentChain) > 0":                        "chainNonEmpty",
		"bytes.Equal(child.RawIssuer, c.RawSubject)":   "(decide (childIssuer = subject))",
		"*sigChecks":                                   "sigChecks",
		"maxChainSignatureChecks":                      "maxChainSignatureChecks",
	}
	register(genFile{name: "ChainCheck", imports: []string{"CTV.Basic.I64", "CTV.Basic.Bits"}, units: []unit{
		// ---- ValidateChain: leaf filters
		{"naStartFails", semCond(cc, "ValidateChain", []string{O + ".notAfterStart"}, "naStartFails", "(t : Int) (start : Option Int)", Spec{Kind: "i64", Repl: leaf})},
		{"naLimitFails", semCond(cc, "ValidateChain", []string{O + ".notAfterLimit"}, "naLimitFails", "(t : Int) (limit : Option Int)", Spec{Kind: "i64", Repl: leaf})},
		{"acceptOnlyCAFails", semCond(cc, "ValidateChain", []string{O + ".acceptOnlyCA"}, "acceptOnlyCAFails", "(acceptOnlyCA isCA : Bool)", Spec{Kind: "i64", Repl: leaf})},
		{"expired", semAssign(cc, "ValidateChain", []string{".After($elem0.NotAfter)"}, "expired", "(now t : Int)", "Bool", Spec{Kind: "i64", Repl: leaf})},
		{"rejectExpiredFails", semCond(cc, "ValidateChain", []string{O + ".rejectExpired"}, "rejectExpiredFails", "(rejectExpired expired : Bool)", Spec{Kind: "i64", Repl: leaf})},
		{"rejectUnexpiredFails", semCond(cc, "ValidateChain", []string{O + ".rejectUnexpired"}, "rejectUnexpiredFails", "(rejectUnexpired expired : Bool)", Spec{Kind: "i64", Repl: leaf})},
		{"verifyOpts", semLiteralFlags(cc, "ValidateChain", "x509.VerifyOptions", "verifyOpts")},
		{"validateChainOrder", semOrder(cc, "ValidateChain", "validateChainOrder", [][2]string{
			{"parse", "x509.ParseCertificate("}, {"notAfterStart", O + ".notAfterStart != nil"}, {"notAfterLimit", O + ".notAfterLimit != nil"},
			{"acceptOnlyCA", O + ".acceptOnlyCA"}, {"rejectExpired", O + ".rejectExpired"},
			{"rejectUnexpired", O + ".rejectUnexpired"}, {"rejectExtIds", "len(" + O + ".rejectExtIds)"},
			{"extKeyUsages", "len(" + O + ".extKeyUsages)"}, {"verify", "$elem0.Verify("}, {"noChains", "len($Verify)==0"}, {"chainsEquivalent", "chainsEquivalent("}})},
		// ---- chainsEquivalent
		{"chainsLenMismatch", semReach(cc, "chainsEquivalent", "func",
			func(r canonReturn) bool { return !r.inLoop && len(r.results) == 1 && r.results[0] == "false" }, nil,
			"chainsLenMismatch", "(n m : Int)",
			Spec{Kind: "i64", Repl: map[string]string{"len($[]*x509.Certificate#0)": "n", "len($[]*x509.Certificate#1)": "m"}})},
		// ---- IsPrecertificate / verifyAddChain
		{"poisonInvalid", semReach(cc, "IsPrecertificate", "loop",
			func(r canonReturn) bool { return r.inLoop && len(r.results) == 2 && r.results[0] == "false" && r.results[1] != "nil" }, nil,
			"poisonInvalid", "(critical valueIsNull : Bool)",
			Spec{Kind: "i64", Repl: map[string]string{
				"x509.OIDExtensionCTPoison.Equal($range($*x509.Certificate.Extensions)#1.Id)": "true",
				"$range($*x509.Certificate.Extensions)#1.Critical":                             "critical",
				"bytes.Equal(asn1.NullBytes, $range($*x509.Certificate.Extensions)#1.Value)":   "valueIsNull"}})},
		{"poisonLoop", loopShape(cc, "IsPrecertificate", "poisonLoop")},
		{"kindMismatch", semReach(hh, "verifyAddChain", "func",
			func(r canonReturn) bool {
				return len(r.results) == 2 && r.results[0] == "nil" && strings.Contains(r.results[1], "mismatch")
			}, []string{"$IsPrecertificate"},
			"kindMismatch", "(isPrecert expectingPrecert : Bool)",
			Spec{Kind: "i64", Repl: map[string]string{"$IsPrecertificate": "isPrecert", "$bool": "expectingPrecert"}})},
		// ---- x509.CheckSignatureFrom
		{"keyUsageCertSign", iotaConst(xx, "KeyUsageCertSign", "keyUsageCertSign")},
		{"csfConstraintFails", condKernel(xx, "Certificate.CheckSignatureFrom", []string{"parent.Version"}, "csfConstraintFails",
			"(parentVersion : Int) (parentBCValid parentIsCA childEntrustSPKI : Bool)", Spec{Kind: "i64", Repl: csf})},
		{"csfKeyUsageFails", condKernel(xx, "Certificate.CheckSignatureFrom", []string{"parent.KeyUsage"}, "csfKeyUsageFails",
			"(parentKeyUsage : Int)", Spec{Kind: "i64", Repl: csf})},
		{"csfAlgFails", condKernel(xx, "Certificate.CheckSignatureFrom", []string{"parent.PublicKeyAlgorithm"}, "csfAlgFails",
			"(parentPKAlgKnown : Bool)", Spec{Kind: "i64", Repl: csf})},
		// ---- x509.isValid / buildChains
		{"isValidNameGuard", condKernel(vv, "Certificate.isValid", []string{"opts.DisableNameChecks"}, "isValidNameGuard",
			"(disableNameChecks chainNonEmpty : Bool)", Spec{Kind: "i64", Repl: isv})},
		{"isValidNameMismatch", condKernel(vv, "Certificate.isValid", []string{"child.RawIssuer"}, "isValidNameMismatch",
			"(childIssuer subject : Nat)", Spec{Kind: "i64", Repl: isv})},
		{"isValidNotCA", condKernel(vv, "Certificate.isValid", []string{"certType == intermediateCertificate", "c.IsCA"}, "isValidNotCA",
			"(isIntermediate bcValid isCA : Bool)", Spec{Kind: "i64", Repl: isv})},
		// ---- x509.CertPool.findPotentialParents: key identifiers first, names only when that found nothing
		{"fppUseKeyId", condKernel("x509/cert_pool.go", "CertPool.findPotentialParents", []string{"cert.AuthorityKeyId"}, "fppUseKeyId", "(akiPresent : Bool)",
			Spec{Kind: "i64", Repl: map[string]string{"len(cert.AuthorityKeyId) > 0": "akiPresent"}})},
		{"fppFallBackToNames", condKernel("x509/cert_pool.go", "CertPool.findPotentialParents", []string{"len(candidates)"}, "fppFallBackToNames", "(noCandidates : Bool)",
			Spec{Kind: "i64", Repl: map[string]string{"len(candidates) == 0": "noCandidates"}})},
		// ---- addChainInternal: the status of a chain that verifyAddChain rejects
		{"verifyFailStatus", statusAfterCall(hh, "addChainInternal", "verifyAddChain", "verifyFailStatus")},
		{"maxChainSignatureChecks", constKernel(vv, "maxChainSignatureChecks", "maxChainSignatureChecks", intLit)},
		{"sigBudgetExceeded", condKernel(vv, "Certificate.buildChains", []string{"*sigChecks", "maxChainSignatureChecks"}, "sigBudgetExceeded",
			"(sigChecks : Int)", Spec{Kind: "i64", Repl: isv})},
	}})
}
