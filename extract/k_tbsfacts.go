package main

// C03: fact tables read from the source on every run — the three extension OIDs, the asn1 struct tags that
// decide how a TBSCertificate is unmarshalled and marshalled again, the TLS limits of the SCT list, and the
// wiring of the thin wrappers (which OID / which function each one passes on).
import (
	"fmt"
	"go/ast"
	"go/token"
	"reflect"
	"strconv"
	"strings"
)

func init() {
	x := "x509/x509.go"
	px := "x509/pkix/pkix.go"
	se := "serialization.go"
	register(genFile{name: "TbsFacts", imports: []string{"CTV.Basic.I64"}, units: []unit{
		// removeExtension: one iteration of the search loop; `none` = the function returns an error, `some extAt` = the new index.
		{"removeExtension.step", uniqLoopStep(x, "removeExtension", "removeExtensionStep")},
		// … and what follows the loop: the error when nothing was found
		{"removeExtension.absent", uniqLoopAbsent(x, "removeExtension", "removeExtensionAbsent")},
		// BuildPrecertTBS: the authority-key-id update, as normalised source (pinned by C03.facts_as_modelled)
		// the two functions path by path, in a form that survives renames, hoists, helper extraction and control-flow restructuring
		{"removeExtension.paths", canonPaths(x, "removeExtension", []string{"tbsData", "oid"}, nil, "removeExtensionPaths")},
		{"BuildPrecertTBS.paths", canonPaths(x, "BuildPrecertTBS", []string{"tbsData", "preIssuer"}, []string{"removeExtension"}, "buildPrecertPaths")},
		// EVERY statement of the two functions that writes to (a part of) `tbs`, or hands out `&tbs`, each with the conditions that guard it
		// … and every statement that reads `tbs` as a whole (what is marshalled, and where)
		{"oid.CTPoison", oidVar(x, "OIDExtensionCTPoison", "oidCTPoison")},
		{"oid.CTSCT", oidVar(x, "OIDExtensionCTSCT", "oidCTSCT")},
		{"oid.AuthorityKeyId", oidVar(x, "OIDExtensionAuthorityKeyId", "oidAuthorityKeyId")},
		// the CT extended key usage: its OID, the rows of the EKU table that mention it, and the two loops that look for it
		{"oid.ExtKeyUsageCT", oidVar(x, "oidExtKeyUsageCertificateTransparency", "oidExtKeyUsageCT")},
		{"eku.IsPreIssuer", searchSummary(se, "IsPreIssuer", []string{"issuer"}, "isPreIssuerSearch")},
		{"eku.table", tableRows(x, "extKeyUsageOIDs", "CertificateTransparency", "ekuTableCTRows")},
		{"tags.tbsCertificate", structTags(x, "tbsCertificate", "asn1", "tbsCertificateFields")},
		{"tags.validity", structTags(x, "validity", "asn1", "validityFields")},
		{"tags.publicKeyInfo", structTags(x, "publicKeyInfo", "asn1", "publicKeyInfoFields")},
		{"tags.Extension", structTags(px, "Extension", "asn1", "extensionFields")},
		{"tags.AlgorithmIdentifier", structTags(px, "AlgorithmIdentifier", "asn1", "algorithmIdentifierFields")},
		{"tags.SerializedSCT", structTags(x, "SerializedSCT", "tls", "serializedSCTFields")},
		{"tags.SignedCertificateTimestampList", structTags(x, "SignedCertificateTimestampList", "tls", "sctListFields")},
		{"tls.SerializedSCT.min", tlsLimit(x, "SerializedSCT", "Val", "minlen", "sctItemMin")},
		{"tls.SerializedSCT.max", tlsLimit(x, "SerializedSCT", "Val", "maxlen", "sctItemMax")},
		{"tls.SCTList.min", tlsLimit(x, "SignedCertificateTimestampList", "SCTList", "minlen", "sctListMin")},
		{"tls.SCTList.max", tlsLimit(x, "SignedCertificateTimestampList", "SCTList", "maxlen", "sctListMax")},
		{"asn1.base128.padding", ifPresent("asn1/asn1.go", "parseBase128Int", []string{"shifted == 0", "b == 0x80"}, "base128RejectsPadding",
			"`parseBase128Int` refuses a group whose first byte is the padding byte 0x80 (non-minimal arc / tag number)")},
		{"wiring.RemoveSCTList", soleReturn(x, "RemoveSCTList", "removeSCTListReturns")},
		{"wiring.RemoveCTPoison", soleReturn(x, "RemoveCTPoison", "removeCTPoisonReturns")},
	}})
}

func leanStr(s string) string { return strconv.Quote(s) }

// oidVar: `name = asn1.ObjectIdentifier{a, b, …}` as a list of arcs.
func oidVar(rel, name, leanName string) func() string {
	return func() string {
		f := parseFile(rp(rel))
		for _, d := range f.Decls {
			gd, ok := d.(*ast.GenDecl)
			if !ok || gd.Tok != token.VAR {
				continue
			}
			for _, s := range gd.Specs {
				vs := s.(*ast.ValueSpec)
				for i, n := range vs.Names {
					if n.Name != name || i >= len(vs.Values) {
						continue
					}
					cl, ok := vs.Values[i].(*ast.CompositeLit)
					if !ok || src(cl.Type) != "asn1.ObjectIdentifier" {
						panic(bail{fmt.Sprintf("%s: %s is not an asn1.ObjectIdentifier literal: %s", rel, name, src(vs.Values[i]))})
					}
					var arcs []string
					for _, e := range cl.Elts {
						v, ok := intLit(e)
						if !ok {
							panic(bail{fmt.Sprintf("%s: arc of %s is not an integer literal: %s", rel, name, src(e))})
						}
						arcs = append(arcs, v)
					}
					return fmt.Sprintf("/-- generated from %s: `%s = %s` -/\ndef %s : List Nat := [%s]\n", rel, name, src(cl), leanName, strings.Join(arcs, ", "))
				}
			}
		}
		panic(bail{fmt.Sprintf("%s: variable %s not found", rel, name)})
	}
}

func findStruct(rel, typeName string) *ast.StructType {
	f := parseFile(rp(rel))
	for _, d := range f.Decls {
		gd, ok := d.(*ast.GenDecl)
		if !ok || gd.Tok != token.TYPE {
			continue
		}
		for _, s := range gd.Specs {
			ts := s.(*ast.TypeSpec)
			if ts.Name.Name == typeName {
				if st, ok := ts.Type.(*ast.StructType); ok {
					return st
				}
				panic(bail{fmt.Sprintf("%s: type %s is not a struct", rel, typeName)})
			}
		}
	}
	panic(bail{fmt.Sprintf("%s: type %s not found", rel, typeName)})
}

func fieldTag(fl *ast.Field, key string) string {
	if fl.Tag == nil {
		return ""
	}
	raw, err := strconv.Unquote(fl.Tag.Value)
	if err != nil {
		return "?"
	}
	return reflect.StructTag(raw).Get(key)
}

// structTags: (field name, Go type, value of the `key:"…"` tag) for every field, in declaration order.
func structTags(rel, typeName, key, leanName string) func() string {
	return func() string {
		st := findStruct(rel, typeName)
		var rows []string
		for _, fl := range st.Fields.List {
			names := fl.Names
			if len(names) == 0 {
				names = []*ast.Ident{{Name: "_embedded"}}
			}
			for _, n := range names {
				rows = append(rows, fmt.Sprintf("(%s, %s, %s)", leanStr(n.Name), leanStr(src(fl.Type)), leanStr(fieldTag(fl, key))))
			}
		}
		return fmt.Sprintf("/-- generated from %s: fields of `%s` with their `%s` tags -/\ndef %s : List (String × String × String) :=\n  [%s]\n",
			rel, typeName, key, leanName, strings.Join(rows, ",\n   "))
	}
}

// tlsLimit: the number after `opt:` in the tls tag of a field.
func tlsLimit(rel, typeName, field, opt, leanName string) func() string {
	return func() string {
		st := findStruct(rel, typeName)
		for _, fl := range st.Fields.List {
			for _, n := range fl.Names {
				if n.Name != field {
					continue
				}
				for _, part := range strings.Split(fieldTag(fl, "tls"), ",") {
					if strings.HasPrefix(part, opt+":") {
						v, err := strconv.ParseUint(strings.TrimPrefix(part, opt+":"), 10, 63)
						if err != nil {
							panic(bail{fmt.Sprintf("%s: %s.%s: bad %s in tls tag", rel, typeName, field, opt)})
						}
						return fmt.Sprintf("/-- generated from %s: `%s.%s` tls tag `%s` -/\ndef %s : Nat := %d\n", rel, typeName, field, fieldTag(fl, "tls"), leanName, v)
					}
				}
				panic(bail{fmt.Sprintf("%s: %s.%s has no %s in its tls tag %q", rel, typeName, field, opt, fieldTag(fl, "tls"))})
			}
		}
		panic(bail{fmt.Sprintf("%s: field %s.%s not found", rel, typeName, field)})
	}
}

// soleReturn: the function body is a single `return e`; emits the source of e.
func soleReturn(rel, fn, leanName string) func() string {
	return func() string {
		fd := mustFunc(rel, fn)
		if len(fd.Body.List) != 1 {
			panic(bail{fmt.Sprintf("%s: %s is no longer a single return statement", rel, fn)})
		}
		r, ok := fd.Body.List[0].(*ast.ReturnStmt)
		if !ok || len(r.Results) != 1 {
			panic(bail{fmt.Sprintf("%s: %s is no longer `return <call>`", rel, fn)})
		}
		return fmt.Sprintf("/-- generated from %s: `func %s` is `return %s` -/\ndef %s : String := %s\n", rel, fn, src(r.Results[0]), leanName, leanStr(src(r.Results[0])))
	}
}

// firstAssign: the source of the first statement of the function.
func firstAssign(rel, fn, leanName string) func() string {
	return func() string {
		fd := mustFunc(rel, fn)
		if len(fd.Body.List) == 0 {
			panic(bail{fmt.Sprintf("%s: %s has an empty body", rel, fn)})
		}
		return fmt.Sprintf("/-- generated from %s: first statement of `func %s` -/\ndef %s : String := %s\n", rel, fn, leanName, leanStr(src(fd.Body.List[0])))
	}
}

// assignsTo: every assignment statement of fn whose single target is lhs, in source order.
func assignsTo(rel, fn, lhs, leanName string) func() string {
	return func() string {
		fd := mustFunc(rel, fn)
		ss := findStmts(fd, func(s ast.Stmt) bool {
			a, ok := s.(*ast.AssignStmt)
			return ok && len(a.Lhs) == 1 && src(a.Lhs[0]) == lhs
		})
		var rows []string
		for _, s := range ss {
			rows = append(rows, leanStr(src(s)))
		}
		return fmt.Sprintf("/-- generated from %s: assignments to `%s` in `func %s` -/\ndef %s : List String := [%s]\n", rel, lhs, fn, leanName, strings.Join(rows, ", "))
	}
}

// callsOf: every call expression in fn whose function name starts with prefix, in source order.
func callsOf(rel, fn, prefix, leanName string) func() string {
	return func() string {
		fd := mustFunc(rel, fn)
		var rows []string
		ast.Inspect(fd.Body, func(n ast.Node) bool {
			if c, ok := n.(*ast.CallExpr); ok && strings.HasPrefix(src(c.Fun), prefix) {
				rows = append(rows, leanStr(src(c)))
			}
			return true
		})
		return fmt.Sprintf("/-- generated from %s: calls to `%s…` in `func %s` -/\ndef %s : List String := [%s]\n", rel, prefix, fn, leanName, strings.Join(rows, ", "))
	}
}

// ifPresent: true iff fn contains an `if` whose condition mentions every marker and whose body sets err / returns.
func ifPresent(rel, fn string, markers []string, leanName, doc string) func() string {
	return func() string {
		fd := mustFunc(rel, fn)
		ss := findStmts(fd, func(s ast.Stmt) bool {
			i, ok := s.(*ast.IfStmt)
			if !ok {
				return false
			}
			c := src(i.Cond)
			for _, m := range markers {
				if !strings.Contains(c, m) {
					return false
				}
			}
			b := src(i.Body)
			return strings.Contains(b, "err =") || strings.Contains(b, "return")
		})
		if len(ss) > 1 {
			panic(bail{fmt.Sprintf("%s: more than one `if` mentioning %v in %s", rel, markers, fn)})
		}
		v := "false"
		if len(ss) == 1 {
			v = "true"
		}
		return fmt.Sprintf("/-- generated from %s func %s: %s -/\ndef %s : Bool := %s\n", rel, fn, doc, leanName, v)
	}
}

// rangeLoopSrc: the normalised source of the unique `for … range <marker>` loop of fn.
func rangeLoopSrc(rel, fn, marker, leanName string) func() string {
	return func() string {
		fd := mustFunc(rel, fn)
		var found []string
		ast.Inspect(fd.Body, func(n ast.Node) bool {
			if f, ok := n.(*ast.RangeStmt); ok && src(f.X) == marker {
				found = append(found, src(f))
			}
			return true
		})
		if len(found) != 1 {
			panic(bail{fmt.Sprintf("%s: expected exactly one range loop over %s in %s, found %d", rel, marker, fn, len(found))})
		}
		return fmt.Sprintf("/-- generated from %s func %s: the loop over `%s` -/\ndef %s : String := %s\n", rel, fn, marker, leanName, leanStr(found[0]))
	}
}

// ifChainConds: for the unique `if` of fn whose condition is exactly first: its condition, the conditions of the `if`s directly
// inside its body (each with the condition of its else-if, "else" for a plain else), and the conditions of its else-if chain.
func ifChainConds(rel, fn, first, leanName string) func() string {
	return func() string {
		fd := mustFunc(rel, fn)
		ss := findStmts(fd, func(s ast.Stmt) bool {
			i, ok := s.(*ast.IfStmt)
			return ok && src(i.Cond) == first
		})
		if len(ss) != 1 {
			panic(bail{fmt.Sprintf("%s: expected exactly one `if %s` in %s, found %d", rel, first, fn, len(ss))})
		}
		var rows []string
		var walk func(i *ast.IfStmt, prefix string)
		walk = func(i *ast.IfStmt, prefix string) {
			rows = append(rows, leanStr(prefix+"if "+src(i.Cond)))
			for _, st := range i.Body.List {
				if in, ok := st.(*ast.IfStmt); ok {
					walk(in, prefix+"  ")
				}
			}
			switch e := i.Else.(type) {
			case *ast.IfStmt:
				walk(e, prefix+"else ")
			case *ast.BlockStmt:
				rows = append(rows, leanStr(prefix+"else"))
				for _, st := range e.List {
					if in, ok := st.(*ast.IfStmt); ok {
						walk(in, prefix+"  ")
					}
				}
			}
		}
		walk(ss[0].(*ast.IfStmt), "")
		return fmt.Sprintf("/-- generated from %s func %s: shape of the `if %s` statement -/\ndef %s : List String := [%s]\n", rel, fn, first, leanName, strings.Join(rows, ", "))
	}
}

// ifAfterLoop translates the condition of the first top-level `if` that follows the range loop over loopX in fn and mentions v
// (the error test on the loop's result), whatever comparison it uses.
func ifAfterLoop(rel, fn, loopX, v, leanName, params string, sp Spec) func() string {
	return func() string {
		fd := mustFunc(rel, fn)
		t := &tr{sp: sp}
		seen := false
		for _, st := range fd.Body.List {
			if r, ok := st.(*ast.RangeStmt); ok && src(r.X) == loopX {
				seen = true
				continue
			}
			if i, ok := st.(*ast.IfStmt); ok && seen && strings.Contains(src(i.Cond), v) {
				if !hasReturn(i.Body.List) {
					panic(bail{fmt.Sprintf("%s: `if %s` after the loop in %s does not return", rel, src(i.Cond), fn)})
				}
				return fmt.Sprintf("/-- generated from %s func %s: `if %s` after the loop (returns an error) -/\ndef %s %s : Bool :=\n  %s\n", rel, fn, src(i.Cond), leanName, params, t.expr(i.Cond))
			}
		}
		panic(bail{fmt.Sprintf("%s: no `if` on %s after the loop over %s in %s", rel, v, loopX, fn)})
	}
}

// guarded walks the statements of a block, keeping the stack of enclosing conditions / loop headers.
func guarded(b []ast.Stmt, guards []string, visit func(s ast.Stmt, guards []string)) {
	for _, st := range b {
		switch n := st.(type) {
		case *ast.IfStmt:
			if n.Init != nil {
				visit(n.Init, guards)
			}
			g := append(append([]string{}, guards...), "if "+src(n.Cond))
			guarded(n.Body.List, g, visit)
			neg := append(append([]string{}, guards...), "else of "+src(n.Cond))
			switch e := n.Else.(type) {
			case *ast.BlockStmt:
				guarded(e.List, neg, visit)
			case *ast.IfStmt:
				guarded([]ast.Stmt{e}, neg, visit)
			}
		case *ast.ForStmt:
			h := "for"
			if n.Cond != nil {
				h += " " + src(n.Cond)
			}
			guarded(n.Body.List, append(append([]string{}, guards...), h), visit)
		case *ast.RangeStmt:
			guarded(n.Body.List, append(append([]string{}, guards...), "range "+src(n.X)), visit)
		case *ast.BlockStmt:
			guarded(n.List, guards, visit)
		case *ast.SwitchStmt:
			for _, c := range n.Body.List {
				cc := c.(*ast.CaseClause)
				guarded(cc.Body, append(append([]string{}, guards...), "switch "+src(n.Tag)+" case "+src(cc)), visit)
			}
		default:
			visit(st, guards)
		}
	}
}

func startsWithVar(e ast.Expr, v string) bool {
	for {
		switch x := e.(type) {
		case *ast.Ident:
			return x.Name == v
		case *ast.SelectorExpr:
			e = x.X
		case *ast.IndexExpr:
			e = x.X
		case *ast.SliceExpr:
			e = x.X
		case *ast.StarExpr:
			e = x.X
		case *ast.ParenExpr:
			e = x.X
		default:
			return false
		}
	}
}

// writesTo: every statement of fn that assigns to v or to a part of v, increments it, declares it, or passes &v / &v.f to a call,
// as "guard; guard; … => statement" in source order. An added write, a removed one, or one moved under another condition changes the list.
func writesTo(rel, fn, v, leanName string) func() string {
	return func() string {
		fd := mustFunc(rel, fn)
		var rows []string
		guarded(fd.Body.List, nil, func(st ast.Stmt, guards []string) {
			hit := false
			switch n := st.(type) {
			case *ast.AssignStmt:
				for _, l := range n.Lhs {
					if startsWithVar(l, v) {
						hit = true
					}
				}
			case *ast.IncDecStmt:
				hit = startsWithVar(n.X, v)
			case *ast.DeclStmt:
				if gd, ok := n.Decl.(*ast.GenDecl); ok {
					for _, sp := range gd.Specs {
						if vs, ok := sp.(*ast.ValueSpec); ok {
							for _, nm := range vs.Names {
								if nm.Name == v {
									hit = true
								}
							}
						}
					}
				}
			}
			ast.Inspect(st, func(nd ast.Node) bool {
				if u, ok := nd.(*ast.UnaryExpr); ok && u.Op == token.AND && startsWithVar(u.X, v) {
					hit = true
				}
				return true
			})
			if hit {
				rows = append(rows, leanStr(strings.Join(append(append([]string{}, guards...), ""), "; ")+"=> "+src(st)))
			}
		})
		return fmt.Sprintf("/-- generated from %s func %s: every statement that writes to `%s` (or passes its address), with its guards -/\ndef %s : List String :=\n  [%s]\n",
			rel, fn, v, leanName, strings.Join(rows, ",\n   "))
	}
}

// usesWhole: every statement in which v occurs as a whole value (not `v.f`, not `&v`): where it is marshalled / returned / copied.
func usesWhole(rel, fn, v, leanName string) func() string {
	return func() string {
		fd := mustFunc(rel, fn)
		var rows []string
		guarded(fd.Body.List, nil, func(st ast.Stmt, guards []string) {
			hit := false
			var walk func(n ast.Node, parentSel, parentAddr bool)
			ast.Inspect(st, func(nd ast.Node) bool {
				switch c := nd.(type) {
				case *ast.CallExpr:
					for _, a := range c.Args {
						if id, ok := a.(*ast.Ident); ok && id.Name == v {
							hit = true
						}
					}
				case *ast.ReturnStmt:
					for _, a := range c.Results {
						if id, ok := a.(*ast.Ident); ok && id.Name == v {
							hit = true
						}
					}
				case *ast.AssignStmt:
					for _, a := range c.Rhs {
						if id, ok := a.(*ast.Ident); ok && id.Name == v {
							hit = true
						}
					}
				}
				return true
			})
			_ = walk
			if hit {
				rows = append(rows, leanStr(strings.Join(append(append([]string{}, guards...), ""), "; ")+"=> "+src(st)))
			}
		})
		return fmt.Sprintf("/-- generated from %s func %s: every statement that uses `%s` as a whole value -/\ndef %s : List String :=\n  [%s]\n",
			rel, fn, v, leanName, strings.Join(rows, ",\n   "))
	}
}

// returnsOf: every return statement of fn with its guards; error returns are abbreviated to their first result and `<error>`.
// Guards that mention one of `kernels` are printed as `<regenerated test on …>`: those conditions are translated into Lean kernels
// and proved about, so an equivalent rewrite of them must not break the pin.
func returnsOf(rel, fn, leanName string, kernels ...string) func() string {
	return func() string {
		fd := mustFunc(rel, fn)
		var rows []string
		guarded(fd.Body.List, nil, func(st ast.Stmt, gs []string) {
			r, ok := st.(*ast.ReturnStmt)
			if !ok {
				return
			}
			guards := append([]string{}, gs...)
			for i, g := range guards {
				for _, k := range kernels {
					if strings.Contains(g, k) {
						guards[i] = "<regenerated test on " + k + ">"
					}
				}
			}
			txt := "return " + src(r.Results[0])
			if last := src(r.Results[len(r.Results)-1]); last == "nil" {
				txt += ", nil"
			} else {
				txt += ", <error>"
			}
			rows = append(rows, leanStr(strings.Join(append(append([]string{}, guards...), ""), "; ")+"=> "+txt))
		})
		return fmt.Sprintf("/-- generated from %s func %s: every return statement with its guards -/\ndef %s : List String :=\n  [%s]\n",
			rel, fn, leanName, strings.Join(rows, ",\n   "))
	}
}

// tableRows: the rows (element source) of the composite literal initialising variable name that mention marker.
func tableRows(rel, name, marker, leanName string) func() string {
	return func() string {
		f := parseFile(rp(rel))
		for _, d := range f.Decls {
			gd, ok := d.(*ast.GenDecl)
			if !ok || gd.Tok != token.VAR {
				continue
			}
			for _, sp := range gd.Specs {
				vs := sp.(*ast.ValueSpec)
				for i, n := range vs.Names {
					if n.Name != name || i >= len(vs.Values) {
						continue
					}
					cl, ok := vs.Values[i].(*ast.CompositeLit)
					if !ok {
						panic(bail{fmt.Sprintf("%s: %s is not a composite literal", rel, name)})
					}
					var rows []string
					for _, e := range cl.Elts {
						if strings.Contains(src(e), marker) {
							rows = append(rows, leanStr(src(e)))
						}
					}
					return fmt.Sprintf("/-- generated from %s: rows of `%s` that mention %s -/\ndef %s : List String := [%s]\n", rel, name, marker, leanName, strings.Join(rows, ", "))
				}
			}
		}
		panic(bail{fmt.Sprintf("%s: variable %s not found", rel, name)})
	}
}
