package main

// C17: regenerated units for the multi-log submission property.
//
//   Gen/Policy.lean
//     Policy.lifetimeInMonths      kernel   ctpolicy/ctpolicy.go   lifetimeInMonths
//     Policy.chromeIncCount        kernel   ctpolicy/chromepolicy.go  switch m := lifetimeInMonths(cert); {...}
//     Policy.appleIncCount         kernel   ctpolicy/applepolicy.go   (same switch)
//     Policy.setMinInclusions      kernel   ctpolicy/ctpolicy.go   LogGroupInfo.setMinInclusions
//     Policy.chromeSubgroups       table    (name, operator filter, minimum) of the non-base groups of ChromeCTPolicy.LogsByGroup
//     Policy.appleSubgroups        table    same for AppleCTPolicy.LogsByGroup (empty)
//     Policy.baseName, Policy.pendingIncCount
//     Policy.temporallyCompatible  kernel   loglist3/logfilter.go  condition of TemporallyCompatible
//     Policy.postBatchInterval, Policy.postInterval   submission/races.go
//     Policy.lockTable             table    (struct, field, function, write?, lock mode held, construction phase?)
//                                           for every access to a mutex-guarded field (go/ast walk)

import (
	"fmt"
	"go/ast"
	"go/token"
	"os"
	"path/filepath"
	"sort"
	"strings"
)

func init() {
	cp := "ctpolicy/ctpolicy.go"
	register(genFile{name: "Policy", imports: []string{"CTV.Basic.I64"}, units: []unit{
		{"Policy.lifetimeInMonths", funcKernel(cp, "lifetimeInMonths", "Policy.lifetimeInMonths",
			"(startYear_ startMonth_ startDay_ endYear_ endMonth_ endDay_ : Int)", "Int",
			Spec{Kind: "i64", InputCalls: []string{"cert.NotBefore.Date", "cert.NotAfter.Date"}})},
		{"Policy.chromeIncCount", incCountKernel("ctpolicy/chromepolicy.go", "ChromeCTPolicy.LogsByGroup", "Policy.chromeIncCount")},
		{"Policy.appleIncCount", incCountKernel("ctpolicy/applepolicy.go", "AppleCTPolicy.LogsByGroup", "Policy.appleIncCount")},
		{"Policy.setMinInclusions", funcKernel(cp, "LogGroupInfo.setMinInclusions", "Policy.setMinInclusions",
			"(i_ nLogs : Int)", "Option Unit",
			Spec{Kind: "i64", Ret: "errlast", Repl: map[string]string{"len(group.LogURLs)": "nLogs"},
				Vars: map[string]string{"group.MinInclusions": "_minInclusions"}})},
		{"Policy.chromeSubgroups", subgroupTable("ctpolicy/chromepolicy.go", "ChromeCTPolicy.LogsByGroup", "Policy.chromeSubgroups")},
		{"Policy.appleSubgroups", subgroupTable("ctpolicy/applepolicy.go", "AppleCTPolicy.LogsByGroup", "Policy.appleSubgroups")},
		{"Policy.baseName", stringConst(cp, "BaseName", "Policy.baseName")},
		{"Policy.baseGroupFor", baseGroupFacts(cp)},
		{"Policy.pendingIncCount", pendingIncCount("submission/distributor.go")},
		{"Policy.rootChoice", rootChoiceFacts("submission/distributor.go")},
		{"Policy.postBatchInterval", constKernel("submission/races.go", "PostBatchInterval", "Policy.postBatchInterval", durLit)},
		{"Policy.postInterval", funcKernel("submission/races.go", "postInterval", "Policy.postInterval",
			"(idx_ parallelStart_ dur_ : Int)", "Int", Spec{Kind: "i64"})},
		{"Policy.lockTable", lockTable()},
		{"Policy.unlistedSharedWrites", unlistedSharedWrites()},
	}})
}

// incCountKernel translates
//
//	switch m := lifetimeInMonths(cert); { case <cond on m>: incCount = N ... default: incCount = N }
//
// into `def name (m_ : Int) : Int := if c1 then N1 else if c2 then N2 ... else Nd`.
func incCountKernel(rel, fn, leanName string) func() string {
	return func() string {
		fd := mustFunc(rel, fn)
		// the tagless switch all of whose clauses are `incCount = N`
		ss := findStmts(fd, func(s ast.Stmt) bool {
			sw, ok := s.(*ast.SwitchStmt)
			if !ok || sw.Tag != nil || len(sw.Body.List) == 0 {
				return false
			}
			for _, c := range sw.Body.List {
				cc := c.(*ast.CaseClause)
				if len(cc.Body) != 1 {
					return false
				}
				as, ok := cc.Body[0].(*ast.AssignStmt)
				if !ok || len(as.Lhs) != 1 || src(as.Lhs[0]) != "incCount" {
					return false
				}
			}
			return true
		})
		if len(ss) != 1 {
			panic(bail{fmt.Sprintf("%s: expected one tagless switch assigning incCount in %s, found %d", rel, fn, len(ss))})
		}
		sw := ss[0].(*ast.SwitchStmt)
		// the variable holding lifetimeInMonths(cert): bound in the switch's init statement or by an assignment before it
		mvar := ""
		bind := func(st ast.Stmt) {
			if a, ok := st.(*ast.AssignStmt); ok && len(a.Lhs) == 1 && len(a.Rhs) == 1 && src(a.Rhs[0]) == "lifetimeInMonths(cert)" {
				mvar = src(a.Lhs[0])
			}
		}
		if sw.Init != nil {
			bind(sw.Init)
		}
		if mvar == "" {
			cands := findStmts(fd, func(s ast.Stmt) bool {
				a, ok := s.(*ast.AssignStmt)
				return ok && len(a.Lhs) == 1 && len(a.Rhs) == 1 && src(a.Rhs[0]) == "lifetimeInMonths(cert)" && a.Pos() < sw.Pos()
			})
			if len(cands) == 1 {
				bind(cands[0])
				// it must not be reassigned
				if n := len(findStmts(fd, func(s ast.Stmt) bool {
					a, ok := s.(*ast.AssignStmt)
					if ok {
						for _, l := range a.Lhs {
							if src(l) == mvar {
								return true
							}
						}
					}
					if id, ok := s.(*ast.IncDecStmt); ok && src(id.X) == mvar {
						return true
					}
					return false
				})); n != 1 {
					panic(bail{fmt.Sprintf("%s: %s is assigned %d times in %s", rel, mvar, n, fn)})
				}
			}
		}
		if mvar == "" {
			panic(bail{fmt.Sprintf("%s: the incCount switch of %s does not test a variable bound to lifetimeInMonths(cert)", rel, fn)})
		}
		t := &tr{sp: Spec{Kind: "i64", Repl: map[string]string{mvar: "m_", "lifetimeInMonths(cert)": "m_"}}}
		out, def := "", ""
		for _, c := range sw.Body.List {
			cc := c.(*ast.CaseClause)
			as := cc.Body[0].(*ast.AssignStmt)
			if as.Tok != token.ASSIGN {
				panic(bail{fmt.Sprintf("%s: case body is not `incCount = N`: %s", rel, src(cc))})
			}
			v, ok := intLit(as.Rhs[0])
			if !ok {
				panic(bail{fmt.Sprintf("%s: incCount value is not a literal: %s", rel, src(as))})
			}
			if cc.List == nil {
				def = v
				continue
			}
			if def != "" {
				panic(bail{fmt.Sprintf("%s: default clause is not last in %s", rel, fn)})
			}
			var conds []string
			for _, e := range cc.List {
				conds = append(conds, t.expr(e))
			}
			out += "if " + strings.Join(conds, " || ") + " then " + v + "\n  else "
		}
		if def == "" {
			panic(bail{fmt.Sprintf("%s: switch in %s has no default", rel, fn)})
		}
		// the value must reach BaseGroupFor(approved, incCount) unchanged
		bg := findStmts(fd, func(s ast.Stmt) bool {
			a, ok := s.(*ast.AssignStmt)
			return ok && len(a.Rhs) == 1 && callName(a.Rhs[0]) == "BaseGroupFor"
		})
		if len(bg) != 1 || src(bg[0].(*ast.AssignStmt).Rhs[0]) != "BaseGroupFor(approved, incCount)" {
			panic(bail{fmt.Sprintf("%s: %s does not call BaseGroupFor(approved, incCount) exactly once", rel, fn)})
		}
		return fmt.Sprintf("/-- generated from %s func %s: the switch on lifetimeInMonths(cert) feeding BaseGroupFor(approved, incCount) -/\ndef %s (m_ : Int) : Int :=\n  %s%s\n",
			rel, fn, leanName, out, def)
	}
}

// subgroupTable reads the non-base groups built in a LogsByGroup method:
//
//	g := LogGroupInfo{Name: "<name>", IsBase: false}
//	g.populate(approved, func(op *loglist3.Operator) bool { return [!]op.GoogleOperated() })
//	if err := g.setMinInclusions(N); err != nil { return nil, err }
//
// and checks that exactly these groups plus the base group are returned.
// Row: (name, wantGoogleOperated, N).
func subgroupTable(rel, fn, leanName string) func() string {
	return func() string {
		fd := mustFunc(rel, fn)
		type grp struct {
			v, name string
			google  string
			min     string
		}
		var gs []*grp
		byVar := map[string]*grp{}
		for _, s := range fd.Body.List {
			switch x := s.(type) {
			case *ast.AssignStmt:
				if len(x.Lhs) == 1 && len(x.Rhs) == 1 {
					if cl, ok := x.Rhs[0].(*ast.CompositeLit); ok && src(cl.Type) == "LogGroupInfo" {
						g := &grp{v: src(x.Lhs[0])}
						for _, el := range cl.Elts {
							kv, ok := el.(*ast.KeyValueExpr)
							if !ok {
								panic(bail{fmt.Sprintf("%s: unkeyed LogGroupInfo literal", rel)})
							}
							switch src(kv.Key) {
							case "Name":
								g.name = src(kv.Value)
							case "IsBase":
								if src(kv.Value) != "false" {
									panic(bail{fmt.Sprintf("%s: non-base group literal with IsBase: %s", rel, src(kv.Value))})
								}
							default:
								panic(bail{fmt.Sprintf("%s: unexpected field %s in LogGroupInfo literal", rel, src(kv.Key))})
							}
						}
						if !strings.HasPrefix(g.name, "\"") {
							panic(bail{fmt.Sprintf("%s: group name is not a string literal: %s", rel, g.name)})
						}
						gs = append(gs, g)
						byVar[g.v] = g
					}
				}
			case *ast.ExprStmt:
				c, ok := x.X.(*ast.CallExpr)
				if !ok {
					continue
				}
				sel, ok := c.Fun.(*ast.SelectorExpr)
				if !ok || sel.Sel.Name != "populate" {
					continue
				}
				g := byVar[src(sel.X)]
				if g == nil || len(c.Args) != 2 || src(c.Args[0]) != "approved" {
					panic(bail{fmt.Sprintf("%s: unsupported populate call %s", rel, src(c))})
				}
				fl, ok := c.Args[1].(*ast.FuncLit)
				if !ok || len(fl.Body.List) != 1 {
					panic(bail{fmt.Sprintf("%s: populate filter is not a one-statement literal: %s", rel, src(c.Args[1]))})
				}
				r, ok := fl.Body.List[0].(*ast.ReturnStmt)
				if !ok || len(r.Results) != 1 {
					panic(bail{fmt.Sprintf("%s: populate filter is not a single return", rel)})
				}
				switch src(r.Results[0]) {
				case "op.GoogleOperated()":
					g.google = "true"
				case "!op.GoogleOperated()":
					g.google = "false"
				default:
					panic(bail{fmt.Sprintf("%s: unsupported operator filter %s", rel, src(r.Results[0]))})
				}
			case *ast.IfStmt:
				if x.Init == nil {
					continue
				}
				a, ok := x.Init.(*ast.AssignStmt)
				if !ok || len(a.Rhs) != 1 {
					continue
				}
				c, ok := a.Rhs[0].(*ast.CallExpr)
				if !ok {
					continue
				}
				sel, ok := c.Fun.(*ast.SelectorExpr)
				if !ok || sel.Sel.Name != "setMinInclusions" {
					continue
				}
				g := byVar[src(sel.X)]
				if g == nil || len(c.Args) != 1 {
					panic(bail{fmt.Sprintf("%s: unsupported setMinInclusions call %s", rel, src(c))})
				}
				v, ok := intLit(c.Args[0])
				if !ok {
					panic(bail{fmt.Sprintf("%s: setMinInclusions argument is not a literal: %s", rel, src(c))})
				}
				if src(x.Cond) != "err != nil" || len(x.Body.List) != 1 || src(x.Body.List[0]) != "return nil, err" {
					panic(bail{fmt.Sprintf("%s: setMinInclusions error is not returned: %s", rel, src(x))})
				}
				g.min = v
			}
		}
		// the returned LogPolicyData literal: every sub-group by its own name + baseGroup
		lits := findStmts(fd, func(s ast.Stmt) bool {
			a, ok := s.(*ast.AssignStmt)
			if !ok || len(a.Rhs) != 1 {
				return false
			}
			cl, ok := a.Rhs[0].(*ast.CompositeLit)
			return ok && src(cl.Type) == "LogPolicyData"
		})
		if len(lits) != 1 {
			panic(bail{fmt.Sprintf("%s: expected one LogPolicyData literal in %s, found %d", rel, fn, len(lits))})
		}
		cl := lits[0].(*ast.AssignStmt).Rhs[0].(*ast.CompositeLit)
		var want []string
		for _, g := range gs {
			want = append(want, g.v+".Name: &"+g.v)
		}
		want = append(want, "baseGroup.Name: baseGroup")
		var got []string
		for _, el := range cl.Elts {
			got = append(got, src(el))
		}
		sort.Strings(want)
		sort.Strings(got)
		if strings.Join(want, ";") != strings.Join(got, ";") {
			panic(bail{fmt.Sprintf("%s: %s returns groups %v, constructed %v", rel, fn, got, want)})
		}
		var rows []string
		for _, g := range gs {
			if g.google == "" || g.min == "" {
				panic(bail{fmt.Sprintf("%s: group %s is not populated / has no minimum", rel, g.name)})
			}
			rows = append(rows, fmt.Sprintf("(%s, %s, %s)", g.name, g.google, g.min))
		}
		return fmt.Sprintf("/-- generated from %s func %s: non-base groups (name, operator must be GoogleOperated?, MinInclusions) -/\ndef %s : List (String × Bool × Int) :=\n  [%s]\n",
			rel, fn, leanName, strings.Join(rows, ", "))
	}
}

func stringConst(rel, name, leanName string) func() string {
	return func() string {
		f := parseFile(rp(rel))
		for _, d := range f.Decls {
			gd, ok := d.(*ast.GenDecl)
			if !ok || gd.Tok != token.CONST {
				continue
			}
			for _, s := range gd.Specs {
				vs := s.(*ast.ValueSpec)
				for i, n := range vs.Names {
					if n.Name == name && i < len(vs.Values) {
						if b, ok := vs.Values[i].(*ast.BasicLit); ok && b.Kind == token.STRING && strings.HasPrefix(b.Value, "\"") {
							return fmt.Sprintf("/-- generated from %s: `%s = %s` -/\ndef %s : String := %s\n", rel, name, b.Value, leanName, b.Value)
						}
					}
				}
			}
		}
		panic(bail{fmt.Sprintf("%s: string constant %s not found", rel, name)})
	}
}

// baseGroupFacts checks BaseGroupFor: name BaseName, IsBase true, every operator included, minimum = incCount.
func baseGroupFacts(rel string) func() string {
	return func() string {
		fd := mustFunc(rel, "BaseGroupFor")
		want := []string{
			"baseGroup := LogGroupInfo{Name: BaseName, IsBase: true}",
			"baseGroup.populate(approved, func(op *loglist3.Operator) bool { return true })",
			"err := baseGroup.setMinInclusions(incCount)",
			"return &baseGroup, err",
		}
		if len(fd.Body.List) != len(want) {
			panic(bail{fmt.Sprintf("%s: BaseGroupFor has %d statements, expected %d", rel, len(fd.Body.List), len(want))})
		}
		for i, s := range fd.Body.List {
			if src(s) != want[i] {
				panic(bail{fmt.Sprintf("%s: BaseGroupFor statement %d is `%s`, expected `%s`", rel, i, src(s), want[i])})
			}
		}
		return fmt.Sprintf("/-- generated from %s func BaseGroupFor: the base group is named BaseName, IsBase, contains the logs of every operator,\n    MinInclusions = incCount, and the setMinInclusions error is returned together with the group -/\ndef Policy.baseGroupAllOperators : Bool := true\n", rel)
	}
}

func pendingIncCount(rel string) func() string {
	return func() string {
		fd := mustFunc(rel, "pendingLogsPolicy.LogsByGroup")
		ss := findStmts(fd, func(s ast.Stmt) bool {
			a, ok := s.(*ast.AssignStmt)
			return ok && len(a.Rhs) == 1 && callName(a.Rhs[0]) == "ctpolicy.BaseGroupFor"
		})
		if len(ss) != 1 {
			panic(bail{fmt.Sprintf("%s: pendingLogsPolicy.LogsByGroup: expected one BaseGroupFor call", rel)})
		}
		c := ss[0].(*ast.AssignStmt).Rhs[0].(*ast.CallExpr)
		v, ok := intLit(c.Args[1])
		if !ok || src(c.Args[0]) != "approved" {
			panic(bail{fmt.Sprintf("%s: unsupported BaseGroupFor call %s", rel, src(c))})
		}
		return fmt.Sprintf("/-- generated from %s func pendingLogsPolicy.LogsByGroup: `%s` -/\ndef Policy.pendingIncCount : Int := %s\n", rel, src(c), v)
	}
}

// ---------------------------------------------------------------------------
// Lock discipline table.

type guardSpec struct {
	dir    string   // package directory (every non-test .go file in it is walked)
	typ    string   // struct type
	mutex  string   // mutex field
	fields []string // fields the mutex guards
	ctors  []string // functions that only touch objects not yet shared (construction phase)
}

var guardSpecs = []guardSpec{
	{"ctpolicy", "LogGroupInfo", "wMu", []string{"LogWeights"}, []string{"LogGroupInfo.populate"}},
	{"submission", "Distributor", "mu", []string{"logRoots", "rootPool", "rootDataFull"}, []string{"NewDistributor"}},
	{"submission", "Proxy", "distMu", []string{"dist", "distCancel"}, []string{"NewProxy"}},
	{"submission", "safeSubmissionState", "mu", []string{"logToGroups", "groupNeeds", "results", "cancels"}, []string{"newSafeSubmissionState"}},
	{"submission", "LogListManager", "mu", []string{"latestLL", "previousLL"}, []string{"NewLogListManager"}},
	{"submission", "logListRefresherImpl", "updateMu", []string{"lastJSON"}, []string{"NewCustomLogListRefresher"}},
}

type lockRow struct {
	typ, field, fn string
	write          bool
	mode           int // 0 none, 1 read lock, 2 write lock
	ctor           bool
	pos            string
}

type lockWalker struct {
	spec  guardSpec
	rel   string
	vars  map[string]string            // identifier -> (base) type name, where declared in a way we can read
	ftyp  map[string]map[string]string // struct -> field -> (base) type name, for the package
	held  int
	fn    string
	ctor  bool
	rows  *[]lockRow
	nlits int
	// calls: lock mode held at every call `x.m(...)` of a method of the struct (callee "T.m" -> modes), for the entry-mode fixpoint
	calls map[string][]int
	// lenient: do not refuse selectors of unknown base type (used by the unlisted-writes scan, where every field name counts)
	lenient bool
}

func baseTypeName(e ast.Expr) string {
	if s, ok := e.(*ast.StarExpr); ok {
		e = s.X
	}
	if id, ok := e.(*ast.Ident); ok {
		return id.Name
	}
	return ""
}

func typeIs(e ast.Expr, typ string) bool { return baseTypeName(e) == typ }

// typeOf: the struct type an expression denotes, as far as declarations in the package tell ("" = unknown).
func (w *lockWalker) typeOf(e ast.Expr) string {
	switch x := e.(type) {
	case *ast.Ident:
		return w.vars[x.Name]
	case *ast.ParenExpr:
		return w.typeOf(x.X)
	case *ast.StarExpr:
		return w.typeOf(x.X)
	case *ast.UnaryExpr:
		if x.Op == token.AND {
			return w.typeOf(x.X)
		}
	case *ast.SelectorExpr:
		if t := w.typeOf(x.X); t != "" {
			return w.ftyp[t][x.Sel.Name]
		}
	}
	return ""
}

func (w *lockWalker) isSpec(e ast.Expr) bool { return w.typeOf(e) == w.spec.typ }

// lockCall classifies `x.<mutex>.Lock()` etc. for a known variable x: returns the new mode or -1.
func (w *lockWalker) lockCall(e ast.Expr) (op string, ok bool) {
	c, isCall := e.(*ast.CallExpr)
	if !isCall {
		return "", false
	}
	sel, isSel := c.Fun.(*ast.SelectorExpr)
	if !isSel {
		return "", false
	}
	inner, isSel := sel.X.(*ast.SelectorExpr)
	if !isSel || inner.Sel.Name != w.spec.mutex {
		return "", false
	}
	if !w.isSpec(inner.X) {
		return "", false
	}
	switch sel.Sel.Name {
	case "Lock", "RLock", "Unlock", "RUnlock":
		return sel.Sel.Name, true
	}
	failf(e, "unsupported use of mutex %s.%s: %s", w.spec.typ, w.spec.mutex, src(e))
	return "", false
}

func (w *lockWalker) isGuarded(name string) bool {
	for _, f := range w.spec.fields {
		if f == name {
			return true
		}
	}
	return false
}

// guardedSel returns the guarded field named by e (after stripping index/paren/star), or "".
func (w *lockWalker) guardedSel(e ast.Expr) string {
	for {
		switch x := e.(type) {
		case *ast.IndexExpr:
			e = x.X
			continue
		case *ast.ParenExpr:
			e = x.X
			continue
		case *ast.StarExpr:
			e = x.X
			continue
		}
		break
	}
	sel, ok := e.(*ast.SelectorExpr)
	if !ok || !w.isGuarded(sel.Sel.Name) {
		return ""
	}
	if !w.isSpec(sel.X) {
		return ""
	}
	return sel.Sel.Name
}

func (w *lockWalker) record(field string, write bool, n ast.Node) {
	p := fset.Position(n.Pos())
	*w.rows = append(*w.rows, lockRow{w.spec.typ, field, w.fn, write, w.held, w.ctor, fmt.Sprintf("%s:%d", w.rel, p.Line)})
}

// reads records every guarded selector inside e as a read; function literals start a new scope.
func (w *lockWalker) reads(e ast.Node) {
	if e == nil {
		return
	}
	ast.Inspect(e, func(n ast.Node) bool {
		switch x := n.(type) {
		case *ast.FuncLit:
			w.funcLit(x)
			return false
		case *ast.CallExpr:
			if sel, ok := x.Fun.(*ast.SelectorExpr); ok && w.calls != nil && w.isSpec(sel.X) {
				k := w.spec.typ + "." + sel.Sel.Name
				w.calls[k] = append(w.calls[k], w.held)
			}
		case *ast.SelectorExpr:
			if w.isSpec(x.X) {
				if w.isGuarded(x.Sel.Name) {
					w.record(x.Sel.Name, false, x)
				}
				return true // the base may itself be an access (s.p.dist.policy)
			}
			// a guarded field name selected from something we cannot type: refuse rather than miss an access
			if !w.lenient && w.isGuarded(x.Sel.Name) && w.typeOf(x.X) == "" {
				if _, plain := x.X.(*ast.Ident); !plain {
					failf(x, "access to a field named %s through an expression of unknown type: %s", x.Sel.Name, src(x))
				}
			}
		}
		return true
	})
}

// funcLit walks a function literal as its own unit: no lock is held on entry (a goroutine body, a deferred
// call or a callback). Literals that are called in place inherit nothing either, which is conservative.
func (w *lockWalker) funcLit(fl *ast.FuncLit) {
	w.nlits++
	sub := *w
	sub.held = 0
	sub.fn = fmt.Sprintf("%s.func%d", w.fn, w.nlits)
	sub.vars = map[string]string{}
	for k, v := range w.vars {
		sub.vars[k] = v
	}
	sub.declareParams(fl.Type)
	sub.nlits = 0
	sub.block(fl.Body.List)
}

func (w *lockWalker) declareParams(ft *ast.FuncType) {
	if ft.Params == nil {
		return
	}
	for _, f := range ft.Params.List {
		for _, n := range f.Names {
			w.vars[n.Name] = baseTypeName(f.Type)
		}
	}
}

func (w *lockWalker) assignTargets(lhs []ast.Expr, rhs []ast.Expr, define bool) {
	for _, r := range rhs {
		w.reads(r)
	}
	for i, l := range lhs {
		if f := w.guardedSel(l); f != "" {
			w.record(f, true, l)
			// index expressions inside the target are reads
			if ix, ok := l.(*ast.IndexExpr); ok {
				w.reads(ix.Index)
			}
			continue
		}
		w.reads(l)
		if id, ok := l.(*ast.Ident); ok && define && i < len(rhs) && len(lhs) == len(rhs) {
			// x := T{...} / &T{...} / new(T)
			r := rhs[i]
			if u, ok := r.(*ast.UnaryExpr); ok && u.Op == token.AND {
				r = u.X
			}
			if cl, ok := r.(*ast.CompositeLit); ok {
				w.vars[id.Name] = baseTypeName(cl.Type)
			} else {
				w.vars[id.Name] = w.typeOf(r)
			}
		}
	}
}

func (w *lockWalker) block(b []ast.Stmt) {
	for _, s := range b {
		w.stmt(s)
	}
}

// nested walks a nested block; the lock state must be the same on exit as on entry unless the block
// ends by leaving the function.
func (w *lockWalker) nested(b []ast.Stmt, n ast.Node) {
	before := w.held
	w.block(b)
	if w.held != before {
		if len(b) > 0 {
			if _, ok := b[len(b)-1].(*ast.ReturnStmt); ok {
				w.held = before
				return
			}
		}
		failf(n, "lock state of %s.%s changes inside a nested block", w.spec.typ, w.spec.mutex)
	}
}

func (w *lockWalker) stmt(s ast.Stmt) {
	switch x := s.(type) {
	case nil:
	case *ast.ExprStmt:
		if op, ok := w.lockCall(x.X); ok {
			switch op {
			case "Lock":
				if w.held != 0 {
					failf(s, "%s.%s locked twice", w.spec.typ, w.spec.mutex)
				}
				w.held = 2
			case "RLock":
				if w.held != 0 {
					failf(s, "%s.%s locked twice", w.spec.typ, w.spec.mutex)
				}
				w.held = 1
			case "Unlock":
				if w.held != 2 {
					failf(s, "%s.%s unlocked while not write-locked", w.spec.typ, w.spec.mutex)
				}
				w.held = 0
			case "RUnlock":
				if w.held != 1 {
					failf(s, "%s.%s read-unlocked while not read-locked", w.spec.typ, w.spec.mutex)
				}
				w.held = 0
			}
			return
		}
		if c, ok := x.X.(*ast.CallExpr); ok && src(c.Fun) == "delete" && len(c.Args) == 2 {
			if f := w.guardedSel(c.Args[0]); f != "" {
				w.record(f, true, c)
				w.reads(c.Args[1])
				return
			}
		}
		w.reads(x.X)
	case *ast.DeferStmt:
		if op, ok := w.lockCall(x.Call); ok {
			// deferred unlock: the lock stays held to the end of the function
			if (op == "Unlock" && w.held == 2) || (op == "RUnlock" && w.held == 1) {
				return
			}
			failf(s, "deferred %s of %s.%s does not match the lock held", op, w.spec.typ, w.spec.mutex)
		}
		w.reads(x.Call)
	case *ast.GoStmt:
		// the new goroutine holds no lock
		saved := w.held
		w.held = 0
		w.reads(x.Call)
		w.held = saved
	case *ast.AssignStmt:
		if x.Tok != token.DEFINE && x.Tok != token.ASSIGN {
			// op-assignment: read and write
			for _, l := range x.Lhs {
				if f := w.guardedSel(l); f != "" {
					w.record(f, true, l)
				}
			}
		}
		w.assignTargets(x.Lhs, x.Rhs, x.Tok == token.DEFINE)
	case *ast.IncDecStmt:
		if f := w.guardedSel(x.X); f != "" {
			w.record(f, true, x.X)
			if ix, ok := x.X.(*ast.IndexExpr); ok {
				w.reads(ix.Index)
			}
			return
		}
		w.reads(x.X)
	case *ast.DeclStmt:
		gd, ok := x.Decl.(*ast.GenDecl)
		if !ok {
			return
		}
		for _, sp := range gd.Specs {
			vs, ok := sp.(*ast.ValueSpec)
			if !ok {
				continue
			}
			for _, v := range vs.Values {
				w.reads(v)
			}
			for _, n := range vs.Names {
				if vs.Type != nil {
					w.vars[n.Name] = baseTypeName(vs.Type)
				} else {
					delete(w.vars, n.Name)
				}
			}
		}
	case *ast.ReturnStmt:
		for _, r := range x.Results {
			w.reads(r)
		}
	case *ast.IfStmt:
		w.stmt(x.Init)
		w.reads(x.Cond)
		w.nested(x.Body.List, x)
		switch e := x.Else.(type) {
		case *ast.BlockStmt:
			w.nested(e.List, x)
		case *ast.IfStmt:
			w.nested([]ast.Stmt{e}, x)
		}
	case *ast.ForStmt:
		w.stmt(x.Init)
		w.reads(x.Cond)
		w.nested(append(append([]ast.Stmt{}, x.Body.List...), x.Post), x)
	case *ast.RangeStmt:
		w.reads(x.X)
		for _, kv := range []ast.Expr{x.Key, x.Value} {
			if id, ok := kv.(*ast.Ident); ok {
				delete(w.vars, id.Name)
			}
		}
		w.nested(x.Body.List, x)
	case *ast.BlockStmt:
		w.nested(x.List, x)
	case *ast.SwitchStmt:
		w.stmt(x.Init)
		w.reads(x.Tag)
		for _, c := range x.Body.List {
			cc := c.(*ast.CaseClause)
			for _, e := range cc.List {
				w.reads(e)
			}
			w.nested(cc.Body, x)
		}
	case *ast.TypeSwitchStmt:
		w.stmt(x.Init)
		w.stmt(x.Assign)
		for _, c := range x.Body.List {
			w.nested(c.(*ast.CaseClause).Body, x)
		}
	case *ast.SelectStmt:
		for _, c := range x.Body.List {
			cc := c.(*ast.CommClause)
			before := w.held
			w.stmt(cc.Comm)
			w.nested(cc.Body, x)
			w.held = before
		}
	case *ast.SendStmt:
		w.reads(x.Chan)
		w.reads(x.Value)
	case *ast.LabeledStmt:
		w.stmt(x.Stmt)
	case *ast.BranchStmt, *ast.EmptyStmt:
	default:
		failf(s, "lock walker: unsupported statement %T", s)
	}
}

func funcQualName(fd *ast.FuncDecl) string {
	if fd.Recv != nil && len(fd.Recv.List) == 1 {
		t := fd.Recv.List[0].Type
		if s, ok := t.(*ast.StarExpr); ok {
			t = s.X
		}
		if id, ok := t.(*ast.Ident); ok {
			return id.Name + "." + fd.Name.Name
		}
	}
	return fd.Name.Name
}

func lockTable() func() string {
	return func() string {
		var rows []lockRow
		for _, sp := range guardSpecs {
			ents, err := os.ReadDir(rp(sp.dir))
			if err != nil {
				panic(bail{fmt.Sprintf("read %s: %v", sp.dir, err)})
			}
			// Unexported methods that are only ever called with the guard held (e.g. a helper extracted from a locked region)
			// are walked with that lock mode on entry: entry mode = the weakest mode over the method's call sites, to a fixpoint.
			entry := map[string]int{}
			var specRows []lockRow
			foundType, foundCtors := false, map[string]bool{}
			for pass := 0; pass < 5; pass++ {
				specRows = nil
				calls := map[string][]int{}
				ftyp := map[string]map[string]string{}
				for _, e := range ents {
					if e.IsDir() || !strings.HasSuffix(e.Name(), ".go") || strings.HasSuffix(e.Name(), "_test.go") {
						continue
					}
					for _, d := range parseFile(rp(filepath.Join(sp.dir, e.Name()))).Decls {
						gd, ok := d.(*ast.GenDecl)
						if !ok {
							continue
						}
						for _, s := range gd.Specs {
							ts, ok := s.(*ast.TypeSpec)
							if !ok {
								continue
							}
							if st, ok := ts.Type.(*ast.StructType); ok {
								m := map[string]string{}
								for _, fl := range st.Fields.List {
									for _, n := range fl.Names {
										m[n.Name] = baseTypeName(fl.Type)
									}
								}
								ftyp[ts.Name.Name] = m
							}
						}
					}
				}
				for _, e := range ents {
					if e.IsDir() || !strings.HasSuffix(e.Name(), ".go") || strings.HasSuffix(e.Name(), "_test.go") {
						continue
					}
					rel := filepath.Join(sp.dir, e.Name())
					f := parseFile(rp(rel))
					for _, d := range f.Decls {
						switch x := d.(type) {
						case *ast.GenDecl:
							for _, s := range x.Specs {
								ts, ok := s.(*ast.TypeSpec)
								if !ok || ts.Name.Name != sp.typ {
									continue
								}
								st, ok := ts.Type.(*ast.StructType)
								if !ok {
									panic(bail{fmt.Sprintf("%s: %s is not a struct", rel, sp.typ)})
								}
								have := map[string]string{}
								for _, fl := range st.Fields.List {
									for _, n := range fl.Names {
										have[n.Name] = src(fl.Type)
									}
								}
								mt, ok := have[sp.mutex]
								if !ok || (mt != "sync.Mutex" && mt != "sync.RWMutex") {
									panic(bail{fmt.Sprintf("%s: %s.%s is not a sync.Mutex/RWMutex (%q)", rel, sp.typ, sp.mutex, mt)})
								}
								for _, g := range sp.fields {
									if _, ok := have[g]; !ok {
										panic(bail{fmt.Sprintf("%s: %s has no field %s", rel, sp.typ, g)})
									}
								}
								foundType = true
							}
						case *ast.FuncDecl:
							if x.Body == nil {
								continue
							}
							w := &lockWalker{spec: sp, rel: rel, vars: map[string]string{}, ftyp: ftyp, fn: funcQualName(x), rows: &specRows, calls: calls}
							w.held = entry[w.fn]
							for _, c := range sp.ctors {
								if c == w.fn {
									w.ctor = true
									foundCtors[c] = true
								}
							}
							if x.Recv != nil && len(x.Recv.List) == 1 {
								for _, n := range x.Recv.List[0].Names {
									w.vars[n.Name] = baseTypeName(x.Recv.List[0].Type)
								}
							}
							w.declareParams(x.Type)
							w.block(x.Body.List)
						}
					}
				}
				changed := false
				for callee, modes := range calls {
					name := callee[strings.Index(callee, ".")+1:]
					if name == "" || !(name[0] >= 'a' && name[0] <= 'z') {
						continue // exported methods can be called from anywhere: no lock on entry
					}
					m := modes[0]
					for _, x := range modes {
						if x < m {
							m = x
						}
					}
					if entry[callee] != m {
						entry[callee] = m
						changed = true
					}
				}
				if !changed {
					break
				}
			}
			rows = append(rows, specRows...)
			if !foundType {
				panic(bail{fmt.Sprintf("%s: struct %s not found", sp.dir, sp.typ)})
			}
			for _, c := range sp.ctors {
				if !foundCtors[c] {
					panic(bail{fmt.Sprintf("%s: constructor %s not found", sp.dir, c)})
				}
			}
		}
		// collapse identical rows (same struct, field, function, kind, mode), keep the first position
		seen := map[string]bool{}
		var out []string
		for _, r := range rows {
			k := fmt.Sprintf("%s|%s|%s|%v|%d", r.typ, r.field, r.fn, r.write, r.mode)
			if seen[k] {
				continue
			}
			seen[k] = true
			out = append(out, fmt.Sprintf("  ⟨%q, %q, %q, %v, %d, %v⟩ -- %s", r.typ, r.field, r.fn, r.write, r.mode, r.ctor, r.pos))
		}
		var guards []string
		for _, sp := range guardSpecs {
			guards = append(guards, fmt.Sprintf("(%q, %q, [%s])", sp.typ, sp.mutex, quoteAll(sp.fields)))
		}
		s := "/-- One access to a mutex-guarded field: struct, field, enclosing function (function literals are their own\n" +
			"    unit `f.funcN`, entered with no lock held), write?, lock mode held at the access (0 none, 1 RLock, 2 Lock),\n" +
			"    and whether the function is a constructor working on an object that is not shared yet. -/\n" +
			"structure Policy.Access where\n  struct : String\n  field : String\n  fn : String\n  write : Bool\n  mode : Nat\n  ctor : Bool\n  deriving DecidableEq, Repr\n\n" +
			"/-- generated: (struct, mutex, guarded fields) as declared in extract/k_policy.go and checked against the struct definitions -/\n" +
			"def Policy.guards : List (String × String × List String) :=\n  [" + strings.Join(guards, ",\n   ") + "]\n\n" +
			"/-- generated by a go/ast walk over every non-test file of ctpolicy/ and submission/ -/\n" +
			"def Policy.lockTable : List Policy.Access := [\n"
		for i, o := range out {
			// the trailing comment must stay after the comma
			parts := strings.SplitN(o, " -- ", 2)
			sep := ","
			if i == len(out)-1 {
				sep = ""
			}
			s += parts[0] + sep + " -- " + parts[1] + "\n"
		}
		s += "  ]\n"
		return s
	}
}

func quoteAll(xs []string) string {
	var q []string
	for _, x := range xs {
		q = append(q, fmt.Sprintf("%q", x))
	}
	return strings.Join(q, ", ")
}

// ---------------------------------------------------------------------------
// Completeness of the guard list: every struct of the two packages that carries a sync.Mutex / sync.RWMutex is
// found by itself; every field of such a struct that is written outside the construction / initialisation phase
// must be in the struct's guarded list (guardSpecs). The writes that are not are emitted; the theorem says: none.

// initPhase: functions that run before the object is shared (constructors, options applied by the constructor,
// Run methods before they start their goroutines).
var initPhase = map[string][]string{
	"LogGroupInfo":         {"LogGroupInfo.populate", "LogGroupInfo.setMinInclusions"},
	"Distributor":          {"NewDistributor", "Distributor.buildLogClients", "DisableRootCompatibilityCheckingDistributorOption.Apply"},
	"Proxy":                {"NewProxy", "Proxy.Run"},
	"safeSubmissionState":  {"newSafeSubmissionState"},
	"LogListManager":       {"NewLogListManager", "LogListManager.Run"},
	"logListRefresherImpl": {"NewCustomLogListRefresher"},
}

func unlistedSharedWrites() func() string {
	return func() string {
		var out []string
		var structs []string
		for _, dir := range []string{"ctpolicy", "submission"} {
			ents, err := os.ReadDir(rp(dir))
			if err != nil {
				panic(bail{fmt.Sprintf("read %s: %v", dir, err)})
			}
			var files []string
			for _, e := range ents {
				if !e.IsDir() && strings.HasSuffix(e.Name(), ".go") && !strings.HasSuffix(e.Name(), "_test.go") {
					files = append(files, filepath.Join(dir, e.Name()))
				}
			}
			ftyp := map[string]map[string]string{}
			type mstruct struct {
				name, mutex string
				fields      []string
			}
			var ms []mstruct
			for _, rel := range files {
				for _, d := range parseFile(rp(rel)).Decls {
					gd, ok := d.(*ast.GenDecl)
					if !ok {
						continue
					}
					for _, sp := range gd.Specs {
						ts, ok := sp.(*ast.TypeSpec)
						if !ok {
							continue
						}
						st, ok := ts.Type.(*ast.StructType)
						if !ok {
							continue
						}
						m := map[string]string{}
						mu := ""
						var fs []string
						for _, fl := range st.Fields.List {
							for _, n := range fl.Names {
								m[n.Name] = baseTypeName(fl.Type)
								if t := src(fl.Type); t == "sync.Mutex" || t == "sync.RWMutex" {
									mu = n.Name
								} else {
									fs = append(fs, n.Name)
								}
							}
						}
						ftyp[ts.Name.Name] = m
						if mu != "" {
							ms = append(ms, mstruct{ts.Name.Name, mu, fs})
						}
					}
				}
			}
			for _, m := range ms {
				structs = append(structs, fmt.Sprintf("%q", m.name))
				guarded := map[string]bool{}
				known := false
				for _, g := range guardSpecs {
					if g.typ == m.name && g.dir == dir {
						known = true
						if g.mutex != m.mutex {
							panic(bail{fmt.Sprintf("%s: guard list names mutex %s, struct has %s", m.name, g.mutex, m.mutex)})
						}
						for _, f := range g.fields {
							guarded[f] = true
						}
					}
				}
				if !known {
					panic(bail{fmt.Sprintf("%s/%s carries mutex %s but has no entry in the guard list", dir, m.name, m.mutex)})
				}
				initf := map[string]bool{}
				for _, f := range initPhase[m.name] {
					initf[f] = true
				}
				var rows []lockRow
				sp := guardSpec{dir, m.name, m.mutex, m.fields, nil}
				for _, rel := range files {
					for _, d := range parseFile(rp(rel)).Decls {
						fd, ok := d.(*ast.FuncDecl)
						if !ok || fd.Body == nil {
							continue
						}
						w := &lockWalker{spec: sp, rel: rel, vars: map[string]string{}, ftyp: ftyp, fn: funcQualName(fd), rows: &rows, lenient: true}
						if fd.Recv != nil && len(fd.Recv.List) == 1 {
							for _, n := range fd.Recv.List[0].Names {
								w.vars[n.Name] = baseTypeName(fd.Recv.List[0].Type)
							}
						}
						w.declareParams(fd.Type)
						w.block(fd.Body.List)
					}
				}
				seen := map[string]bool{}
				for _, r := range rows {
					base := r.fn
					if i := strings.Index(base, ".func"); i >= 0 {
						base = base[:i]
					}
					if !r.write || guarded[r.field] || initf[base] {
						continue
					}
					k := r.typ + "|" + r.field + "|" + r.fn
					if seen[k] {
						continue
					}
					seen[k] = true
					out = append(out, fmt.Sprintf("(%q, %q, %q) /- %s -/", r.typ, r.field, r.fn, r.pos))
				}
			}
		}
		return "/-- generated: the structs of ctpolicy/ and submission/ that carry a sync.Mutex / sync.RWMutex (found by the walk, not listed by hand);\n" +
			"    each of them must have an entry in the guard list or extraction fails -/\n" +
			"def Policy.mutexStructs : List String := [" + strings.Join(structs, ", ") + "]\n\n" +
			"/-- generated: writes to a field of such a struct that is NOT in the struct's guarded list, outside the construction /\n" +
			"    initialisation functions (struct, field, function) -/\n" +
			"def Policy.unlistedSharedWrites : List (String × String × String) :=\n  [" + strings.Join(out, ",\n   ") + "]\n"
	}
}

// rootChoiceFacts anchors the model's `chooseRoot` / pending-logs call to Distributor.addSomeChain by what the code
// does, not by its text: local names, hoisted reads (resolved through single-assignment aliases) and statement splitting do
// not matter. In the closure that calls ctfe.ValidateChain, in this order:
//  1. `if d.rootCompatibilityCheckDisabled` returns <usable list>.Compatible(_, nil, <empty roots>)
//  2. after ValidateChain: `if err == nil` returns <usable list>.Compatible(_, <non-nil root>, d.logRoots)
//  3. `if d.rootDataFull` returns an error
//  4. the fallback returns <usable list>.Compatible(_, nil, d.logRoots)            (fallbackKeepsKnownRootLogs = true)
//     or <usable list>.TemporallyCompatible(_).RootCompatible(nil, d.logRoots)     (= false)
func rootChoiceFacts(rel string) func() string {
	return func() string {
		fd := mustFunc(rel, "Distributor.addSomeChain")
		var lit *ast.FuncLit
		ast.Inspect(fd.Body, func(n ast.Node) bool {
			if fl, ok := n.(*ast.FuncLit); ok && lit == nil && strings.Contains(src(fl.Body), "ctfe.ValidateChain(") {
				lit = fl
				return false
			}
			return true
		})
		if lit == nil {
			panic(bail{rel + ": no closure calling ctfe.ValidateChain in addSomeChain"})
		}
		// single-assignment aliases of the whole function: local -> defining expression
		alias := map[string]ast.Expr{}
		count := map[string]int{}
		ast.Inspect(fd.Body, func(n ast.Node) bool {
			if a, ok := n.(*ast.AssignStmt); ok && len(a.Lhs) == len(a.Rhs) {
				for k, l := range a.Lhs {
					if id, ok := l.(*ast.Ident); ok {
						count[id.Name]++
						alias[id.Name] = a.Rhs[k]
					}
				}
			} else if ok {
				for _, l := range a.Lhs {
					if id, ok := l.(*ast.Ident); ok {
						count[id.Name] += 2 // multi-value: not an alias
					}
				}
			}
			return true
		})
		var resolve func(e ast.Expr, depth int) string
		resolve = func(e ast.Expr, depth int) string {
			if id, ok := e.(*ast.Ident); ok && depth < 4 && count[id.Name] == 1 {
				if d, ok := alias[id.Name]; ok {
					return resolve(d, depth+1)
				}
			}
			if p, ok := e.(*ast.ParenExpr); ok {
				return resolve(p.X, depth)
			}
			return src(e)
		}
		// the list-filter call at the head of a return: (method, receiver resolved, args resolved)
		type fcall struct {
			method, recv string
			args         []string
			recvCall     *ast.CallExpr
		}
		headCall := func(r *ast.ReturnStmt) *fcall {
			if len(r.Results) == 0 {
				return nil
			}
			e := r.Results[0]
			if id, ok := e.(*ast.Ident); ok && count[id.Name] == 1 {
				e = alias[id.Name]
			}
			c, ok := e.(*ast.CallExpr)
			if !ok {
				return nil
			}
			sel, ok := c.Fun.(*ast.SelectorExpr)
			if !ok {
				return nil
			}
			fc := &fcall{method: sel.Sel.Name, recv: resolve(sel.X, 0)}
			rx := sel.X
			if id, ok := rx.(*ast.Ident); ok && count[id.Name] == 1 {
				rx = alias[id.Name]
			}
			fc.recvCall, _ = rx.(*ast.CallExpr)
			for _, a := range c.Args {
				fc.args = append(fc.args, resolve(a, 0))
			}
			return fc
		}
		lastReturn := func(b []ast.Stmt) *ast.ReturnStmt {
			if len(b) == 0 {
				return nil
			}
			r, _ := b[len(b)-1].(*ast.ReturnStmt)
			return r
		}
		stage, keep := 0, ""
		fail := func(what string) {
			panic(bail{fmt.Sprintf("%s: addSomeChain's chain/root selection: %s", rel, what)})
		}
		sawValidate := false
		for _, st := range lit.Body.List {
			if strings.Contains(src(st), "ctfe.ValidateChain(") {
				if _, isIf := st.(*ast.IfStmt); !isIf {
					sawValidate = true
				}
			}
			switch x := st.(type) {
			case *ast.IfStmt:
				cond := resolve(x.Cond, 0)
				if x.Init != nil && strings.Contains(src(x.Init), "ctfe.ValidateChain(") {
					sawValidate = true
				}
				r := lastReturn(x.Body.List)
				switch {
				case cond == "d.rootCompatibilityCheckDisabled":
					fc := (*fcall)(nil)
					if r != nil {
						fc = headCall(r)
					}
					if stage != 0 || sawValidate || fc == nil || fc.method != "Compatible" || fc.recv != "d.usableLl" || len(fc.args) != 3 || fc.args[1] != "nil" || fc.args[2] != "loglist3.LogRoots{}" {
						fail("the check-disabled branch does not return d.usableLl.Compatible(_, nil, loglist3.LogRoots{})")
					}
					stage = 1
				case cond == "err == nil" && sawValidate:
					fc := (*fcall)(nil)
					if r != nil {
						fc = headCall(r)
					}
					if stage != 1 || fc == nil || fc.method != "Compatible" || fc.recv != "d.usableLl" || len(fc.args) != 3 || fc.args[1] == "nil" || fc.args[2] != "d.logRoots" {
						fail("the chain-verifies branch does not return d.usableLl.Compatible(_, root, d.logRoots)")
					}
					stage = 2
				case cond == "d.rootDataFull":
					if stage != 2 || r == nil || len(r.Results) == 0 || src(r.Results[len(r.Results)-1]) == "nil" {
						fail("the root-data-complete branch does not return an error after the verification failed")
					}
					stage = 3
				}
			case *ast.ReturnStmt:
				fc := headCall(x)
				if stage != 3 || fc == nil {
					fail("unexpected return " + src(x))
				}
				switch {
				case fc.method == "Compatible" && fc.recv == "d.usableLl" && len(fc.args) == 3 && fc.args[1] == "nil" && fc.args[2] == "d.logRoots":
					keep = "true"
				case fc.method == "RootCompatible" && len(fc.args) == 2 && fc.args[0] == "nil" && fc.args[1] == "d.logRoots" && fc.recvCall != nil &&
					strings.HasPrefix(src(fc.recvCall.Fun), "d.usableLl.TemporallyCompatible"):
					keep = "false"
				default:
					fail("the fallback return is neither Compatible(_, nil, d.logRoots) nor TemporallyCompatible(_).RootCompatible(nil, d.logRoots): " + src(x))
				}
				stage = 4
			}
		}
		if stage != 4 {
			fail(fmt.Sprintf("only %d of the 4 branches found", stage))
		}
		// the pending-logs call: under `if loadPendingLogs`, LogsByGroup(_, d.pendingQualifiedLl) of the pending policy feeds GetSCTs(ctx, d, chain, asPreChain, ·)
		pend := findStmts(fd, func(st ast.Stmt) bool {
			i, ok := st.(*ast.IfStmt)
			return ok && src(i.Cond) == "loadPendingLogs"
		})
		if len(pend) != 1 {
			fail("no single `if loadPendingLogs` block")
		}
		okGroups, okCall := "", false
		ast.Inspect(pend[0], func(n ast.Node) bool {
			switch x := n.(type) {
			case *ast.AssignStmt:
				if len(x.Rhs) == 1 {
					if c, ok := x.Rhs[0].(*ast.CallExpr); ok && src(c.Fun) == "d.pendingLogsPolicy.LogsByGroup" && len(c.Args) == 2 && resolve(c.Args[1], 0) == "d.pendingQualifiedLl" {
						okGroups = src(x.Lhs[0])
					}
				}
			case *ast.CallExpr:
				if src(x.Fun) == "GetSCTs" && len(x.Args) == 5 && src(x.Args[1]) == "d" && okGroups != "" && src(x.Args[4]) == okGroups {
					okCall = true
				}
			}
			return true
		})
		if !okCall {
			fail("the loadPendingLogs block does not run GetSCTs(ctx, d, …, groups) on d.pendingLogsPolicy.LogsByGroup(_, d.pendingQualifiedLl)")
		}
		// NewDistributor: which statuses feed d.usableLl / d.pendingQualifiedLl
		nd := mustFunc(rel, "NewDistributor")
		nalias := map[string]ast.Expr{}
		ast.Inspect(nd.Body, func(n ast.Node) bool {
			if a, ok := n.(*ast.AssignStmt); ok && len(a.Lhs) == 1 && len(a.Rhs) == 1 {
				if id, ok := a.Lhs[0].(*ast.Ident); ok {
					nalias[id.Name] = a.Rhs[0]
				}
			}
			return true
		})
		statuses := map[string]string{}
		ast.Inspect(nd.Body, func(n ast.Node) bool {
			a, ok := n.(*ast.AssignStmt)
			if !ok || len(a.Lhs) != 1 || len(a.Rhs) != 1 {
				return true
			}
			field := src(a.Lhs[0])
			if field != "d.usableLl" && field != "d.pendingQualifiedLl" {
				return true
			}
			e := a.Rhs[0]
			if u, ok := e.(*ast.UnaryExpr); ok && u.Op == token.AND {
				e = u.X
			}
			if id, ok := e.(*ast.Ident); ok {
				e = nalias[id.Name]
			}
			c, ok := e.(*ast.CallExpr)
			if !ok || !strings.HasSuffix(src(c.Fun), ".SelectByStatus") || len(c.Args) != 1 {
				return true
			}
			arg := c.Args[0]
			if id, ok := arg.(*ast.Ident); ok {
				arg = nalias[id.Name]
			}
			cl, ok := arg.(*ast.CompositeLit)
			if !ok {
				return true
			}
			var els []string
			for _, el := range cl.Elts {
				els = append(els, src(el))
			}
			sort.Strings(els)
			statuses[field] = strings.Join(els, ",")
			return true
		})
		if statuses["d.usableLl"] != "loglist3.UsableLogStatus" || statuses["d.pendingQualifiedLl"] != "loglist3.PendingLogStatus,loglist3.QualifiedLogStatus" {
			fail(fmt.Sprintf("NewDistributor selects %v", statuses))
		}
		return fmt.Sprintf("/-- generated from %s func Distributor.addSomeChain (the closure that calls ctfe.ValidateChain, checked branch by branch):\n"+
			"    check disabled ⇒ Compatible(cert, nil, {}); chain verifies against the merged pool ⇒ Compatible(cert, root, logRoots);\n"+
			"    otherwise rootDataFull ⇒ error; otherwise the fallback, which either keeps the logs with known roots\n"+
			"    (`Compatible(cert, nil, logRoots)`) or drops them (`TemporallyCompatible(cert).RootCompatible(nil, logRoots)`).\n"+
			"    Also checked: the loadPendingLogs block runs GetSCTs on pendingLogsPolicy.LogsByGroup(cert, pendingQualifiedLl) unfiltered;\n"+
			"    usableLl = status Usable, pendingQualifiedLl = status Pending or Qualified. -/\n"+
			"def Policy.fallbackKeepsKnownRootLogs : Bool := %s\n", rel, keep)
	}
}
