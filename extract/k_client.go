package main

// Regenerated facts for C12 (log client): which checks addChainWithRetry applies to the `id` of the
// response before it builds the SCT, whether GetEntries wraps an entry-decoding failure in RspError,
// the order "parse → verify → return" in GetSTH and addChainWithRetry, and the retry status set of
// PostAndParseWithRetry.

import (
	"fmt"
	"go/ast"
	"strings"
)

// stmtIndex returns the index of the first top-level statement whose source contains marker (-1 if none).
func stmtIndex(fd *ast.FuncDecl, marker string) int {
	for i, s := range fd.Body.List {
		if strings.Contains(src(s), marker) {
			return i
		}
	}
	return -1
}

func clientFacts() string {
	rel := "client/logclient.go"
	var sb strings.Builder

	// --- addChainWithRetry
	fd := mustFunc(rel, "LogClient.addChainWithRetry")
	post := stmtIndex(fd, "c.PostAndParseWithRetry(ctx, path, &req, &resp)")
	ds := stmtIndex(fd, "tls.Unmarshal(resp.Signature, &ds)")
	ext := stmtIndex(fd, "base64.StdEncoding.DecodeString(resp.Extensions)")
	cp := stmtIndex(fd, "copy(logID.KeyID[:], resp.ID)")
	ver := stmtIndex(fd, "c.VerifySCTSignature(*sct, ctype, chain)")
	ret := stmtIndex(fd, "return sct, nil")
	if post < 0 || ds < 0 || ext < 0 || cp < 0 || ver < 0 || ret < 0 || !(post < ds && ds < ver && ext < ver && cp < ver && ver < ret) || ret != len(fd.Body.List)-1 {
		panic(bail{rel + ": addChainWithRetry no longer has the shape post → parse signature/extensions/id → VerifySCTSignature → return sct"})
	}
	if is, ok := fd.Body.List[ver].(*ast.IfStmt); !ok || is.Init == nil || src(is.Cond) != "err != nil" || !returnsNonNilError(is.Body) {
		panic(bail{rel + ": addChainWithRetry does not return the error of VerifySCTSignature"})
	}
	// the SCT handed back is built from the response fields and the parsed signature
	lit := ""
	for _, s := range fd.Body.List {
		if strings.HasPrefix(src(s), "sct := &ct.SignedCertificateTimestamp{") {
			lit = src(s)
		}
	}
	for _, need := range []string{"SCTVersion: resp.SCTVersion", "LogID: logID", "Timestamp: resp.Timestamp", "Extensions: ct.CTExtensions(exts)", "Signature: ds"} {
		if !strings.Contains(lit, need) {
			panic(bail{rel + ": the SCT literal of addChainWithRetry no longer contains `" + need + "`"})
		}
	}
	// id handling: (0) copied unchecked (the code as found), (1) the earlier candidate `if err := c.checkLogID(resp.ID); err != nil { return … }`,
	// or (2) the fix c15d346: with a verifier, a PRESENT id must equal logIDForKey(c.Verifier.PubKey) and the SCT carries that key hash
	idLen, idKey := false, false
	policy := 0
	if i := stmtIndex(fd, "c.checkLogID(resp.ID)"); i >= 0 {
		is, ok := fd.Body.List[i].(*ast.IfStmt)
		if !ok || is.Init == nil || src(is.Init) != "err := c.checkLogID(resp.ID)" || src(is.Cond) != "err != nil" || !returnsNonNilError(is.Body) || i > ret {
			panic(bail{rel + ": unrecognised use of checkLogID in addChainWithRetry"})
		}
		cb := src(mustFunc(rel, "LogClient.checkLogID").Body)
		idLen = strings.Contains(cb, "len(id) != sha256.Size")
		idKey = strings.Contains(cb, "x509.MarshalPKIXPublicKey(c.Verifier.PubKey)") && strings.Contains(cb, "sha256.Sum256(der)") && strings.Contains(cb, "!bytes.Equal(want[:], id)")
		if !idLen || !idKey {
			panic(bail{rel + ": checkLogID no longer has the recognised body"})
		}
		policy = 1
	} else if i := stmtIndex(fd, "logIDForKey(c.Verifier.PubKey)"); i >= 0 {
		is, ok := fd.Body.List[i].(*ast.IfStmt)
		if !ok || is.Init != nil || src(is.Cond) != "c.Verifier != nil" || is.Else != nil || !(cp < i && i < ver) || len(is.Body.List) != 4 {
			panic(bail{rel + ": unrecognised use of logIDForKey in addChainWithRetry"})
		}
		b := is.Body.List
		e1, ok1 := b[1].(*ast.IfStmt)
		e2, ok2 := b[2].(*ast.IfStmt)
		if src(b[0]) != "keyID, err := logIDForKey(c.Verifier.PubKey)" || !ok1 || src(e1.Cond) != "err != nil" || !returnsNonNilError(e1.Body) ||
			!ok2 || src(e2.Cond) != "len(resp.ID) != 0 && !bytes.Equal(resp.ID, keyID[:])" || !returnsNonNilError(e2.Body) || !strings.Contains(src(e2.Body), "RspError{") ||
			src(b[3]) != "logID.KeyID = keyID" {
			panic(bail{rel + ": the key-hash block of addChainWithRetry no longer has the recognised statements"})
		}
		lb := src(mustFunc(rel, "logIDForKey").Body)
		if !strings.Contains(lb, "der, err := x509.MarshalPKIXPublicKey(pubKey)") || !strings.Contains(lb, "return sha256.Sum256(der), nil") {
			panic(bail{rel + ": logIDForKey is no longer SHA-256 of MarshalPKIXPublicKey"})
		}
		policy = 2
	} else if strings.Contains(src(fd.Body), "sha256.Size") || strings.Contains(src(fd.Body), "Sum256") || strings.Contains(src(fd.Body), "KeyID =") {
		panic(bail{rel + ": addChainWithRetry handles the log ID in a way the extractor does not recognise"})
	}
	fmt.Fprintf(&sb, "/-- generated from %s func addChainWithRetry: is the length of the response's `id` compared with sha256.Size before it is copied into the SCT? -/\ndef addChainChecksIDLength : Bool := %v\n", rel, idLen)
	fmt.Fprintf(&sb, "/-- generated from %s func addChainWithRetry: is `id` compared with the SHA-256 hash of the configured public key (checkLogID)? -/\ndef addChainChecksIDAgainstKey : Bool := %v\n", rel, idKey)
	fmt.Fprintf(&sb, "/-- generated from %s func addChainWithRetry: how the response's `id` becomes the SCT's log ID.\n0: copied unchecked.  1: `checkLogID` (32 octets and, with a key, equal to its hash).  2: `if c.Verifier != nil { keyID := logIDForKey(key); a present id (len ≠ 0) that differs from keyID is an RspError; logID.KeyID = keyID }` — without a verifier the id is copied -/\ndef addChainIDPolicy : Nat := %d\n\n", rel, policy)
	// --- GetSTH
	fd = mustFunc(rel, "LogClient.GetSTH")
	g := stmtIndex(fd, "c.GetAndParse(ctx, ct.GetSTHPath, nil, &resp)")
	ts := stmtIndex(fd, "resp.ToSignedTreeHead()")
	vs := stmtIndex(fd, "c.VerifySTHSignature(*sth)")
	rs := stmtIndex(fd, "return sth, nil")
	if g < 0 || ts < 0 || vs < 0 || rs < 0 || !(g < ts && ts < vs && vs < rs) || rs != len(fd.Body.List)-1 {
		panic(bail{rel + ": GetSTH no longer has the shape get → ToSignedTreeHead → VerifySTHSignature → return sth"})
	}
	if is, ok := fd.Body.List[vs].(*ast.IfStmt); !ok || is.Init == nil || src(is.Cond) != "err != nil" || !returnsNonNilError(is.Body) || !strings.Contains(src(is.Body), "RspError{") {
		panic(bail{rel + ": GetSTH does not return the error of VerifySTHSignature as RspError"})
	}
	// VerifySTHSignature / VerifySCTSignature skip verification only when no verifier is configured
	for _, fn := range []string{"LogClient.VerifySTHSignature", "LogClient.VerifySCTSignature"} {
		f := mustFunc(rel, fn)
		is, ok := f.Body.List[0].(*ast.IfStmt)
		if !ok || src(is.Cond) != "c.Verifier == nil" || src(is.Body.List[len(is.Body.List)-1]) != "return nil" {
			panic(bail{rel + ": " + fn + " no longer starts with `if c.Verifier == nil { return nil }`"})
		}
		for _, s := range f.Body.List[1:] {
			if r, ok := s.(*ast.ReturnStmt); ok && src(r) == "return nil" {
				panic(bail{rel + ": " + fn + " has a second `return nil`"})
			}
		}
	}
	sb.WriteString("/-- generated from " + rel + ": GetSTH and addChainWithRetry return their result only after VerifySTHSignature / VerifySCTSignature\nreturned nil, and those skip verification only when no verifier is configured -/\ndef clientVerifiesBeforeReturn : Bool := true\n\n")

	// --- GetEntries
	rel2 := "client/getentries.go"
	fd = mustFunc(rel2, "LogClient.GetEntries")
	ifs := findStmts(fd, func(s ast.Stmt) bool {
		is, ok := s.(*ast.IfStmt)
		return ok && src(is.Cond) == "x509.IsFatal(err)"
	})
	if len(ifs) != 1 {
		panic(bail{rel2 + ": GetEntries no longer has exactly one `if x509.IsFatal(err)`"})
	}
	body := ifs[0].(*ast.IfStmt).Body
	if !returnsNonNilError(body) {
		panic(bail{rel2 + ": GetEntries does not return an error for an undecodable entry"})
	}
	wraps := strings.Contains(src(body), "RspError{") && strings.Contains(src(body), "StatusCode:") && strings.Contains(src(body), "Body:")
	if !wraps && src(body.List[len(body.List)-1]) != "return nil, err" {
		panic(bail{rel2 + ": unrecognised error return in GetEntries: " + src(body)})
	}
	fmt.Fprintf(&sb, "/-- generated from %s func GetEntries: is the failure to decode an entry of a 200 response returned as RspError (status, body)? -/\ndef getEntriesWrapsDecodeError : Bool := %v\n\n", rel2, wraps)

	// --- the leaf builder addChainWithRetry verifies against (serialization.go)
	rel4 := "serialization.go"
	raw := mustFunc(rel4, "MerkleTreeLeafFromRawChain")
	rb := src(raw.Body)
	for _, need := range []string{"count := 3", "if count > len(rawChain) { count = len(rawChain) }", "cert, err := x509.ParseCertificate(rawChain[i].Data)",
		"if x509.IsFatal(err) { return nil,", "return MerkleTreeLeafFromChain(chain, etype, timestamp)"} {
		if !strings.Contains(rb, need) {
			panic(bail{rel4 + ": MerkleTreeLeafFromRawChain no longer contains `" + need + "`"})
		}
	}
	lf := mustFunc(rel4, "MerkleTreeLeafFromChain")
	lb := src(lf.Body)
	for _, need := range []string{"leaf.TimestampedEntry.X509Entry = &ASN1Cert{Data: chain[0].Raw}", "if etype != PrecertLogEntryType { return nil,",
		"if len(chain) < 2 { return nil,", "issuer := chain[1]", "cert := chain[0]", "if IsPreIssuer(issuer) {", "if len(chain) < 3 { return nil,", "issuer = chain[2]",
		"x509.BuildPrecertTBS(cert.RawTBSCertificate, preIssuer)", "IssuerKeyHash: sha256.Sum256(issuer.RawSubjectPublicKeyInfo)", "TBSCertificate: defangedTBS"} {
		if !strings.Contains(lb, need) {
			panic(bail{rel4 + ": MerkleTreeLeafFromChain no longer contains `" + need + "`"})
		}
	}
	guards := false
	for _, st := range lf.Body.List {
		t := src(st)
		if strings.Contains(t, "chain[0]") {
			break
		}
		if is, ok := st.(*ast.IfStmt); ok && src(is.Cond) == "len(chain) == 0" && returnsNonNilError(is.Body) {
			guards = true
		}
	}
	fmt.Fprintf(&sb, "\n/-- generated from %s func MerkleTreeLeafFromChain: is an empty chain refused before `chain[0]` is touched? -/\ndef leafFromChainGuardsEmpty : Bool := %v\n", rel4, guards)
	sb.WriteString("/-- generated from " + rel4 + ": MerkleTreeLeafFromRawChain parses at most three certificates (fatal error = error) and\nMerkleTreeLeafFromChain takes chain[0].Raw for an X.509 entry; for a precertificate entry the issuer is chain[1], or chain[2] when\nchain[1] is a pre-issuer, and the entry is (SHA-256 of the issuer's RawSubjectPublicKeyInfo, BuildPrecertTBS(chain[0].RawTBSCertificate, preIssuer)) -/\ndef leafFromChainShape : Bool := true\n")

	// --- retry statuses of PostAndParseWithRetry
	rel3 := "jsonclient/client.go"
	fd = mustFunc(rel3, "JSONClient.PostAndParseWithRetry")
	sw := findSwitch(fd, "httpRsp.StatusCode")
	var retry []string
	okFinal, defErr := false, false
	for _, c := range sw.Body.List {
		cc := c.(*ast.CaseClause)
		if cc.List == nil {
			defErr = returnsNonNilError(&ast.BlockStmt{List: cc.Body}) && strings.Contains(src(cc), "RspError{")
			continue
		}
		for _, k := range cc.List {
			v, ok := httpStatus[src(k)]
			if !ok {
				panic(bail{rel3 + ": unknown status constant " + src(k)})
			}
			if v == 200 {
				okFinal = len(cc.Body) == 1 && src(cc.Body[0]) == "return httpRsp, body, nil"
				continue
			}
			for _, s := range cc.Body {
				if _, isRet := s.(*ast.ReturnStmt); isRet {
					panic(bail{rel3 + ": a non-200 case of PostAndParseWithRetry returns"})
				}
			}
			retry = append(retry, fmt.Sprint(v))
		}
	}
	if !okFinal || !defErr {
		panic(bail{rel3 + ": PostAndParseWithRetry: 200 no longer returns the response or the default no longer returns RspError"})
	}
	fmt.Fprintf(&sb, "/-- generated from %s func PostAndParseWithRetry: statuses after which the request is sent again (every other non-200 status is a final RspError) -/\ndef postRetryStatuses : List Nat := [%s]\n", rel3, strings.Join(retry, ", "))
	return sb.String()
}

func init() {
	register(genFile{name: "Client", imports: nil, units: []unit{{"clientFacts", clientFacts}}})
}
