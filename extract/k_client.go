package main

// Regenerated facts for C12 (log client): which checks addChainWithRetry applies to the `id` of the
// response before it builds the SCT, whether GetEntries wraps an entry-decoding failure in RspError,
// the order "parse → verify → return" in GetSTH and addChainWithRetry, and the retry status set of
// PostAndParseWithRetry.

import (
	"fmt"
	"go/ast"
	"regexp"
	"strings"
)

// stmtIndex returns the index of the first top-level statement whose source contains marker (-1 if none).
func stmtIndex(fd *ast.FuncDecl, marker string) int {
	for i, s := range fd.Body.List {
		if strings.Contains(src(s), marker) {
			return i
		}
	}
	return -1
}

func clientFacts() string {
	rel := "client/logclient.go"
	var sb strings.Builder
	has := func(text, re string) bool { return regexp.MustCompile(re).MatchString(text) }

	// --- addChainWithRetry, seen through renames, hoisted reads and same-file helpers (flatSrc splices helper bodies in)
	fa := flatSrc(rel, "addChainWithRetry", 2)
	w := rel + ": addChainWithRetry"
	post := idxOf(fa, "PostAndParseWithRetry(", w)
	um := mustMatch(`tls\.Unmarshal\((\w+)\.Signature,&(\w+)\)`, fa, w+": the response's signature is no longer parsed with tls.Unmarshal")
	respV, dsV := um[1], um[2]
	ds := strings.Index(fa, um[0])
	ex := mustMatch(`(\w+),err:=base64\.StdEncoding\.DecodeString\(`+respV+`\.Extensions\)`, fa, w+": extensions are no longer base64-decoded")
	ver := idxOf(fa, "VerifySCTSignature(", w)
	lit := mustMatch(`(\w+):=&ct\.SignedCertificateTimestamp\{([^}]*)\}`, fa, w+": no SCT literal")
	sctV := lit[1]
	litAt := strings.Index(fa, lit[0])
	if !strings.HasSuffix(fa, "return"+sctV+",nil;") {
		panic(bail{w + " does not end in returning the SCT it built"})
	}
	ret := len(fa) - len("return"+sctV+",nil;")
	if !(post < ds && ds < ver && strings.Index(fa, ex[0]) < ver && litAt < ver && ver < ret) {
		panic(bail{w + " no longer has the order post → parse signature / extensions → build SCT → VerifySCTSignature → return"})
	}
	if !has(fa[ver-40:], `VerifySCTSignature\(\*`+sctV+`,\w+,\w+\);err!=nil\{returnnil,RspError\{`) {
		panic(bail{w + " does not return the error of VerifySCTSignature as RspError"})
	}
	for _, need := range []string{`SCTVersion:` + respV + `\.SCTVersion`, `LogID:\w+`, `Timestamp:` + respV + `\.Timestamp`, `Extensions:ct\.CTExtensions\(` + ex[1] + `\)`, `Signature:` + dsV + `\b`} {
		if !has(lit[2]+",", need) {
			panic(bail{w + ": the SCT literal no longer contains " + need})
		}
	}
	// exactly one DigitallySigned: error of tls.Unmarshal returned, and a non-empty rest refused
	if !has(fa, `(\w+),err:=tls\.Unmarshal\(`+respV+`\.Signature,&`+dsV+`\);(if)?err!=nil\{returnnil,RspError\{`) {
		panic(bail{w + " does not return the error of tls.Unmarshal as RspError"})
	}
	rm := mustMatch(`(?:^|[;{}])(?:if)?(\w+),err:=tls\.Unmarshal\(`, fa, w)
	if !has(fa, `iflen\(`+rm[1]+`\)>0\{returnnil,RspError\{`) {
		panic(bail{w + " no longer refuses octets after the DigitallySigned"})
	}
	// id handling
	idLen, idKey := false, false
	policy := 0
	switch {
	case strings.Contains(fa, "checkLogID("):
		cb := src(mustFunc(rel, "LogClient.checkLogID").Body)
		idLen = strings.Contains(cb, "len(id) != sha256.Size")
		idKey = strings.Contains(cb, "x509.MarshalPKIXPublicKey(c.Verifier.PubKey)") && strings.Contains(cb, "sha256.Sum256(der)") && strings.Contains(cb, "!bytes.Equal(want[:], id)")
		if !idLen || !idKey || !has(fa, `iferr:=\w+\.checkLogID\(`+respV+`\.ID\);err!=nil\{returnnil,`) {
			panic(bail{rel + ": unrecognised use of checkLogID"})
		}
		policy = 1
	case strings.Contains(fa, "logIDForKey("):
		// with a verifier: keyID := logIDForKey(key); a PRESENT id that differs is an error; the LogID is keyID.  Without: copied.
		km := mustMatch(`(\w+),err:=logIDForKey\(\w+\.Verifier\.PubKey\)`, fa, w+": logIDForKey is not applied to the verifier's key")
		cm := mustMatch(`iflen\(([\w.]+)\)!=0&&!bytes\.Equal\(([\w.]+),`+km[1]+`\[:\]\)\{return`, fa, w+": a present id is no longer compared with the key hash")
		if cm[1] != cm[2] {
			panic(bail{w + ": the id compared is not the id whose presence is tested"})
		}
		idExpr := cm[1]
		if idExpr != respV+".ID" && !has(fa, `\(`+respV+`\.ID\)`) {
			panic(bail{w + ": the id checked is not the response's id"})
		}
		cpm := mustMatch(`copy\((\w+)\.KeyID\[:\],`+regexp.QuoteMeta(idExpr)+`\)`, fa, w+": the id is no longer copied into the LogID")
		if !has(fa, cpm[1]+`\.KeyID=`+km[1]+`[;}]`) {
			panic(bail{w + ": the LogID is no longer set to the key hash"})
		}
		guardA := has(fa, `if\w+\.Verifier!=nil\{`+regexp.QuoteMeta(km[0]))
		guardB := has(fa, `if\w+\.Verifier==nil\{return`+cpm[1]+`,nil\};(?:«\w+».*?«/\w+»)?`+regexp.QuoteMeta(km[0]))
		if !guardA && !guardB {
			panic(bail{w + ": the key-hash check is not guarded by the presence of a verifier in a recognised way"})
		}
		if !has(fa[strings.Index(fa, km[0]):], `^`+regexp.QuoteMeta(km[0])+`;?iferr!=nil\{return`) {
			panic(bail{w + ": the error of logIDForKey is not returned"})
		}
		lb := src(mustFunc(rel, "logIDForKey").Body)
		if !strings.Contains(lb, "x509.MarshalPKIXPublicKey(") || !strings.Contains(lb, "sha256.Sum256(") {
			panic(bail{rel + ": logIDForKey is no longer SHA-256 of MarshalPKIXPublicKey"})
		}
		policy = 2
	case strings.Contains(fa, "sha256.Size") || strings.Contains(fa, "Sum256") || strings.Contains(fa, "KeyID="):
		panic(bail{w + " handles the log ID in a way the extractor does not recognise"})
	default:
		if !has(fa, `copy\(\w+\.KeyID\[:\],`+respV+`\.ID\)`) {
			panic(bail{w + ": the id is no longer copied into the LogID"})
		}
	}
	fmt.Fprintf(&sb, "/-- generated from %s func addChainWithRetry: is the length of the response's `id` compared with sha256.Size before it is copied into the SCT? -/\ndef addChainChecksIDLength : Bool := %v\n", rel, idLen)
	fmt.Fprintf(&sb, "/-- generated from %s func addChainWithRetry: is `id` compared with the SHA-256 hash of the configured public key (checkLogID)? -/\ndef addChainChecksIDAgainstKey : Bool := %v\n", rel, idKey)
	fmt.Fprintf(&sb, "/-- generated from %s func addChainWithRetry: how the response's `id` becomes the SCT's log ID.\n0: copied unchecked.  1: `checkLogID` (32 octets and, with a key, equal to its hash).  2: `if c.Verifier != nil { keyID := logIDForKey(key); a present id (len ≠ 0) that differs from keyID is an RspError; logID.KeyID = keyID }` — without a verifier the id is copied -/\ndef addChainIDPolicy : Nat := %d\n\n", rel, policy)

	// --- GetSTH
	fg := flatSrc(rel, "GetSTH", 1)
	w = rel + ": GetSTH"
	g := idxOf(fg, "GetAndParse(", w)
	tm := mustMatch(`(\w+),err:=(\w+)\.ToSignedTreeHead\(\)`, fg, w+": ToSignedTreeHead is no longer called")
	ts := strings.Index(fg, tm[0])
	vs := idxOf(fg, "VerifySTHSignature(*"+tm[1]+")", w)
	if !strings.HasSuffix(fg, "return"+tm[1]+",nil;") || !(g < ts && ts < vs) {
		panic(bail{w + " no longer has the shape get → ToSignedTreeHead → VerifySTHSignature → return sth"})
	}
	if !has(fg[vs:], `^VerifySTHSignature\(\*`+tm[1]+`\);err!=nil\{returnnil,RspError\{`) || !has(fg[ts:], `^`+regexp.QuoteMeta(tm[0])+`;iferr!=nil\{returnnil,RspError\{`) {
		panic(bail{w + " does not return the errors of ToSignedTreeHead / VerifySTHSignature as RspError"})
	}
	// VerifySTHSignature / VerifySCTSignature skip verification exactly when no verifier is configured (either orientation of the guard)
	for _, fn := range []string{"VerifySTHSignature", "VerifySCTSignature"} {
		ft := flatSrc(rel, fn, 0)
		n := len(regexp.MustCompile(`returnnil[;}]`).FindAllString(ft, -1))
		shapeA := has(ft, `^if\w+\.Verifier==nil\{returnnil\};`)
		shapeB := has(ft, `^if\w+\.Verifier!=nil\{`) && strings.HasSuffix(ft, "};returnnil;")
		if n != 1 || !(shapeA || shapeB) || !strings.Contains(ft, ".Verifier."+fn+"(") {
			panic(bail{rel + ": " + fn + " no longer skips verification exactly when c.Verifier is nil"})
		}
	}
	sb.WriteString("/-- generated from " + rel + ": GetSTH and addChainWithRetry return their result only after VerifySTHSignature / VerifySCTSignature\nreturned nil, and those skip verification only when no verifier is configured -/\ndef clientVerifiesBeforeReturn : Bool := true\n\n")

	// --- GetEntries
	rel2 := "client/getentries.go"
	fd := canonFunc(rel2, "LogClient.GetEntries", flatKeep...)
	ifs := findStmts(fd, func(s ast.Stmt) bool {
		is, ok := s.(*ast.IfStmt)
		return ok && has(src(is.Cond), `^x509\.IsFatal\(\w+\)$`)
	})
	if len(ifs) != 1 {
		panic(bail{rel2 + ": GetEntries no longer has exactly one `if x509.IsFatal(err)`"})
	}
	body := ifs[0].(*ast.IfStmt).Body
	if !returnsNonNilError(body) {
		panic(bail{rel2 + ": GetEntries does not return an error for an undecodable entry"})
	}
	wraps := strings.Contains(src(body), "RspError{") && strings.Contains(src(body), "StatusCode:") && strings.Contains(src(body), "Body:")
	if !wraps && !has(src(body.List[len(body.List)-1]), `^return nil, \w+$`) {
		panic(bail{rel2 + ": unrecognised error return in GetEntries: " + src(body)})
	}
	fmt.Fprintf(&sb, "/-- generated from %s func GetEntries: is the failure to decode an entry of a 200 response returned as RspError (status, body)? -/\ndef getEntriesWrapsDecodeError : Bool := %v\n\n", rel2, wraps)

	// --- the leaf builder addChainWithRetry verifies against (serialization.go)
	rel4 := "serialization.go"
	raw := mustFunc(rel4, "MerkleTreeLeafFromRawChain")
	rb := src(raw.Body)
	for _, need := range []string{"count := 3", "if count > len(rawChain) { count = len(rawChain) }", "cert, err := x509.ParseCertificate(rawChain[i].Data)",
		"if x509.IsFatal(err) { return nil,", "return MerkleTreeLeafFromChain(chain, etype, timestamp)"} {
		if !strings.Contains(rb, need) {
			panic(bail{rel4 + ": MerkleTreeLeafFromRawChain no longer contains `" + need + "`"})
		}
	}
	lf := mustFunc(rel4, "MerkleTreeLeafFromChain")
	lb := src(lf.Body)
	for _, need := range []string{"leaf.TimestampedEntry.X509Entry = &ASN1Cert{Data: chain[0].Raw}", "if etype != PrecertLogEntryType { return nil,",
		"if len(chain) < 2 { return nil,", "issuer := chain[1]", "cert := chain[0]", "if IsPreIssuer(issuer) {", "if len(chain) < 3 { return nil,", "issuer = chain[2]",
		"x509.BuildPrecertTBS(cert.RawTBSCertificate, preIssuer)", "IssuerKeyHash: sha256.Sum256(issuer.RawSubjectPublicKeyInfo)", "TBSCertificate: defangedTBS"} {
		if !strings.Contains(lb, need) {
			panic(bail{rel4 + ": MerkleTreeLeafFromChain no longer contains `" + need + "`"})
		}
	}
	guards := false
	for _, st := range lf.Body.List {
		t := src(st)
		if strings.Contains(t, "chain[0]") {
			break
		}
		if is, ok := st.(*ast.IfStmt); ok && src(is.Cond) == "len(chain) == 0" && returnsNonNilError(is.Body) {
			guards = true
		}
	}
	fmt.Fprintf(&sb, "\n/-- generated from %s func MerkleTreeLeafFromChain: is an empty chain refused before `chain[0]` is touched? -/\ndef leafFromChainGuardsEmpty : Bool := %v\n", rel4, guards)
	sb.WriteString("/-- generated from " + rel4 + ": MerkleTreeLeafFromRawChain parses at most three certificates (fatal error = error) and\nMerkleTreeLeafFromChain takes chain[0].Raw for an X.509 entry; for a precertificate entry the issuer is chain[1], or chain[2] when\nchain[1] is a pre-issuer, and the entry is (SHA-256 of the issuer's RawSubjectPublicKeyInfo, BuildPrecertTBS(chain[0].RawTBSCertificate, preIssuer)) -/\ndef leafFromChainShape : Bool := true\n")

	// --- which statuses PostAndParseWithRetry sends again: the switch over the response's StatusCode, wherever it sits
	// (the function itself or a same-file helper it calls), cases merged or chained with fallthrough
	rel3 := "jsonclient/client.go"
	var statusSwitch *ast.SwitchStmt
	switchFn := ""
	var visit func(name string, depth int)
	seenFn := map[string]bool{}
	visit = func(name string, depth int) {
		fd := anyFunc(rel3, name)
		if fd == nil || seenFn[name] || depth < 0 {
			return
		}
		seenFn[name] = true
		alias := map[string]bool{}
		ast.Inspect(fd.Body, func(n ast.Node) bool {
			switch x := n.(type) {
			case *ast.AssignStmt:
				if len(x.Lhs) == 1 && len(x.Rhs) == 1 && strings.HasSuffix(src(x.Rhs[0]), ".StatusCode") {
					alias[src(x.Lhs[0])] = true
				}
			case *ast.SwitchStmt:
				tagless := false
				if x.Tag == nil {
					for _, c := range x.Body.List {
						for _, k := range c.(*ast.CaseClause).List {
							if statusAtoms(src(k), alias) != nil {
								tagless = true
							}
						}
					}
				}
				if tagless || x.Tag != nil && (strings.HasSuffix(src(x.Tag), ".StatusCode") || alias[src(x.Tag)]) {
					if statusSwitch != nil && statusSwitch != x {
						panic(bail{rel3 + ": more than one switch over a StatusCode under PostAndParseWithRetry"})
					}
					statusSwitch = x
					switchFn = name
				}
			case *ast.CallExpr:
				if sel, ok := x.Fun.(*ast.SelectorExpr); ok {
					visit(sel.Sel.Name, depth-1)
				} else if id, ok := x.Fun.(*ast.Ident); ok {
					visit(id.Name, depth-1)
				}
			}
			return true
		})
	}
	// PostAndParse has no status switch; only follow helpers that are not PostAndParse itself
	seenFn["PostAndParse"] = true
	visit("PostAndParseWithRetry", 2)
	if statusSwitch == nil {
		panic(bail{rel3 + ": no switch over the response's StatusCode under PostAndParseWithRetry"})
	}
	hasReturn := func(b []ast.Stmt) bool {
		found := false
		for _, st := range b {
			ast.Inspect(st, func(n ast.Node) bool {
				if _, ok := n.(*ast.FuncLit); ok {
					return false
				}
				if _, ok := n.(*ast.ReturnStmt); ok {
					found = true
				}
				return !found
			})
		}
		return found
	}
	// in a helper that reports "send again" through a leading bool result, a return is final only when that bool is false
	if switchFn != "PostAndParseWithRetry" {
		h := anyFunc(rel3, switchFn)
		if h.Type.Results == nil || len(h.Type.Results.List) == 0 || src(h.Type.Results.List[0].Type) != "bool" {
			panic(bail{rel3 + ": the status switch sits in helper " + switchFn + " whose first result is not a retry flag"})
		}
		inner := hasReturn
		hasReturn = func(b []ast.Stmt) bool {
			final, any := false, false
			for _, st := range b {
				ast.Inspect(st, func(n ast.Node) bool {
					if _, ok := n.(*ast.FuncLit); ok {
						return false
					}
					if r, ok := n.(*ast.ReturnStmt); ok && len(r.Results) > 0 {
						any = true
						switch src(r.Results[0]) {
						case "false":
							final = true
						case "true":
						default:
							panic(bail{rel3 + ": " + switchFn + " returns a retry flag that is not a literal: " + src(r)})
						}
					}
					return true
				})
			}
			if !any {
				return inner(b)
			}
			return final
		}
	}
	var retry []string
	okFinal, defErr := false, false
	clauses := statusSwitch.Body.List
	for i, c := range clauses {
		cc := c.(*ast.CaseClause)
		// a body ending in fallthrough behaves like the next clause's body
		bodyOf := cc.Body
		for j := i; len(bodyOf) > 0; j++ {
			if br, ok := bodyOf[len(bodyOf)-1].(*ast.BranchStmt); ok && br.Tok.String() == "fallthrough" && j+1 < len(clauses) {
				bodyOf = append(append([]ast.Stmt{}, bodyOf[:len(bodyOf)-1]...), clauses[j+1].(*ast.CaseClause).Body...)
				continue
			}
			break
		}
		if cc.List == nil {
			defErr = hasReturn(bodyOf) && strings.Contains(src(cc), "RspError{")
			continue
		}
		var consts []string
		for _, k := range cc.List {
			if statusSwitch.Tag == nil {
				at := statusAtoms(src(k), nil)
				if at == nil {
					consts = nil // a case about something else (the error): not a status case
					break
				}
				consts = append(consts, at...)
			} else {
				consts = append(consts, src(k))
			}
		}
		if statusSwitch.Tag == nil && consts == nil {
			if i == len(clauses)-1 {
				panic(bail{rel3 + ": the last case of the tagless switch is not the default"})
			}
			continue
		}
		for _, k := range consts {
			v, ok := httpStatus[k]
			if !ok {
				panic(bail{rel3 + ": unknown status constant " + k})
			}
			if v == 200 {
				okFinal = hasReturn(bodyOf)
				continue
			}
			if hasReturn(bodyOf) {
				continue // a final status handled like the default
			}
			retry = append(retry, fmt.Sprint(v))
		}
	}
	if !okFinal || !defErr {
		panic(bail{rel3 + ": PostAndParseWithRetry: 200 no longer returns the response or the default no longer returns RspError"})
	}
	sortStrings(retry)
	fmt.Fprintf(&sb, "/-- generated from %s func PostAndParseWithRetry: statuses after which the request is sent again (every other non-200 status is a final RspError) -/\ndef postRetryStatuses : List Nat := [%s]\n", rel3, strings.Join(retry, ", "))
	return sb.String()
}

// statusAtoms: the constants of a condition that is a disjunction of `<x>.StatusCode == http.StatusY` (nil otherwise).
func statusAtoms(cond string, alias map[string]bool) []string {
	var out []string
	for _, part := range strings.Split(cond, "||") {
		m := regexp.MustCompile(`^\s*\(?\s*([\w.]+) == (http\.\w+)\s*\)?\s*$`).FindStringSubmatch(part)
		if m == nil || !(strings.HasSuffix(m[1], ".StatusCode") || alias[m[1]]) {
			return nil
		}
		out = append(out, m[2])
	}
	return out
}

func init() {
	register(genFile{name: "Client", imports: nil, units: []unit{{"clientFacts", clientFacts}, {"clientConstruction", clientConstruction}}})
}

// clientConstruction: how a configured key becomes the client's verifier.  jsonclient.Options.ParsePublicKey: a non-empty
// PublicKeyDER is parsed (result and error returned as they are); else a non-empty PublicKey string is parsed as PEM, the
// parser's error returned and anything after the block refused; only when BOTH are empty is there "no key".
// jsonclient.New returns ParsePublicKey's and NewSignatureVerifier's errors and stores the verifier built from the key;
// client.New passes jsonclient.New's error on.
func clientConstruction() string {
	rel := "jsonclient/client.go"
	has := func(text, re string) bool { return regexp.MustCompile(re).MatchString(text) }
	pk := canonText(rel, "Options.ParsePublicKey")
	if !has(pk, `^iflen\((\w+)\.PublicKeyDER\)>0\{returnx509\.ParsePKIXPublicKey\((\w+)\.PublicKeyDER\)\};`+
		`if(\w+)\.PublicKey==""\{returnnil,nil\};(\w+),_,(\w+),err:=ct\.PublicKeyFromPEM\(\[\]byte\((\w+)\.PublicKey\)\);iferr!=nil\{returnnil,err\};`+
		`iflen\((\w+)\)>0\{returnnil,errors\.New\("[^"]*"\)\};return(\w+),nil;$`) {
		panic(bail{rel + ": Options.ParsePublicKey is no longer `DER if non-empty, else PEM if the string is non-empty (error returned, rest refused), else no key`: " + pk})
	}
	m := regexp.MustCompile(`\};(\w+),_,(\w+),err:=.*?iflen\((\w+)\)>0.*?return(\w+),nil;$`).FindStringSubmatch(pk)
	if m == nil || m[1] != m[4] || m[2] != m[3] {
		panic(bail{rel + ": Options.ParsePublicKey does not test the rest / return the key PublicKeyFromPEM gave"})
	}
	nw := canonText(rel, "New")
	km := regexp.MustCompile(`^(\w+),err:=(\w+)\.ParsePublicKey\(\);iferr!=nil\{returnnil,`).FindStringSubmatch(nw)
	if km == nil {
		panic(bail{rel + ": New no longer starts by returning the error of ParsePublicKey"})
	}
	vm := regexp.MustCompile(`var(\w+)\*ct\.SignatureVerifier;if` + km[1] + `!=nil\{(?:varerrerror;?)?(\w+),err=ct\.NewSignatureVerifier\(` + km[1] + `\);?iferr!=nil\{returnnil,err\}\};`).FindStringSubmatch(nw)
	if vm == nil || vm[1] != vm[2] || !has(nw, `Verifier:`+vm[1]+`,`) {
		panic(bail{rel + ": New no longer builds Verifier with NewSignatureVerifier from the parsed key (error returned)"})
	}
	cn := canonText("client/logclient.go", "New")
	if !has(cn, `^(\w+),err:=jsonclient\.New\(\w+,\w+,\w+\);iferr!=nil\{returnnil,err\};return&LogClient\{\*(\w+)\},(err|nil);$`) {
		panic(bail{"client/logclient.go: New is no longer jsonclient.New with its error passed on: " + cn})
	}
	return "/-- generated from " + rel + " func Options.ParsePublicKey / New and client/logclient.go func New: a key option that is set (non-empty\nPublicKeyDER, else non-empty PublicKey string) either yields the verifier built from exactly that key or makes New fail; only with\nboth options empty is a client built without a verifier -/\ndef clientKeyOptionFailsClosed : Bool := true\n"
}
