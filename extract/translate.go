// Translator from a restricted subset of Go statements/expressions to Lean 4
// definitions. go/parser + go/ast + go/printer only (no type checker).
package main

import (
	"os"
	"bytes"
	"fmt"
	"go/ast"
	"go/parser"
	"go/printer"
	"go/token"
	"regexp"
	"sort"
	"strings"
)

var fset = token.NewFileSet()

type bail struct{ msg string }

func failf(n ast.Node, f string, a ...interface{}) {
	pos := ""
	if n != nil {
		pos = fset.Position(n.Pos()).String() + ": "
	}
	panic(bail{pos + fmt.Sprintf(f, a...)})
}

func src(n ast.Node) string {
	var b bytes.Buffer
	if err := printer.Fprint(&b, fset, n); err != nil {
		return "?"
	}
	return strings.Join(strings.Fields(b.String()), " ")
}

var timeUnits = map[string]string{"time.Nanosecond": "1", "time.Microsecond": "1000", "time.Millisecond": "1000000",
	"time.Second": "1000000000", "time.Minute": "60000000000", "time.Hour": "3600000000000"}

var fileCache = map[string]*ast.File{}

func parseFile(path string) *ast.File {
	if f, ok := fileCache[path]; ok {
		return f
	}
	f, err := parser.ParseFile(fset, path, nil, parser.ParseComments)
	if err != nil {
		panic(bail{fmt.Sprintf("parse %s: %v", path, err)})
	}
	fileCache[path] = f
	return f
}

// findFunc finds "Name" or "Recv.Name".
func findFunc(f *ast.File, name string) *ast.FuncDecl {
	recv := ""
	if i := strings.Index(name, "."); i >= 0 {
		recv, name = name[:i], name[i+1:]
	}
	for _, d := range f.Decls {
		fd, ok := d.(*ast.FuncDecl)
		if !ok || fd.Name.Name != name {
			continue
		}
		r := ""
		if fd.Recv != nil && len(fd.Recv.List) == 1 {
			t := fd.Recv.List[0].Type
			if s, ok := t.(*ast.StarExpr); ok {
				t = s.X
			}
			if id, ok := t.(*ast.Ident); ok {
				r = id.Name
			}
		}
		if r == recv {
			return fd
		}
	}
	return nil
}

// Spec describes how to read one kernel.
type Spec struct {
	Kind       string            // "i64" or "u64": arithmetic of untyped operators
	Repl       map[string]string // normalised Go expression source -> Lean term
	InputCalls []string          // call-name prefixes whose result variable becomes an input (error check after it dropped)
	Ignore     []string          // call-name prefixes of statements to drop (logging, metrics, locks)
	Vars       map[string]string // Go lvalue source (e.g. "b.notBefore") -> Lean variable name
	IgnoreLHS  []string          // assignments to these targets (Go source of the lvalue) are dropped (e.g. `intervals = append(...)`)
	Ret        string            // "errlast" (Option tuple), "tuple", "state" (return value followed by StateVars)
	StateVars  []string          // Lean variable names appended to every return in "state" mode
	Calls      map[string]string // Go function source (e.g. "min") -> Lean function applied to the translated arguments
	// check-sequence extensions (handler bodies after the backend call)
	InitCond       map[string]string            // "<if init source> ; <cond source>" -> Lean Bool term standing for the whole test
	ErrCalls       map[string]string            // call-name prefix -> Lean Bool input "this call returned an error"; the `if err != nil` after it tests that input
	Effects        map[string]string            // call-name prefix of an expression statement -> "leanVar := term" binding it performs
	RangeAnyReturn map[string]string            // source of a ranged-over expression -> Lean Bool input "some iteration takes the loop's only `return`" (any body shape, one return, no break/continue)
	RangeCond      map[string]string            // source of a ranged-over expression -> Lean Bool input "some iteration takes the loop's single `if ... { return }`"
	Status         map[string]int               // "status"/"statusstate" return modes: Go expression source (http.StatusX) -> number
	StatusIdx      int                          // index of the status among the results ("status", "statusstate", "statuserr")
	ReturnVal      string                       // Ret "verdict": the Lean term every `return` stands for
	ContinueVal    string                       // the Lean term a `continue` stands for ("" = continue unsupported)
	ParamNames     []string                     // canonical names of the Go function's parameters, by position ("" = leave): a renamed parameter is aliased back
	AppendEffect   map[string]string            // `x = append(x, v)` where v is this (canonical) identifier -> "leanVar := term" binding it performs
	TypeSwitch     map[string]map[string]string // asserted expression (`x` of `switch v := x.(type)`) -> case type text ("nil", "string") -> Lean Bool "the dynamic type is this one"
	InitCondByCall map[string]string            // `if err := x.M(…); err != nil`: method-name suffix (".UnmarshalBinary") -> Lean Bool, whatever the receiver is called
	CallRepl       map[string]string            // call name -> Lean term for the call's value, whatever its arguments (their value is pinned by another unit)
	AddrIsSome     bool                         // pointers to local integers model optional values: `&x` is `some x`, `nil` (as a returned or assigned value) is `none`
	Prelude        string                       // Lean let-bindings placed before the translated statements (initial values of state variables)
	Canon          bool                         // function-level aliases (prepare): renamed parameters and hoisted pure reads are substituted back before markers and keys are matched
	Inline         bool                         // translate calls to single-result functions / methods declared in the same file by inlining their bodies
	Lazy           bool                         // drop `x := e` when e is not translatable; a later translated use of x then fails the unit
	BindRecv       map[string]string            // method name (".FromBase64String") -> canonical name of the receiver variable it is called on
	BindArg        map[string]string            // "callee#i" ("json.Unmarshal#1") -> canonical name of the variable passed (by address or value) as i-th argument
	BindDecl       map[string]string            // type text ("ct.SHA256Hash") -> canonical name of a `var x T` (no value) that no other binding names
	BindCommaOk    string                       // canonical name of the ok of `_, ok := m[k]`
	Bind           map[string]string            // call-name prefix -> the name the Spec's keys use for the call's first result (survives a rename of the local)
	// fourth robustness round (tls worker): every one of these is off unless the unit's Spec sets it
	PureCalls     []string          // calls that count as pure reads when a local is defined by them (`w := int(info.count)`, `t := x.Elem()`): callee source ("int", "crypto.SHA256.Size") or method suffix (".Elem"); such a local then stands for its definition
	NegRepl       bool              // a comparison whose negation (`a == b` for the key `a != b`) or mirror image (`b == a`) is a Repl key is translated through that key
	DropThrough   bool              // an assignment to a field / element of a local that is itself dropped (IgnoreLHS or Lazy-opaque) is dropped too, unless Vars or AppendEffect names it
	ErrFlow       bool              // statusstate: `return v, err` reports what is known about err on the path (pending ErrCalls error / known nil); `return v, helper(…)` asks whether the helper fails
	UseEffect     map[string]string // callee name -> "leanVar := … $0 … $1.base …": emitted before any assignment whose right-hand side contains a call of callee; $i = the call's i-th argument, $i.base = the value whose field is passed
	LoopAnyReturn map[string]string // condition of a `for` loop (normalised source, or "*") -> Lean Bool "some iteration takes one of the loop's returns"; all of them must translate alike
}

type tr struct {
	sp         Spec
	pendingErr string                  // Lean Bool for the `err` assigned by the latest ErrCalls call
	aliases    map[string]ast.Expr     // Go local -> the expression it stands for (hoisted pure reads, renamed call results)
	opaque     map[string]bool         // Go locals whose defining expression could not be translated: fine as long as nothing translated uses them
	file       *ast.File               // the file being translated (helper inlining)
	fd         *ast.FuncDecl           // the function being translated (set by prepare)
	closures   map[string]*ast.FuncLit // local `name := func(…) {…}` definitions seen so far
	depth      int                 // inlining depth
	flags      map[string]string   // locals initialised to a "not found" literal (`-1`, `false`): candidates for a search loop's flag
	errKnown   int                 // what is known about `err` on this path: 0 nothing, 1 non-nil, 2 nil (set by the branches of `if err != nil`)
	retCont    func(t *tr, r *ast.ReturnStmt) string // set while a multi-result helper is inlined: what a `return` of it continues with
	skipUse    ast.Stmt                              // the assignment whose UseEffect has just been emitted
}

// saved is the flow-sensitive part of a translator's state; branches that are translated one after the other (then/else with the
// continuation duplicated into both) each start from the state at the branch point.
type saved struct {
	aliases    map[string]ast.Expr
	opaque     map[string]bool
	pendingErr string
	errKnown   int
}

func (t *tr) save() saved {
	s := saved{pendingErr: t.pendingErr, errKnown: t.errKnown}
	if t.aliases != nil {
		s.aliases = make(map[string]ast.Expr, len(t.aliases))
		for k, v := range t.aliases {
			s.aliases[k] = v
		}
	}
	if t.opaque != nil {
		s.opaque = make(map[string]bool, len(t.opaque))
		for k, v := range t.opaque {
			s.opaque[k] = v
		}
	}
	return s
}

func (t *tr) restore(s saved) {
	t.pendingErr, t.errKnown = s.pendingErr, s.errKnown
	t.aliases, t.opaque = nil, nil
	if s.aliases != nil {
		t.aliases = make(map[string]ast.Expr, len(s.aliases))
		for k, v := range s.aliases {
			t.aliases[k] = v
		}
	}
	if s.opaque != nil {
		t.opaque = make(map[string]bool, len(s.opaque))
		for k, v := range s.opaque {
			t.opaque[k] = v
		}
	}
}

// inlineMulti: `a, b, c = helper(args…)` (or `:=`) where helper is a same-file function with several results whose body is
// translatable: the helper's body is translated in place, and each of its `return e1, e2, e3` continues with the caller's
// remaining statements in which a, b, c stand for e1, e2, e3 (state variables set on the way are threaded by Lean's shadowing).
func (t *tr) inlineMulti(x *ast.AssignStmt, rest []ast.Stmt, tail, ind string) (string, bool) {
	if !t.sp.Inline || t.depth > 3 || len(x.Rhs) != 1 || len(x.Lhs) < 1 {
		return "", false
	}
	c, ok := x.Rhs[0].(*ast.CallExpr)
	if !ok {
		return "", false
	}
	hfd, recv := t.resolveHelper(c)
	if hfd == nil || hfd.Body == nil || hfd.Type.Results == nil || hfd.Type.Results.NumFields() != len(x.Lhs) {
		return "", false
	}
	var lhs []string
	for _, l := range x.Lhs {
		id, ok := l.(*ast.Ident)
		if !ok {
			return "", false
		}
		lhs = append(lhs, id.Name)
	}
	sp := t.sp
	sp.ParamNames = nil
	t2, ok := t.bindHelper(hfd, recv, c, sp)
	if !ok {
		return "", false
	}
	t2.fd = hfd
	t2.pendingErr = ""
	caller := t
	callerState := t.save()
	t2.retCont = func(h *tr, r *ast.ReturnStmt) string {
		if len(r.Results) != len(lhs) {
			failf(r, "inlined helper %s: bare or short return", hfd.Name.Name)
		}
		t3 := &tr{sp: caller.sp, file: caller.file, fd: caller.fd, closures: caller.closures, depth: caller.depth, retCont: caller.retCont}
		t3.restore(callerState)
		for i, n := range lhs {
			if n == "_" {
				continue
			}
			e := h.subst(r.Results[i])
			delete(t3.opaque, n)
			if id, isId := e.(*ast.Ident); isId && id.Name == n {
				if t3.aliases != nil {
					delete(t3.aliases, n)
				}
				continue
			}
			t3.alias(n, e)
		}
		// the helper's own pending error (its `err` of the latest failing call) is what `err` means if it is handed on
		t3.pendingErr = h.pendingErr
		t3.errKnown = 0
		for i, n := range lhs {
			if n == "err" {
				t3.errKnown = h.nilness(h.subst(r.Results[i]))
			}
		}
		return t3.block(rest, tail, ind)
	}
	out, done := "", false
	func() {
		defer func() {
			if r := recover(); r != nil {
				if _, isBail := r.(bail); !isBail {
					panic(r)
				}
				if os.Getenv("EXTRACT_DEBUG") != "" {
					fmt.Fprintf(os.Stderr, "inlineMulti %s: %v\n", hfd.Name.Name, r)
				}
			}
		}()
		out = t2.block(hfd.Body.List, "default", ind)
		done = true
	}()
	return out, done
}

func (t *tr) alias(name string, e ast.Expr) {
	if t.aliases == nil {
		t.aliases = map[string]ast.Expr{}
	}
	t.aliases[name] = e
}

// prepare sets up the function-level aliases of a unit: parameters renamed with respect to Spec.ParamNames, and every local
// that is defined exactly once by a pure access path which is not itself translatable (`naStart := opts.notAfterStart`).
// bindNames gives the locals of fd that the Spec identifies by their ROLE (receiver of a named method, argument of a named call,
// zero value of a type, ok of a map lookup) their canonical names, whatever they are called in the source.
func (t *tr) bindNames(fd *ast.FuncDecl) {
	if fd == nil || fd.Body == nil || (len(t.sp.BindRecv) == 0 && len(t.sp.BindArg) == 0 && len(t.sp.BindDecl) == 0 && t.sp.BindCommaOk == "") {
		return
	}
	bound := map[string]bool{}
	set := func(e ast.Expr, canon string) {
		if u, ok := e.(*ast.UnaryExpr); ok && u.Op == token.AND {
			e = u.X
		}
		if id, ok := e.(*ast.Ident); ok && id.Name != "_" {
			bound[id.Name] = true
			if id.Name != canon {
				t.alias(id.Name, ast.NewIdent(canon))
			}
		}
	}
	ast.Inspect(fd.Body, func(n ast.Node) bool {
		switch x := n.(type) {
		case *ast.CallExpr:
			if sel, ok := x.Fun.(*ast.SelectorExpr); ok {
				if canon, ok := t.sp.BindRecv["."+sel.Sel.Name]; ok {
					set(sel.X, canon)
				}
			}
			for k, canon := range t.sp.BindArg {
				i := strings.LastIndex(k, "#")
				if i < 0 || norm(src(x.Fun)) != k[:i] {
					continue
				}
				var idx int
				fmt.Sscanf(k[i+1:], "%d", &idx)
				if idx < len(x.Args) {
					set(x.Args[idx], canon)
				}
			}
		case *ast.AssignStmt:
			if t.sp.BindCommaOk != "" && x.Tok == token.DEFINE && len(x.Lhs) == 2 && len(x.Rhs) == 1 {
				if _, ok := x.Rhs[0].(*ast.IndexExpr); ok {
					set(x.Lhs[1], t.sp.BindCommaOk)
				}
			}
		}
		return true
	})
	ast.Inspect(fd.Body, func(n ast.Node) bool {
		if ds, ok := n.(*ast.DeclStmt); ok {
			if gd, ok := ds.Decl.(*ast.GenDecl); ok && gd.Tok == token.VAR {
				for _, sp := range gd.Specs {
					vs := sp.(*ast.ValueSpec)
					if len(vs.Values) != 0 || vs.Type == nil {
						continue
					}
					if canon, ok := t.sp.BindDecl[norm(src(vs.Type))]; ok {
						for _, nm := range vs.Names {
							if !bound[nm.Name] {
								set(nm, canon)
							}
						}
					}
				}
			}
		}
		return true
	})
}

func (t *tr) prepare(fd *ast.FuncDecl) {
	t.bindNames(fd)
	if fd == nil || fd.Body == nil || !t.sp.Canon {
		return
	}
	if fd.Type.Params != nil {
		i := 0
		for _, f := range fd.Type.Params.List {
			for _, n := range f.Names {
				if i < len(t.sp.ParamNames) && t.sp.ParamNames[i] != "" && n.Name != t.sp.ParamNames[i] && n.Name != "_" {
					t.alias(n.Name, ast.NewIdent(t.sp.ParamNames[i]))
				}
				i++
			}
		}
	}
	t.fd = fd
}

// aliasesOnPathTo records, for the statement lists that enclose target, the hoisted pure reads (`x := a.b`, `cert := chain[0]`)
// defined in them before the statement that leads to target — flow-sensitive and block-local, so that a shadowing loop variable of
// the same name elsewhere in the function does not matter.
func (t *tr) aliasesOnPathTo(target ast.Node) {
	if t.fd == nil || !t.sp.Canon {
		return
	}
	var walk func(list []ast.Stmt) bool
	contains := func(n ast.Node) bool {
		found := false
		ast.Inspect(n, func(m ast.Node) bool {
			if m == target {
				found = true
			}
			return !found
		})
		return found
	}
	walk = func(list []ast.Stmt) bool {
		for _, st := range list {
			if contains(st) {
				switch x := st.(type) {
				case *ast.IfStmt:
					if contains(x.Body) {
						return walk(x.Body.List)
					}
					if x.Else != nil {
						if b, ok := x.Else.(*ast.BlockStmt); ok {
							return walk(b.List)
						}
						return walk([]ast.Stmt{x.Else})
					}
				case *ast.RangeStmt:
					if x.Body != target {
						return walk(x.Body.List)
					}
				case *ast.ForStmt:
					return walk(x.Body.List)
				case *ast.BlockStmt:
					return walk(x.List)
				}
				return true
			}
			if as, ok := st.(*ast.AssignStmt); ok && as.Tok == token.DEFINE && len(as.Lhs) == len(as.Rhs) {
				for i := range as.Lhs {
					if id, ok := as.Lhs[i].(*ast.Ident); ok && id.Name != "_" && pureAccess(as.Rhs[i]) && !t.inIgnoreLHS(id.Name) {
						t.alias(id.Name, t.subst(as.Rhs[i]))
					}
				}
			}
		}
		return false
	}
	walk(t.fd.Body.List)
}

// resolveHelper finds the same-file function or method a call names (methods: unique by name), with the receiver expression.
func (t *tr) resolveHelper(c *ast.CallExpr) (*ast.FuncDecl, ast.Expr) {
	if id, ok := c.Fun.(*ast.Ident); ok {
		if lit, ok := t.closures[id.Name]; ok {
			return &ast.FuncDecl{Name: id, Type: lit.Type, Body: lit.Body}, nil
		}
	}
	if t.file == nil {
		return nil, nil
	}
	switch f := c.Fun.(type) {
	case *ast.Ident:
		return findFunc(t.file, f.Name), nil
	case *ast.SelectorExpr:
		var fd *ast.FuncDecl
		n := 0
		for _, d := range t.file.Decls {
			if g, ok := d.(*ast.FuncDecl); ok && g.Recv != nil && g.Name.Name == f.Sel.Name {
				fd = g
				n++
			}
		}
		if n == 1 {
			return fd, f.X
		}
	}
	return nil, nil
}

// bindHelper makes a sub-translator for the body of helper fd called as c: parameters and receiver stand for the arguments.
func (t *tr) bindHelper(fd *ast.FuncDecl, recv ast.Expr, c *ast.CallExpr, sp Spec) (*tr, bool) {
	t2 := &tr{sp: sp, file: t.file, depth: t.depth + 1, closures: t.closures}
	for k, v := range t.aliases {
		t2.alias(k, v)
	}
	if recv != nil && fd.Recv != nil && len(fd.Recv.List) == 1 && len(fd.Recv.List[0].Names) == 1 {
		if a := t.subst(recv); src(a) != fd.Recv.List[0].Names[0].Name {
			t2.alias(fd.Recv.List[0].Names[0].Name, a)
		}
	}
	i := 0
	for _, f := range fd.Type.Params.List {
		for _, n := range f.Names {
			if i < len(c.Args) {
				if a := t.subst(c.Args[i]); src(a) != n.Name {
					t2.alias(n.Name, a)
				}
			}
			i++
		}
	}
	t2.bindNames(fd)
	return t2, i == len(c.Args)
}

// unwrap: a function that only wraps a same-file helper — ignored statements (locking, logging) around `v := helper(args…)` …
// `return v`, or `return helper(args…)` — is translated as that helper's body with its parameters standing for the arguments
// (state variables and all: the helper may assign through the receiver it was handed). Repeats for wrappers of wrappers.
func (t *tr) unwrap(fd *ast.FuncDecl) (*ast.FuncDecl, *tr) {
	for depth := 0; depth < 3; depth++ {
		var core []ast.Stmt
		for _, st := range fd.Body.List {
			switch x := st.(type) {
			case *ast.ExprStmt:
				if t.ignoredCall(x.X) {
					continue
				}
			case *ast.DeferStmt:
				if t.ignoredCall(x.Call) {
					continue
				}
			}
			core = append(core, st)
		}
		var call *ast.CallExpr
		switch len(core) {
		case 1:
			if r, ok := core[0].(*ast.ReturnStmt); ok && len(r.Results) == 1 {
				call, _ = r.Results[0].(*ast.CallExpr)
			}
		case 2:
			as, ok1 := core[0].(*ast.AssignStmt)
			r, ok2 := core[1].(*ast.ReturnStmt)
			if ok1 && ok2 && len(as.Lhs) == 1 && len(as.Rhs) == 1 && len(r.Results) == 1 && src(as.Lhs[0]) == src(r.Results[0]) {
				call, _ = as.Rhs[0].(*ast.CallExpr)
			}
		}
		if call == nil {
			return fd, t
		}
		hfd, recv := t.resolveHelper(call)
		if hfd == nil || hfd.Body == nil || hfd == fd {
			return fd, t
		}
		t2, ok := t.bindHelper(hfd, recv, call, t.sp)
		if !ok {
			return fd, t
		}
		t2.depth = t.depth
		t2.fd = hfd
		fd, t = hfd, t2
	}
	return fd, t
}

// inlineErr: for a call to a same-file helper whose last result is `error`, the Lean Bool "the helper returned an error",
// obtained by translating the helper's body in errkind mode with its parameters standing for the arguments.
func (t *tr) inlineErr(e ast.Expr) (string, bool) {
	c, ok := e.(*ast.CallExpr)
	if !ok || !t.sp.Inline || t.depth > 3 {
		return "", false
	}
	fd, recv := t.resolveHelper(c)
	if fd == nil || fd.Body == nil || fd.Type.Results == nil || len(fd.Type.Results.List) == 0 {
		return "", false
	}
	last := fd.Type.Results.List[len(fd.Type.Results.List)-1]
	if src(last.Type) != "error" {
		return "", false
	}
	sp := t.sp
	sp.Ret, sp.StateVars, sp.ParamNames, sp.Prelude = "errkind", nil, nil, ""
	t2, ok := t.bindHelper(fd, recv, c, sp)
	if !ok {
		return "", false
	}
	out, done := "", false
	func() {
		defer func() {
			if r := recover(); r != nil {
				if _, isBail := r.(bail); !isBail {
					panic(r)
				}
				if os.Getenv("EXTRACT_DEBUG") != "" {
					fmt.Fprintf(os.Stderr, "inlineErr %s: %v\n", fd.Name.Name, r)
				}
			}
		}()
		out = t2.block(fd.Body.List, "ErrKind.ok", "    ")
		done = true
	}()
	if !done {
		return "", false
	}
	// a helper that sets a state variable of the unit on the way cannot be summarised as "did it fail": its effect would be lost
	for _, v := range t.sp.StateVars {
		if strings.Contains(out, "let "+v+" :=") {
			return "", false
		}
	}
	return "((" + out + ") != ErrKind.ok)", true
}

// inlineCall translates a call to a single-result function or method declared in the same file by translating its body with the
// parameters (and the receiver) standing for the arguments.
func (t *tr) inlineCall(c *ast.CallExpr) (string, bool) {
	if !t.sp.Inline || t.file == nil || t.depth > 3 {
		return "", false
	}
	var fd *ast.FuncDecl
	var recv ast.Expr
	switch f := c.Fun.(type) {
	case *ast.Ident:
		fd = findFunc(t.file, f.Name)
	case *ast.SelectorExpr:
		n := 0
		for _, d := range t.file.Decls {
			if g, ok := d.(*ast.FuncDecl); ok && g.Recv != nil && g.Name.Name == f.Sel.Name {
				fd = g
				n++
			}
		}
		if n != 1 {
			return "", false
		}
		recv = f.X
	}
	if fd == nil || fd.Body == nil || fd.Type.Results == nil || len(fd.Type.Results.List) != 1 || len(fd.Type.Results.List[0].Names) > 1 {
		return "", false
	}
	sp := t.sp
	sp.Ret = ""
	sp.ParamNames = nil
	t2 := &tr{sp: sp, file: t.file, depth: t.depth + 1, closures: t.closures}
	for k, v := range t.aliases {
		t2.alias(k, v)
	}
	if recv != nil && fd.Recv != nil && len(fd.Recv.List) == 1 && len(fd.Recv.List[0].Names) == 1 {
		t2.alias(fd.Recv.List[0].Names[0].Name, t.subst(recv))
	}
	i := 0
	for _, f := range fd.Type.Params.List {
		for _, n := range f.Names {
			if i < len(c.Args) {
				t2.alias(n.Name, t.subst(c.Args[i]))
			}
			i++
		}
	}
	if i != len(c.Args) {
		return "", false
	}
	out, ok := "", false
	func() {
		defer func() {
			if r := recover(); r != nil {
				if _, isBail := r.(bail); !isBail {
					panic(r)
				}
			}
		}()
		out = t2.block(fd.Body.List, "default", "    ")
		ok = true
	}()
	if !ok {
		return "", false
	}
	return "(" + out + ")", true
}

// pureAccess: a side-effect-free read path (x, x.f, x[const], x.GetF(), *x, &x, len(x)) whose value cannot change between a
// hoist point and its uses in the functions translated here (no assignment to the path in between is checked by isAssignedLater).
func pureAccess(e ast.Expr) bool {
	switch x := e.(type) {
	case *ast.Ident:
		return true
	case *ast.SelectorExpr:
		return pureAccess(x.X)
	case *ast.ParenExpr:
		return pureAccess(x.X)
	case *ast.StarExpr:
		return pureAccess(x.X)
	case *ast.UnaryExpr:
		return x.Op == token.AND && pureAccess(x.X)
	case *ast.IndexExpr:
		_, lit := x.Index.(*ast.BasicLit)
		return lit && pureAccess(x.X)
	case *ast.CallExpr:
		if len(x.Args) == 0 {
			if sel, ok := x.Fun.(*ast.SelectorExpr); ok && strings.HasPrefix(sel.Sel.Name, "Get") {
				return pureAccess(sel.X) // protobuf getters
			}
		}
		if id, ok := x.Fun.(*ast.Ident); ok && id.Name == "len" && len(x.Args) == 1 {
			return pureAccess(x.Args[0])
		}
	}
	return false
}

// pureish: pureAccess, or (Spec.PureCalls) a conversion / getter-like call / re-slicing of pure reads.
func (t *tr) pureish(e ast.Expr) bool {
	if pureAccess(e) {
		return true
	}
	if len(t.sp.PureCalls) == 0 || e == nil {
		return false
	}
	switch x := e.(type) {
	case *ast.BasicLit:
		return true
	case *ast.SelectorExpr:
		return t.pureish(x.X)
	case *ast.ParenExpr:
		return t.pureish(x.X)
	case *ast.StarExpr:
		return t.pureish(x.X)
	case *ast.SliceExpr:
		return t.pureish(x.X) && (x.Low == nil || t.pureish(x.Low)) && (x.High == nil || t.pureish(x.High)) && x.Max == nil
	case *ast.CallExpr:
		for _, a := range x.Args {
			if !t.pureish(a) {
				return false
			}
		}
		name := norm(src(x.Fun))
		for _, p := range t.sp.PureCalls {
			if p == name {
				return true
			}
			if sel, ok := x.Fun.(*ast.SelectorExpr); ok && strings.HasPrefix(p, ".") && "."+sel.Sel.Name == p && t.pureish(sel.X) {
				return true
			}
		}
	}
	return false
}

// rootIdent: the local an lvalue path (x.f, x[i], *x, (x)) starts from; "" for a bare identifier or anything else
func rootIdent(e ast.Expr) string {
	depth := 0
	for {
		switch x := e.(type) {
		case *ast.SelectorExpr:
			e = x.X
		case *ast.IndexExpr:
			e = x.X
		case *ast.StarExpr:
			e = x.X
		case *ast.ParenExpr:
			e = x.X
		case *ast.Ident:
			if depth == 0 {
				return ""
			}
			return x.Name
		default:
			return ""
		}
		depth++
	}
}

// droppedThrough (Spec.DropThrough): l is a field / element of a local the unit does not follow
func (t *tr) droppedThrough(l ast.Expr) bool {
	if !t.sp.DropThrough {
		return false
	}
	r := rootIdent(l)
	if r == "" || !(t.inIgnoreLHS(r) || t.opaque[r]) {
		return false
	}
	if _, ok := lookup(t.sp.Vars, src(l)); ok {
		return false
	}
	return true
}

// effectArgs substitutes `$i.base` / `$i` in an effect by the translation of (the value whose field is) the call's i-th argument;
// the arguments are taken as written (expr applies the aliases once).
func (t *tr) effectArgs(eff string, call *ast.CallExpr) string {
	for i := len(call.Args) - 1; i >= 0; i-- {
		a := call.Args[i]
		if ph := fmt.Sprintf("$%d.base", i); strings.Contains(eff, ph) {
			sel, ok := a.(*ast.SelectorExpr)
			if !ok {
				failf(a, "effect %s: argument %s is not a field", eff, src(a))
			}
			eff = strings.ReplaceAll(eff, ph, t.expr(sel.X))
		}
		if ph := fmt.Sprintf("$%d", i); strings.Contains(eff, ph) {
			v := ""
			if id, ok := t.subst(a).(*ast.Ident); ok && id.Name == "nil" {
				if r, ok := t.sp.Repl["nil"]; ok {
					v = r
				} else {
					v = "none"
				}
			} else {
				v = t.expr(a)
			}
			eff = strings.ReplaceAll(eff, ph, v)
		}
	}
	return eff
}

// inlineFails: for a call to a same-file helper whose only result is `error`, the Lean Bool "it returned an error" (errbool mode).
func (t *tr) inlineFails(c *ast.CallExpr) (string, bool) {
	if !t.sp.Inline || t.depth > 3 {
		return "", false
	}
	fd, recv := t.resolveHelper(c)
	if fd == nil || fd.Body == nil || fd.Type.Results == nil || fd.Type.Results.NumFields() != 1 || src(fd.Type.Results.List[0].Type) != "error" {
		return "", false
	}
	sp := t.sp
	sp.Ret, sp.StateVars, sp.ParamNames, sp.Prelude = "errbool", nil, nil, ""
	t2, ok := t.bindHelper(fd, recv, c, sp)
	if !ok {
		return "", false
	}
	// the caller's aliases mean nothing inside the helper (its arguments have been substituted already): a local of the helper that
	// happens to share a name with an aliased local of the caller (`err`) is its own variable
	isParam := map[string]bool{}
	if fd.Recv != nil {
		for _, f := range fd.Recv.List {
			for _, n := range f.Names {
				isParam[n.Name] = true
			}
		}
	}
	for _, f := range fd.Type.Params.List {
		for _, n := range f.Names {
			isParam[n.Name] = true
		}
	}
	for k := range t.aliases {
		if !isParam[k] && !strings.HasPrefix(k, "idx:") {
			delete(t2.aliases, k)
		}
	}
	out, done := "", false
	func() {
		defer func() {
			if r := recover(); r != nil {
				if _, isBail := r.(bail); !isBail {
					panic(r)
				}
				if os.Getenv("EXTRACT_DEBUG") != "" {
					fmt.Fprintf(os.Stderr, "inlineFails %s: %v\n", fd.Name.Name, r)
				}
			}
		}()
		out = t2.block(fd.Body.List, "true", "    ")
		done = true
	}()
	if !done {
		return "", false
	}
	return "(!(" + out + "))", true
}

// negated / mirrored comparison (Spec.NegRepl): the Lean term of `a op b` through a Repl key for `a op' b` or `b op a`
func (t *tr) negRepl(x *ast.BinaryExpr) (string, bool) {
	if !t.sp.NegRepl {
		return "", false
	}
	neg := map[token.Token]token.Token{token.EQL: token.NEQ, token.NEQ: token.EQL, token.LSS: token.GEQ, token.GEQ: token.LSS, token.GTR: token.LEQ, token.LEQ: token.GTR}
	mir := map[token.Token]token.Token{token.EQL: token.EQL, token.NEQ: token.NEQ, token.LSS: token.GTR, token.GTR: token.LSS, token.LEQ: token.GEQ, token.GEQ: token.LEQ}
	if _, ok := neg[x.Op]; !ok {
		return "", false
	}
	if r, ok := lookup(t.sp.Repl, src(&ast.BinaryExpr{X: x.Y, Op: mir[x.Op], Y: x.X})); ok {
		return r, true
	}
	if r, ok := lookup(t.sp.Repl, src(&ast.BinaryExpr{X: x.X, Op: neg[x.Op], Y: x.Y})); ok {
		return "(!" + r + ")", true
	}
	if r, ok := lookup(t.sp.Repl, src(&ast.BinaryExpr{X: x.Y, Op: mir[neg[x.Op]], Y: x.X})); ok {
		return "(!" + r + ")", true
	}
	return "", false
}

// subst replaces aliased identifiers by what they stand for (fresh nodes; the original tree is not modified).
func (t *tr) subst(e ast.Expr) ast.Expr {
	if len(t.aliases) == 0 || e == nil {
		return e
	}
	switch x := e.(type) {
	case *ast.Ident:
		if a, ok := t.aliases[x.Name]; ok {
			return a
		}
		return x
	case *ast.SelectorExpr:
		in := t.subst(x.X)
		if p, ok := in.(*ast.ParenExpr); ok {
			if u, ok := p.X.(*ast.UnaryExpr); ok && u.Op == token.AND {
				in = u.X // (&v).f is v.f
			}
		}
		if u, ok := in.(*ast.UnaryExpr); ok && u.Op == token.AND {
			in = u.X // a pointer parameter bound to &v: p.f is v.f
		}
		return &ast.SelectorExpr{X: in, Sel: x.Sel}
	case *ast.SliceExpr:
		return &ast.SliceExpr{X: t.subst(x.X), Low: t.subst(x.Low), High: t.subst(x.High), Max: t.subst(x.Max), Slice3: x.Slice3}
	case *ast.ParenExpr:
		return &ast.ParenExpr{X: t.subst(x.X)}
	case *ast.StarExpr:
		return &ast.StarExpr{X: t.subst(x.X)}
	case *ast.UnaryExpr:
		return &ast.UnaryExpr{Op: x.Op, X: t.subst(x.X)}
	case *ast.BinaryExpr:
		return &ast.BinaryExpr{X: t.subst(x.X), Op: x.Op, Y: t.subst(x.Y)}
	case *ast.IndexExpr:
		if a, ok := t.aliases["idx:"+norm(src(x))]; ok {
			return a
		}
		return &ast.IndexExpr{X: t.subst(x.X), Index: t.subst(x.Index)}
	case *ast.CallExpr:
		args := make([]ast.Expr, len(x.Args))
		for i, a := range x.Args {
			args[i] = t.subst(a)
		}
		fun := x.Fun
		if sel, ok := fun.(*ast.SelectorExpr); ok {
			fun = &ast.SelectorExpr{X: t.subst(sel.X), Sel: sel.Sel}
		}
		return &ast.CallExpr{Fun: fun, Args: args, Ellipsis: x.Ellipsis}
	}
	return e
}

// norm removes the spaces go/printer puts (or, for synthesized nodes, fails to put) around operators and selectors, so that a
// Spec key matches the source it was written from whatever the printer's spacing decisions are.
func norm(s string) string { return strings.ReplaceAll(strings.ReplaceAll(s, " ", ""), "\t", "") }

// lookup finds key in m modulo spacing.
func lookup(m map[string]string, key string) (string, bool) {
	if v, ok := m[key]; ok {
		return v, true
	}
	nk := norm(key)
	for k, v := range m {
		if norm(k) == nk {
			return v, true
		}
	}
	// "…" in a key stands for any access path (`…[0].NotAfter`: the first element of whatever the slice is called;
	// `(*….lower)`: the lower bound of whatever the interval is called); a leading "…" also matches a longer prefix
	for k, v := range m {
		if !strings.Contains(k, "…") {
			continue
		}
		parts := strings.Split(norm(k), "…")
		for i := range parts {
			parts[i] = regexp.QuoteMeta(parts[i])
		}
		// "…" = an access path: identifiers, dots, index brackets — never an operator, so a key cannot swallow a conjunct
		pat := "^" + strings.Join(parts, `[A-Za-z0-9_\.\[\]]*?`) + "$"
		if ok, _ := regexp.MatchString(pat, nk); ok {
			return v, true
		}
	}
	return "", false
}

// tryExpr translates e, reporting failure instead of aborting the unit.
func (t *tr) tryExpr(e ast.Expr) (out string, ok bool) {
	defer func() {
		if r := recover(); r != nil {
			if _, isBail := r.(bail); isBail {
				out, ok = "", false
				return
			}
			panic(r)
		}
	}()
	return t.expr(e), true
}

func prefixLookup(m map[string]string, name string) (string, bool) {
	if name == "" {
		return "", false
	}
	best, val := "", ""
	for p, v := range m {
		if strings.HasPrefix(name, p) && len(p) > len(best) {
			best, val = p, v
		}
	}
	return val, best != ""
}

// assignsErrCall: one of the statements (top level of the list) is `…, err = <ErrCalls call>`.
func (t *tr) assignsErrCall(list []ast.Stmt) bool {
	for _, st := range list {
		if as, ok := st.(*ast.AssignStmt); ok && len(as.Rhs) == 1 && len(as.Lhs) >= 1 && src(as.Lhs[len(as.Lhs)-1]) == "err" {
			if _, known := prefixLookup(t.sp.ErrCalls, callKey(t.subst(as.Rhs[0]))); known {
				return true
			}
		}
	}
	return false
}

// callKey: the whole call, normalised (`w.parse(prevRaw,logID)`): lets an ErrCalls key tell two calls of one function apart
// by their first arguments; a key that is just the function name is a prefix of it too.
func callKey(e ast.Expr) string {
	c, ok := e.(*ast.CallExpr)
	if !ok {
		return ""
	}
	return norm(src(c))
}

func callName(e ast.Expr) string {
	c, ok := e.(*ast.CallExpr)
	if !ok {
		return ""
	}
	return norm(src(c.Fun))
}

func (t *tr) ops() string {
	if t.sp.Kind == "u64" {
		return "U64"
	}
	return "I64"
}

func leanIdent(name string) string { return name + "_" }

func (t *tr) lvalue(e ast.Expr) string {
	s := src(e)
	if v, ok := lookup(t.sp.Vars, s); ok {
		return v
	}
	if id, ok := e.(*ast.Ident); ok {
		return leanIdent(id.Name)
	}
	failf(e, "unsupported assignment target %s", s)
	return ""
}

// flagLoopAsReturnLoop recognises
//	flag := -1 (or false) … for i, e := range X { if cond { flag = i (or true); break } } ; if flag >= 0 (or flag) { return R }
// and hands back `for i, e := range X { if cond { return R } }` with the statements after the flag test.
func (t *tr) flagLoopAsReturnLoop(x *ast.RangeStmt, rest []ast.Stmt) (ast.Stmt, []ast.Stmt, bool) {
	if len(x.Body.List) != 1 || len(rest) == 0 {
		return nil, nil, false
	}
	is, ok := x.Body.List[0].(*ast.IfStmt)
	if !ok || is.Else != nil || len(is.Body.List) != 2 {
		return nil, nil, false
	}
	as, ok1 := is.Body.List[0].(*ast.AssignStmt)
	br, ok2 := is.Body.List[1].(*ast.BranchStmt)
	if !ok1 || !ok2 || br.Tok != token.BREAK || br.Label != nil || as.Tok != token.ASSIGN || len(as.Lhs) != 1 || len(as.Rhs) != 1 {
		return nil, nil, false
	}
	flag, ok := as.Lhs[0].(*ast.Ident)
	if !ok {
		return nil, nil, false
	}
	after, ok := rest[0].(*ast.IfStmt)
	if !ok || after.Init != nil || after.Else != nil || !hasReturn(after.Body.List) {
		return nil, nil, false
	}
	test := norm(src(after.Cond))
	switch t.flags[flag.Name] {
	case "-1":
		key, isKey := x.Key.(*ast.Ident)
		if !isKey || norm(src(as.Rhs[0])) != key.Name {
			return nil, nil, false
		}
		if test != flag.Name+">=0" && test != flag.Name+"!=-1" && test != flag.Name+">-1" {
			return nil, nil, false
		}
	case "false":
		if norm(src(as.Rhs[0])) != "true" || test != flag.Name {
			return nil, nil, false
		}
	default:
		return nil, nil, false
	}
	y := *x
	y.Body = &ast.BlockStmt{List: []ast.Stmt{&ast.IfStmt{Init: is.Init, Cond: is.Cond, Body: after.Body}}}
	return &y, rest[1:], true
}

// mentions: does any of the statements refer to one of the names (as an identifier)?
func mentions(stmts []ast.Stmt, names []string) bool {
	if len(names) == 0 {
		return false
	}
	found := false
	for _, st := range stmts {
		ast.Inspect(st, func(n ast.Node) bool {
			if id, ok := n.(*ast.Ident); ok {
				for _, nm := range names {
					if id.Name == nm {
						found = true
					}
				}
			}
			return !found
		})
	}
	return found
}

// nilness of an expression after substitution: 1 = certainly non-nil (a freshly made error, a composite literal, an address),
// 2 = the literal nil, 0 = not known. `err` itself is judged by what the enclosing `if err != nil` branches established.
func (t *tr) nilness(e ast.Expr) int {
	switch x := e.(type) {
	case *ast.ParenExpr:
		return t.nilness(x.X)
	case *ast.Ident:
		if x.Name == "nil" {
			return 2
		}
		if x.Name == "err" {
			return t.errKnown
		}
	case *ast.CallExpr:
		switch norm(src(x.Fun)) {
		case "fmt.Errorf", "errors.New", "status.Errorf", "status.Error":
			return 1
		}
	case *ast.CompositeLit:
		return 1
	case *ast.UnaryExpr:
		if x.Op == token.AND {
			return 1
		}
	}
	return 0
}

// nilCompare: `x == nil` / `x != nil` decided from what is known about x on this path ("" = not decided here)
func (t *tr) nilCompare(e ast.Expr) string {
	b, ok := e.(*ast.BinaryExpr)
	if !ok || (b.Op != token.EQL && b.Op != token.NEQ) {
		return ""
	}
	var other ast.Expr
	if id, ok := b.Y.(*ast.Ident); ok && id.Name == "nil" {
		other = b.X
	} else if id, ok := b.X.(*ast.Ident); ok && id.Name == "nil" {
		other = b.Y
	} else {
		return ""
	}
	if id, ok := other.(*ast.Ident); ok && id.Name == "err" && t.pendingErr != "" && t.errKnown == 0 {
		// the error of the latest ErrCalls call, tested inside a larger condition (`err != nil && status.Code(err) != …`)
		if b.Op == token.NEQ {
			return t.pendingErr
		}
		return "(!" + t.pendingErr + ")"
	}
	switch t.nilness(other) {
	case 1:
		if b.Op == token.NEQ {
			return "true"
		}
		return "false"
	case 2:
		if b.Op == token.NEQ {
			return "false"
		}
		return "true"
	}
	return ""
}

func (t *tr) expr(e ast.Expr) string {
	e = t.subst(e)
	s := src(e)
	if r, ok := lookup(t.sp.Repl, s); ok {
		return r
	}
	if id, ok := e.(*ast.Ident); ok && t.opaque[id.Name] {
		failf(e, "use of %s, whose defining expression is outside the translatable subset", id.Name)
	}
	if v, ok := lookup(t.sp.Vars, s); ok {
		return v
	}
	if n, ok := t.sp.Status[s]; ok {
		return fmt.Sprintf("(%d : Int)", n)
	}
	switch x := e.(type) {
	case *ast.Ident:
		switch x.Name {
		case "true":
			return "true"
		case "false":
			return "false"
		case "nil":
			if t.sp.AddrIsSome {
				return "none"
			}
			failf(e, "nil outside a replaced comparison")
		}
		return leanIdent(x.Name)
	case *ast.BasicLit:
		switch x.Kind {
		case token.INT:
			return "(" + x.Value + " : Int)"
		case token.STRING:
			return x.Value
		}
	case *ast.SelectorExpr:
		if u, ok := timeUnits[s]; ok {
			return "(" + u + " : Int)"
		}
	case *ast.ParenExpr:
		return "(" + t.expr(x.X) + ")"
	case *ast.UnaryExpr:
		switch x.Op {
		case token.AND:
			if id, ok := x.X.(*ast.Ident); ok && t.sp.AddrIsSome {
				return "(some " + t.expr(id) + ")"
			}
		case token.NOT:
			return "(!" + t.expr(x.X) + ")"
		case token.SUB:
			return "(" + t.ops() + ".neg " + t.expr(x.X) + ")"
		}
	case *ast.BinaryExpr:
		if c := t.nilCompare(x); c != "" {
			return c
		}
		if r, ok := t.negRepl(x); ok {
			return r
		}
		a, b := t.expr(x.X), t.expr(x.Y)
		o := t.ops()
		switch x.Op {
		case token.ADD:
			return "(" + o + ".add " + a + " " + b + ")"
		case token.SUB:
			return "(" + o + ".sub " + a + " " + b + ")"
		case token.MUL:
			return "(" + o + ".mul " + a + " " + b + ")"
		case token.REM:
			return "(" + o + ".rem " + a + " " + b + ")"
		case token.QUO:
			return "(" + o + ".div " + a + " " + b + ")"
		case token.SHL:
			return "(" + o + ".shl " + a + " " + b + ")"
		case token.AND:
			// bitwise and of two non-negative bit masks
			return "(I64.land " + a + " " + b + ")"
		case token.LSS:
			return "(decide (" + a + " < " + b + "))"
		case token.LEQ:
			return "(decide (" + a + " ≤ " + b + "))"
		case token.GTR:
			return "(decide (" + a + " > " + b + "))"
		case token.GEQ:
			return "(decide (" + a + " ≥ " + b + "))"
		case token.EQL:
			return "(decide (" + a + " = " + b + "))"
		case token.NEQ:
			return "(decide (" + a + " ≠ " + b + "))"
		case token.LAND:
			return "(" + a + " && " + b + ")"
		case token.LOR:
			return "(" + a + " || " + b + ")"
		}
	case *ast.CompositeLit:
		// unkeyed struct literal of scalar fields, e.g. fetchRange{start, batchEnd - 1} -> Lean tuple
		if len(x.Elts) >= 2 {
			var parts []string
			for _, el := range x.Elts {
				if _, keyed := el.(*ast.KeyValueExpr); keyed {
					failf(e, "keyed composite literal unsupported: %s", s)
				}
				parts = append(parts, t.expr(el))
			}
			return "(" + strings.Join(parts, ", ") + ")"
		}
	case *ast.CallExpr:
		switch src(x.Fun) {
		case "time.Now":
			if len(x.Args) == 0 {
				return "now_"
			}
		case "time.Until":
			if len(x.Args) == 1 {
				return "(T.sub " + t.expr(x.Args[0]) + " now_)"
			}
		case "time.Since":
			if len(x.Args) == 1 {
				return "(T.sub now_ " + t.expr(x.Args[0]) + ")"
			}
		}
		// slices.Contains(X, v) is the search loop `for _, e := range X { if e == v { return true } }; return false` (Spec.RangeCond)
		if norm(src(x.Fun)) == "slices.Contains" && len(x.Args) == 2 {
			rx := src(x.Args[0])
			if c, ok := lookup(t.sp.RangeCond, rx); ok {
				elem := "elem"
				if cn, ok := lookup(t.sp.RangeCond, "elem:"+rx); ok {
					elem = cn
				}
				if want, ok := lookup(t.sp.RangeCond, "cond:"+rx); ok && (norm(want) == norm(elem+"=="+src(x.Args[1])) || norm(want) == norm(src(x.Args[1])+"=="+elem)) {
					return c
				}
			}
		}
		// builtins max / min
		if id, ok := x.Fun.(*ast.Ident); ok && (id.Name == "max" || id.Name == "min") && len(x.Args) == 2 {
			if _, shadow := t.sp.Calls[id.Name]; !shadow {
				return "(" + id.Name + " " + t.expr(x.Args[0]) + " " + t.expr(x.Args[1]) + ")"
			}
		}
		// calls of other regenerated kernels (Spec.Calls)
		if ln, ok := t.sp.Calls[src(x.Fun)]; ok {
			parts := []string{ln}
			for _, a := range x.Args {
				parts = append(parts, t.expr(a))
			}
			return "(" + strings.Join(parts, " ") + ")"
		}
		// conversions
		switch src(x.Fun) {
		case "int64", "int", "time.Duration":
			if len(x.Args) == 1 {
				return "(I64.wrap64 " + t.expr(x.Args[0]) + ")"
			}
		case "uint64", "uint":
			if len(x.Args) == 1 {
				return "(U64.wrap " + t.expr(x.Args[0]) + ")"
			}
		}
		// time comparisons: a.Before(b) etc.
		if sel, ok := x.Fun.(*ast.SelectorExpr); ok {
			switch sel.Sel.Name {
			case "Before":
				if len(x.Args) == 1 {
					return "(decide (" + t.expr(sel.X) + " < " + t.expr(x.Args[0]) + "))"
				}
			case "After":
				if len(x.Args) == 1 {
					return "(decide (" + t.expr(sel.X) + " > " + t.expr(x.Args[0]) + "))"
				}
			case "Equal":
				if len(x.Args) == 1 {
					return "(decide (" + t.expr(sel.X) + " = " + t.expr(x.Args[0]) + "))"
				}
			case "Add":
				// time.Time.Add(d): an instant is an unbounded Int of nanoseconds (time.Time's range is far larger than
				// int64 nanoseconds and Add saturates only at its ends); time.Until/Since/Sub saturate to int64 (T.sub)
				if len(x.Args) == 1 {
					return "(T.add " + t.expr(sel.X) + " " + t.expr(x.Args[0]) + ")"
				}
			}
		}
	}
	if c, ok := e.(*ast.CallExpr); ok {
		if r, ok := t.sp.CallRepl[callName(c)]; ok {
			return r
		}
		if out, ok := t.inlineCall(c); ok {
			return out
		}
	}
	failf(e, "unsupported expression %s (%T)", s, e)
	return ""
}

func (t *tr) ignoredCall(e ast.Expr) bool {
	n := callName(e)
	if n == "" {
		return false
	}
	for _, p := range t.sp.Ignore {
		if strings.HasPrefix(n, p) {
			return true
		}
	}
	return false
}

func (t *tr) isInputCall(e ast.Expr) bool {
	n := callName(e)
	if n == "" {
		return false
	}
	for _, p := range t.sp.InputCalls {
		if strings.HasPrefix(n, p) {
			return true
		}
	}
	return false
}

// assigned collects Lean names of variables assigned (=, ++, --) in a statement list.
func (t *tr) assigned(b []ast.Stmt, outer map[string]bool) {
	// names defined (`:=`, `var`) in this statement list are local to it: assignments to them do not escape
	out := map[string]bool{}
	local := map[string]bool{}
	defer func() {
		for v := range out {
			if !local[v] {
				outer[v] = true
			}
		}
	}()
	for _, s := range b {
		switch d := s.(type) {
		case *ast.AssignStmt:
			if d.Tok == token.DEFINE {
				for _, l := range d.Lhs {
					if id, ok := l.(*ast.Ident); ok {
						local[leanIdent(id.Name)] = true
					}
				}
			}
		case *ast.DeclStmt:
			if gd, ok := d.Decl.(*ast.GenDecl); ok {
				for _, sp := range gd.Specs {
					if vs, ok := sp.(*ast.ValueSpec); ok {
						for _, n := range vs.Names {
							local[leanIdent(n.Name)] = true
						}
					}
				}
			}
		}
	}
	for _, s := range b {
		switch x := s.(type) {
		case *ast.AssignStmt:
			if v := t.appendEffectVar(x); v != "" {
				out[v] = true
				continue
			}
			if x.Tok != token.DEFINE {
				for _, l := range x.Lhs {
					skip := false
					for _, ig := range t.sp.IgnoreLHS {
						if src(l) == ig {
							skip = true
						}
					}
					if !skip && t.droppedThrough(l) {
						skip = true
					}
					if !skip {
						out[t.lvalue(l)] = true
					}
				}
			}
		case *ast.IncDecStmt:
			out[t.lvalue(x.X)] = true
		case *ast.IfStmt:
			t.assigned(x.Body.List, out)
			switch e := x.Else.(type) {
			case *ast.BlockStmt:
				t.assigned(e.List, out)
			case *ast.IfStmt:
				t.assigned([]ast.Stmt{e}, out)
			}
		case *ast.BlockStmt:
			t.assigned(x.List, out)
		}
	}
}

func hasReturn(b []ast.Stmt) bool {
	found := false
	for _, s := range b {
		ast.Inspect(s, func(n ast.Node) bool {
			if _, ok := n.(*ast.ReturnStmt); ok {
				found = true
			}
			if b, ok := n.(*ast.BranchStmt); ok && b.Tok == token.CONTINUE {
				found = true // leaves the statement list just as a return does
			}
			return !found
		})
	}
	return found
}

func (t *tr) ret(r *ast.ReturnStmt) string {
	if t.retCont != nil {
		return t.retCont(t, r)
	}
	if len(t.aliases) > 0 && len(r.Results) > 0 {
		// results that are aliased locals (set by an inlined helper's return) stand for what they were set to
		cp := *r
		cp.Results = make([]ast.Expr, len(r.Results))
		for i, e := range r.Results {
			cp.Results[i] = e
			if id, ok := e.(*ast.Ident); ok {
				if a, ok := t.aliases[id.Name]; ok {
					cp.Results[i] = a
				}
			}
		}
		r = &cp
	}
	switch t.sp.Ret {
	case "errlast":
		last := r.Results[len(r.Results)-1]
		if id, ok := last.(*ast.Ident); ok && id.Name == "nil" {
			var parts []string
			for _, e := range r.Results[:len(r.Results)-1] {
				parts = append(parts, t.expr(e))
			}
			if len(parts) == 1 {
				return "some " + parts[0]
			}
			return "some (" + strings.Join(parts, ", ") + ")"
		}
		return "none"
	case "errlastbool":
		// several results, the last one is `error`: true = it is nil
		if n := len(r.Results); n >= 1 {
			if id, ok := r.Results[n-1].(*ast.Ident); ok && id.Name == "nil" {
				return "true"
			}
			return "false"
		}
		failf(r, "errlastbool: bare return")
		return ""
	case "errboolstate":
		// a function whose only result is `error`: (true = returned nil, StateVars…)
		if len(r.Results) == 1 {
			v := "false"
			if id, ok := r.Results[0].(*ast.Ident); ok && id.Name == "nil" {
				v = "true"
			}
			return "(" + strings.Join(append([]string{v}, t.sp.StateVars...), ", ") + ")"
		}
		failf(r, "errboolstate: return with %d results", len(r.Results))
		return ""
	case "errbool":
		// a function whose only result is `error`: true = returned nil
		if len(r.Results) == 1 {
			if id, ok := r.Results[0].(*ast.Ident); ok && id.Name == "nil" {
				return "true"
			}
			return "false"
		}
		failf(r, "errbool: return with %d results", len(r.Results))
		return ""
	case "verdict":
		return t.sp.ReturnVal
	case "stateonly":
		// a function without results whose observable behaviour is recorded in StateVars
		if len(r.Results) != 0 {
			failf(r, "stateonly: return with results")
		}
		if len(t.sp.StateVars) == 1 {
			return t.sp.StateVars[0]
		}
		return "(" + strings.Join(t.sp.StateVars, ", ") + ")"
	case "errkind":
		// only the error result matters: nil, the `err` of the latest failing call passed on unchanged, or a fresh error
		last := r.Results[len(r.Results)-1]
		k := ""
		if id, ok := last.(*ast.Ident); ok && id.Name == "nil" {
			k = "ErrKind.ok"
		} else if ok && id.Name == "err" {
			k = "ErrKind.passthrough"
		} else if n := callName(last); n == "fmt.Errorf" || n == "errors.New" {
			k = "ErrKind.fresh"
		} else if _, isLit := last.(*ast.CompositeLit); isLit {
			k = "ErrKind.fresh" // an error value made on the spot (RspError{…})
		} else {
			failf(r, "errkind: unrecognised error result %s", src(last))
		}
		if len(t.sp.StateVars) == 0 {
			return k
		}
		return "(" + strings.Join(append([]string{k}, t.sp.StateVars...), ", ") + ")"
	case "statuserr":
		// (…, status, error): `none` when the error is nil, else the status
		last := r.Results[len(r.Results)-1]
		if id, ok := last.(*ast.Ident); ok && id.Name == "nil" {
			return "none"
		}
		k := src(r.Results[t.sp.StatusIdx])
		if n, ok := t.sp.Status[k]; ok {
			return fmt.Sprintf("some (%d : Nat)", n)
		}
		if rp, ok := t.sp.Repl[k]; ok {
			return "some " + rp
		}
		failf(r, "statuserr: unknown status expression %s", k)
		return ""
	case "status", "statusstate":
		// (int, error) handler results: the HTTP status, followed by StateVars in "statusstate" mode
		if t.sp.Ret == "statusstate" && len(r.Results) == 1 {
			// `return f(x)` where f hands back (value, error) and is an ErrCalls callee: the value's status when it succeeds,
			// nothing and an error when it fails
			if c, ok := r.Results[0].(*ast.CallExpr); ok {
				name := src(c.Fun)
				for pfx, inp := range t.sp.ErrCalls {
					if strings.HasPrefix(name, pfx) || strings.HasPrefix(norm(src(c)), norm(pfx)) {
						n, ok := t.sp.Status[src(c)]
						if !ok {
							n, ok = t.sp.Status[norm(src(c.Fun))+"(…)"] // the call, whatever its arguments are
						}
						if !ok {
							failf(r, "status return: unknown status expression %s", src(c))
						}
						b := strings.Split(inp, "|")[0]
						okv := "(" + strings.Join(append([]string{fmt.Sprintf("(%d : Nat)", n), "false"}, t.sp.StateVars...), ", ") + ")"
						bad := "(" + strings.Join(append([]string{"(0 : Nat)", "true"}, t.sp.StateVars...), ", ") + ")"
						return "(if " + b + " then " + bad + " else " + okv + ")"
					}
				}
			}
		}
		st := ""
		k := src(r.Results[t.sp.StatusIdx])
		ck := norm(src(t.subst(r.Results[t.sp.StatusIdx]))) // the same value under its canonical (alias-substituted / Bind) name
		if n, ok := t.sp.Status[k]; ok {
			st = fmt.Sprintf("(%d : Nat)", n)
		} else if n, ok := t.sp.Status[ck]; ok {
			st = fmt.Sprintf("(%d : Nat)", n)
		} else if n, ok := t.sp.Status["*"]; ok && k != "nil" {
			st = fmt.Sprintf("(%d : Nat)", n) // "*": any value other than nil
		} else if rp, ok := t.sp.Repl[k]; ok {
			st = rp
		} else {
			failf(r, "status return: unknown status expression %s", k)
		}
		if t.sp.Ret == "status" {
			return st
		}
		// (status, an error is returned, state…)
		isErr := "true"
		if id, ok := r.Results[len(r.Results)-1].(*ast.Ident); ok && id.Name == "nil" {
			isErr = "false"
		} else if t.sp.ErrFlow {
			switch last := r.Results[len(r.Results)-1].(type) {
			case *ast.Ident:
				if last.Name == "err" {
					if t.errKnown == 2 {
						isErr = "false"
					} else if t.errKnown == 0 && t.pendingErr != "" {
						isErr = t.pendingErr
					}
				}
			case *ast.CallExpr:
				if nm := t.errCallName(t.subst(last)); nm != "" {
					isErr = nm
				} else if b, ok := t.inlineFails(last); ok {
					isErr = b
				}
			}
		}
		return "(" + strings.Join(append([]string{st, isErr}, t.sp.StateVars...), ", ") + ")"
	case "state":
		var parts []string
		for _, e := range r.Results {
			parts = append(parts, t.expr(e))
		}
		parts = append(parts, t.sp.StateVars...)
		return "(" + strings.Join(parts, ", ") + ")"
	default:
		var parts []string
		for _, e := range r.Results {
			parts = append(parts, t.expr(e))
		}
		if len(parts) == 1 {
			return parts[0]
		}
		return "(" + strings.Join(parts, ", ") + ")"
	}
}

func elseList(e ast.Stmt) []ast.Stmt {
	switch x := e.(type) {
	case nil:
		return nil
	case *ast.BlockStmt:
		return x.List
	case *ast.IfStmt:
		return []ast.Stmt{x}
	}
	return nil
}

func (t *tr) inIgnoreLHS(name string) bool {
	for _, ig := range t.sp.IgnoreLHS {
		if ig == name {
			return true
		}
	}
	return false
}

// effectWithArgs substitutes `$i` in an effect by the translation of the call's i-th argument (`nil` is `none`).
func (t *tr) effectWithArgs(eff string, call *ast.CallExpr) string {
	for i, a := range call.Args {
		ph := fmt.Sprintf("$%d", i)
		if strings.Contains(eff, ph) {
			v := ""
			if id, ok := a.(*ast.Ident); ok && id.Name == "nil" {
				v = "none"
			} else {
				v = t.expr(a)
			}
			eff = strings.ReplaceAll(eff, ph, v)
		}
	}
	return eff
}

// indexLoopAsRange recognises `for i := 0; i < len(X); i++ { body }` (X a pure access path, i not assigned in body) and returns
// the equivalent range statement; `X[i]` in the body stands for the loop's element (named as Spec.RangeCond["elem:X"] says, else "elem").
func (t *tr) indexLoopAsRange(f *ast.ForStmt) (*ast.RangeStmt, bool) {
	init, ok := f.Init.(*ast.AssignStmt)
	if !ok || init.Tok != token.DEFINE || len(init.Lhs) < 1 || len(init.Lhs) > 2 || len(init.Rhs) != len(init.Lhs) || src(init.Rhs[0]) != "0" {
		return nil, false
	}
	iv, ok := init.Lhs[0].(*ast.Ident)
	if !ok {
		return nil, false
	}
	cond, ok := f.Cond.(*ast.BinaryExpr)
	if !ok || cond.Op != token.LSS || src(cond.X) != iv.Name {
		return nil, false
	}
	lc, ok := cond.Y.(*ast.CallExpr)
	if !ok || src(lc.Fun) != "len" || len(lc.Args) != 1 || !pureAccess(lc.Args[0]) {
		return nil, false
	}
	// a second induction variable `w := e0` stepped together with the index (`i, w = i+1, w+1`) stands for `e0 + i`
	var second *ast.Ident
	if len(init.Lhs) == 2 {
		second, ok = init.Lhs[1].(*ast.Ident)
		if !ok || !pureAccess(init.Rhs[1]) {
			return nil, false
		}
		post, ok := f.Post.(*ast.AssignStmt)
		if !ok || post.Tok != token.ASSIGN || len(post.Lhs) != 2 || len(post.Rhs) != 2 ||
			src(post.Lhs[0]) != iv.Name || src(post.Lhs[1]) != second.Name ||
			norm(src(post.Rhs[0])) != iv.Name+"+1" || norm(src(post.Rhs[1])) != second.Name+"+1" {
			return nil, false
		}
	} else {
		post, ok := f.Post.(*ast.IncDecStmt)
		if !ok || post.Tok != token.INC || src(post.X) != iv.Name {
			return nil, false
		}
	}
	X := lc.Args[0]
	canon := "elem"
	if c, ok := lookup(t.sp.RangeCond, "elem:"+src(t.subst(X))); ok {
		canon = c
	}
	t.alias("idx:"+norm(src(X))+"["+iv.Name+"]", ast.NewIdent(canon))
	if second != nil {
		t.alias(second.Name, &ast.BinaryExpr{X: t.subst(init.Rhs[1]), Op: token.ADD, Y: ast.NewIdent(iv.Name)})
	}
	return &ast.RangeStmt{Key: iv, Value: ast.NewIdent(canon), Tok: token.DEFINE, X: X, Body: f.Body}, true
}

// sameModuloConversions: two condition texts are equal once integer conversions (`int64(i)` vs `i`) are dropped — which integer type
// a counter is carried in does not change which element a test is about (overflow of an index is out of the picture).
func sameModuloConversions(a, b string) bool {
	strip := func(s string) string {
		s = norm(s)
		for _, c := range []string{"int64(", "uint64(", "int("} {
			for {
				i := strings.Index(s, c)
				if i < 0 {
					break
				}
				// drop `conv(` and its matching `)`
				depth, j := 0, i+len(c)
				for ; j < len(s); j++ {
					if s[j] == '(' {
						depth++
					} else if s[j] == ')' {
						if depth == 0 {
							break
						}
						depth--
					}
				}
				if j >= len(s) {
					break
				}
				s = s[:i] + s[i+len(c):j] + s[j+1:]
			}
		}
		return s
	}
	return strip(a) == strip(b)
}

// stmtEffect: the "leanVar := term" binding Spec.AppendEffect attaches to this assignment — either `x = append(x, v)` keyed
// by the (canonical) appended identifier v, or any assignment keyed by "stmt:" + its normalised source (`stmt:sth.LogID=idHash`).
func (t *tr) stmtEffect(x *ast.AssignStmt) (string, bool) {
	if len(t.sp.AppendEffect) == 0 {
		return "", false
	}
	if eff, ok := t.sp.AppendEffect["stmt:"+norm(src(x))]; ok {
		return eff, true
	}
	if len(x.Lhs) == 1 && len(x.Rhs) == 1 && len(t.aliases) > 0 {
		if eff, ok := t.sp.AppendEffect["stmt:"+norm(src(t.subst(x.Lhs[0])))+"="+norm(src(t.subst(x.Rhs[0])))]; ok {
			return eff, true
		}
	}
	if len(x.Lhs) == 1 && len(x.Rhs) == 1 && len(t.aliases) > 0 {
		// the same assignment written through a hoisted pure read (`entry := leaf.TimestampedEntry; entry.EntryType = …`)
		if eff, ok := t.sp.AppendEffect["stmt:"+norm(src(t.subst(x.Lhs[0])))+"="+norm(src(t.subst(x.Rhs[0])))]; ok {
			return eff, true
		}
	}
	if len(x.Rhs) != 1 {
		return "", false
	}
	c, ok := x.Rhs[0].(*ast.CallExpr)
	if !ok || src(c.Fun) != "append" || len(c.Args) < 2 {
		return "", false
	}
	eff, ok := t.sp.AppendEffect[norm(src(t.subst(c.Args[len(c.Args)-1])))]
	return eff, ok
}

// appendEffectVar: the Lean variable an assignment sets through Spec.AppendEffect, or "".
func (t *tr) appendEffectVar(x *ast.AssignStmt) string {
	eff, ok := t.stmtEffect(x)
	if !ok {
		return ""
	}
	return strings.TrimSpace(strings.SplitN(eff, ":=", 2)[0])
}

// initKey renders an if-init statement with aliases substituted on its right-hand sides.
func (t *tr) initKey(st ast.Stmt) string {
	as, ok := st.(*ast.AssignStmt)
	if !ok || len(t.aliases) == 0 {
		return src(st)
	}
	cp := *as
	cp.Rhs = make([]ast.Expr, len(as.Rhs))
	for i, r := range as.Rhs {
		cp.Rhs[i] = t.subst(r)
	}
	return src(&cp)
}

// aliasIfInit: `if x := a.b; cond(x)` — x stands for a.b in cond (Canon units only).
func (t *tr) aliasIfInit(i *ast.IfStmt) {
	if !t.sp.Canon || i.Init == nil {
		return
	}
	if as, ok := i.Init.(*ast.AssignStmt); ok && as.Tok == token.DEFINE && len(as.Lhs) == len(as.Rhs) {
		for k := range as.Lhs {
			if id, ok := as.Lhs[k].(*ast.Ident); ok && id.Name != "_" && pureAccess(as.Rhs[k]) {
				t.alias(id.Name, t.subst(as.Rhs[k]))
			}
		}
	}
}

// inlinedErr: inlineErr as a string ("" when it does not apply).
func (t *tr) inlinedErr(e ast.Expr) string {
	if b, ok := t.inlineErr(e); ok {
		return b
	}
	return ""
}

// initCondByCall: `if err := x.M(…); err != nil` where Spec.InitCondByCall names the method M (whatever x is called).
func (t *tr) initCondByCall(x *ast.IfStmt) (string, bool) {
	as, ok := x.Init.(*ast.AssignStmt)
	if !ok || len(as.Rhs) != 1 || len(t.sp.InitCondByCall) == 0 || src(as.Lhs[len(as.Lhs)-1]) != "err" {
		return "", false
	}
	c, ok := as.Rhs[0].(*ast.CallExpr)
	if !ok {
		return "", false
	}
	name := src(c.Fun)
	if sel, ok := c.Fun.(*ast.SelectorExpr); ok {
		name = "." + sel.Sel.Name
	}
	for k, v := range t.sp.InitCondByCall {
		if strings.HasSuffix(name, k) {
			switch norm(src(x.Cond)) {
			case "err!=nil":
				return v, true
			case "err==nil":
				return "(!" + v + ")", true
			}
		}
	}
	return "", false
}

func (t *tr) isHelperCall(e ast.Expr) bool {
	c, ok := e.(*ast.CallExpr)
	if !ok {
		return false
	}
	fd, _ := t.resolveHelper(c)
	return fd != nil && fd.Body != nil
}

func (t *tr) knownErrCall(e ast.Expr) bool {
	_, ok := prefixLookup(t.sp.ErrCalls, callKey(t.subst(e)))
	return ok
}

// errCallName: the Lean Bool of an ErrCalls call (without its effect), or "".
func (t *tr) errCallName(e ast.Expr) string {
	name, ok := prefixLookup(t.sp.ErrCalls, callKey(e))
	if !ok {
		return ""
	}
	if i := strings.Index(name, "|"); i >= 0 {
		if strings.Contains(name[i+1:], ":=") {
			return "" // calls with an effect are not folded into a condition
		}
	}
	return name
}

// block translates statements; tail is the Lean term for falling off the end.
func (t *tr) block(b []ast.Stmt, tail string, ind string) string {
	if len(b) == 0 {
		return tail
	}
	s, rest := b[0], b[1:]
	switch x := s.(type) {
	case *ast.ExprStmt:
		x = &ast.ExprStmt{X: t.subst(x.X)}
		if eff, ok := prefixLookup(t.sp.Effects, callName(x.X)); ok {
			eff = t.effectWithArgs(eff, x.X.(*ast.CallExpr))
			return "let " + eff + "\n" + ind + t.block(rest, tail, ind)
		}
		if t.ignoredCall(x.X) {
			return t.block(rest, tail, ind)
		}
		if c, ok := x.X.(*ast.CallExpr); ok && t.sp.Inline && t.depth <= 3 {
			// a call to a same-file helper without results and without return statements: its statements, in place
			if fd, recv := t.resolveHelper(c); fd != nil && fd.Body != nil && fd.Type.Results == nil && !hasReturn(fd.Body.List) {
				if t2, ok := t.bindHelper(fd, recv, c, t.sp); ok {
					saved := t.aliases
					t.aliases = t2.aliases
					t.depth++
					spliced := t.block(fd.Body.List, "\x00", ind)
					t.depth--
					t.aliases = saved
					if strings.HasSuffix(spliced, "\x00") {
						return strings.TrimSuffix(spliced, "\x00") + t.block(rest, tail, ind)
					}
				}
			}
		}
		failf(s, "unsupported expression statement %s", src(s))
	case *ast.ForStmt:
		// `for i := 0; i < len(X); i++ { … X[i] … }` is `for i, e := range X { … e … }`
		if r, ok := t.indexLoopAsRange(x); ok {
			return t.block(append([]ast.Stmt{r}, rest...), tail, ind)
		}
		// a counting loop whose body only accumulates into variables the unit ignores (Spec.IgnoreLHS), e.g. the big-endian
		// accumulation `result = result<<8 | uint64(data[i])`: it decides nothing, so it is dropped
		pure := len(x.Body.List) > 0
		for _, bs := range x.Body.List {
			as, ok := bs.(*ast.AssignStmt)
			if !ok || len(as.Lhs) != 1 {
				pure = false
				break
			}
			ign := false
			for _, ig := range t.sp.IgnoreLHS {
				if src(as.Lhs[0]) == ig {
					ign = true
				}
			}
			if !ign {
				pure = false
			}
		}
		if pure {
			return t.block(rest, tail, ind)
		}
		if len(t.sp.LoopAnyReturn) > 0 {
			c, ok := "", false
			if x.Cond != nil {
				c, ok = lookup(t.sp.LoopAnyReturn, src(t.subst(x.Cond)))
			}
			if !ok {
				c, ok = t.sp.LoopAnyReturn["*"]
			}
			if ok {
				var rets []*ast.ReturnStmt
				ast.Inspect(x.Body, func(n ast.Node) bool {
					if _, isLit := n.(*ast.FuncLit); isLit {
						return false
					}
					if r, isRet := n.(*ast.ReturnStmt); isRet {
						rets = append(rets, r)
					}
					return true
				})
				if len(rets) == 0 || containsBranch(x.Body.List) {
					failf(s, "for loop: expected returns and no break/continue in the body")
				}
				// a return inside the loop that hands on `err` is an error return (it sits behind the loop's own `if err != nil`)
				st := t.save()
				t.pendingErr, t.errKnown = "", 1
				first := ""
				for i, r := range rets {
					if n := len(r.Results); n == 0 || src(r.Results[n-1]) == "nil" {
						failf(r, "for loop: a return that is not an error return")
					}
					v := t.ret(r)
					if i == 0 {
						first = v
					} else if strings.Join(strings.Fields(v), " ") != strings.Join(strings.Fields(first), " ") {
						failf(r, "for loop: the returns of the body differ (%s / %s)", first, v)
					}
				}
				t.restore(st)
				return "if " + c + " then\n" + ind + "  " + first + "\n" + ind + "else\n" + ind + t.block(rest, tail, ind)
			}
		}
		failf(s, "unsupported statement %T: %s", s, src(s))
	case *ast.RangeStmt:
		// a search loop that records its hit in a flag, leaves with `break`, and is followed by `if <flag set> { return … }`
		// is the loop `for … { if cond { return … } }`
		if y, rest2, ok := t.flagLoopAsReturnLoop(x, rest); ok {
			return t.block(append([]ast.Stmt{y}, rest2...), tail, ind)
		}
		if canon, ok := lookup(t.sp.RangeCond, "elem:"+src(t.subst(x.X))); ok {
			if id, isId := x.Value.(*ast.Ident); isId && id.Name != canon && id.Name != "_" {
				t.alias(id.Name, ast.NewIdent(canon))
			}
		}
		if !hasReturn(x.Body.List) {
			vs0 := map[string]bool{}
			t.assigned(x.Body.List, vs0)
			if len(vs0) == 0 {
				return t.block(rest, tail, ind)
			}
		}
		rx := src(t.subst(x.X))
		if c2, ok2 := lookup(t.sp.RangeAnyReturn, rx); ok2 {
			var rets []*ast.ReturnStmt
			ast.Inspect(x.Body, func(n ast.Node) bool {
				if _, isLit := n.(*ast.FuncLit); isLit {
					return false
				}
				if r, isRet := n.(*ast.ReturnStmt); isRet {
					rets = append(rets, r)
				}
				return true
			})
			if len(rets) != 1 || containsBranch(x.Body.List) {
				failf(s, "range loop over %s: expected exactly one return and no break/continue in the body", src(x.X))
			}
			return "if " + c2 + " then\n" + ind + "  " + t.ret(rets[0]) + "\n" + ind + "else\n" + ind + t.block(rest, tail, ind)
		}
		c, ok := lookup(t.sp.RangeCond, rx)
		if !ok {
			failf(s, "unsupported range loop over %s", src(x.X))
		}
		if len(x.Body.List) != 1 {
			failf(s, "range loop over %s: body is not a single if-return", src(x.X))
		}
		is, ok := x.Body.List[0].(*ast.IfStmt)
		if !ok || is.Else != nil || len(is.Body.List) != 1 {
			failf(s, "range loop over %s: body is not a single if-return", src(x.X))
		}
		r, ok := is.Body.List[0].(*ast.ReturnStmt)
		if !ok {
			failf(s, "range loop over %s: body is not a single if-return", src(x.X))
		}
		key := src(t.subst(is.Cond))
		if is.Init != nil {
			key = t.initKey(is.Init) + " ; " + key
		}
		if want, ok := lookup(t.sp.RangeCond, "cond:"+rx); !ok || (norm(want) != norm(key) && !sameModuloConversions(want, key)) {
			failf(s, "range loop over %s: loop test is `%s`, expected `%s`", src(x.X), key, want)
		}
		return "if " + c + " then\n" + ind + "  " + t.ret(r) + "\n" + ind + "else\n" + ind + t.block(rest, tail, ind)
	case *ast.GoStmt:
		// a detached call: an effect named by Spec.AppendEffect["stmt:go"] (e.g. "filled_ := true"), or ignored like a logging call
		if eff, ok := t.sp.AppendEffect["stmt:go"]; ok {
			return "let " + eff + "\n" + ind + t.block(rest, tail, ind)
		}
		if t.ignoredCall(x.Call) {
			return t.block(rest, tail, ind)
		}
		failf(s, "unsupported go statement %s", src(s))
	case *ast.DeferStmt:
		if t.ignoredCall(x.Call) {
			return t.block(rest, tail, ind)
		}
		failf(s, "unsupported defer %s", src(s))
	case *ast.ReturnStmt:
		if len(x.Results) == 1 && t.sp.Inline && t.depth <= 3 {
			if c, ok := x.Results[0].(*ast.CallExpr); ok {
				if _, known := prefixLookup(t.sp.ErrCalls, callKey(t.subst(c))); !known {
					if hfd, _ := t.resolveHelper(c); hfd != nil && hfd.Body != nil && hfd.Type.Results != nil && hfd.Type.Results.NumFields() >= 2 {
						// `return helper(…)` handing on several results: as `r0, r1 := helper(…); return r0, r1`
						var lhs, res []ast.Expr
						for i := 0; i < hfd.Type.Results.NumFields(); i++ {
							nm := fmt.Sprintf("ret%d_", i)
							if i == hfd.Type.Results.NumFields()-1 {
								nm = "err"
							}
							lhs = append(lhs, ast.NewIdent(nm))
							res = append(res, ast.NewIdent(nm))
						}
						as := &ast.AssignStmt{Lhs: lhs, Tok: token.DEFINE, Rhs: []ast.Expr{c}}
						if out, ok := t.inlineMulti(as, []ast.Stmt{&ast.ReturnStmt{Results: res}}, tail, ind); ok {
							return out
						}
					}
				}
			}
		}
		return t.ret(x)
	case *ast.BranchStmt:
		if x.Tok == token.CONTINUE && x.Label == nil && t.sp.ContinueVal != "" {
			return t.sp.ContinueVal
		}
		failf(s, "unsupported branch statement %s", src(s))
	case *ast.DeclStmt:
		gd, ok := x.Decl.(*ast.GenDecl)
		if ok && gd.Tok == token.CONST {
			// a local constant stands for its value
			for _, sp := range gd.Specs {
				vs := sp.(*ast.ValueSpec)
				if len(vs.Values) != len(vs.Names) {
					failf(s, "unsupported constant declaration")
				}
				for i, n := range vs.Names {
					t.alias(n.Name, t.subst(vs.Values[i]))
				}
			}
			return t.block(rest, tail, ind)
		}
		if !ok || gd.Tok != token.VAR {
			failf(s, "unsupported declaration")
		}
		out := ""
		for _, sp := range gd.Specs {
			vs := sp.(*ast.ValueSpec)
			for i, n := range vs.Names {
				ignored := false
				for _, ig := range t.sp.IgnoreLHS {
					if n.Name == ig {
						ignored = true
					}
				}
				if ignored {
					continue
				}
				val := "(0 : Int)"
				if i < len(vs.Values) {
					val = t.expr(vs.Values[i])
				} else if r, ok := t.sp.Repl["zero:"+src(vs.Type)]; ok {
					val = r
				}
				out += "let " + leanIdent(n.Name) + " := " + val + "\n" + ind
			}
		}
		return out + t.block(rest, tail, ind)
	case *ast.IncDecStmt:
		v := t.lvalue(x.X)
		op := ".add "
		if x.Tok == token.DEC {
			op = ".sub "
		}
		return "let " + v + " := (" + t.ops() + op + t.expr(x.X) + " (1 : Int))\n" + ind + t.block(rest, tail, ind)
	case *ast.AssignStmt:
		if x.Tok == token.DEFINE && len(x.Lhs) == 1 && len(x.Rhs) == 1 {
			if id, ok := x.Lhs[0].(*ast.Ident); ok {
				if v := norm(src(x.Rhs[0])); v == "-1" || v == "false" {
					if t.flags == nil {
						t.flags = map[string]string{}
					}
					t.flags[id.Name] = v
				}
			}
		}
		if t.sp.ErrFlow {
			for _, l := range x.Lhs {
				if id, ok := l.(*ast.Ident); ok && id.Name == "err" {
					t.errKnown = 0 // whatever was known about err is about its previous value
				}
			}
		}
		if len(t.sp.UseEffect) > 0 {
			if t.skipUse == s {
				t.skipUse = nil
			} else {
				pre := ""
				for _, r := range x.Rhs {
					ast.Inspect(r, func(n ast.Node) bool {
						if c, ok := n.(*ast.CallExpr); ok {
							if eff, ok := t.sp.UseEffect[callName(c)]; ok {
								pre += "let " + t.effectArgs(eff, c) + "\n" + ind
							}
						}
						return true
					})
				}
				if pre != "" {
					t.skipUse = s
					return pre + t.block(b, tail, ind)
				}
			}
		}
		if eff, ok := t.stmtEffect(x); ok {
			return "let " + eff + "\n" + ind + t.block(rest, tail, ind)
		}
		if len(x.Rhs) == 1 && src(x.Lhs[len(x.Lhs)-1]) == "err" {
			if _, known := prefixLookup(t.sp.ErrCalls, callKey(t.subst(x.Rhs[0]))); !known {
				st0 := t.save()
				// results of the helper other than its error that the rest of the function mentions: then only an inlining that
				// keeps them (inlineMulti) will do
				var others []string
				for _, l := range x.Lhs[:len(x.Lhs)-1] {
					if id, isId := l.(*ast.Ident); isId && id.Name != "_" {
						others = append(others, id.Name)
					}
				}
				if mentions(rest, others) {
					if out, ok := t.inlineMulti(x, rest, tail, ind); ok {
						return out
					}
					t.restore(st0)
				}
				if b, ok := t.inlineErr(x.Rhs[0]); ok {
					t.pendingErr = b
					if t.opaque == nil {
						t.opaque = map[string]bool{}
					}
					for _, l := range x.Lhs[:len(x.Lhs)-1] {
						if id, isId := l.(*ast.Ident); isId && id.Name != "_" {
							t.opaque[id.Name] = true
						}
					}
					// the helper's other results are opaque from here on; if the rest of the function needs them, inline the
					// helper with its returns continuing into the rest instead
					out, done, why := "", false, interface{}(nil)
					func() {
						defer func() {
							if r := recover(); r != nil {
								if _, isBail := r.(bail); !isBail {
									panic(r)
								}
								why = r
							}
						}()
						out = t.block(rest, tail, ind)
						done = true
					}()
					if done {
						return out
					}
					t.restore(st0)
					if out, ok := t.inlineMulti(x, rest, tail, ind); ok {
						return out
					}
					panic(why)
				}
			}
		}
		if len(x.Rhs) == 1 {
			if eff, ok := prefixLookup(t.sp.Effects, callName(t.subst(x.Rhs[0]))); ok {
				eff = t.effectWithArgs(eff, t.subst(x.Rhs[0]).(*ast.CallExpr))
				if t.opaque == nil {
					t.opaque = map[string]bool{}
				}
				for _, l := range x.Lhs {
					if id, isId := l.(*ast.Ident); isId && id.Name != "_" {
						t.opaque[id.Name] = true
					}
				}
				return "let " + eff + "\n" + ind + t.block(rest, tail, ind)
			}
		}
		if len(x.Rhs) == 1 {
			if name, ok := prefixLookup(t.sp.ErrCalls, callKey(t.subst(x.Rhs[0]))); ok {
				if src(x.Lhs[len(x.Lhs)-1]) != "err" {
					failf(s, "ErrCalls call %s does not assign err last", src(s))
				}
				if canon, ok := prefixLookup(t.sp.Bind, callName(x.Rhs[0])); ok && len(x.Lhs) >= 2 {
					if id, isId := x.Lhs[0].(*ast.Ident); isId && id.Name != canon && id.Name != "_" {
						if t.aliases == nil {
							t.aliases = map[string]ast.Expr{}
						}
						t.aliases[id.Name] = ast.NewIdent(canon)
					}
				}
				pre := ""
				if i := strings.Index(name, "|"); i >= 0 {
					eff := name[i+1:]
					if c, isCall := x.Rhs[0].(*ast.CallExpr); isCall && strings.Contains(eff, "$") {
						eff = t.effectArgs(eff, c)
					}
					pre = "let " + eff + "\n" + ind
					name = name[:i]
				}
				t.pendingErr, t.errKnown = name, 0
				// `err` now is this call's error: whatever an inlined helper's return made it stand for (e.g. `nil`) is gone
				if t.aliases != nil {
					delete(t.aliases, "err")
				}
				return pre + t.block(rest, tail, ind)
			}
		}
		if len(x.Rhs) == 1 && t.isInputCall(x.Rhs[0]) {
			// the variable is an input of the kernel; drop a following `if err != nil { return ... }`
			if len(rest) > 0 {
				if is, ok := rest[0].(*ast.IfStmt); ok && src(is.Cond) == "err != nil" {
					rest = rest[1:]
				}
			}
			return t.block(rest, tail, ind)
		}
		if x.Tok == token.DEFINE && len(x.Lhs) == 1 && len(x.Rhs) == 1 && t.sp.Inline {
			if lit, ok := x.Rhs[0].(*ast.FuncLit); ok {
				if id, ok := x.Lhs[0].(*ast.Ident); ok {
					if t.closures == nil {
						t.closures = map[string]*ast.FuncLit{}
					}
					t.closures[id.Name] = lit
					return t.block(rest, tail, ind)
				}
			}
		}
		if x.Tok == token.DEFINE && len(x.Lhs) == len(x.Rhs) {
			// hoisted reads (`leaf, proof := rsp.Leaf, rsp.Proof`): a local defined by a pure access path that is not itself
			// translatable stands for that path
			allAliased := true
			for i := range x.Lhs {
				id, isId := x.Lhs[i].(*ast.Ident)
				if !isId || !t.pureish(x.Rhs[i]) || t.inIgnoreLHS(id.Name) {
					allAliased = false
					break
				}
				if _, ok := t.tryExpr(x.Rhs[i]); ok {
					allAliased = false
					break
				}
				_ = id
			}
			if allAliased {
				if t.aliases == nil {
					t.aliases = map[string]ast.Expr{}
				}
				for i := range x.Lhs {
					t.aliases[x.Lhs[i].(*ast.Ident).Name] = t.subst(x.Rhs[i])
				}
				return t.block(rest, tail, ind)
			}
		}
		if out, ok := t.inlineMulti(x, rest, tail, ind); ok {
			return out
		}
		if len(x.Lhs) >= 1 {
			all := true
			for _, l := range x.Lhs {
				hit := false
				for _, ig := range t.sp.IgnoreLHS {
					if src(l) == ig || (len(t.aliases) > 0 && norm(src(t.subst(l))) == norm(ig)) { // also when written through a hoisted pure read
						hit = true
					}
				}
				if !hit && t.droppedThrough(l) {
					hit = true
				}
				all = all && hit
			}
			if all {
				return t.block(rest, tail, ind)
			}
		}
		if x.Tok == token.DEFINE || x.Tok == token.ASSIGN {
			// a local whose defining expression is outside the translatable subset (labels, request structs, helper results):
			// dropped, and any later use of it in something that IS translated fails the unit
			idents := true
			for _, l := range x.Lhs {
				if _, ok := l.(*ast.Ident); !ok {
					idents = false
				}
			}
			translatable := len(x.Lhs) == len(x.Rhs)
			if translatable {
				for _, r := range x.Rhs {
					if _, ok := t.tryExpr(r); !ok {
						translatable = false
					}
				}
			}
			if idents && !translatable && t.sp.Lazy {
				if t.opaque == nil {
					t.opaque = map[string]bool{}
				}
				for _, l := range x.Lhs {
					if n := l.(*ast.Ident).Name; n != "_" && n != "err" {
						t.opaque[n] = true
					}
				}
				return t.block(rest, tail, ind)
			}
		}
		if len(x.Lhs) != len(x.Rhs) {
			failf(s, "unsupported multi-value assignment %s", src(s))
		}
		if len(x.Lhs) == 1 && (x.Tok == token.ADD_ASSIGN || x.Tok == token.SUB_ASSIGN || x.Tok == token.MUL_ASSIGN) {
			// x op= e  is  x = x op e
			op := map[token.Token]token.Token{token.ADD_ASSIGN: token.ADD, token.SUB_ASSIGN: token.SUB, token.MUL_ASSIGN: token.MUL}[x.Tok]
			rhs := &ast.BinaryExpr{X: x.Lhs[0], Op: op, Y: x.Rhs[0]}
			return "let " + t.lvalue(x.Lhs[0]) + " := " + t.expr(rhs) + "\n" + ind + t.block(rest, tail, ind)
		}
		if x.Tok != token.DEFINE && x.Tok != token.ASSIGN {
			failf(s, "unsupported assignment operator in %s", src(s))
		}
		out := ""
		if len(x.Lhs) == 1 {
			out = "let " + t.lvalue(x.Lhs[0]) + " := " + t.expr(x.Rhs[0]) + "\n" + ind
		} else {
			var ls, rs []string
			for i := range x.Lhs {
				ls = append(ls, t.lvalue(x.Lhs[i]))
				rs = append(rs, t.expr(x.Rhs[i]))
			}
			out = "let (" + strings.Join(ls, ", ") + ") := (" + strings.Join(rs, ", ") + ")\n" + ind
		}
		return out + t.block(rest, tail, ind)
	case *ast.IfStmt:
		els := elseList(x.Else)
		// dup: translate in the continuation-duplicating form. Needed when a branch returns, and also when a branch assigns `err`
		// from an ErrCalls call (`if p { x, err = f(…) } else { x, err = g(…) }; if err != nil {…}`): which call's error (and effect)
		// the following test sees depends on the branch, so each branch carries its own copy of what follows
		dup := hasReturn(x.Body.List) || hasReturn(els) || t.assignsErrCall(x.Body.List) || t.assignsErrCall(els)
		if !dup && x.Init == nil {
			vs0 := map[string]bool{}
			t.assigned(x.Body.List, vs0)
			t.assigned(els, vs0)
			if len(vs0) == 0 {
				// no return and no tracked assignment inside: no effect on the kernel's result
				return t.block(rest, tail, ind)
			}
		}
		var c string
		condFail := false
		if x.Init != nil {
			if as, ok := x.Init.(*ast.AssignStmt); ok && len(t.aliases) > 0 {
				// names the init statement assigns no longer stand for what an inlined helper's return set them to
				for _, l := range as.Lhs {
					if id, ok := l.(*ast.Ident); ok {
						delete(t.aliases, id.Name)
					}
				}
			}
			if r, ok := lookup(t.sp.InitCond, src(x.Init)+" ; "+src(t.subst(x.Cond))); ok {
				c = r
			} else if r, ok := lookup(t.sp.InitCond, t.initKey(x.Init)+" ; "+src(t.subst(x.Cond))); ok {
				c = r
			} else if as0, ok0 := x.Init.(*ast.AssignStmt); ok0 && len(as0.Rhs) == 1 && src(x.Cond) == "err != nil" && src(as0.Lhs[len(as0.Lhs)-1]) == "err" && t.errCallName(as0.Rhs[0]) != "" {
				c = t.errCallName(as0.Rhs[0])
			} else if r, ok := t.initCondByCall(x); ok {
				c = r
			} else if as1, ok1 := x.Init.(*ast.AssignStmt); ok1 && len(as1.Rhs) == 1 && src(x.Cond) == "err != nil" && src(as1.Lhs[len(as1.Lhs)-1]) == "err" && t.inlinedErr(as1.Rhs[0]) != "" {
				c = t.inlinedErr(as1.Rhs[0])
			} else if as3, ok3 := x.Init.(*ast.AssignStmt); ok3 && len(as3.Rhs) == 1 && t.sp.Inline && t.sp.Lazy && t.isHelperCall(as3.Rhs[0]) && t.inlinedErr(as3.Rhs[0]) == "" {
				// a same-file helper that cannot be summarised as "did it fail" (it sets state, or its results are needed): run it as a
				// statement, where it is inlined with its returns continuing into the test
				y := *x
				y.Init = nil
				return t.block(append([]ast.Stmt{x.Init, &y}, rest...), tail, ind)
			} else if as2, ok2 := x.Init.(*ast.AssignStmt); ok2 && len(as2.Rhs) == 1 && t.knownErrCall(as2.Rhs[0]) {
				// an ErrCalls call with an effect: run it as a statement (effect first), then `if err != nil`
				y := *x
				y.Init = nil
				return t.block(append([]ast.Stmt{x.Init, &y}, rest...), tail, ind)
			} else if as, ok := x.Init.(*ast.AssignStmt); ok && as.Tok == token.DEFINE && len(as.Lhs) == 1 && len(as.Rhs) == 1 {
				// `if v := e; cond`: bind v, then the ordinary translation
				if id, isId := as.Lhs[0].(*ast.Ident); isId && t.sp.Canon && id.Name != "_" && pureAccess(as.Rhs[0]) {
					if _, fine := t.tryExpr(as.Rhs[0]); !fine {
						// e is a plain access path that has no value in the unit's vocabulary (only tests on it have, e.g. `cfg.X != nil`):
						// v stands for e in the condition and the branches (v is out of scope after the statement)
						t.alias(id.Name, t.subst(as.Rhs[0]))
						y := *x
						y.Init = nil
						return t.block(append([]ast.Stmt{&y}, rest...), tail, ind)
					}
				}
				pre := "let " + t.lvalue(as.Lhs[0]) + " := " + t.expr(as.Rhs[0]) + "\n" + ind
				y := *x
				y.Init = nil
				return pre + t.block(append([]ast.Stmt{&y}, rest...), tail, ind)
			} else if t.sp.Lazy {
				// any other init statement: run it as a statement, then the `if` without it (its names stay visible afterwards,
				// which is harmless as long as they are not reused with another meaning — a later translated use would differ
				// and break the equality with the Spec copy, never pass silently)
				y := *x
				y.Init = nil
				return t.block(append([]ast.Stmt{x.Init, &y}, rest...), tail, ind)
			} else {
				failf(s, "if with init statement unsupported: %s ; %s", src(x.Init), src(x.Cond))
			}
		} else if src(x.Cond) == "err != nil" && t.pendingErr != "" {
			c = t.pendingErr
			t.pendingErr = ""
		} else if norm(src(x.Cond)) == "err==nil" && t.pendingErr != "" {
			c = "(!" + t.pendingErr + ")"
			t.pendingErr = ""
		} else if kc := t.nilCompare(t.subst(x.Cond)); kc != "" {
			c = kc
		} else if dup {
			// a test on data whose two outcomes turn out to continue identically need not be translatable (see below)
			var ok bool
			if c, ok = t.tryExpr(x.Cond); !ok {
				condFail = true
			}
		} else {
			c = t.expr(x.Cond)
		}
		if dup {
			// continuation-duplicating form
			// a test already decided on this path (an inlined helper's return fixed what is compared): only the live branch exists
			if c == "true" {
				return t.block(append(append([]ast.Stmt{}, x.Body.List...), rest...), tail, ind)
			}
			if c == "false" {
				return t.block(append(append([]ast.Stmt{}, els...), rest...), tail, ind)
			}
			st := t.save()
			errTest := 0 // 1: the condition is `err != nil`, 2: `err == nil`
			initErr := false // (Spec.ErrFlow) the test is about an `err` the init statement defines: it shadows the outer one inside the `if` only
			if as, ok := x.Init.(*ast.AssignStmt); ok && t.sp.ErrFlow && as.Tok == token.DEFINE {
				for _, l := range as.Lhs {
					if id, ok := l.(*ast.Ident); ok && id.Name == "err" {
						initErr = true
					}
				}
			}
			if x.Init == nil || initErr {
				switch norm(src(x.Cond)) {
				case "err!=nil":
					errTest = 1
				case "err==nil":
					errTest = 2
				}
			}
			if errTest != 0 {
				t.errKnown = errTest
			}
			if initErr {
				if n := len(x.Body.List); n == 0 {
					t.errKnown = 0
				} else if _, isRet := x.Body.List[n-1].(*ast.ReturnStmt); !isRet {
					t.errKnown = 0 // the branch runs on into statements where `err` is the outer one again
				}
			}
			thenPart := t.block(append(append([]ast.Stmt{}, x.Body.List...), rest...), tail, ind+"  ")
			t.restore(st)
			if initErr {
				if len(els) > 0 {
					t.errKnown = 0
				}
			} else if errTest != 0 {
				t.errKnown = 3 - errTest
			}
			elsePart := t.block(append(append([]ast.Stmt{}, els...), rest...), tail, ind)
			if strings.Join(strings.Fields(thenPart), " ") == strings.Join(strings.Fields(elsePart), " ") {
				// both outcomes of the test behave identically as far as the unit observes: the test itself is immaterial
				return elsePart
			}
			if condFail {
				t.restore(st)
				c = t.expr(x.Cond) // fails with the position of the untranslatable part
			}
			return "if " + c + " then\n" + ind + "  " + thenPart + "\n" + ind + "else\n" + ind + elsePart
		}
		vs := map[string]bool{}
		t.assigned(x.Body.List, vs)
		t.assigned(els, vs)
		var names []string
		for v := range vs {
			names = append(names, v)
		}
		sort.Strings(names)
		if len(names) == 0 {
			return t.block(rest, tail, ind)
		}
		tup := "(" + strings.Join(names, ", ") + ")"
		if len(names) == 1 {
			tup = names[0]
		}
		return "let " + tup + " := if " + c + " then\n" + ind + "    " + t.block(x.Body.List, tup, ind+"    ") +
			"\n" + ind + "  else\n" + ind + "    " + t.block(els, tup, ind+"    ") + "\n" + ind + t.block(rest, tail, ind)
	case *ast.BlockStmt:
		return t.block(append(append([]ast.Stmt{}, x.List...), rest...), tail, ind)
	case *ast.SwitchStmt:
		// `switch [tag] { case …: … default: … }` (no init): an if-chain in source order. Go evaluates the cases top to bottom
		// and runs the first that matches (default when none does, wherever it stands); `fallthrough` continues with the next
		// clause's body.
		if x.Init != nil {
			// `switch init; tag { … }`: the init statement, then the switch (its names stay visible afterwards, as for `if init; c`)
			y := *x
			y.Init = nil
			return t.block(append([]ast.Stmt{x.Init, &y}, rest...), tail, ind)
		}
		n := len(x.Body.List)
		eff := make([][]ast.Stmt, n)
		for i := n - 1; i >= 0; i-- {
			cc := x.Body.List[i].(*ast.CaseClause)
			body := cc.Body
			falls := false
			if len(body) > 0 {
				if br, ok := body[len(body)-1].(*ast.BranchStmt); ok && br.Tok == token.FALLTHROUGH {
					falls, body = true, body[:len(body)-1]
				}
			}
			for _, bs := range body {
				if br, ok := bs.(*ast.BranchStmt); ok && br.Tok != token.CONTINUE {
					failf(br, "branch statement %s inside switch unsupported", src(br))
				}
			}
			eff[i] = append([]ast.Stmt{}, body...)
			if falls {
				if i+1 >= n {
					failf(cc, "fallthrough in the last clause")
				}
				eff[i] = append(eff[i], eff[i+1]...)
			}
		}
		tag := ""
		if x.Tag != nil {
			tag = t.expr(x.Tag)
		}
		// a clause whose whole body is `fallthrough` only adds its values to the next clause (`case a: fallthrough; case b: …`
		// is `case a, b: …` as long as no clause in between could match first — they are adjacent, so none is in between)
		extra := map[int][]ast.Expr{}
		skip := map[int]bool{}
		for i := 0; i+1 < n; i++ {
			cc := x.Body.List[i].(*ast.CaseClause)
			nx := x.Body.List[i+1].(*ast.CaseClause)
			if cc.List != nil && nx.List != nil && len(cc.Body) == 1 {
				if br, ok := cc.Body[0].(*ast.BranchStmt); ok && br.Tok == token.FALLTHROUGH {
					extra[i+1] = append(append(extra[i+1], extra[i]...), cc.List...)
					skip[i] = true
				}
			}
		}
		defIdx := -1
		out := ""
		for i, c := range x.Body.List {
			cc := c.(*ast.CaseClause)
			if cc.List == nil {
				defIdx = i
				continue
			}
			if skip[i] {
				continue
			}
			var cs []string
			for _, e := range append(append([]ast.Expr{}, extra[i]...), cc.List...) {
				if tag != "" {
					cs = append(cs, "(decide ("+tag+" = "+t.expr(e)+"))")
					continue
				}
				if src(e) == "err != nil" && t.pendingErr != "" {
					cs = append(cs, t.pendingErr)
					t.pendingErr = ""
					continue
				}
				cs = append(cs, t.expr(e))
			}
			c := cs[0]
			if len(cs) > 1 {
				c = "(" + strings.Join(cs, " || ") + ")"
			}
			out += "if " + c + " then\n" + ind + "  " + t.block(append(append([]ast.Stmt{}, eff[i]...), rest...), tail, ind+"  ") + "\n" + ind + "else\n" + ind
		}
		if defIdx >= 0 {
			return out + t.block(append(append([]ast.Stmt{}, eff[defIdx]...), rest...), tail, ind)
		}
		return out + t.block(rest, tail, ind)
	}
	if ts, ok := s.(*ast.TypeSwitchStmt); ok && ts.Init == nil {
		// `switch [v :=] x.(type) { case T: … }`: an if-chain over the Spec's per-type conditions, in source order
		var asserted ast.Expr
		switch a := ts.Assign.(type) {
		case *ast.AssignStmt:
			if len(a.Rhs) == 1 {
				if ta, ok := a.Rhs[0].(*ast.TypeAssertExpr); ok {
					asserted = ta.X
				}
				if id, ok := a.Lhs[0].(*ast.Ident); ok {
					if t.opaque == nil {
						t.opaque = map[string]bool{}
					}
					t.opaque[id.Name] = true
				}
			}
		case *ast.ExprStmt:
			if ta, ok := a.X.(*ast.TypeAssertExpr); ok {
				asserted = ta.X
			}
		}
		if asserted != nil {
			var conds map[string]string
			for k, v := range t.sp.TypeSwitch {
				if norm(k) == norm(src(t.subst(asserted))) {
					conds = v
				}
			}
			if conds != nil {
				out := ""
				var def *ast.CaseClause
				for _, c := range ts.Body.List {
					cc := c.(*ast.CaseClause)
					if cc.List == nil {
						def = cc
						continue
					}
					var cs []string
					for _, e := range cc.List {
						b, ok := conds[norm(src(e))]
						if !ok {
							failf(cc, "type switch over %s: no condition for case %s", src(asserted), src(e))
						}
						cs = append(cs, b)
					}
					cnd := cs[0]
					if len(cs) > 1 {
						cnd = "(" + strings.Join(cs, " || ") + ")"
					}
					out += "if " + cnd + " then\n" + ind + "  " + t.block(append(append([]ast.Stmt{}, cc.Body...), rest...), tail, ind+"  ") + "\n" + ind + "else\n" + ind
				}
				if def != nil {
					return out + t.block(append(append([]ast.Stmt{}, def.Body...), rest...), tail, ind)
				}
				return out + t.block(rest, tail, ind)
			}
		}
	}
	failf(s, "unsupported statement %T: %s", s, src(s))
	return ""
}

// findStmts returns every statement in fn (pre-order) satisfying pred.
func findStmts(fn *ast.FuncDecl, pred func(ast.Stmt) bool) []ast.Stmt {
	var out []ast.Stmt
	ast.Inspect(fn.Body, func(n ast.Node) bool {
		if s, ok := n.(ast.Stmt); ok && pred(s) {
			out = append(out, s)
		}
		return true
	})
	return out
}
