package main

// Return shapes of the x509 functions whose (object, error) pairs the C11 wrappers pass on  -> Gen/X509Shapes.lean
//   nilErr : `return nil, <error expression>`      outErr : `return <object>, <error expression>` (mixed unless the error is nfe)
//   outNfe : `return <object>, nfe`                outNil : `return <object>, nil`
// plus: does any function of the package other than the wrappers themselves return a NonFatalErrors value (or the
// collector `nfe`) through an `error` result — if not, every `<error expression>` above is an ordinary (fatal) error.

import (
	"fmt"
	"go/ast"
	"go/token"
	"os"
	"path/filepath"
	"sort"
	"strconv"
	"strings"
)

func retShapes(rel, fn string) []string {
	fd := mustFunc(rel, fn)
	var shapes []string
	ast.Inspect(fd.Body, func(n ast.Node) bool {
		if _, ok := n.(*ast.FuncLit); ok {
			return false
		}
		r, ok := n.(*ast.ReturnStmt)
		if !ok {
			return true
		}
		if len(r.Results) == 1 {
			if _, isCall := r.Results[0].(*ast.CallExpr); isCall {
				shapes = append(shapes, ".tailCall")
				return true
			}
		}
		if len(r.Results) != 2 {
			panic(bail{fmt.Sprintf("%s: %s has a return with %d results", rel, fn, len(r.Results))})
		}
		obj, e := src(r.Results[0]), src(r.Results[1])
		switch {
		case obj == "nil" && e != "nil":
			shapes = append(shapes, ".nilErr")
		case obj != "nil" && e == "nil":
			shapes = append(shapes, ".outNil")
		case obj != "nil" && (e == "nfe" || e == "&nfe"):
			// must sit under `if nfe.HasError()` (or len(nfe.Errors) > 0)
			shapes = append(shapes, ".outNfe")
		case obj == "nil" && e == "nil":
			shapes = append(shapes, ".nilNil")
		default:
			shapes = append(shapes, ".outErr")
		}
		return true
	})
	return shapes
}

func shapeUnit(rel, fn, lean string) unit {
	return unit{lean, func() string {
		return fmt.Sprintf("/-- generated from %s func %s: the shape of every return statement, in source order -/\ndef %s : List RetShape :=\n  [%s]\n", rel, fn, lean, strings.Join(retShapes(rel, fn), ", "))
	}}
}

func init() {
	x := "x509/x509.go"
	units := []unit{
		{"RetShape", func() string {
			return "/-- `tailCall`: `return f(…)` — the pair of another listed function is passed on unchanged -/\ninductive RetShape | nilErr | outErr | outNfe | outNil | nilNil | tailCall\n  deriving Repr, DecidableEq\n"
		}},
		shapeUnit(x, "parseCertificate", "parseCertificateReturns"),
		shapeUnit(x, "parsePublicKey", "parsePublicKeyReturns"),
		shapeUnit(x, "ParsePKIXPublicKey", "parsePKIXPublicKeyReturns"),
		shapeUnit(x, "parseCertificateRequest", "parseCertificateRequestReturns"),
		shapeUnit(x, "ParseCertificateRequest", "parseCertificateRequestWrapperReturns"),
		shapeUnit(x, "ParseDERCRL", "parseDERCRLReturns"),
		shapeUnit(x, "ParseCRL", "parseCRLReturns"),
		shapeUnit("x509/revoked.go", "ParseCertificateList", "parseCertificateListReturns"),
		shapeUnit("x509/sec1.go", "ParseECPrivateKey", "parseECPrivateKeyWrapperReturns"),
		shapeUnit("x509/pkcs1.go", "ParsePKCS1PrivateKey", "parsePKCS1PrivateKeyReturns"),
		shapeUnit("x509/pkcs8.go", "ParsePKCS8PrivateKey", "parsePKCS8PrivateKeyReturns"),
		shapeUnit("x509/sec1.go", "parseECPrivateKey", "parseECPrivateKeyReturns"),
		{"nfeGuard", func() string {
			// every `return out, nfe` of parseCertificate is the body of `if nfe.HasError() {`
			fd := mustFunc(x, "parseCertificate")
			ok := true
			n := 0
			ast.Inspect(fd.Body, func(nd ast.Node) bool {
				i, isIf := nd.(*ast.IfStmt)
				if !isIf {
					return true
				}
				for _, s := range i.Body.List {
					if r, isR := s.(*ast.ReturnStmt); isR && len(r.Results) == 2 && src(r.Results[1]) == "nfe" {
						n++
						if src(i.Cond) != "nfe.HasError()" {
							ok = false
						}
					}
				}
				return true
			})
			total := 0
			for _, s := range retShapes(x, "parseCertificate") {
				if s == ".outNfe" {
					total++
				}
			}
			return fmt.Sprintf("/-- generated from %s func parseCertificate: every `return out, nfe` is the body of `if nfe.HasError()` -/\ndef parseCertificateNfeGuarded : Bool := %v\n", x, ok && n == total)
		}},
		{"nfeLeaks", func() string {
			// functions of package x509 (non-test files) that return the collector or a NonFatalErrors value as an error,
			// other than the documented wrappers and their private helpers (a helper used by parseCertificate itself, by any
			// other function, at package level, exported or with a receiver is NOT private: it is listed)
			allowed := map[string]bool{"parseCertificate": true, "ParseCertificate": true, "ParseTBSCertificate": true, "ParseCertificates": true, "Append": true}
			ents, err := os.ReadDir(rp("x509"))
			if err != nil {
				panic(bail{err.Error()})
			}
			// pass 1: which functions return the collector, and who refers to each function name
			type fnInfo struct {
				file     string
				plain    bool // unexported, no receiver
				returns  bool // returns the collector / a NonFatalErrors value as its last result
				referers map[string]bool
			}
			fns := map[string]*fnInfo{}
			var files []*ast.File
			var names []string
			for _, e := range ents {
				if e.IsDir() || !strings.HasSuffix(e.Name(), ".go") || strings.HasSuffix(e.Name(), "_test.go") {
					continue
				}
				f := parseFile(filepath.Join(*repo, "x509", e.Name()))
				files = append(files, f)
				for _, d := range f.Decls {
					fd, ok := d.(*ast.FuncDecl)
					if !ok || fd.Body == nil {
						continue
					}
					info := fns[fd.Name.Name]
					if info == nil {
						info = &fnInfo{file: e.Name(), plain: true, referers: map[string]bool{}}
						fns[fd.Name.Name] = info
						names = append(names, fd.Name.Name)
					}
					if fd.Recv != nil || ast.IsExported(fd.Name.Name) {
						info.plain = false
					}
					ast.Inspect(fd.Body, func(n ast.Node) bool {
						r, ok := n.(*ast.ReturnStmt)
						if !ok || len(r.Results) == 0 {
							return true
						}
						last := src(r.Results[len(r.Results)-1])
						if last == "nfe" || last == "*nfe" || last == "&nfe" || strings.Contains(last, "NonFatalErrors{") {
							info.returns = true
						}
						return true
					})
				}
			}
			for _, f := range files {
				for _, d := range f.Decls {
					owner := "<package level>"
					var root ast.Node = d
					if fd, ok := d.(*ast.FuncDecl); ok {
						if fd.Body == nil {
							continue
						}
						owner, root = fd.Name.Name, fd.Body
					}
					ast.Inspect(root, func(n ast.Node) bool {
						if id, ok := n.(*ast.Ident); ok {
							if info := fns[id.Name]; info != nil && id.Name != owner {
								info.referers[owner] = true
							}
						}
						return true
					})
				}
			}
			// pass 2: an unexported plain function every reference to which sits inside a wrapper (or inside another such
			// function) is a part of the wrappers — the collector does not leave them through it
			for changed := true; changed; {
				changed = false
				for _, name := range names {
					info := fns[name]
					if allowed[name] || !info.returns || !info.plain || len(info.referers) == 0 {
						continue
					}
					inside := true
					for r := range info.referers {
						if !allowed[r] || r == "parseCertificate" || r == "Append" {
							inside = false
						}
					}
					if inside {
						allowed[name] = true
						changed = true
					}
				}
			}
			var leaks []string
			for _, name := range names {
				if info := fns[name]; info.returns && !allowed[name] {
					leaks = append(leaks, strconv.Quote(info.file+":"+name))
				}
			}
			sort.Strings(leaks)
			return fmt.Sprintf("/-- generated from x509/*.go: functions that return the non-fatal collector as their error, other than the certificate wrappers and unexported helpers referred to only from inside ParseCertificate / ParseTBSCertificate / ParseCertificates (or from such a helper) -/\ndef nfeLeaks : List String :=\n  [%s]\n", strings.Join(leaks, ", "))
		}},
		{"certListFatal", func() string {
			f := parseFile(rp("x509/errors.go"))
			flags := map[string]bool{}
			ast.Inspect(f, func(n ast.Node) bool {
				cl, ok := n.(*ast.CompositeLit)
				if !ok {
					return true
				}
				id, fatal := "", false
				for _, el := range cl.Elts {
					kv, ok := el.(*ast.KeyValueExpr)
					if !ok {
						continue
					}
					switch src(kv.Key) {
					case "ID":
						id = src(kv.Value)
					case "Fatal":
						fatal = src(kv.Value) == "true"
					}
				}
				if id != "" {
					flags[id] = fatal
				}
				return true
			})
			for _, k := range []string{"ErrInvalidCertList", "ErrTrailingCertList"} {
				if _, ok := flags[k]; !ok {
					panic(bail{"x509/errors.go: no errorInfo entry for " + k})
				}
			}
			return fmt.Sprintf("/-- generated from x509/errors.go: the Fatal flags of the two envelope errors of ParseCertificateListDER -/\ndef errInvalidCertListFatal : Bool := %v\ndef errTrailingCertListFatal : Bool := %v\n", flags["ErrInvalidCertList"], flags["ErrTrailingCertList"])
		}},
	}
	_ = token.NoPos
	register(genFile{name: "X509Shapes", units: units})
}
