package main

import (
	"fmt"
	"go/ast"
	"strings"
)

// Regenerated kernels of the TLS presentation codec (tls/tls.go), property C09:
// byteCount (width of a length/enum field from its maximum) and fieldInfo.check
// (the range test applied to every enum value and vector length, in both directions).

// ifBodyKernel translates the body of the unique `if` of fn whose condition source equals cond; falling off its end is `tail`.
func ifBodyKernel(rel, fn, cond, leanName, params, resultTy, tail string, sp Spec) func() string {
	return func() string {
		fd := mustFunc(rel, fn)
		t := &tr{sp: sp}
		ss := findStmts(fd, func(s ast.Stmt) bool {
			i, ok := s.(*ast.IfStmt)
			return ok && src(i.Cond) == cond
		})
		if len(ss) != 1 {
			panic(bail{fmt.Sprintf("%s: expected exactly one `if %s` in %s, found %d", rel, cond, fn, len(ss))})
		}
		body := ss[0].(*ast.IfStmt).Body.List
		return fmt.Sprintf("/-- generated from %s func %s: body of `if %s` -/\ndef %s %s : %s :=\n  %s\n", rel, fn, cond, leanName, params, resultTy, t.block(body, tail, "  "))
	}
}

// caseBodyKernel translates the body of the clause `case <caseExpr>:` of the unique `switch <tag>` in fn that has such a clause,
// up to (not including) the first statement whose source starts with `until` ("" = the whole clause); reaching that point is `tail`.
func caseBodyKernel(rel, fn, tag, caseExpr, until, leanName, params, resultTy, prelude, tail string, sp Spec) func() string {
	return func() string {
		fd := mustFunc(rel, fn)
		var bodies [][]ast.Stmt
		ast.Inspect(fd.Body, func(n ast.Node) bool {
			sw, ok := n.(*ast.SwitchStmt)
			if !ok || sw.Tag == nil || src(sw.Tag) != tag {
				return true
			}
			for _, c := range sw.Body.List {
				cc := c.(*ast.CaseClause)
				for _, e := range cc.List {
					if src(e) == caseExpr {
						bodies = append(bodies, cc.Body)
					}
				}
			}
			return true
		})
		if len(bodies) != 1 {
			panic(bail{fmt.Sprintf("%s: expected exactly one `switch %s { case %s: }` in %s, found %d", rel, tag, caseExpr, fn, len(bodies))})
		}
		body := bodies[0]
		if until != "" {
			cut := -1
			for i, st := range body {
				if strings.HasPrefix(src(st), until) {
					cut = i
					break
				}
			}
			if cut < 0 {
				panic(bail{fmt.Sprintf("%s: no statement starting with `%s` in case %s of %s", rel, until, caseExpr, fn)})
			}
			body = body[:cut]
		}
		t := &tr{sp: sp, file: parseFile(rp(rel))}
		return fmt.Sprintf("/-- generated from %s func %s: `switch %s { case %s: … }`%s -/\ndef %s %s : %s :=\n  %s%s\n", rel, fn, tag, caseExpr,
			map[bool]string{true: " up to `" + until + "…`", false: ""}[until != ""], leanName, params, resultTy, prelude, t.block(body, tail, "  "))
	}
}

func init() {
	f := "tls/tls.go"
	register(genFile{name: "Tls", imports: []string{"CTV.Basic.I64"}, units: []unit{
		{"byteCount", funcKernel(f, "byteCount", "byteCount", "(x_ : Int)", "Int", Spec{Kind: "u64", Ret: "tuple"})},
		{"fieldInfo.check", funcKernel(f, "fieldInfo.check", "fieldInfoCheck", "(count_ minlen_ maxlen_ val_ : Int)", "Bool",
			Spec{Kind: "u64", Ret: "errbool", Vars: map[string]string{"i.count": "count_", "i.minlen": "minlen_", "i.maxlen": "maxlen_"}})},
		// the checks fieldTagToFieldInfo applies to the collected info after the clause loop (true = the info is accepted)
		{"fieldTagToFieldInfo.final", ifBodyKernel(f, "fieldTagToFieldInfo", "info != nil", "tagFinalChecks",
			"(selEmpty countSet_ : Bool) (count_ minlen_ maxlen_ val_ : Int)", "Bool", "true",
			Spec{Kind: "u64", Ret: "errlastbool", IgnoreLHS: []string{"info.name"},
				Repl: map[string]string{`info.selector == ""`: "selEmpty", `info.selector != ""`: "(!selEmpty)"},
				Vars: map[string]string{"info.count": "count_", "info.countSet": "countSet_", "info.minlen": "minlen_", "info.maxlen": "maxlen_", "info.val": "val_"}})},
		// whole bodies of the non-reflective entry points: the order of the tests and what each hands back (0 nothing, 1 the value / rest)
		{"readVarUint", handlerKernel(f, "readVarUint", "readVarUintBody", "(noSize short checkFails : Bool)", "Nat × Bool", "", "(0, false)",
			Spec{Kind: "u64", Lazy: true, Ret: "statusstate", Status: map[string]int{"0": 0, "result": 1},
				IgnoreLHS: []string{"result"},
				InitCond:  map[string]string{"err := info.check(result, info.name) ; err != nil": "checkFails"},
				Repl:      map[string]string{"info == nil || !info.countSet": "noSize", "len(data) < int(info.count)": "short"}})},
		// parseField, the vector case up to the element loop: the order of "length prefix readable and in range", "declared length
		// fits the remaining input", the allocation (v.Set(reflect.MakeSlice…)) and the []byte fast path.  (status, error?, allocated?)
		{"parseField.slice", caseBodyKernel(f, "parseField", "v.Kind()", "reflect.Slice", "for ", "parseSliceHead",
			"(prefixBad tooLong isBytes : Bool)", "Nat × Bool × Bool", "let alloc_ := false\n  ", "((2 : Nat), false, alloc_)",
			Spec{Kind: "u64", Lazy: true, Ret: "statusstate", Status: map[string]int{"offset": 0}, StateVars: []string{"alloc_"},
				IgnoreLHS: []string{"offset", "rest", "sliceType", "inner", "single", "datalen"},
				Ignore:    []string{"copyBytes"},
				ErrCalls:  map[string]string{"readVarUint": "prefixBad"},
				Effects:   map[string]string{"v.Set": "alloc_ := true"},
				Repl:      map[string]string{"varlen > uint64(len(rest))": "tooLong", "fieldType.Elem().Kind() == reflect.Uint8": "isBytes"}})},
		{"parseField.array", caseBodyKernel(f, "parseField", "v.Kind()", "reflect.Array", "", "parseArrayBody",
			"(tooLong notBytes : Bool)", "Nat × Bool", "", "((0 : Nat), false)",
			Spec{Kind: "u64", Lazy: true, Ret: "statusstate", Status: map[string]int{"offset": 0},
				IgnoreLHS: []string{"offset", "inner", "datalen"}, Ignore: []string{"copyBytes"},
				Repl: map[string]string{"datalen > len(rest)": "tooLong", "fieldType.Elem().Kind() != reflect.Uint8": "notBytes"}})},
		{"parseField.enum", caseBodyKernel(f, "parseField", "v.Kind()", "enumType.Kind()", "", "parseEnumBody",
			"(prefixBad : Bool)", "Nat × Bool", "", "((0 : Nat), false)",
			Spec{Kind: "u64", Lazy: true, Ret: "statusstate", Status: map[string]int{"offset": 0},
				IgnoreLHS: []string{"offset"}, Ignore: []string{"v.SetUint"},
				ErrCalls: map[string]string{"readVarUint": "prefixBad"}})},
		{"UnmarshalWithParams", handlerKernel(f, "UnmarshalWithParams", "unmarshalWithParamsBody", "(tagBad parseFails : Bool)", "Nat × Bool", "", "(0, false)",
			Spec{Kind: "u64", Lazy: true, Ret: "statusstate", Status: map[string]int{"nil": 0, "b[offset:]": 1},
				IgnoreLHS: []string{"v"},
				ErrCalls:  map[string]string{"fieldTagToFieldInfo": "tagBad", "parseField": "parseFails"}})},
		{"MarshalWithParams", handlerKernel(f, "MarshalWithParams", "marshalWithParamsBody", "(tagBad marshalFails : Bool)", "Nat × Bool", "", "(0, false)",
			Spec{Kind: "u64", Lazy: true, Ret: "statusstate", Status: map[string]int{"nil": 0, "out.Bytes()": 1},
				IgnoreLHS: []string{"v", "out"},
				ErrCalls:  map[string]string{"fieldTagToFieldInfo": "tagBad"},
				InitCond:  map[string]string{"err := marshalField(&out, v, info) ; err != nil": "marshalFails"}})},
	}})
}
