package main

import (
	"fmt"
	"go/ast"
)

// Regenerated kernels of the TLS presentation codec (tls/tls.go), property C09:
// byteCount (width of a length/enum field from its maximum) and fieldInfo.check
// (the range test applied to every enum value and vector length, in both directions).

// ifBodyKernel translates the body of the unique `if` of fn whose condition source equals cond; falling off its end is `tail`.
func ifBodyKernel(rel, fn, cond, leanName, params, resultTy, tail string, sp Spec) func() string {
	return func() string {
		fd := mustFunc(rel, fn)
		t := &tr{sp: sp}
		ss := findStmts(fd, func(s ast.Stmt) bool {
			i, ok := s.(*ast.IfStmt)
			return ok && src(i.Cond) == cond
		})
		if len(ss) != 1 {
			panic(bail{fmt.Sprintf("%s: expected exactly one `if %s` in %s, found %d", rel, cond, fn, len(ss))})
		}
		body := ss[0].(*ast.IfStmt).Body.List
		return fmt.Sprintf("/-- generated from %s func %s: body of `if %s` -/\ndef %s %s : %s :=\n  %s\n", rel, fn, cond, leanName, params, resultTy, t.block(body, tail, "  "))
	}
}

func init() {
	f := "tls/tls.go"
	register(genFile{name: "Tls", imports: []string{"CTV.Basic.I64"}, units: []unit{
		{"byteCount", funcKernel(f, "byteCount", "byteCount", "(x_ : Int)", "Int", Spec{Kind: "u64", Ret: "tuple"})},
		{"fieldInfo.check", funcKernel(f, "fieldInfo.check", "fieldInfoCheck", "(count_ minlen_ maxlen_ val_ : Int)", "Bool",
			Spec{Kind: "u64", Ret: "errbool", Vars: map[string]string{"i.count": "count_", "i.minlen": "minlen_", "i.maxlen": "maxlen_"}})},
		// the checks fieldTagToFieldInfo applies to the collected info after the clause loop (true = the info is accepted)
		{"fieldTagToFieldInfo.final", ifBodyKernel(f, "fieldTagToFieldInfo", "info != nil", "tagFinalChecks",
			"(selEmpty countSet_ : Bool) (count_ minlen_ maxlen_ val_ : Int)", "Bool", "true",
			Spec{Kind: "u64", Ret: "errlastbool", IgnoreLHS: []string{"info.name"},
				Repl: map[string]string{`info.selector == ""`: "selEmpty", `info.selector != ""`: "(!selEmpty)"},
				Vars: map[string]string{"info.count": "count_", "info.countSet": "countSet_", "info.minlen": "minlen_", "info.maxlen": "maxlen_", "info.val": "val_"}})},
	}})
}
