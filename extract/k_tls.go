package main

import (
	"fmt"
	"go/ast"
	"strings"
)

// Regenerated kernels of the TLS presentation codec (tls/tls.go), property C09:
// byteCount (width of a length/enum field from its maximum) and fieldInfo.check
// (the range test applied to every enum value and vector length, in both directions).

// ifBodyKernel translates the body of the unique `if` of fn whose condition source equals cond; falling off its end is `tail`.
func ifBodyKernel(rel, fn, cond, leanName, params, resultTy, tail string, sp Spec) func() string {
	return func() string {
		fd := mustFunc(rel, fn)
		t := &tr{sp: sp}
		ss := findStmts(fd, func(s ast.Stmt) bool {
			i, ok := s.(*ast.IfStmt)
			return ok && src(i.Cond) == cond
		})
		if len(ss) != 1 {
			panic(bail{fmt.Sprintf("%s: expected exactly one `if %s` in %s, found %d", rel, cond, fn, len(ss))})
		}
		body := ss[0].(*ast.IfStmt).Body.List
		return fmt.Sprintf("/-- generated from %s func %s: body of `if %s` -/\ndef %s %s : %s :=\n  %s\n", rel, fn, cond, leanName, params, resultTy, t.block(body, tail, "  "))
	}
}

// caseBodyKernel translates the body of the clause `case <caseExpr>:` of the unique `switch <tag>` in fn that has such a clause,
// up to (not including) the first statement whose source starts with `until` ("" = the whole clause); reaching that point is `tail`.
func caseBodyKernel(rel, fn, tag, caseExpr, until, leanName, params, resultTy, prelude, tail string, sp Spec, opaque ...string) func() string {
	return func() string {
		fd := mustFunc(rel, fn)
		var bodies [][]ast.Stmt
		ast.Inspect(fd.Body, func(n ast.Node) bool {
			sw, ok := n.(*ast.SwitchStmt)
			if !ok || sw.Tag == nil || src(sw.Tag) != tag {
				return true
			}
			for _, c := range sw.Body.List {
				cc := c.(*ast.CaseClause)
				for _, e := range cc.List {
					if src(e) == caseExpr {
						bodies = append(bodies, cc.Body)
					}
				}
			}
			return true
		})
		if len(bodies) != 1 {
			panic(bail{fmt.Sprintf("%s: expected exactly one `switch %s { case %s: }` in %s, found %d", rel, tag, caseExpr, fn, len(bodies))})
		}
		body := bodies[0]
		if until != "" {
			cut := -1
			for i, st := range body {
				if strings.HasPrefix(src(st), until) {
					cut = i
					break
				}
			}
			if cut < 0 {
				panic(bail{fmt.Sprintf("%s: no statement starting with `%s` in case %s of %s", rel, until, caseExpr, fn)})
			}
			body = body[:cut]
		}
		t := &tr{sp: sp, file: parseFile(rp(rel))}
		// locals of the enclosing function that the clause only reads through Repl keys (`fieldType`): a local defined as one of them
		// stands for it
		for _, o := range opaque {
			if t.opaque == nil {
				t.opaque = map[string]bool{}
			}
			t.opaque[o] = true
		}
		return fmt.Sprintf("/-- generated from %s func %s: `switch %s { case %s: … }`%s -/\ndef %s %s : %s :=\n  %s%s\n", rel, fn, tag, caseExpr,
			map[bool]string{true: " up to `" + until + "…`", false: ""}[until != ""], leanName, params, resultTy, prelude, t.block(body, tail, "  "))
	}
}

// tlsCheckFunc: the range check of tls.go, found by its signature — (fieldInfo, uint64, string) error, as a method of fieldInfo or as
// a function — whatever it is called. Returned with the names of its three inputs and the key a call of it has for InitCondByCall.
func tlsCheckFunc(rel string) (*ast.FuncDecl, []string, string) {
	file := parseFile(rp(rel))
	var hits []*ast.FuncDecl
	var names [][]string
	for _, d := range file.Decls {
		fd, ok := d.(*ast.FuncDecl)
		if !ok || fd.Body == nil || fd.Type.Results == nil || fd.Type.Results.NumFields() != 1 || src(fd.Type.Results.List[0].Type) != "error" {
			continue
		}
		var tys, ns []string
		add := func(fl *ast.FieldList) {
			if fl == nil {
				return
			}
			for _, f := range fl.List {
				if len(f.Names) == 0 {
					tys, ns = append(tys, src(f.Type)), append(ns, "_")
				}
				for _, n := range f.Names {
					tys, ns = append(tys, src(f.Type)), append(ns, n.Name)
				}
			}
		}
		add(fd.Recv)
		add(fd.Type.Params)
		if strings.Join(tys, ",") == "fieldInfo,uint64,string" {
			hits, names = append(hits, fd), append(names, ns)
		}
	}
	if len(hits) != 1 {
		panic(bail{fmt.Sprintf("%s: expected exactly one (fieldInfo, uint64, string) error function or method, found %d", rel, len(hits))})
	}
	key := hits[0].Name.Name
	if hits[0].Recv != nil {
		key = "." + key
	}
	return hits[0], names[0], key
}

func init() {
	f := "tls/tls.go"
	register(genFile{name: "Tls", imports: []string{"CTV.Basic.I64"}, units: []unit{
		{"byteCount", funcKernel(f, "byteCount", "byteCount", "(x_ : Int)", "Int", Spec{Kind: "u64", Ret: "tuple"})},
		{"fieldInfo.check", func() string {
			fd, names, _ := tlsCheckFunc(f)
			t := &tr{sp: Spec{Kind: "u64", Ret: "errbool", Vars: map[string]string{"i.count": "count_", "i.minlen": "minlen_", "i.maxlen": "maxlen_"}}, file: parseFile(rp(f))}
			for i, canon := range []string{"i", "val"} {
				if names[i] != canon && names[i] != "_" {
					t.alias(names[i], ast.NewIdent(canon))
				}
			}
			return fmt.Sprintf("/-- generated from %s: the range check, signature (fieldInfo, uint64, string) error (func %s) -/\ndef fieldInfoCheck (count_ minlen_ maxlen_ val_ : Int) : Bool :=\n  %s\n",
				f, fd.Name.Name, t.block(fd.Body.List, "none", "  "))
		}},
		// the checks fieldTagToFieldInfo applies to the collected info after the clause loop (true = the info is accepted)
		{"fieldTagToFieldInfo.final", ifBodyKernel(f, "fieldTagToFieldInfo", "info != nil", "tagFinalChecks",
			"(selEmpty countSet_ : Bool) (count_ minlen_ maxlen_ val_ : Int)", "Bool", "true",
			Spec{Kind: "u64", Ret: "errlastbool", IgnoreLHS: []string{"info.name"},
				Repl: map[string]string{`info.selector == ""`: "selEmpty", `info.selector != ""`: "(!selEmpty)"},
				Vars: map[string]string{"info.count": "count_", "info.countSet": "countSet_", "info.minlen": "minlen_", "info.maxlen": "maxlen_", "info.val": "val_"}})},
		// whole bodies of the non-reflective entry points: the order of the tests and what each hands back (0 nothing, 1 the value / rest)
		{"readVarUint", func() string {
			_, _, checkKey := tlsCheckFunc(f)
			return handlerKernel(f, "readVarUint", "readVarUintBody", "(infoNil noCount short checkFails : Bool)", "Nat × Bool", "", "(0, false)",
				Spec{Kind: "u64", Lazy: true, Ret: "statusstate", Status: map[string]int{"0": 0, "result": 1}, NegRepl: true, ErrFlow: true,
					IgnoreLHS: []string{"result"}, PureCalls: []string{"int", "uint", "uint64"},
					InitCondByCall: map[string]string{checkKey: "checkFails"},
					Repl:           map[string]string{"info == nil": "infoNil", "!info.countSet": "noCount", "len(data) < int(info.count)": "short"}})()
		}},
		// parseField, the vector case: the order of "length prefix readable and in range", "declared length fits the remaining input", the
		// allocation (v.Set(reflect.MakeSlice…)), the []byte fast path and the element loop (elemFails: some iteration of it returns —
		// an element that does not parse, or one of zero width).  (status, error?, allocated?)
		{"parseField.slice", caseBodyKernel(f, "parseField", "v.Kind()", "reflect.Slice", "", "parseSliceBody",
			"(prefixBad tooLong isBytes elemFails : Bool)", "Nat × Bool × Bool", "let alloc_ := false\n  ", "((0 : Nat), false, alloc_)",
			Spec{Kind: "u64", Lazy: true, Inline: true, Ret: "statusstate", Status: map[string]int{"offset": 0}, StateVars: []string{"alloc_"}, NegRepl: true, ErrFlow: true, DropThrough: true,
				IgnoreLHS:     []string{"offset", "rest", "inner", "single", "datalen"},
				Ignore:        []string{"copyBytes"},
				PureCalls:     []string{".Elem", ".Kind", "int", "uint64"},
				ErrCalls:      map[string]string{"readVarUint": "prefixBad"},
				Effects:       map[string]string{"v.Set": "alloc_ := true"},
				LoopAnyReturn: map[string]string{"*": "elemFails"},
				Repl: map[string]string{"varlen > uint64(len(rest))": "tooLong", "varlen > uint64(len(rest[info.count:]))": "tooLong",
					"fieldType.Elem().Kind() == reflect.Uint8": "isBytes"}}, "fieldType")},
		{"parseField.array", caseBodyKernel(f, "parseField", "v.Kind()", "reflect.Array", "", "parseArrayBody",
			"(tooLong notBytes : Bool)", "Nat × Bool", "", "((0 : Nat), false)",
			Spec{Kind: "u64", Lazy: true, Ret: "statusstate", Status: map[string]int{"offset": 0}, NegRepl: true, ErrFlow: true,
				IgnoreLHS: []string{"offset", "inner", "datalen"}, Ignore: []string{"copyBytes"}, PureCalls: []string{".Elem", ".Kind"},
				Repl: map[string]string{"datalen > len(rest)": "tooLong", "fieldType.Elem().Kind() != reflect.Uint8": "notBytes"}}, "fieldType")},
		{"parseField.enum", caseBodyKernel(f, "parseField", "v.Kind()", "enumType.Kind()", "", "parseEnumBody",
			"(prefixBad : Bool)", "Nat × Bool", "", "((0 : Nat), false)",
			Spec{Kind: "u64", Lazy: true, Ret: "statusstate", Status: map[string]int{"offset": 0}, ErrFlow: true,
				IgnoreLHS: []string{"offset"}, Ignore: []string{"v.SetUint"},
				ErrCalls: map[string]string{"readVarUint": "prefixBad"}})},
		{"UnmarshalWithParams", handlerKernel(f, "UnmarshalWithParams", "unmarshalWithParamsBody", "(tagBad parseFails : Bool)", "Nat × Bool", "", "(0, false)",
			Spec{Kind: "u64", Lazy: true, Inline: true, Ret: "statusstate", Status: map[string]int{"nil": 0, "*": 1}, ErrFlow: true,
				IgnoreLHS: []string{"v"},
				ErrCalls:  map[string]string{"fieldTagToFieldInfo": "tagBad", "parseField": "parseFails"}})},
		{"MarshalWithParams", handlerKernel(f, "MarshalWithParams", "marshalWithParamsBody", "(tagBad marshalFails : Bool)", "Nat × Bool", "", "(0, false)",
			Spec{Kind: "u64", Lazy: true, Inline: true, Ret: "statusstate", Status: map[string]int{"nil": 0, "*": 1}, ErrFlow: true,
				IgnoreLHS:      []string{"v", "out"},
				ErrCalls:       map[string]string{"fieldTagToFieldInfo": "tagBad"},
				InitCondByCall: map[string]string{"marshalField": "marshalFails"}})},
	}})
}
