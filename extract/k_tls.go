package main

// Regenerated kernels of the TLS presentation codec (tls/tls.go), property C09:
// byteCount (width of a length/enum field from its maximum) and fieldInfo.check
// (the range test applied to every enum value and vector length, in both directions).

func init() {
	f := "tls/tls.go"
	register(genFile{name: "Tls", imports: []string{"CTV.Basic.I64"}, units: []unit{
		{"byteCount", funcKernel(f, "byteCount", "byteCount", "(x_ : Int)", "Int", Spec{Kind: "u64", Ret: "tuple"})},
		{"fieldInfo.check", funcKernel(f, "fieldInfo.check", "fieldInfoCheck", "(count_ minlen_ maxlen_ val_ : Int)", "Bool",
			Spec{Kind: "u64", Ret: "errbool", Vars: map[string]string{"i.count": "count_", "i.minlen": "minlen_", "i.maxlen": "maxlen_"}})},
	}})
}
