package main

// Helpers that let the C05 / C12 units look at a function through harmless rewrites: locals renamed, repeated reads
// hoisted into locals, a block moved into a same-file helper, if/else-if chains unchained.

import (
	"bytes"
	"fmt"
	"go/ast"
	"go/parser"
	"go/printer"
	"go/token"
	"regexp"
	"strings"
)

func nospace(s string) string { return strings.Join(strings.Fields(s), "") }

// srcRaw prints a node keeping its line structure (so that the text can be parsed again).
func srcRaw(n ast.Node) string {
	var b bytes.Buffer
	if err := printer.Fprint(&b, fset, n); err != nil {
		return "?"
	}
	return b.String()
}

// parseStmts parses a statement list.
func parseStmts(text string) []ast.Stmt {
	f, err := parser.ParseFile(fset, "", "package p\nfunc _() {\n"+text+"\n}", 0)
	if err != nil {
		panic(bail{"cannot re-parse rewritten statements: " + err.Error()})
	}
	return f.Decls[0].(*ast.FuncDecl).Body.List
}

func substIdent(text, name, repl string) string {
	if name == "" || name == "_" {
		return text
	}
	re := regexp.MustCompile(`(^|[^\w.])` + regexp.QuoteMeta(name) + `\b`)
	return re.ReplaceAllString(text, "${1}"+strings.ReplaceAll(repl, "$", "$$"))
}

func stmtsSrc(b []ast.Stmt) string {
	var parts []string
	for _, s := range b {
		parts = append(parts, srcRaw(s))
	}
	return strings.Join(parts, "\n")
}

// plainFunc finds a same-file function without receiver.
func plainFunc(rel, name string) *ast.FuncDecl {
	for _, d := range parseFile(rp(rel)).Decls {
		if fd, ok := d.(*ast.FuncDecl); ok && fd.Recv == nil && fd.Name.Name == name && fd.Body != nil {
			return fd
		}
	}
	return nil
}

// anyFunc finds a same-file function or method by its bare name.
func anyFunc(rel, name string) *ast.FuncDecl {
	for _, d := range parseFile(rp(rel)).Decls {
		if fd, ok := d.(*ast.FuncDecl); ok && fd.Name.Name == name && fd.Body != nil {
			return fd
		}
	}
	return nil
}

func sigParamNames(fd *ast.FuncDecl) []string {
	var out []string
	for _, f := range fd.Type.Params.List {
		for _, n := range f.Names {
			out = append(out, n.Name)
		}
	}
	return out
}

// expandHelpers replaces `v, err := helper(args)` (helper: same-file function without receiver returning (T, error)) by the
// helper's statements with its parameters replaced by the arguments and its result variable by v; the helper's final
// `return v, nil` is dropped, its error returns stay returns of a non-nil error.  One level.
func expandHelpers(rel string, body []ast.Stmt) []ast.Stmt {
	var out []ast.Stmt
	for _, s := range body {
		a, ok := s.(*ast.AssignStmt)
		if !ok || len(a.Rhs) != 1 || len(a.Lhs) != 2 {
			out = append(out, s)
			continue
		}
		call, ok := a.Rhs[0].(*ast.CallExpr)
		id, ok2 := func() (*ast.Ident, bool) {
			if !ok {
				return nil, false
			}
			i, k := call.Fun.(*ast.Ident)
			return i, k
		}()
		if !ok2 {
			out = append(out, s)
			continue
		}
		h := plainFunc(rel, id.Name)
		if h == nil || len(h.Body.List) == 0 {
			out = append(out, s)
			continue
		}
		last, ok := h.Body.List[len(h.Body.List)-1].(*ast.ReturnStmt)
		if !ok || len(last.Results) != 2 || src(last.Results[1]) != "nil" {
			out = append(out, s)
			continue
		}
		text := stmtsSrc(h.Body.List[:len(h.Body.List)-1])
		ps := sigParamNames(h)
		if len(ps) != len(call.Args) {
			out = append(out, s)
			continue
		}
		for i, p := range ps {
			text = substIdent(text, p, src(call.Args[i]))
		}
		if rv, ok := last.Results[0].(*ast.Ident); ok {
			text = substIdent(text, rv.Name, src(a.Lhs[0]))
		}
		out = append(out, parseStmts(text)...)
	}
	return out
}

// inlineAliases substitutes locals that are defined once, at the top level of the statement list, from an expression
// without side effects (selectors, calls of methods named in `pure`, dereferences) into the statements after them, and
// drops the definition.  Locals defined from fmt.Errorf / errors.New are left alone.
func inlineAliases(body []ast.Stmt, pure func(ast.Expr) bool) []ast.Stmt {
	text := ""
	var rest []string
	for _, s := range body {
		rest = append(rest, srcRaw(s))
	}
	for i := 0; i < len(rest); i++ {
		st := parseStmts(rest[i])
		if len(st) == 1 {
			if a, ok := st[0].(*ast.AssignStmt); ok && a.Tok == token.DEFINE && len(a.Lhs) == 1 && len(a.Rhs) == 1 && pure(a.Rhs[0]) {
				name := src(a.Lhs[0])
				val := src(a.Rhs[0])
				if _, isIdent := a.Rhs[0].(*ast.Ident); !isIdent {
					if _, isSel := a.Rhs[0].(*ast.SelectorExpr); !isSel {
						val = "(" + val + ")"
					}
				}
				for j := i + 1; j < len(rest); j++ {
					rest[j] = substIdent(rest[j], name, val)
				}
				continue
			}
		}
		text += rest[i] + "\n"
	}
	return parseStmts(text)
}

// flatSrc: the space-free source of the body of function/method `fn` of file rel in which every top-level statement that
// calls a same-file function or method is preceded by that callee's flattened body (depth-limited).  Name-agnostic
// regular expressions over it see through "extract helper" refactorings; positions give the order of events.
var flatKeep = []string{"logIDForKey", "checkLogID", "VerifySTHSignature", "VerifySCTSignature", "getRawEntries", "PostAndParse", "PostAndParseWithRetry", "GetAndParse", "addChainWithRetry"}

func flatSrc(rel, fn string, depth int) string {
	fd := anyFunc(rel, fn)
	if fd == nil {
		panic(bail{fmt.Sprintf("%s: function %s not found", rel, fn)})
	}
	var sb strings.Builder
	for _, s := range canonFunc(rel, fn, flatKeep...).Body.List {
		if depth > 0 {
			seen := map[string]bool{}
			ast.Inspect(s, func(n ast.Node) bool {
				c, ok := n.(*ast.CallExpr)
				if !ok {
					return true
				}
				name := ""
				switch f := c.Fun.(type) {
				case *ast.Ident:
					name = f.Name
				case *ast.SelectorExpr:
					if _, ok := f.X.(*ast.Ident); ok {
						name = f.Sel.Name
					}
				}
				if name != "" && name != fn && !seen[name] && anyFunc(rel, name) != nil {
					if sel, ok := c.Fun.(*ast.SelectorExpr); ok {
						// only methods of the receiver / package-level helpers, not e.g. c.Verifier.VerifySTHSignature
						if fd.Recv == nil || len(fd.Recv.List[0].Names) == 0 || src(sel.X) != fd.Recv.List[0].Names[0].Name {
							return true
						}
					}
					seen[name] = true
					sb.WriteString("«" + name + "»" + flatSrc(rel, name, depth-1) + "«/" + name + "»")
				}
				return true
			})
		}
		sb.WriteString(nospace(src(s)) + ";")
	}
	return sb.String()
}

func mustMatch(re, text, what string) []string {
	m := regexp.MustCompile(re).FindStringSubmatch(text)
	if m == nil {
		panic(bail{what})
	}
	return m
}

func idxOf(text, marker, what string) int {
	i := strings.Index(text, marker)
	if i < 0 {
		panic(bail{what + ": `" + marker + "` not found"})
	}
	return i
}
