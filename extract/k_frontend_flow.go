package main

// Origin tracing for the C06 forwarding / relay / guard facts: where does the value put into a request field, relayed into a
// response field or compared in a guard come from? Answers are canonical strings such as `parseGetSTHConsistencyRange#0`
// (result 0 of that call) or `GetInclusionProofByHash#0.Proof[0].Hashes`, independent of the names of locals and parameters, of
// hoisted reads, and of helpers extracted into (or inlined from) the same file. A swap or another source of the value changes the
// answer; a harmless rewrite does not.

import (
	"fmt"
	"go/ast"
	"go/token"
	"sort"
	"strings"
)

type fbound struct {
	c *fctx
	e ast.Expr
}

type fctx struct {
	file  *ast.File
	fd    *ast.FuncDecl
	bind  map[string]fbound
	depth int
}

func lastName(e ast.Expr) string {
	switch x := e.(type) {
	case *ast.Ident:
		return x.Name
	case *ast.SelectorExpr:
		return x.Sel.Name
	}
	return ""
}

func (c *fctx) callee(call *ast.CallExpr) *ast.FuncDecl {
	n := lastName(call.Fun)
	// the request parsers are sources of their own (their bodies are regenerated separately as Gen.parse…)
	if n == "" || c.depth > 3 || strings.HasPrefix(n, "parse") {
		return nil
	}
	for _, d := range c.file.Decls {
		if fd, ok := d.(*ast.FuncDecl); ok && fd.Name.Name == n && fd.Body != nil {
			// a method call `x.f(…)` matches a method, a plain call a function
			_, isSel := call.Fun.(*ast.SelectorExpr)
			if isSel == (fd.Recv != nil) {
				return fd
			}
		}
	}
	return nil
}

func (c *fctx) enter(call *ast.CallExpr, fd *ast.FuncDecl) *fctx {
	n := &fctx{file: c.file, fd: fd, bind: map[string]fbound{}, depth: c.depth + 1}
	i := 0
	for _, f := range fd.Type.Params.List {
		for _, nm := range f.Names {
			if i < len(call.Args) {
				n.bind[nm.Name] = fbound{c, call.Args[i]}
			}
			i++
		}
	}
	if fd.Recv != nil && len(fd.Recv.List) == 1 && len(fd.Recv.List[0].Names) == 1 {
		if sel, ok := call.Fun.(*ast.SelectorExpr); ok {
			n.bind[fd.Recv.List[0].Names[0].Name] = fbound{c, sel.X}
		}
	}
	return n
}

var fNeutral = map[string]bool{"nil": true, "emptyProof": true}

func isConversion(call *ast.CallExpr) bool {
	if id, ok := call.Fun.(*ast.Ident); ok && len(call.Args) == 1 {
		switch id.Name {
		case "int64", "uint64", "int", "uint", "string":
			return true
		}
	}
	return false
}

// resultOrigin: origin of the idx-th result of a call.
func (c *fctx) resultOrigin(call *ast.CallExpr, idx int) string {
	if fd := c.callee(call); fd != nil {
		n := c.enter(call, fd)
		set := map[string]bool{}
		ast.Inspect(fd.Body, func(m ast.Node) bool {
			if _, ok := m.(*ast.FuncLit); ok {
				return false
			}
			if r, ok := m.(*ast.ReturnStmt); ok && idx < len(r.Results) {
				if o := n.origin(r.Results[idx]); !fNeutral[o] {
					set[o] = true
				}
			}
			return true
		})
		if len(set) == 1 {
			for o := range set {
				return o
			}
		}
		if len(set) > 1 {
			var os []string
			for o := range set {
				os = append(os, o)
			}
			sort.Strings(os)
			return "{" + strings.Join(os, "|") + "}"
		}
	}
	return fmt.Sprintf("%s#%d", lastName(call.Fun), idx)
}

func (c *fctx) origin(e ast.Expr) string {
	switch x := e.(type) {
	case *ast.ParenExpr:
		return c.origin(x.X)
	case *ast.StarExpr:
		return c.origin(x.X)
	case *ast.UnaryExpr:
		if x.Op == token.AND {
			return c.origin(x.X)
		}
	case *ast.BasicLit:
		return x.Value
	case *ast.CallExpr:
		if isConversion(x) {
			return c.origin(x.Args[0])
		}
		return c.resultOrigin(x, 0)
	case *ast.SelectorExpr:
		return c.origin(x.X) + "." + x.Sel.Name
	case *ast.IndexExpr:
		return c.origin(x.X) + "[" + src(x.Index) + "]"
	case *ast.SliceExpr:
		if x.Low == nil && x.High == nil {
			return c.origin(x.X)
		}
	case *ast.Ident:
		if fNeutral[x.Name] {
			return x.Name
		}
		if b, ok := c.bind[x.Name]; ok {
			return b.c.origin(b.e)
		}
		set := map[string]bool{}
		ast.Inspect(c.fd.Body, func(m ast.Node) bool {
			a, ok := m.(*ast.AssignStmt)
			if !ok {
				return true
			}
			for i, l := range a.Lhs {
				if id, ok := l.(*ast.Ident); ok && id.Name == x.Name {
					var o string
					if len(a.Rhs) == 1 && len(a.Lhs) > 1 {
						if call, ok := a.Rhs[0].(*ast.CallExpr); ok {
							o = c.resultOrigin(call, i)
						} else {
							o = "?" + src(a.Rhs[0])
						}
					} else if i < len(a.Rhs) {
						if rid, ok := a.Rhs[i].(*ast.Ident); ok && rid.Name == x.Name {
							continue
						}
						o = c.origin(a.Rhs[i])
					}
					if !fNeutral[o] {
						set[o] = true
					}
				}
			}
			return true
		})
		if len(set) == 1 {
			for o := range set {
				return o
			}
		}
		if len(set) > 1 {
			var os []string
			for o := range set {
				os = append(os, o)
			}
			sort.Strings(os)
			return "{" + strings.Join(os, "|") + "}"
		}
		return "$" + x.Name
	}
	return "?" + src(e)
}

// walk visits every node of the function and of the same-file functions it calls (parameters bound to the arguments).
func (c *fctx) walk(visit func(c *fctx, n ast.Node)) {
	ast.Inspect(c.fd.Body, func(n ast.Node) bool {
		if n == nil {
			return true
		}
		visit(c, n)
		if call, ok := n.(*ast.CallExpr); ok {
			if fd := c.callee(call); fd != nil && fd != c.fd {
				c.enter(call, fd).walk(visit)
			}
		}
		return true
	})
}

func rootCtx(rel, fn string) *fctx {
	return &fctx{file: parseFile(rp(rel)), fd: mustFunc(rel, fn), bind: map[string]fbound{}}
}

// fieldOrigins: origins of the given fields of the unique composite literal of type litType reachable from fn.
func fieldOrigins(rel, fn, litType string, fields []string) []string {
	var res [][]string
	rootCtx(rel, fn).walk(func(c *fctx, n ast.Node) {
		cl, ok := n.(*ast.CompositeLit)
		if !ok || cl.Type == nil || src(cl.Type) != litType || len(cl.Elts) == 0 { // `T{}` on error paths is the zero value, not a response
			return
		}
		var os []string
		for _, f := range fields {
			o := "<absent>"
			for _, el := range cl.Elts {
				if kv, ok := el.(*ast.KeyValueExpr); ok && src(kv.Key) == f {
					o = c.origin(kv.Value)
				}
			}
			os = append(os, o)
		}
		res = append(res, os)
	})
	if len(res) != 1 {
		panic(bail{fmt.Sprintf("%s: expected exactly one %s{…} reachable from %s, found %d", rel, litType, fn, len(res))})
	}
	return res[0]
}

// flowTuple emits `def name params : ty := (a, b, …)` where each component is the Lean name of the origin of a field.
func flowTuple(rel, fn, litType string, fields []string, names map[string]string, leanName, params, resultTy string) func() string {
	return func() string {
		os := fieldOrigins(rel, fn, litType, fields)
		var vals, doc []string
		for i, o := range os {
			v, ok := names[o]
			if !ok {
				panic(bail{fmt.Sprintf("%s: %s.%s in %s comes from `%s`, which is none of the expected sources", rel, litType, fields[i], fn, o)})
			}
			vals = append(vals, v)
			doc = append(doc, fields[i]+" ← "+o)
		}
		return fmt.Sprintf("/-- generated from %s func %s (and the same-file helpers it calls): %s{%s} -/\ndef %s %s : %s :=\n  (%s)\n",
			rel, fn, litType, strings.Join(doc, ", "), leanName, params, resultTy, strings.Join(vals, ", "))
	}
}

// flowAssign: the (unique, apart from nil / emptyProof normalisation) origin of what is assigned to a field selector `.field`.
func flowAssign(rel, fn, field string, names map[string]string, leanName, params, resultTy string) func() string {
	return func() string {
		set := map[string]bool{}
		rootCtx(rel, fn).walk(func(c *fctx, n ast.Node) {
			a, ok := n.(*ast.AssignStmt)
			if !ok {
				return
			}
			for i, l := range a.Lhs {
				if sel, ok := l.(*ast.SelectorExpr); ok && sel.Sel.Name == field && i < len(a.Rhs) {
					if o := c.origin(a.Rhs[i]); !fNeutral[o] {
						set[o] = true
					}
				}
			}
		})
		if len(set) != 1 {
			panic(bail{fmt.Sprintf("%s: expected exactly one source assigned to .%s from %s, found %d", rel, field, fn, len(set))})
		}
		for o := range set {
			v, ok := names[o]
			if !ok {
				panic(bail{fmt.Sprintf("%s: .%s in %s comes from `%s`, which is not the expected source", rel, field, fn, o)})
			}
			return fmt.Sprintf("/-- generated from %s func %s (and helpers): .%s ← %s -/\ndef %s %s : %s :=\n  %s\n", rel, fn, field, o, leanName, params, resultTy, v)
		}
		return ""
	}
}

// rootGuard: the unique `if <root>.TreeSize < uint64(<size>) { return … }` reachable from fn (either operand order), where <size>
// has the wanted origin. Emitted in one canonical form.
func rootGuard(rel, fn, sizeOrigin, leanName, sizeParam string) func() string {
	return func() string {
		var ops []string
		rootCtx(rel, fn).walk(func(c *fctx, n ast.Node) {
			i, ok := n.(*ast.IfStmt)
			if !ok {
				return
			}
			b, ok := i.Cond.(*ast.BinaryExpr)
			if !ok {
				return
			}
			l, r, op := b.X, b.Y, b.Op
			if !strings.HasSuffix(c.origin(l), ".TreeSize") {
				l, r = r, l
				op = map[token.Token]token.Token{token.LSS: token.GTR, token.GTR: token.LSS, token.LEQ: token.GEQ, token.GEQ: token.LEQ}[op]
			}
			if !strings.HasSuffix(c.origin(l), ".TreeSize") || c.origin(r) != sizeOrigin {
				return
			}
			ret := false
			for _, s := range i.Body.List {
				if _, ok := s.(*ast.ReturnStmt); ok {
					ret = true
				}
			}
			if ret {
				ops = append(ops, op.String())
			}
		})
		if len(ops) != 1 {
			panic(bail{fmt.Sprintf("%s: expected exactly one returning guard comparing a root's TreeSize with %s reachable from %s, found %d", rel, sizeOrigin, fn, len(ops))})
		}
		lean := map[string]string{"<": "<", "<=": "≤"}[ops[0]]
		if lean == "" {
			panic(bail{fmt.Sprintf("%s: the tree-size guard of %s uses `%s`", rel, fn, ops[0])})
		}
		return fmt.Sprintf("/-- generated from %s func %s (and helpers): `if <root>.TreeSize %s uint64(<%s>) { return … }` -/\ndef %s (rootSize_ %s : Int) : Bool :=\n  (decide (rootSize_ %s (U64.wrap %s)))\n",
			rel, fn, ops[0], sizeOrigin, leanName, sizeParam, lean, sizeParam)
	}
}

func (c *fctx) reaches(n ast.Node, callee string) bool {
	found := false
	if n == nil {
		return false
	}
	ast.Inspect(n, func(m ast.Node) bool {
		if call, ok := m.(*ast.CallExpr); ok {
			if lastName(call.Fun) == callee {
				found = true
			} else if fd := c.callee(call); fd != nil && fd != c.fd {
				if c.enter(call, fd).reaches(fd.Body, callee) {
					found = true
				}
			}
		}
		return !found
	})
	return found
}

// needsBackend: the backend call `rpc` of fn is made exactly when <value of origin> ≠ 0 (`if v != 0 { rpc }`, `if v == 0 {…} else { rpc }`
// or `if v == 0 { … return }; rpc`).
func needsBackend(rel, fn, valOrigin, rpc, leanName, param string) func() string {
	return func() string {
		c := rootCtx(rel, fn)
		var verdicts []bool
		ast.Inspect(c.fd.Body, func(n ast.Node) bool {
			i, ok := n.(*ast.IfStmt)
			if !ok {
				return true
			}
			b, ok := i.Cond.(*ast.BinaryExpr)
			if !ok || (b.Op != token.NEQ && b.Op != token.EQL) {
				return true
			}
			x, y := b.X, b.Y
			if c.origin(x) == "0" {
				x, y = y, x
			}
			if c.origin(x) != valOrigin || c.origin(y) != "0" {
				return true
			}
			inThen, inElse := c.reaches(i.Body, rpc), c.reaches(i.Else, rpc)
			if b.Op == token.NEQ && inThen && !inElse {
				verdicts = append(verdicts, true)
			} else if b.Op == token.EQL && !inThen && (inElse || c.reaches(c.fd.Body, rpc)) {
				verdicts = append(verdicts, true)
			} else {
				verdicts = append(verdicts, false)
			}
			return true
		})
		if len(verdicts) != 1 || !verdicts[0] {
			panic(bail{fmt.Sprintf("%s: in %s the call %s is not guarded by exactly one test of %s against 0 (%v)", rel, fn, rpc, valOrigin, verdicts)})
		}
		return fmt.Sprintf("/-- generated from %s func %s: the backend call %s is made exactly when <%s> ≠ 0 -/\ndef %s (%s : Int) : Bool :=\n  (decide (%s ≠ (0 : Int)))\n",
			rel, fn, rpc, valOrigin, leanName, param, param)
	}
}

// badSizeGuard: the unique returning `if <parse failed> || <size> < 1` of fn (either order; `<= 0` is the same test).
func badSizeGuard(rel, fn, sizeOrigin, leanName string) func() string {
	return func() string {
		c := rootCtx(rel, fn)
		n := 0
		isErr := func(e ast.Expr) bool {
			b, ok := e.(*ast.BinaryExpr)
			return ok && b.Op == token.NEQ && src(b.Y) == "nil"
		}
		isSmall := func(e ast.Expr) bool {
			b, ok := e.(*ast.BinaryExpr)
			if !ok || c.origin(b.X) != sizeOrigin {
				return false
			}
			return (b.Op == token.LSS && c.origin(b.Y) == "1") || (b.Op == token.LEQ && c.origin(b.Y) == "0")
		}
		ast.Inspect(c.fd.Body, func(m ast.Node) bool {
			if i, ok := m.(*ast.IfStmt); ok {
				if b, ok := i.Cond.(*ast.BinaryExpr); ok && b.Op == token.LOR {
					if (isErr(b.X) && isSmall(b.Y)) || (isSmall(b.X) && isErr(b.Y)) {
						n++
					}
				}
			}
			return true
		})
		if n != 1 {
			panic(bail{fmt.Sprintf("%s: expected exactly one `if err != nil || <%s> < 1` in %s, found %d", rel, sizeOrigin, fn, n)})
		}
		return fmt.Sprintf("/-- generated from %s func %s: `if <parse failed> || <%s> < 1` -/\ndef %s (parseErr : Bool) (treeSize_ : Int) : Bool :=\n  (parseErr || (decide (treeSize_ < (1 : Int))))\n", rel, fn, sizeOrigin, leanName)
	}
}

// resolvedFieldKernel: the value of `field` of the unique composite literal litType reachable from fn, with hoisted locals and
// package constants substituted and `<anything>.<Sel>` replaced by a canonical identifier, translated by the generic translator.
func resolvedFieldKernel(rel, fn, litType, field string, sels map[string]string, leanName, params, resultTy string, sp Spec) func() string {
	return func() string {
		file := parseFile(rp(rel))
		consts := map[string]ast.Expr{}
		for _, d := range file.Decls {
			if gd, ok := d.(*ast.GenDecl); ok && gd.Tok == token.CONST {
				for _, s := range gd.Specs {
					vs := s.(*ast.ValueSpec)
					for i, n := range vs.Names {
						if i < len(vs.Values) {
							consts[n.Name] = vs.Values[i]
						}
					}
				}
			}
		}
		var found []struct {
			c *fctx
			e ast.Expr
		}
		rootCtx(rel, fn).walk(func(c *fctx, n ast.Node) {
			if cl, ok := n.(*ast.CompositeLit); ok && cl.Type != nil && src(cl.Type) == litType {
				for _, el := range cl.Elts {
					if kv, ok := el.(*ast.KeyValueExpr); ok && src(kv.Key) == field {
						found = append(found, struct {
							c *fctx
							e ast.Expr
						}{c, kv.Value})
					}
				}
			}
		})
		if len(found) != 1 {
			panic(bail{fmt.Sprintf("%s: expected exactly one %s{…%s: …} reachable from %s, found %d", rel, litType, field, fn, len(found))})
		}
		var rw func(c *fctx, e ast.Expr, depth int) ast.Expr
		rw = func(c *fctx, e ast.Expr, depth int) ast.Expr {
			if depth > 8 {
				return e
			}
			switch x := e.(type) {
			case *ast.ParenExpr:
				return &ast.ParenExpr{X: rw(c, x.X, depth+1)}
			case *ast.BinaryExpr:
				return &ast.BinaryExpr{X: rw(c, x.X, depth+1), Op: x.Op, Y: rw(c, x.Y, depth+1)}
			case *ast.CallExpr:
				if isConversion(x) {
					return &ast.CallExpr{Fun: x.Fun, Args: []ast.Expr{rw(c, x.Args[0], depth+1)}}
				}
			case *ast.SelectorExpr:
				if v, ok := sels[x.Sel.Name]; ok {
					return ast.NewIdent(v)
				}
			case *ast.Ident:
				if v, ok := consts[x.Name]; ok {
					return &ast.ParenExpr{X: rw(c, v, depth+1)}
				}
				if b, ok := c.bind[x.Name]; ok {
					return rw(b.c, b.e, depth+1)
				}
				var defs []ast.Expr
				ast.Inspect(c.fd.Body, func(m ast.Node) bool {
					if a, ok := m.(*ast.AssignStmt); ok && len(a.Lhs) == len(a.Rhs) {
						for i, l := range a.Lhs {
							if id, ok := l.(*ast.Ident); ok && id.Name == x.Name {
								defs = append(defs, a.Rhs[i])
							}
						}
					}
					return true
				})
				if len(defs) == 1 {
					return rw(c, defs[0], depth+1)
				}
			}
			return e
		}
		e := rw(found[0].c, found[0].e, 0)
		t := &tr{sp: sp}
		return fmt.Sprintf("/-- generated from %s func %s: the value of %s.%s (`%s`, locals and constants substituted: `%s`) -/\ndef %s %s : %s :=\n  %s\n",
			rel, fn, litType, field, src(found[0].e), src(e), leanName, params, resultTy, t.expr(e))
	}
}
