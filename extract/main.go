// extract: regenerates lean/CTV/Gen/*.lean from /repo's current working tree.
//
//	extract -repo /repo -out /verif/lean/CTV/Gen
//
// Exit status 0: every kernel and fact table was regenerated. Exit status 2: a
// function left the translatable subset or an anchor was not found; the
// offending node is printed as `EXTRACT-FAIL <unit> <reason>` (one line each)
// and the unit's Lean file is left without that definition, so every theorem
// about it fails to build (a broken tie is never silently skipped).
package main

import (
	"flag"
	"fmt"
	"go/ast"
	"go/token"
	"os"
	"path/filepath"
	"sort"
	"strconv"
	"strings"
)

var repo = flag.String("repo", "/repo", "repository root")
var outDir = flag.String("out", "", "output directory (lean/CTV/Gen)")

type unit struct {
	name string
	gen  func() string
}

type genFile struct {
	name    string // Lean module basename
	imports []string
	units   []unit
}

var failures []string

func runUnit(u unit) (out string) {
	defer func() {
		if r := recover(); r != nil {
			if b, ok := r.(bail); ok {
				failures = append(failures, fmt.Sprintf("EXTRACT-FAIL %s %s", u.name, b.msg))
				out = fmt.Sprintf("-- EXTRACT-FAIL %s: %s\n", u.name, b.msg)
				return
			}
			panic(r)
		}
	}()
	return u.gen()
}

func rp(rel string) string { return filepath.Join(*repo, rel) }

func mustFunc(rel, name string) *ast.FuncDecl {
	file := parseFile(rp(rel))
	fd := findFunc(file, name)
	if fd == nil {
		// a function turned into a method (or back), or the receiver type renamed: the unique declaration with that bare name
		bare := name
		if i := strings.LastIndex(name, "."); i >= 0 {
			bare = name[i+1:]
		}
		n := 0
		for _, d := range file.Decls {
			if g, ok := d.(*ast.FuncDecl); ok && g.Name.Name == bare {
				fd = g
				n++
			}
		}
		if n != 1 {
			fd = nil
		}
	}
	if fd == nil {
		panic(bail{fmt.Sprintf("function %s not found in %s", name, rel)})
	}
	return fd
}

// funcKernel translates a whole function body.
func funcKernel(rel, fn, leanName, params, resultTy string, sp Spec) func() string {
	return func() string {
		fd := mustFunc(rel, fn)
		t := &tr{sp: sp, file: parseFile(rp(rel))}
		t.prepare(fd)
		fd, t = t.unwrap(fd)
		body := t.block(fd.Body.List, "none", "  ")
		return fmt.Sprintf("/-- generated from %s func %s -/\ndef %s %s : %s :=\n  %s\n", rel, fn, leanName, params, resultTy, body)
	}
}

// loopBodyKernel translates the body of the unique `for` statement of fn whose header source contains marker;
// falling off the end of the body yields `tail`.
func loopBodyKernel(rel, fn, marker, leanName, params, resultTy, tail string, sp Spec) func() string {
	return func() string {
		fd := mustFunc(rel, fn)
		t := &tr{sp: sp}
		var body *ast.BlockStmt
		n := 0
		ast.Inspect(fd.Body, func(nd ast.Node) bool {
			switch f := nd.(type) {
			case *ast.ForStmt:
				hdr := ""
				if f.Init != nil {
					hdr += src(f.Init)
				}
				if f.Cond != nil {
					hdr += "; " + src(f.Cond)
				}
				if strings.Contains(hdr, marker) {
					body = f.Body
					n++
				}
			case *ast.RangeStmt:
				if strings.Contains(src(f.X), marker) {
					body = f.Body
					n++
				}
			}
			return true
		})
		if n != 1 {
			panic(bail{fmt.Sprintf("%s: expected exactly one loop over %q in %s, found %d", rel, marker, fn, n)})
		}
		return fmt.Sprintf("/-- generated from %s func %s: body of the loop over `%s` -/\ndef %s %s : %s :=\n  %s\n", rel, fn, marker, leanName, params, resultTy, t.block(body.List, tail, "  "))
	}
}

// exprKernel translates the right-hand side of the first assignment to `lhs` inside fn.
func assignKernel(rel, fn, lhs, leanName, params, resultTy string, sp Spec) func() string {
	return func() string {
		fd := mustFunc(rel, fn)
		t := &tr{sp: sp}
		ss := findStmts(fd, func(s ast.Stmt) bool {
			a, ok := s.(*ast.AssignStmt)
			return ok && len(a.Lhs) == 1 && len(a.Rhs) == 1 && src(a.Lhs[0]) == lhs
		})
		if len(ss) != 1 {
			panic(bail{fmt.Sprintf("%s: expected exactly one assignment to %s in %s, found %d", rel, lhs, fn, len(ss))})
		}
		e := t.expr(ss[0].(*ast.AssignStmt).Rhs[0])
		return fmt.Sprintf("/-- generated from %s func %s: `%s` -/\ndef %s %s : %s :=\n  %s\n", rel, fn, src(ss[0]), leanName, params, resultTy, e)
	}
}

// fieldValueKernel translates the value given to `field` in the unique composite literal of type litType inside fn; when the
// value is a local, its unique defining assignment is followed (so the unit does not depend on the local's name).
func fieldValueKernel(rel, fn, litType, field, leanName, params, resultTy string, sp Spec) func() string {
	return func() string {
		fd := mustFunc(rel, fn)
		t := &tr{sp: sp}
		var vals []ast.Expr
		ast.Inspect(fd.Body, func(n ast.Node) bool {
			if cl, ok := n.(*ast.CompositeLit); ok && cl.Type != nil && src(cl.Type) == litType {
				for _, el := range cl.Elts {
					if kv, ok := el.(*ast.KeyValueExpr); ok && src(kv.Key) == field {
						vals = append(vals, kv.Value)
					}
				}
			}
			return true
		})
		if len(vals) != 1 {
			panic(bail{fmt.Sprintf("%s: expected exactly one %s{…%s: …} in %s, found %d", rel, litType, field, fn, len(vals))})
		}
		v := vals[0]
		origin := src(v)
		if id, ok := v.(*ast.Ident); ok {
			ss := findStmts(fd, func(s ast.Stmt) bool {
				a, ok := s.(*ast.AssignStmt)
				return ok && len(a.Lhs) == 1 && len(a.Rhs) == 1 && src(a.Lhs[0]) == id.Name
			})
			if len(ss) != 1 {
				panic(bail{fmt.Sprintf("%s: %s.%s is the local %s, which has %d assignments in %s (expected 1)", rel, litType, field, id.Name, len(ss), fn)})
			}
			v = ss[0].(*ast.AssignStmt).Rhs[0]
			origin = src(ss[0])
		}
		return fmt.Sprintf("/-- generated from %s func %s: the value of %s.%s (`%s`) -/\ndef %s %s : %s :=\n  %s\n", rel, fn, litType, field, origin, leanName, params, resultTy, t.expr(v))
	}
}

// loopVerdictKernel translates the body of the unique range loop of fn whose ranged-over expression contains marker into a verdict
// per element: `return` = sp.ReturnVal, `continue` = sp.ContinueVal, falling off the end = fall. The loop's value variable is
// known to the Spec's keys as canonVal whatever its name in the source.
func loopVerdictKernel(rel, fn, marker, canonVal, leanName, params, resultTy, fall string, sp Spec) func() string {
	return func() string {
		fd := mustFunc(rel, fn)
		t := &tr{sp: sp, file: parseFile(rp(rel))}
		t.prepare(fd)
		var loops []*ast.RangeStmt
		ast.Inspect(fd.Body, func(n ast.Node) bool {
			if r, ok := n.(*ast.RangeStmt); ok && strings.Contains(norm(src(t.subst(r.X))), norm(marker)) {
				loops = append(loops, r)
			}
			if f, ok := n.(*ast.ForStmt); ok && f.Cond != nil && strings.Contains(norm(src(t.subst(f.Cond))), "len("+norm(marker)) {
				// `for i := 0; i < len(X); i++`: the same loop, X[i] standing for the element
				sp2 := t.sp
				if sp2.RangeCond == nil {
					sp2.RangeCond = map[string]string{}
				}
				t.sp.RangeCond = map[string]string{}
				for k, v := range sp2.RangeCond {
					t.sp.RangeCond[k] = v
				}
				if lc, ok := f.Cond.(*ast.BinaryExpr); ok {
					if c, ok := lc.Y.(*ast.CallExpr); ok && len(c.Args) == 1 {
						t.sp.RangeCond["elem:"+src(t.subst(c.Args[0]))] = canonVal
					}
				}
				if r, ok := t.indexLoopAsRange(f); ok {
					loops = append(loops, r)
				}
			}
			return true
		})
		if len(loops) != 1 {
			panic(bail{fmt.Sprintf("%s: expected exactly one range loop over %q in %s, found %d", rel, marker, fn, len(loops))})
		}
		r := loops[0]
		t.aliasesOnPathTo(r)
		if id, ok := r.Value.(*ast.Ident); ok && canonVal != "" && id.Name != canonVal {
			t.alias(id.Name, ast.NewIdent(canonVal))
		}
		return fmt.Sprintf("/-- generated from %s func %s: body of the loop over `%s`, as a verdict per element -/\ndef %s %s : %s :=\n  %s\n",
			rel, fn, src(r.X), leanName, params, resultTy, sp.Prelude+t.block(r.Body.List, fall, "  "))
	}
}

// foreverBodyKernel translates the body of the unique `for { … }` (no init, condition or post statement) of fn: one iteration of
// the loop as a function of what the iteration observes; falling off the end of the body (next iteration) yields `fall`.
func foreverBodyKernel(rel, fn, leanName, params, resultTy, fall string, sp Spec) func() string {
	return func() string {
		fd := mustFunc(rel, fn)
		t := &tr{sp: sp, file: parseFile(rp(rel))}
		t.prepare(fd)
		var loops []*ast.ForStmt
		ast.Inspect(fd.Body, func(n ast.Node) bool {
			if f, ok := n.(*ast.ForStmt); ok && f.Init == nil && f.Cond == nil && f.Post == nil {
				loops = append(loops, f)
			}
			return true
		})
		if len(loops) != 1 {
			panic(bail{fmt.Sprintf("%s: expected exactly one `for { … }` in %s, found %d", rel, fn, len(loops))})
		}
		t.aliasesOnPathTo(loops[0])
		return fmt.Sprintf("/-- generated from %s func %s: one iteration of its `for { … }` loop -/\ndef %s %s : %s :=\n  %s%s\n",
			rel, fn, leanName, params, resultTy, sp.Prelude, t.block(loops[0].Body.List, fall, "  "))
	}
}

// condKernel translates the condition of the unique `if` in fn whose condition source contains every marker.
func condKernel(rel, fn string, markers []string, leanName, params string, sp Spec) func() string {
	return func() string {
		fd := mustFunc(rel, fn)
		t := &tr{sp: sp, file: parseFile(rp(rel))}
		t.prepare(fd)
		base := map[string]ast.Expr{}
		for k, v := range t.aliases {
			base[k] = v
		}
		ss := findStmts(fd, func(s ast.Stmt) bool {
			i, ok := s.(*ast.IfStmt)
			if !ok {
				return false
			}
			t.aliases = map[string]ast.Expr{}
			for k, v := range base {
				t.aliases[k] = v
			}
			t.aliasesOnPathTo(i)
			t.aliasIfInit(i)
			c := norm(src(t.subst(i.Cond)))
			for _, m := range markers {
				if !strings.Contains(c, norm(m)) {
					return false
				}
			}
			return true
		})
		if len(ss) == 1 {
			t.aliases = map[string]ast.Expr{}
			for k, v := range base {
				t.aliases[k] = v
			}
			t.aliasesOnPathTo(ss[0])
			t.aliasIfInit(ss[0].(*ast.IfStmt))
		}
		if len(ss) == 0 && sp.Canon {
			// not in fn itself: look in the same-file helpers fn calls, their parameters standing for the call's arguments
			t.aliases = map[string]ast.Expr{}
			for k, v := range base {
				t.aliases[k] = v
			}
			type hit struct {
				t2 *tr
				i  *ast.IfStmt
				fn string
			}
			var hits []hit
			ast.Inspect(fd.Body, func(n ast.Node) bool {
				c, ok := n.(*ast.CallExpr)
				if !ok {
					return true
				}
				hfd, recv := t.resolveHelper(c)
				if hfd == nil || hfd.Body == nil || hfd == fd {
					return true
				}
				hsp := sp
				hsp.ParamNames = nil
				t.aliasesOnPathTo(c)
				t2, ok := t.bindHelper(hfd, recv, c, hsp)
				if !ok {
					return true
				}
				t2.fd = hfd
				hbase := map[string]ast.Expr{}
				for k, v := range t2.aliases {
					hbase[k] = v
				}
				for _, st := range findStmts(hfd, func(s ast.Stmt) bool { _, ok := s.(*ast.IfStmt); return ok }) {
					i := st.(*ast.IfStmt)
					t2.aliases = map[string]ast.Expr{}
					for k, v := range hbase {
						t2.aliases[k] = v
					}
					t2.aliasesOnPathTo(i)
					t2.aliasIfInit(i)
					cnd := norm(src(t2.subst(i.Cond)))
					all := true
					for _, m := range markers {
						all = all && strings.Contains(cnd, norm(m))
					}
					if all {
						t3 := &tr{sp: hsp, file: t.file, fd: hfd, aliases: t2.aliases}
						hits = append(hits, hit{t3, i, hfd.Name.Name})
					}
				}
				return true
			})
			if len(hits) == 1 {
				h := hits[0]
				return fmt.Sprintf("/-- generated from %s func %s (in its helper %s): `if %s` -/\ndef %s %s : Bool :=\n  %s\n", rel, fn, h.fn, src(h.i.Cond), leanName, params, h.t2.expr(h.i.Cond))
			}
			panic(bail{fmt.Sprintf("%s: expected exactly one `if` mentioning %v in %s or the helpers it calls, found %d", rel, markers, fn, len(hits))})
		}
		if len(ss) != 1 {
			panic(bail{fmt.Sprintf("%s: expected exactly one `if` mentioning %v in %s, found %d", rel, markers, fn, len(ss))})
		}
		i := ss[0].(*ast.IfStmt)
		return fmt.Sprintf("/-- generated from %s func %s: `if %s` -/\ndef %s %s : Bool :=\n  %s\n", rel, fn, src(i.Cond), leanName, params, t.expr(i.Cond))
	}
}

// constKernel emits an integer constant / package variable with a literal initialiser.
func constKernel(rel, name, leanName string, eval func(ast.Expr) (string, bool)) func() string {
	return func() string {
		f := parseFile(rp(rel))
		for _, d := range f.Decls {
			gd, ok := d.(*ast.GenDecl)
			if !ok || (gd.Tok != token.CONST && gd.Tok != token.VAR) {
				continue
			}
			for _, s := range gd.Specs {
				vs := s.(*ast.ValueSpec)
				for i, n := range vs.Names {
					if n.Name == name && i < len(vs.Values) {
						v, ok := eval(vs.Values[i])
						if !ok {
							panic(bail{fmt.Sprintf("%s: initialiser of %s is not a supported literal: %s", rel, name, src(vs.Values[i]))})
						}
						return fmt.Sprintf("/-- generated from %s: `%s = %s` -/\ndef %s : Int := %s\n", rel, name, src(vs.Values[i]), leanName, v)
					}
				}
			}
		}
		panic(bail{fmt.Sprintf("%s: constant %s not found", rel, name)})
	}
}

func intLit(e ast.Expr) (string, bool) {
	if b, ok := e.(*ast.BasicLit); ok && b.Kind == token.INT {
		if _, err := strconv.ParseInt(b.Value, 0, 64); err == nil {
			return b.Value, true
		}
	}
	return "", false
}

// durLit evaluates `N * time.Unit` / `time.Unit * N` / `time.Unit` into nanoseconds.
func durLit(e ast.Expr) (string, bool) {
	units := map[string]int64{"time.Nanosecond": 1, "time.Microsecond": 1000, "time.Millisecond": 1000000, "time.Second": 1000000000, "time.Minute": 60000000000, "time.Hour": 3600000000000}
	if u, ok := units[src(e)]; ok {
		return strconv.FormatInt(u, 10), true
	}
	if b, ok := e.(*ast.BinaryExpr); ok && b.Op == token.MUL {
		l, lok := durLit(b.X)
		r, rok := durLit(b.Y)
		if !lok {
			l, lok = intLit(b.X)
		}
		if !rok {
			r, rok = intLit(b.Y)
		}
		if lok && rok {
			x, _ := strconv.ParseInt(l, 0, 64)
			y, _ := strconv.ParseInt(r, 0, 64)
			return strconv.FormatInt(x*y, 10), true
		}
	}
	return "", false
}

// switchTable: a `switch` whose cases return constants, as an association list.
func switchTable(rel, fn, tagMarker, leanName string, keyVal, retVal func(ast.Expr) (string, bool)) func() string {
	return func() string {
		fd := mustFunc(rel, fn)
		ss := findStmts(fd, func(s ast.Stmt) bool {
			sw, ok := s.(*ast.SwitchStmt)
			return ok && sw.Tag != nil && strings.Contains(src(sw.Tag), tagMarker)
		})
		if len(ss) == 0 {
			if out, ok := statusMapTable(rel, fd, tagMarker, leanName, keyVal, retVal); ok {
				return out
			}
		}
		if len(ss) != 1 {
			panic(bail{fmt.Sprintf("%s: expected one switch on %s in %s, found %d", rel, tagMarker, fn, len(ss))})
		}
		sw := ss[0].(*ast.SwitchStmt)
		var rows []string
		def := ""
		for _, c := range sw.Body.List {
			cc := c.(*ast.CaseClause)
			if len(cc.Body) != 1 {
				panic(bail{fmt.Sprintf("%s: case body is not a single return: %s", rel, src(cc))})
			}
			r, ok := cc.Body[0].(*ast.ReturnStmt)
			if !ok || len(r.Results) != 1 {
				panic(bail{fmt.Sprintf("%s: case body is not a single-value return: %s", rel, src(cc))})
			}
			v, ok := retVal(r.Results[0])
			if !ok {
				panic(bail{fmt.Sprintf("%s: unknown return constant %s", rel, src(r.Results[0]))})
			}
			if cc.List == nil {
				def = v
				continue
			}
			for _, k := range cc.List {
				kv, ok := keyVal(k)
				if !ok {
					panic(bail{fmt.Sprintf("%s: unknown case constant %s", rel, src(k))})
				}
				rows = append(rows, "("+kv+", "+v+")")
			}
		}
		if def == "" {
			panic(bail{fmt.Sprintf("%s: switch in %s has no default", rel, fn)})
		}
		return fmt.Sprintf("/-- generated from %s func %s: switch %s -/\ndef %s : List (Nat × Nat) :=\n  [%s]\ndef %sDefault : Nat := %s\n",
			rel, fn, src(sw.Tag), leanName, strings.Join(rows, ", "), leanName, def)
	}
}

// statusMapTable: the same table when the function looks the tag up in a package-level map literal instead of switching on it:
// `if v, ok := table[tag]; ok { return v }; return <default>`.
func statusMapTable(rel string, fd *ast.FuncDecl, tagMarker, leanName string, keyVal, retVal func(ast.Expr) (string, bool)) (string, bool) {
	file := parseFile(rp(rel))
	var idx *ast.IndexExpr
	n := 0
	ast.Inspect(fd.Body, func(nd ast.Node) bool {
		if ix, ok := nd.(*ast.IndexExpr); ok && strings.Contains(src(ix.Index), tagMarker) {
			idx = ix
			n++
		}
		return true
	})
	id, isId := (ast.Expr)(nil), false
	if idx != nil {
		id, isId = idx.X, true
	}
	name, ok := id.(*ast.Ident)
	if n != 1 || !isId || !ok {
		return "", false
	}
	var lit *ast.CompositeLit
	for _, d := range file.Decls {
		if gd, ok := d.(*ast.GenDecl); ok {
			for _, sp := range gd.Specs {
				if vs, ok := sp.(*ast.ValueSpec); ok {
					for i, nm := range vs.Names {
						if nm.Name == name.Name && i < len(vs.Values) {
							lit, _ = vs.Values[i].(*ast.CompositeLit)
						}
					}
				}
			}
		}
	}
	if lit == nil {
		return "", false
	}
	var rows []string
	for _, el := range lit.Elts {
		kv, ok := el.(*ast.KeyValueExpr)
		if !ok {
			return "", false
		}
		k, ok1 := keyVal(kv.Key)
		v, ok2 := retVal(kv.Value)
		if !ok1 || !ok2 {
			panic(bail{fmt.Sprintf("%s: unknown constant in table %s: %s", rel, name.Name, src(kv))})
		}
		rows = append(rows, "("+k+", "+v+")")
	}
	// the default: the last return of the function
	var last *ast.ReturnStmt
	if len(fd.Body.List) > 0 {
		last, _ = fd.Body.List[len(fd.Body.List)-1].(*ast.ReturnStmt)
	}
	if last == nil || len(last.Results) != 1 {
		return "", false
	}
	def, ok := retVal(last.Results[0])
	if !ok {
		return "", false
	}
	return fmt.Sprintf("/-- generated from %s func %s: lookup of %s in the table %s, default = the final return -/\ndef %s : List (Nat × Nat) :=\n  [%s]\ndef %sDefault : Nat := %s\n",
		rel, fd.Name.Name, tagMarker, name.Name, leanName, strings.Join(rows, ", "), leanName, def), true
}

// gRPC status codes (google.golang.org/grpc/codes; external dependency, fixed by go.mod).
var grpcCodes = map[string]int{"codes.OK": 0, "codes.Canceled": 1, "codes.Unknown": 2, "codes.InvalidArgument": 3,
	"codes.DeadlineExceeded": 4, "codes.NotFound": 5, "codes.AlreadyExists": 6, "codes.PermissionDenied": 7,
	"codes.ResourceExhausted": 8, "codes.FailedPrecondition": 9, "codes.Aborted": 10, "codes.OutOfRange": 11,
	"codes.Unimplemented": 12, "codes.Internal": 13, "codes.Unavailable": 14, "codes.DataLoss": 15, "codes.Unauthenticated": 16}

// net/http status names (standard library).
var httpStatus = map[string]int{"http.StatusOK": 200, "http.StatusBadRequest": 400, "http.StatusUnauthorized": 401,
	"http.StatusForbidden": 403, "http.StatusNotFound": 404, "http.StatusMethodNotAllowed": 405, "http.StatusRequestTimeout": 408,
	"http.StatusConflict": 409, "http.StatusPreconditionFailed": 412, "http.StatusTooManyRequests": 429,
	"http.StatusInternalServerError": 500, "http.StatusNotImplemented": 501, "http.StatusBadGateway": 502,
	"http.StatusServiceUnavailable": 503, "http.StatusGatewayTimeout": 504}

func fromMap(m map[string]int) func(ast.Expr) (string, bool) {
	return func(e ast.Expr) (string, bool) {
		if v, ok := m[src(e)]; ok {
			return strconv.Itoa(v), true
		}
		if b, ok := e.(*ast.BasicLit); ok && b.Kind == token.INT {
			return b.Value, true
		}
		return "", false
	}
}

func main() {
	flag.Parse()
	if *outDir == "" {
		fmt.Fprintln(os.Stderr, "usage: extract -repo /repo -out <dir>")
		os.Exit(64)
	}
	files := allFiles()
	if err := os.MkdirAll(*outDir, 0o755); err != nil {
		panic(err)
	}
	want := map[string]bool{}
	for _, gf := range files {
		var sb strings.Builder
		sb.WriteString("-- GENERATED by /verif/extract from /repo's working tree. Do not edit: rewritten on every run.\n")
		for _, im := range gf.imports {
			sb.WriteString("import " + im + "\n")
		}
		sb.WriteString("\nnamespace Gen\n\n")
		for _, u := range gf.units {
			sb.WriteString(runUnit(u))
			sb.WriteString("\n")
		}
		sb.WriteString("end Gen\n")
		p := filepath.Join(*outDir, gf.name+".lean")
		want[gf.name+".lean"] = true
		old, err := os.ReadFile(p)
		if err == nil && string(old) == sb.String() {
			continue
		}
		if err := os.WriteFile(p, []byte(sb.String()), 0o644); err != nil {
			panic(err)
		}
	}
	// delete stale generated files
	ents, _ := os.ReadDir(*outDir)
	for _, e := range ents {
		if strings.HasSuffix(e.Name(), ".lean") && !want[e.Name()] {
			os.Remove(filepath.Join(*outDir, e.Name()))
		}
	}
	sort.Strings(failures)
	for _, f := range failures {
		fmt.Println(f)
	}
	if len(failures) > 0 {
		os.Exit(2)
	}
}
