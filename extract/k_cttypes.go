package main

// Regenerated fact table for C04: every Go type that tls.Marshal / tls.Unmarshal walks when coding the
// RFC 6962 structures, as Lean data (`Tls.GoTy`): field order, field names, Go type shapes and the raw
// `tls:"…"` tag strings, straight from types.go, tls/types.go and x509/x509.go. The tag strings are
// resolved on the Lean side by the model of fieldTagToFieldInfo (CTV/Tls/Tag.lean).
// Also the handful of constants the wire format depends on.

import (
	"os"
	"fmt"
	"go/ast"
	"go/token"
	"reflect"
	"regexp"
	"sort"
	"strconv"
	"strings"
)

type ctPkg struct {
	name string // qualifier used inside this extractor: ct, tls, x509
	dir  string // repo-relative directory
	file []string
}

var ctPkgs = []ctPkg{
	{"ct", ".", []string{"types.go"}},
	{"tls", "tls", []string{"tls.go", "types.go"}},
	{"x509", "x509", []string{"x509.go"}},
}

// constants of imported standard packages that appear as array lengths
var ctKnownConsts = map[string]int{"sha256.Size": 32}

// the wire structures of RFC 6962 §3 / §4.6 and RFC 5246 §4.7 (and the repo's extensions of them)
var ctRoots = []string{
	"ct.MerkleTreeLeaf", "ct.TimestampedEntry", "ct.SignedCertificateTimestamp", "ct.CertificateTimestamp",
	"ct.TreeHeadSignature", "ct.DigitallySigned", "tls.DigitallySigned", "tls.SignatureAndHashAlgorithm",
	"ct.ASN1Cert", "ct.PreCert", "ct.LogID", "ct.CTExtensions", "ct.SHA256Hash",
	"ct.PrecertChainEntry", "ct.CertificateChain", "ct.PrecertChainEntryHash", "ct.CertificateChainHash", "ct.JSONDataEntry",
	"ct.LogEntryType", "ct.MerkleLeafType", "ct.Version", "ct.SignatureType",
	"x509.SerializedSCT", "x509.SignedCertificateTimestampList",
}

type ctDecl struct {
	pkg   string
	name  string
	expr  ast.Expr
	alias bool
	rel   string
}

func ctLoad() map[string]*ctDecl {
	decls := map[string]*ctDecl{}
	for _, p := range ctPkgs {
		for _, fn := range p.file {
			rel := fn
			if p.dir != "." {
				rel = p.dir + "/" + fn
			}
			f := parseFile(rp(rel))
			for _, d := range f.Decls {
				gd, ok := d.(*ast.GenDecl)
				if !ok || gd.Tok != token.TYPE {
					continue
				}
				for _, s := range gd.Specs {
					ts := s.(*ast.TypeSpec)
					if ts.TypeParams != nil {
						continue
					}
					decls[p.name+"."+ts.Name.Name] = &ctDecl{pkg: p.name, name: ts.Name.Name, expr: ts.Type, alias: ts.Assign.IsValid(), rel: rel}
				}
			}
		}
	}
	return decls
}

func ctLeanName(q string) string { return strings.ReplaceAll(q, ".", "_") }

type ctGen struct {
	decls map[string]*ctDecl
	done  map[string]bool
	busy  map[string]bool
	out   []string
	order []string
}

// ty translates a Go type expression seen inside package pkg.
func (g *ctGen) ty(pkg string, e ast.Expr) string {
	switch x := e.(type) {
	case *ast.Ident:
		switch x.Name {
		case "uint8", "byte":
			return ".u8"
		case "uint16":
			return ".u16"
		case "uint32":
			return ".u32"
		case "uint64":
			return ".u64"
		}
		return g.ref(pkg + "." + x.Name)
	case *ast.SelectorExpr:
		if id, ok := x.X.(*ast.Ident); ok {
			return g.ref(id.Name + "." + x.Sel.Name)
		}
	case *ast.StarExpr:
		return "(.ptr " + g.ty(pkg, x.X) + ")"
	case *ast.ParenExpr:
		return g.ty(pkg, x.X)
	case *ast.ArrayType:
		if x.Len == nil {
			return "(.slice " + g.ty(pkg, x.Elt) + ")"
		}
		n := -1
		if b, ok := x.Len.(*ast.BasicLit); ok && b.Kind == token.INT {
			if v, err := strconv.ParseInt(b.Value, 0, 32); err == nil {
				n = int(v)
			}
		} else if v, ok := ctKnownConsts[src(x.Len)]; ok {
			n = v
		}
		if n < 0 {
			failf(e, "array length %s is not a literal or a known constant", src(x.Len))
		}
		return fmt.Sprintf("(.array %d %s)", n, g.ty(pkg, x.Elt))
	case *ast.StructType:
		var fs []string
		for _, f := range x.Fields.List {
			if len(f.Names) == 0 {
				failf(f, "embedded field %s unsupported", src(f.Type))
			}
			tag := ""
			if f.Tag != nil {
				raw, err := strconv.Unquote(f.Tag.Value)
				if err != nil {
					failf(f, "cannot unquote struct tag %s", f.Tag.Value)
				}
				tag = reflect.StructTag(raw).Get("tls")
			}
			t := g.ty(pkg, f.Type)
			for _, n := range f.Names {
				if !n.IsExported() {
					failf(f, "unexported field %s (reflection cannot set it)", n.Name)
				}
				fs = append(fs, fmt.Sprintf("(.cons %s %s.toList %s", strconv.Quote(n.Name), strconv.Quote(tag), t))
			}
		}
		return "(.struct " + strings.Join(fs, "\n    ") + " .nil" + strings.Repeat(")", len(fs)) + ")"
	}
	failf(e, "unsupported type expression %s (%T)", src(e), e)
	return ""
}

func (g *ctGen) ref(q string) string {
	if q == "tls.Uint24" {
		return ".u24" // recognised by type identity in tls.go (uint24Type)
	}
	g.emit(q)
	return ctLeanName(q)
}

func (g *ctGen) emit(q string) {
	if g.done[q] {
		return
	}
	if g.busy[q] {
		panic(bail{"recursive type " + q})
	}
	d, ok := g.decls[q]
	if !ok {
		panic(bail{"type " + q + " not found in types.go, tls/tls.go, tls/types.go, x509/x509.go"})
	}
	g.busy[q] = true
	body := g.ty(d.pkg, d.expr)
	if !d.alias {
		body = "(.named " + body + ")"
	}
	g.busy[q] = false
	g.done[q] = true
	g.order = append(g.order, q)
	g.out = append(g.out, fmt.Sprintf("/-- generated from %s: `type %s %s` -/\ndef %s : Tls.GoTy :=\n  %s\n",
		d.rel, d.name, strings.Split(src(d.expr), "{")[0], ctLeanName(q), body))
}

func ctTypesUnit() string {
	g := &ctGen{decls: ctLoad(), done: map[string]bool{}, busy: map[string]bool{}}
	for _, r := range ctRoots {
		g.emit(r)
	}
	var tbl []string
	names := append([]string{}, g.order...)
	sort.Strings(names)
	for _, q := range names {
		tbl = append(tbl, fmt.Sprintf("(%s, %s)", strconv.Quote(q), ctLeanName(q)))
	}
	return strings.Join(g.out, "\n") + "\n/-- every regenerated type by its Go name -/\ndef ctTypes : List (String × Tls.GoTy) :=\n  [" + strings.Join(tbl, ",\n   ") + "]\n"
}

// ctConst: an integer constant `name [T] = <int literal | T(<int literal>)>` of the root package.
func ctConst(rel, name, lean string) func() string {
	return constKernel(rel, name, lean, func(e ast.Expr) (string, bool) {
		if c, ok := e.(*ast.CallExpr); ok && len(c.Args) == 1 {
			e = c.Args[0]
		}
		if b, ok := e.(*ast.BasicLit); ok && b.Kind == token.INT {
			if v, err := strconv.ParseInt(b.Value, 0, 64); err == nil {
				return strconv.FormatInt(v, 10), true
			}
		}
		return "", false
	})
}

// the JSON messages of RFC 6962 section 4 (and the repository's JSON form of a signed tree head)
var ctJSONStructs = []string{"AddChainRequest", "AddChainResponse", "GetSTHResponse", "GetSTHConsistencyResponse",
	"GetProofByHashResponse", "LeafEntry", "GetEntriesResponse", "GetRootsResponse", "GetEntryAndProofResponse", "SignedTreeHead"}

// ctJSONUnit: Go field name, Go type expression and `json:"…"` name of every field of the API message structs.
func ctJSONUnit() string {
	decls := ctLoad()
	var rows []string
	for _, n := range ctJSONStructs {
		d, ok := decls["ct."+n]
		if !ok {
			panic(bail{"type ct." + n + " not found in types.go"})
		}
		st, ok := d.expr.(*ast.StructType)
		if !ok {
			panic(bail{"ct." + n + " is not a struct"})
		}
		var fs []string
		for _, f := range st.Fields.List {
			if len(f.Names) == 0 {
				failf(f, "embedded field in %s", n)
			}
			name := ""
			if f.Tag != nil {
				raw, err := strconv.Unquote(f.Tag.Value)
				if err != nil {
					failf(f, "cannot unquote struct tag %s", f.Tag.Value)
				}
				name = strings.Split(reflect.StructTag(raw).Get("json"), ",")[0]
			}
			for _, fn := range f.Names {
				jn := name
				if jn == "" {
					jn = fn.Name // encoding/json falls back to the Go field name
				}
				fs = append(fs, fmt.Sprintf("(%s, %s, %s)", strconv.Quote(fn.Name), strconv.Quote(src(f.Type)), strconv.Quote(jn)))
			}
		}
		rows = append(rows, fmt.Sprintf("(%s, [%s])", strconv.Quote(n), strings.Join(fs, ", ")))
	}
	return "/-- generated from types.go: the API message structs — (Go field, Go type, JSON name) in declaration order -/\ndef apiJson : List (String × List (String × String × String)) :=\n  [" + strings.Join(rows, ",\n   ") + "]\n"
}

// condKernelSrc: the source text of the condition of the unique `if` of fn whose then-branch contains marker.
func condKernelSrc(rel, fn, marker, leanName string) func() string {
	return func() string {
		fd := mustFunc(rel, fn)
		ss := findStmts(fd, func(s ast.Stmt) bool {
			i, ok := s.(*ast.IfStmt)
			return ok && strings.Contains(src(i.Body), marker)
		})
		if len(ss) != 1 {
			panic(bail{fmt.Sprintf("%s: expected exactly one `if` whose body mentions %q in %s, found %d", rel, marker, fn, len(ss))})
		}
		return fmt.Sprintf("/-- generated from %s func %s: the condition under which `%s…` is chosen -/\ndef %s : String := %s\n", rel, fn, marker, leanName, leanStr(src(ss[0].(*ast.IfStmt).Cond)))
	}
}

const ser, ll = "serialization.go", "trillian/util/log_leaf.go"

// canonical statements and return expressions of fn (and of what it inlines), each with the conjuncts under which it is reached
type semItem struct {
	src string
	pc  []ast.Expr
}

func semItems(rel, fn string) []semItem {
	v := canonOf(rel, fn)
	var items []semItem
	if os.Getenv("CANON_DEBUG") == fn {
		defer func() {
			for _, it := range items {
				fmt.Fprintf(os.Stderr, "canon %s: %s\n", fn, it.src)
			}
		}()
	}
	for i, st := range v.stmts {
		var pc []ast.Expr
		if i < len(v.stmtPc) {
			pc = v.stmtPc[i]
		}
		items = append(items, semItem{strings.ReplaceAll(st.src, "*&", ""), pc}) // `*&x` is x (a helper handing back the address of what it built)
	}
	for _, rs := range [][]canonReturn{v.returns, v.innerReturns} {
		for _, r := range rs {
			for _, res := range r.results {
				items = append(items, semItem{strings.ReplaceAll(norm(res), "*&", ""), r.pc})
			}
		}
	}
	return items
}

// semFacts: the first capture group of every canonical statement / returned expression of fn matching pattern, in order
// (duplicates from a statement that is also a return are dropped).
// leafHashBuild: how LeafHashForLeaf builds what it hashes. The buffer handed to sha256.Sum256 is recognised as "one prefix byte
// followed by the tls.Marshal result" in either spelling:
//	buf := append([]byte{P}, marshalled...)
//	buf := make([]byte, 1+len(marshalled)); buf[0] = P; copy(buf[1:], marshalled)        (1 possibly a local constant)
// part 0: [P]; part 1: ["$append"] when sha256.Sum256 is applied to such a buffer (the name of the first spelling is kept for
// both), else the canonical text of its argument.
func leafHashBuild(rel, leanName string, part int) func() string {
	return func() string {
		fn := "LeafHashForLeaf"
		items := semItems(rel, fn)
		var prefix []string
		built := "" // canonical name of the buffer once it is known to be P‖marshalled
		reAppend := regexp.MustCompile(`^\w+:=append\(\[\]byte\{(\w+)\},\$Marshal\.\.\.\)$`)
		reMake := regexp.MustCompile(`^(\w+):=make\(\[\]byte,(.+)\+len\(\$Marshal\)\)$`)
		one := func(k string) bool {
			if k == "1" {
				return true
			}
			// a local constant: the function declares exactly one, with value 1
			n, ok := 0, false
			ast.Inspect(mustFunc(rel, fn).Body, func(nd ast.Node) bool {
				if gd, isGd := nd.(*ast.GenDecl); isGd && gd.Tok == token.CONST {
					for _, sp := range gd.Specs {
						vs := sp.(*ast.ValueSpec)
						n += len(vs.Names)
						ok = len(vs.Values) == 1 && src(vs.Values[0]) == "1"
					}
				}
				return true
			})
			return strings.HasPrefix(k, "$decl(") && n == 1 && ok
		}
		for i, it := range items {
			if m := reAppend.FindStringSubmatch(it.src); m != nil {
				prefix, built = append(prefix, m[1]), "$append"
			}
			if m := reMake.FindStringSubmatch(it.src); m != nil && one(m[2]) {
				v, k := m[1], m[2]
				set0, copied := "", false
				for _, jt := range items[i+1:] {
					if strings.HasPrefix(jt.src, v+"[0]=") {
						set0 = strings.TrimPrefix(jt.src, v+"[0]=")
					}
					if jt.src == "copy($make["+k+":],$Marshal)" {
						copied = true
					}
					if strings.Contains(jt.src, "sha256.Sum256(") {
						break // only what happens before the hash counts
					}
				}
				if set0 != "" && copied {
					prefix, built = append(prefix, set0), "$make"
				}
			}
		}
		var sum []string
		re := regexp.MustCompile(`sha256\.Sum256\((.*)\)$`)
		for _, it := range items {
			if m := re.FindStringSubmatch(it.src); m != nil {
				if built != "" && m[1] == built {
					sum = append(sum, "$append")
				} else {
					sum = append(sum, m[1])
				}
			}
		}
		got := [][]string{prefix, sum}[part]
		return fmt.Sprintf("/-- generated from %s func %s (canonical view): %s -/\ndef %s : List String := %s\n", rel, fn,
			[]string{"the prefix byte of the hashed buffer", "what sha256.Sum256 is applied to ($append = prefix byte followed by the tls.Marshal result)"}[part], leanName, leanStrList(got))
	}
}

func semFacts(rel, fn, pattern, leanName string) func() string {
	return func() string {
		re := regexp.MustCompile(pattern)
		var got []string
		for _, it := range semItems(rel, fn) {
			if m := re.FindStringSubmatch(it.src); m != nil {
				got = append(got, m[len(m)-1])
			}
		}
		return fmt.Sprintf("/-- generated from %s func %s (canonical view): `%s` -/\ndef %s : List String := %s\n", rel, fn, pattern, leanName, leanStrList(got))
	}
}

// semLitFields: (field, canonical value) of the unique composite literal of type typ in fn's canonical view, sorted by field.
func semLitFields(rel, fn, typ, leanName string) func() string {
	return func() string {
		v := canonOf(rel, fn)
		var lits []*ast.CompositeLit
		for _, cl := range v.lits {
			if src(cl.Type) == typ {
				lits = append(lits, cl)
			}
		}
		if len(lits) != 1 {
			panic(bail{fmt.Sprintf("%s: expected exactly one %s literal in %s (and what it inlines), found %d", rel, typ, fn, len(lits))})
		}
		var rows []string
		for _, e := range lits[0].Elts {
			kv, ok := e.(*ast.KeyValueExpr)
			if !ok {
				panic(bail{fmt.Sprintf("%s: positional field in %s literal", rel, typ)})
			}
			val := norm(src(kv.Value))
			if cl, ok := kv.Value.(*ast.CompositeLit); ok && cl.Type != nil { // a nested literal is pinned by its own unit
				val = src(cl.Type) + "{…}"
			}
			if u, ok := kv.Value.(*ast.UnaryExpr); ok {
				if cl, ok := u.X.(*ast.CompositeLit); ok && cl.Type != nil {
					val = "&" + src(cl.Type) + "{…}"
				}
			}
			rows = append(rows, fmt.Sprintf("(%q, %q)", src(kv.Key), val))
		}
		sortStrings(rows)
		return fmt.Sprintf("/-- generated from %s func %s (canonical view): the fields of the %s literal and where each comes from -/\ndef %s : List (String × String) :=\n  [%s]\n",
			rel, fn, typ, leanName, strings.Join(rows, ", "))
	}
}

// normCond: `!(a != b)` → `a==b`, `!(a == b)` → `a!=b`, `!(!(c))` → `c`, redundant parentheses dropped (space-free text).
func normCond(c string) string {
	c = norm(c)
	for {
		switch {
		case strings.HasPrefix(c, "(") && strings.HasSuffix(c, ")") && balanced(c[1:len(c)-1]):
			c = c[1 : len(c)-1]
		case strings.HasPrefix(c, "!(") && strings.HasSuffix(c, ")") && balanced(c[2:len(c)-1]):
			in := c[2 : len(c)-1]
			for strings.HasPrefix(in, "(") && strings.HasSuffix(in, ")") && balanced(in[1:len(in)-1]) {
				in = in[1 : len(in)-1]
			}
			switch {
			case strings.HasPrefix(in, "!(") && strings.HasSuffix(in, ")") && balanced(in[2:len(in)-1]):
				c = in[2 : len(in)-1]
			case strings.HasPrefix(in, "!") && !strings.ContainsAny(in, "&|"):
				c = in[1:]
			case strings.Count(in, "!=") == 1 && !strings.ContainsAny(in, "&|<>"):
				c = strings.Replace(in, "!=", "==", 1)
				return c
			case strings.Count(in, "==") == 1 && !strings.ContainsAny(in, "&|<>"):
				c = strings.Replace(in, "==", "!=", 1)
				return c
			default:
				if !strings.ContainsAny(in, "&|=<>! ") {
					return "!" + in
				}
				return "!(" + in + ")"
			}
		default:
			return c
		}
	}
}

func balanced(s string) bool {
	d := 0
	for _, r := range s {
		if r == '(' {
			d++
		} else if r == ')' {
			d--
			if d < 0 {
				return false
			}
		}
	}
	return d == 0
}

// semWhen: the (normalised) branch conditions mentioning `about` under which the canonical statement / returned expression matching
// pattern is reached; every match must be reached under the same conditions.
func semWhen(rel, fn, pattern, about, leanName string) func() string {
	return func() string {
		re := regexp.MustCompile(pattern)
		var all []string
		n := 0
		for _, it := range semItems(rel, fn) {
			if !re.MatchString(it.src) {
				continue
			}
			n++
			var cs []string
			for _, c := range it.pc {
				if t := normCond(src(c)); strings.Contains(t, norm(about)) {
					cs = append(cs, t)
				}
			}
			key := strings.Join(cs, " && ")
			dup := false
			for _, a := range all {
				dup = dup || a == key
			}
			if !dup {
				all = append(all, key)
			}
		}
		if n == 0 {
			panic(bail{fmt.Sprintf("%s: nothing in the canonical view of %s matches `%s`", rel, fn, pattern)})
		}
		return fmt.Sprintf("/-- generated from %s func %s (canonical view): the conditions on `%s` under which `%s` is reached -/\ndef %s : List String := %s\n",
			rel, fn, about, pattern, leanName, leanStrList(all))
	}
}

func init() {
	register(genFile{name: "CtTypes", imports: []string{"CTV.Tls.Tag"}, units: []unit{
		{"ct wire types", ctTypesUnit},
		{"ct api json", ctJSONUnit},
		// how the serialization.go / log_leaf.go wrappers are wired, on the canonical view of each function (extract/canon.go:
		// parameters by type, hoisted reads substituted back, same-file helpers and local closures inlined, branch conditions
		// normalised), so that renames, hoists, extracted helpers and if/switch/early-return restructurings leave them unchanged
		{"SerializeSCTSignatureInput.fields", semLitFields(ser, "SerializeSCTSignatureInput", "CertificateTimestamp", "sctInputFields")},
		{"SerializeSCTSignatureInput.precert", semLitFields(ser, "SerializeSCTSignatureInput", "PreCert", "sctInputPreFields")},
		{"SerializeSCTSignatureInput.x509", semFacts(ser, "SerializeSCTSignatureInput", `^\w+\.X509Entry=(.*)$`, "sctInputX509")},
		{"SerializeSCTSignatureInput.pre", semFacts(ser, "SerializeSCTSignatureInput", `^\w+\.PrecertEntry=&(\w+)\{`, "sctInputPreTarget")},
		{"SerializeSCTSignatureInput.marshal", semFacts(ser, "SerializeSCTSignatureInput", `tls\.Marshal\((?:\$(?:var|lit)\()?(\w+)[\{\)]`, "sctInputMarshalled")},
		{"SerializeSTHSignatureInput.fields", semLitFields(ser, "SerializeSTHSignatureInput", "TreeHeadSignature", "sthInputFields")},
		{"SerializeSTHSignatureInput.marshal", semFacts(ser, "SerializeSTHSignatureInput", `tls\.Marshal\((?:\$(?:var|lit)\()?(\w+)[\{\)]`, "sthInputMarshalled")},
		{"LeafHashForLeaf.marshal", semFacts(ser, "LeafHashForLeaf", `:=tls\.Marshal\((.*)\)$`, "leafHashMarshal")},
		{"LeafHashForLeaf.data", leafHashBuild(ser, "leafHashPrefix", 0)},
		{"LeafHashForLeaf.hash", leafHashBuild(ser, "leafHashSum", 1)},
		{"RawLogEntryFromLeaf.unmarshal", semFacts(ser, "RawLogEntryFromLeaf", `tls\.Unmarshal\((.*)\)$`, "rawLogEntryUnmarshal")},
		{"ExtraDataForChain.precert", semLitFields(ll, "ExtraDataForChain", "ct.PrecertChainEntry", "extraDataPrecertFields")},
		{"ExtraDataForChain.chain", semLitFields(ll, "ExtraDataForChain", "ct.CertificateChain", "extraDataChainFields")},
		{"ExtraDataForChain.precertWhen", semWhen(ll, "ExtraDataForChain", `ct\.PrecertChainEntry\{`, "$bool", "extraDataPrecertWhen")},
		{"ExtraDataForChain.chainWhen", semWhen(ll, "ExtraDataForChain", `ct\.CertificateChain\{`, "$bool", "extraDataChainWhen")},
		{"buildLogLeaf.chainWhen", semWhen(ll, "buildLogLeaf", `ct\.(PrecertChainEntry|CertificateChain)\{`, "$[]byte", "buildLogLeafChainWhen")},
		{"buildLogLeaf.hashWhen", semWhen(ll, "buildLogLeaf", `ct\.(PrecertChainEntryHash|CertificateChainHash)\{`, "$[]byte", "buildLogLeafHashWhen")},
		{"TreeLeafPrefix", ctConst("types.go", "TreeLeafPrefix", "treeLeafPrefix")},
		{"TreeNodePrefix", ctConst("types.go", "TreeNodePrefix", "treeNodePrefix")},
		{"X509LogEntryType", ctConst("types.go", "X509LogEntryType", "x509LogEntryType")},
		{"PrecertLogEntryType", ctConst("types.go", "PrecertLogEntryType", "precertLogEntryType")},
		{"V1", ctConst("types.go", "V1", "v1")},
		{"CertificateTimestampSignatureType", ctConst("types.go", "CertificateTimestampSignatureType", "certificateTimestampSignatureType")},
		{"TreeHashSignatureType", ctConst("types.go", "TreeHashSignatureType", "treeHashSignatureType")},
		{"TimestampedEntryLeafType", ctConst("types.go", "TimestampedEntryLeafType", "timestampedEntryLeafType")},
	}})
}
