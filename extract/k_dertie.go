package main

// C10 / C11 deepening: whole bodies of the plain-control-flow functions of asn1/asn1.go and of the x509 wrappers, regenerated
// statement by statement into Lean functions of the facts the code tests  -> Gen/DerTie.lean. The tie theorems
// (lean/CTV/Props/C10Tie.lean, C11Tie.lean) prove that the hand model decides as these bodies do.
//
// asn1.go is written with named results (`err = SyntaxError{…}; return`); errNormalise rewrites a private copy of the function
// into the form the translator reads — every return hands back one thing, the error: `nil`, the error of the failing callee
// (`err`), or the CLASS of a freshly made error (errSyntax / errStructural / errOther: the type of the literal; the message and
// the field name are dropped, the model has classes only). Loops that contain returns are replaced by a pseudo call whose
// failure is an input fact (their bodies are regenerated on their own, one iteration each); loops that only compute are dropped.

import (
	"fmt"
	"go/ast"
	"go/parser"
	"go/token"
	"strings"
)

// errClass: the class identifier standing for a freshly made error value
func errClass(e ast.Expr) ast.Expr {
	switch x := e.(type) {
	case *ast.CompositeLit:
		switch src(x.Type) {
		case "SyntaxError", "asn1.SyntaxError":
			return ast.NewIdent("errSyntax")
		case "StructuralError", "asn1.StructuralError":
			return ast.NewIdent("errStructural")
		}
		return ast.NewIdent("errOther")
	case *ast.CallExpr:
		if n := callName(x); n == "errors.New" || n == "fmt.Errorf" {
			return ast.NewIdent("errOther")
		}
	}
	return e
}

func isErrAssign(s ast.Stmt) (ast.Expr, bool) {
	a, ok := s.(*ast.AssignStmt)
	if !ok || a.Tok != token.ASSIGN || len(a.Lhs) != 1 || len(a.Rhs) != 1 || src(a.Lhs[0]) != "err" {
		return nil, false
	}
	if _, isCall := a.Rhs[0].(*ast.CallExpr); isCall && errClass(a.Rhs[0]) == a.Rhs[0] {
		return nil, false // err = f(…): a callee's error, left to ErrCalls
	}
	return a.Rhs[0], true
}

func isBareReturn(s ast.Stmt) bool {
	r, ok := s.(*ast.ReturnStmt)
	return ok && len(r.Results) == 0
}

type errNorm struct {
	loopCall map[string]string // marker in a loop header -> name of the pseudo call that stands for the loop
	rel      string            // the file (helpers of the same file that are not ErrCalls callees are inlined)
	opaque   map[string]string // ErrCalls of the unit: callees that stay calls
	// while the body of an inlined helper is rewritten: what the caller does after the call, and the assignments that hand the
	// helper's results to the caller's variables at each of its returns
	k      []ast.Stmt
	inK    bool
	copies []ast.Stmt
	depth  int
}

func (n errNorm) isOpaque(name string) bool {
	for k := range n.opaque {
		if strings.HasPrefix(norm(name), norm(strings.SplitN(k, "(", 2)[0])) {
			return true
		}
	}
	for _, c := range n.loopCall {
		if c == name {
			return true
		}
	}
	return false
}

// afterFailure: what the caller does with a non-nil err right after the call — only "return it at once" is followed
func (n errNorm) failsAtOnce() bool {
	if len(n.k) == 0 {
		return false
	}
	if isBareReturn(n.k[0]) {
		return true
	}
	if is, ok := n.k[0].(*ast.IfStmt); ok && is.Init == nil && norm(src(is.Cond)) == "err!=nil" && len(is.Body.List) == 1 && isBareReturn(is.Body.List[0]) {
		return true
	}
	return false
}

// afterSuccess: the caller's continuation when the helper returned with a nil err
func (n errNorm) afterSuccess() []ast.Stmt {
	k := n.k
	if len(k) > 0 {
		if is, ok := k[0].(*ast.IfStmt); ok && is.Init == nil && norm(src(is.Cond)) == "err!=nil" {
			k = k[1:]
		}
	}
	caller := n
	caller.k, caller.inK, caller.copies = nil, false, nil
	return append(append([]ast.Stmt{}, n.copies...), caller.block(k, false)...)
}

// inline: `l1, …, err = helper(a1, …)` with helper a same-file function with NAMED results whose last one is err: the helper's
// body with its parameters bound to the arguments, its integer results zeroed, and every return continued by the caller's rest
func (n errNorm) inline(a *ast.AssignStmt, rest []ast.Stmt) ([]ast.Stmt, bool) {
	if n.rel == "" || n.depth > 2 || len(a.Rhs) != 1 {
		return nil, false
	}
	c, ok := a.Rhs[0].(*ast.CallExpr)
	if !ok {
		return nil, false
	}
	id, ok := c.Fun.(*ast.Ident)
	if !ok || n.isOpaque(id.Name) {
		return nil, false
	}
	f, err := parser.ParseFile(fset, rp(n.rel), nil, 0)
	if err != nil {
		return nil, false
	}
	h := findFunc(f, id.Name)
	if h == nil || h.Body == nil || h.Type.Results == nil {
		return nil, false
	}
	var resNames []string
	var resTypes []string
	for _, fl := range h.Type.Results.List {
		if len(fl.Names) == 0 {
			return nil, false
		}
		for _, nm := range fl.Names {
			resNames = append(resNames, nm.Name)
			resTypes = append(resTypes, src(fl.Type))
		}
	}
	if len(resNames) != len(a.Lhs) || resNames[len(resNames)-1] != "err" || src(a.Lhs[len(a.Lhs)-1]) != "err" {
		return nil, false
	}
	var pre []ast.Stmt
	i := 0
	for _, fl := range h.Type.Params.List {
		for _, nm := range fl.Names {
			if i < len(c.Args) && src(c.Args[i]) != nm.Name && nm.Name != "_" {
				pre = append(pre, &ast.AssignStmt{Lhs: []ast.Expr{ast.NewIdent(nm.Name)}, Tok: token.DEFINE, Rhs: []ast.Expr{c.Args[i]}})
			}
			i++
		}
	}
	var copies []ast.Stmt
	for j, r := range resNames[:len(resNames)-1] {
		if resTypes[j] == "int" {
			pre = append(pre, &ast.AssignStmt{Lhs: []ast.Expr{ast.NewIdent(r)}, Tok: token.ASSIGN, Rhs: []ast.Expr{&ast.BasicLit{Kind: token.INT, Value: "0"}}})
		}
		if src(a.Lhs[j]) != r && src(a.Lhs[j]) != "_" {
			copies = append(copies, &ast.AssignStmt{Lhs: []ast.Expr{a.Lhs[j]}, Tok: token.ASSIGN, Rhs: []ast.Expr{ast.NewIdent(r)}})
		}
	}
	inner := n
	inner.k, inner.inK, inner.copies, inner.depth = rest, true, copies, n.depth+1
	body := h.Body.List
	if len(body) == 0 || !isBareReturn(body[len(body)-1]) {
		if _, isRet := body[len(body)-1].(*ast.ReturnStmt); !isRet {
			body = append(append([]ast.Stmt{}, body...), &ast.ReturnStmt{})
		}
	}
	return append(pre, inner.block(body, false)...), true
}

func ret1(e ast.Expr) ast.Stmt { return &ast.ReturnStmt{Results: []ast.Expr{e}} }

// block rewrites a statement list; underErr = the list is the body of `if err != nil`
func (n errNorm) block(list []ast.Stmt, underErr bool) []ast.Stmt {
	var out []ast.Stmt
	for i := 0; i < len(list); i++ {
		s := list[i]
		if e, ok := isErrAssign(s); ok && i+1 < len(list) && isBareReturn(list[i+1]) {
			if n.inK && !n.failsAtOnce() {
				panic(bail{"inlined helper: the caller does not return a failure at once"})
			}
			out = append(out, ret1(errClass(e)))
			i++
			continue
		}
		if a, ok := s.(*ast.AssignStmt); ok && (a.Tok == token.ASSIGN || a.Tok == token.DEFINE) {
			if inl, ok := n.inline(a, list[i+1:]); ok {
				return append(out, inl...)
			}
		}
		// `x <<= k; x |= e` (e below 2^k: a byte or a 7-bit group) is `x = x*2^k + e`
		if a1, ok := s.(*ast.AssignStmt); ok && a1.Tok == token.SHL_ASSIGN && i+1 < len(list) {
			if a2, ok := list[i+1].(*ast.AssignStmt); ok && a2.Tok == token.OR_ASSIGN && src(a1.Lhs[0]) == src(a2.Lhs[0]) {
				if k, ok := a1.Rhs[0].(*ast.BasicLit); ok && (k.Value == "8" || k.Value == "7") {
					pow := map[string]string{"8": "256", "7": "128"}[k.Value]
					out = append(out, &ast.AssignStmt{Lhs: a1.Lhs, Tok: token.ASSIGN, Rhs: []ast.Expr{&ast.BinaryExpr{
						X: &ast.BinaryExpr{X: a1.Lhs[0], Op: token.MUL, Y: &ast.BasicLit{Kind: token.INT, Value: pow}}, Op: token.ADD, Y: a2.Rhs[0]}}})
					i++
					continue
				}
			}
		}
		switch x := s.(type) {
		case *ast.ReturnStmt:
			switch {
			case len(x.Results) == 0 && underErr:
				if n.inK && !n.failsAtOnce() {
					panic(bail{"inlined helper: the caller does not return a failure at once"})
				}
				out = append(out, ret1(ast.NewIdent("err")))
			case len(x.Results) == 0 && n.inK:
				out = append(out, n.afterSuccess()...)
			case len(x.Results) == 0:
				out = append(out, ret1(ast.NewIdent("nil")))
			case n.inK:
				panic(bail{"inlined helper: return with values"})
			default:
				out = append(out, ret1(errClass(x.Results[len(x.Results)-1])))
			}
		case *ast.IfStmt:
			c := *x
			body := x.Body.List
			// `if c { err = E }` followed by the function's bare return: the return belongs to both paths
			if len(body) > 0 && i+1 < len(list) && isBareReturn(list[i+1]) {
				if _, ok := isErrAssign(body[len(body)-1]); ok {
					body = append(append([]ast.Stmt{}, body...), list[i+1])
				}
			}
			under := strings.Contains(norm(src(x.Cond)), "err!=nil")
			c.Body = &ast.BlockStmt{List: n.block(body, under)}
			switch e := x.Else.(type) {
			case *ast.BlockStmt:
				c.Else = &ast.BlockStmt{List: n.block(e.List, false)}
			case *ast.IfStmt:
				c.Else = &ast.BlockStmt{List: n.block([]ast.Stmt{e}, false)}
			}
			out = append(out, &c)
		case *ast.SwitchStmt:
			c := *x
			c.Body = &ast.BlockStmt{List: n.clauses(x.Body.List)}
			out = append(out, &c)
		case *ast.TypeSwitchStmt:
			c := *x
			c.Body = &ast.BlockStmt{List: n.clauses(x.Body.List)}
			out = append(out, &c)
		case *ast.ForStmt:
			hdr := ""
			if x.Init != nil {
				hdr += src(x.Init)
			}
			if x.Cond != nil {
				hdr += "; " + src(x.Cond)
			}
			replaced := false
			for marker, call := range n.loopCall {
				if strings.Contains(hdr, marker) {
					out = append(out,
						&ast.AssignStmt{Lhs: []ast.Expr{ast.NewIdent("err")}, Tok: token.ASSIGN, Rhs: []ast.Expr{&ast.CallExpr{Fun: ast.NewIdent(call)}}},
						&ast.IfStmt{Cond: &ast.BinaryExpr{X: ast.NewIdent("err"), Op: token.NEQ, Y: ast.NewIdent("nil")}, Body: &ast.BlockStmt{List: []ast.Stmt{ret1(ast.NewIdent("err"))}}})
					replaced = true
				}
			}
			if !replaced && hasReturn(x.Body.List) {
				out = append(out, s) // the translator will say that it cannot read it
			}
			// a loop without return that is not listed only computes the value: dropped
		default:
			out = append(out, s)
		}
	}
	return out
}

func (n errNorm) clauses(list []ast.Stmt) []ast.Stmt {
	var out []ast.Stmt
	for _, s := range list {
		if cc, ok := s.(*ast.CaseClause); ok {
			c := *cc
			c.Body = n.block(cc.Body, false)
			out = append(out, &c)
		} else {
			out = append(out, s)
		}
	}
	return out
}

// pureLocals: a top-level `x := <index or slice expression over parameters that are never assigned>` with x defined once and
// never assigned again stands for that expression (`contents := bytes[1:]`, `last := bytes[len(bytes)-1]`): registered as an
// alias with the translator and dropped from the list, so that keys are written over the parameters only.
func pureLocals(fd *ast.FuncDecl, t *tr, list []ast.Stmt) []ast.Stmt {
	params := map[string]bool{}
	if fd.Type.Params != nil {
		for _, f := range fd.Type.Params.List {
			for _, nm := range f.Names {
				params[nm.Name] = true
			}
		}
	}
	writes := map[string]int{}
	ast.Inspect(fd.Body, func(nd ast.Node) bool {
		switch x := nd.(type) {
		case *ast.AssignStmt:
			for _, l := range x.Lhs {
				if id, ok := l.(*ast.Ident); ok {
					writes[id.Name]++
				}
			}
		case *ast.IncDecStmt:
			if id, ok := x.X.(*ast.Ident); ok {
				writes[id.Name]++
			}
		case *ast.RangeStmt:
			for _, l := range []ast.Expr{x.Key, x.Value} {
				if id, ok := l.(*ast.Ident); ok {
					writes[id.Name]++
				}
			}
		}
		return true
	})
	pure := func(e ast.Expr) bool {
		ok := true
		ast.Inspect(e, func(nd ast.Node) bool {
			switch x := nd.(type) {
			case *ast.Ident:
				if x.Name != "len" && !(params[x.Name] && writes[x.Name] == 0) {
					ok = false
				}
			case *ast.CallExpr:
				if src(x.Fun) != "len" {
					ok = false
				}
			}
			return ok
		})
		return ok
	}
	var out []ast.Stmt
	for _, s := range list {
		if a, ok := s.(*ast.AssignStmt); ok && a.Tok == token.DEFINE && len(a.Lhs) == 1 && len(a.Rhs) == 1 {
			if id, ok := a.Lhs[0].(*ast.Ident); ok && writes[id.Name] == 1 {
				switch a.Rhs[0].(type) {
				case *ast.IndexExpr, *ast.SliceExpr:
					if pure(a.Rhs[0]) {
						t.alias(id.Name, a.Rhs[0])
						continue
					}
				}
			}
		}
		out = append(out, s)
	}
	return out
}

// derWithConsts: package-level `const X = <integer literal>` of the file are known to the unit by value (a literal turned into
// a named constant, or back, is the same body)
func derWithConsts(f *ast.File, sp Spec) Spec {
	repl := map[string]string{}
	for k, v := range sp.Repl {
		repl[k] = v
	}
	for _, d := range f.Decls {
		g, ok := d.(*ast.GenDecl)
		if !ok || g.Tok != token.CONST {
			continue
		}
		for _, s := range g.Specs {
			vs, ok := s.(*ast.ValueSpec)
			if !ok || len(vs.Names) != len(vs.Values) {
				continue
			}
			for i, nm := range vs.Names {
				if lit, ok := vs.Values[i].(*ast.BasicLit); ok && lit.Kind == token.INT {
					if _, taken := repl[nm.Name]; !taken {
						repl[nm.Name] = "(" + lit.Value + " : Int)"
					}
				}
			}
		}
	}
	sp.Repl = repl
	return sp
}

// freshFunc parses a private copy of the file (the cached AST is shared with other units and must not be rewritten)
func freshFunc(rel, fn string) (*ast.File, *ast.FuncDecl) {
	f, err := parser.ParseFile(fset, rp(rel), nil, 0)
	if err != nil {
		panic(bail{fmt.Sprintf("parse %s: %v", rel, err)})
	}
	fd := findFunc(f, fn)
	if fd == nil || fd.Body == nil {
		panic(bail{fmt.Sprintf("function %s not found in %s", fn, rel)})
	}
	return f, fd
}

var errCodes = map[string]int{"nil": 0, "errSyntax": 1, "errStructural": 2, "errOther": 3, "err": 4}

// errBodyKernel: whole body of fn, normalised; result = 0 nil | 1 syntax | 2 structural | 3 other | 4 the failing callee's error
func errBodyKernel(rel, fn, leanName, params string, loopCall map[string]string, sp Spec) func() string {
	return func() string {
		f, fd := freshFunc(rel, fn)
		sp.Ret, sp.Status, sp.StatusIdx = "status", errCodes, 0
		sp = derWithConsts(f, sp)
		t := &tr{sp: sp, file: f}
		t.prepare(fd)
		body := t.block(errNorm{loopCall: loopCall, rel: rel, opaque: sp.ErrCalls}.block(pureLocals(fd, t, fd.Body.List), false), "(0 : Nat)", "  ")
		return fmt.Sprintf("/-- generated from %s func %s (whole body; 0 = nil, 1 = SyntaxError, 2 = StructuralError, 3 = another fresh error, 4 = the failing callee's error) -/\ndef %s %s : Nat :=\n  %s%s\n", rel, fn, leanName, params, sp.Prelude, body)
	}
}

// errLoopKernel: one iteration of the unique loop of fn whose header contains marker; falling off the end (next iteration) = fall
func errLoopKernel(rel, fn, marker, leanName, params, resultTy, fall string, sp Spec) func() string {
	return func() string {
		f, fd := freshFunc(rel, fn)
		var body *ast.BlockStmt
		cnt := 0
		ast.Inspect(fd.Body, func(nd ast.Node) bool {
			if l, ok := nd.(*ast.ForStmt); ok {
				hdr := ""
				if l.Init != nil {
					hdr += src(l.Init)
				}
				if l.Cond != nil {
					hdr += "; " + src(l.Cond)
				}
				if strings.Contains(hdr, marker) {
					body = l.Body
					cnt++
				}
			}
			return true
		})
		if cnt == 0 {
			// the loop may have moved into a helper of the same file that fn calls
			ast.Inspect(fd.Body, func(nd ast.Node) bool {
				if c, ok := nd.(*ast.CallExpr); ok {
					if id, ok := c.Fun.(*ast.Ident); ok {
						if h := findFunc(f, id.Name); h != nil && h.Body != nil && h != fd {
							ast.Inspect(h.Body, func(nd2 ast.Node) bool {
								if l, ok := nd2.(*ast.ForStmt); ok {
									hdr := ""
									if l.Init != nil {
										hdr += src(l.Init)
									}
									if l.Cond != nil {
										hdr += "; " + src(l.Cond)
									}
									if strings.Contains(hdr, marker) {
										body = l.Body
										cnt++
									}
								}
								return true
							})
						}
					}
				}
				return true
			})
		}
		if cnt != 1 {
			panic(bail{fmt.Sprintf("%s: expected exactly one loop over %q in %s, found %d", rel, marker, fn, cnt)})
		}
		sp = derWithConsts(f, sp)
		if sp.ContinueVal == "" {
			sp.ContinueVal = fall
		}
		t := &tr{sp: sp, file: f}
		t.prepare(fd)
		return fmt.Sprintf("/-- generated from %s func %s: one iteration of the loop `%s` -/\ndef %s %s : %s :=\n  %s%s\n", rel, fn, marker, leanName, params, resultTy, sp.Prelude,
			t.block(errNorm{}.block(body.List, false), fall, "  "))
	}
}

func init() {
	a := "asn1/asn1.go"
	x := "x509/x509.go"
	conv := map[string]string{"int": "id", "int64": "id"}
	register(genFile{name: "DerTie", imports: []string{"CTV.Basic.I64", "CTV.Basic.Bits"}, units: []unit{
		symIsFatal(x),
		symWrapper(x, "ParseCertificate", "parseCertificateBody"),
		symWrapper(x, "ParseTBSCertificate", "parseTBSCertificateBody"),
		// ParseCertificates: one iteration of each of its two loops (9 in the error position = go on with the next element)
		symStep(x, "ParseCertificates", "asn1.Unmarshal", "parseCertificatesSplitStep", "(strictFails laxFails : Bool) (nfe_ : Nat)", []string{"strictFails", "laxFails"}),
		symStep(x, "ParseCertificates", "parseCertificate", "parseCertificatesInnerStep", "(innerFails innerIsNfe : Bool) (innerN nfe_ : Nat)", []string{"innerFails", "innerIsNfe"}),
		{"checkInteger", errBodyKernel(a, "checkInteger", "checkIntegerBody", "(len : Int) (lax_ : Bool) (b0 b1 : Int)", nil,
			Spec{Kind: "i64", Lazy: true, Canon: true, ParamNames: []string{"bytes", "lax", "fieldName"},
				Repl: map[string]string{"len(bytes)": "len", "bytes[0]": "b0", "bytes[1]": "b1"}})},
		{"parseInt64", errBodyKernel(a, "parseInt64", "parseInt64Body", "(checkFails : Bool) (len : Int)", nil,
			Spec{Kind: "i64", Lazy: true, Canon: true, ParamNames: []string{"bytes", "lax", "fieldName"}, IgnoreLHS: []string{"ret"},
				ErrCalls: map[string]string{"checkInteger": "checkFails"}, Repl: map[string]string{"len(bytes)": "len"}})},
		{"parseInt32", errBodyKernel(a, "parseInt32", "parseInt32Body", "(checkFails int64Fails outOfRange : Bool)", nil,
			Spec{Kind: "i64", Lazy: true, Canon: true, ParamNames: []string{"bytes", "lax", "fieldName"},
				ErrCalls: map[string]string{"checkInteger": "checkFails", "parseInt64": "int64Fails"},
				InitCond: map[string]string{"err := checkInteger(bytes, lax, fieldName) ; err != nil": "checkFails"},
				Repl:     map[string]string{"ret64 != int64(int32(ret64))": "outOfRange"}})},
		{"parseBitString", errBodyKernel(a, "parseBitString", "parseBitStringBody", "(len : Int) (b0 : Int) (lastLowBitsSet : Bool)", nil,
			Spec{Kind: "i64", Lazy: true, Canon: true, ParamNames: []string{"bytes", "fieldName"}, Calls: conv,
				IgnoreLHS: []string{"ret.BitLength", "ret.Bytes"},
				Repl: map[string]string{"len(bytes)": "len", "bytes[0]": "b0", "bytes[len(bytes)-1]&((1<<bytes[0])-1) != 0": "lastLowBitsSet",
					"len(bytes[1:])": "(len - (1 : Int))"}})},
		{"parseBase128Int.loop", errLoopKernel(a, "parseBase128Int", "shifted", "parseBase128IntStep", "(shifted_ offset_ : Int) (byte : Int) (tooBig : Bool)", "Nat", "(9 : Nat)",
			Spec{Kind: "i64", Lazy: true, Ret: "status", Status: errCodes, Calls: conv, IgnoreLHS: []string{"offset", "ret64", "ret"},
				Repl: map[string]string{"bytes[offset]": "byte", "ret64 > math.MaxInt32": "tooBig"}})},
		{"parseTagAndLength", errBodyKernel(a, "parseTagAndLength", "parseTagAndLengthBody",
			"(len : Int) (byteAt : Int → Int) (initOffset_ : Int) (b128Fails : Bool) (b128Tag b128Off : Int) (loopFails : Bool) (loopLen : Int)",
			map[string]string{"i < numBytes": "lengthLoop"},
			Spec{Kind: "i64", Lazy: true, Calls: conv, IgnoreLHS: []string{"ret.class", "ret.isCompound"},
				Vars:     map[string]string{"ret.tag": "tag_", "ret.length": "length_"},
				ErrCalls: map[string]string{"parseBase128Int": "b128Fails|(tag_, offset_) := (b128Tag, b128Off)", "lengthLoop": "loopFails|length_ := loopLen"},
				Repl:     map[string]string{"len(bytes)": "len", "bytes[offset]": "(byteAt offset_)"}})},
		{"parseTagAndLength.loop", errLoopKernel(a, "parseTagAndLength", "i < numBytes", "parseLengthStep", "(len offset_ length_ : Int) (byteAt : Int → Int)", "Nat × Bool × Int × Int", "((9 : Nat), false, offset_, length_)",
			Spec{Kind: "i64", Lazy: true, Ret: "statusstate", Status: errCodes, StateVars: []string{"offset_", "length_"}, Calls: conv, Vars: map[string]string{"ret.length": "length_"},
				Repl: map[string]string{"len(bytes)": "len", "bytes[offset]": "(byteAt offset_)"}})},
		{"parseObjectIdentifier", errBodyKernel(a, "parseObjectIdentifier", "parseObjectIdentifierBody", "(len : Int) (lax_ firstFails loopFails : Bool)",
			map[string]string{"offset < len(bytes)": "arcLoop"},
			Spec{Kind: "i64", Lazy: true, IgnoreLHS: []string{"s", "s[0]", "s[1]", "i"},
				ErrCalls: map[string]string{"parseBase128Int": "firstFails", "arcLoop": "loopFails"}, Repl: map[string]string{"len(bytes)": "len"}})},
		{"parseBigInt", errBodyKernel(a, "parseBigInt", "parseBigIntBody", "(checkFails : Bool) (len b0 : Int)", nil,
			Spec{Kind: "i64", Lazy: true, Canon: true, ParamNames: []string{"bytes", "lax", "fieldName"}, IgnoreLHS: []string{"ret", "notBytes", "notBytes[i]"},
				InitCond: map[string]string{"err := checkInteger(bytes, lax, fieldName) ; err != nil": "checkFails"},
				Ignore:   []string{"ret.SetBytes", "ret.Add", "ret.Neg"},
				Repl:     map[string]string{"len(bytes)": "len", "bytes[0]": "b0"}})},
	}})
}
