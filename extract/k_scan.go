package main

// Regenerated units for C16 / C20: the range arithmetic of scanner/fetcher.go
// (genRanges, runWorker, Prepare, updateSTH), the index arithmetic of
// scanner/scanner.go's flatten and of migrillian's addSequencedLeaves, and the
// gRPC-code switch of addSequencedLeaves' retry closure.

import (
	"fmt"
	"go/ast"
	"go/token"
	"strings"
)

// forCondKernel translates the condition of the unique `for` statement in fn whose condition source contains every marker.
func forCondKernel(rel, fn string, markers []string, leanName, params string, sp Spec) func() string {
	return func() string {
		fd := mustFunc(rel, fn)
		t := &tr{sp: sp}
		ss := findStmts(fd, func(s ast.Stmt) bool {
			f, ok := s.(*ast.ForStmt)
			if !ok || f.Cond == nil {
				return false
			}
			c := src(f.Cond)
			for _, m := range markers {
				if !strings.Contains(c, m) {
					return false
				}
			}
			return true
		})
		if len(ss) != 1 {
			panic(bail{fmt.Sprintf("%s: expected exactly one `for` mentioning %v in %s, found %d", rel, markers, fn, len(ss))})
		}
		f := ss[0].(*ast.ForStmt)
		return fmt.Sprintf("/-- generated from %s func %s: `for %s` -/\ndef %s %s : Bool :=\n  %s\n", rel, fn, src(f.Cond), leanName, params, t.expr(f.Cond))
	}
}

// opAssignKernel translates the unique `lhs op= rhs` in fn as the new value of lhs.
func opAssignKernel(rel, fn, lhs, leanName, params, resultTy string, sp Spec) func() string {
	return func() string {
		fd := mustFunc(rel, fn)
		t := &tr{sp: sp}
		ss := findStmts(fd, func(s ast.Stmt) bool {
			a, ok := s.(*ast.AssignStmt)
			return ok && len(a.Lhs) == 1 && len(a.Rhs) == 1 && src(a.Lhs[0]) == lhs && a.Tok != token.ASSIGN && a.Tok != token.DEFINE
		})
		if len(ss) != 1 {
			panic(bail{fmt.Sprintf("%s: expected exactly one compound assignment to %s in %s, found %d", rel, lhs, fn, len(ss))})
		}
		a := ss[0].(*ast.AssignStmt)
		var op token.Token
		switch a.Tok {
		case token.ADD_ASSIGN:
			op = token.ADD
		case token.SUB_ASSIGN:
			op = token.SUB
		default:
			panic(bail{fmt.Sprintf("%s: unsupported compound assignment %s", rel, src(a))})
		}
		e := t.expr(&ast.BinaryExpr{X: a.Lhs[0], Op: op, Y: a.Rhs[0]})
		return fmt.Sprintf("/-- generated from %s func %s: `%s` -/\ndef %s %s : %s :=\n  %s\n", rel, fn, src(a), leanName, params, resultTy, e)
	}
}

// ifInitCondKernel translates `if v := init; cond` (unique `if` in fn whose condition contains the markers) as `let v := init; cond`.
func ifInitCondKernel(rel, fn string, markers []string, leanName, params string, sp Spec) func() string {
	return func() string {
		fd := mustFunc(rel, fn)
		t := &tr{sp: sp}
		ss := findStmts(fd, func(s ast.Stmt) bool {
			i, ok := s.(*ast.IfStmt)
			if !ok || i.Init == nil {
				return false
			}
			c := src(i.Cond)
			for _, m := range markers {
				if !strings.Contains(c, m) {
					return false
				}
			}
			return true
		})
		if len(ss) != 1 {
			panic(bail{fmt.Sprintf("%s: expected exactly one `if init; cond` mentioning %v in %s, found %d", rel, markers, fn, len(ss))})
		}
		i := ss[0].(*ast.IfStmt)
		a, ok := i.Init.(*ast.AssignStmt)
		if !ok || len(a.Lhs) != 1 || len(a.Rhs) != 1 || a.Tok != token.DEFINE {
			panic(bail{fmt.Sprintf("%s: unsupported if-init %s", rel, src(i.Init))})
		}
		return fmt.Sprintf("/-- generated from %s func %s: `if %s; %s` -/\ndef %s %s : Bool :=\n  let %s := %s\n  %s\n",
			rel, fn, src(i.Init), src(i.Cond), leanName, params, t.lvalue(a.Lhs[0]), t.expr(a.Rhs[0]), t.expr(i.Cond))
	}
}

// callArgsKernel emits the translated arguments (from index `from`) of the unique call of `callee` in fn as a tuple.
func callArgsKernel(rel, fn, callee string, from, count int, leanName, params, resultTy string, sp Spec) func() string {
	return func() string {
		fd := mustFunc(rel, fn)
		t := &tr{sp: sp}
		var calls []*ast.CallExpr
		ast.Inspect(fd.Body, func(n ast.Node) bool {
			if c, ok := n.(*ast.CallExpr); ok && src(c.Fun) == callee {
				calls = append(calls, c)
			}
			return true
		})
		if len(calls) != 1 {
			panic(bail{fmt.Sprintf("%s: expected exactly one call of %s in %s, found %d", rel, callee, fn, len(calls))})
		}
		var parts []string
		for _, a := range calls[0].Args[from : from+count] {
			parts = append(parts, t.expr(a))
		}
		return fmt.Sprintf("/-- generated from %s func %s: `%s` -/\ndef %s %s : %s :=\n  (%s)\n", rel, fn, src(calls[0]), leanName, params, resultTy, strings.Join(parts, ", "))
	}
}

// keyedFieldKernel translates the value of field `field` in the unique composite literal of type `typ` in fn.
func keyedFieldKernel(rel, fn, typ, field, leanName, params, resultTy string, sp Spec) func() string {
	return func() string {
		fd := mustFunc(rel, fn)
		t := &tr{sp: sp}
		var vals []ast.Expr
		ast.Inspect(fd.Body, func(n ast.Node) bool {
			if c, ok := n.(*ast.CompositeLit); ok && c.Type != nil && src(c.Type) == typ {
				for _, el := range c.Elts {
					if kv, ok := el.(*ast.KeyValueExpr); ok && src(kv.Key) == field {
						vals = append(vals, kv.Value)
					}
				}
			}
			return true
		})
		if len(vals) != 1 {
			panic(bail{fmt.Sprintf("%s: expected exactly one %s{%s: …} in %s, found %d", rel, typ, field, fn, len(vals))})
		}
		return fmt.Sprintf("/-- generated from %s func %s: `%s{… %s: %s …}` -/\ndef %s %s : %s :=\n  %s\n", rel, fn, typ, field, src(vals[0]), leanName, params, resultTy, t.expr(vals[0]))
	}
}

// retrySwitchTable reads the `switch status.Code(err)` of addSequencedLeaves' retry closure:
// for every case, 1 if the closure returns errRetry (ask the back-off to try again) and 0 if it returns nil.
func retrySwitchTable(rel, fn, leanName string) func() string {
	return func() string {
		fd := mustFunc(rel, fn)
		ss := findStmts(fd, func(s ast.Stmt) bool {
			sw, ok := s.(*ast.SwitchStmt)
			return ok && sw.Tag != nil && strings.HasPrefix(src(sw.Tag), "status.Code(")
		})
		if len(ss) != 1 {
			panic(bail{fmt.Sprintf("%s: expected one switch status.Code(err) in %s, found %d", rel, fn, len(ss))})
		}
		var rows []string
		def := ""
		for _, c := range ss[0].(*ast.SwitchStmt).Body.List {
			cc := c.(*ast.CaseClause)
			if len(cc.Body) == 0 {
				panic(bail{fmt.Sprintf("%s: empty case in retry switch", rel)})
			}
			r, ok := cc.Body[len(cc.Body)-1].(*ast.ReturnStmt)
			if !ok || len(r.Results) != 1 {
				panic(bail{fmt.Sprintf("%s: case does not end in a single-value return: %s", rel, src(cc))})
			}
			v := ""
			switch src(r.Results[0]) {
			case "errRetry":
				v = "1"
			case "nil":
				v = "0"
			default:
				panic(bail{fmt.Sprintf("%s: unknown closure result %s", rel, src(r.Results[0]))})
			}
			if cc.List == nil {
				def = v
				continue
			}
			for _, k := range cc.List {
				kv, ok := grpcCodes[src(k)]
				if !ok {
					panic(bail{fmt.Sprintf("%s: unknown code %s", rel, src(k))})
				}
				rows = append(rows, fmt.Sprintf("(%d, %s)", kv, v))
			}
		}
		if def == "" {
			panic(bail{fmt.Sprintf("%s: retry switch has no default", rel)})
		}
		return fmt.Sprintf("/-- generated from %s func %s: `switch status.Code(err)`; 1 = the closure asks for a retry (returns errRetry), 0 = it stops (returns nil) -/\ndef %s : List (Nat × Nat) :=\n  [%s]\ndef %sDefault : Nat := %s\n",
			rel, fn, leanName, strings.Join(rows, ", "), leanName, def)
	}
}

// errRetryKind reports how `errRetry` is declared: 1 if it is a backoff.RetriableError (which
// backoff.Retry recognises), 0 if it is a plain error value (which backoff.Retry of trillian ≥ 1.4 does not retry).
func errRetryKind(rel, leanName string) func() string {
	return func() string {
		f := parseFile(rp(rel))
		for _, d := range f.Decls {
			gd, ok := d.(*ast.GenDecl)
			if !ok || gd.Tok != token.VAR {
				continue
			}
			for _, s := range gd.Specs {
				vs := s.(*ast.ValueSpec)
				for i, n := range vs.Names {
					if n.Name == "errRetry" && i < len(vs.Values) {
						init := src(vs.Values[i])
						v := ""
						switch {
						case strings.HasPrefix(init, "backoff.RetriableError"):
							v = "true"
						case strings.HasPrefix(init, "errors.New(") || strings.HasPrefix(init, "fmt.Errorf("):
							v = "false"
						default:
							panic(bail{fmt.Sprintf("%s: cannot classify errRetry = %s", rel, init)})
						}
						return fmt.Sprintf("/-- generated from %s: `errRetry = %s`; true iff the value is a backoff.RetriableError -/\ndef %s : Bool := %s\n", rel, init, leanName, v)
					}
				}
			}
		}
		panic(bail{fmt.Sprintf("%s: errRetry not found", rel)})
	}
}

// ifEndsWithContinue reports whether the body of the unique `if` in fn whose condition contains every marker ends in `continue`.
func ifEndsWithContinue(rel, fn string, markers []string, leanName string) func() string {
	return func() string {
		fd := mustFunc(rel, fn)
		ss := findStmts(fd, func(s ast.Stmt) bool {
			i, ok := s.(*ast.IfStmt)
			if !ok {
				return false
			}
			c := src(i.Cond)
			for _, m := range markers {
				if !strings.Contains(c, m) {
					return false
				}
			}
			return true
		})
		if len(ss) != 1 {
			panic(bail{fmt.Sprintf("%s: expected exactly one `if` mentioning %v in %s, found %d", rel, markers, fn, len(ss))})
		}
		i := ss[0].(*ast.IfStmt)
		v := "false"
		if n := len(i.Body.List); n > 0 {
			if b, ok := i.Body.List[n-1].(*ast.BranchStmt); ok && b.Tok == token.CONTINUE && b.Label == nil {
				v = "true"
			}
		}
		return fmt.Sprintf("/-- generated from %s func %s: does the body of `if %s` end in `continue` (back to the loop test, no range computed in this iteration)? -/\ndef %s : Bool := %s\n",
			rel, fn, src(i.Cond), leanName, v)
	}
}

// stmtRangeKernel translates the statements of fn that lie strictly between the statement whose source starts with
// `after` and the statement whose source starts with `before` (both must be direct children of the function body), in
// their order, as one Lean definition returning `result` — so that moving a statement changes the term.
func stmtRangeKernel(rel, fn, after, before, leanName, params, resultTy, result string, sp Spec) func() string {
	return func() string {
		fd := mustFunc(rel, fn)
		lo, hi := -1, -1
		for i, st := range fd.Body.List {
			c := src(st)
			if lo < 0 && strings.HasPrefix(c, after) {
				lo = i
			} else if lo >= 0 && hi < 0 && strings.HasPrefix(c, before) {
				hi = i
			}
		}
		if lo < 0 || hi < 0 || hi <= lo+1 {
			panic(bail{fmt.Sprintf("%s: cannot delimit the statements between `%s` and `%s` in %s", rel, after, before, fn)})
		}
		t := &tr{sp: sp}
		body := t.block(fd.Body.List[lo+1:hi], result, "  ")
		return fmt.Sprintf("/-- generated from %s func %s: the statements between `%s…` and `%s…`, in order -/\ndef %s %s : %s :=\n  %s\n", rel, fn, after, before, leanName, params, resultTy, body)
	}
}

func scanStrList(xs []string) string {
	var q []string
	for _, x := range xs {
		q = append(q, fmt.Sprintf("%q", x))
	}
	return "[" + strings.Join(q, ", ") + "]"
}

// mentionsSelector: does fn contain a selector expression `recv.name` (or a call of `recv.name()`)?
func mentionsSelector(rel, fn, recv string, names []string, leanName, doc string) func() string {
	return func() string {
		fd := mustFunc(rel, fn)
		found := false
		// the response variable is whatever the AddSequencedLeaves call's first result is assigned to
		ast.Inspect(fd.Body, func(n ast.Node) bool {
			if a, ok := n.(*ast.AssignStmt); ok && len(a.Rhs) == 1 && len(a.Lhs) >= 1 && strings.HasSuffix(callName(a.Rhs[0]), ".AddSequencedLeaves") {
				if id, ok := a.Lhs[0].(*ast.Ident); ok {
					recv = id.Name
				}
			}
			return true
		})
		ast.Inspect(fd.Body, func(n ast.Node) bool {
			if se, ok := n.(*ast.SelectorExpr); ok {
				if id, ok := se.X.(*ast.Ident); ok && id.Name == recv {
					for _, nm := range names {
						if se.Sel.Name == nm {
							found = true
						}
					}
				}
			}
			return true
		})
		return fmt.Sprintf("/-- generated from %s func %s: %s -/\ndef %s : Bool := %v\n", rel, fn, doc, leanName, found)
	}
}

// errorReturnGuards lists, for every `return` of fn whose last result is not `nil`, the condition of the innermost enclosing `if`
// together with the source of the statement just before that `if` (where the error comes from).
func errorReturnGuards(rel, fn, leanName string) func() string {
	return func() string {
		fd := mustFunc(rel, fn)
		var rows []string
		var walk func(list []ast.Stmt)
		walk = func(list []ast.Stmt) {
			for i, st := range list {
				is, ok := st.(*ast.IfStmt)
				if !ok {
					continue
				}
				for _, b := range is.Body.List {
					if r, ok := b.(*ast.ReturnStmt); ok && len(r.Results) > 0 && src(r.Results[len(r.Results)-1]) != "nil" {
						prev := ""
						if i > 0 {
							prev = src(list[i-1])
						}
						if is.Init != nil {
							prev = src(is.Init)
						}
						rows = append(rows, prev+" ;; "+src(is.Cond))
					}
				}
				walk(is.Body.List)
			}
		}
		walk(fd.Body.List)
		// an unconditional error return at top level would not be inside an `if`
		for _, st := range fd.Body.List {
			if r, ok := st.(*ast.ReturnStmt); ok && len(r.Results) > 0 && src(r.Results[len(r.Results)-1]) != "nil" {
				rows = append(rows, "unconditional ;; "+src(r))
			}
		}
		return fmt.Sprintf("/-- generated from %s func %s: every `return` with a non-nil error, as `<statement producing the error> ;; <guard>` -/\ndef %s : List String :=\n  %s\n", rel, fn, leanName, scanStrList(rows))
	}
}

// topLevelIfConds lists the conditions of the top-level `if` statements of fn, in order, followed by the source of its final return.
func topLevelIfConds(rel, fn, leanName string) func() string {
	return func() string {
		fd := mustFunc(rel, fn)
		var rows []string
		for _, st := range fd.Body.List {
			switch x := st.(type) {
			case *ast.IfStmt:
				rows = append(rows, "if "+src(x.Cond))
			case *ast.SwitchStmt: // a tagless switch is a chain of ifs
				if x.Tag == nil {
					for _, c := range x.Body.List {
						for _, e := range c.(*ast.CaseClause).List {
							rows = append(rows, "if "+src(e))
						}
					}
				}
			case *ast.ReturnStmt:
				rows = append(rows, src(x))
			}
		}
		return fmt.Sprintf("/-- generated from %s func %s: its top-level tests in order, then its final return -/\ndef %s : List String :=\n  %s\n", rel, fn, leanName, scanStrList(rows))
	}
}

// backoffLiteral reads the fields of the unique `backoff.Backoff{…}` literal in fn: durations in nanoseconds, Factor as an integer.
func backoffLiteral(rel, fn, prefix string) func() string {
	return func() string {
		fd := mustFunc(rel, fn)
		var lits []*ast.CompositeLit
		ast.Inspect(fd.Body, func(n ast.Node) bool {
			if c, ok := n.(*ast.CompositeLit); ok && c.Type != nil && src(c.Type) == "backoff.Backoff" {
				lits = append(lits, c)
			}
			return true
		})
		if len(lits) != 1 {
			panic(bail{fmt.Sprintf("%s: expected one backoff.Backoff literal in %s, found %d", rel, fn, len(lits))})
		}
		vals := map[string]string{}
		consts := map[string]ast.Expr{} // package-level constants of the file
		for _, d := range parseFile(rp(rel)).Decls {
			if gd, ok := d.(*ast.GenDecl); ok && gd.Tok == token.CONST {
				for _, sp := range gd.Specs {
					vs := sp.(*ast.ValueSpec)
					for i, n := range vs.Names {
						if i < len(vs.Values) {
							consts[n.Name] = vs.Values[i]
						}
					}
				}
			}
		}
		for _, el := range lits[0].Elts {
			kv, ok := el.(*ast.KeyValueExpr)
			if !ok {
				panic(bail{fmt.Sprintf("%s: unkeyed backoff.Backoff literal", rel)})
			}
			if id, ok := kv.Value.(*ast.Ident); ok {
				if v, ok := consts[id.Name]; ok {
					kv = &ast.KeyValueExpr{Key: kv.Key, Value: v}
				}
			}
			k := src(kv.Key)
			switch k {
			case "Min", "Max":
				v, ok := durLit(kv.Value)
				if !ok {
					panic(bail{fmt.Sprintf("%s: %s is not a duration literal: %s", rel, k, src(kv.Value))})
				}
				vals[k] = v
			case "Factor":
				v, ok := intLit(kv.Value)
				if !ok {
					panic(bail{fmt.Sprintf("%s: Factor is not an integer literal: %s", rel, src(kv.Value))})
				}
				vals[k] = v
			case "Jitter":
				vals[k] = src(kv.Value)
			}
		}
		for _, k := range []string{"Min", "Max", "Factor", "Jitter"} {
			if _, ok := vals[k]; !ok {
				panic(bail{fmt.Sprintf("%s: backoff.Backoff literal in %s lacks %s", rel, fn, k)})
			}
		}
		return fmt.Sprintf("/-- generated from %s func %s: `%s` (durations in ns) -/\ndef %sMin : Int := %s\ndef %sMax : Int := %s\ndef %sFactor : Int := %s\ndef %sJitter : Bool := %s\n",
			rel, fn, src(lits[0]), prefix, vals["Min"], prefix, vals["Max"], prefix, vals["Factor"], prefix, vals["Jitter"])
	}
}

// callArgSources: the argument sources of the unique call of callee in fn.
func callArgSources(rel, fn, callee, leanName string) func() string {
	return func() string {
		fd := mustFunc(rel, fn)
		var calls []*ast.CallExpr
		ast.Inspect(fd.Body, func(n ast.Node) bool {
			if c, ok := n.(*ast.CallExpr); ok && src(c.Fun) == callee {
				calls = append(calls, c)
			}
			return true
		})
		if len(calls) != 1 {
			panic(bail{fmt.Sprintf("%s: expected exactly one call of %s in %s, found %d", rel, callee, fn, len(calls))})
		}
		var xs []string
		for _, a := range calls[0].Args {
			xs = append(xs, src(a))
		}
		return fmt.Sprintf("/-- generated from %s func %s: arguments of `%s` -/\ndef %s : List String :=\n  %s\n", rel, fn, callee, leanName, scanStrList(xs))
	}
}

// switchAssignTable: for the unique `switch tag` in fn, the pairs (case constant, right-hand side assigned to lhs).
func switchAssignTable(rel, fn, tag, lhs, leanName string) func() string {
	return func() string {
		fd := mustFunc(rel, fn)
		ss := findStmts(fd, func(s ast.Stmt) bool {
			sw, ok := s.(*ast.SwitchStmt)
			return ok && sw.Tag != nil && src(sw.Tag) == tag
		})
		if len(ss) != 1 {
			panic(bail{fmt.Sprintf("%s: expected one switch %s in %s, found %d", rel, tag, fn, len(ss))})
		}
		var rows []string
		for _, c := range ss[0].(*ast.SwitchStmt).Body.List {
			cc := c.(*ast.CaseClause)
			if cc.List == nil {
				continue
			}
			for _, st := range cc.Body {
				if a, ok := st.(*ast.AssignStmt); ok && len(a.Lhs) == 1 && src(a.Lhs[0]) == lhs {
					for _, k := range cc.List {
						rows = append(rows, fmt.Sprintf("(%q, %q)", src(k), src(a.Rhs[0])))
					}
				}
			}
		}
		return fmt.Sprintf("/-- generated from %s func %s: `switch %s`, value assigned to %s per case -/\ndef %s : List (String × String) :=\n  [%s]\n", rel, fn, tag, lhs, leanName, strings.Join(rows, ", "))
	}
}

func init() {
	f := "scanner/fetcher.go"
	ign := []string{"klog."}
	i64 := Spec{Kind: "i64", Ignore: ign, Calls: map[string]string{"min": "min64"}}
	register(genFile{name: "Scan", imports: []string{"CTV.Basic.I64"}, units: []unit{
		{"min", funcKernel(f, "min", "min64", "(a_ b_ : Int)", "Int", Spec{Kind: "i64"})},
		{"genRanges.action", loopAction(f, "Fetcher.genRanges", "ranges", "updateSTH", "genRangesAction", "(start_ end_ : Int) (continuous : Bool)",
			Spec{Kind: "i64", Repl: map[string]string{"f.opts.Continuous": "continuous"}})},
		{"genRanges.batchEnd", assignAnywhere(f, "Fetcher.genRanges", "batchEnd", false, "genRangesBatchEnd", "(start_ end_ batch_ : Int)", "Int", i64)},
		{"genRanges.next", rangeLiteral(f, "Fetcher.genRanges", "fetchRange", "genRangesNext", "(start_ batchEnd_ : Int)", "Int × Int", i64)},
		{"genRanges.advance", assignAnywhere(f, "Fetcher.genRanges", "start", false, "genRangesAdvance", "(batchEnd_ : Int)", "Int", i64)},
		{"genRanges.batch", assignKernel(f, "Fetcher.genRanges", "batch", "genRangesBatch", "(batchSize : Int)", "Int",
			Spec{Kind: "i64", Repl: map[string]string{"f.opts.BatchSize": "batchSize"}})},
		{"runWorker.loop", rangeLoopCond(f, "Fetcher.runWorker", "workerMore", "(rstart rend : Int)",
			Spec{Kind: "i64", Repl: map[string]string{"r.start": "rstart", "r.end": "rend"}})},
		{"runWorker.request", callArgsAnywhere(f, "Fetcher.runWorker", ".client.GetRawEntries", 1, 2, "r", -1, "workerRequest", "(rstart rend : Int)", "Int × Int",
			Spec{Kind: "i64", Repl: map[string]string{"r.start": "rstart", "r.end": "rend"}})},
		{"runWorker.advance", startAdvance(f, "Fetcher.runWorker", "workerAdvance", "(rstart n : Int)", "Int", Spec{Kind: "i64"})},
		{"runWorker.batchStart", fieldAnywhere(f, "Fetcher.runWorker", "EntryBatch", "Start", "r", -1, "workerBatchStart", "(rstart : Int)", "Int",
			Spec{Kind: "i64", Repl: map[string]string{"r.start": "rstart"}})},
		{"runWorker.decision", workerDecision(f, "Fetcher.runWorker", "fn", "workerDecision")},
		{"Prepare.body", decisionChain(f, "Fetcher.Prepare", "prepareChain", "(cached sthFails : Bool)", "Nat", chainSpec{
			Conds: map[string]string{"f.sth != nil": "cached"}, ErrCalls: map[string]string{".client.GetSTH": "sthFails"},
			Rets: map[string]string{"f.sth, nil": "1", "nil, err": "2", "sth, nil": "0"}})},
		{"Prepare.reset", guardOfAssign(f, "Fetcher.Prepare", "f.opts.EndIndex", "prepareResets", "(treeSize endIndex : Int)",
			Spec{Kind: "i64", Repl: map[string]string{"sth.TreeSize": "treeSize", "f.opts.EndIndex": "endIndex"}})},
		{"updateSTH.reject", rejectGuards(f, "Fetcher.updateSTH", ".GetSTH", "updateSTHRejects", "(treeSize endIndex batchSize : Int) (quick_ : Bool)",
			Spec{Kind: "u64", Repl: map[string]string{"sth.TreeSize": "treeSize", "f.opts.EndIndex": "endIndex", "f.opts.BatchSize": "batchSize"}})},
		{"updateSTH.newEnd", assignAnywhere(f, "Fetcher.updateSTH", "f.opts.EndIndex", true, "updateSTHNewEnd", "(treeSize : Int)", "Int",
			Spec{Kind: "i64", Repl: map[string]string{"sth.TreeSize": "treeSize"}})},
		{"ScanLog.flatten", fieldAnywhere("scanner/scanner.go", "Scanner.ScanLog", "entryInfo", "index", "", 0, "flattenIndex", "(bStart i_ : Int)", "Int",
			Spec{Kind: "i64", Repl: map[string]string{"b.Start": "bStart"}})},
	}})

	m := "trillian/migrillian/core/trillian.go"
	c := "trillian/migrillian/core/controller.go"
	register(genFile{name: "Migrate", imports: []string{"CTV.Basic.I64"}, units: []unit{
		{"addSequencedLeaves.index", callArgsAnywhere(m, "PreorderedLogClient.addSequencedLeaves", ".buildLogLeaf", 0, 1, "", 1, "leafIndex", "(bStart i_ : Int)", "Int",
			Spec{Kind: "i64", Repl: map[string]string{"b.Start": "bStart"}})},
		{"addSequencedLeaves.retry", retrySwitchTable(m, "PreorderedLogClient.addSequencedLeaves", "retryTable")},
		{"errRetry", errRetryKind(m, "errRetryIsRetriable")},
		{"addSequencedLeaves.results", mentionsSelector(m, "PreorderedLogClient.addSequencedLeaves", "rsp", []string{"Results", "GetResults"}, "addSeqChecksResults",
			"does the function look at the per-leaf statuses (`rsp.Results`) of a successful reply?")},
		{"addSequencedLeaves.backoff", backoffLiteral(m, "PreorderedLogClient.addSequencedLeaves", "quotaBackoff")},
		{"buildLogLeaf.errors", errorReturnGuards(m, "PreorderedLogClient.buildLogLeaf", "buildLogLeafErrorReturns")},
		{"NewPreorderedLogClient.idFunc", switchAssignTable(m, "NewPreorderedLogClient", "idFuncType", "ret.idFunc", "idFuncTable")},
		{"idHashCertData.arg", callArgSources(m, "idHashCertData", "sha256.Sum256", "idHashCertDataArg")},
		{"idHashLeafIndex.encode", callArgSources(m, "idHashLeafIndex", "binary.LittleEndian.PutUint64", "idHashLeafIndexEncode")},
		{"verifyConsistency.body", decisionChain(c, "Controller.verifyConsistency", "verifyConsistencyChain", "(treeSize_ : Int) (noCheck proofErr proofBad : Bool)", "Nat", chainSpec{
			Conds: map[string]string{"treeSize == 0": "(decide (treeSize_ = 0))", "c.opts.NoConsistencyCheck": "noCheck"},
			ErrCalls: map[string]string{".GetSTHConsistency": "proofErr", "proof.VerifyConsistency": "proofBad"},
			Rets:     map[string]string{"nil": "0"}})},
		{"fetchTail.head", decisionChain(c, "Controller.fetchTail", "fetchTailHead", "(rootFails prepareFails gateErr : Bool) (sthSize begin_ : Int)", "Nat", chainSpec{
			To:       "var wg sync.WaitGroup",
			Conds:    map[string]string{"sth.TreeSize <= begin": "(decide (sthSize ≤ begin_))", "err := c.verifyConsistency(": "gateErr"},
			ErrCalls: map[string]string{".getRoot": "rootFails", ".Prepare": "prepareFails"},
			Rets:     map[string]string{"0, err": "1", "begin, nil": "2"}, Fall: "0"})},
		{"fetchTail.tail", decisionChain(c, "Controller.fetchTail", "fetchTailTail", "(runFails ctxDone : Bool)", "Nat", chainSpec{
			From:     "defer cancel()",
			Conds:    map[string]string{"err := cctx.Err() ; err != nil": "ctxDone"},
			ErrCalls: map[string]string{"fetcher.Run": "runFails"},
			ErrLast:  true})},
		{"fetchTail.tailOrder", stmtOrder(c, "Controller.fetchTail", "defer cancel()", []string{"fetcher.Run(", "close(batches)", "wg.Wait()", "if err != nil", "cctx.Err()"}, "fetchTailTailOrder")},
		{"verifyConsistency.args", callArgSourcesFollowed(c, "Controller.verifyConsistency", "proof.VerifyConsistency", "verifyConsistencyArgs")},
		{"fetchTail.range", stmtsAfterKernel(c, "Controller.fetchTail", ".opts.FetcherOptions", []string{"klog.Infof(\"%s: fetching range"}, "fetchTailRange",
			"(startIndex endIndex : Int) (continuous : Bool) (treeSize_ begin_ : Int)", "Int × Int × Bool", "(startIndex, endIndex, continuous)",
			Spec{Kind: "i64", Vars: map[string]string{"fo.StartIndex": "startIndex", "fo.EndIndex": "endIndex", "fo.Continuous": "continuous"}})},
		{"fetchTail.uptodate", condKernel(c, "Controller.fetchTail", []string{"sth.TreeSize <= begin"}, "fetchTailUpToDate", "(sthSize begin_ : Int)",
			Spec{Kind: "u64", Repl: map[string]string{"sth.TreeSize": "sthSize"}})},
		{"runSubmitter.end", assignKernel(c, "Controller.runSubmitter", "end", "submitEnd", "(bStart n : Int)", "Int",
			Spec{Kind: "i64", Repl: map[string]string{"b.Start": "bStart", "len(b.Entries)": "n"}})},
	}})
}
