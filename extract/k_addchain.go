package main

// Regenerated units for C01 (add-chain / add-pre-chain after validation): the millisecond conversion, the entry-type
// selection, every guard of MerkleTreeLeafFromChain and the chain positions it reads, which value is hashed for the
// issuer key hash and for the identity hash, which leaf the SCT is built from, which part of the chain becomes extra
// data, the signature-algorithm type switch.

import (
	"fmt"
	"go/ast"
	"regexp"
	"strconv"
	"strings"
)

// srcCaptures: every statement / expression node of fn whose normalised source fully matches re; returns the capture
// groups of each match, in source order.  A pattern that matches nothing is an extraction failure.
func srcCaptures(rel, fn, pattern string) [][]string {
	fd := mustFunc(rel, fn)
	re := regexp.MustCompile("^" + pattern + "$")
	var out [][]string
	seen := map[string]bool{}
	ast.Inspect(fd.Body, func(n ast.Node) bool {
		switch n.(type) {
		case ast.Stmt, ast.Expr:
			s := src(n)
			if m := re.FindStringSubmatch(s); m != nil {
				k := fmt.Sprint(fset.Position(n.Pos()).Offset, len(s))
				if !seen[k] {
					seen[k] = true
					out = append(out, m[1:])
				}
			}
		}
		return true
	})
	if len(out) == 0 {
		panic(bail{fmt.Sprintf("%s: nothing in %s matches `%s`", rel, fn, pattern)})
	}
	return out
}

// indexFact: the pattern must match exactly once; its i-th capture group is a decimal index.
func indexFact(rel, fn, pattern string, group int, leanName string) func() string {
	return func() string {
		ms := srcCaptures(rel, fn, pattern)
		if len(ms) != 1 {
			panic(bail{fmt.Sprintf("%s: `%s` matches %d times in %s, expected once", rel, pattern, len(ms), fn)})
		}
		v, err := strconv.Atoi(ms[0][group])
		if err != nil {
			panic(bail{fmt.Sprintf("%s: capture %q of `%s` is not a number", rel, ms[0][group], pattern)})
		}
		return fmt.Sprintf("/-- generated from %s func %s: `%s` -/\ndef %s : Nat := %d\n", rel, fn, pattern, leanName, v)
	}
}

// exprFact: the pattern must match exactly once; its first capture group is emitted as a string.
func exprFact(rel, fn, pattern, leanName string) func() string {
	return func() string {
		ms := srcCaptures(rel, fn, pattern)
		if len(ms) != 1 {
			panic(bail{fmt.Sprintf("%s: `%s` matches %d times in %s, expected once", rel, pattern, len(ms), fn)})
		}
		return fmt.Sprintf("/-- generated from %s func %s: `%s` -/\ndef %s : String := %s\n", rel, fn, pattern, leanName, strconv.Quote(ms[0][0]))
	}
}

// keyValues: every `Key: value` of every composite literal in fn, in source order.
func keyValues(rel, fn, leanName string) func() string {
	return func() string {
		fd := mustFunc(rel, fn)
		var rows []string
		ast.Inspect(fd.Body, func(n ast.Node) bool {
			if kv, ok := n.(*ast.KeyValueExpr); ok {
				if _, isLit := kv.Value.(*ast.CompositeLit); !isLit {
					rows = append(rows, fmt.Sprintf("(%s, %s)", strconv.Quote(src(kv.Key)), strconv.Quote(src(kv.Value))))
				}
			}
			return true
		})
		return fmt.Sprintf("/-- generated from %s func %s: the fields of its composite literals, in source order -/\ndef %s : List (String × String) :=\n  [%s]\n", rel, fn, leanName, strings.Join(rows, ", "))
	}
}

// intProduct evaluates `a * b * …` of integer literals.
func intProduct(e ast.Expr) (string, bool) {
	if v, ok := intLit(e); ok {
		return v, true
	}
	if b, ok := e.(*ast.BinaryExpr); ok && src(b)[0] != '(' {
		l, lok := intProduct(b.X)
		r, rok := intProduct(b.Y)
		if lok && rok && strings.Contains(src(b), "*") && !strings.ContainsAny(src(b), "+-/") {
			x, _ := strconv.ParseInt(l, 0, 64)
			y, _ := strconv.ParseInt(r, 0, 64)
			return strconv.FormatInt(x*y, 10), true
		}
	}
	return "", false
}

// ifElseConst: `if cond { … lhs = A … } else { … lhs = B … }` in fn → `def name (c : Bool) : Int := if c then A else B`.
func ifElseConst(rel, fn, cond, lhs, leanName string, names map[string]string) func() string {
	return func() string {
		fd := mustFunc(rel, fn)
		ss := findStmts(fd, func(s ast.Stmt) bool {
			i, ok := s.(*ast.IfStmt)
			return ok && src(i.Cond) == cond && i.Else != nil
		})
		if len(ss) != 1 {
			panic(bail{fmt.Sprintf("%s: expected one `if %s {…} else {…}` in %s, found %d", rel, cond, fn, len(ss))})
		}
		pick := func(b []ast.Stmt) string {
			for _, s := range b {
				if a, ok := s.(*ast.AssignStmt); ok && len(a.Lhs) == 1 && src(a.Lhs[0]) == lhs {
					if v, ok := names[src(a.Rhs[0])]; ok {
						return v
					}
					panic(bail{fmt.Sprintf("%s: unknown constant %s assigned to %s", rel, src(a.Rhs[0]), lhs)})
				}
			}
			panic(bail{fmt.Sprintf("%s: branch of `if %s` does not assign %s", rel, cond, lhs)})
		}
		i := ss[0].(*ast.IfStmt)
		return fmt.Sprintf("/-- generated from %s func %s: `%s` chosen by `if %s` -/\ndef %s (c : Bool) : Int :=\n  if c then %s else %s\n",
			rel, fn, lhs, cond, leanName, pick(i.Body.List), pick(elseList(i.Else)))
	}
}

// typeSwitchTable: `switch k.(type) { case T: return C … default: return D }` as (type source, constant) rows.
func typeSwitchTable(rel, fn, leanName string, consts map[string]int) func() string {
	return func() string {
		fd := mustFunc(rel, fn)
		var sw *ast.TypeSwitchStmt
		n := 0
		ast.Inspect(fd.Body, func(nd ast.Node) bool {
			if s, ok := nd.(*ast.TypeSwitchStmt); ok {
				sw = s
				n++
			}
			return true
		})
		if n != 1 {
			panic(bail{fmt.Sprintf("%s: expected one type switch in %s, found %d", rel, fn, n)})
		}
		var rows []string
		def := -1
		for _, c := range sw.Body.List {
			cc := c.(*ast.CaseClause)
			if len(cc.Body) != 1 {
				panic(bail{fmt.Sprintf("%s: case body is not a single return", rel)})
			}
			r, ok := cc.Body[0].(*ast.ReturnStmt)
			if !ok || len(r.Results) != 1 {
				panic(bail{fmt.Sprintf("%s: case body is not a single-value return", rel)})
			}
			v, ok := consts[src(r.Results[0])]
			if !ok {
				panic(bail{fmt.Sprintf("%s: unknown constant %s", rel, src(r.Results[0]))})
			}
			if cc.List == nil {
				def = v
				continue
			}
			for _, t := range cc.List {
				rows = append(rows, fmt.Sprintf("(%s, %d)", strconv.Quote(src(t)), v))
			}
		}
		if def < 0 {
			panic(bail{fmt.Sprintf("%s: type switch in %s has no default", rel, fn)})
		}
		return fmt.Sprintf("/-- generated from %s func %s: the type switch -/\ndef %s : List (String × Nat) :=\n  [%s]\ndef %sDefault : Nat := %d\n", rel, fn, leanName, strings.Join(rows, ", "), leanName, def)
	}
}

func init() {
	hh := "trillian/ctfe/handlers.go"
	ss := "serialization.go"
	mtl := map[string]string{"len($[]*x509.Certificate)": "n", "$LogEntryType": "etype", "X509LogEntryType": "acX509EntryType", "PrecertLogEntryType": "acPrecertEntryType"}
	mtlC := map[string]string{"$LogEntryType": "etype", "X509LogEntryType": "acX509EntryType", "PrecertLogEntryType": "acPrecertEntryType"}
	mk := func(name string, markers []string, params string) unit {
		return unit{name, semCond(ss, "MerkleTreeLeafFromChain", markers, name, params, Spec{Kind: "i64", Repl: mtl})}
	}
	register(genFile{name: "AddChain", imports: []string{"CTV.Basic.I64"}, units: []unit{
		// ---- addChainInternal
		{"millisPerNano", constKernel("trillian/ctfe/structures.go", "millisPerNano", "millisPerNano", intProduct)},
		{"timeMillis", assignKernel(hh, "addChainInternal", "timeMillis", "timeMillis", "(nowNanos : Int)", "Int",
			Spec{Kind: "i64", Repl: map[string]string{"li.TimeSource.Now().UnixNano()": "nowNanos", "millisPerNano": "millisPerNano"}})},
		{"acX509EntryType", constKernel("types.go", "X509LogEntryType", "acX509EntryType", intLit)},
		{"acPrecertEntryType", constKernel("types.go", "PrecertLogEntryType", "acPrecertEntryType", intLit)},
		{"etypeOf", semConstChoice(hh, "addChainInternal", "$bool", "ct.PrecertLogEntryType", "ct.X509LogEntryType", "etypeOf", "acPrecertEntryType", "acX509EntryType")},
		// canonical vocabulary (extract/canon.go): `$QueueLeaf` = the local holding the QueueLeaf response, `$decl(T)` = the local declared `var _ T`
		{"sctLeafSource", semStmtFact(hh, "addChainInternal", `tls\.Unmarshal\((.*),&\$decl\(ct\.MerkleTreeLeaf\)\)`, "sctLeafSource")},
		{"sctBuiltFrom", semStmtFact(hh, "addChainInternal", `buildV1SCT\(\$\*logInfo\.signer,(.*)\)`, "sctBuiltFrom")},
		// ---- ct.MerkleTreeLeafFromChain
		mk("mtlEmpty", []string{"len($[]*x509.Certificate) == 0"}, "(n : Int)"),
		// the X.509 entry is returned / the entry type is refused under these conditions on the entry type (reach conditions
		// of the first successful return and of the "unknown LogEntryType" error, restricted to the conjuncts on `etype`)
		{"mtlIsX509", semReach(ss, "MerkleTreeLeafFromChain", "func", firstOKReturn(ss, "MerkleTreeLeafFromChain"), []string{"$LogEntryType"},
			"mtlIsX509", "(etype : Int)", Spec{Kind: "i64", Repl: mtlC})},
		{"mtlNotPrecert", semReach(ss, "MerkleTreeLeafFromChain", "func",
			func(r canonReturn) bool { return len(r.results) == 2 && strings.Contains(r.results[1], "unknownLogEntryType") }, []string{"$LogEntryType"},
			"mtlNotPrecert", "(etype : Int)", Spec{Kind: "i64", Repl: mtlC})},
		mk("mtlNoIssuer", []string{"len($[]*x509.Certificate) < 2"}, "(n : Int)"),
		{"mtlIsPreIssuer", semCond(ss, "MerkleTreeLeafFromChain", []string{"IsPreIssuer($var($[]*x509.Certificate[1]))"}, "mtlIsPreIssuer", "(issuerIsPreIssuer : Bool)",
			Spec{Kind: "i64", Repl: map[string]string{"IsPreIssuer($var($[]*x509.Certificate[1]))": "issuerIsPreIssuer"}})},
		mk("mtlNoFinalIssuer", []string{"len($[]*x509.Certificate) < 3"}, "(n : Int)"),
		{"mtlX509Idx", semAssignFact(ss, "MerkleTreeLeafFromChain", `=&ASN1Cert\{Data:(?:\$elem|\$\[\]\*x509\.Certificate\[)(\d+)\]?\.Raw\}$`, 0, 1, true, "mtlX509Idx")},
		{"mtlPrecertIdx", semAssignFact(ss, "MerkleTreeLeafFromChain", `=x509\.BuildPrecertTBS\((?:\$elem|\$\[\]\*x509\.Certificate\[)(\d+)\]?\.RawTBSCertificate,`, 0, 1, true, "mtlPrecertIdx")},
		{"mtlIssuerIdx", semAssignFact(ss, "MerkleTreeLeafFromChain", `^\$var\(\$\[\]\*x509\.Certificate\[\d+\]\)=\$\[\]\*x509\.Certificate\[(\d+)\]$`, 0, 2, true, "mtlIssuerIdx")},
		{"mtlFinalIssuerIdx", semAssignFact(ss, "MerkleTreeLeafFromChain", `^\$var\(\$\[\]\*x509\.Certificate\[\d+\]\)=\$\[\]\*x509\.Certificate\[(\d+)\]$`, 1, 2, true, "mtlFinalIssuerIdx")},
		{"mtlKeyHashOf", semAssignFact(ss, "MerkleTreeLeafFromChain", `sha256\.Sum256\((\$var\(\$\[\]\*x509\.Certificate\[\d+\]\)\.\w+)\)`, 0, 1, false, "mtlKeyHashOf")},
		{"mtlTBSArgs", semAssignFact(ss, "MerkleTreeLeafFromChain", `=x509\.BuildPrecertTBS\((.*)\)$`, 0, 1, false, "mtlTBSArgs")},
		{"mtlFields", semKeyValues(ss, "MerkleTreeLeafFromChain", "mtlFields")},
		// ---- util.buildLogLeaf, directIssuanceChainService.BuildLogLeaf
		{"idHashOf", semStmtFact("trillian/util/log_leaf.go", "buildLogLeaf", `sha256\.Sum256\((.*)\)`, "idHashOf")},
		{"leafCertIdx", indexFact("trillian/ctfe/services.go", "directIssuanceChainService.BuildLogLeaf", `util\.BuildLogLeaf\(logPrefix, \*merkleLeaf, 0, raw\[(\d+)\], raw\[(\d+):\], isPrecert\)`, 0, "leafCertIdx")},
		{"extraFromIdx", indexFact("trillian/ctfe/services.go", "directIssuanceChainService.BuildLogLeaf", `util\.BuildLogLeaf\(logPrefix, \*merkleLeaf, 0, raw\[(\d+)\], raw\[(\d+):\], isPrecert\)`, 1, "extraFromIdx")},
		// ---- buildV1SCT, GetCTLogID, tls.SignatureAlgorithmFromPubKey
		{"sctFields", semKeyValues("trillian/ctfe/serialize.go", "buildV1SCT", "sctFields")},
		{"sctLogIDOf", semStmtFact("trillian/ctfe/serialize.go", "buildV1SCT", `GetCTLogID\((.*)\)`, "sctLogIDOf")},
		{"sctSigner", semStmtFact("trillian/ctfe/serialize.go", "buildV1SCT", `:=(\$[\w.*\[\]]+?)\.Sign\(rand\.Reader,`, "sctSigner")},
		{"logIDOf", exprFact("trillian/ctfe/structures.go", "GetCTLogID", `sha256\.Sum256\((.*)\)`, "logIDOf")},
		{"logIDBytes", exprFact("trillian/ctfe/structures.go", "GetCTLogID", `pubBytes, err := (.*)`, "logIDBytes")},
		{"tlsSHA256", constKernel("tls/types.go", "SHA256", "tlsSHA256", intLit)},
		{"sigAlgOfKey", typeSwitchTable("tls/types.go", "SignatureAlgorithmFromPubKey", "sigAlgOfKey", map[string]int{"Anonymous": 0, "RSA": 1, "DSA": 2, "ECDSA": 3})},
	}})
}

// firstOKReturn selects the first return of fn whose last result is nil.
func firstOKReturn(rel, fn string) func(r canonReturn) bool {
	return func(r canonReturn) bool {
		v := canonOf(rel, fn)
		for _, x := range v.returns {
			if len(x.results) > 0 && x.results[len(x.results)-1] == "nil" {
				return len(x.results) == len(r.results) && strings.Join(x.results, ",") == strings.Join(r.results, ",") && len(x.pc) == len(r.pc)
			}
		}
		return false
	}
}
