#!/usr/bin/env python3
"""tools/seedcheck.py <PROP> <src dir with patch.diff, demo_test.go, meta.json> <name>

Confirms a seeded defective change independently (patch applies, tree builds, touched packages' own tests pass, the
demonstration fails with the patch and passes without), stores it as /verif/seeded/<name>/, then runs ./check <PROP>
against the patched scratch tree and records whether and how the check fired. /repo is never touched.
"""
import json, os, re, shutil, subprocess, sys

ROOT = os.path.dirname(os.path.dirname(os.path.abspath(__file__)))
WT = f"/tmp/wt-seedcheck-{os.getpid()}"  # private: several sessions run this concurrently
ENV = dict(os.environ, GOFLAGS="-mod=mod", GOPROXY="off")
ENV.pop("GOSUMDB", None)


def sh(cmd, cwd=None, timeout=1800, env=ENV):
    p = subprocess.run(cmd, cwd=cwd, shell=isinstance(cmd, str), stdout=subprocess.PIPE, stderr=subprocess.STDOUT, text=True, timeout=timeout, env=env)
    return p.returncode, p.stdout


def main():
    prop, src, name = sys.argv[1], sys.argv[2], sys.argv[3]
    dst = os.path.join(ROOT, "seeded", name)
    os.makedirs(dst, exist_ok=True)
    if os.path.realpath(src) != os.path.realpath(dst):
        for f in os.listdir(src):
            if os.path.isfile(os.path.join(src, f)):
                shutil.copy(os.path.join(src, f), os.path.join(dst, f))
    meta = json.load(open(os.path.join(dst, "meta.json")))
    if not os.path.isdir(WT):
        sh(["git", "-C", "/repo", "worktree", "add", "-q", "--detach", WT, "HEAD"])
    head = sh(["git", "-C", "/repo", "rev-parse", "HEAD"])[1].strip()
    sh(f"git -C {WT} checkout -q --detach {head}; git -C {WT} checkout -q -- .; git -C {WT} clean -fdq")
    patch = os.path.join(dst, "patch.diff")
    res = {"repo_head": head}
    rc, out = sh(["git", "-C", WT, "apply", "--check", patch])
    res["applies"] = rc == 0
    if rc != 0:
        res["error"] = out[-500:]
        sh(["git", "-C", "/repo", "worktree", "remove", "--force", WT])
        return finish(dst, meta, res)
    # where does the demo go?  first line comments name the package directory; fall back to the touched package
    touched = sorted({os.path.dirname(m) for m in re.findall(r"^\+\+\+ b/(\S+)", open(patch).read(), flags=re.M)})
    demo = os.path.join(dst, "demo_test.go")
    demo_src = open(demo).read() if os.path.exists(demo) else ""
    m = re.search(r"(?:copied? (?:in)?to|directory|Place .* in|package directory)[^\n]*?((?:\./)?[a-z0-9_/\.]+/)\s", demo_src[:1500])
    pkgdir = None
    for cand in re.findall(r"(?:\./)?([a-zA-Z0-9_]+(?:/[a-zA-Z0-9_]+)*)/?", demo_src[:1500]):
        if os.path.isdir(os.path.join(WT, cand)) and any(f.endswith(".go") for f in os.listdir(os.path.join(WT, cand))):
            pkgdir = cand
            break
    # the `go test … ./pkg/` command in the header is the most reliable pointer
    gm = re.search(r"go test[^\n]*?\s\./([A-Za-z0-9_/\.]+?)/?\s*$", demo_src[:3000], flags=re.M)
    if gm and os.path.isdir(os.path.join(WT, gm.group(1))):
        pkgdir = gm.group(1).rstrip("/")
    if re.search(r"^package ct(_test)?\s*$", demo_src, flags=re.M):
        pkgdir = "."
    if pkgdir is None:
        pkgdir = touched[0] if touched else "."
    pkgname = re.search(r"^package\s+(\w+)", demo_src, flags=re.M)
    runm = re.search(r"-run\s+'?\"?([^\s'\"]+)", demo_src[:2500])
    runpat = runm.group(1) if runm else "."
    res.update({"demo_pkg": pkgdir, "demo_run": runpat, "touched": touched})
    demo_dst = os.path.join(WT, pkgdir, "zz_seed_demo_test.go")

    def run_demo():
        shutil.copy(demo, demo_dst)
        env = dict(ENV)
        if "synctest" in demo_src:
            env["GOEXPERIMENT"] = "synctest"  # demonstrations under virtual time need the go1.24 experiment
        rc, out = sh(["go", "test", "-count=1", "-vet=off", "-run", runpat, "." if pkgdir == "." else "./" + pkgdir + "/"], cwd=WT, env=env)
        os.remove(demo_dst)
        return rc, out[-1500:]

    rc0, out0 = run_demo()
    res["demo_passes_unpatched"] = rc0 == 0
    sh(["git", "-C", WT, "apply", patch])
    rcb, outb = sh(["go", "build", "./..."], cwd=WT)
    res["builds"] = rcb == 0
    rc1, out1 = run_demo()
    res["demo_fails_patched"] = rc1 != 0
    res["demo_output_patched"] = out1[-600:]
    pk = ["./" + t + "/..." for t in touched if t]
    rct, outt = sh(["go", "test", "-count=1", "-vet=off"] + pk, cwd=WT, timeout=2400)
    res["own_tests_pass_patched"] = rct == 0
    if rct != 0:
        res["own_tests_output"] = outt[-800:]
    # run the check against the patched tree
    e = dict(os.environ, VERIF_REPO=WT)
    rcc, outc = sh(["./check", prop], cwd=ROOT, env=e, timeout=3000)
    res["check_exit"] = rcc
    res["check_fired"] = rcc != 0 and "VIOLATION" in outc
    res["check_no_failing_input"] = "no-failing-input-found" in outc
    res["check_output"] = "\n".join(l for l in outc.splitlines() if not l.startswith("WARNING"))[-1500:]
    sh(["git", "-C", "/repo", "worktree", "remove", "--force", WT])
    finish(dst, meta, res)


def finish(dst, meta, res):
    if not res.get("applies") and meta.get("confirmed_by_main_session", {}).get("applies"):
        # the stored patch no longer applies to /repo HEAD (a later fix touched the same lines): keep the last confirmed result
        meta["stale_at_repo_head"] = res.get("repo_head")
        json.dump(meta, open(os.path.join(dst, "meta.json"), "w"), indent=1)
        print(json.dumps({"applies": False, "kept_previous_result": True}))
        return
    meta.pop("stale_at_repo_head", None)
    meta["confirmed_by_main_session"] = res
    json.dump(meta, open(os.path.join(dst, "meta.json"), "w"), indent=1)
    brief = {k: res.get(k) for k in ("applies", "builds", "demo_passes_unpatched", "demo_fails_patched", "own_tests_pass_patched", "check_fired", "check_no_failing_input")}
    print(json.dumps(brief))
    print(res.get("check_output", "")[-700:])


if __name__ == "__main__":
    main()
