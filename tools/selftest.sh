#!/bin/sh
# tools/selftest.sh — re-run every stored seeded defect (tools/seedcheck.py) and every stored behaviour-preserving refactor
# (tools/benigncheck.py, against the check of its own property) on /repo HEAD, three at a time; results go to the meta.json files
# and a summary to build/selftest.log. Takes a few hours.
cd "$(dirname "$0")/.."
mkdir -p build
: > build/selftest.log
ls seeded | while read n; do p=$(echo $n | cut -d- -f1); echo "S $p $n"; done > build/selftest.jobs
ls benign | while read n; do p=$(echo $n | cut -d- -f1); echo "B $p $n"; done >> build/selftest.jobs
cat build/selftest.jobs | xargs -P 3 -L 1 sh -c '
  if [ "$0" = S ]; then out=$(python3 tools/seedcheck.py $1 seeded/$2 $2 2>&1 | grep "^{" | head -1); echo "SEED $2 $out" >> build/selftest.log
  else out=$(python3 tools/benigncheck.py $1 benign/$2 $2 2>&1 | grep "^$2" | head -1); echo "BENIGN $out" >> build/selftest.log; fi'
echo SELFTEST-DONE >> build/selftest.log
