#!/usr/bin/env python3
"""tools/findingstable.py — regenerate the findings table of DESIGN.md §0.3 (between <!-- FINDINGS:BEGIN/END -->)
from known_findings.json and /repo's `fix:` commits."""
import json, os, re, subprocess
ROOT = os.path.dirname(os.path.dirname(os.path.abspath(__file__)))
fs = json.load(open(os.path.join(ROOT, "known_findings.json")))["findings"]
log = subprocess.run(["git", "-C", "/repo", "log", "--format=%h %s", "--grep=^fix:"], stdout=subprocess.PIPE, text=True).stdout.strip().splitlines()
subj = {l.split()[0]: l.split(" ", 1)[1] for l in log}


def short(s, n=230):
    s = re.sub(r"\s+", " ", s or "").strip()
    return s if len(s) <= n else s[: n - 1] + "…"


rows = []
for f in sorted(fs, key=lambda f: (f["property"], f["status"] != "fixed")):
    what = f.get("what") or f.get("fixed") or f.get("text") or ""
    what = re.sub(r"^fixed: property=C\d+ \w+ ", "", what)
    if f["status"] == "fixed":
        c = f.get("commit", "?")[:7]
        st = f"**fixed** /repo {c}"
    else:
        st = "**known**" + (": " + short(f.get("why_not_fixed", ""), 160) if f.get("why_not_fixed") else "")
    rows.append(f"| {f['property']} | {st} | `{f.get('key','')}` | {short(what).replace('|', '/')} |")
out = ["| prop | status | key (regex on the failing input) | what fails |", "|---|---|---|---|"] + rows
out.append("")
out.append(f"`fix:` commits in /repo ({len(log)}): " + ", ".join(f"{h}" for h in subj) + ".")
unref = [h for h in subj if not any((f.get("commit") or "").startswith(h[:7]) or h.startswith((f.get("commit") or "x")[:7]) for f in fs)]
if unref:
    out.append("Not referenced by a finding entry: " + ", ".join(unref) + ".")
p = os.path.join(ROOT, "DESIGN.md")
s = open(p).read()
b, e = "<!-- FINDINGS:BEGIN -->", "<!-- FINDINGS:END -->"
assert b in s and e in s, "markers missing"
s = s[: s.index(b) + len(b)] + "\n" + "\n".join(out) + "\n" + s[s.index(e):]
open(p, "w").write(s)
print(len(rows), "rows;", len(log), "fix commits; unreferenced:", unref)
