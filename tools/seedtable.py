#!/usr/bin/env python3
"""Regenerate the seeded-change table in DESIGN.md (between the SEEDTABLE markers) from seeded/*/meta.json."""
import json, glob, os, re
R = os.path.dirname(os.path.dirname(os.path.abspath(__file__)))
rows = []
for d in sorted(glob.glob(os.path.join(R, "seeded", "*", ""))):
    m = json.load(open(os.path.join(d, "meta.json")))
    c = m.get("confirmed_by_main_session", {})
    def cell(s, n):
        s = re.sub(r"\s+", " ", str(s or "")).replace("|", "/")
        return s if len(s) <= n else s[: n - 1] + "…"
    ok = all(c.get(k) for k in ("applies", "builds", "demo_passes_unpatched", "demo_fails_patched", "own_tests_pass_patched"))
    verdict = "not caught" if not c.get("check_fired") else ("caught (no failing input: broken proof/tie only)" if c.get("check_no_failing_input") else "caught, concrete failing input")
    if m.get("also_caught_by"):
        verdict += "; by " + cell(m["also_caught_by"], 200)
    rows.append(f"| {os.path.basename(d[:-1])} | {cell(m.get('what_breaks'), 230)} | {cell(m.get('needs'), 170)} | {'yes' if ok else 'NO'} | {verdict} |")
tab = "| seed | change (as described by its author) | needs, to manifest | independently confirmed (applies, builds, own tests pass, demo fails/passes) | result of the check on the patched tree |\n|---|---|---|---|---|\n" + "\n".join(rows) + "\n"
p = os.path.join(R, "DESIGN.md")
s = open(p).read()
a, b = "<!-- SEEDTABLE:BEGIN -->\n", "<!-- SEEDTABLE:END -->\n"
if a in s:
    s = s[: s.index(a) + len(a)] + tab + s[s.index(b):]
    open(p, "w").write(s)
print(len(rows), "seeds")
