#!/bin/sh
# tools/crosscheck.sh <seeded-name> <PROP>...  — run other properties' checks against a stored seeded change (scratch worktree, removed afterwards)
S=$1; shift
WT=/tmp/wt-cross-$$
git -C /repo worktree add -q --detach $WT HEAD || exit 1
git -C $WT apply /verif/seeded/$S/patch.diff || { git -C /repo worktree remove --force $WT; exit 1; }
cd /verif
for P in "$@"; do
  VERIF_REPO=$WT ./check $P 2>&1 | grep -v "^WARNING\|^KNOWN-FINDING" | grep "VIOLATION\|quick seed\|failing input" | head -4 | cut -c1-330
done
git -C /repo worktree remove --force $WT
