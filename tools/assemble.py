#!/usr/bin/env python3
"""Assemble MANIFEST.json from manifest.d/*.json and known_findings.json from known_findings.d/*.json.
Run after adding or changing a property's fragment:  python3 tools/assemble.py"""
import json, os, glob
R = os.path.dirname(os.path.dirname(os.path.abspath(__file__)))
props = [json.loads(l) for l in open(os.path.join(R, "properties.jsonl"))]
checks = {}
for f in sorted(glob.glob(os.path.join(R, "manifest.d", "C*.json"))):
    c = json.load(open(f))
    checks[c["property_id"]] = c
na_path = os.path.join(R, "manifest.d", "not_applicable.json")
na_reasons = json.load(open(na_path)) if os.path.exists(na_path) else {}
m = {
    "version": 1,
    "setup_cmd": "./setup.sh",
    "hooks": {
        "guard": "verif",
        "enable": "cd /repo && [GOEXPERIMENT=synctest] go test -tags verif -vet=off -overlay /verif/build/overlay-<hash>.json -run '^TestVerifCxx$' <pkg>   (harness sources live in /verif/harness and are overlaid into the real packages; nothing in /repo carries the tag)",
        "baseline_off_cmd": "for m in $(cat /w/out/gomods.txt); do MF=$(cd /repo/$m && . /w/out/goenv.sh && gomodflag); (cd /repo/$m && go test $MF -json -vet=off -count=1 -timeout 25m ./...); done",
        "source_commits": [],
        "add_only": True,
    },
    "engines": [{"name": "ctv", "path": "/verif/lean", "serves_properties": sorted(checks),
                 "kind_free_text": "Lean 4 project: regenerated kernels and fact tables (CTV/Gen, rewritten by /verif/extract on every run), hand-written executable models (CTV/Model, CTV/Tls, ...), property theorems (CTV/Props), compiled model driver ctvmodel for the correspondence check"}],
    "checks": [checks[k] for k in sorted(checks)],
    "not_applicable": [{"property_id": p["id"], "reason": na_reasons.get(p["id"], "check not built yet (DESIGN.md §9 staging); not claimed")} for p in props if p["id"] not in checks],
    "notes": "Approach, trusted base, findings and seeded-change results: DESIGN.md. MANIFEST.json and known_findings.json are assembled from manifest.d/ and known_findings.d/ by tools/assemble.py.",
}
json.dump(m, open(os.path.join(R, "MANIFEST.json"), "w"), indent=1)
fs = []
for f in sorted(glob.glob(os.path.join(R, "known_findings.d", "*.json"))):
    fs += json.load(open(f))
json.dump({"comment": "Genuine defects of google/certificate-transparency-go found by the checks. status=known entries are printed as KNOWN-FINDING and suppress only the exact key (a regular expression matched against the whole key of a failing input); status=fixed entries suppress nothing. Never written at run time.", "findings": fs},
          open(os.path.join(R, "known_findings.json"), "w"), indent=1)
print("checks:", sorted(checks), "known/fixed findings:", len(fs))
