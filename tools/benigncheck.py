#!/usr/bin/env python3
"""tools/benigncheck.py <PROP> <src dir with patch.diff, meta.json> <name> [more PROPs...]

A behaviour-preserving refactor (produced by a fresh agent that saw only the property text) is applied to a private scratch
worktree of /repo; the touched packages' own tests are run; then ./check <PROP> (and any further PROPs) runs against it.
Expected: green. A VIOLATION with a concrete failing input on such a change is a FALSE ALARM of the machinery; a VIOLATION
ending in no-failing-input-found means a regenerated tie / proof did not survive the rewrite (allowed by the brief, but
recorded: it measures how brittle the tie is). Stored as /verif/benign/<name>/."""
import json, os, re, shutil, subprocess, sys
ROOT = os.path.dirname(os.path.dirname(os.path.abspath(__file__)))
WT = f"/tmp/wt-benign-{os.getpid()}"
ENV = dict(os.environ, GOFLAGS="-mod=mod", GOPROXY="off")
ENV.pop("GOSUMDB", None)


def sh(cmd, cwd=None, timeout=2400, env=ENV):
    p = subprocess.run(cmd, cwd=cwd, shell=isinstance(cmd, str), stdout=subprocess.PIPE, stderr=subprocess.STDOUT, text=True, timeout=timeout, env=env)
    return p.returncode, p.stdout


def main():
    prop, src, name, more = sys.argv[1], sys.argv[2], sys.argv[3], sys.argv[4:]
    dst = os.path.join(ROOT, "benign", name)
    os.makedirs(dst, exist_ok=True)
    if os.path.realpath(src) != os.path.realpath(dst):
        for f in os.listdir(src):
            if os.path.isfile(os.path.join(src, f)):
                shutil.copy(os.path.join(src, f), os.path.join(dst, f))
    meta = json.load(open(os.path.join(dst, "meta.json")))
    sh(["git", "-C", "/repo", "worktree", "add", "-q", "--detach", WT, "HEAD"])
    res = {"repo_head": sh(["git", "-C", "/repo", "rev-parse", "HEAD"])[1].strip()}
    patch = os.path.join(dst, "patch.diff")
    rc, out = sh(["git", "-C", WT, "apply", patch])
    res["applies"] = rc == 0
    if rc == 0:
        touched = sorted({os.path.dirname(m) for m in re.findall(r"^\+\+\+ b/(\S+)", open(patch).read(), flags=re.M)})
        res["touched"] = touched
        res["builds"] = sh(["go", "build", "./..."], cwd=WT)[0] == 0
        rct, outt = sh(["go", "test", "-count=1", "-vet=off"] + ["./" + t + "/..." if t else "." for t in touched], cwd=WT)
        res["own_tests_pass"] = rct == 0
        res["checks"] = {}
        for p in [prop] + more:
            rcc, outc = sh(["./check", p], cwd=ROOT, env=dict(os.environ, VERIF_REPO=WT), timeout=3000)
            lines = [l for l in outc.splitlines() if not l.startswith(("WARNING", "KNOWN-FINDING"))]
            verdict = "green"
            if rcc != 0 or any(l.startswith("VIOLATION") for l in lines):
                verdict = "tie-or-proof-broken (no failing input)" if "no-failing-input-found" in outc else "FALSE ALARM (failing input reported)"
            res["checks"][p] = {"exit": rcc, "verdict": verdict, "output": "\n".join(lines)[-1200:]}
    sh(["git", "-C", "/repo", "worktree", "remove", "--force", WT])
    if not res.get("applies") and meta.get("checked_by_main_session", {}).get("applies"):
        meta["stale_at_repo_head"] = res.get("repo_head")
        json.dump(meta, open(os.path.join(dst, "meta.json"), "w"), indent=1)
        print(name, "does not apply to /repo HEAD any more: previous result kept")
        return
    prev = meta.get("checked_by_main_session", {}).get("checks", {})
    for p_, c_ in prev.items():          # keep results of checks not re-run this time
        res.setdefault("checks", {}).setdefault(p_, c_)
    meta["checked_by_main_session"] = res
    json.dump(meta, open(os.path.join(dst, "meta.json"), "w"), indent=1)
    print(name, {k: res.get(k) for k in ("applies", "builds", "own_tests_pass")}, {p: c["verdict"] for p, c in res.get("checks", {}).items()})
    for p, c in res.get("checks", {}).items():
        if c["verdict"] != "green":
            print(c["output"][-700:])


if __name__ == "__main__":
    main()
