#!/bin/sh
# tools/mut.sh <prop> <file> <python-expr old> <new>   — run ./check <prop> against a one-edit mutant of /repo HEAD in /tmp/wt-m
set -e
P=$1; F=$2; OLD=$3; NEW=$4
[ -d /tmp/wt-m ] || git -C /repo worktree add -q --detach /tmp/wt-m HEAD
git -C /tmp/wt-m checkout -q --detach $(git -C /repo rev-parse HEAD) 2>/dev/null; git -C /tmp/wt-m checkout -q -- .
python3 - "$F" "$OLD" "$NEW" <<'PY'
import sys
f,old,new=sys.argv[1:4]
p='/tmp/wt-m/'+f; s=open(p).read()
assert s.count(old)>=1, "pattern not found"
open(p,'w').write(s.replace(old,new,1))
PY
(cd /tmp/wt-m && GOFLAGS=-mod=mod GOPROXY=off go build ./... ) || { echo "MUTANT DOES NOT COMPILE"; git -C /tmp/wt-m checkout -q -- .; exit 3; }
cd ${VERIF_HOME:-/verif}; VERIF_REPO=/tmp/wt-m ./check $P 2>&1 | grep -v "^  broken: CORR" | tail -${TAIL:-6} || true
git -C /tmp/wt-m checkout -q -- .
