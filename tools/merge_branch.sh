#!/bin/sh
# tools/merge_branch.sh <branch>: merge a worker branch into main, auto-resolving the generated/assembled files.
b=$1
cd "$(dirname "$0")/.." || exit 2
if [ -n "$(git status --porcelain)" ]; then echo "working tree not clean: commit first"; exit 2; fi
git merge --no-commit --no-ff "$b" >/tmp/merge.$$.log 2>&1
if ! git rev-parse -q --verify MERGE_HEAD >/dev/null; then echo "git merge did not start:"; cat /tmp/merge.$$.log; rm -f /tmp/merge.$$.log; exit 2; fi
rm -f /tmp/merge.$$.log
# generated files: never merged by content
git rm -q --cached lean/CTV/Driver/Main.lean 2>/dev/null
git rm -rq --cached lean/CTV/Audit 2>/dev/null; rm -rf lean/CTV/Audit
for f in $(git diff --name-only --diff-filter=U); do
  case "$f" in
    MANIFEST.json|known_findings.json) git checkout --ours -- "$f" 2>/dev/null; git add "$f" ;;
    seeded/*/meta.json|benign/*/meta.json) git checkout --theirs -- "$f" 2>/dev/null; git add "$f" ;;
    evidence/*) git checkout --theirs -- "$f" 2>/dev/null; git add "$f" ;;
    lean/CTV/Gen/*) git checkout --theirs -- "$f" 2>/dev/null; git add "$f" ;;
    lean/CTV/Driver/Main.lean|lean/CTV/Audit/*) git rm -q --cached "$f" 2>/dev/null ;;
  esac
done
left=$(git diff --name-only --diff-filter=U)
if [ -n "$left" ]; then echo "UNRESOLVED in $b:"; echo "$left"; exit 1; fi
python3 tools/assemble.py
git add -A
git commit -qm "Merge branch $b" && echo "merged $b"
