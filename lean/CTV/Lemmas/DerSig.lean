import CTV.Der.Sig
import Mathlib.Tactic.Ring
import Mathlib.Tactic.Linarith
/-! Lemmas about the DER fragment of `CTV.Der`: the parser accepts exactly the canonical encodings. -/
namespace CTV.DerSig
open CTV
set_option linter.unusedSimpArgs false
set_option maxRecDepth 20000

theorem ofNat_toNat (b : UInt8) : UInt8.ofNat b.toNat = b := by simp

theorem toNat_ofNat_lt (n : Nat) (h : n < 256) : (UInt8.ofNat n).toNat = n := by
  simp [UInt8.toNat_ofNat']; omega

theorem u8_eq_of_toNat (a : UInt8) (n : Nat) (h : a.toNat = n) : UInt8.ofNat n = a := by
  subst h; simp

theorem lenLoop_ge5 (k : Nat) (bs : Bytes) : lenLoop (k + 5) 0 bs = none := by
  rcases bs with _ | ⟨b1, _ | ⟨b2, _ | ⟨b3, _ | ⟨b4, _ | ⟨b5, t⟩⟩⟩⟩⟩ <;> simp [lenLoop]
  intro h1 _ _ _ _ _ _ h4
  omega


theorem parseLen_encLen (n : Nat) (rest : Bytes) (h : n < 2^31) : parseLen (encLen n ++ rest) = some (n, rest) := by
  unfold encLen
  by_cases c1 : n < 128
  · simp [c1, parseLen, toNat_ofNat_lt n (by omega)]
  have e0 : ¬ (n = 0) := by omega
  by_cases c2 : n < 256
  · simp [c1, c2, parseLen, lenLoop, toNat_ofNat_lt n (by omega), e0]
  by_cases c3 : n < 65536
  · have h1 : n / 256 < 256 := by omega
    have h2 : n % 256 < 256 := by omega
    have e1 : ¬ (n / 256 = 0) := by omega
    have e2 : ¬ (8388608 ≤ n / 256) := by omega
    have e3 : n / 256 * 256 + n % 256 = n := by omega
    simp [c1, c2, c3, parseLen, lenLoop, toNat_ofNat_lt _ h1, toNat_ofNat_lt _ h2, e1, e2, e3, e0]
  by_cases c4 : n < 16777216
  · have h1 : n / 65536 < 256 := by omega
    have h2 : n / 256 % 256 < 256 := by omega
    have h3 : n % 256 < 256 := by omega
    have e1 : ¬ (n / 65536 = 0) := by omega
    have e2 : ¬ (8388608 ≤ n / 65536) := by omega
    have e2' : ¬ (8388608 ≤ n / 65536 * 256 + n / 256 % 256) := by omega
    have e3 : (n / 65536 * 256 + n / 256 % 256) * 256 + n % 256 = n := by omega
    simp [c1, c2, c3, c4, parseLen, lenLoop, toNat_ofNat_lt _ h1, toNat_ofNat_lt _ h2, toNat_ofNat_lt _ h3, e1, e2, e2', e3, e0]
  · have h0 : n / 16777216 % 256 < 256 := by omega
    have h1 : n / 65536 % 256 < 256 := by omega
    have h2 : n / 256 % 256 < 256 := by omega
    have h3 : n % 256 < 256 := by omega
    have e1 : ¬ (n / 16777216 % 256 = 0) := by omega
    have e2 : ¬ (8388608 ≤ n / 16777216 % 256) := by omega
    have e2' : ¬ (8388608 ≤ n / 16777216 % 256 * 256 + n / 65536 % 256) := by omega
    have e2'' : ¬ (8388608 ≤ (n / 16777216 % 256 * 256 + n / 65536 % 256) * 256 + n / 256 % 256) := by omega
    have e3 : ((n / 16777216 % 256 * 256 + n / 65536 % 256) * 256 + n / 256 % 256) * 256 + n % 256 = n := by omega
    simp [c1, c2, c3, c4, parseLen, lenLoop, toNat_ofNat_lt _ h0, toNat_ofNat_lt _ h1, toNat_ofNat_lt _ h2, toNat_ofNat_lt _ h3, e1, e2, e2', e2'', e3, e0]



theorem parseLen_sound (bs rest : Bytes) (n : Nat) (h : parseLen bs = some (n, rest)) :
    bs = encLen n ++ rest ∧ n < 2^31 := by
  rcases bs with _ | ⟨b, bs'⟩
  · simp [parseLen] at h
  unfold parseLen at h
  by_cases c1 : b.toNat < 128
  · simp [c1] at h
    obtain ⟨rfl, rfl⟩ := h
    simp [encLen, c1]
    omega
  simp only [c1, if_false] at h
  by_cases c0 : b.toNat = 128
  · simp [c0] at h
  simp only [c0, if_false] at h
  have hb := b.toNat_lt
  obtain ⟨k, hk⟩ : ∃ k, b.toNat = 129 + k := ⟨b.toNat - 129, by omega⟩
  rw [hk] at h
  rcases k with _ | _ | _ | _ | k
  · -- one length octet
    have hb' : b = 0x81 := by rw [← ofNat_toNat b, hk]; rfl
    rcases bs' with _ | ⟨b1, t⟩ <;> simp [lenLoop] at h
    have h1 := b1.toNat_lt
    by_cases z : b1.toNat = 0
    · simp [z] at h
    simp [z] at h
    obtain ⟨l, rfl, rfl⟩ := h
    have l' : ¬ b1.toNat < 128 := by omega
    simp [encLen, l', h1, hb']
    omega
  · -- two
    have hb' : b = 0x82 := by rw [← ofNat_toNat b, hk]; rfl
    rcases bs' with _ | ⟨b1, _ | ⟨b2, t⟩⟩ <;> simp [lenLoop] at h
    have h1 := b1.toNat_lt
    have h2 := b2.toNat_lt
    by_cases z : b1.toNat = 0
    · simp [z] at h
    simp [z] at h
    have g : ¬ (8388608 ≤ b1.toNat) := by omega
    simp [g] at h
    obtain ⟨l, rfl, rfl⟩ := h
    have f1 : ¬ (b1.toNat * 256 + b2.toNat < 128) := by omega
    have f2 : ¬ (b1.toNat * 256 + b2.toNat < 256) := by omega
    have f3 : b1.toNat * 256 + b2.toNat < 65536 := by omega
    have d1 : (b1.toNat * 256 + b2.toNat) / 256 = b1.toNat := by omega
    have d2 : (b1.toNat * 256 + b2.toNat) % 256 = b2.toNat := by omega
    simp [encLen, f1, f2, f3, d1, d2, hb']
    omega
  · -- three
    have hb' : b = 0x83 := by rw [← ofNat_toNat b, hk]; rfl
    rcases bs' with _ | ⟨b1, _ | ⟨b2, _ | ⟨b3, t⟩⟩⟩ <;> simp [lenLoop] at h
    have h1 := b1.toNat_lt
    have h2 := b2.toNat_lt
    have h3 := b3.toNat_lt
    by_cases z : b1.toNat = 0
    · simp [z] at h
    have g : ¬ (8388608 ≤ b1.toNat) := by omega
    have g' : ¬ (8388608 ≤ b1.toNat * 256 + b2.toNat) := by omega
    simp [z, g, g'] at h
    obtain ⟨l, rfl, rfl⟩ := h
    have f1 : ¬ ((b1.toNat * 256 + b2.toNat) * 256 + b3.toNat < 128) := by omega
    have f2 : ¬ ((b1.toNat * 256 + b2.toNat) * 256 + b3.toNat < 256) := by omega
    have f3 : ¬ ((b1.toNat * 256 + b2.toNat) * 256 + b3.toNat < 65536) := by omega
    have f4 : (b1.toNat * 256 + b2.toNat) * 256 + b3.toNat < 16777216 := by omega
    have d1 : ((b1.toNat * 256 + b2.toNat) * 256 + b3.toNat) / 65536 = b1.toNat := by omega
    have d2 : ((b1.toNat * 256 + b2.toNat) * 256 + b3.toNat) / 256 % 256 = b2.toNat := by omega
    have d3 : ((b1.toNat * 256 + b2.toNat) * 256 + b3.toNat) % 256 = b3.toNat := by omega
    simp [encLen, f1, f2, f3, f4, d1, d2, d3, hb']
    omega
  · -- four
    have hb' : b = 0x84 := by rw [← ofNat_toNat b, hk]; rfl
    rcases bs' with _ | ⟨b1, _ | ⟨b2, _ | ⟨b3, _ | ⟨b4, t⟩⟩⟩⟩ <;> simp [lenLoop] at h
    have h1 := b1.toNat_lt
    have h2 := b2.toNat_lt
    have h3 := b3.toNat_lt
    have h4 := b4.toNat_lt
    by_cases z : b1.toNat = 0
    · simp [z] at h
    have g : ¬ (8388608 ≤ b1.toNat) := by omega
    have g' : ¬ (8388608 ≤ b1.toNat * 256 + b2.toNat) := by omega
    by_cases g'' : 8388608 ≤ (b1.toNat * 256 + b2.toNat) * 256 + b3.toNat
    · simp [z, g, g', g''] at h
    simp [z, g, g', g''] at h
    obtain ⟨l, rfl, rfl⟩ := h
    have f1 : ¬ (((b1.toNat * 256 + b2.toNat) * 256 + b3.toNat) * 256 + b4.toNat < 128) := by omega
    have f2 : ¬ (((b1.toNat * 256 + b2.toNat) * 256 + b3.toNat) * 256 + b4.toNat < 256) := by omega
    have f3 : ¬ (((b1.toNat * 256 + b2.toNat) * 256 + b3.toNat) * 256 + b4.toNat < 65536) := by omega
    have f4 : ¬ (((b1.toNat * 256 + b2.toNat) * 256 + b3.toNat) * 256 + b4.toNat < 16777216) := by omega
    have d0 : (((b1.toNat * 256 + b2.toNat) * 256 + b3.toNat) * 256 + b4.toNat) / 16777216 % 256 = b1.toNat := by omega
    have d1 : (((b1.toNat * 256 + b2.toNat) * 256 + b3.toNat) * 256 + b4.toNat) / 65536 % 256 = b2.toNat := by omega
    have d2 : (((b1.toNat * 256 + b2.toNat) * 256 + b3.toNat) * 256 + b4.toNat) / 256 % 256 = b3.toNat := by omega
    have d3 : (((b1.toNat * 256 + b2.toNat) * 256 + b3.toNat) * 256 + b4.toNat) % 256 = b4.toNat := by omega
    simp [encLen, f1, f2, f3, f4, d0, d1, d2, d3, hb']
    omega
  · -- five or more: refused
    have : 129 + (k + 1 + 1 + 1 + 1) - 128 = k + 5 := by omega
    rw [this, lenLoop_ge5] at h
    simp at h


theorem parseTLV_tlv (tag : UInt8) (c rest : Bytes) (h : c.length < 2^31) :
    parseTLV tag (tlv tag c ++ rest) = some (c, rest) := by
  have e : tlv tag c ++ rest = tag :: (encLen c.length ++ (c ++ rest)) := by simp [tlv]
  rw [e]
  simp [parseTLV, parseLen_encLen _ _ h]

theorem parseTLV_sound (tag : UInt8) (bs c rest : Bytes) (h : parseTLV tag bs = some (c, rest)) :
    bs = tlv tag c ++ rest ∧ c.length < 2^31 := by
  rcases bs with _ | ⟨t, bs'⟩
  · simp [parseTLV] at h
  unfold parseTLV at h
  by_cases ht : t = tag
  · subst ht
    simp only [ne_eq, not_true_eq_false, if_false] at h
    cases hp : parseLen bs' with
    | none => simp [hp] at h
    | some v =>
      obtain ⟨l, r⟩ := v
      simp only [hp] at h
      by_cases hl : l > r.length
      · simp [hl] at h
      simp only [hl, if_false, Option.some.injEq, Prod.mk.injEq] at h
      obtain ⟨rfl, rfl⟩ := h
      obtain ⟨e, hlt⟩ := parseLen_sound _ _ _ hp
      have hlen : (r.take l).length = l := by simp; omega
      refine ⟨?_, by omega⟩
      simp [tlv, hlen, e]
  · simp [ht] at h


theorem beDec_foldl (acc : Nat) (t : Bytes) :
    t.foldl (fun acc b => acc * 256 + b.toNat) acc = acc * 256 ^ t.length + beDec t := by
  induction t generalizing acc with
  | nil => simp [beDec]
  | cons a t ih =>
    simp only [List.foldl_cons, List.length_cons, beDec]
    rw [ih, ih (0 * 256 + a.toNat)]
    ring

theorem beDec_cons (a : UInt8) (t : Bytes) : beDec (a :: t) = a.toNat * 256 ^ t.length + beDec t := by
  simp only [beDec, List.foldl_cons]
  rw [beDec_foldl]
  simp [beDec]

theorem natBytesAux_beDec (f n : Nat) (h : n ≤ f) : beDec (natBytesAux f n) = n := by
  induction f generalizing n with
  | zero => have : n = 0 := by omega
            subst this; simp [natBytesAux, beDec]
  | succ f ih =>
    unfold natBytesAux
    by_cases hn : n = 0
    · simp [hn, beDec]
    · simp only [hn, if_false]
      rw [beDec_append_single, ih (n / 256) (by omega), toNat_ofNat_lt _ (by omega)]
      omega

theorem natBytes_beDec (n : Nat) : beDec (natBytes n) = n := natBytesAux_beDec n n (Nat.le_refl _)

theorem natBytesAux_head (f n : Nat) (h : n ≤ f) (a : UInt8) (t : Bytes) (e : natBytesAux f n = a :: t) : a.toNat ≠ 0 := by
  induction f generalizing n a t with
  | zero => simp [natBytesAux] at e
  | succ f ih =>
    unfold natBytesAux at e
    by_cases hn : n = 0
    · simp [hn] at e
    · simp only [hn, if_false] at e
      have hq : n / 256 ≤ f := by omega
      cases hi : natBytesAux f (n / 256) with
      | nil =>
        rw [hi] at e
        simp at e
        have h0 := natBytesAux_beDec f (n / 256) hq
        rw [hi] at h0
        simp [beDec] at h0
        obtain ⟨rfl, _⟩ := e
        rw [toNat_ofNat_lt _ (by omega)]
        omega
      | cons a' t' =>
        rw [hi] at e
        simp at e
        obtain ⟨rfl, _⟩ := e
        exact ih (n / 256) hq a' t' hi

theorem natBytes_head (n : Nat) (a : UInt8) (t : Bytes) (e : natBytes n = a :: t) : a.toNat ≠ 0 :=
  natBytesAux_head n n (Nat.le_refl _) a t e


/-- no superfluous leading zero octet -/
def noLead : Bytes → Prop
  | [] => True
  | a :: _ => a.toNat ≠ 0

theorem beDec_lower (a : UInt8) (t : Bytes) (h : a.toNat ≠ 0) : 256 ^ t.length ≤ beDec (a :: t) := by
  rw [beDec_cons]
  have : 1 ≤ a.toNat := by omega
  calc 256 ^ t.length = 1 * 256 ^ t.length := by ring
    _ ≤ a.toNat * 256 ^ t.length := Nat.mul_le_mul_right _ this
    _ ≤ a.toNat * 256 ^ t.length + beDec t := Nat.le_add_right _ _

theorem len_unique (a a' : UInt8) (t t' : Bytes) (h : a.toNat ≠ 0) (_h' : a'.toNat ≠ 0)
    (e : beDec (a :: t) = beDec (a' :: t')) : t.length ≤ t'.length := by
  by_contra hc
  have hlt : t'.length + 1 ≤ t.length := by omega
  have l1 := beDec_lower a t h
  have u2 := beDec_lt (a' :: t')
  simp only [List.length_cons] at u2
  have : 256 ^ (t'.length + 1) ≤ 256 ^ t.length := Nat.pow_le_pow_right (by norm_num) hlt
  omega

theorem noLead_unique (c d : Bytes) (hc : noLead c) (hd : noLead d) (e : beDec c = beDec d) : c = d := by
  have hlen : c.length = d.length := by
    rcases c with _ | ⟨a, t⟩ <;> rcases d with _ | ⟨a', t'⟩
    · rfl
    · have := beDec_lower a' t' hd
      have hp : 0 < 256 ^ t'.length := Nat.pow_pos (by norm_num)
      have e0 : beDec ([] : Bytes) = 0 := rfl
      rw [e0] at e
      omega
    · have := beDec_lower a t hc
      have hp : 0 < 256 ^ t.length := Nat.pow_pos (by norm_num)
      have e0 : beDec ([] : Bytes) = 0 := rfl
      rw [e0] at e
      omega
    · have h1 := len_unique a a' t t' hc hd e
      have h2 := len_unique a' a t' t hd hc e.symm
      simp; omega
  rw [← beEnc_beDec c, ← beEnc_beDec d, hlen, e]

theorem natBytes_noLead (n : Nat) : noLead (natBytes n) := by
  cases h : natBytes n with
  | nil => trivial
  | cons a t => exact natBytes_head n a t h

theorem natBytes_of_beDec (c : Bytes) (h : noLead c) : natBytes (beDec c) = c :=
  noLead_unique _ _ (natBytes_noLead _) h (natBytes_beDec _)


theorem compl_length (c : Bytes) : (compl c).length = c.length := by simp [compl]

theorem compl_byte_toNat (b : UInt8) : (UInt8.ofNat (255 - b.toNat)).toNat = 255 - b.toNat :=
  toNat_ofNat_lt _ (by omega)

theorem compl_cons (a : UInt8) (t : Bytes) : compl (a :: t) = UInt8.ofNat (255 - a.toNat) :: compl t := by
  simp [compl]

theorem compl_compl (c : Bytes) : compl (compl c) = c := by
  induction c with
  | nil => rfl
  | cons a t ih =>
    rw [compl_cons, compl_cons, ih, compl_byte_toNat]
    have := a.toNat_lt
    have e : 255 - (255 - a.toNat) = a.toNat := by omega
    rw [e, ofNat_toNat]

theorem beDec_compl (c : Bytes) : beDec (compl c) + beDec c + 1 = 256 ^ c.length := by
  induction c with
  | nil => simp [compl, beDec]
  | cons a t ih =>
    rw [compl_cons, beDec_cons, beDec_cons, compl_byte_toNat, compl_length]
    have ha := a.toNat_lt
    have e : (255 - a.toNat) * 256 ^ t.length + a.toNat * 256 ^ t.length = 255 * 256 ^ t.length := by
      rw [← Nat.add_mul]; congr 1; omega
    simp only [List.length_cons, Nat.pow_succ]
    generalize 256 ^ t.length = X at *
    generalize beDec (compl t) = u at *
    generalize beDec t = v at *
    generalize (255 - a.toNat) * X = p at *
    generalize a.toNat * X = q at *
    omega

/-- `checkInteger` as a proposition -/
theorem checkInteger_iff (c : Bytes) : checkInteger c = true ↔
    match c with
    | [] => False
    | [_] => True
    | a :: b :: _ => ¬ ((a.toNat = 0 ∧ b.toNat < 128) ∨ (a.toNat = 255 ∧ b.toNat ≥ 128)) := by
  rcases c with _ | ⟨a, _ | ⟨b, t⟩⟩ <;> simp [checkInteger]
  omega

theorem checkInteger_compl (c : Bytes) : checkInteger (compl c) = checkInteger c := by
  rcases c with _ | ⟨a, _ | ⟨b, t⟩⟩
  · rfl
  · simp [compl, checkInteger]
  · have ha := a.toNat_lt
    have hb := b.toNat_lt
    have h1 := (checkInteger_iff (compl (a :: b :: t)))
    have h2 := (checkInteger_iff (a :: b :: t))
    rw [compl_cons, compl_cons] at h1
    simp only [compl_byte_toNat] at h1 h2
    rw [compl_cons, compl_cons]
    cases hc : checkInteger (a :: b :: t) <;> cases hd : checkInteger (UInt8.ofNat (255 - a.toNat) :: UInt8.ofNat (255 - b.toNat) :: compl t) <;> simp_all <;> omega


theorem u8_zero_of_toNat (a : UInt8) (h : a.toNat = 0) : a = 0 := by
  rw [← ofNat_toNat a, h]; rfl

theorem natBytes_zero : natBytes 0 = [] := rfl

/-- a minimal non-negative INTEGER content is what `encNatInt` writes for its value -/
theorem encNatInt_beDec (c : Bytes) (hc : checkInteger c = true) (hh : ∀ a t, c = a :: t → a.toNat < 128) :
    encNatInt (beDec c) = c := by
  have hm := (checkInteger_iff c).mp hc
  rcases c with _ | ⟨a, _ | ⟨b, t⟩⟩
  · simp at hm
  · have ha := hh a [] rfl
    by_cases z : a.toNat = 0
    · have : beDec [a] = 0 := by rw [beDec_cons]; simp [beDec, z]
      rw [this]
      simp [encNatInt, natBytes_zero, u8_zero_of_toNat a z]
    · have hn : natBytes (beDec [a]) = [a] := natBytes_of_beDec [a] z
      simp [encNatInt, hn, ha]
  · have ha := hh a (b :: t) rfl
    simp only at hm
    by_cases z : a.toNat = 0
    · have hb : b.toNat ≥ 128 := by omega
      have e : beDec (a :: b :: t) = beDec (b :: t) := by rw [beDec_cons a]; simp [z]
      have hn : natBytes (beDec (b :: t)) = b :: t := natBytes_of_beDec (b :: t) (by simp [noLead]; omega)
      rw [e]
      simp [encNatInt, hn, hb, u8_zero_of_toNat a z]
    · have hn : natBytes (beDec (a :: b :: t)) = a :: b :: t := natBytes_of_beDec _ z
      simp [encNatInt, hn]
      omega

theorem intOfBytes_pos (a : UInt8) (t : Bytes) (h : a.toNat < 128) : intOfBytes (a :: t) = (beDec (a :: t) : Int) := by
  have : ¬ (a.toNat ≥ 128) := by omega
  simp [intOfBytes, this]

theorem intOfBytes_neg (a : UInt8) (t : Bytes) (h : a.toNat ≥ 128) :
    intOfBytes (a :: t) = (beDec (a :: t) : Int) - (256 : Int) ^ (t.length + 1) := by
  simp [intOfBytes, h]

/-- the canonical direction: a content accepted by `checkInteger` is the minimal encoding of its value -/
theorem encInt_intOfBytes (c : Bytes) (hc : checkInteger c = true) : encInt (intOfBytes c) = c := by
  rcases c with _ | ⟨a, t⟩
  · simp [checkInteger] at hc
  by_cases h : a.toNat < 128
  · rw [intOfBytes_pos a t h]
    have : (beDec (a :: t) : Int) ≥ 0 := Int.natCast_nonneg _
    simp only [encInt, this, if_true, Int.toNat_natCast]
    exact encNatInt_beDec _ hc (by intro a' t' e; cases e; exact h)
  · have h' : a.toNat ≥ 128 := by omega
    rw [intOfBytes_neg a t h']
    have hsum := beDec_compl (a :: t)
    have hlt := beDec_lt (a :: t)
    simp only [List.length_cons] at hsum hlt
    have hcast : ((256 : Int) ^ (t.length + 1)) = ((256 ^ (t.length + 1) : Nat) : Int) := by norm_cast
    have hneg : ¬ ((beDec (a :: t) : Int) - (256 : Int) ^ (t.length + 1) ≥ 0) := by
      rw [hcast]; omega
    have hval : (-((beDec (a :: t) : Int) - (256 : Int) ^ (t.length + 1)) - 1).toNat = beDec (compl (a :: t)) := by
      rw [hcast]; omega
    simp only [encInt, hneg, if_false, hval]
    have hcc : checkInteger (compl (a :: t)) = true := by rw [checkInteger_compl]; exact hc
    have hhead : ∀ a' t', compl (a :: t) = a' :: t' → a'.toNat < 128 := by
      intro a' t' e
      rw [compl_cons] at e
      cases e
      rw [compl_byte_toNat]
      have := a.toNat_lt
      omega
    rw [encNatInt_beDec _ hcc hhead, compl_compl]


theorem encNatInt_spec (n : Nat) :
    checkInteger (encNatInt n) = true ∧ (∃ a t, encNatInt n = a :: t ∧ a.toNat < 128) ∧ beDec (encNatInt n) = n := by
  have hv := natBytes_beDec n
  cases hn : natBytes n with
  | nil =>
    rw [hn] at hv
    have : n = 0 := by simpa [beDec] using hv.symm
    subst this
    simp [encNatInt, hn, checkInteger, beDec]
  | cons a t =>
    have ha := natBytes_head n a t hn
    rw [hn] at hv
    by_cases h : a.toNat ≥ 128
    · have e : encNatInt n = 0 :: a :: t := by simp [encNatInt, hn, h]
      rw [e]
      refine ⟨?_, ⟨0, a :: t, rfl, by simp⟩, ?_⟩
      · rw [checkInteger_iff]; simp; omega
      · rw [beDec_cons]; simp [hv]
    · have e : encNatInt n = a :: t := by simp [encNatInt, hn, h]
      rw [e]
      refine ⟨?_, ⟨a, t, rfl, by omega⟩, hv⟩
      rw [checkInteger_iff]
      rcases t with _ | ⟨b, t'⟩
      · trivial
      · simp; omega

/-- completeness for INTEGER contents: the minimal encoding is accepted and read back as the value -/
theorem intOfBytes_encInt (i : Int) : checkInteger (encInt i) = true ∧ intOfBytes (encInt i) = i := by
  by_cases h : i ≥ 0
  · obtain ⟨hc, ⟨a, t, e, ha⟩, hv⟩ := encNatInt_spec i.toNat
    simp only [encInt, h, if_true]
    refine ⟨hc, ?_⟩
    rw [e, intOfBytes_pos a t ha, ← e, hv]
    omega
  · obtain ⟨hc, ⟨a, t, e, ha⟩, hv⟩ := encNatInt_spec (-i - 1).toNat
    simp only [encInt, h, if_false]
    refine ⟨by rw [checkInteger_compl]; exact hc, ?_⟩
    rw [e, compl_cons]
    have hb := a.toNat_lt
    have hneg : (UInt8.ofNat (255 - a.toNat)).toNat ≥ 128 := by rw [compl_byte_toNat]; omega
    rw [intOfBytes_neg _ _ hneg, ← compl_cons, compl_length]
    have hsum := beDec_compl (a :: t)
    simp only [List.length_cons] at hsum
    rw [e] at hv
    have hcast : ((256 : Int) ^ (t.length + 1)) = ((256 ^ (t.length + 1) : Nat) : Int) := by norm_cast
    rw [hcast]
    omega

theorem encInt_length_pos (i : Int) : 0 < (encInt i).length := by
  have := (intOfBytes_encInt i).1
  rcases h : encInt i with _ | ⟨a, t⟩
  · rw [h] at this; simp [checkInteger] at this
  · simp


theorem parseInteger_sound (bs rest : Bytes) (i : Int) (h : parseInteger bs = some (i, rest)) :
    bs = derInt i ++ rest := by
  unfold parseInteger at h
  cases hp : parseTLV 0x02 bs with
  | none => simp [hp] at h
  | some v =>
    obtain ⟨c, r⟩ := v
    simp only [hp] at h
    by_cases hc : checkInteger c = true
    · simp only [hc, if_true, Option.some.injEq, Prod.mk.injEq] at h
      obtain ⟨rfl, rfl⟩ := h
      have := (parseTLV_sound _ _ _ _ hp).1
      rw [this, derInt, encInt_intOfBytes c hc]
    · simp [hc] at h

theorem parseInteger_complete (i : Int) (rest : Bytes) (h : (encInt i).length < 2^31) :
    parseInteger (derInt i ++ rest) = some (i, rest) := by
  obtain ⟨hc, hv⟩ := intOfBytes_encInt i
  simp [parseInteger, derInt, parseTLV_tlv _ _ _ h, hc, hv]

theorem tlv_length_ge (tag : UInt8) (c : Bytes) : c.length ≤ (tlv tag c).length := by
  simp [tlv]; omega

/-- the parser is canonical: whatever it accepts is the DER encoding of the pair it returns, followed inside the
SEQUENCE by `extra` and after it by `rest` -/
theorem parseSigPair_sound (sig : Bytes) (p : SigPair) (h : parseSigPair sig = some p) :
    sig = derSigX p.r p.s p.extra ++ p.rest ∧ (derInt p.r ++ derInt p.s ++ p.extra).length < 2^31 := by
  unfold parseSigPair at h
  cases h0 : parseTLV 0x30 sig with
  | none => simp [h0] at h
  | some v =>
    obtain ⟨inner, rest⟩ := v
    simp only [h0] at h
    cases h1 : parseInteger inner with
    | none => simp [h1] at h
    | some v1 =>
      obtain ⟨r, i1⟩ := v1
      simp only [h1] at h
      cases h2 : parseInteger i1 with
      | none => simp [h2] at h
      | some v2 =>
        obtain ⟨s, extra⟩ := v2
        simp only [h2, Option.some.injEq] at h
        subst h
        obtain ⟨e0, hlt⟩ := parseTLV_sound _ _ _ _ h0
        have e1 := parseInteger_sound _ _ _ h1
        have e2 := parseInteger_sound _ _ _ h2
        have ein : inner = derInt r ++ derInt s ++ extra := by rw [e1, e2]; simp
        refine ⟨?_, by rw [← ein]; exact hlt⟩
        simp only [derSigX]
        rw [e0, ein]

/-- completeness: every canonical encoding, with anything after `s` inside the SEQUENCE and anything after the
SEQUENCE, is accepted and yields exactly (r, s) -/
theorem parseSigPair_complete (r s : Int) (extra rest : Bytes)
    (hsz : (derInt r ++ derInt s ++ extra).length < 2^31) :
    parseSigPair (derSigX r s extra ++ rest) = some ⟨r, s, extra, rest⟩ := by
  have hr : (encInt r).length < 2^31 := by
    have := tlv_length_ge 0x02 (encInt r)
    simp only [List.length_append, derInt] at hsz ⊢
    omega
  have hs : (encInt s).length < 2^31 := by
    have := tlv_length_ge 0x02 (encInt s)
    simp only [List.length_append, derInt] at hsz ⊢
    omega
  unfold parseSigPair derSigX
  rw [parseTLV_tlv _ _ _ hsz]
  simp only [List.append_assoc]
  rw [parseInteger_complete r _ hr]
  simp only
  rw [parseInteger_complete s _ hs]


end CTV.DerSig
