import CTV.Model.Races
/-! Helper lemmas for C17 (submission state machine). -/
namespace CTV.Model.Races

/-! ### lists -/

theorem mem_dedup {x : Nat} : ∀ {l : List Nat}, x ∈ dedup l ↔ x ∈ l
  | [] => by simp [dedup]
  | y :: ys => by
    unfold dedup
    by_cases h : y ∈ ys
    · simp only [h, if_true, List.mem_cons]
      rw [mem_dedup]
      constructor
      · exact Or.inr
      · rintro (rfl | h') <;> assumption
    · simp only [h, if_false, List.mem_cons]
      rw [mem_dedup]

theorem nodup_dedup : ∀ (l : List Nat), (dedup l).Nodup
  | [] => by simp [dedup]
  | y :: ys => by
    unfold dedup
    by_cases h : y ∈ ys
    · simp only [h, if_true]; exact nodup_dedup ys
    · simp only [h, if_false, List.nodup_cons]
      exact ⟨fun h' => h (mem_dedup.mp h'), nodup_dedup ys⟩

theorem nodup_allLogs (c : Cfg) : (allLogs c).Nodup := nodup_dedup _

theorem mem_allLogs {c : Cfg} {l : Log} : l ∈ allLogs c ↔ ∃ g ∈ c, l ∈ g.logs := by
  unfold allLogs
  rw [mem_dedup, List.mem_flatMap]

/-- changing a predicate from false to true at one member of a duplicate-free list adds one to the filter -/
theorem filter_length_succ {L : List Nat} (hn : L.Nodup) {p p' : Nat → Bool} {l : Nat} (hl : l ∈ L)
    (hp : p l = false) (hp' : p' l = true) (hrest : ∀ x, x ≠ l → p' x = p x) :
    (L.filter p').length = (L.filter p).length + 1 := by
  induction L with
  | nil => cases hl
  | cons y ys ih =>
    rw [List.nodup_cons] at hn
    by_cases hy : y = l
    · subst hy
      have : ys.filter p' = ys.filter p := by
        apply List.filter_congr
        intro x hx
        exact hrest x (fun h => hn.1 (h ▸ hx))
      simp [hp, hp', this]
    · have hl' : l ∈ ys := by
        rcases List.mem_cons.mp hl with h | h
        · exact absurd h.symm hy
        · exact h
      have := ih hn.2 hl'
      simp only [List.filter_cons, hrest y hy]
      split <;> simp [this]

theorem filter_length_mono {L : List Nat} {p p' : Nat → Bool} (h : ∀ x ∈ L, p x = true → p' x = true) :
    (L.filter p).length ≤ (L.filter p').length := by
  induction L with
  | nil => simp
  | cons y ys ih =>
    have ih' := ih (fun x hx => h x (List.mem_cons_of_mem _ hx))
    simp only [List.filter_cons]
    by_cases hy : p y = true
    · simp [hy, h y (List.mem_cons_self) hy]; omega
    · have hy' : p y = false := by cases h' : p y <;> simp_all
      simp only [hy']
      by_cases hq : p' y = true
      · simp [hq]; omega
      · have hq' : p' y = false := by cases h' : p' y <;> simp_all
        simp [hq']; omega

/-! ### `request` / `setResult` -/

theorem request_needs (c : Cfg) (s : Sub) (l : Log) : (request c s l).1.needs = s.needs := by
  unfold request
  split
  · rfl
  · dsimp only
    split <;> rfl

theorem request_results (c : Cfg) (s : Sub) (l l' : Log) :
    (request c s l).1.results l' = if l' = l ∧ s.results l = none then some .empty else s.results l' := by
  unfold request
  by_cases h : (s.results l).isSome = true
  · have : s.results l ≠ none := by intro h'; simp [h'] at h
    simp [h, this]
  · have hn : s.results l = none := by
      cases h' : s.results l <;> simp_all
    simp only [hn, Option.isSome_none, Bool.false_eq_true, if_false]
    split <;> simp [upd]

theorem request_granted {c : Cfg} {s : Sub} {l : Log} (h : (request c s l).2 = true) : s.results l = none := by
  unfold request at h
  by_cases h' : (s.results l).isSome = true
  · simp [h'] at h
  · cases h'' : s.results l <;> simp_all

theorem setResult_err {c : Cfg} {s : Sub} {l : Log} :
    setResult c s l false = some ({ s with results := upd s.results l (some .err) }, []) := by
  simp [setResult]

theorem mem_nonBase {c : Cfg} {l : Log} {g : Grp} : g ∈ nonBase c l ↔ g ∈ groupsOf c l ∧ g ≠ baseName := by
  simp [nonBase]

theorem afterNonBase_results_ne (c : Cfg) (s : Sub) (l l' : Log) (h : l' ≠ l) :
    (afterNonBase c s l).results l' = s.results l' := by
  unfold afterNonBase
  dsimp only
  split <;> simp [upd, h]

theorem afterNonBase_results_eq (c : Cfg) (s : Sub) (l : Log) :
    (afterNonBase c s l).results l = some .sct ∨ (afterNonBase c s l).results l = s.results l := by
  unfold afterNonBase
  dsimp only
  split <;> simp [upd]

theorem afterNonBase_stored {c : Cfg} {s : Sub} {l : Log} {g : Grp} (hg : g ∈ nonBase c l) (hn : 0 < s.needs g) :
    (afterNonBase c s l).results l = some .sct := by
  unfold afterNonBase
  dsimp only
  have : (nonBase c l).any (fun g => decide (s.needs g > 0)) = true := by
    rw [List.any_eq_true]
    exact ⟨g, hg, by simpa using hn⟩
  simp [this, upd]

theorem afterBase_spec {c : Cfg} {s1 s2 : Sub} {l : Log} (h : afterBase c s1 l = some s2) :
    (∀ g, g ≠ baseName → s2.needs g = s1.needs g) ∧
    (s2.needs baseName = s1.needs baseName ∨
      (s2.needs baseName = s1.needs baseName - 1 ∧ baseName ∈ groupsOf c l ∧ s2.results l = some .sct)) ∧
    (∀ l', l' ≠ l → s2.results l' = s1.results l') ∧
    (s2.results l = some .sct ∨ s2.results l = s1.results l) ∧
    (s1.results l = some .sct → s2.results l = some .sct) ∧
    s2.cancels = s1.cancels := by
  unfold afterBase at h
  split at h
  · rename_i hb
    split at h
    · cases h
    · rename_i r hr
      split at h
      · rename_i hsct
        cases h
        subst hsct
        refine ⟨fun g hg => by simp [upd, hg], Or.inr ⟨by simp [upd], hb, hr⟩, fun l' _ => rfl, Or.inr rfl, fun _ => hr, rfl⟩
      · split at h
        · cases h
          refine ⟨fun g hg => by simp [upd, hg], Or.inr ⟨by simp [upd], hb, by simp [upd]⟩,
            fun l' hl' => by simp [upd, hl'], Or.inl (by simp [upd]), fun _ => by simp [upd], rfl⟩
        · cases h
          exact ⟨fun _ _ => rfl, Or.inl rfl, fun _ _ => rfl, Or.inr rfl, fun h => h, rfl⟩
  · cases h
    exact ⟨fun _ _ => rfl, Or.inl rfl, fun _ _ => rfl, Or.inr rfl, fun h => h, rfl⟩

theorem setResult_ok_spec {c : Cfg} {s s' : Sub} {l : Log} {cs : List Log}
    (h : setResult c s l true = some (s', cs)) :
    (∀ g, s'.needs g ≤ s.needs g ∧ s.needs g - 1 ≤ s'.needs g) ∧
    (∀ g, s'.needs g < s.needs g → g ∈ groupsOf c l) ∧
    (∀ l', l' ≠ l → s'.results l' = s.results l') ∧
    (s'.results l = some .sct ∨ s'.results l = s.results l) ∧
    (∀ g, 0 < s.needs g → s'.needs g < s.needs g → s'.results l = some .sct) := by
  unfold setResult at h
  simp only [Bool.not_true, Bool.false_eq_true, if_false, Option.map_eq_some_iff] at h
  obtain ⟨s2, h2, hc⟩ := h
  have hs' : s'.needs = s2.needs ∧ s'.results = s2.results := by
    unfold afterCancel at hc
    cases hc
    exact ⟨rfl, rfl⟩
  obtain ⟨hB1, hB2, hB3, hB4, hB5, _⟩ := afterBase_spec h2
  have hN : ∀ g, (afterNonBase c s l).needs g = if g ∈ nonBase c l then s.needs g - 1 else s.needs g := fun _ => rfl
  have hbase : baseName ∉ nonBase c l := by simp [mem_nonBase]
  rw [hs'.1, hs'.2]
  refine ⟨?_, ?_, ?_, ?_, ?_⟩
  · intro g
    by_cases hg : g = baseName
    · subst hg
      have := hN baseName
      simp only [hbase, if_false] at this
      rcases hB2 with h | ⟨h, _, _⟩ <;> omega
    · have := hB1 g hg
      have h' := hN g
      split at h' <;> omega
  · intro g hlt
    by_cases hg : g = baseName
    · subst hg
      have := hN baseName
      simp only [hbase, if_false] at this
      rcases hB2 with h | ⟨h, hb, _⟩
      · omega
      · exact hb
    · have := hB1 g hg
      have h' := hN g
      split at h'
      · rename_i hm; exact (mem_nonBase.mp hm).1
      · omega
  · intro l' hl'
    rw [hB3 l' hl', afterNonBase_results_ne c s l l' hl']
  · rcases hB4 with h | h
    · exact Or.inl h
    · rw [h]; exact afterNonBase_results_eq c s l
  · intro g hpos hlt
    by_cases hg : g = baseName
    · subst hg
      have := hN baseName
      simp only [hbase, if_false] at this
      rcases hB2 with h | ⟨_, _, h⟩
      · omega
      · exact h
    · have := hB1 g hg
      have h' := hN g
      split at h'
      · rename_i hm
        exact hB5 (afterNonBase_stored hm hpos)
      · omega

theorem setResult_isSome {c : Cfg} {s : Sub} {l : Log} (ok : Bool) (h : s.results l ≠ none) :
    (setResult c s l ok).isSome = true := by
  unfold setResult
  cases ok
  · simp
  · simp only [Bool.not_true, Bool.false_eq_true, if_false, Option.isSome_map]
    unfold afterBase
    have h1 : (afterNonBase c s l).results l ≠ none := by
      rcases afterNonBase_results_eq c s l with h' | h' <;> rw [h'] <;> simp [h]
    split
    · split
      · rename_i hn; exact absurd hn h1
      · split
        · rfl
        · split <;> rfl
    · rfl

end CTV.Model.Races
