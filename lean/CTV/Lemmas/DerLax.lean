import CTV.Der.Asn1
/-!
# Strict vs lax: a simulation

`Rel s l` relates the result `s` of a strict parse to the result `l` of the lax parse of the same input:
a strict success is reproduced exactly; a strict failure is either also a lax failure, or it was raised at
one of the three documented relaxation points (`Documented`).
-/
namespace CTV.Der

/-- `checkInteger`'s minimality test fails on these content octets -/
def NonMinimalInt : Bytes → Prop
  | b0 :: b1 :: _ => (b0 = 0 ∧ b1.toNat < 128) ∨ (b0 = 0xff ∧ b1.toNat ≥ 128)
  | _ => False

/-- The malformations `lax` is documented to accept, as the strict parser reports them at the failing
position: a non-minimally encoded INTEGER, an empty OBJECT IDENTIFIER, a PrintableString with an octet
outside the alphabet whose content passes `couldBeISO8859_1` or `couldBeT61`. -/
def Documented : Err → Prop
  | .intNotMinimal c => NonMinimalInt c
  | .oidEmpty => True
  | .printable c => (c.all (fun b => isPrintable b true true) = false) ∧ (couldBeISO8859_1 c = true ∨ couldBeT61 c = true)
  | _ => False

def Rel {α : Type} (s l : Except Err α) : Prop :=
  match s with
  | .ok x => l = .ok x
  | .error e => (∃ e', l = .error e') ∨ Documented e

theorem Rel.refl {α} (x : Except Err α) : Rel x x := by
  cases x with
  | ok v => rfl
  | error e => exact Or.inl ⟨e, rfl⟩

theorem Rel.map {α β} (f : α → β) {s l : Except Err α} (h : Rel s l) : Rel (s.map f) (l.map f) := by
  cases s with
  | ok v => simp only [Rel] at h; subst h; rfl
  | error e =>
    simp only [Rel, Except.map] at h ⊢
    rcases h with ⟨e', rfl⟩ | h
    · exact Or.inl ⟨e', rfl⟩
    · exact Or.inr h

/-- One sequencing step of a simulation proof: `hd` is the strict parser's head term, `h : Rel hd hd'`.
Closes the error branch and leaves the success branch with both heads replaced by `Except.ok x`. -/
macro "rel_step " hd:term " with " h:term : tactic => `(tactic| (
  have hrel := $h
  revert hrel
  cases $hd:term
  · intro hrel
    rcases hrel with ⟨e', hl⟩ | hdoc
    · rw [hl]; exact Or.inl ⟨e', rfl⟩
    · exact Or.inr hdoc
  intro hrel
  simp only [Rel] at hrel
  rw [hrel]))

theorem checkInteger_rel (c : Bytes) : Rel (checkInteger false c) (checkInteger true c) := by
  match c with
  | [] => exact Or.inl ⟨_, rfl⟩
  | [_] => rfl
  | b0 :: b1 :: rest =>
    simp only [checkInteger, Bool.false_eq_true, if_false, if_true]
    split
    · rename_i h; exact Or.inr h
    · rfl

theorem parseBigInt_rel (c : Bytes) : Rel (parseBigInt false c) (parseBigInt true c) := by
  unfold parseBigInt
  have h := checkInteger_rel c
  revert h
  cases checkInteger false c with
  | ok u => intro h; simp only [Rel] at h; rw [h]; rfl
  | error e =>
    intro h; simp only [Rel] at h ⊢
    rcases h with ⟨e', h⟩ | h
    · rw [h]; exact Or.inl ⟨e', rfl⟩
    · exact Or.inr h

theorem parseInt64_rel (c : Bytes) : Rel (parseInt64 false c) (parseInt64 true c) := by
  unfold parseInt64
  have h := checkInteger_rel c
  revert h
  cases checkInteger false c with
  | ok u => intro h; simp only [Rel] at h; rw [h]; exact Rel.refl _
  | error e =>
    intro h; simp only [Rel] at h ⊢
    rcases h with ⟨e', h⟩ | h
    · rw [h]; exact Or.inl ⟨e', rfl⟩
    · exact Or.inr h

theorem parseInt32_rel (c : Bytes) : Rel (parseInt32 false c) (parseInt32 true c) := by
  unfold parseInt32
  have h := parseInt64_rel c
  revert h
  cases parseInt64 false c with
  | ok u => intro h; simp only [Rel] at h; rw [h]; exact Rel.refl _
  | error e =>
    intro h; simp only [Rel] at h ⊢
    rcases h with ⟨e', h⟩ | h
    · rw [h]; exact Or.inl ⟨e', rfl⟩
    · exact Or.inr h

theorem parseOID_rel (d : Dialect) (c : Bytes) : Rel (parseOID d false c) (parseOID d true c) := by
  unfold parseOID
  by_cases hc : c = []
  · simp only [hc, if_true, Bool.false_eq_true, if_false]; exact Or.inr trivial
  · simp only [hc, if_false]; exact Rel.refl _

theorem parsePrintableString_rel (c : Bytes) : Rel (parsePrintableString false c) (parsePrintableString true c) := by
  unfold parsePrintableString
  by_cases h : c.all (fun b => isPrintable b true true) = true
  · simp only [h, if_true]; rfl
  · simp only [h, if_false, Bool.not_false, Bool.not_true, if_true, Bool.false_eq_true]
    have h' : c.all (fun b => isPrintable b true true) = false := by simpa using h
    by_cases h1 : couldBeISO8859_1 c = true
    · exact Or.inr ⟨h', Or.inl h1⟩
    · by_cases h2 : couldBeT61 c = true
      · exact Or.inr ⟨h', Or.inr h2⟩
      · simp only [h1, h2]; exact Or.inl ⟨_, rfl⟩

theorem parseStringByTag_rel (tag : Nat) (c : Bytes) : Rel (parseStringByTag false tag c) (parseStringByTag true tag c) := by
  unfold parseStringByTag
  split
  · exact parsePrintableString_rel c
  · exact Rel.refl _

theorem isLax_strict : Mode.isLax .strict = false := rfl
theorem isLax_lax : Mode.isLax .lax = true := rfl
theorem isCanon_strict : Mode.isCanon .strict = false := rfl
theorem isCanon_lax : Mode.isCanon .lax = false := rfl
theorem under_strict (raw : Bool) : Mode.under .strict raw = .strict := by cases raw <;> rfl
theorem under_lax (raw : Bool) : Mode.under .lax raw = .lax := by cases raw <;> rfl
theorem forMode_strict (d : Dialect) : d.forMode .strict = d := rfl
theorem forMode_lax (d : Dialect) : d.forMode .lax = d := rfl

theorem parseLeaf_rel (d : Dialect) (t : ATy) (p : FP) (tl : TL) (utag : Nat) (inner consumed : Bytes) :
    Rel (parseLeaf d .strict t p tl utag inner consumed) (parseLeaf d .lax t p tl utag inner consumed) := by
  unfold parseLeaf
  simp only [isLax_strict, isLax_lax, isCanon_strict, isCanon_lax, Bool.false_and, Bool.false_eq_true, if_false]
  cases t with
  | oid => exact Rel.map _ (parseOID_rel d inner)
  | enum => exact Rel.map _ (parseInt32_rel inner)
  | bigInt => exact Rel.map _ (parseBigInt_rel inner)
  | int32 => exact Rel.map _ (parseInt32_rel inner)
  | int64 => exact Rel.map _ (parseInt64_rel inner)
  | str =>
    have h := parseStringByTag_rel utag inner
    revert h
    cases parseStringByTag false utag inner with
    | ok s => intro h; simp only [Rel] at h; rw [h]; rfl
    | error e =>
      intro h; simp only [Rel] at h ⊢
      rcases h with ⟨e', h⟩ | h
      · rw [h]; exact Or.inl ⟨e', rfl⟩
      · exact Or.inr h
  | _ => exact Rel.refl _

theorem parseElemsWith_rel (f g : Bytes → Except Err (AVal × Bytes)) (h : ∀ bs, Rel (f bs) (g bs)) :
    ∀ n bs, Rel (parseElemsWith f n bs) (parseElemsWith g n bs)
  | 0, _ => rfl
  | n+1, bs => by
    simp only [parseElemsWith]
    rel_step (f bs) with (h bs)
    rename_i x _
    obtain ⟨v, r⟩ := x
    simp only []
    rel_step (parseElemsWith f n r) with (parseElemsWith_rel f g h n r)
    rfl

theorem Rel.ite {α} {c : Prop} [Decidable c] {a a' b b' : Except Err α} (h1 : Rel a b) (h2 : Rel a' b') :
    Rel (if c then a else a') (if c then b else b') := by
  split <;> assumption

theorem anyInner_rel (d : Dialect) (tl : TL) (inner : Bytes) : Rel (anyInner d false tl inner) (anyInner d true tl inner) := by
  unfold anyInner
  repeat' (apply Rel.ite)
  all_goals first
    | exact Rel.map _ (parsePrintableString_rel _)
    | exact Rel.map _ (parseInt64_rel _)
    | exact Rel.map _ (parseOID_rel d _)
    | exact Rel.refl _

theorem parseAny_rel (d : Dialect) (bs : Bytes) : Rel (parseAny d false bs) (parseAny d true bs) := by
  unfold parseAny
  cases parseTagLen d bs with
  | error e => exact Or.inl ⟨e, rfl⟩
  | ok x =>
    obtain ⟨tl, r⟩ := x
    dsimp only
    split
    · exact Or.inl ⟨_, rfl⟩
    · rel_step (anyInner d false tl (r.take tl.len)) with (anyInner_rel d tl (r.take tl.len))
      rfl

theorem fieldShell_rel (d : Dialect) (t : ATy) (p : FP) (bs : Bytes) (k1 k2 : TL → Nat → Bytes → Bytes → Except Err AVal)
    (hk : ∀ tl utag inner consumed, Rel (k1 tl utag inner consumed) (k2 tl utag inner consumed)) :
    Rel (fieldShell d .strict t p bs k1) (fieldShell d .lax t p bs k2) := by
  unfold fieldShell absentResult
  simp only [isCanon_strict, isCanon_lax, isLax_strict, isLax_lax, Bool.false_and, Bool.false_eq_true, if_false, forMode_strict, forMode_lax]
  split
  · exact Rel.refl _
  · split
    · exact parseAny_rel d bs
    · cases header d t p bs with
      | error e => exact Or.inl ⟨e, rfl⟩
      | ok h =>
        cases h with
        | absent => rfl
        | flagSet rest => rfl
        | body tl utag inner rest consumed outer =>
          simp only []
          rel_step (k1 tl utag inner consumed) with (hk tl utag inner consumed)
          rfl

mutual
theorem parseField_rel (d : Dialect) : ∀ (t : ATy) (p : FP) (bs : Bytes),
    Rel (parseField d .strict t p bs) (parseField d .lax t p bs)
  | .struct raw fs, p, bs => by
    simp only [parseField]
    apply fieldShell_rel
    intro tl utag inner consumed
    simp only [isCanon_strict, isCanon_lax, Bool.false_and, Bool.false_eq_true, if_false, under_strict, under_lax]
    rel_step (parseFields d .strict fs inner) with (parseFields_rel d fs inner)
    rfl
  | .seqOf s e, p, bs => by
    simp only [parseField]
    apply fieldShell_rel
    intro tl utag inner consumed
    simp only [isCanon_strict, isCanon_lax, Bool.false_and, Bool.false_eq_true, if_false, forMode_strict, forMode_lax]
    split
    · exact Or.inl ⟨_, rfl⟩
    · cases countElems d (universalType e) (inner.length + 1) inner with
      | error err => exact Or.inl ⟨err, rfl⟩
      | ok n => exact Rel.map _ (parseElemsWith_rel _ _ (fun bs => parseField_rel d e {} bs) n inner)
  | .bool, p, bs => by simp only [parseField]; exact fieldShell_rel d _ p bs _ _ fun _ _ _ _ => parseLeaf_rel d _ p _ _ _ _
  | .int32, p, bs => by simp only [parseField]; exact fieldShell_rel d _ p bs _ _ fun _ _ _ _ => parseLeaf_rel d _ p _ _ _ _
  | .int64, p, bs => by simp only [parseField]; exact fieldShell_rel d _ p bs _ _ fun _ _ _ _ => parseLeaf_rel d _ p _ _ _ _
  | .bigInt, p, bs => by simp only [parseField]; exact fieldShell_rel d _ p bs _ _ fun _ _ _ _ => parseLeaf_rel d _ p _ _ _ _
  | .enum, p, bs => by simp only [parseField]; exact fieldShell_rel d _ p bs _ _ fun _ _ _ _ => parseLeaf_rel d _ p _ _ _ _
  | .bitString, p, bs => by simp only [parseField]; exact fieldShell_rel d _ p bs _ _ fun _ _ _ _ => parseLeaf_rel d _ p _ _ _ _
  | .octets, p, bs => by simp only [parseField]; exact fieldShell_rel d _ p bs _ _ fun _ _ _ _ => parseLeaf_rel d _ p _ _ _ _
  | .oid, p, bs => by simp only [parseField]; exact fieldShell_rel d _ p bs _ _ fun _ _ _ _ => parseLeaf_rel d _ p _ _ _ _
  | .str, p, bs => by simp only [parseField]; exact fieldShell_rel d _ p bs _ _ fun _ _ _ _ => parseLeaf_rel d _ p _ _ _ _
  | .rawValue, p, bs => by simp only [parseField]; exact fieldShell_rel d _ p bs _ _ fun _ _ _ _ => parseLeaf_rel d _ p _ _ _ _
  | .flag, p, bs => by simp only [parseField]; exact fieldShell_rel d _ p bs _ _ fun _ _ _ _ => parseLeaf_rel d _ p _ _ _ _
  | .time, p, bs => by simp only [parseField]; exact fieldShell_rel d _ p bs _ _ fun _ _ _ _ => parseLeaf_rel d _ p _ _ _ _
  | .any, p, bs => by simp only [parseField]; exact fieldShell_rel d _ p bs _ _ fun _ _ _ _ => parseLeaf_rel d _ p _ _ _ _
theorem parseFields_rel (d : Dialect) : ∀ (fs : AFields) (bs : Bytes),
    Rel (parseFields d .strict fs bs) (parseFields d .lax fs bs)
  | .nil, bs => by simp only [parseFields]; rfl
  | .cons p t rest, bs => by
    simp only [parseFields]
    rel_step (parseField d .strict t p bs) with (parseField_rel d t p bs)
    rename_i x _
    obtain ⟨v, r⟩ := x
    simp only []
    rel_step (parseFields d .strict rest r) with (parseFields_rel d rest r)
    rfl
end

end CTV.Der
