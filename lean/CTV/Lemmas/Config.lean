import CTV.Model.Config
/-! Helper lemmas for C15 (lists with "seen" accumulators, first failing check, table lookups). -/
namespace CTV.Model.Config
open CTV

theorem firstErr_ok (l : List (Bool × Reject)) : firstErr l = .ok () ↔ ∀ p ∈ l, p.1 = false := by
  induction l with
  | nil => simp [firstErr]
  | cons p rest ih =>
    obtain ⟨b, r⟩ := p
    cases b <;> simp [firstErr, ih]

theorem lookup_isSome_iff {α β} [BEq α] [LawfulBEq α] (l : List (α × β)) (a : α) :
    (l.lookup a).isSome = true ↔ a ∈ l.map Prod.fst := by
  induction l with
  | nil => simp
  | cons p rest ih =>
    obtain ⟨k, v⟩ := p
    by_cases h : a = k
    · subst h; simp [List.lookup]
    · have : (a == k) = false := by simpa using h
      simp [List.lookup, this, ih, h]

theorem ekuKnown_iff (n : String) : ekuKnown n = true ↔ n ∈ Gen.ekuTable.map Prod.fst :=
  lookup_isSome_iff _ _

theorem len_zero_iff (b : Bytes) : ((b.length : Int) = 0) ↔ b = [] := by
  constructor
  · intro h; exact List.length_eq_zero_iff.mp (by omega)
  · intro h; simp [h]

/-- the shape shared by the three "seen"-accumulator loops -/
theorem seen_step {α κ} (key : α → κ) (P : α → Prop) (c : α) (cs : List α) (seen : List κ)
    (hP : P c) (hs : key c ∉ seen) :
    ((∀ x ∈ cs, P x) ∧ (cs.map key).Nodup ∧ ∀ x ∈ cs, key x ∉ key c :: seen) ↔
    ((∀ x ∈ c :: cs, P x) ∧ ((c :: cs).map key).Nodup ∧ ∀ x ∈ c :: cs, key x ∉ seen) := by
  constructor
  · rintro ⟨h1, h2, h3⟩
    refine ⟨?_, ?_, ?_⟩
    · intro x hx
      rcases List.mem_cons.mp hx with rfl | hx
      · exact hP
      · exact h1 x hx
    · rw [List.map_cons, List.nodup_cons]
      refine ⟨?_, h2⟩
      intro hm
      rcases List.mem_map.mp hm with ⟨x, hx, hxe⟩
      exact h3 x hx (by rw [hxe]; exact List.mem_cons_self ..)
    · intro x hx
      rcases List.mem_cons.mp hx with rfl | hx
      · exact hs
      · exact fun hm => h3 x hx (List.mem_cons_of_mem _ hm)
  · rintro ⟨h1, h2, h3⟩
    rw [List.map_cons, List.nodup_cons] at h2
    refine ⟨fun x hx => h1 x (List.mem_cons_of_mem _ hx), h2.2, ?_⟩
    intro x hx hm
    rcases List.mem_cons.mp hm with hxe | hm
    · exact h2.1 (List.mem_map.mpr ⟨x, hx, hxe⟩)
    · exact h3 x (List.mem_cons_of_mem _ hx) hm

theorem prefixEmpty_iff (b : Bytes) : Gen.prefixEmpty (b.length : Int) = true ↔ b = [] := by
  unfold Gen.prefixEmpty; simp [len_zero_iff]
theorem backendNameEmpty_iff (b : Bytes) : Gen.backendNameEmpty (b.length : Int) = true ↔ b = [] := by
  unfold Gen.backendNameEmpty; simp [len_zero_iff]
theorem backendSpecEmpty_iff (b : Bytes) : Gen.backendSpecEmpty (b.length : Int) = true ↔ b = [] := by
  unfold Gen.backendSpecEmpty; simp [len_zero_iff]

theorem validateConfigsAux_ok (seen : List Bytes) (l : List LogConfig) :
    validateConfigsAux seen l = .ok () ↔
      (∀ c ∈ l, validate c = .ok () ∧ c.pfx ≠ []) ∧ (l.map (·.pfx)).Nodup ∧ ∀ c ∈ l, c.pfx ∉ seen := by
  induction l generalizing seen with
  | nil => simp [validateConfigsAux]
  | cons c cs ih =>
    cases hv : validate c with
    | error e =>
      simp only [validateConfigsAux, hv]
      constructor
      · intro h; cases h
      · rintro ⟨h, _⟩
        have := (h c (List.mem_cons_self ..)).1
        rw [hv] at this; cases this
    | ok u =>
      cases u
      simp only [validateConfigsAux, hv]
      by_cases he : c.pfx = []
      · rw [if_pos ((prefixEmpty_iff _).mpr he)]
        constructor
        · intro h; cases h
        · rintro ⟨h, _⟩; exact absurd he (h c (List.mem_cons_self ..)).2
      · rw [if_neg (fun h => he ((prefixEmpty_iff _).mp h))]
        by_cases hs : c.pfx ∈ seen
        · rw [if_pos (by simpa using hs)]
          constructor
          · intro h; cases h
          · rintro ⟨_, _, h⟩; exact absurd hs (h c (List.mem_cons_self ..))
        · rw [if_neg (by simpa using hs), ih]
          exact seen_step (·.pfx) (fun c => validate c = .ok () ∧ c.pfx ≠ []) c cs seen ⟨hv, he⟩ hs

theorem dupFree_iff {α} [BEq α] [LawfulBEq α] (seen l : List α) :
    dupFree seen l = true ↔ l.Nodup ∧ ∀ a ∈ l, a ∉ seen := by
  induction l generalizing seen with
  | nil => simp [dupFree]
  | cons a as ih =>
    by_cases hs : a ∈ seen
    · have : seen.contains a = true := by simpa using hs
      simp only [dupFree, this, Bool.not_true, Bool.false_and]
      constructor
      · intro h; cases h
      · rintro ⟨_, h⟩; exact absurd hs (h a (List.mem_cons_self ..))
    · have : seen.contains a = false := by simpa using hs
      simp only [dupFree, this, Bool.not_false, Bool.true_and, ih]
      have := seen_step (fun x : α => x) (fun _ => True) a as seen trivial hs
      simp only [List.map_id_fun', id_eq, implies_true, true_and] at this
      exact this

theorem buildBackendMapAux_ok (names specs : List Bytes) (bs : List Backend) (r : List Bytes) :
    buildBackendMapAux names specs bs = .ok r ↔
      ((∀ b ∈ bs, b.name ≠ [] ∧ b.spec ≠ []) ∧ (bs.map (·.name)).Nodup ∧ ∀ b ∈ bs, b.name ∉ names) ∧
      ((∀ b ∈ bs, True) ∧ (bs.map (·.spec)).Nodup ∧ ∀ b ∈ bs, b.spec ∉ specs) ∧
      r = names.reverse ++ bs.map (·.name) := by
  induction bs generalizing names specs with
  | nil =>
    simp only [buildBackendMapAux, Except.ok.injEq, List.not_mem_nil, false_imp_iff, implies_true, List.map_nil,
      List.nodup_nil, List.append_nil, true_and, and_self]
    exact eq_comm
  | cons b bs ih =>
    simp only [buildBackendMapAux]
    by_cases hn : b.name = []
    · rw [if_pos ((backendNameEmpty_iff _).mpr hn)]
      constructor
      · intro h; cases h
      · rintro ⟨⟨h, _⟩, _⟩; exact absurd hn (h b (List.mem_cons_self ..)).1
    rw [if_neg (fun h => hn ((backendNameEmpty_iff _).mp h))]
    by_cases hsp : b.spec = []
    · rw [if_pos ((backendSpecEmpty_iff _).mpr hsp)]
      constructor
      · intro h; cases h
      · rintro ⟨⟨h, _⟩, _⟩; exact absurd hsp (h b (List.mem_cons_self ..)).2
    rw [if_neg (fun h => hsp ((backendSpecEmpty_iff _).mp h))]
    by_cases h1 : b.name ∈ names
    · rw [if_pos (by simpa using h1)]
      constructor
      · intro h; cases h
      · rintro ⟨⟨_, _, h⟩, _⟩; exact absurd h1 (h b (List.mem_cons_self ..))
    rw [if_neg (by simpa using h1)]
    by_cases h2 : b.spec ∈ specs
    · rw [if_pos (by simpa using h2)]
      constructor
      · intro h; cases h
      · rintro ⟨_, ⟨_, _, h⟩, _⟩; exact absurd h2 (h b (List.mem_cons_self ..))
    rw [if_neg (by simpa using h2), ih]
    rw [seen_step (·.name) (fun b => b.name ≠ [] ∧ b.spec ≠ []) b bs names ⟨hn, hsp⟩ h1,
        seen_step (·.spec) (fun _ => True) b bs specs trivial h2]
    simp only [List.reverse_cons, List.append_assoc, List.singleton_append, List.map_cons]

theorem refsAux_ok (names : List Bytes) (seen : List (Bytes × Int)) (l : List LogConfig) :
    refsAux names seen l = .ok () ↔
      (∀ c ∈ l, c.backend ∈ names) ∧ (l.map fun c => (c.backend, c.logId)).Nodup ∧
      ∀ c ∈ l, (c.backend, c.logId) ∉ seen := by
  induction l generalizing seen with
  | nil => simp [refsAux]
  | cons c cs ih =>
    simp only [refsAux]
    by_cases hb : c.backend ∈ names
    · rw [if_neg (by simpa using hb)]
      by_cases hs : (c.backend, c.logId) ∈ seen
      · rw [if_pos (by simpa using hs)]
        constructor
        · intro h; cases h
        · rintro ⟨_, _, h⟩; exact absurd hs (h c (List.mem_cons_self ..))
      · rw [if_neg (by simpa using hs), ih]
        exact seen_step (fun c : LogConfig => (c.backend, c.logId)) (fun c => c.backend ∈ names) c cs seen hb hs
    · rw [if_pos (by simpa using hb)]
      constructor
      · intro h; cases h
      · rintro ⟨h, _⟩; exact absurd (h c (List.mem_cons_self ..)) hb

theorem hasPrefix_sound (s p : Bytes) (h : hasPrefix s p = true) : s = p ++ s.drop p.length := by
  induction p generalizing s with
  | nil => simp
  | cons b p ih =>
    cases s with
    | nil => simp [hasPrefix] at h
    | cons a s =>
      simp only [hasPrefix, Bool.and_eq_true, beq_iff_eq] at h
      obtain ⟨rfl, h2⟩ := h
      simp only [List.length_cons, List.drop_succ_cons, List.cons_append, List.cons.injEq, true_and]
      exact ih s h2

/-- `splitOnce` cuts at an occurrence of the separator: `s = before ++ sep ++ after`. -/
theorem splitOnce_sound (s sep a b : Bytes) (h : splitOnce s sep = some (a, b)) : s = a ++ sep ++ b := by
  induction s generalizing a with
  | nil => simp [splitOnce] at h
  | cons x s ih =>
    simp only [splitOnce] at h
    split at h
    · rename_i hp
      simp only [Option.some.injEq, Prod.mk.injEq] at h
      obtain ⟨rfl, rfl⟩ := h
      simpa using hasPrefix_sound _ _ hp
    · cases hs : splitOnce s sep with
      | none => simp [hs] at h
      | some p =>
        obtain ⟨h1, t⟩ := p
        simp only [hs, Option.some.injEq, Prod.mk.injEq] at h
        obtain ⟨rfl, rfl⟩ := h
        simp [ih h1 hs]

theorem head_dropWhile_not {α} (p : α → Bool) (l : List α) (a : α) (h : (l.dropWhile p).head? = some a) : p a = false := by
  induction l with
  | nil => simp at h
  | cons x xs ih =>
    simp only [List.dropWhile] at h
    cases hp : p x with
    | true => simp only [hp] at h; exact ih h
    | false => simp only [hp, List.head?_cons, Option.some.injEq] at h; subst h; exact hp

theorem dropWhile_suffix {α} (p : α → Bool) (l : List α) : ∃ t, l = t ++ l.dropWhile p ∧ ∀ x ∈ t, p x = true := by
  induction l with
  | nil => exact ⟨[], rfl, by simp⟩
  | cons x xs ih =>
    simp only [List.dropWhile]
    cases hp : p x with
    | false => exact ⟨[], rfl, by simp⟩
    | true =>
      obtain ⟨t, ht, hall⟩ := ih
      refine ⟨x :: t, by simp [← ht], ?_⟩
      intro y hy
      rcases List.mem_cons.mp hy with rfl | hy
      · exact hp
      · exact hall y hy

/-- `strings.TrimRight(s, b)`: what is left does not end in `b`, and only `b`s were removed from the end -/
theorem trimRightByte_spec (b : UInt8) (s : Bytes) :
    (trimRightByte b s).getLast? ≠ some b ∧ ∃ t, s = trimRightByte b s ++ t ∧ ∀ x ∈ t, x = b := by
  unfold trimRightByte
  constructor
  · rw [List.getLast?_reverse]
    intro h
    have := head_dropWhile_not (· == b) s.reverse b h
    simp at this
  · obtain ⟨t, ht, hall⟩ := dropWhile_suffix (· == b) s.reverse
    refine ⟨t.reverse, ?_, ?_⟩
    · have := congrArg List.reverse ht
      simpa using this
    · intro x hx
      have := hall x (by simpa using hx)
      simpa using this

theorem wrap64_le_self (n : Int) (h : 0 ≤ n) : I64.wrap64 n ≤ n := by
  unfold I64.wrap64; omega

end CTV.Model.Config
