import CTV.Lemmas.RacesProgress
/-! Lemmas for the partial liveness theorem of C17: when every request has completed successfully and the caller has
not cancelled, every group of a Chrome-shaped or Apple-shaped policy is complete. -/
namespace CTV.Model.Races

/-! ### more facts about `request` and `setResult` -/

theorem request_results_ne_none (c : Cfg) (s : Sub) (l l' : Log) (h : s.results l' ≠ none) :
    (request c s l).1.results l' ≠ none := by
  rw [request_results]
  split
  · simp
  · exact h

theorem request_results_self (c : Cfg) (s : Sub) (l : Log) : (request c s l).1.results l ≠ none := by
  rw [request_results]
  split
  · simp
  · rename_i h
    intro hn
    exact h ⟨rfl, hn⟩

/-- a refused request for a log nobody asked before means that no group of the log is still waiting -/
theorem request_refused {c : Cfg} {s : Sub} {l : Log} (h : (request c s l).2 = false) (hn : s.results l = none) :
    ∀ g ∈ groupsOf c l, s.needs g ≤ 0 := by
  unfold request at h
  simp only [hn, Option.isSome_none, Bool.false_eq_true, if_false] at h
  split at h
  · simp at h
  · rename_i ha
    intro g hg
    have : awaited c { s with results := upd s.results l (some .empty) } l = false := by
      cases hh : awaited c { s with results := upd s.results l (some .empty) } l
      · rfl
      · exact absurd hh ha
    unfold awaited at this
    rw [List.any_eq_false] at this
    have := this g hg
    simpa using this

theorem setResult_results_ne_none {c : Cfg} {s s' : Sub} {l : Log} {ok : Bool} {cs : List Log}
    (h : setResult c s l ok = some (s', cs)) (l' : Log) (hn : s.results l' ≠ none) : s'.results l' ≠ none := by
  cases ok
  · rw [setResult_err] at h
    cases h
    simp only [upd]
    split
    · simp
    · exact hn
  · obtain ⟨_, _, h3, h4, _⟩ := setResult_ok_spec h
    by_cases he : l' = l
    · subst he
      rcases h4 with h4 | h4
      · rw [h4]; simp
      · rw [h4]; exact hn
    · rw [h3 l' he]; exact hn

theorem setResult_needs_le {c : Cfg} {s s' : Sub} {l : Log} {ok : Bool} {cs : List Log}
    (h : setResult c s l ok = some (s', cs)) (g : Grp) : s'.needs g ≤ s.needs g := by
  cases ok
  · rw [setResult_err] at h
    cases h
    exact Int.le_refl _
  · exact ((setResult_ok_spec h).1 g).1

/-- exact effect of a successful result on the non-base groups -/
theorem setResult_ok_nonbase {c : Cfg} {s s' : Sub} {l : Log} {cs : List Log}
    (h : setResult c s l true = some (s', cs)) (g : Grp) (hg : g ≠ baseName) :
    s'.needs g = if g ∈ groupsOf c l then s.needs g - 1 else s.needs g := by
  unfold setResult at h
  simp only [Bool.not_true, Bool.false_eq_true, if_false, Option.map_eq_some_iff] at h
  obtain ⟨s2, h2, hc⟩ := h
  have hs' : s'.needs = s2.needs := by
    unfold afterCancel at hc
    cases hc
    rfl
  rw [hs', (afterBase_spec h2).1 g hg]
  show (if g ∈ nonBase c l then s.needs g - 1 else s.needs g) = _
  simp only [mem_nonBase, hg, ne_eq, not_false_eq_true, and_true]

/-- when a successful result from a log of the base group leaves the base group's need unchanged although it is
positive, no non-base group of the log was waiting and the base need does not exceed what is reserved for the other
groups -/
theorem setResult_ok_base_kept {c : Cfg} {s s' : Sub} {l : Log} {cs : List Log}
    (h : setResult c s l true = some (s', cs)) (hb : baseName ∈ groupsOf c l) (he : s.results l = some .empty)
    (hkeep : s'.needs baseName = s.needs baseName) (hpos : 0 < s.needs baseName) :
    (∀ g ∈ nonBase c l, s.needs g ≤ 0) ∧ s.needs baseName ≤ sumOther c (afterNonBase c s l) := by
  unfold setResult at h
  simp only [Bool.not_true, Bool.false_eq_true, if_false, Option.map_eq_some_iff] at h
  obtain ⟨s2, h2, hc⟩ := h
  have hs' : s'.needs = s2.needs := by
    unfold afterCancel at hc
    cases hc
    rfl
  rw [hs'] at hkeep
  have hbn : baseName ∉ nonBase c l := by simp [mem_nonBase]
  have hN : (afterNonBase c s l).needs baseName = s.needs baseName := by
    show (if baseName ∈ nonBase c l then _ else _) = _
    simp [hbn]
  -- was the result stored by a non-base group?
  by_cases hst : (nonBase c l).any (fun g => decide (s.needs g > 0)) = true
  · -- then the base need is decremented: contradiction
    exfalso
    have hr : (afterNonBase c s l).results l = some .sct := by
      unfold afterNonBase
      simp [hst, upd]
    unfold afterBase at h2
    simp only [hb, if_true, hr] at h2
    cases h2
    simp only [upd, if_true] at hkeep
    omega
  · have hall : ∀ g ∈ nonBase c l, s.needs g ≤ 0 := by
      intro g hg
      have hf : (nonBase c l).any (fun g => decide (s.needs g > 0)) = false := by
        cases hh : (nonBase c l).any (fun g => decide (s.needs g > 0))
        · rfl
        · exact absurd hh hst
      rw [List.any_eq_false] at hf
      have := hf g hg
      simpa using this
    refine ⟨hall, ?_⟩
    have hr : (afterNonBase c s l).results l = some .empty := by
      unfold afterNonBase
      simp [hst, he]
    unfold afterBase at h2
    simp only [hb, if_true, hr] at h2
    by_cases hcond : (afterNonBase c s l).needs baseName > 0 ∧ (afterNonBase c s l).needs baseName > sumOther c (afterNonBase c s l)
    · exfalso
      simp only [hcond, and_self, if_true] at h2
      simp at h2
      cases h2
      simp only [upd, if_true] at hkeep
      omega
    · rw [hN] at hcond
      omega

/-! ### invariants about requests that were refused or completed -/

structure Live (r : Run) (s : St) : Prop where
  /-- without cancellation, a goroutine of a group that is still waiting only finishes after it asked for its log -/
  k2 : s.ctx = false → ∀ g ∈ r.cfg, ∀ l ∈ r.session g.name, s.gor g.name l = .finished → 0 < s.sub.needs g.name →
    s.sub.results l ≠ none
  /-- a log that was asked for but never contacted was not awaited by any group -/
  k3 : ∀ l, s.sub.results l ≠ none → l ∉ s.submitted → ∀ g ∈ groupsOf r.cfg l, s.sub.needs g ≤ 0

theorem live_init (r : Run) : Live r (St.init r) where
  k2 := by intro _ g _ l _ h; simp [St.init] at h
  k3 := by intro l h; simp [St.init, Sub.init] at h

theorem live_step {r : Run} {s s' : St} (hi : Inv r s) (h : Live r s) (o : Op) (hs : step r s o = some s') : Live r s' := by
  cases o with
  | timerFire g l =>
    simp only [step] at hs
    split at hs
    · rename_i hc
      cases hs
      refine ⟨?_, h.k3⟩
      intro hctx grp hgrp l' hl' hfin hpos
      simp only [setGor] at hfin
      split at hfin
      · rename_i he
        split at hfin
        · rename_i hcomp
          simp only [complete, decide_eq_true_eq] at hcomp
          rw [he.1] at hpos
          have : s.sub.needs g ≤ 0 := hcomp
          have hp : 0 < s.sub.needs g := hpos
          omega
        · cases hfin
      · exact h.k2 hctx grp hgrp l' hl' hfin hpos
    · cases hs
  | abort g l =>
    simp only [step] at hs
    split at hs
    · rename_i hc
      cases hs
      refine ⟨?_, h.k3⟩
      intro hctx
      have : s.ctx = true := hc.1
      simp [setGor, this] at hctx
    · cases hs
  | request g l =>
    simp only [step] at hs
    split at hs
    case isFalse => cases hs
    rename_i hchk
    have hneeds := request_needs r.cfg s.sub l
    split at hs
    · rename_i hgr
      cases hs
      constructor
      · intro hctx grp hgrp l' hl' hfin hpos
        simp only [setGor] at hfin
        split at hfin
        · cases hfin
        · have hpos' : 0 < s.sub.needs grp.name := by
            have : (request r.cfg s.sub l).1.needs grp.name = s.sub.needs grp.name := by rw [hneeds]
            rw [← this]; exact hpos
          exact request_results_ne_none _ _ _ _ (h.k2 hctx grp hgrp l' hl' hfin hpos')
      · intro l' hne hns g' hg'
        show (request r.cfg s.sub l).1.needs g' ≤ 0
        rw [hneeds]
        have hne' : (request r.cfg s.sub l).1.results l' ≠ none := hne
        have hns' : l' ∉ l :: s.submitted := hns
        have hl'l : l' ≠ l := fun he => hns' (he ▸ List.mem_cons_self)
        rw [request_results] at hne'
        have : s.sub.results l' ≠ none := by
          split at hne'
          · rename_i hc; exact absurd hc.1 hl'l
          · exact hne'
        exact h.k3 l' this (fun hm => hns' (List.mem_cons_of_mem _ hm)) g' hg'
    · rename_i hgr
      have hden : (request r.cfg s.sub l).2 = false := by
        cases hh : (request r.cfg s.sub l).2
        · rfl
        · exact absurd hh hgr
      cases hs
      constructor
      · intro hctx grp hgrp l' hl' hfin hpos
        have hpos' : 0 < s.sub.needs grp.name := by
          have : (request r.cfg s.sub l).1.needs grp.name = s.sub.needs grp.name := by rw [hneeds]
          rw [← this]; exact hpos
        simp only [setGor] at hfin
        split at hfin
        · rename_i he
          rw [he.2]
          exact request_results_self _ _ _
        · exact request_results_ne_none _ _ _ _ (h.k2 hctx grp hgrp l' hl' hfin hpos')
      · intro l' hne hns g' hg'
        show (request r.cfg s.sub l).1.needs g' ≤ 0
        rw [hneeds]
        have hne' : (request r.cfg s.sub l).1.results l' ≠ none := hne
        by_cases hold : s.sub.results l' ≠ none
        · exact h.k3 l' hold hns g' hg'
        · have hnone : s.sub.results l' = none := by
            cases hh : s.sub.results l' with
            | none => rfl
            | some x => exact absurd (by rw [hh]; simp) hold
          rw [request_results] at hne'
          split at hne'
          · rename_i hc
            rw [hc.1] at hg'
            exact request_refused hden hc.2 g' hg'
          · exact absurd hnone hne'
    | setResult g l ok =>
    simp only [step] at hs
    split at hs
    case isFalse => cases hs
    rename_i hinf
    split at hs
    case h_2 => cases hs
    rename_i p hp
    cases hs
    constructor
    · intro hctx grp hgrp l' hl' hfin hpos
      have hpos' : 0 < s.sub.needs grp.name := Int.lt_of_lt_of_le hpos (setResult_needs_le hp grp.name)
      simp only [setGor] at hfin
      split at hfin
      · rename_i he
        rw [he.2]
        exact setResult_results_ne_none hp l (by rw [(hi.owner g l hinf).1]; simp)
      · exact setResult_results_ne_none hp l' (h.k2 hctx grp hgrp l' hl' hfin hpos')
    · intro l' hne hns g' hg'
      have hne' : p.1.results l' ≠ none := hne
      have hns' : l' ∉ s.submitted := hns
      have hl'l : l' ≠ l := fun he => hns' (he ▸ hi.infl_sub g l hinf)
      have hold : s.sub.results l' ≠ none := by
        cases ok
        · rw [setResult_err] at hp
          cases hp
          simp only [upd, hl'l, if_false] at hne'
          exact hne'
        · obtain ⟨_, _, h3, _, _⟩ := setResult_ok_spec (cs := p.2) (s' := p.1) (by simpa using hp)
          rw [h3 l' hl'l] at hne'
          exact hne'
      exact Int.le_trans (setResult_needs_le hp g') (h.k3 l' hold hns' g' hg')
  | groupDone g =>
    simp only [step] at hs
    split at hs
    · cases hs; exact ⟨h.k2, h.k3⟩
    · cases hs
  | recv g =>
    simp only [step] at hs
    split at hs
    · split at hs
      · cases hs; exact ⟨h.k2, h.k3⟩
      · cases hs
    · cases hs
  | ctxDone =>
    simp only [step] at hs
    split at hs
    · cases hs
    · cases hs
      exact ⟨by intro hc; simp at hc, h.k3⟩
  | collect =>
    simp only [step] at hs
    split at hs
    · cases hs; exact ⟨h.k2, h.k3⟩
    · cases hs

theorem live_exec {r : Run} (wf : WF r) : ∀ (ops : List Op) {s : St}, Inv r s → Live r s →
    Inv r (exec r s ops) ∧ Live r (exec r s ops)
  | [], _, hi, hl => ⟨hi, hl⟩
  | o :: os, s, hi, hl => by
    unfold exec
    cases hs : step r s o with
    | none => simpa using live_exec wf os hi hl
    | some s' => simpa using live_exec wf os (inv_step wf hi o hs) (live_step hi hl o hs)

/-! ### answered logs -/

/-- the log was contacted and no `SubmitToLog` call for it is pending: its result has been processed -/
def answeredB (r : Run) (s : St) (l : Log) : Bool :=
  decide (l ∈ s.submitted) && (names r.cfg).all (fun g => decide (s.gor g l ≠ .inflight))

/-- members of `L` outside `bad` whose answer is still outstanding (`bad`: the logs that fail or hang) -/
def uns (r : Run) (s : St) (bad : Log → Bool) (L : List Log) : Nat :=
  (L.filter (fun l => !answeredB r s l && !bad l)).length

/-- every log that has answered with an error is in `bad` -/
def ErrIn (bad : Log → Bool) (s : St) : Prop := ∀ l, s.sub.results l = some .err → bad l = true

theorem length_le_of_nodup_subset : ∀ {A C : List Nat}, A.Nodup → (∀ x ∈ A, x ∈ C) → A.length ≤ C.length
  | [], _, _, _ => by simp
  | a :: as, C, hn, hsub => by
    rw [List.nodup_cons] at hn
    have ha : a ∈ C := hsub a List.mem_cons_self
    have hsub' : ∀ x ∈ as, x ∈ C.erase a := by
      intro x hx
      have hne : x ≠ a := fun h => hn.1 (h ▸ hx)
      exact (List.mem_erase_of_ne hne).mpr (hsub x (List.mem_cons_of_mem _ hx))
    have := length_le_of_nodup_subset hn.2 hsub'
    rw [List.length_erase_of_mem ha] at this
    have hpos : 0 < C.length := List.length_pos_of_mem ha
    simp only [List.length_cons]
    omega

/-- two disjoint duplicate-free parts of a list hold, together, at most as many elements with a property as the list -/
theorem filter_disjoint_le {A B C : List Nat} (p : Nat → Bool) (hA : A.Nodup) (hB : B.Nodup)
    (hd : ∀ x ∈ A, x ∉ B) (hAC : ∀ x ∈ A, x ∈ C) (hBC : ∀ x ∈ B, x ∈ C) :
    (A.filter p).length + (B.filter p).length ≤ (C.filter p).length := by
  have hn : (A.filter p ++ B.filter p).Nodup := by
    rw [List.nodup_append]
    refine ⟨hA.sublist List.filter_sublist, hB.sublist List.filter_sublist, ?_⟩
    intro a ha b hb hab
    subst hab
    exact hd a (List.mem_filter.mp ha).1 (List.mem_filter.mp hb).1
  have hsub : ∀ x ∈ A.filter p ++ B.filter p, x ∈ C.filter p := by
    intro x hx
    rcases List.mem_append.mp hx with h | h
    · exact List.mem_filter.mpr ⟨hAC x (List.mem_filter.mp h).1, (List.mem_filter.mp h).2⟩
    · exact List.mem_filter.mpr ⟨hBC x (List.mem_filter.mp h).1, (List.mem_filter.mp h).2⟩
  have := length_le_of_nodup_subset hn hsub
  simpa [List.length_append] using this

theorem uns_congr {r : Run} {s s' : St} {bad : Log → Bool} (L : List Log)
    (h : ∀ l ∈ L, bad l = false → answeredB r s' l = answeredB r s l) :
    uns r s' bad L = uns r s bad L := by
  unfold uns
  congr 1
  apply List.filter_congr
  intro l hl
  cases hb : bad l
  · rw [h l hl hb]
  · simp

/-- a log that becomes answered leaves the outstanding part of every duplicate-free list it belongs to -/
theorem uns_answer {r : Run} {s s' : St} {bad : Log → Bool} {L : List Log} {l : Log} (hn : L.Nodup) (hl : l ∈ L)
    (hgood : bad l = false)
    (hb : answeredB r s l = false) (ha : answeredB r s' l = true)
    (hrest : ∀ x, x ≠ l → answeredB r s' x = answeredB r s x) : uns r s bad L = uns r s' bad L + 1 := by
  unfold uns
  apply filter_length_succ hn hl
  · simp [ha]
  · simp [hb, hgood]
  · intro x hx
    rw [hrest x hx]

/-- the answer of a `bad` log, or of a log outside `L`, does not change the outstanding good part of `L` -/
theorem uns_other {r : Run} {s s' : St} {bad : Log → Bool} {L : List Log} {l : Log} (h : bad l = true ∨ l ∉ L)
    (hrest : ∀ x, x ≠ l → answeredB r s' x = answeredB r s x) : uns r s' bad L = uns r s bad L := by
  apply uns_congr
  intro x hx hbx
  apply hrest
  intro he
  subst he
  rcases h with h | h
  · rw [h] at hbx; cases hbx
  · exact h hx

theorem pos_length_of_mem_filter {L : List Nat} {p : Nat → Bool} {l : Nat} (hl : l ∈ L) (hp : p l = true) :
    0 < (L.filter p).length :=
  List.length_pos_of_mem (List.mem_filter.mpr ⟨hl, hp⟩)

end CTV.Model.Races
